/-
  C10 — Correlated observations are weighted by their full covariance matrix.

  Property theorems only (obligations) + non-vacuity examples; proofs live in
  Lemmas/CovPacked, CovGetSet, CovActive, CovScale, CovCholStep, CovChol, CovFwd, CovWhiten, CovParse.
  Models: Model/Packed, ActiveCov, BandChol, CovParse (tied to the C++ by harness/c10_cov.cpp,
  Driver/Cov.lean and gama-local runs; see tools/props/c10.py).
-/
import Gama.Lemmas.CovPacked
import Gama.Lemmas.CovActive
import Gama.Lemmas.CovScale
import Gama.Lemmas.CovChol
import Gama.Lemmas.CovFwd
import Gama.Lemmas.CovWhiten
import Gama.Lemmas.CovParse
import Gama.Lemmas.CovCholPtr
import Gama.Lemmas.CovCholPD
import Gama.Lemmas.CovBandMat
import Gama.Lemmas.CovBridge
import Gama.Lemmas.CovAgree
import Gama.Lemmas.CovNotPD
import Gama.Lemmas.CovParseGkfBridge
import Gama.Lemmas.CovHomRun
import Mathlib.Analysis.SpecialFunctions.Sqrt
import Mathlib.Tactic.NormNum
namespace Gama.Props.C10
open Gama Gama.Cov Gama.Cov.Packed Matrix

/-! ## packed storage -/

/-- `CovMat::operator()` on a `CovMat(d,b)` with `b ≤ d`: the offset map is a bijection from the band
    `{(i,j) | 1 ≤ i ≤ j ≤ min(d, i+b)}` onto `[0, d(b+1) - b(b+1)/2)`:
    every in-band access is inside the buffer, no two entries alias, every cell is used. -/
theorem C10_packed_bijection (d b : Nat) (hb : b ≤ d) :
    (∀ i j, InBand d b i j → ∃ k, idx d b i j = some k ∧ 0 ≤ k ∧ k < size d b) ∧
    (∀ i j i' j' k, InBand d b i j → InBand d b i' j' → idx d b i j = some k → idx d b i' j' = some k →
        i = i' ∧ j = j') ∧
    (∀ k, 0 ≤ k → k < size d b → ∃ i j, InBand d b i j ∧ idx d b i j = some k) := by
  refine ⟨?_, ?_, ?_⟩
  · intro i j h
    exact ⟨off d b i j, idx_upper h, (off_bounds hb h).1, (off_bounds hb h).2⟩
  · intro i j i' j' k h h' e e'
    rw [idx_upper h] at e; rw [idx_upper h'] at e'
    exact off_inj hb h h' (by rw [Option.some.inj e, Option.some.inj e'])
  · intro k h0 hk
    obtain ⟨i, j, hin, e⟩ := off_surj hb k h0 hk
    exact ⟨i, j, hin, by rw [idx_upper hin, e]⟩

/-- symmetric access, and the band test: outside the band there is no offset
    (const `operator()` returns 0, the non-const one throws `BadIndex`) -/
theorem C10_packed_access (d b i j : Nat) :
    idx d b i j = idx d b j i ∧ (i ≤ j → j > i + b → idx d b i j = none) :=
  ⟨idx_symm d b i j, fun h1 h2 => idx_none h1 h2⟩

/-- `BandMat` ("diagonal storage", buffer `d(b+1)`): every in-band access is inside the buffer, no two
    entries alias, access is symmetric, outside the band there is no offset.  (Not onto: the cells
    `(i-1)(b+1)+t` with `i+t > d` are padding — `Lemmas/CovBandMat.cell_used_iff`.) -/
theorem C10_bandmat_index (d b : Nat) :
    (∀ i j, InBand d b i j → ∃ k, bandIdx b i j = some k ∧ 0 ≤ k ∧ k < bandSize d b) ∧
    (∀ i j i' j' k, InBand d b i j → InBand d b i' j' → bandIdx b i j = some k → bandIdx b i' j' = some k →
        i = i' ∧ j = j') ∧
    (∀ i j, bandIdx b i j = bandIdx b j i) ∧ (∀ i j, i ≤ j → j > i + b → bandIdx b i j = none) :=
  bandIdx_bijection_onto_image d b

example : InBand 4 2 2 4 ∧ idx 4 2 2 4 = some 5 ∧ size 4 2 = 9 := by decide
example : idx 4 2 1 4 = none := by decide

/-! ## excluded observations: `Cluster::activeCov` -/

/-- For every cluster (observations of any dimensions), every band width and every subset of excluded
    observations: `activeCov()` is well formed, has one row per active row index, band `min(b, N-1)`,
    and equals the principal sub-matrix `cov(ind i, ind j)` for ALL `1 ≤ i, j ≤ N` — inside the new
    band by the copy loop, outside of it because the index list is strictly increasing, so nothing
    of the original matrix is lost. -/
theorem C10_activeCov_submatrix {K : Type} [Zero K] (cov : CovMat K) (obs : List ObsInfo) :
    let ind := (activeIdx 1 obs).toArray
    let R := activeCov cov obs
    R.WF ∧ R.dim = ind.size ∧ R.band = actBand cov.band ind.size ∧
    (∀ a b, a < b → b < ind.size → ind.getD a 0 < ind.getD b 0) ∧
    ∀ i j, 1 ≤ i → i ≤ ind.size → 1 ≤ j → j ≤ ind.size →
      R.get i j = cov.get (ind.getD (i - 1) 0) (ind.getD (j - 1) 0) := by
  intro ind R
  obtain ⟨h1, h2, h3, h4⟩ := activeCov_submatrix cov obs
  exact ⟨h1, h2, h3, activeIdx_increasing 1 obs, h4⟩

/-- the band of the result never exceeds what `process_cov` / `CovMat` require (`band < dim` or both 0) -/
theorem C10_activeCov_band (covBand N : Nat) : actBand covBand N ≤ N ∧ (N ≠ 0 → actBand covBand N < N) := by
  refine ⟨actBand_le _ _, ?_⟩
  intro h; unfold actBand; simp only [h, ne_eq, not_false_eq_true, if_true]; split <;> omega

example : activeIdx 1 [⟨true, 1⟩, ⟨false, 2⟩, ⟨true, 3⟩] = [1, 4, 5, 6] := by decide
example : (activeCov (K := Int) ⟨4, 1, #[4, 1, 5, 1, 6, 1, 7]⟩ [⟨true, 1⟩, ⟨false, 1⟩, ⟨true, 1⟩, ⟨true, 1⟩]).buf
    = #[4, 0, 6, 1, 7] := by decide

/-! ## `Cluster::scaleCov` -/

/-- `scaleCov(p, s)` (used for standard deviations given in sexagesimal seconds) never throws for
    `1 ≤ p ≤ dim`, keeps the shape, and is `D C D` with `D = diag(1,…,s,…,1)` (`s` at position `p`):
    row and column `p` are scaled by `s`, the diagonal element by `s²`. -/
theorem C10_scaleCov {K : Type} [CommRing K] (cov : CovMat K) (h : cov.WF) (p : Nat) (hp1 : 1 ≤ p)
    (hp : p ≤ cov.dim) (sc : K) :
    ∃ R, scaleCov cov p sc = .ok R ∧ R.WF ∧ R.dim = cov.dim ∧ R.band = cov.band ∧
      ∀ i j, 1 ≤ i → i ≤ cov.dim → 1 ≤ j → j ≤ cov.dim →
        R.get i j = (if i = p then sc else 1) * cov.get i j * (if j = p then sc else 1) :=
  scaleCov_DCD cov h p hp1 hp sc

example : (scaleCov (K := Int) ⟨3, 1, #[4, 1, 5, 1, 6]⟩ 2 3).toOption.map (·.buf) = some #[4, 3, 45, 3, 6] := by decide

/-! ## band Cholesky -/

section chol
variable {K : Type} [Field K] [LinearOrder K] [IsStrictOrderedRing K] [SqrtFn K]

/-- **`CovMat::cholDec` as coded (pointer walk `cholDecPtr`)**: the pointer walk equals the indexed loop
    nest on every well-formed object (any `[Scalar K]`, also `Float`), and if it does not throw then
    (over any linearly ordered field) the result `F` has the shape of `C`, every pivot `D(i) = F(i,i)` is
    positive, and `C = L D Lᵀ` entrywise with `L(x,r) = F(r,x)` read with the band convention —
    entries outside the band are 0: no fill. -/
theorem C10_bandchol_reproduces {C F : CovMat K}
    (hC : C.WF) (h : (letI := fieldScalar K SqrtFn.sq; cholDecPtr C) = .ok F) :
    letI := fieldScalar K SqrtFn.sq
    cholDecPtr C = cholDec C ∧
    F.WF ∧ F.dim = C.dim ∧ F.band = C.band ∧
    (∀ i, 1 ≤ i → i ≤ C.dim → 0 < F.get i i) ∧
    (∀ i j, 1 ≤ i → i ≤ j → j ≤ C.dim →
      C.get i j = (∑ r ∈ Finset.Ico 1 i, F.get r i * F.get r r * F.get r j) +
        F.get i i * (if i = j then 1 else F.get i j)) ∧
    (∀ i j, i ≤ j → j > i + C.band → F.get i j = 0) := by
  letI := fieldScalar K SqrtFn.sq
  have e := cholDecPtr_eq_cholDec C hC
  exact ⟨e, cholDec_reproduces hC (by rw [← e]; exact h)⟩

/-- the refinement holds for every scalar type, in particular for the `Float` and `Rat` runs -/
theorem C10_cholDec_pointer_walk {K' : Type} [Scalar K'] (m : CovMat K') (h : m.WF) : cholDecPtr m = cholDec m :=
  cholDecPtr_eq_cholDec m h

/-- **`Adj::choldec`: `L̃ L̃ᵀ = C`.**  With `sqrt x · sqrt x = x` for `x > 0`: if `Adj::choldec` does not
    throw, the scaled factor `U` has the shape of `C`, a non-zero diagonal, zeros outside the band and
    `C(i,j) = Σ_{r ≤ i} U(r,i)·U(r,j)` for all `1 ≤ i ≤ j ≤ N` (`L̃(x,r) = U(r,x)`); it throws exactly
    when `CovMat::cholDec` does. -/
theorem C10_adj_choldec_LLt {C U : CovMat K} (hC : C.WF)
    (hsq : ∀ x : K, 0 < x → SqrtFn.sq x * SqrtFn.sq x = x)
    (h : (letI := fieldScalar K SqrtFn.sq; adjCholdec C) = .ok U) :
    letI := fieldScalar K SqrtFn.sq
    U.WF ∧ U.dim = C.dim ∧ U.band = C.band ∧
    (∀ i, 1 ≤ i → i ≤ C.dim → U.get i i ≠ 0) ∧
    (∀ i j, 1 ≤ i → i ≤ j → j ≤ C.dim → C.get i j = ∑ r ∈ Finset.Icc 1 i, U.get r i * U.get r j) ∧
    (∀ i j, i ≤ j → j > i + C.band → U.get i j = 0) :=
  adjCholdec_LLt hC hsq h

/-- non-vacuity of the `sqrt` law: ℝ with `Real.sqrt` -/
example : ∀ x : ℝ, 0 < x → Real.sqrt x * Real.sqrt x = x := fun _ h => Real.mul_self_sqrt h.le

/-- non-vacuity of `C10_adj_choldec_LLt` over ℝ: the variance `[4]` is accepted by `Adj::choldec`
    (shown through `C10_pd_accepted`: its `L D Lᵀ` pivot 4 exceeds the tolerance `1·ε·4`) -/
example : ∃ U, (letI := fieldScalar ℝ Real.sqrt; adjCholdec (⟨1, 0, #[4]⟩ : CovMat ℝ)) = .ok U := by
  letI : SqrtFn ℝ := ⟨Real.sqrt⟩
  let _ : Scalar ℝ := fieldScalar ℝ SqrtFn.sq
  have hget : (⟨1, 0, #[4]⟩ : CovMat ℝ).get 1 1 = (4 : ℝ) := by
    simp [CovMat.get, Packed.idx, Packed.rowOff, CovMat.raw, CovMat.inBuf]
  obtain ⟨F, hF, _⟩ := cholDec_of_ldl (C := (⟨1, 0, #[4]⟩ : CovMat ℝ)) ⟨by decide, by decide⟩ (by decide)
    (fun _ => 4) (fun _ _ => 0)
    (by
      intro r h1 h2
      have hm : maxDiag (⟨1, 0, #[4]⟩ : CovMat ℝ) = 4 := by
        simp [maxDiag, List.range', hget, Scalar.max]
      rw [hm]
      show ((1 : Nat) : ℝ) * ((1 : Nat) / (4503599627370496 : Nat) : ℝ) * 4 < 4
      norm_num)
    (by
      intro i j h1 h2 h3
      have hi : i = 1 := by simp at h3; omega
      have hj : j = 1 := by simp at h3; omega
      subst hi; subst hj
      simp [hget])
  exact ⟨scaleToChol F, by unfold adjCholdec; rw [hF]; rfl⟩

/-- **positive definite ⇒ accepted.**  `CovMat::cholDec` accepts `C` iff `C` has an `L D Lᵀ`
    factorisation (unit lower triangular `L`, diagonal `D`) whose pivots all exceed the code's tolerance
    `N·ε·max diag`; and then it returns exactly that factorisation (pivots and multipliers). -/
theorem C10_pd_accepted {C : CovMat K} (hC : C.WF) (hN : 1 ≤ C.dim) :
    letI := fieldScalar K SqrtFn.sq
    ((∃ F, cholDec C = .ok F) ↔
      ∃ (D : Nat → K) (L : Nat → Nat → K),
        (∀ r, 1 ≤ r → r ≤ C.dim → tolOf C.dim (maxDiag C) < D r) ∧
        (∀ i j, 1 ≤ i → i ≤ j → j ≤ C.dim →
          C.get i j = (∑ r ∈ Finset.Ico 1 i, L i r * D r * L j r) + D i * (if i = j then 1 else L j i))) ∧
    (∀ (D : Nat → K) (L : Nat → Nat → K),
        (∀ r, 1 ≤ r → r ≤ C.dim → tolOf C.dim (maxDiag C) < D r) →
        (∀ i j, 1 ≤ i → i ≤ j → j ≤ C.dim →
          C.get i j = (∑ r ∈ Finset.Ico 1 i, L i r * D r * L j r) + D i * (if i = j then 1 else L j i)) →
        ∃ F, cholDec C = .ok F ∧ (∀ i, 1 ≤ i → i ≤ C.dim → F.get i i = D i) ∧
          (∀ r j, 1 ≤ r → r < j → j ≤ C.dim → F.get r j = L j r)) :=
  ⟨cholDec_ok_iff hC hN, fun D L hD hL => cholDec_of_ldl hC hN D L hD hL⟩

/-- the only ways `CovMat::cholDec` refuses: `dim = 0` (`BadRank`) or a pivot `≤ N·ε·max diag`
    (`NonPositiveDefinite`) -/
theorem C10_bandchol_error_kinds (C : CovMat K) (e : Err)
    (h : (letI := fieldScalar K SqrtFn.sq; cholDec C) = .error e) :
    (e = .BadRank ∧ C.dim = 0) ∨ e = .NonPositiveDefinite :=
  cholDec_error_kinds C e h

/-- **not positive definite ⇒ rejected** (the clause as written).  If the symmetric matrix read from a
    well-formed `CovMat` is not positive definite — some vector `d ≠ 0` has `dᵀ C d ≤ 0` — then
    `CovMat::cholDec` (dense path: gso, svd, cholesky through `Adj::choldec`) throws
    `NonPositiveDefinite`, and `BlockDiagonal::cholDec` (sparse path: envelope through
    `Homogenization::run`) returns the block as rejected, for every tolerance `tol > 0` (the code's is
    `1e-14`).  Exact-arithmetic model: some pivot is `≤ 0`, hence `≤ N·ε·max diag` resp. `< tol`.
    (`tol = 0` would NOT do for the sparse test `pivot < tol`: a pivot 0 passes it and the row is then
    divided by `sqrt 0`.)  Conversely every accepted matrix is positive definite. -/
theorem C10_not_pd_rejected {C : CovMat K} (hC : C.WF) (hN : 1 ≤ C.dim)
    (hsq : ∀ x : K, 0 < x → SqrtFn.sq x * SqrtFn.sq x = x ∧ 0 < SqrtFn.sq x) (tol : K) (htol : 0 < tol) :
    letI := fieldScalar K SqrtFn.sq
    ((∃ d : Nat → K, (∃ i, 1 ≤ i ∧ i ≤ C.dim ∧ d i ≠ 0) ∧
        ∑ i ∈ Finset.Icc 1 C.dim, ∑ j ∈ Finset.Icc 1 C.dim, d i * C.get i j * d j ≤ 0) →
      cholDec C = .error .NonPositiveDefinite ∧ adjCholdec C = .error .NonPositiveDefinite ∧
      ∃ C', bdCholBlock tol C = .error C') ∧
    (∀ F, (cholDec C = .ok F ∨ bdCholBlock tol C = .ok F) →
      ∀ d : Nat → K, (∃ i, 1 ≤ i ∧ i ≤ C.dim ∧ d i ≠ 0) →
        0 < ∑ i ∈ Finset.Icc 1 C.dim, ∑ j ∈ Finset.Icc 1 C.dim, d i * C.get i j * d j) := by
  refine ⟨fun h => ⟨not_pd_rejected_dense hC hN h, ?_, not_pd_rejected_sparse hsq hC tol htol h⟩, ?_⟩
  · exact (adjCholdec_error_iff C _).mpr (not_pd_rejected_dense hC hN h)
  · intro F hF d hd
    rcases hF with hF | hF
    · exact cholDec_accepts_posdef hC hF d hd
    · exact bdCholBlock_accepts_posdef hsq hC tol htol hF d hd

/-- non-vacuity of `C10_not_pd_rejected`: `[[1,2],[2,1]]` with `d = (1,-1)` has `dᵀCd = -2 ≤ 0` -/
example : (⟨2, 1, #[1, 2, 1]⟩ : CovMat ℚ).WF ∧ 1 ≤ (⟨2, 1, #[1, 2, 1]⟩ : CovMat ℚ).dim ∧
    ∃ d : Nat → ℚ, (∃ i, 1 ≤ i ∧ i ≤ 2 ∧ d i ≠ 0) ∧
      ∑ i ∈ Finset.Icc 1 2, ∑ j ∈ Finset.Icc 1 2, d i * (⟨2, 1, #[1, 2, 1]⟩ : CovMat ℚ).get i j * d j ≤ 0 := by
  refine ⟨⟨by decide, by decide⟩, by decide, fun i => if i = 1 then 1 else -1, ⟨1, by decide, by decide, by decide⟩, ?_⟩
  decide +kernel

/-- non-vacuity: a 3×3 band-1 SPD matrix (packed `4 2 | 5 2 | 6`) is well formed and is factored
    (`D = 4, 4, 5`, `L₂₁ = L₃₂ = 1/2`) by the model run with the field operations of ℚ -/
example : (⟨3, 1, #[4, 2, 5, 2, 6]⟩ : CovMat ℚ).WF ∧
    ((letI := fieldScalar ℚ id; cholDec (⟨3, 1, #[4, 2, 5, 2, 6]⟩ : CovMat ℚ)).toOption.map (·.buf.toList))
      = some [4, 1/2, 4, 1/2, 5] := ⟨⟨by decide, by decide⟩, by decide +kernel⟩

/-- an indefinite matrix `[[1,2],[2,1]]` and a zero variance are refused with `NonPositiveDefinite` -/
example : ((letI := fieldScalar ℚ id; cholDec (⟨2, 1, #[1, 2, 1]⟩ : CovMat ℚ)).toOption.isNone) = true ∧
    ((letI := fieldScalar ℚ id; cholDec (⟨2, 0, #[1, 0]⟩ : CovMat ℚ)).toOption.isNone) = true := by
  decide +kernel

/-- non-vacuity of `C10_forward_subst`: `L̃ = [[2,0],[1,3]]`, `v = (4,11)` ↦ `x = (2,3)` -/
example : ((letI := fieldScalar ℚ id; forwardSubst (⟨2, 1, #[2, 1, 3]⟩ : CovMat ℚ) #[4, 11]).toList) = [2, 3] := by
  decide +kernel

/-- **`Adj::forwardSubstitution` solves `L̃ x = v`** for the lower-triangular band matrix
    `L̃(i,j) = chol(i,j)` (`j ≤ i`, 0 outside the band) whenever the diagonal is non-zero;
    the solution is unique, so any other correct substitution returns the same numbers. -/
theorem C10_forward_subst (chol : CovMat K) (v : Array K) (hv : v.size = chol.dim)
    (hd : ∀ i, 1 ≤ i → i ≤ chol.dim → (letI := fieldScalar K SqrtFn.sq; chol.get i i) ≠ 0) :
    letI := fieldScalar K SqrtFn.sq
    (forwardSubst chol v).size = v.size ∧
    (∀ i, 1 ≤ i → i ≤ chol.dim →
      (∑ j ∈ Finset.Icc 1 i, chol.get i j * (forwardSubst chol v).getD (j - 1) 0) = v.getD (i - 1) 0) ∧
    (∀ y : Array K, (∀ i, 1 ≤ i → i ≤ chol.dim →
        (∑ j ∈ Finset.Icc 1 i, chol.get i j * y.getD (j - 1) 0) = v.getD (i - 1) 0) →
      ∀ i, 1 ≤ i → i ≤ chol.dim → y.getD (i - 1) 0 = (forwardSubst chol v).getD (i - 1) 0) :=
  ⟨(forwardSubst_spec SqrtFn.sq chol v hv hd).1, (forwardSubst_spec SqrtFn.sq chol v hv hd).2,
   fun y hy => forwardSubst_unique SqrtFn.sq chol v hv hd y hy⟩

/-- **End to end (one covariance block of a Problem)**: factor `C` with `Adj::choldec`, replace every
    column of `A` and the right-hand side by `Adj::forwardSubstitution` (`homA`, `homB`); then, for the
    weight matrix `P` of the block (`toMatrix C · P = 1`), the homogenised normal matrix is `AᵀC⁻¹A`,
    the normal right-hand side `AᵀC⁻¹b`, the sum of squares `vᵀC⁻¹v` for every `x`, and the residuals
    are recovered with `L̃`.  (The hypotheses of `C10_weighting` are discharged by
    `C10_adj_choldec_LLt` and `C10_forward_subst`.  This theorem is about ONE block.  Several blocks:
    on the dense path the statement about the executable is `C01_net_prepare` / `C01_net_cofactor`
    (`Props/C01/NetFacade.lean`, not in C10's PROPS_FILES), on the sparse path `C10_homogenization_run` below;
    `Whiten.blockwise` (Lemmas/CovWhiten.lean) is only the abstract block-diagonal algebra they use,
    not a statement about the code.) -/
theorem C10_homogenised_block {n : Nat} {C U : CovMat K} (hC : C.WF)
    (hsq : ∀ x : K, 0 < x → SqrtFn.sq x * SqrtFn.sq x = x)
    (h : (letI := fieldScalar K SqrtFn.sq; adjCholdec C) = .ok U)
    (P : Matrix (Fin U.dim) (Fin U.dim) K)
    (hP : (letI := fieldScalar K SqrtFn.sq; toMatrix U.dim C) * P = 1)
    (A : Matrix (Fin U.dim) (Fin n) K) (b : Fin U.dim → K) :
    letI := fieldScalar K SqrtFn.sq
    (homA U A)ᵀ * homA U A = Aᵀ * P * A ∧
    (homA U A)ᵀ *ᵥ homB U b = Aᵀ *ᵥ (P *ᵥ b) ∧
    (∀ x, (homA U A *ᵥ x - homB U b) ⬝ᵥ (homA U A *ᵥ x - homB U b) = (A *ᵥ x - b) ⬝ᵥ (P *ᵥ (A *ᵥ x - b))) ∧
    (∀ x, (homA U A)ᵀ *ᵥ (homA U A *ᵥ x - homB U b) = Aᵀ *ᵥ (P *ᵥ (A *ᵥ x - b))) ∧
    (∀ x, lowerMatrix U.dim U *ᵥ (homA U A *ᵥ x - homB U b) = A *ᵥ x - b) ∧
    P = (toMatrix U.dim C)⁻¹ :=
  homogenised_block hC hsq h P hP A b

/-- **Sparse = dense, block by block** (`BlockDiagonal::cholDec` + the forward sweep of
    `Homogenization::run` vs `Adj::choldec` + `Adj::forwardSubstitution`).  With `sqrt x · sqrt x = x`,
    `sqrt x > 0` for `x > 0` and a positive sparse tolerance: if neither variant rejects the block then
    the two Cholesky factors are equal entrywise, the column-oriented sweep equals the row-oriented
    substitution, and the homogenised vectors of the two code paths coincide.  (Both reproduce `C`:
    `Lemmas/CovBd.bdCholBlock_reproduces`, `C10_adj_choldec_LLt`.  Their REJECTION tests differ —
    absolute `1e-14` vs relative `N·ε·max diag` — that is known finding C10-TINY.) -/
theorem C10_sparse_dense_agree {C U F : CovMat K} (hC : C.WF)
    (hsq : ∀ x : K, 0 < x → SqrtFn.sq x * SqrtFn.sq x = x ∧ 0 < SqrtFn.sq x)
    (tol : K) (htol : 0 < tol)
    (hd : (letI := fieldScalar K SqrtFn.sq; adjCholdec C) = .ok U)
    (hs : (letI := fieldScalar K SqrtFn.sq; bdCholBlock tol C) = .ok F) :
    letI := fieldScalar K SqrtFn.sq
    (∀ i j, 1 ≤ i → i ≤ j → j ≤ C.dim → F.get i j = U.get i j) ∧
    (∀ v : Array K, v.size = C.dim → sweep F v = forwardSubst F v) ∧
    (∀ v : Array K, v.size = C.dim → ∀ i, 1 ≤ i → i ≤ C.dim →
      (sweep F v).getD (i - 1) 0 = (forwardSubst U v).getD (i - 1) 0) :=
  sparse_dense_agree hC hsq tol htol hd hs

/-- **the whole `Homogenization::run` on a multi-block input** (executable model `Hom.run`,
    Model/Homogenization.lean: `cov.replicate()`, `cholDec`, `UpperBlockDiagonal`, the right-hand-side sweep over
    the whole vector, the counting pass, and per block the `width == 0` scaling or the `perm`/`invp`/`T` gather,
    the per-column forward substitution with the upper factor and the scatter that drops exact zeros — fill-in
    included).  `cov` is any object built by `add_block` (`Built Cs tail`: any number of blocks, dims, widths),
    `mat` a completely built sparse matrix with `rows = Σ dims = |rhs|`; a column index may be REPEATED inside a row
    (no `nodupRows` hypothesis): the coefficients stored with it add up — `denseRow` is that sum, the `width == 0`
    branch keeps every entry and the gather loop is `T(i, perm[c]) += *b++` (since /repo 6d0f7107).
    (1) `run` throws iff `BlockDiagonal::cholDec` rejects some block, and then `NonPositiveDefinite`;
    (2) otherwise there are factors `F_k` (one per block, `bdCholBlock tol C_k = ok F_k`, positive diagonal) with
        `L̃ L̃ᵀ = C`,  `L̃ · dense(sm) = dense(mat)`,  `L̃ · pr = rhs`,   `L̃ = blockdiag(F_kᵀ)`,
    stated entrywise on the rows of every block (`rowsBefore Cs k + i`) and every column `c`.  This is
    `(sm, pr) = (W·A, W·b)` with `W = L̃⁻¹`, `WᵀW = C⁻¹` for the WHOLE block-diagonal `C` — the hypotheses
    `C = LLᵀ`, `LA' = A`, `Lb' = b` of `C10_weighting` / `C10_whitened_equivalent`, and the `W` the envelope
    theorems take as a parameter (same form as `Ls.Env.homogenize_factor` for the LS-side model, which calls the
    same kernels). -/
theorem C10_homogenization_run
    (hsq : ∀ x : K, 0 < x → SqrtFn.sq x * SqrtFn.sq x = x ∧ 0 < SqrtFn.sq x)
    (tol : K) (htol : 0 < tol) (mat : SMat K) (cov : BlockDiag K) (rhs : Array K)
    (Cs : List (CovMat K)) (tail : List K)
    (hcov : cov.Built Cs tail) (hwf : ∀ C ∈ Cs, C.WF)
    (hmat : mat.WF) (hrows : mat.rows = (Cs.map (·.dim)).sum) (hrhs : rhs.size = mat.rows) :
    letI := fieldScalar K SqrtFn.sq
    letI : Inhabited K := ⟨0⟩
    ((∃ e, Hom.run tol mat cov rhs = .error e) ↔ (bdCholDec tol Cs).1 ≠ 0) ∧
    (∀ e, Hom.run tol mat cov rhs = .error e → e = .NonPositiveDefinite) ∧
    (∀ out, Hom.run tol mat cov rhs = .ok out →
      ∃ Fs : List (CovMat K), Fs.length = Cs.length ∧
        out.pr.size = rhs.size ∧ out.sm.rows = mat.rows ∧ out.sm.cols = mat.cols ∧
        ∀ k (hk : k < Cs.length) (hk' : k < Fs.length),
          bdCholBlock tol (Cs[k]'hk) = .ok (Fs[k]'hk') ∧ (Fs[k]'hk').WF ∧
          (Fs[k]'hk').dim = (Cs[k]'hk).dim ∧ (Fs[k]'hk').band = (Cs[k]'hk).band ∧
          (∀ i, 1 ≤ i → i ≤ (Cs[k]'hk).dim → 0 < (Fs[k]'hk').get i i) ∧
          (∀ i j, 1 ≤ i → i ≤ j → j ≤ (Cs[k]'hk).dim →
            (Cs[k]'hk).get i j = ∑ r ∈ Finset.Icc 1 i, (Fs[k]'hk').get r i * (Fs[k]'hk').get r j) ∧
          (∀ i, 1 ≤ i → i ≤ (Cs[k]'hk).dim →
            ∑ j ∈ Finset.Icc 1 i, (Fs[k]'hk').get i j * out.pr.getD (rowsBefore Cs k + j - 1) 0
              = rhs.getD (rowsBefore Cs k + i - 1) 0) ∧
          (∀ i c, 1 ≤ i → i ≤ (Cs[k]'hk).dim →
            ∑ j ∈ Finset.Icc 1 i, (Fs[k]'hk').get i j * denseRow (out.sm.rowEntries (rowsBefore Cs k + j)) c
              = denseRow (mat.rowEntries (rowsBefore Cs k + i)) c)) :=
  Hom.run_spec hsq tol htol mat cov rhs Cs tail hcov hwf hmat hrows hrhs

/-- non-vacuity of `C10_homogenization_run`: an uncorrelated block `[9]` and a correlated block `[[4,2],[2,5]]`
    built by `init`/`add_block`, a 3×2 sparse matrix with unsorted rows, `rhs = (1,2,3)`, over ℝ — accepted -/
example : ∃ out, (letI := fieldScalar ℝ Real.sqrt; Hom.run (1 / 100 : ℝ) runExMat runExCov #[1, 2, 3]) = .ok out :=
  runEx_accepted

/-- … and an input the theorem covers only since the no-repeat hypothesis is gone: the same blocks, but row 2 (first
    row of the CORRELATED block) stores column 1 twice (`2` and `1`: dense entry `3`); every hypothesis of
    `C10_homogenization_run` holds (`runExRep_accepted` applies `Hom.run_spec` to it), `nodupRows` is false, and the run is accepted -/
example : (runExMatRep.nodupRows = false) ∧
    ∃ out, (letI := fieldScalar ℝ Real.sqrt; Hom.run (1 / 100 : ℝ) runExMatRep runExCov #[1, 2, 3]) = .ok out :=
  ⟨runExMatRep_repeats, runExRep_accepted⟩

end chol

/-! ## weighting = whitening (homogenisation) -/

section weighting
variable {K : Type} [Field K] {m n : Type} [Fintype m] [DecidableEq m] [Fintype n] [DecidableEq n]

/-- **The homogenised problem is the weighted problem.**  If `C = L Lᵀ` (Cholesky factor of the
    covariance block(s)), `P` is the weight matrix (`C P = 1`), and the code's forward substitutions
    produced `A'`, `b'` with `L A' = A`, `L b' = b`, then the homogenised system `(A', b', I)` has the
    same normal matrix, normal right-hand side, objective function (for every `x`) and normal-equation
    residual as `(A, b, P = C⁻¹)`; residuals are transformed back by `L`. -/
theorem C10_weighting {C L P : Matrix m m K} {A A' : Matrix m n K} {b b' : m → K}
    (hC : C = L * Lᵀ) (hP : C * P = 1) (hA : L * A' = A) (hb : L *ᵥ b' = b) :
    A'ᵀ * A' = Aᵀ * P * A ∧
    A'ᵀ *ᵥ b' = Aᵀ *ᵥ (P *ᵥ b) ∧
    (∀ x, (A' *ᵥ x - b') ⬝ᵥ (A' *ᵥ x - b') = (A *ᵥ x - b) ⬝ᵥ (P *ᵥ (A *ᵥ x - b))) ∧
    (∀ x, A'ᵀ *ᵥ (A' *ᵥ x - b') = Aᵀ *ᵥ (P *ᵥ (A *ᵥ x - b))) ∧
    (∀ x, L *ᵥ (A' *ᵥ x - b') = A *ᵥ x - b) ∧
    P = C⁻¹ :=
  ⟨Whiten.normal_matrix hC hP hA, Whiten.normal_rhs hC hP hA hb, Whiten.objective hC hP hA hb,
   Whiten.normal_residual_eq hC hP hA hb, Whiten.residual hA hb, Whiten.weight_eq_inv hP⟩

/-- same minimisers: `x` minimises the homogenised sum of squares iff it minimises `vᵀ C⁻¹ v` -/
theorem C10_whitened_equivalent [LE K] {C L P : Matrix m m K} {A A' : Matrix m n K} {b b' : m → K}
    (hC : C = L * Lᵀ) (hP : C * P = 1) (hA : L * A' = A) (hb : L *ᵥ b' = b) (x : n → K) :
    (∀ y, (A' *ᵥ x - b') ⬝ᵥ (A' *ᵥ x - b') ≤ (A' *ᵥ y - b') ⬝ᵥ (A' *ᵥ y - b')) ↔
    (∀ y, (A *ᵥ x - b) ⬝ᵥ (P *ᵥ (A *ᵥ x - b)) ≤ (A *ᵥ y - b) ⬝ᵥ (P *ᵥ (A *ᵥ y - b))) :=
  Whiten.minimiser_iff hC hP hA hb x

/-- a diagonal cov-mat `diag(σᵢ²)` is exactly "standard deviation σᵢ per observation":
    factor `diag σ`, weights `1/σᵢ²`, homogenised rows `A(i,·)/σᵢ`, `b(i)/σᵢ` -/
theorem C10_diagonal_equals_stdev (σ : m → K) (hσ : ∀ i, σ i ≠ 0) (A : Matrix m n K) (b : m → K) :
    Matrix.diagonal (fun i => σ i ^ 2) = Matrix.diagonal σ * (Matrix.diagonal σ)ᵀ ∧
    Matrix.diagonal (fun i => σ i ^ 2) * Matrix.diagonal (fun i => 1 / σ i ^ 2) = 1 ∧
    Matrix.diagonal σ * Matrix.of (fun i j => A i j / σ i) = A ∧
    Matrix.diagonal σ *ᵥ (fun i => b i / σ i) = b :=
  Whiten.diagonal_equals_stdev σ hσ A b

/-- excluded observations: the adjustment of the active rows `e` uses the weight `(C_ee)⁻¹` of the
    principal sub-matrix (what `activeCov` returns, `C10_activeCov_submatrix`) — same normal equations
    and objective as the sub-problem `(A_e, b_e, (C_ee)⁻¹)` -/
theorem C10_excluded_uses_submatrix {m₀ : Type} [Fintype m₀] [DecidableEq m₀]
    {C : Matrix m m K} (e : m₀ → m) {L₀ P₀ : Matrix m₀ m₀ K} {A : Matrix m n K}
    {A' : Matrix m₀ n K} {b : m → K} {b' : m₀ → K}
    (hC : C.submatrix e e = L₀ * L₀ᵀ) (hP : C.submatrix e e * P₀ = 1)
    (hA : L₀ * A' = A.submatrix e id) (hb : L₀ *ᵥ b' = fun i => b (e i)) :
    A'ᵀ * A' = (A.submatrix e id)ᵀ * P₀ * A.submatrix e id ∧
    A'ᵀ *ᵥ b' = (A.submatrix e id)ᵀ *ᵥ (P₀ *ᵥ fun i => b (e i)) ∧
    (∀ x, (A' *ᵥ x - b') ⬝ᵥ (A' *ᵥ x - b') =
      (A.submatrix e id *ᵥ x - fun i => b (e i)) ⬝ᵥ (P₀ *ᵥ (A.submatrix e id *ᵥ x - fun i => b (e i)))) := by
  obtain ⟨h1, h2, h3, _⟩ := Whiten.submatrix_weight e hC hP hA hb
  exact ⟨h1, h2, h3⟩

end weighting

/-! ## `<cov-mat>` accounting in GKFparser -/

section parse
open Gama.Cov.CovParse
variable {K : Type} [Scalar K]

/-- `finish_cov` accepts iff the number of words is exactly `dim(band+1) - band(band+1)/2` and every
    word is a number; then the k-th word is the k-th packed element (fill order = storage order),
    the matrix is well formed with the announced `dim`/`band`, and `idim`, `cov_mat_data` are reset. -/
theorem C10_parse_accounting {s : St K} (hs : s.err = none) (hd : 1 ≤ s.idim) (hb : s.iband < s.idim) :
    ((finishCov s).1.err = none ↔
      (s.data.length = (Packed.size s.idim s.iband).toNat ∧ ∀ w ∈ s.data, w ≠ none)) ∧
    ((finishCov s).1.err = none →
      (finishCov s).2.dim = s.idim ∧ (finishCov s).2.band = s.iband ∧ (finishCov s).2.WF ∧
      (finishCov s).2.buf.toList = s.data.map (fun w => w.getD 0) ∧
      (finishCov s).1.idim = 0 ∧ (finishCov s).1.data = []) := by
  refine ⟨finishCov_accept hs hd hb, ?_⟩
  intro h
  obtain ⟨k1, k2, k3, k4, k5, k6, _, _⟩ := finishCov_ok hs hd hb h
  exact ⟨k1, k2, k3, k4, k5, k6⟩

/-- **`<coordinates>` and `<vectors>`** (`finish_coords`, `finish_vectors`, code as it is):
    an accepted cluster has `1 ≤ dim`, `0 ≤ band < dim`, exactly `size dim band` numeric elements, and
    `dim` = number of observations of the cluster; the stored matrix is well formed with that shape. -/
theorem C10_parse_dim {s0 : St K} {undef ck : Bool} {sdim sband : Attr} {nobs : Nat}
    (h0 : s0.err = none)
    (h : (finishCoords ck (processCov s0 undef sdim sband) nobs).1.err = none) :
    ∃ dim band, undef = false ∧ sdim = .val dim ∧ sband = .val band ∧
      1 ≤ dim ∧ band < dim ∧ dim = nobs ∧
      s0.data.length = (Packed.size dim band).toNat ∧ (∀ w ∈ s0.data, w ≠ none) ∧
      (finishCoords ck (processCov s0 undef sdim sband) nobs).2.dim = nobs ∧
      (finishCoords ck (processCov s0 undef sdim sband) nobs).2.band = band ∧
      (finishCoords ck (processCov s0 undef sdim sband) nobs).2.WF ∧
      (finishCoords ck (processCov s0 undef sdim sband) nobs).2.buf.toList = s0.data.map (fun w => w.getD 0) := by
  obtain ⟨d, b, h1, h2, h3, h4, h5, h6, h7, h8, h9, h10, h11, h12, _, _⟩ := parse_dim_coords h0 h
  exact ⟨d, b, h1, h2, h3, h4, h5, h6, h7, h8, h9, h10, h11, h12⟩

/-- **`<obs>` and `<height-differences>`** (`finish_obs`, `finish_hdiffs` as coded since 410fb36):
    accepted ⇒ `1 ≤ dim`, `band < dim`, exact element count, all numeric, `dim` = number of
    observations, matrix of that shape.  (Before the fix the faithful model violated this: finding F9,
    `Lemmas/CovParse.parse_dim_obs_current_violated_all`, regression inputs corpus/C10/net-f9-*.gkf.) -/
theorem C10_parse_dim_obs {s0 : St K} {undef ck : Bool} {sdim sband : Attr} {sigma : List (K × Bool)}
    (h0 : s0.err = none) :
    ((finishObs ck (processCov s0 undef sdim sband) sigma).1.err = none →
      ∃ dim band, undef = false ∧ sdim = .val dim ∧ sband = .val band ∧
        1 ≤ dim ∧ band < dim ∧ dim = sigma.length ∧
        s0.data.length = (Packed.size dim band).toNat ∧ (∀ w ∈ s0.data, w ≠ none) ∧
        (finishObs ck (processCov s0 undef sdim sband) sigma).2.dim = sigma.length ∧
        (finishObs ck (processCov s0 undef sdim sband) sigma).2.band = band) ∧
    ((finishHdiffs ck (processCov s0 undef sdim sband) sigma).1.err = none →
      ∃ dim band, undef = false ∧ sdim = .val dim ∧ sband = .val band ∧
        1 ≤ dim ∧ band < dim ∧ dim = sigma.length ∧
        s0.data.length = (Packed.size dim band).toNat ∧ (∀ w ∈ s0.data, w ≠ none) ∧
        (finishHdiffs ck (processCov s0 undef sdim sband) sigma).2.dim = sigma.length ∧
        (finishHdiffs ck (processCov s0 undef sdim sband) sigma).2.band = band) := by
  constructor <;> intro h
  · obtain ⟨d, b, h1, h2, h3, h4, h5, h6, h7, h8, h9, h10, _, _⟩ := parse_dim_obs_fixed (isObs := true) h0 h
    exact ⟨d, b, h1, h2, h3, h4, h5, h6, h7, h8, h9, h10⟩
  · obtain ⟨d, b, h1, h2, h3, h4, h5, h6, h7, h8, h9, h10, _, _⟩ := parse_dim_obs_fixed (isObs := false) h0 h
    exact ⟨d, b, h1, h2, h3, h4, h5, h6, h7, h8, h9, h10⟩

/-- non-vacuity: an accepted `<coordinates>` cluster, 3 coordinates, `<cov-mat dim="3" band="1"> 4 1 4 1 4` -/
example :
    (finishCoords true (processCov ({ data := [some 4, some 1, some 4, some 1, some 4] } : St Rat)
      false (.val 3) (.val 1)) 3).1.err = none := by decide +kernel

/-- the F9 regression inputs (`dim=2` and `dim=4` on three observations) are refused with `DimDiffers` -/
example : (finishObs true (processCov ({ data := [some 25, some 25] } : St Rat) false (.val 2) (.val 0))
      [(5, false), (5, false), (5, false)]).1.err = some .DimDiffers ∧
    (finishHdiffs true (processCov ({ data := [some 25, some 25, some 25, some 25] } : St Rat) false (.val 4) (.val 0))
      [(5, false), (5, false), (5, false)]).1.err = some .DimDiffers := by decide +kernel

/-- non-vacuity of `C10_parse_dim_obs`: three distances with `<cov-mat dim="3" band="1"> 25 1 25 1 25` -/
example : (finishObs true (processCov ({ data := [some 25, some 1, some 25, some 1, some 25] } : St Rat)
      false (.val 3) (.val 1)) [(5, false), (5, false), (5, false)]).1.err = none := by decide +kernel

/-- **the two models of `GKFparser::finish_cov` agree** (statement audit, cross-cutting item 2): for every
    `dim`/`band` attribute text and every element text, C10's `processCov` + `finishCov` (state machine
    with first-error-wins on the list of `toDouble` results, filling the real packed `CovMat`) reports
    exactly the error kind that C11's `Cov.verdict` (raw text, `Nat` element counter, positions only)
    reports, under the explicit kind map `Bridge.verr`; `tok` is the tokeniser (`toDouble`), assumed to
    accept exactly the words `toDouble` accepts (`IsFloat` and finite).  When both accept (`1 ≤ dim`, `band < dim`), the buffer C10 fills
    is the word list in order and C11's write positions are the packed offsets `0, 1, 2, …`.
    Known difference outside this statement: a NEGATIVE C++ `int elements` (`band` so large that
    `dim(band+1) − band(band+1)/2 < 0`) is `NotEnough` in C10 (as in the C++) but truncated to 0 in C11
    (`Bridge.differ_on_negative_size`) — unobservable, `process_cov` has refused `band ≥ dim` before. -/
theorem C10_finishcov_models_agree (tok : List Char → Option K)
    (htok : ∀ w, (tok w).isSome = Lit.toDoubleOk w) (s0 : St K) (sdim sband text : List Char)
    (hs : s0.err = none) (hdata : s0.data = (Cov.words text).map tok) :
    (finishCov (processCov s0 false (Bridge.attrOf sdim) (Bridge.attrOf sband))).1.err
        = Bridge.verr (Cov.verdict sdim sband text) ∧
    (∀ (s : St K) (ps : List (Nat × Nat)), s.err = none → s.data = (Cov.words text).map tok →
      1 ≤ s.idim → s.iband < s.idim → Cov.finishCov s.idim s.iband text = .ok ps →
      (finishCov s).1.err = none ∧
      (finishCov s).2.buf.toList = (Cov.words text).map (fun w => (tok w).getD 0) ∧
      ps.map (fun q => Packed.idx s.idim s.iband q.1 q.2)
        = (List.range ps.length).map (fun (i : Nat) => some (i : Int))) := by
  refine ⟨Bridge.verdict_bridge tok htok s0 sdim sband text hs hdata, ?_⟩
  intro s ps h1 h2 h3 h4 h5
  obtain ⟨a, b, c, _⟩ := Bridge.finishCov_values tok htok s text ps h1 h2 h3 h4 h5
  exact ⟨a, b, c⟩

/-- non-vacuity of the tokeniser hypothesis of `C10_finishcov_models_agree` -/
example : ∀ w, (Bridge.tokN w).isSome = Lit.toDoubleOk w := Bridge.tokN_spec

end parse

end Gama.Props.C10
