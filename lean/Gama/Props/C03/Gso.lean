/-
  C03 for the Gram–Schmidt solver (`AdjGSO::q_xx/q_bb/q_bx` = `ICGS::rowdot` on the matrix left
  by `icgs1(); icgs2();`), model `Gama/Model/Ls/Gso.lean`.

  `gsoC p` (n×n) is the lower block, `gsoT p` (m×n) the upper block of the orthogonalised matrix,
  columns in storage order; the model's answers are `q_xx = C Cᵀ`, `q_bb = T Tᵀ`, `q_bx = T Cᵀ`
  entrywise (`C03_gso_entries`).  With `A C = T`, `TᵀT` a 0/1 diagonal, zero bottoms under zero
  tops and `range A ⊆ span T` (Lemmas/Ls/GsoCof.lean `gso_matrices`, from the invariant library):
  Q = C Cᵀ is symmetric positive semi-definite, N Q N = N, Q N Q = Q for N = AᵀA, the inverse of
  N when the defect is 0; q_bb = A Q Aᵀ is a symmetric idempotent matrix with diagonal in [0,1]
  and Σ(1 − q_bb_ii) = m − rank A.  Same scalars / hypothesis as Props/C01/Gso.lean.

  `C03_gso_belongs`: Q belongs to the chosen regularisation — it maps into the S-orthogonal
  complement of ker A (every column of C is S-orthogonal to the kernel after the second
  orthogonalisation), the property that singles out Q among the reflexive g-inverses
  (LS8: Q = T_S Q0 T_Sᵀ).
-/
import Gama.Lemmas.Ls.GsoMore
import Gama.Lemmas.Ls.GsoReal
import Gama.Lemmas.LS
namespace Gama.Props.C03
open Gama Gama.Ls Gama.LS Gama.Ls.Gso Matrix

set_option linter.unusedSectionVars false

variable {K : Type} [Field K] [LinearOrder K] [IsStrictOrderedRing K] [SqrtField K]

/-- what the model answers for cofactor queries (1-based indices as in the C++) -/
theorem C03_gso_entries (p : Problem K) (hU : Unambiguous p) (a : Answer K) (h : gsoSolve p = .ok a) :
    (∀ i j : Fin p.n, a.qxx (i + 1) (j + 1) = .ok ((gsoC p * (gsoC p)ᵀ) i j)) ∧
    (∀ i j : Fin p.n, a.q0xx (i + 1) (j + 1) = a.qxx (i + 1) (j + 1)) ∧
    (∀ i j : Fin p.m, a.qbb (i + 1) (j + 1) = .ok ((gsoT p * (gsoT p)ᵀ) i j)) ∧
    (∀ (i : Fin p.m) (j : Fin p.n), a.qbx (i + 1) (j + 1) = .ok ((gsoT p * (gsoC p)ᵀ) i j)) := by
  have hl := (gso_final p hU).2.colsLen
  obtain ⟨h1, h2, h3⟩ := gso_cofactors h hl
  refine ⟨h1, ?_, h2, h3⟩
  intro i j
  unfold gsoSolve gsoSolveWith at h
  simp only [] at h
  split at h
  · exact absurd h (by simp)
  · split at h
    · exact absurd h (by simp)
    · cases h; rfl

/-- Q = C Cᵀ is symmetric, positive semi-definite, a reflexive generalised inverse of N = AᵀA -/
theorem C03_gso (p : Problem K) (hU : Unambiguous p) :
    let Q := gsoC p * (gsoC p)ᵀ
    let N := (p.A)ᵀ * p.A
    Qᵀ = Q ∧ (∀ x, 0 ≤ x ⬝ᵥ Q *ᵥ x) ∧ N * Q * N = N ∧ Q * N * Q = Q := by
  obtain ⟨hAC, hTT, hd, hC0, hspan⟩ := gso_matrices p hU
  exact ⟨GsoAlg.Q_symm, GsoAlg.Q_psd, GsoAlg.NQN hAC hTT hd hspan, GsoAlg.QNQ hAC hTT hd hC0⟩

/-- regular system: Q is the inverse of N -/
theorem C03_gso_inverse (p : Problem K) (hU : Unambiguous p) (hN : IsUnit ((p.A)ᵀ * p.A).det) :
    gsoC p * (gsoC p)ᵀ = ((p.A)ᵀ * p.A)⁻¹ := by
  obtain ⟨_, _, hNQN, _⟩ := C03_gso p hU
  have hdet := hN
  calc gsoC p * (gsoC p)ᵀ
      = ((p.A)ᵀ * p.A)⁻¹ * (((p.A)ᵀ * p.A) * (gsoC p * (gsoC p)ᵀ) * ((p.A)ᵀ * p.A))
          * ((p.A)ᵀ * p.A)⁻¹ := by
        rw [Matrix.mul_assoc ((p.A)ᵀ * p.A), ← Matrix.mul_assoc ((p.A)ᵀ * p.A)⁻¹,
          Matrix.nonsing_inv_mul _ hdet, Matrix.one_mul, Matrix.mul_assoc,
          Matrix.mul_nonsing_inv _ hdet, Matrix.mul_one]
    _ = ((p.A)ᵀ * p.A)⁻¹ := by
        rw [hNQN, Matrix.nonsing_inv_mul _ hdet, Matrix.one_mul]

/-- cofactors of the adjusted observations: q_bb = T Tᵀ = A Q Aᵀ, a symmetric projector with
    diagonal in [0,1] whose redundancy numbers sum to m − rank A -/
theorem C03_gso_qbb (p : Problem K) (hU : Unambiguous p) :
    let Q := gsoC p * (gsoC p)ᵀ
    let H := gsoT p * (gsoT p)ᵀ
    H = p.A * Q * (p.A)ᵀ ∧ Hᵀ = H ∧ H * H = H ∧ (∀ i, 0 ≤ H i i ∧ H i i ≤ 1)
      ∧ ∑ i, (1 - H i i) = (p.m : K) - (p.A.rank : K) := by
  obtain ⟨hAC, hTT, hd, hC0, hspan⟩ := gso_matrices p hU
  have hA : p.A * (gsoC p * (gsoC p)ᵀ) * (p.A)ᵀ = gsoT p * (gsoT p)ᵀ := GsoAlg.AQAt hAC
  have hs : (gsoT p * (gsoT p)ᵀ)ᵀ = gsoT p * (gsoT p)ᵀ := GsoAlg.hat_symm
  have hi := GsoAlg.hat_idem hTT hd
  have hNQN := GsoAlg.NQN hAC hTT hd hspan
  refine ⟨hA.symm, hs, hi, fun i => ⟨symm_idem_diag_nonneg hs hi i, symm_idem_diag_le_one hs hi i⟩, ?_⟩
  have := redundancy_sum (A := p.A) (Q := gsoC p * (gsoC p)ᵀ) hNQN
  rw [hA] at this
  simpa using this

/-- Q belongs to the regularisation: `Q y` is S-orthogonal to the kernel of `A` for every `y`
    (so the cofactors describe the S-minimal solution, not another g-inverse) -/
theorem C03_gso_belongs (p : Problem K) (hU : Unambiguous p) (y g : Fin p.n → K)
    (hg : p.A *ᵥ g = 0) :
    ∑ i ∈ p.S, ((gsoC p * (gsoC p)ᵀ) *ᵥ y) i * g i = 0 :=
  gso_Q_belongs p hU y g hg

/-- non-vacuity: the singular problem `Ex.pR` over ℝ meets the hypotheses -/
example : Unambiguous Ex.pR ∧ ∃ a, gsoSolve Ex.pR = .ok a ∧ a.defect = 1 := by
  obtain ⟨a, h2, _, _, h5, _⟩ := Ex.pR_answers
  exact ⟨Ex.pR_unambiguous, a, h2, h5⟩

end Gama.Props.C03
