/-
  C03 — Reported cofactors are the true (generalised) inverse: envelope solver.

  Same setting as `Props/C01/Env.lean` (ordered field `K`, model at `fieldScalar sq`, any
  ordering `OrdOK`, homogenised system `(At, bt)`).  `N = ÃᵀÃ` (`NO m n At`) is the normal
  matrix `AᵀPA` of the problem in the numbering of the problem (`C03_normal_matrix_whitened`).
  Queries are 1-based as in the C++ interface.
-/
import Gama.Lemmas.Ls.EnvCofactor
import Gama.Lemmas.Ls.EnvQbb
import Gama.Lemmas.LS.Rank
import Gama.Lemmas.Ls.EnvExamples
import Gama.Lemmas.LS.GInverse
namespace Gama.Props.C03
open Gama Gama.Ls Gama.Ls.Env Gama.LS Matrix

set_option linter.unusedSectionVars false
variable {K : Type} [Field K] [LinearOrder K] [IsStrictOrderedRing K] (sq : K → K)

/-- `AdjEnvelope::q_bx` is not implemented: it throws `Exception::BadRegularization`, as coded -/
theorem C03_env_qbx_throws {K : Type} [Scalar K] (tol stol : K) (m n : Nat) (A : DMat K) (b : Array K)
    (At : DMat K) (bt : Array K) (reg : Reg) (o : EnvOrd) (i j : Nat) :
    (envCore tol stol m n A b At bt reg o).qbx i j = .error .BadRegularization := rfl

/-- `ÃᵀÃ = AᵀPA` for `Ã = W A`, `P = WᵀW` -/
theorem C03_normal_matrix_whitened (m n : ℕ) (A At : DMat K) {P W : Matrix (Fin m) (Fin m) K} (hW : Wᵀ * W = P)
    (hAt : toMatrix m n At = W * toMatrix m n A) :
    NO m n At = (toMatrix m n A)ᵀ * P * toMatrix m n A := by
  rw [NO, hAt, transpose_mul, ← hW]; simp only [Matrix.mul_assoc]

/-- **C03 (envelope, defect 0)**: `q_xx(i,j) = q0_xx(i,j) = N⁻¹ᵢⱼ` for ALL index pairs (inside or
    outside the envelope), `N` invertible -/
theorem C03_envelope_inverse (tol stol : K) (m n : ℕ) (A : DMat K) (b : Array K) (At : DMat K) (bt : Array K)
    (reg : Reg) (o : EnvOrd) (hO : OrdOK n o) (htol : 0 < tol)
    (hd : (@envCore K (fieldScalar sq) tol stol m n A b At bt reg o).defect = 0) :
    IsUnit (NO m n At).det ∧ ∀ i j : Fin n,
      (@envCore K (fieldScalar sq) tol stol m n A b At bt reg o).qxx (i + 1) (j + 1) = .ok ((NO m n At)⁻¹ i j)
      ∧ (@envCore K (fieldScalar sq) tol stol m n A b At bt reg o).q0xx (i + 1) (j + 1) = .ok ((NO m n At)⁻¹ i j) :=
  ⟨NO_isUnit sq tol m n At bt o hO ((defect_zero_iff sq _ tol n).1 hd) htol,
   fun i j => envCore_qxx_regular sq tol stol m n A b At bt reg o hO htol hd i j⟩

/-- hence `Q` is symmetric with `N Q N = N`, `Q N Q = Q` -/
theorem C03_envelope_sym_NQN_QNQ (m n : ℕ) (At : DMat K) (hu : IsUnit (NO m n At).det) :
    ((NO m n At)⁻¹)ᵀ = (NO m n At)⁻¹
    ∧ NO m n At * (NO m n At)⁻¹ * NO m n At = NO m n At
    ∧ (NO m n At)⁻¹ * NO m n At * (NO m n At)⁻¹ = (NO m n At)⁻¹ := by
  have hs : (NO m n At)ᵀ = NO m n At := by
    rw [NO, transpose_mul, transpose_transpose]
  refine ⟨by rw [transpose_nonsing_inv, hs], ?_, ?_⟩
  · rw [mul_nonsing_inv _ hu, Matrix.one_mul]
  · rw [nonsing_inv_mul _ hu, Matrix.one_mul]

/-- **C03 (envelope, defect 0)**: `q_bb(i,j) = (Ã N⁻¹ Ãᵀ)ᵢⱼ` for all pairs -/
theorem C03_envelope_qbb (tol stol : K) (m n : ℕ) (A : DMat K) (b : Array K) (At : DMat K) (bt : Array K)
    (reg : Reg) (o : EnvOrd) (hO : OrdOK n o) (htol : 0 < tol)
    (hd : (@envCore K (fieldScalar sq) tol stol m n A b At bt reg o).defect = 0) (i j : Fin m) :
    (@envCore K (fieldScalar sq) tol stol m n A b At bt reg o).qbb (i + 1) (j + 1)
      = .ok ((toMatrix m n At * (NO m n At)⁻¹ * (toMatrix m n At)ᵀ) i j) :=
  envCore_qbb_regular sq tol stol m n A b At bt reg o hO htol hd i j

/-- the hat matrix of the homogenised system is a symmetric projector with diagonal in `[0,1]` -/
theorem C03_envelope_projector (m n : ℕ) (At : DMat K) (hu : IsUnit (NO m n At).det) :
    let H := toMatrix m n At * (NO m n At)⁻¹ * (toMatrix m n At)ᵀ
    Hᵀ = H ∧ H * H = H ∧ ∀ i, 0 ≤ H i i ∧ H i i ≤ 1 := by
  obtain ⟨hs, -, hq⟩ := C03_envelope_sym_NQN_QNQ m n At hu
  exact ⟨hat_symm hs, hat_idempotent hq, fun i => ⟨hat_diag_nonneg hs hq i, hat_diag_le_one hs hq i⟩⟩

/-- redundancy numbers sum to the degrees of freedom: `Σ (1 − Πᵢᵢ) = m − n` (defect 0) -/
theorem C03_envelope_redundancy (m n : ℕ) (At : DMat K) (hu : IsUnit (NO m n At).det) :
    ∑ i, (1 - (toMatrix m n At * (NO m n At)⁻¹ * (toMatrix m n At)ᵀ) i i) = (m : K) - n := by
  have ht : trace (toMatrix m n At * (NO m n At)⁻¹ * (toMatrix m n At)ᵀ) = (n : K) := by
    rw [hat_trace, ← NO, nonsing_inv_mul _ hu, trace_one, Fintype.card_fin]
  rw [Finset.sum_sub_distrib]
  simp only [Finset.sum_const, Finset.card_univ, Fintype.card_fin, nsmul_eq_mul, mul_one]
  rw [← ht]; rfl

/-- **C03 (envelope, defect > 0)**: for an unambiguous singular problem on which `unknowns()`
    answers (the regularisation resolves the defect, `C02_refusal_env`), the values `q_xx(i,j)` for
    ALL index pairs form a symmetric matrix `Q` with `N Q N = N` and `Q N Q = Q`, `N = ÃᵀÃ = AᵀPA`
    (`Q = T Q0 Tᵀ`, `Q0 = L⁻ᵀD⁺L⁻¹`, `T = I − G G_Sᵀ` the `S`-projector of the configured
    regularisation: `Lemmas/Ls/EnvQsing.lean`) -/
theorem C03_envelope_singular (hsq : IsSqrt sq) (tol stol : K) (m n : ℕ) (A : DMat K) (b : Array K)
    (At : DMat K) (bt : Array K) (reg : Reg) (o : EnvOrd) (hO : OrdOK n o)
    (hU : FactUnambiguous sq tol m n At bt o) (htol : 0 < tol) (hstol : 0 < stol)
    (hSlt : ∀ k ∈ regList n o reg, k < n)
    (hd : (@envCore K (fieldScalar sq) tol stol m n A b At bt reg o).defect ≠ 0) {x : Array K}
    (hx : (@envCore K (fieldScalar sq) tol stol m n A b At bt reg o).x = .ok x) :
    ∃ Q : Matrix (Fin n) (Fin n) K,
      (∀ i j : Fin n, (@envCore K (fieldScalar sq) tol stol m n A b At bt reg o).qxx (i + 1) (j + 1) = .ok (Q i j))
      ∧ Qᵀ = Q ∧ NO m n At * Q * NO m n At = NO m n At ∧ Q * NO m n At * Q = Q := by
  have hx' : (@solveX K (fieldScalar sq) (@factor K (fieldScalar sq) tol m n At bt o) (regList n o reg) stol).map
      (fun gx => @vecOf K n fun j => @vget K (fieldScalar sq) gx.2 (o.invp.getD j 0)) = .ok x := hx
  cases hs : @solveX K (fieldScalar sq) (@factor K (fieldScalar sq) tol m n At bt o) (regList n o reg) stol with
  | error e => rw [hs] at hx'; cases hx'
  | ok gx =>
    obtain ⟨G, xn⟩ := gx
    obtain ⟨-, hker⟩ := solveX_cols sq tol stol m n At bt o hsq hU htol hstol hSlt hs
    obtain ⟨p1, p2, p3⟩ := QsO_props sq tol m n At bt o hO hU (S := regList n o reg) hker
    exact ⟨QsO sq tol m n At bt o hO (regList n o reg) G,
      fun i j => envCore_qxx_singular sq tol stol m n A b At bt reg o hO hd hs i j, p1, p2, p3⟩

/-- **C03 (envelope), `q0_xx` for every unambiguous system**: the cofactors of the particular
    solution, for ALL index pairs, form a symmetric reflexive g-inverse `Q0` of `N`
    (`Q0 = L⁻ᵀD⁺L⁻¹` read through the ordering) -/
theorem C03_envelope_q0xx (tol stol : K) (m n : ℕ) (A : DMat K) (b : Array K) (At : DMat K)
    (bt : Array K) (reg : Reg) (o : EnvOrd) (hO : OrdOK n o) (hU : FactUnambiguous sq tol m n At bt o) :
    ∃ Q0 : Matrix (Fin n) (Fin n) K,
      (∀ i j : Fin n, (@envCore K (fieldScalar sq) tol stol m n A b At bt reg o).q0xx (i + 1) (j + 1) = .ok (Q0 i j))
      ∧ Q0ᵀ = Q0 ∧ NO m n At * Q0 * NO m n At = NO m n At ∧ Q0 * NO m n At * Q0 = Q0 := by
  obtain ⟨p1, p2, p3⟩ := Q0O_props sq tol m n At bt o hO hU
  exact ⟨Q0O sq tol m n At bt o hO, fun i j => envCore_q0xx sq tol stol m n A b At bt reg o hO i j, p1, p2, p3⟩

/-- **C03 (envelope), `q_bb` for every unambiguous system, regular or singular**: `q_bb(i,j)` is
    the `(i,j)` entry of `Π = Ã Q Ãᵀ` for EVERY generalised inverse `Q` of `N = ÃᵀÃ` (in
    particular the `Q` of `q_xx`); `Π` is a symmetric projector, its diagonal lies in `[0,1]`, and
    the redundancy numbers sum to `m − n + defect` -/
theorem C03_envelope_qbb_projector (tol stol : K) (m n : ℕ) (A : DMat K) (b : Array K) (At : DMat K)
    (bt : Array K) (reg : Reg) (o : EnvOrd) (hO : OrdOK n o) (hU : FactUnambiguous sq tol m n At bt o)
    (htol : 0 < tol) (Q : Matrix (Fin n) (Fin n) K) (hQ : NO m n At * Q * NO m n At = NO m n At) :
    (∀ i j : Fin m, (@envCore K (fieldScalar sq) tol stol m n A b At bt reg o).qbb (i + 1) (j + 1)
        = .ok ((toMatrix m n At * Q * (toMatrix m n At)ᵀ) i j))
    ∧ (toMatrix m n At * Q * (toMatrix m n At)ᵀ)ᵀ = toMatrix m n At * Q * (toMatrix m n At)ᵀ
    ∧ (toMatrix m n At * Q * (toMatrix m n At)ᵀ) * (toMatrix m n At * Q * (toMatrix m n At)ᵀ)
        = toMatrix m n At * Q * (toMatrix m n At)ᵀ
    ∧ (∀ i, 0 ≤ (toMatrix m n At * Q * (toMatrix m n At)ᵀ) i i ∧ (toMatrix m n At * Q * (toMatrix m n At)ᵀ) i i ≤ 1)
    ∧ ∑ i, (1 - (toMatrix m n At * Q * (toMatrix m n At)ᵀ) i i)
        = (m : K) - n + (@envCore K (fieldScalar sq) tol stol m n A b At bt reg o).defect := by
  have h0 := Q0O_ginv sq tol m n At bt o hO hU
  have hone : ∀ X : Matrix (Fin n) (Fin n) K, NO m n At * X * NO m n At = NO m n At →
      ((toMatrix m n At)ᵀ * (1 : Matrix (Fin m) (Fin m) K) * toMatrix m n At) * X
        * ((toMatrix m n At)ᵀ * (1 : Matrix (Fin m) (Fin m) K) * toMatrix m n At)
        = (toMatrix m n At)ᵀ * (1 : Matrix (Fin m) (Fin m) K) * toMatrix m n At := by
    intro X hX; simpa only [Matrix.mul_one, NO] using hX
  have hinv : toMatrix m n At * Q0O sq tol m n At bt o hO * (toMatrix m n At)ᵀ
      = toMatrix m n At * Q * (toMatrix m n At)ᵀ :=
    aqat_invariant one_symm one_pd (hone _ h0) (hone _ hQ)
  have hQ' : ((toMatrix m n At)ᵀ * toMatrix m n At) * Q * ((toMatrix m n At)ᵀ * toMatrix m n At)
      = (toMatrix m n At)ᵀ * toMatrix m n At := hQ
  have hs := hat_symm' hQ'
  have hi := hat_idempotent' hQ'
  refine ⟨fun i j => ?_, hs, hi, fun i => ⟨symm_idem_diag_nonneg hs hi i, symm_idem_diag_le_one hs hi i⟩, ?_⟩
  · rw [← hinv]; exact envCore_qbb sq tol stol m n A b At bt reg o hO i j
  · rw [redundancy_sum hQ']
    have hr := rank_add_defect sq tol m n At bt o hU htol
    rw [ApM_eq_submatrix sq tol m n At bt o hO] at hr
    have e : ((toMatrix m n At).submatrix id hO.equiv).rank = (toMatrix m n At).rank :=
      Matrix.rank_submatrix (toMatrix m n At) (Equiv.refl _) hO.equiv
    rw [e] at hr
    have hd : (@envCore K (fieldScalar sq) tol stol m n A b At bt reg o).defect
        = @defectOf K (@factor K (fieldScalar sq) tol m n At bt o).rows := rfl
    rw [hd]
    have hn : ((toMatrix m n At).rank : K) + (@defectOf K (@factor K (fieldScalar sq) tol m n At bt o).rows : K)
        = (n : K) := by exact_mod_cast hr
    simp only [Fintype.card_fin]
    linarith

/-! ### non-vacuity -/

/-- the regular 3 × 2 system with swapped ordering meets the hypotheses of `C03_envelope_inverse`
    and `C03_envelope_qbb`; the model's `q_xx = (1/3)[[2,−1],[−1,2]]`, `q_xx(1,2)` lies outside
    nothing here but is read through the ordering -/
example : OrdOK 2 Ex.ro ∧ (0 : ℚ) < 1/2
    ∧ (@envCore ℚ (fieldScalar id) (1/2) (1/2) 3 2 Ex.rA Ex.rb Ex.rA Ex.rb .all Ex.ro).defect = 0
    ∧ ((@envCore ℚ (fieldScalar id) (1/2) (1/2) 3 2 Ex.rA Ex.rb Ex.rA Ex.rb .all Ex.ro).qxx 1 1).toOption = some (2/3)
    ∧ ((@envCore ℚ (fieldScalar id) (1/2) (1/2) 3 2 Ex.rA Ex.rb Ex.rA Ex.rb .all Ex.ro).qxx 1 2).toOption = some (-1/3)
    ∧ ((@envCore ℚ (fieldScalar id) (1/2) (1/2) 3 2 Ex.rA Ex.rb Ex.rA Ex.rb .all Ex.ro).qbb 2 2).toOption = some (2/3) :=
  ⟨Ex.ro_ok, by norm_num, by decide +kernel, by decide +kernel, by decide +kernel, by decide +kernel⟩

/-- the dense restatement of `Envelope::inverse` (`Env.zEntry`) and the full-inverse column
    (`Env.q0`) agree on every index pair of a regular and of a singular instance (a test, not a
    theorem: the general equality is MODELLED, see `Model/Ls/Env.lean`) -/
example :
    (List.range 2).all (fun i => (List.range 2).all fun j =>
      @zEntry ℚ (fieldScalar id) (@factor ℚ (fieldScalar id) (1/2) 3 2 Ex.rA Ex.rb Ex.ro).rows 2 i j
        == @q0 ℚ (fieldScalar id) (@factor ℚ (fieldScalar id) (1/2) 3 2 Ex.rA Ex.rb Ex.ro).rows 2 i j) = true
    ∧ (List.range 4).all (fun i => (List.range 4).all fun j =>
      @zEntry ℚ (fieldScalar id) (@factor ℚ (fieldScalar id) (1/2) 2 4 Ex.wA Ex.wb Ex.wo).rows 4 i j
        == @q0 ℚ (fieldScalar id) (@factor ℚ (fieldScalar id) (1/2) 2 4 Ex.wA Ex.wb Ex.wo).rows 4 i j) = true := by
  decide +kernel

end Gama.Props.C03
