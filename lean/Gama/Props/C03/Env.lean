/-
  C03 — Reported cofactors are the true (generalised) inverse: envelope solver.

  Same setting as `Props/C01/Env.lean` (ordered field `K`, model at `fieldScalar sq`, any
  ordering `OrdOK`, homogenised system `(At, bt)`).  `N = ÃᵀÃ` (`NO m n At`) is the normal
  matrix `AᵀPA` of the problem in the numbering of the problem (`C03_normal_matrix_whitened`).
  Queries are 1-based as in the C++ interface.
-/
import Gama.Lemmas.Ls.EnvCofactor
import Gama.Lemmas.Ls.EnvExamples
import Gama.Lemmas.LS.GInverse
namespace Gama.Props.C03
open Gama Gama.Ls Gama.Ls.Env Gama.LS Matrix

set_option linter.unusedSectionVars false
variable {K : Type} [Field K] [LinearOrder K] [IsStrictOrderedRing K] (sq : K → K)

/-- `AdjEnvelope::q_bx` is not implemented: it throws `Exception::BadRegularization`, as coded -/
theorem C03_env_qbx_throws {K : Type} [Scalar K] (tol stol : K) (m n : Nat) (A : DMat K) (b : Array K)
    (At : DMat K) (bt : Array K) (reg : Reg) (o : EnvOrd) (i j : Nat) :
    (envCore tol stol m n A b At bt reg o).qbx i j = .error .BadRegularization := rfl

/-- `ÃᵀÃ = AᵀPA` for `Ã = W A`, `P = WᵀW` -/
theorem C03_normal_matrix_whitened (m n : ℕ) (A At : DMat K) {P W : Matrix (Fin m) (Fin m) K} (hW : Wᵀ * W = P)
    (hAt : toMatrix m n At = W * toMatrix m n A) :
    NO m n At = (toMatrix m n A)ᵀ * P * toMatrix m n A := by
  rw [NO, hAt, transpose_mul, ← hW]; simp only [Matrix.mul_assoc]

/-- **C03 (envelope, defect 0)**: `q_xx(i,j) = q0_xx(i,j) = N⁻¹ᵢⱼ` for ALL index pairs (inside or
    outside the envelope), `N` invertible -/
theorem C03_envelope_inverse (tol stol : K) (m n : ℕ) (A : DMat K) (b : Array K) (At : DMat K) (bt : Array K)
    (reg : Reg) (o : EnvOrd) (hO : OrdOK n o) (htol : 0 < tol)
    (hd : (@envCore K (fieldScalar sq) tol stol m n A b At bt reg o).defect = 0) :
    IsUnit (NO m n At).det ∧ ∀ i j : Fin n,
      (@envCore K (fieldScalar sq) tol stol m n A b At bt reg o).qxx (i + 1) (j + 1) = .ok ((NO m n At)⁻¹ i j)
      ∧ (@envCore K (fieldScalar sq) tol stol m n A b At bt reg o).q0xx (i + 1) (j + 1) = .ok ((NO m n At)⁻¹ i j) :=
  ⟨NO_isUnit sq tol m n At bt o hO ((defect_zero_iff sq _ tol n).1 hd) htol,
   fun i j => envCore_qxx_regular sq tol stol m n A b At bt reg o hO htol hd i j⟩

/-- hence `Q` is symmetric with `N Q N = N`, `Q N Q = Q` -/
theorem C03_envelope_sym_NQN_QNQ (m n : ℕ) (At : DMat K) (hu : IsUnit (NO m n At).det) :
    ((NO m n At)⁻¹)ᵀ = (NO m n At)⁻¹
    ∧ NO m n At * (NO m n At)⁻¹ * NO m n At = NO m n At
    ∧ (NO m n At)⁻¹ * NO m n At * (NO m n At)⁻¹ = (NO m n At)⁻¹ := by
  have hs : (NO m n At)ᵀ = NO m n At := by
    rw [NO, transpose_mul, transpose_transpose]
  refine ⟨by rw [transpose_nonsing_inv, hs], ?_, ?_⟩
  · rw [mul_nonsing_inv _ hu, Matrix.one_mul]
  · rw [nonsing_inv_mul _ hu, Matrix.one_mul]

/-- **C03 (envelope, defect 0)**: `q_bb(i,j) = (Ã N⁻¹ Ãᵀ)ᵢⱼ` for all pairs -/
theorem C03_envelope_qbb (tol stol : K) (m n : ℕ) (A : DMat K) (b : Array K) (At : DMat K) (bt : Array K)
    (reg : Reg) (o : EnvOrd) (hO : OrdOK n o) (htol : 0 < tol)
    (hd : (@envCore K (fieldScalar sq) tol stol m n A b At bt reg o).defect = 0) (i j : Fin m) :
    (@envCore K (fieldScalar sq) tol stol m n A b At bt reg o).qbb (i + 1) (j + 1)
      = .ok ((toMatrix m n At * (NO m n At)⁻¹ * (toMatrix m n At)ᵀ) i j) :=
  envCore_qbb_regular sq tol stol m n A b At bt reg o hO htol hd i j

/-- the hat matrix of the homogenised system is a symmetric projector with diagonal in `[0,1]` -/
theorem C03_envelope_projector (m n : ℕ) (At : DMat K) (hu : IsUnit (NO m n At).det) :
    let H := toMatrix m n At * (NO m n At)⁻¹ * (toMatrix m n At)ᵀ
    Hᵀ = H ∧ H * H = H ∧ ∀ i, 0 ≤ H i i ∧ H i i ≤ 1 := by
  obtain ⟨hs, -, hq⟩ := C03_envelope_sym_NQN_QNQ m n At hu
  exact ⟨hat_symm hs, hat_idempotent hq, fun i => ⟨hat_diag_nonneg hs hq i, hat_diag_le_one hs hq i⟩⟩

/-- redundancy numbers sum to the degrees of freedom: `Σ (1 − Πᵢᵢ) = m − n` (defect 0) -/
theorem C03_envelope_redundancy (m n : ℕ) (At : DMat K) (hu : IsUnit (NO m n At).det) :
    ∑ i, (1 - (toMatrix m n At * (NO m n At)⁻¹ * (toMatrix m n At)ᵀ) i i) = (m : K) - n := by
  have ht : trace (toMatrix m n At * (NO m n At)⁻¹ * (toMatrix m n At)ᵀ) = (n : K) := by
    rw [hat_trace, ← NO, nonsing_inv_mul _ hu, trace_one, Fintype.card_fin]
  rw [Finset.sum_sub_distrib]
  simp only [Finset.sum_const, Finset.card_univ, Fintype.card_fin, nsmul_eq_mul, mul_one]
  rw [← ht]; rfl

/-
  FULL STATEMENT (singular case), not yet proved:  for an unambiguous problem with defect > 0
  and a regularisation subset that resolves the defect, the matrix `Q(i,j) = q_xx(i+1,j+1)`
  (`Env.qxxSing`: `Σ_k a_k b_k / d_k`, `a = L⁻¹ T_row(i)`) is `T Q0 Tᵀ` with
  `Q0 = L⁻ᵀ D⁺ L⁻¹`, `T = I − G G_Sᵀ`, symmetric, `N Q N = N`, `Q N Q = Q`; `q_bb = Ã Q0 Ãᵀ`.
  What is proved for the singular case: the factorisation `N = L D Lᵀ` with zero columns on
  zero pivots (`C01_envelope_factorisation`) from which `Q0 N Q0 = Q0`, `N Q0 N = N` follow by
  the triangular argument of `solve_spec`; the Gram–Schmidt part is missing (see C01).
-/

/-! ### non-vacuity -/

/-- the regular 3 × 2 system with swapped ordering meets the hypotheses of `C03_envelope_inverse`
    and `C03_envelope_qbb`; the model's `q_xx = (1/3)[[2,−1],[−1,2]]`, `q_xx(1,2)` lies outside
    nothing here but is read through the ordering -/
example : OrdOK 2 Ex.ro ∧ (0 : ℚ) < 1/2
    ∧ (@envCore ℚ (fieldScalar id) (1/2) (1/2) 3 2 Ex.rA Ex.rb Ex.rA Ex.rb .all Ex.ro).defect = 0
    ∧ ((@envCore ℚ (fieldScalar id) (1/2) (1/2) 3 2 Ex.rA Ex.rb Ex.rA Ex.rb .all Ex.ro).qxx 1 1).toOption = some (2/3)
    ∧ ((@envCore ℚ (fieldScalar id) (1/2) (1/2) 3 2 Ex.rA Ex.rb Ex.rA Ex.rb .all Ex.ro).qxx 1 2).toOption = some (-1/3)
    ∧ ((@envCore ℚ (fieldScalar id) (1/2) (1/2) 3 2 Ex.rA Ex.rb Ex.rA Ex.rb .all Ex.ro).qbb 2 2).toOption = some (2/3) :=
  ⟨Ex.ro_ok, by norm_num, by decide +kernel, by decide +kernel, by decide +kernel, by decide +kernel⟩

end Gama.Props.C03
