/-
  C03 at `LocalNetwork` level — `C03_net_cofactors` APPLIED over ℝ to `Ex.npR` (correlated cluster with an excluded
  observation, defect 1, `min_x_ = [1]`; `Props/C01/NetWitness.lean`), for envelope, cholesky and gso: every
  hypothesis discharged on the same object, the model answers, and the reported `qxx`, `qbb` are a symmetric PSD
  reflexive g-inverse of `N = AᵀPA` (`P = m0²·Σ⁻¹`) belonging to `min_x_`, and the hat matrix of the homogenised
  system (symmetric projector, trace `= n − defect`).
-/
import Gama.Props.C03.Net
import Gama.Props.C01.NetWitness
namespace Gama.Props.C03
open Gama Gama.Ls Gama.Ls.Net Gama.LS Gama.Ls.Ex Matrix
attribute [local instance] sqrtFnOfSqrtField
attribute [local instance 2000] scalarOfField

/-- **`C03_net_cofactors` applied to `npR`** (the clauses about `Q` and `B`; `N := Aᵀ(m0²Pc)A`) -/
theorem C03_net_cofactors_witness (alg : Alg) (halg : alg ≠ .svd) :
    ∃ a, netSolve alg npR = .ok a ∧ a.defect = 1 ∧
      ∃ (Q : Matrix (Fin (toProblem npR).n) (Fin (toProblem npR).n) ℝ)
        (B : Matrix (Fin (toProblem npR).m) (Fin (toProblem npR).m) ℝ),
        (∀ i j : Fin (toProblem npR).n, a.qxx (i.val + 1) (j.val + 1) = .ok (Q i j)) ∧
        (∀ i j : Fin (toProblem npR).m, a.qbb (i.val + 1) (j.val + 1) = .ok (B i j)) ∧
        Qᵀ = Q ∧ (∀ y, 0 ≤ y ⬝ᵥ Q *ᵥ y) ∧
        ((toProblem npR).Aᵀ * ((npR.m0 * npR.m0) • PcN) * (toProblem npR).A) * Q
            * ((toProblem npR).Aᵀ * ((npR.m0 * npR.m0) • PcN) * (toProblem npR).A)
          = (toProblem npR).Aᵀ * ((npR.m0 * npR.m0) • PcN) * (toProblem npR).A ∧
        Q * ((toProblem npR).Aᵀ * ((npR.m0 * npR.m0) • PcN) * (toProblem npR).A) * Q = Q ∧
        BelongsTo (toProblem npR).A (toProblem npR).S Q ∧
        B = toMatrix (toProblem npR).m (toProblem npR).n a.Ad * Q * (toMatrix (toProblem npR).m (toProblem npR).n a.Ad)ᵀ ∧
        Bᵀ = B ∧ B * B = B ∧ (∀ i, 0 ≤ B i i ∧ B i i ≤ 1) ∧
        ∑ i, (1 - B i i) = ((toProblem npR).m : ℝ) - (toProblem npR).n + a.defect ∧
        a.defect + (toProblem npR).A.rank = (toProblem npR).n := by
  obtain ⟨a, ha, hd⟩ := Props.C01.C01_net_answers_witness alg halg
  obtain ⟨W, Q, B, -, -, -, -, h5, h6, h7, h8, h9, h10, h11, -, h13, h14, h15, h16, h17, h18⟩ :=
    C03_net_cofactors alg npR (npW_dims 2 [1]) (npW_rows 2 [1]) (by show (2 : ℝ) ≠ 0; norm_num) PcN
      npR_sigma_inv (Props.C01.C01_net_solverhyp_witness alg halg) a ha
  exact ⟨a, ha, hd, Q, B, h5, h6, h7, h8, h9, h10, h11, h13, h14, h15, h16, h17, h18⟩

/-- consequence on the witness: the design matrix of `npR` has rank 1 (defect 1 + rank = 2) -/
example : (toProblem npR).A.rank = 1 := by
  obtain ⟨a, -, hd, Q, B, -, -, -, -, -, -, -, -, -, -, -, -, h⟩ := C03_net_cofactors_witness .env (by decide)
  have hn : (toProblem npR).n = 2 := rfl
  omega

end Gama.Props.C03
