/-
  C03 — cofactors of the envelope solver AS THE DRIVER RUNS IT (`envSolve p`: homogenisation +
  reverse Cuthill–McKee + `envCore`; see `Props/C01/EnvSolve.lean` for the setting and hypotheses).
  `N = AᵀPA` is the normal matrix of the ORIGINAL weighted problem, `p.C · P = 1`.
-/
import Gama.Lemmas.Ls.ComposeEnvSolve
import Gama.Lemmas.Ls.ComposeEnvSolveExample
import Gama.Props.C03.Env
namespace Gama.Props.C03
open Gama Gama.Ls Gama.Ls.Env Gama.LS Gama.Ls.AdjM Matrix

set_option linter.unusedSectionVars false

variable {K : Type} [Field K] [LinearOrder K] [IsStrictOrderedRing K] [SqrtFn K]
attribute [local instance 2000] scalarOfField

/-- **C03 for `envSolve`** (clauses 1–6): the reported `q_xx(i,j)`, for ALL index pairs, are the entries
    of a symmetric, positive semi-definite matrix `Q` with `N Q N = N`, `Q N Q = Q` that belongs to the
    configured regularisation (`Q y` is `S`-orthogonal to `ker A` for every `y`), and `Q = N⁻¹` when the
    defect is 0 -/
theorem C03_envsolve_cofactors (hsq : IsSqrt (SqrtFn.sq : K → K)) (p : Problem K) (hin : Env.InputOK p)
    (hreg : Env.RegListOK p) (hU : Env.SolveUnambiguous p)
    (P : Matrix (Fin p.m) (Fin p.m) K) (hP : p.C * P = 1)
    (a : Answer K) (h : envSolve p = .ok a) (hx : a.xErr = none) :
    ∃ Q : Matrix (Fin p.n) (Fin p.n) K,
      (∀ i j : Fin p.n, a.qxx (i + 1) (j + 1) = .ok (Q i j))
      ∧ Qᵀ = Q ∧ (p.Aᵀ * P * p.A) * Q * (p.Aᵀ * P * p.A) = p.Aᵀ * P * p.A ∧ Q * (p.Aᵀ * P * p.A) * Q = Q
      ∧ (∀ y, 0 ≤ y ⬝ᵥ Q *ᵥ y) ∧ BelongsTo p.A p.S Q
      ∧ (a.defect = 0 → Q = (p.Aᵀ * P * p.A)⁻¹) :=
  envSolve_cofactors hsq p hin hreg hU P hP a h hx

/-- the reported defect is `n − rank A` -/
theorem C03_envsolve_defect_rank (hsq : IsSqrt (SqrtFn.sq : K → K)) (p : Problem K) (hin : Env.InputOK p)
    (hU : Env.SolveUnambiguous p) (P : Matrix (Fin p.m) (Fin p.m) K) (hP : p.C * P = 1)
    (a : Answer K) (h : envSolve p = .ok a) : p.A.rank + a.defect = p.n :=
  envSolve_defect_rank hsq p hin hU P hP a h

/-- **C03 for `envSolve`, `q_bb`** (clauses 7–9): with the whitening `W` (`WᵀW = P`) of the
    homogenisation, `q_bb(i,j)` is the `(i,j)` entry of `Π = (W A) Q (W A)ᵀ` for EVERY generalised
    inverse `Q` of `N = AᵀPA`; `Π` is a symmetric projector with diagonal in `[0,1]` and the redundancy
    numbers sum to `m − n + defect` -/
theorem C03_envsolve_qbb (hsq : IsSqrt (SqrtFn.sq : K → K)) (p : Problem K) (hin : Env.InputOK p)
    (hU : Env.SolveUnambiguous p) (P : Matrix (Fin p.m) (Fin p.m) K) (hP : p.C * P = 1)
    (a : Answer K) (h : envSolve p = .ok a) (Q : Matrix (Fin p.n) (Fin p.n) K)
    (hQ : (p.Aᵀ * P * p.A) * Q * (p.Aᵀ * P * p.A) = p.Aᵀ * P * p.A) :
    ∃ W : Matrix (Fin p.m) (Fin p.m) K, Wᵀ * W = P ∧
      (∀ i j : Fin p.m, a.qbb (i + 1) (j + 1) = .ok (((W * p.A) * Q * (W * p.A)ᵀ) i j))
      ∧ ((W * p.A) * Q * (W * p.A)ᵀ)ᵀ = (W * p.A) * Q * (W * p.A)ᵀ
      ∧ ((W * p.A) * Q * (W * p.A)ᵀ) * ((W * p.A) * Q * (W * p.A)ᵀ) = (W * p.A) * Q * (W * p.A)ᵀ
      ∧ (∀ i, 0 ≤ ((W * p.A) * Q * (W * p.A)ᵀ) i i ∧ ((W * p.A) * Q * (W * p.A)ᵀ) i i ≤ 1)
      ∧ ∑ i, (1 - ((W * p.A) * Q * (W * p.A)ᵀ) i i) = (p.m : K) - p.n + a.defect := by
  obtain ⟨hh, hhom, -, -, hdef, -, -, hqbb, -, -⟩ := envSolve_shape p a h
  obtain ⟨hO, W, hW, hWinj, hAt, hbt, -⟩ := Env.solve_setup hsq p hin P hP hh hhom
  have hN : NO p.m p.n hh.At = p.Aᵀ * P * p.A := by
    rw [NO, hAt, transpose_mul, ← hW]; simp only [Matrix.mul_assoc]; rfl
  obtain ⟨q1, q2, q3, q4, q5⟩ := C03_envelope_qbb_projector (SqrtFn.sq : K → K) (Env.sqrtEps : K) (Env.sqrtEps : K)
    p.m p.n p.dense p.rhs hh.At hh.bt p.reg _ hO (hU hh hhom) Env.sqrtEps_pos Q (by rw [hN]; exact hQ)
  have hAt' : toMatrix p.m p.n hh.At = W * p.A := hAt
  rw [hAt'] at q1 q2 q3 q4 q5
  exact ⟨W, hW, fun i j => by rw [hqbb]; exact q1 i j, q2, q3, q4, by rw [hdef]; exact q5⟩

/-! ### non-vacuity -/

/-- `Ex.pEnvCorr` (correlated block of band width 1, defect 1, proper resolving subset) meets every
    hypothesis except the global square-root law, and the model reports `q_xx(2,2) = 18/293`, zero row
    and column for the regularised unknown 1, `q_bb(3,3) = 288/293` (kernel evaluation) -/
example : Env.InputOK Ex.pEnvCorr ∧ Env.RegListOK Ex.pEnvCorr ∧ Env.SolveUnambiguous Ex.pEnvCorr
    ∧ Ex.pEnvCorr.C * Ex.PEnvCorr = 1
    ∧ ∃ a, envSolve Ex.pEnvCorr = .ok a ∧ a.defect = 1 ∧ a.xErr = none
        ∧ (a.qxx 1 1).toOption = some 0 ∧ (a.qxx 1 2).toOption = some 0 ∧ (a.qxx 2 2).toOption = some (18/293)
        ∧ (a.qbb 3 3).toOption = some (288/293) := by
  refine ⟨Ex.pEnvCorr_input, Ex.pEnvCorr_reg, Ex.pEnvCorr_unamb.1, Ex.pEnvCorr_weight, ?_⟩
  have e : (envSolve Ex.pEnvCorr).toOption.map (fun a => (a.defect, a.xErr,
      [a.qxx 1 1, a.qxx 1 2, a.qxx 2 2, a.qbb 3 3].map Except.toOption))
      = some (1, none, [some 0, some 0, some (18/293), some (288/293)]) := by decide +kernel
  obtain ⟨a, h1, h2⟩ := Ex.ok_of_toOption e
  simp only [Prod.mk.injEq, List.map_cons, List.map_nil, List.cons.injEq, and_true] at h2
  exact ⟨a, h1, h2.1, h2.2.1, h2.2.2.1, h2.2.2.2.1, h2.2.2.2.2.1, h2.2.2.2.2.2⟩

end Gama.Props.C03
