/-
  C03 row 11 — "the covariance matrix written to the XML output equals m0²·Q for any --cov-band", on the OUTPUT of the
  executed models (W8c): no free `Q`, `m0`, `pts`.
-/
import Gama.Props.C12Net
import Gama.Props.C03.Net
import Gama.Props.C01.ProjectEquationsGap
import Gama.Lemmas.C03XmlCov
namespace Gama.Props.C03
open Gama Gama.Lin Gama.PE Gama.Ls Gama.Ls.Net Gama.LS Gama.CovBand Gama.XmlCovNet Matrix

set_option linter.unusedSectionVars false

section net
variable {K : Type} [Field K] [LinearOrder K] [SqrtFn K]
attribute [local instance 2000] scalarOfField

/-- **C03 row 11 on the executed models** — no free `Q`, `m0`, `pts`.  `(np, u)` is what `project_equations()` returns
    for `net`, `a` what `netSolve alg np` answers (`_hs` only identifies `a`; its cofactor content is used in
    `C03_net_xml_cov_ginverse`), `m0` the value of `m_0()` for the configured kind `act`.  The writer's point records
    are `xmlPtsOf u` (`PD` of the network the call left), its orientation records `orisOf u` (`unknowns_`);
    `ind[] = indList …`; the accessor atoms of the REGENERATED covariance site are valued by the model's accessors
    (`covEnv`: `net.m_0()` ↦ `a.m0 np act`, `net.qxx(ind[i],ind[j])` ↦ `a.qxx (ind[i]) (ind[j])`).  With `cov i j` the
    value the writer streams: (i) `cov i j = m0²·q` whenever `qxx(ind[i],ind[j])` returns `q` (otherwise the C++ throws);
    (ii) the `<flt>` sequence is the band `clip band dim` of `cov` by rows; (iii) gama's reader reconstructs
    `bandOf cov (clip band dim)` at every position; (iv) `<original-index>` is `ind[]` — for every `--cov-band ≥ -1`,
    every algorithm, every ordered field with a root function and any trigonometric functions. -/
theorem C03_net_xml_cov (t : TrigFns K) (net : PE.Net K) (np : NetProblem K) (u : Unknowns K)
    (hpe : @projectEquations K (trigOfField t) net = .ok (np, u))
    (alg : Alg) (a : NetAnswer K) (_hs : netSolve alg np = .ok a)
    (act : Stats.SigmaAct) (m0 : K) (hm : a.m0 np act = .ok m0)
    (band : Int) (hb : -1 ≤ band)
    (g : FormatExpr.Group) (e : FormatExpr.Entry) (he : XmlCovSite.IsCovXml g e) (inv : Nat → K) :
    let ind := indList (xmlPtsOf u) (orisOf u)
    let dim := ind.length
    let cov : Nat → Nat → K := fun i j => FormatExpr.eval inv (covEnv (okOr0 (a.m0 np act)) a ind i j) e.expr
    (∀ i j q, a.qxx (ind.getD (i - 1) 0) (ind.getD (j - 1) 0) = .ok q → cov i j = m0 * m0 * q) ∧
    (write cov dim band).flt = emitFlt cov dim (clip band dim) ∧
    (∃ C : CovMat K, read (write cov dim band) = .ok C ∧ C.dim = dim ∧ C.band = clip band dim ∧
      ∀ i j, 1 ≤ i → i ≤ dim → 1 ≤ j → j ≤ dim → get C i j = bandOf cov (clip band dim) i j) ∧
    originalIndex (xmlPtsOf u) (orisOf u) = ind := by
  intro ind dim cov
  have hm' : okOr0 (a.m0 np act) = m0 := by rw [hm]; rfl
  obtain ⟨h1, h2, h3, h4⟩ := @Props.C12.C03_xml_cov_is_m0sq_Q_of_project_equations K (trigOfField t) K _ net np u hpe
    (qxxVal a) m0 (xmlPtsOf u) band hb g e he inv (covEnv (okOr0 (a.m0 np act)) a ind)
    (fun i j => by rw [covEnv_m0, hm']) (fun i j => covEnv_qxx _ a ind i j)
  refine ⟨fun i j q hq => ?_, h2, h3, h4⟩
  rw [← qxxVal_ok a _ _ q hq]
  exact h1 i j

/-- **the range fact for `ind[]`**: every row of the XML matrix is an unknown number `1 … pocet_neznamych_` (so the
    accessor `qxx(ind[i], ind[j])` is called inside `1 … n` for every position `1 ≤ i, j ≤ dim`).
    Upper half: an index of an active point was handed out by this pass (`pe_ind_le`).  Lower half (`pe_ind_pos`):
    `index_x()`, `index_z()` by the writer's own tests (`bxy`, `bz`), orientations by `o.i = j + 1`, and
    `index_y()` — which the writer appends under the test of `index_x() != 0` ONLY — because in the state
    `project_equations()` leaves, `singular_coords` returned `false`: every `active_xy()`, non-fixed point has
    `index_x() != 0 && index_y() != 0` (a point with a single one of the two, reachable since /repo 3fb8708 registers
    X and Y separately — e.g. a point whose only observation is a `dx` — is `set_unused_xy()` and the call repeats),
    and a fixed point has `index_x() == 0` (`Fresh.notfree_xy_zero`: the regenerated linearisation touches only
    coordinates guarded by `free_xy()`). -/
theorem C03_net_xml_ind_range (t : TrigFns K) (net : PE.Net K) (np : NetProblem K) (u : Unknowns K)
    (hpe : @projectEquations K (trigOfField t) net = .ok (np, u)) :
    ∀ k ∈ indList (xmlPtsOf u) (orisOf u), 1 ≤ k ∧ k ≤ np.n := fun k hk =>
  ⟨@pe_ind_pos K (trigOfField t) net np u hpe
      (@Props.C12.C12_hori_of_project_equations K (trigOfField t) net np u hpe) k hk,
   @pe_ind_le K (trigOfField t) net np u hpe (@C01.C01_pe_unknowns K (trigOfField t) net np u hpe).1
      (@Props.C12.C12_hori_of_project_equations K (trigOfField t) net np u hpe) k hk⟩

/-- the former name (rounds 8–11 proved the upper half only); kept as an alias of the upper half of
    `C03_net_xml_ind_range` -/
theorem C03_net_xml_ind_range_partial (t : TrigFns K) (net : PE.Net K) (np : NetProblem K) (u : Unknowns K)
    (hpe : @projectEquations K (trigOfField t) net = .ok (np, u)) :
    ∀ k ∈ indList (xmlPtsOf u) (orisOf u), k ≤ np.n :=
  fun k hk => (C03_net_xml_ind_range t net np u hpe k hk).2

end net

section ginverse
variable {K : Type} [Field K] [LinearOrder K] [IsStrictOrderedRing K] [Gso.SqrtField K]
attribute [local instance] sqrtFnOfSqrtField
attribute [local instance 2000] scalarOfField

/-- **C03 row 11 composed with the cofactor theorem** (`C03_net_cofactors`; `hdim`, `RowsOK` from the theorems about
    `project_equations()`): there is ONE matrix `Q` — symmetric, positive semi-definite, `N Q N = N`, `Q N Q = Q` for
    `N = AᵀPA`, `P = m0_apr²·Σ⁻¹`, of the ORIGINAL system, belonging to `min_x_`, `= N⁻¹` when the defect is 0 — such
    that the number streamed at position `(i, j)` of `<cov-mat>` is `m0²·Q(ind[i], ind[j])`, written on the band and
    read back exactly.  No range hypothesis on `ind[]`: for every position `1 ≤ i, j ≤ dim` the entries `ind[i]`,
    `ind[j]` lie in `1 … n` (`C03_net_xml_ind_range`; stated in the conclusion, where it types the `Fin` indices). -/
theorem C03_net_xml_cov_ginverse (t : TrigFns K) (net : PE.Net K) (np : NetProblem K) (u : Unknowns K)
    (hpe : @projectEquations K (trigOfField t) net = .ok (np, u))
    (hm0 : np.m0 ≠ 0)
    (Pc : Matrix (Fin (toProblem np).m) (Fin (toProblem np).m) K) (hPc : Sigma np * Pc = 1)
    (alg : Alg) (hyp : Net.SolverHyp alg np) (a : NetAnswer K) (hs : netSolve alg np = .ok a)
    (act : Stats.SigmaAct) (m0 : K) (hm : a.m0 np act = .ok m0)
    (band : Int) (hb : -1 ≤ band)
    (g : FormatExpr.Group) (e : FormatExpr.Entry) (he : XmlCovSite.IsCovXml g e) (inv : Nat → K) :
    let ind := indList (xmlPtsOf u) (orisOf u)
    let dim := ind.length
    let cov : Nat → Nat → K := fun i j => FormatExpr.eval inv (covEnv (okOr0 (a.m0 np act)) a ind i j) e.expr
    let N := (toProblem np).Aᵀ * ((np.m0 * np.m0) • Pc) * (toProblem np).A
    ∃ Q : Matrix (Fin (toProblem np).n) (Fin (toProblem np).n) K,
      Qᵀ = Q ∧ (∀ y, 0 ≤ y ⬝ᵥ Q *ᵥ y) ∧ N * Q * N = N ∧ Q * N * Q = Q ∧
      BelongsTo (toProblem np).A (toProblem np).S Q ∧ (a.defect = 0 → Q = N⁻¹) ∧
      (∀ i j, 1 ≤ i → i ≤ dim → 1 ≤ j → j ≤ dim →
        ∃ (hi : 1 ≤ ind.getD (i - 1) 0 ∧ ind.getD (i - 1) 0 ≤ (toProblem np).n)
          (hj : 1 ≤ ind.getD (j - 1) 0 ∧ ind.getD (j - 1) 0 ≤ (toProblem np).n),
        cov i j = m0 * m0 * Q ⟨ind.getD (i - 1) 0 - 1, by omega⟩ ⟨ind.getD (j - 1) 0 - 1, by omega⟩) ∧
      (write cov dim band).flt = emitFlt cov dim (clip band dim) ∧
      (∃ C : CovMat K, read (write cov dim band) = .ok C ∧ C.dim = dim ∧ C.band = clip band dim ∧
        ∀ i j, 1 ≤ i → i ≤ dim → 1 ≤ j → j ≤ dim → get C i j = bandOf cov (clip band dim) i j) ∧
      originalIndex (xmlPtsOf u) (orisOf u) = ind := by
  intro ind dim cov N
  obtain ⟨_, Q, _, _, _, _, _, hq, _, hsym, hpsd, hN1, hN2, hbel, hinv, _⟩ :=
    C03_net_cofactors alg np (C01.C01_pe_dimsN t net np u hpe)
      (@C01.C01_pe_rowsOK K (trigOfField t) net np u hpe) hm0 Pc hPc hyp a hs
  obtain ⟨h1, h2, h3, h4⟩ := C03_net_xml_cov t net np u hpe alg a hs act m0 hm band hb g e he inv
  have hrange : ∀ i, 1 ≤ i → i ≤ dim → 1 ≤ ind.getD (i - 1) 0 ∧ ind.getD (i - 1) 0 ≤ (toProblem np).n := by
    intro i h1i hid
    have hlt : i - 1 < ind.length := by show i - 1 < dim; omega
    rw [List.getD_eq_getElem?_getD, List.getElem?_eq_getElem hlt, Option.getD_some]
    exact C03_net_xml_ind_range t net np u hpe _ (List.getElem_mem hlt)
  refine ⟨Q, hsym, hpsd, hN1, hN2, hbel, hinv, fun i j hi1 hi2 hj1 hj2 => ?_, h2, h3, h4⟩
  have hi := hrange i hi1 hi2
  have hj := hrange j hj1 hj2
  refine ⟨hi, hj, ?_⟩
  refine h1 i j _ ?_
  have := hq ⟨ind.getD (i - 1) 0 - 1, by omega⟩ ⟨ind.getD (j - 1) 0 - 1, by omega⟩
  simp only at this
  rw [Nat.sub_add_cancel hi.1, Nat.sub_add_cancel hj.1] at this
  exact this

end ginverse

/-! ### non-vacuity: a network WITH A DIRECTION, evaluated by the kernel -/

section examples
open Gama.Ls.Ex
attribute [local instance 2000] scalarOfField

/-- `XmlCovNet.netD` (station `A` with directions to `D` (fixed) and `C` (free) and a distance to `C`, a second
    distance `B→C`; ℚ, trigonometric functions exact on axis-parallel geometry, `m_0_apr_ = 2`): `project_equations()`
    returns 4 rows / 3 unknowns (orientation of `A` = 1, `C.x` = 2, `C.y` = 3), the orientation list is NOT empty,
    and `ind[] = [2, 3, 1]` — the x, y indexes of the free point, THEN `index_orientation()` appended by
    `orientation_shifts`: the orientation unknown is a row of the XML matrix.  `netSolve .chol` on the output answers,
    `m_0()` (a priori) is 2, `qxx = [[1, −1/1000, 0], [−1/1000, 1/500000, 0], [0, 0, 1/2]]`, and for EVERY entry of the
    regenerated covariance site the `<flt>` sequence of `--cov-band 1` is `4·(Q₂₂, Q₂₃, Q₃₃, Q₃₁, Q₁₁)` =
    `[1/125000, 0, 2, 0, 4]` (all hypotheses of `C03_net_xml_cov` hold, `band = 1`) -/
example : ∃ np u a, @projectEquations ℚ (trigOfField tD) netD = .ok (np, u) ∧ orisOf u = [⟨1, 1⟩] ∧
    indList (xmlPtsOf u) (orisOf u) = [2, 3, 1] ∧ netSolve .chol np = .ok a ∧ a.m0 np .apriori = .ok 2 ∧
    ∀ g e, XmlCovSite.IsCovXml g e → ∀ inv : Nat → ℚ,
      (write (fun i j => FormatExpr.eval inv (covEnv (okOr0 (a.m0 np .apriori)) a [2, 3, 1] i j) e.expr)
        [2, 3, 1].length 1).flt = [1/125000, 0, 2, 0, 4] :=
  xmlSummary_spec Props.C12.C03_xml_cov_site.1 _ _ _ _ _ _ _ _ _ netD_chol_band1

/-- the same run with the full matrix (`--cov-band -1`): `4·(Q₂₂, Q₂₃, Q₂₁, Q₃₃, Q₃₁, Q₁₁)`; the covariance
    `C.x`–orientation `−1/250` is printed in row 1, column 3 -/
example : ∃ np u a, @projectEquations ℚ (trigOfField tD) netD = .ok (np, u) ∧ orisOf u = [⟨1, 1⟩] ∧
    indList (xmlPtsOf u) (orisOf u) = [2, 3, 1] ∧ netSolve .chol np = .ok a ∧ a.m0 np .apriori = .ok 2 ∧
    ∀ g e, XmlCovSite.IsCovXml g e → ∀ inv : Nat → ℚ,
      (write (fun i j => FormatExpr.eval inv (covEnv (okOr0 (a.m0 np .apriori)) a [2, 3, 1] i j) e.expr)
        [2, 3, 1].length (-1)).flt = [1/125000, 0, -1/250, 2, 0, 4] :=
  xmlSummary_spec Props.C12.C03_xml_cov_site.1 _ _ _ _ _ _ _ _ _ netD_chol_full

/-- a covariance site exists in the regenerated table (hypothesis `IsCovXml g e`) -/
example : ∃ g e, XmlCovSite.IsCovXml g e := by
  have h := Props.C12.C03_xml_cov_site.2
  simp only [XmlCovSite.covSiteExists, List.any_eq_true, Bool.and_eq_true, beq_iff_eq] at h
  obtain ⟨g, hg, hq, e, he, hb⟩ := h
  exact ⟨g, e, hg, hq, he, hb⟩

/-- the reported `qxx` of `netD` IS the inverse of `N = AᵀPA` (`P = m0²Σ⁻¹ = 1`; rows of `rowsD`): the conclusion of
    `C03_net_xml_cov_ginverse` checked on the evaluated answer (the theorem itself needs a global square root,
    `Gso.SqrtField`, which ℚ has not; ℝ has) -/
example : (!![2, 1000, 0; 1000, 1000000, 0; 0, 0, 2] : Matrix (Fin 3) (Fin 3) ℚ)
      * !![1, -1/1000, 0; -1/1000, 1/500000, 0; 0, 0, 1/2] = 1 := by decide +kernel

end examples

end Gama.Props.C03
