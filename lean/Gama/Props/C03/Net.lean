/-
  C03 for the entry point gama-local uses: class `LocalNetwork` (model `Gama/Model/NetFacade.lean`).

  `LocalNetwork::qxx(i,j)` and `qbb(i,j)` (network.h:214-215) delegate to the solver object:
  `least_squares->q_xx(i,j)`, `least_squares->q_bb(i,j)`.  For gso / svd / cholesky that object was given the
  dense system `prepareProjectEquations()` homogenised (`A_hom = W A`, `b_hom = W b`, `WᵀW = P = m0²·Σ⁻¹`,
  `C01_net_prepare`); the envelope solver was given the original sparse system with the cofactor blocks and
  homogenises itself — to the SAME matrix (`homogenize_eq_prepare`: the two Cholesky kernels of C10 agree).
  Hence, for every algorithm, ONE statement about the ORIGINAL system `(A, Σ, m0, S = min_x_)`:
    * `Q` (all `qxx(i,j)`) is symmetric, positive semi-definite, `N Q N = N`, `Q N Q = Q` for `N = AᵀPA`,
      belongs to `S`, and is `N⁻¹` when the defect is 0  (clauses 1–6);
    * `B` (all `qbb(i,j)`) is `A_hom Q A_homᵀ` for the homogenised matrix the probe reads from the base class
      — cofactors of the adjusted HOMOGENISED observations, NOT transformed back with the cluster factor —
      a symmetric projector with diagonal in `[0,1]` and `Σ(1 − B_ii) = m − n + defect`  (clauses 7–9);
    * `defect + rank A = n`.
  Hypotheses: those of the `C01_net_*` theorems (`Net.SolverHyp alg np` = the per-algorithm premise "rank
  numerically unambiguous" asked of the system the solver is given; static: block dimensions, `RowsOK`, `m0 ≠ 0`,
  `Σ·Pc = 1`).  Positive definiteness of the clusters is not assumed (an accepted cluster suffices).
  Proofs: `Lemmas/Ls/NetFacadeCof.lean` (per solver: `C03_cholesky_cofactors`, `C03_gso*` + `C20_gso_count`,
  `C03_svd_cert*` + `C20_svd_count`, `C03_envsolve_cofactors` + `C03_envelope_qbb_projector`; transport through
  `W`: `CofFacts.whiten`), `Lemmas/Ls/NetFacadeAgree.lean`.

  The statistics vectors `vyrovnani_()` fills from `q_bb` — `sigma_L` (`stdev_obs`), `vahkopr` (`wcoef_res`) — are
  C09's regenerated formulas applied to these `B_ii` (`Props/C09Net.lean`).
-/
import Gama.Lemmas.Ls.NetFacadeCof
import Gama.Lemmas.Ls.NetFacadeCofExample
import Gama.Lemmas.Ls.NetFacadeStdDev
import Gama.Props.C01.NetFacade
namespace Gama.Props.C03
open Gama Gama.Ls Gama.Ls.Net Gama.LS Gama.Ls.AdjM Matrix

set_option linter.unusedSectionVars false

section sqrtFn
variable {K : Type} [Field K] [LinearOrder K] [IsStrictOrderedRing K] [SqrtFn K]
attribute [local instance 2000] scalarOfField

/-- **C03 through `LocalNetwork` + cholesky** (any defect) -/
theorem C03_net_cofactors_cholesky (hsq : IsSqrt (SqrtFn.sq : K → K)) (np : NetProblem K)
    (hdim : (dimsN np).sum = np.m) (hrows : RowsOK (toProblem np)) (hm0 : np.m0 ≠ 0)
    (Pc : Matrix (Fin (toProblem np).m) (Fin (toProblem np).m) K) (hPc : Sigma np * Pc = 1)
    (hchol : ∀ hh, prepare np = .ok hh →
      Chol.UnambiguousF (cholFact (Net.dotProblem np hh)) ∧ Chol.GsSqrtExact (Net.dotProblem np hh) ∧
      ∀ S, Chol.regList np.n (.subset np.minx) = some S → S.Nodup)
    (a : NetAnswer K) (h : netSolve .chol np = .ok a) :
    ∃ (W : Matrix (Fin (toProblem np).m) (Fin (toProblem np).m) K)
      (Q : Matrix (Fin (toProblem np).n) (Fin (toProblem np).n) K)
      (B : Matrix (Fin (toProblem np).m) (Fin (toProblem np).m) K),
      -- W: the whitening of `prepareProjectEquations()` (`C01_net_prepare`); `a.Ad`, `a.bd` the homogenised system
      Wᵀ * W = (np.m0 * np.m0) • Pc ∧ (∀ d, W *ᵥ d = 0 → d = 0) ∧
      toMatrix (toProblem np).m (toProblem np).n a.Ad = W * (toProblem np).A ∧
      toVec (toProblem np).m a.bd = W *ᵥ (toProblem np).b ∧
      -- what `qxx(i,j)`, `qbb(i,j)` return, all index pairs
      (∀ i j : Fin (toProblem np).n, a.qxx (i.val + 1) (j.val + 1) = .ok (Q i j)) ∧
      (∀ i j : Fin (toProblem np).m, a.qbb (i.val + 1) (j.val + 1) = .ok (B i j)) ∧
      -- Q: symmetric PSD reflexive g-inverse of N = AᵀPA of the ORIGINAL system, belonging to S = min_x_
      Qᵀ = Q ∧ (∀ y, 0 ≤ y ⬝ᵥ Q *ᵥ y) ∧
      ((toProblem np).Aᵀ * ((np.m0 * np.m0) • Pc) * (toProblem np).A) * Q
          * ((toProblem np).Aᵀ * ((np.m0 * np.m0) • Pc) * (toProblem np).A)
        = (toProblem np).Aᵀ * ((np.m0 * np.m0) • Pc) * (toProblem np).A ∧
      Q * ((toProblem np).Aᵀ * ((np.m0 * np.m0) • Pc) * (toProblem np).A) * Q = Q ∧
      BelongsTo (toProblem np).A (toProblem np).S Q ∧
      (a.defect = 0 → Q = ((toProblem np).Aᵀ * ((np.m0 * np.m0) • Pc) * (toProblem np).A)⁻¹) ∧
      -- B: the hat matrix of the HOMOGENISED system, a symmetric projector
      B = toMatrix (toProblem np).m (toProblem np).n a.Ad * Q * (toMatrix (toProblem np).m (toProblem np).n a.Ad)ᵀ ∧
      Bᵀ = B ∧ B * B = B ∧ (∀ i, 0 ≤ B i i ∧ B i i ≤ 1) ∧
      ∑ i, (1 - B i i) = ((toProblem np).m : K) - (toProblem np).n + a.defect ∧
      a.defect + (toProblem np).A.rank = (toProblem np).n :=
  (net_cofFacts_chol hsq np hdim hrows _ (weight_of_sigma np hdim hm0 Pc hPc) hchol a h).spell

/-- **C03 through `LocalNetwork` + envelope** (sparse path; `q_bb` is the hat matrix of the SAME homogenised
    system although the envelope solver computes its own) -/
theorem C03_net_cofactors_envelope (hsq : IsSqrt (SqrtFn.sq : K → K)) (np : NetProblem K)
    (hdim : (dimsN np).sum = np.m) (hrows : RowsOK (toProblem np)) (hm0 : np.m0 ≠ 0)
    (Pc : Matrix (Fin (toProblem np).m) (Fin (toProblem np).m) K) (hPc : Sigma np * Pc = 1)
    (hreg : Env.RegListOK (toProblem np)) (hU : Env.SolveUnambiguous (toProblem np))
    (a : NetAnswer K) (h : netSolve .env np = .ok a) :
    ∃ (W : Matrix (Fin (toProblem np).m) (Fin (toProblem np).m) K)
      (Q : Matrix (Fin (toProblem np).n) (Fin (toProblem np).n) K)
      (B : Matrix (Fin (toProblem np).m) (Fin (toProblem np).m) K),
      -- W: the whitening of `prepareProjectEquations()` (`C01_net_prepare`); `a.Ad`, `a.bd` the homogenised system
      Wᵀ * W = (np.m0 * np.m0) • Pc ∧ (∀ d, W *ᵥ d = 0 → d = 0) ∧
      toMatrix (toProblem np).m (toProblem np).n a.Ad = W * (toProblem np).A ∧
      toVec (toProblem np).m a.bd = W *ᵥ (toProblem np).b ∧
      -- what `qxx(i,j)`, `qbb(i,j)` return, all index pairs
      (∀ i j : Fin (toProblem np).n, a.qxx (i.val + 1) (j.val + 1) = .ok (Q i j)) ∧
      (∀ i j : Fin (toProblem np).m, a.qbb (i.val + 1) (j.val + 1) = .ok (B i j)) ∧
      -- Q: symmetric PSD reflexive g-inverse of N = AᵀPA of the ORIGINAL system, belonging to S = min_x_
      Qᵀ = Q ∧ (∀ y, 0 ≤ y ⬝ᵥ Q *ᵥ y) ∧
      ((toProblem np).Aᵀ * ((np.m0 * np.m0) • Pc) * (toProblem np).A) * Q
          * ((toProblem np).Aᵀ * ((np.m0 * np.m0) • Pc) * (toProblem np).A)
        = (toProblem np).Aᵀ * ((np.m0 * np.m0) • Pc) * (toProblem np).A ∧
      Q * ((toProblem np).Aᵀ * ((np.m0 * np.m0) • Pc) * (toProblem np).A) * Q = Q ∧
      BelongsTo (toProblem np).A (toProblem np).S Q ∧
      (a.defect = 0 → Q = ((toProblem np).Aᵀ * ((np.m0 * np.m0) • Pc) * (toProblem np).A)⁻¹) ∧
      -- B: the hat matrix of the HOMOGENISED system, a symmetric projector
      B = toMatrix (toProblem np).m (toProblem np).n a.Ad * Q * (toMatrix (toProblem np).m (toProblem np).n a.Ad)ᵀ ∧
      Bᵀ = B ∧ B * B = B ∧ (∀ i, 0 ≤ B i i ∧ B i i ≤ 1) ∧
      ∑ i, (1 - B i i) = ((toProblem np).m : K) - (toProblem np).n + a.defect ∧
      a.defect + (toProblem np).A.rank = (toProblem np).n :=
  (net_cofFacts_env hsq np hdim hrows _ (weight_of_sigma np hdim hm0 Pc hPc) hreg hU a h).spell

/-- the two homogenisations agree: what `Homogenization::run` computes inside the envelope solver from the
    handed-over system IS the dense `(A, b)` of `prepareProjectEquations()` (uniqueness of the Cholesky factor,
    C10 `sparse_dense_agree`, block by block) -/
theorem C03_net_homogenisations_agree (hsq : IsSqrt (SqrtFn.sq : K → K)) (np : NetProblem K)
    (hdim : (dimsN np).sum = np.m) (hrows : RowsOK (toProblem np)) (hm0 : np.m0 ≠ 0)
    (Pc : Matrix (Fin (toProblem np).m) (Fin (toProblem np).m) K) (hPc : Sigma np * Pc = 1)
    (hh : Hom K) (hp : prepare np = .ok hh) (he : Env.Homog K) (hhe : Env.homogenize (toProblem np) = .ok he) :
    toMatrix (toProblem np).m (toProblem np).n he.At = toMatrix (toProblem np).m (toProblem np).n hh.Ad ∧
    toVec (toProblem np).m he.bt = toVec (toProblem np).m hh.bd :=
  homogenize_eq_prepare hsq np hdim hrows _ (weight_of_sigma np hdim hm0 Pc hPc) hh hp he hhe

/-- **the weights of the statistics**: `revised_obs_[s]->stdDev()` of the s-th ACTIVE observation is `√Σ_ss`
    (`Σ = Sigma np`: the diagonal entry of ITS cluster's covariance matrix at the observation's original position —
    passive observations and all-passive clusters are skipped), hence `weight_obs(s) = m0²/Σ_ss` is the reciprocal of
    the diagonal of the cofactor matrix `C = Σ/m0²` of `C01_net_cofactor` -/
theorem C03_net_weight_obs (hsq : IsSqrt (SqrtFn.sq : K → K)) (np : NetProblem K)
    (hdim : (dimsN np).sum = np.m) (hm0 : np.m0 ≠ 0) (s : Fin (toProblem np).m) (hpos : 0 < Sigma np s s) :
    Dn.vget (obsStdDev np) s.val * Dn.vget (obsStdDev np) s.val = Sigma np s s ∧
    0 < Dn.vget (obsStdDev np) s.val ∧
    Net.weightObs np (s.val + 1) = (np.m0 * np.m0) / Sigma np s s ∧
    Net.weightObs np (s.val + 1) * (toProblem np).C s s = 1 := by
  have hs : s.val < np.m := s.isLt
  have hget : Dn.vget (obsStdDev np) s.val = SqrtFn.sq (Sigma np s s) := obsStdDev_get np hdim s.val hs
  have hsq1 : SqrtFn.sq (Sigma np s s) * SqrtFn.sq (Sigma np s s) = Sigma np s s := hsq.mul_self _ hpos.le
  have hnn : 0 ≤ SqrtFn.sq (Sigma np s s) := hsq.nonneg _ hpos.le
  have hne : SqrtFn.sq (Sigma np s s) ≠ 0 := by
    intro h0; rw [h0, mul_zero] at hsq1; exact absurd hsq1.symm (ne_of_gt hpos)
  have hw : Net.weightObs np (s.val + 1)
      = (np.m0 / SqrtFn.sq (Sigma np s s)) * (np.m0 / SqrtFn.sq (Sigma np s s)) := by
    unfold Net.weightObs StatsGen.weightObs
    simp only [Nat.add_sub_cancel]
    rw [hget]
  have hw' : Net.weightObs np (s.val + 1) = (np.m0 * np.m0) / Sigma np s s := by
    rw [hw, div_mul_div_comm, hsq1]
  refine ⟨by rw [hget]; exact hsq1, by rw [hget]; exact lt_of_le_of_ne hnn (Ne.symm hne), hw', ?_⟩
  rw [hw', C01.C01_net_cofactor np hdim, Matrix.smul_apply, smul_eq_mul]
  field_simp

end sqrtFn

section sqrtField
variable {K : Type} [Field K] [LinearOrder K] [IsStrictOrderedRing K] [Gso.SqrtField K]
attribute [local instance] sqrtFnOfSqrtField
attribute [local instance 2000] scalarOfField

/-- **C03 through `LocalNetwork`, all four algorithms** (`alg` = the `--algorithm` of gama-local) -/
theorem C03_net_cofactors (alg : Alg) (np : NetProblem K)
    (hdim : (dimsN np).sum = np.m) (hrows : RowsOK (toProblem np)) (hm0 : np.m0 ≠ 0)
    (Pc : Matrix (Fin (toProblem np).m) (Fin (toProblem np).m) K) (hPc : Sigma np * Pc = 1)
    (hyp : Net.SolverHyp alg np) (a : NetAnswer K) (h : netSolve alg np = .ok a) :
    ∃ (W : Matrix (Fin (toProblem np).m) (Fin (toProblem np).m) K)
      (Q : Matrix (Fin (toProblem np).n) (Fin (toProblem np).n) K)
      (B : Matrix (Fin (toProblem np).m) (Fin (toProblem np).m) K),
      -- W: the whitening of `prepareProjectEquations()` (`C01_net_prepare`); `a.Ad`, `a.bd` the homogenised system
      Wᵀ * W = (np.m0 * np.m0) • Pc ∧ (∀ d, W *ᵥ d = 0 → d = 0) ∧
      toMatrix (toProblem np).m (toProblem np).n a.Ad = W * (toProblem np).A ∧
      toVec (toProblem np).m a.bd = W *ᵥ (toProblem np).b ∧
      -- what `qxx(i,j)`, `qbb(i,j)` return, all index pairs
      (∀ i j : Fin (toProblem np).n, a.qxx (i.val + 1) (j.val + 1) = .ok (Q i j)) ∧
      (∀ i j : Fin (toProblem np).m, a.qbb (i.val + 1) (j.val + 1) = .ok (B i j)) ∧
      -- Q: symmetric PSD reflexive g-inverse of N = AᵀPA of the ORIGINAL system, belonging to S = min_x_
      Qᵀ = Q ∧ (∀ y, 0 ≤ y ⬝ᵥ Q *ᵥ y) ∧
      ((toProblem np).Aᵀ * ((np.m0 * np.m0) • Pc) * (toProblem np).A) * Q
          * ((toProblem np).Aᵀ * ((np.m0 * np.m0) • Pc) * (toProblem np).A)
        = (toProblem np).Aᵀ * ((np.m0 * np.m0) • Pc) * (toProblem np).A ∧
      Q * ((toProblem np).Aᵀ * ((np.m0 * np.m0) • Pc) * (toProblem np).A) * Q = Q ∧
      BelongsTo (toProblem np).A (toProblem np).S Q ∧
      (a.defect = 0 → Q = ((toProblem np).Aᵀ * ((np.m0 * np.m0) • Pc) * (toProblem np).A)⁻¹) ∧
      -- B: the hat matrix of the HOMOGENISED system, a symmetric projector
      B = toMatrix (toProblem np).m (toProblem np).n a.Ad * Q * (toMatrix (toProblem np).m (toProblem np).n a.Ad)ᵀ ∧
      Bᵀ = B ∧ B * B = B ∧ (∀ i, 0 ≤ B i i ∧ B i i ≤ 1) ∧
      ∑ i, (1 - B i i) = ((toProblem np).m : K) - (toProblem np).n + a.defect ∧
      a.defect + (toProblem np).A.rank = (toProblem np).n :=
  (net_cofFacts alg np hdim hrows _ (weight_of_sigma np hdim hm0 Pc hPc) hyp a h).spell

end sqrtField

/-! ### non-vacuity -/

section examples
open Gama.Ls.Ex
attribute [local instance 2000] scalarOfField

/-- `Ex.npQ` (correlated cluster with an EXCLUDED observation, an all-passive cluster, a single observation,
    `m0 = 2`, `A = [[4,4],[5,5],[4,4]]`: defect 1, `min_x_ = [1]`) meets every hypothesis of
    `C03_net_cofactors_cholesky` except the global square-root law (ℚ has none; `Ex.sqQ` exact on the roots
    taken), and the model reports (kernel evaluation) `Q = [[0,0],[0,1/9]]` — unknown 1 carries the
    regularisation, `1/9 = 1/(2²+1²+2²)` for the homogenised column `(2,1,2)` — and
    `q_bb = (1/9)·(2,1,2)ᵀ(2,1,2)`: symmetric, idempotent, diagonal in `[0,1]`, trace `1 = n − defect` -/
example : (dimsN npQ).sum = npQ.m ∧ RowsOK (toProblem npQ) ∧ npQ.m0 ≠ 0 ∧ Sigma npQ * PcQ = 1
    ∧ (∀ hh, prepare npQ = .ok hh →
        Chol.UnambiguousF (cholFact (Net.dotProblem npQ hh)) ∧ Chol.GsSqrtExact (Net.dotProblem npQ hh) ∧
        ∀ S, Chol.regList npQ.n (.subset npQ.minx) = some S → S.Nodup)
    ∧ ∃ a, netSolve .chol npQ = .ok a ∧ a.defect = 1 ∧ cofTable a = cofTableQ :=
  ⟨npQ_dims, npQ_rows, npQ_m0, npQ_sigma, npQ_hchol, npQ_chol_cof⟩

/-- the same network through the sparse path: hypotheses of `C03_net_cofactors_envelope` and the SAME
    cofactors for all index pairs -/
example : Env.RegListOK (toProblem npQ) ∧ Env.SolveUnambiguous (toProblem npQ)
    ∧ ∃ a, netSolve .env npQ = .ok a ∧ a.defect = 1 ∧ cofTable a = cofTableQ :=
  ⟨npQ_reg, npQ_unamb.1, npQ_env_cof⟩

/-- the reported numbers satisfy the clauses directly (no theorem involved): with `Ex.NQ = AᵀPA`, `P = m0²·Σ⁻¹`,
    `Ex.QQ = [[0,0],[0,1/9]]`, `Ex.BQ = (1/9)(2,1,2)ᵀ(2,1,2)`: `N Q N = N`, `Q N Q = Q`, `B·B = B`, `Bᵀ = B`,
    `Σ(1 − B_ii) = 3 − 2 + 1` -/
example : NQ * QQ * NQ = NQ ∧ QQ * NQ * QQ = QQ ∧ BQ * BQ = BQ ∧ BQᵀ = BQ ∧ ∑ i, (1 - BQ i i) = (3 : ℚ) - 2 + 1 :=
  npQ_clauses

/-- `C03_net_weight_obs`: the diagonal of `Σ` is positive on `Ex.npQ` — `16, 40, 16` (the variances of the two active
    observations of the correlated cluster, the excluded one skipped, and of the single observation) -/
example : Sigma npQ (0 : Fin 3) (0 : Fin 3) = 16 ∧ Sigma npQ (1 : Fin 3) (1 : Fin 3) = 40
    ∧ Sigma npQ (2 : Fin 3) (2 : Fin 3) = 16 := by
  refine ⟨?_, ?_, ?_⟩ <;> decide +kernel

/-- the square-root law is satisfiable, and ℝ is a `SqrtField` (the setting of `C03_net_cofactors`) -/
example : IsSqrt Real.sqrt := ⟨fun _ h => Real.mul_self_sqrt h, fun x _ => Real.sqrt_nonneg x⟩

end examples

end Gama.Props.C03
