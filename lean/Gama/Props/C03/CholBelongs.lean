/-
  C03 — Cholesky solver (`AdjCholDec`, model `Gama/Model/Ls/Chol.lean`), the clauses that
  `Props/C03/Chol.lean` does not state (audit `notes/CLAUSES.md`, C03 clauses 2, 6, 8, 9):

    * clause 2  `Q` (the matrix of the reported `q_xx`) is positive semi-definite      `C03_chol_psd`
    * clause 6  `Q` belongs to the chosen regularisation: `Q y ⟂_S ker A` for all `y`  `C03_chol_belongs`
    * clause 8  `q_bb = A Q Aᵀ` is a symmetric projector with diagonal in `[0,1]`, tied to the
                model in one statement                                                 `C03_cholesky_cofactors`
    * clause 9  `Σ_i (1 − q_bb(i,i)) = m − n + defect`                                  `C03_chol_redundancy`
    * and `defect + rank A = n` (C02 clause 1)                                         `C03_chol_defect_rank`

  `C03_cholesky_cofactors` states everything about the SAME matrix `Q`; `C03_chol_unique` says that
  these facts determine `Q` when `S` resolves the defect (so any other algorithm that reports a
  symmetric reflexive g-inverse belonging to `S` reports the same cofactors: `Props/C02CofactorsChol.lean`).

  `N = AᵀA` (unit weights, the solver is handed the homogenised system).  Hypotheses as in
  `C03_cholesky` / `C01_cholesky_singular`: the rejected pivot is exactly 0 (`UnambiguousF`), `sqrt`
  is exact on the Gram–Schmidt pivots (`GsSqrtExact`), and — for "belongs" only — the regularisation
  list has no duplicate index (`dot` runs over the LIST, `T` tests membership).
  Proofs: `Gama/Lemmas/Ls/ComposeCholBelongs.lean` (`T = 1 − G G_Sᵀ` is the `S`-projector of LS8,
  `G_SᵀG = 1` from the Gram–Schmidt invariant), `Gama/Lemmas/Ls/ComposeGinvUnique.lean`.
-/
import Gama.Lemmas.Ls.ComposeCholBelongs
import Gama.Lemmas.Ls.CholExample
namespace Gama.Props.C03
open Gama Gama.Ls Gama.LS Gama.Ls.Chol Matrix

set_option linter.unusedSectionVars false

variable {K : Type} [Field K] [LinearOrder K] [IsStrictOrderedRing K] [SqrtFn K]
attribute [local instance 2000] scalarOfField

/-- **C03 clause 2 (cholesky)**: the matrix of the reported `q_xx` is positive semi-definite -/
theorem C03_chol_psd (p : Problem K) (hU : UnambiguousF (cholFact p)) (hsq : GsSqrtExact p)
    (a : Answer K) (h : cholSolve p = .ok a) (Q : Matrix (Fin p.n) (Fin p.n) K)
    (hQ : ∀ i j : Fin p.n, a.qxx (i + 1) (j + 1) = .ok (Q i j)) :
    ∀ y, 0 ≤ y ⬝ᵥ Q *ᵥ y := by
  obtain ⟨s, hs, rfl⟩ := cholSolve_ok h
  have : Q = s.Qm p.n := by
    ext i j; exact Except.ok.inj ((hQ i j).symm.trans (chol_answer_qxx p s hs i j).1)
  rw [this]; exact chol_Q_psd p hU hsq s hs

/-- **C03 clause 6 (cholesky)**: the matrix of the reported `q_xx` belongs to the chosen
    regularisation — `Q y` is `S`-orthogonal to the kernel of `A` for every `y` (so the cofactors
    describe the `S`-minimal solution, not another g-inverse) -/
theorem C03_chol_belongs (p : Problem K) (hU : UnambiguousF (cholFact p)) (hsq : GsSqrtExact p)
    (hnd : ∀ S, regList p.n p.reg = some S → S.Nodup)
    (a : Answer K) (h : cholSolve p = .ok a) (Q : Matrix (Fin p.n) (Fin p.n) K)
    (hQ : ∀ i j : Fin p.n, a.qxx (i + 1) (j + 1) = .ok (Q i j)) :
    ∀ y g, p.A *ᵥ g = 0 → ∑ i ∈ p.S, (Q *ᵥ y) i * g i = 0 := by
  obtain ⟨s, hs, rfl⟩ := cholSolve_ok h
  have : Q = s.Qm p.n := by
    ext i j; exact Except.ok.inj ((hQ i j).symm.trans (chol_answer_qxx p s hs i j).1)
  rw [this]; exact chol_Q_belongs p hU hsq hnd s hs

/-- **C02 clause 1 / C20 (cholesky)**: the reported defect is `n − rank A` -/
theorem C03_chol_defect_rank (p : Problem K) (hU : UnambiguousF (cholFact p)) (a : Answer K)
    (h : cholSolve p = .ok a) : a.defect + p.A.rank = p.n := by
  obtain ⟨s, hs, rfl⟩ := cholSolve_ok h
  exact chol_defect_rank p hU s hs

/-- **C03 clause 9 (cholesky)**: for EVERY generalised inverse `Q` of `N` (in particular the reported
    one) the redundancy numbers `1 − (A Q Aᵀ)_ii` sum to the degrees of freedom `m − n + defect` -/
theorem C03_chol_redundancy (p : Problem K) (hU : UnambiguousF (cholFact p)) (a : Answer K)
    (h : cholSolve p = .ok a) (Q : Matrix (Fin p.n) (Fin p.n) K)
    (hQ : (p.Aᵀ * p.A) * Q * (p.Aᵀ * p.A) = p.Aᵀ * p.A) :
    ∑ i, (1 - (p.A * Q * p.Aᵀ) i i) = (p.m : K) - (p.n : K) + (a.defect : K) := by
  obtain ⟨s, hs, rfl⟩ := cholSolve_ok h
  exact chol_redundancy p hU s hs Q hQ

/-- **C03 (cholesky, any defect), all clauses about ONE matrix `Q`**: what `q_xx` (= `q0_xx`)
    reports for every index pair is symmetric, a reflexive generalised inverse of `N = AᵀA`,
    positive semi-definite and belongs to the regularisation `S`; `q_bb` reports `A Q Aᵀ`, a
    symmetric projector with diagonal in `[0,1]` whose redundancy numbers sum to `m − n + defect`;
    and `defect + rank A = n`. -/
theorem C03_cholesky_cofactors (p : Problem K) (hU : UnambiguousF (cholFact p)) (hsq : GsSqrtExact p)
    (hnd : ∀ S, regList p.n p.reg = some S → S.Nodup) (a : Answer K) (h : cholSolve p = .ok a) :
    ∃ Q : Matrix (Fin p.n) (Fin p.n) K,
      Qᵀ = Q ∧ (p.Aᵀ * p.A) * Q * (p.Aᵀ * p.A) = p.Aᵀ * p.A ∧ Q * (p.Aᵀ * p.A) * Q = Q
      ∧ (∀ y, 0 ≤ y ⬝ᵥ Q *ᵥ y)
      ∧ BelongsTo p.A p.S Q
      ∧ (∀ i j : Fin p.n, a.qxx (i + 1) (j + 1) = .ok (Q i j) ∧ a.q0xx (i + 1) (j + 1) = .ok (Q i j))
      ∧ (∀ i j : Fin p.m, a.qbb (i + 1) (j + 1) = .ok ((p.A * Q * p.Aᵀ) i j))
      ∧ (p.A * Q * p.Aᵀ)ᵀ = p.A * Q * p.Aᵀ
      ∧ (p.A * Q * p.Aᵀ) * (p.A * Q * p.Aᵀ) = p.A * Q * p.Aᵀ
      ∧ (∀ i, 0 ≤ (p.A * Q * p.Aᵀ) i i ∧ (p.A * Q * p.Aᵀ) i i ≤ 1)
      ∧ ∑ i, (1 - (p.A * Q * p.Aᵀ) i i) = (p.m : K) - (p.n : K) + (a.defect : K)
      ∧ a.defect + p.A.rank = p.n := by
  obtain ⟨s, hs, rfl⟩ := cholSolve_ok h
  obtain ⟨q1, q2, q3, _⟩ := chol_Q_spec p hU hsq s hs
  exact ⟨s.Qm p.n, q1, q2, q3, chol_Q_psd p hU hsq s hs, chol_Q_belongs p hU hsq hnd s hs,
    chol_answer_qxx p s hs, chol_answer_qbb p hU hsq s hs, hat_symm q1, hat_idempotent q3,
    fun i => ⟨hat_diag_nonneg q1 q3 i, hat_diag_le_one q1 q3 i⟩, chol_redundancy p hU s hs _ q2,
    chol_defect_rank p hU s hs⟩

/-- **uniqueness**: when `S` resolves the defect, the facts of `C03_cholesky_cofactors` single out the
    reported matrix — every symmetric reflexive g-inverse of `N` that belongs to `S` is reported
    entry by entry by `q_xx` -/
theorem C03_chol_unique (p : Problem K) (hU : UnambiguousF (cholFact p)) (hsq : GsSqrtExact p)
    (hnd : ∀ S, regList p.n p.reg = some S → S.Nodup) (hS : Resolves p.A p.S)
    (a : Answer K) (h : cholSolve p = .ok a) (Q' : Matrix (Fin p.n) (Fin p.n) K)
    (s' : Q'ᵀ = Q') (h1 : (p.Aᵀ * p.A) * Q' * (p.Aᵀ * p.A) = p.Aᵀ * p.A) (h2 : Q' * (p.Aᵀ * p.A) * Q' = Q')
    (b' : BelongsTo p.A p.S Q') :
    ∀ i j : Fin p.n, a.qxx (i + 1) (j + 1) = .ok (Q' i j) := by
  obtain ⟨Q, q1, q2, q3, _, q5, q6, _⟩ := C03_cholesky_cofactors p hU hsq hnd a h
  have e : Q = Q' := by
    refine ginv_belongs_unique (P := (1 : Matrix (Fin p.m) (Fin p.m) K)) one_symm one_pd hS ?_ ?_ q1 q5 ?_ ?_ s' b'
    all_goals simp only [Matrix.mul_one]
    exacts [q2, q3, h1, h2]
  intro i j
  rw [← e]; exact (q6 i j).1

/-- non-vacuity with a PROPER regularisation subset: the 4-point levelling loop (defect 1, kernel
    `(1,1,1,1)`) with `min_x = {3}` (point 3 alone carries the datum).  The rejected pivot is exactly
    0; the Gram–Schmidt pivot is `Σ_{i∈S} g_i² = 1`, `sqrt 1 = 1` exact; the list `[3]` has no
    duplicate; `S = {3}` (0-based `{2}`) resolves the defect (by `chol_refusal`: the unambiguous
    model answers only then).  The model reports defect 1 and
    `Q = [[1,1/2,0,1/2],[1/2,3/4,0,1/4],[0,0,0,0],[1/2,1/4,0,3/4]]` — row and column 3 vanish, as
    "belongs to S" (with `g = (1,1,1,1)`: `(Q y)_3 = 0`) demands (kernel evaluation) -/
example : UnambiguousF (cholFact (Ex.pSing4 (.subset [3]))) ∧ GsSqrtExact (Ex.pSing4 (.subset [3]))
    ∧ (∀ S, regList (Ex.pSing4 (.subset [3])).n (Ex.pSing4 (.subset [3])).reg = some S → S.Nodup)
    ∧ (∀ i, i ∈ (Ex.pSing4 (.subset [3])).S ↔ i.val = 2)
    ∧ Resolves (Ex.pSing4 (.subset [3])).A (Ex.pSing4 (.subset [3])).S
    ∧ ∃ a, cholSolve (Ex.pSing4 (.subset [3])) = .ok a ∧ a.defect = 1
        ∧ a.qxx 1 1 = .ok 1 ∧ a.qxx 1 2 = .ok (1/2) ∧ a.qxx 2 4 = .ok (1/4) ∧ a.qxx 4 4 = .ok (3/4)
        ∧ a.qxx 3 1 = .ok 0 ∧ a.qxx 3 2 = .ok 0 ∧ a.qxx 3 3 = .ok 0 ∧ a.qxx 3 4 = .ok 0 := by
  have hr : (cholFact (Ex.pSing4 (.subset [3]))).rej = some 0 := by decide +kernel
  have hS : ∀ S, regList (Ex.pSing4 (.subset [3])).n (Ex.pSing4 (.subset [3])).reg = some S → S = [2] := by
    intro S h
    have : regList (Ex.pSing4 (.subset [3])).n (Ex.pSing4 (.subset [3])).reg = some [2] := by decide
    rw [this] at h
    exact (Option.some.inj h).symm
  have hb := gsOKb_spec (K := ℚ) (Ex.pSing4 (.subset [3])).n (cholFact (Ex.pSing4 (.subset [3]))).nullity [2]
    (cholFact (Ex.pSing4 (.subset [3]))).nullity 0 _ _ (by decide +kernel :
      gsOKb (Ex.pSing4 (.subset [3])).n (cholFact (Ex.pSing4 (.subset [3]))).nullity [2]
        (cholFact (Ex.pSing4 (.subset [3]))).nullity 0 (Dn.pmk ((cholFact (Ex.pSing4 (.subset [3]))).nullity + 1) id)
        (gInit (Ex.pSing4 (.subset [3])).n ((Ex.pSing4 (.subset [3])).n - (cholFact (Ex.pSing4 (.subset [3]))).nullity)
          (cholFact (Ex.pSing4 (.subset [3]))).nullity (cholFact (Ex.pSing4 (.subset [3]))).perm
          (cholFact (Ex.pSing4 (.subset [3]))).mat
          (solveX0 (Ex.pSing4 (.subset [3])).n ((Ex.pSing4 (.subset [3])).n - (cholFact (Ex.pSing4 (.subset [3]))).nullity)
            (cholFact (Ex.pSing4 (.subset [3]))).perm (cholFact (Ex.pSing4 (.subset [3]))).mat
            (normalRhs (Ex.pSing4 (.subset [3])).m (Ex.pSing4 (.subset [3])).n (Ex.pSing4 (.subset [3])).dense
              (Ex.pSing4 (.subset [3])).rhs))) = true)
  have hU : UnambiguousF (cholFact (Ex.pSing4 (.subset [3]))) := by
    intro t ht; rw [hr] at ht; left; exact (Option.some.inj ht).symm
  have hsq : GsSqrtExact (Ex.pSing4 (.subset [3])) := by
    intro S h; rw [hS S h]; exact hb.1
  have hun : GsUnamb (Ex.pSing4 (.subset [3])) := by
    intro S h; rw [hS S h]; exact hb.2
  have h : (cholSolve (Ex.pSing4 (.subset [3]))).toOption.map (fun a =>
      (a.defect, [a.qxx 1 1, a.qxx 1 2, a.qxx 2 4, a.qxx 4 4, a.qxx 3 1, a.qxx 3 2, a.qxx 3 3, a.qxx 3 4].map
        Except.toOption))
      = some (1, [some 1, some (1/2), some (1/4), some (3/4), some 0, some 0, some 0, some 0]) := by
    decide +kernel
  obtain ⟨a, h1, h2⟩ := Ex.ok_of_toOption h
  simp only [Prod.mk.injEq, List.map_cons, List.map_nil, List.cons.injEq, and_true] at h2
  have conv : ∀ (e : Except ErrKind ℚ) (v : ℚ), e.toOption = some v → e = .ok v := by
    intro e v he
    cases e with
    | error _ => simp [Except.toOption] at he
    | ok x => simp [Except.toOption] at he; rw [he]
  refine ⟨hU, hsq, ?_, ?_, (chol_refusal _ hU hsq hun).1 a h1, a, h1, h2.1, conv _ _ h2.2.1, conv _ _ h2.2.2.1,
    conv _ _ h2.2.2.2.1, conv _ _ h2.2.2.2.2.1, conv _ _ h2.2.2.2.2.2.1, conv _ _ h2.2.2.2.2.2.2.1,
    conv _ _ h2.2.2.2.2.2.2.2.1, conv _ _ h2.2.2.2.2.2.2.2.2⟩
  · intro S h; rw [hS S h]; exact List.nodup_singleton _
  · intro i
    show i ∈ Reg.toFinset _ (.subset [3]) ↔ _
    rw [Reg.mem_toFinset_subset]
    simp

end Gama.Props.C03
