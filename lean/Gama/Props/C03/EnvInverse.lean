/-
  C03 clause 10 — envelope solver: the sparse inverse inside the envelope equals the full inverse.

  `AdjEnvelope::q0_xx(i,j)` answers from two different computations: for a cell inside the
  envelope profile it reads `*q0.element(i,j)`, filled once by `Envelope::inverse` (the
  Takahashi-style recurrence `Z = D⁻¹L⁻¹ + (I − Lᵀ)Z`, columns from the last to the first, a
  zero pivot gives a zero column; model `Env.zEntry`); for a cell outside it solves
  `L D Lᵀ x = e_max` (`lowerSolve`, `diagonalSolve` with `x/0 ↦ 0`, `upperSolve`) and returns
  `x(min)` (model `Env.q0`).  The theorems say that the two computations return the same
  number for every index pair, every size, every factor the solver can build, regular or
  singular — so every property proved about `q0` (`Props/C03/Env.lean`) holds for the numbers
  read inside the envelope as well.  Model at `fieldScalar sq` over an ordered field.
-/
import Gama.Lemmas.Ls.EnvZEntry
import Gama.Lemmas.Ls.EnvExamples
namespace Gama.Props.C03
open Gama Gama.Ls Gama.Ls.Env

set_option linter.unusedSectionVars false
variable {K : Type} [Field K] [LinearOrder K] [IsStrictOrderedRing K] (sq : K → K)

/-- **C03 clause 10, all sizes**: for ANY factor `rows` (no shape condition) of any size `n` in
    which a zero pivot `D k = 0` has a zero column of `L` below it, the cell `(i,j)` that
    `Envelope::inverse` stores (`Z(step,step) = 1/d − Σ_{k>step} L(k,step) Z(step,k)`,
    `Z(i,step) = − Σ_{k>i} L(k,i) Z(k,step)`, whole column `0` when `d == 0`) equals the
    component `min i j` of `Envelope::solve(e_{max i j})` that `AdjEnvelope::q0_xx` computes
    outside the envelope: both are `(L⁻ᵀ D⁺ L⁻¹)(i,j)`.
    The hypothesis is necessary (first `example` below). -/
theorem C03_env_sparse_inverse_eq_full (rows : Array (Row K)) (n : ℕ)
    (hz : ∀ k < n, @Dget K (fieldScalar sq) rows k = 0 →
      ∀ i, k < i → i < n → @Lget K (fieldScalar sq) rows i k = 0)
    (i j : ℕ) (hi : i < n) (hj : j < n) :
    @zEntry K (fieldScalar sq) rows n i j = @q0 K (fieldScalar sq) rows n i j :=
  zEntry_eq_q0 sq rows n hz i j hi hj

/-- the factor `Envelope::cholDec` builds from any matrix `N` with any tolerance has zero columns
    below its zero pivots (`diagonalSolve` : `if (*d) rhs /= d else rhs = 0`), so the equality
    holds for it unconditionally -/
theorem C03_env_sparse_inverse_eq_full_ldl (N : ℕ → ℕ → K) (tol : K) (n : ℕ) (i j : ℕ) (hi : i < n) (hj : j < n) :
    @zEntry K (fieldScalar sq) (@ldl K (fieldScalar sq) N tol n) n i j
      = @q0 K (fieldScalar sq) (@ldl K (fieldScalar sq) N tol n) n i j :=
  zEntry_eq_q0_ldl sq n N tol i j hi hj

/-- **C03 clause 10 for the solver's own factor** (`AdjEnvelope::solve_x0` : normal matrix of
    the permuted homogenised system, `cholDec(tol)`): inside-envelope value = outside-envelope
    value for every pair of (new-numbering) indices, any defect, no assumption on the
    tolerance (not even `FactUnambiguous`) -/
theorem C03_env_sparse_inverse_eq_full_solver (tol : K) (m n : ℕ) (At : DMat K) (bt : Array K) (o : EnvOrd)
    (i j : ℕ) (hi : i < n) (hj : j < n) :
    @zEntry K (fieldScalar sq) (@factor K (fieldScalar sq) tol m n At bt o).rows n i j
      = @q0 K (fieldScalar sq) (@factor K (fieldScalar sq) tol m n At bt o).rows n i j :=
  zEntry_eq_q0_factor sq n tol m At bt o i j hi hj

/-- the "zero column below a zero pivot" hypothesis of `C03_env_sparse_inverse_eq_full` cannot be
    dropped: `D = (0, 1)`, `L₁₀ = 1` gives `Z(0,0) = 0` (zero column on the zero pivot) but
    `(L⁻ᵀD⁺L⁻¹)(0,0) = 1`.  (No factor built by `cholDec` has this shape.) -/
example :
    @zEntry ℚ (fieldScalar id) #[⟨#[], 0, true⟩, ⟨#[1], 1, false⟩] 2 0 0 = 0
    ∧ @q0 ℚ (fieldScalar id) #[⟨#[], 0, true⟩, ⟨#[1], 1, false⟩] 2 0 0 = 1 := by
  decide +kernel

/-! ### non-vacuity -/

/-- `C03_env_sparse_inverse_eq_full` : a hand-written singular factor of size 5 (pivots 1 and 3
    are zero with zero columns below them, the other columns of `L` are not zero) meets the
    hypothesis; both sides are `57/14` at `(0,0)` … -/
example :
    (∀ k < 5, @Dget ℚ (fieldScalar id)
        #[⟨#[], 2, false⟩, ⟨#[3], 0, true⟩, ⟨#[5, 0], 7, false⟩, ⟨#[1, 0, 2], 0, true⟩, ⟨#[1, 0, 2, 0], 3, false⟩] k = 0 →
      ∀ i, k < i → i < 5 → @Lget ℚ (fieldScalar id)
        #[⟨#[], 2, false⟩, ⟨#[3], 0, true⟩, ⟨#[5, 0], 7, false⟩, ⟨#[1, 0, 2], 0, true⟩, ⟨#[1, 0, 2, 0], 3, false⟩] i k = 0)
    ∧ @Dget ℚ (fieldScalar id)
        #[⟨#[], 2, false⟩, ⟨#[3], 0, true⟩, ⟨#[5, 0], 7, false⟩, ⟨#[1, 0, 2], 0, true⟩, ⟨#[1, 0, 2, 0], 3, false⟩] 1 = 0
    ∧ @q0 ℚ (fieldScalar id)
        #[⟨#[], 2, false⟩, ⟨#[3], 0, true⟩, ⟨#[5, 0], 7, false⟩, ⟨#[1, 0, 2], 0, true⟩, ⟨#[1, 0, 2, 0], 3, false⟩] 5 0 2 ≠ 0 := by
  refine ⟨fun k hk h0 i hki hi => ?_, by decide +kernel, by decide +kernel⟩
  have h : ∀ k < 5, ∀ i < 5, @Dget ℚ (fieldScalar id)
        #[⟨#[], 2, false⟩, ⟨#[3], 0, true⟩, ⟨#[5, 0], 7, false⟩, ⟨#[1, 0, 2], 0, true⟩, ⟨#[1, 0, 2, 0], 3, false⟩] k = 0 →
      k < i → @Lget ℚ (fieldScalar id)
        #[⟨#[], 2, false⟩, ⟨#[3], 0, true⟩, ⟨#[5, 0], 7, false⟩, ⟨#[1, 0, 2], 0, true⟩, ⟨#[1, 0, 2, 0], 3, false⟩] i k = 0 := by
    decide +kernel
  exact h k hk i hi h0 hki

/-- … and so does the factor of the singular 2 × 4 witness (defect 2, the ordering the code
    computes), which is also the instance of `C03_env_sparse_inverse_eq_full_solver` and (with
    `N` its normal matrix) of `C03_env_sparse_inverse_eq_full_ldl` : two zero pivots, and the
    common value of the two computations is `1` on a regular and `0` on a dependent position -/
example :
    (∀ k < 4, @Dget ℚ (fieldScalar id) (@factor ℚ (fieldScalar id) (1/2) 2 4 Ex.wA Ex.wb Ex.wo).rows k = 0 →
      ∀ i, k < i → i < 4 → @Lget ℚ (fieldScalar id) (@factor ℚ (fieldScalar id) (1/2) 2 4 Ex.wA Ex.wb Ex.wo).rows i k = 0)
    ∧ @defectOf ℚ (@factor ℚ (fieldScalar id) (1/2) 2 4 Ex.wA Ex.wb Ex.wo).rows = 2
    ∧ (∃ k < 4, @Dget ℚ (fieldScalar id) (@factor ℚ (fieldScalar id) (1/2) 2 4 Ex.wA Ex.wb Ex.wo).rows k = 0)
    ∧ @zEntry ℚ (fieldScalar id) (@factor ℚ (fieldScalar id) (1/2) 2 4 Ex.wA Ex.wb Ex.wo).rows 4 0 0 = 1
    ∧ @zEntry ℚ (fieldScalar id) (@factor ℚ (fieldScalar id) (1/2) 2 4 Ex.wA Ex.wb Ex.wo).rows 4 1 1 = 0 := by
  refine ⟨fun k hk h0 i hki hi => ?_, by decide +kernel, by decide +kernel, by decide +kernel, by decide +kernel⟩
  have h : ∀ k < 4, ∀ i < 4,
      @Dget ℚ (fieldScalar id) (@factor ℚ (fieldScalar id) (1/2) 2 4 Ex.wA Ex.wb Ex.wo).rows k = 0 →
      k < i → @Lget ℚ (fieldScalar id) (@factor ℚ (fieldScalar id) (1/2) 2 4 Ex.wA Ex.wb Ex.wo).rows i k = 0 := by
    decide +kernel
  exact h k hk i hi h0 hki

/-- a singular instance of `C03_env_sparse_inverse_eq_full_solver` with coupling (4 observations,
    5 unknowns: a levelling line `x1 − x2`, `x2 − x3` without datum, and a regular pair): the
    third pivot is zero in the middle of the factor (defect 1), the values inside the envelope
    are not diagonal -/
example :
    @defectOf ℚ (@factor ℚ (fieldScalar id) (1/2) 4 5
        #[#[1, -1, 0, 0, 0], #[0, 1, -1, 0, 0], #[0, 0, 0, 1, -1], #[0, 0, 0, 1, 2]] #[1, 2, 3, 4] (idOrd 5)).rows = 1
    ∧ @Dget ℚ (fieldScalar id) (@factor ℚ (fieldScalar id) (1/2) 4 5
        #[#[1, -1, 0, 0, 0], #[0, 1, -1, 0, 0], #[0, 0, 0, 1, -1], #[0, 0, 0, 1, 2]] #[1, 2, 3, 4] (idOrd 5)).rows 2 = 0
    ∧ @zEntry ℚ (fieldScalar id) (@factor ℚ (fieldScalar id) (1/2) 4 5
        #[#[1, -1, 0, 0, 0], #[0, 1, -1, 0, 0], #[0, 0, 0, 1, -1], #[0, 0, 0, 1, 2]] #[1, 2, 3, 4] (idOrd 5)).rows 5 0 1 = 1
    ∧ @q0 ℚ (fieldScalar id) (@factor ℚ (fieldScalar id) (1/2) 4 5
        #[#[1, -1, 0, 0, 0], #[0, 1, -1, 0, 0], #[0, 0, 0, 1, -1], #[0, 0, 0, 1, 2]] #[1, 2, 3, 4] (idOrd 5)).rows 5 3 4 = -1/9 := by
  refine ⟨by decide +kernel, by decide +kernel, by decide +kernel, by decide +kernel⟩

end Gama.Props.C03
