/-
  C03 for class `Adj` (model `Gama/Model/Ls/Adj.lean`): `q_xx` is delegated to the solver;
  `Adj::q_bb(i,j) = Σ_{jn} a_j,jn (Σ_{in} a_i,in · q0_xx(in,jn))` over the ORIGINAL sparse rows
  is `(A Q Aᵀ)(i,j)` for the matrix `Q` the solver's `q0_xx` reports — the cofactors of the
  adjusted observations of the ORIGINAL (not homogenised) system.
  Proofs: `Gama/Lemmas/Ls/AdjCofactor.lean`.
-/
import Gama.Lemmas.Ls.AdjCofactor
import Gama.Lemmas.Ls.AdjFacade
import Gama.Lemmas.Ls.AdjExample
namespace Gama.Props.C03
open Gama Gama.Ls Gama.LS Gama.Ls.AdjM Matrix

set_option linter.unusedSectionVars false

variable {K : Type} [Field K] [LinearOrder K] [IsStrictOrderedRing K] [SqrtFn K]
attribute [local instance 2000] scalarOfField

/-- the façade formula, for any `q0_xx` -/
theorem C03_adj_qbb_formula (p : Problem K) (hrows : RowsOK p) (q0 : Nat → Nat → Except ErrKind K)
    (Q : Matrix (Fin p.n) (Fin p.n) K) (hq : ∀ i j : Fin p.n, q0 (i.val + 1) (j.val + 1) = .ok (Q i j))
    (i j : Fin p.m) : AdjM.qbb p q0 (i.val + 1) (j.val + 1) = .ok ((p.A * Q * p.Aᵀ) i j) :=
  adj_qbb_spec p hrows q0 Q hq i j

/-- `Adj` with a full solver: `q_xx` is the solver's, `q_bb = A Q Aᵀ` with the ORIGINAL `A` and the
    solver's `Q` (the cofactor matrix of the homogenised problem, i.e. of `N = AᵀPA`) -/
theorem C03_adj_qbb (alg : Alg) (halg : alg ≠ .env) (p : Problem K) (hrows : RowsOK p)
    (a : Answer K) (h : adjSolve alg p = .ok a) :
    ∃ Ad bd s, homogenise p = .ok (Ad, bd) ∧ solverOf alg (dotProblem p Ad bd (regOf p.reg)) = .ok s ∧
      a.qxx = s.qxx ∧
      ∀ Q : Matrix (Fin p.n) (Fin p.n) K, (∀ i j : Fin p.n, s.q0xx (i.val + 1) (j.val + 1) = .ok (Q i j)) →
        ∀ i j : Fin p.m, a.qbb (i.val + 1) (j.val + 1) = .ok ((p.A * Q * p.Aᵀ) i j) := by
  have h' : adjFull alg p = .ok a := by
    cases alg with
    | env => exact absurd rfl halg
    | chol => exact h
    | gso => exact h
    | svd => exact h
  obtain ⟨Ad, bd, s, h1, h2, _, _, _, _, h7, h8⟩ := adjFull_shape alg p a h'
  refine ⟨Ad, bd, s, h1, h2, h7, ?_⟩
  intro Q hq i j
  rw [h8]
  exact adj_qbb_spec p hrows s.q0xx Q hq i j

/-- non-vacuity: `Adj` + cholesky on the correlated 3×2 example; `Q = (AᵀPA)⁻¹ = [[580,-2],[-2,10]]/161`,
    `q_bb(1,2) = 578/161` (kernel evaluation) -/
example : RowsOK Ex.pCorr ∧ ∃ a, adjSolve .chol Ex.pCorr = .ok a ∧
    a.qxx 1 1 = .ok (580/161) ∧ a.qxx 1 2 = .ok (-2/161) ∧ a.qxx 2 2 = .ok (10/161) ∧ a.qbb 1 2 = .ok (578/161) := by
  refine ⟨Ex.pCorr_rows, ?_⟩
  have h : (adjSolve .chol Ex.pCorr).toOption.map (fun a =>
      [a.qxx 1 1, a.qxx 1 2, a.qxx 2 2, a.qbb 1 2].map Except.toOption)
      = some [some (580/161), some (-2/161), some (10/161), some (578/161)] := by decide +kernel
  obtain ⟨a, h1, h2⟩ := Ex.ok_of_toOption h
  simp only [List.map_cons, List.map_nil, List.cons.injEq, and_true] at h2
  have conv : ∀ (e : Except ErrKind ℚ) (v : ℚ), e.toOption = some v → e = .ok v := by
    intro e v he
    cases e with
    | error _ => simp [Except.toOption] at he
    | ok x => simp [Except.toOption] at he; rw [he]
  exact ⟨a, h1, conv _ _ h2.1, conv _ _ h2.2.1, conv _ _ h2.2.2.1, conv _ _ h2.2.2.2⟩

end Gama.Props.C03
