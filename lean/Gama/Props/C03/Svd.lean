/-
  C03 — Reported cofactors are the true (generalised) inverse: svd solver
  (`SVD::q_xx = Σ_k V'_ik inv_W_k² V'_jk`, `q_bb = Σ_{k non-null} U_ik U_jk`,
  `q_bx = Σ_k U_ik inv_W_k V'_jk`; `V'` = `V` after `min_subset_x` for a subset regularisation).

  Same setting as `Props/C01/Svd.lean`: the factors `d = (U, W, V)` are a parameter here and the
  factorisation enters as `SvdCert`.  `Props/C03/SvdDecompose.lean` restates both theorems for the
  factors `Svd.decompose` (the model of `SVD::svd()`) RETURNS, where the algebraic part of `SvdCert`
  is proved (`Svd.decompose_svdCert`) and only `Unambiguous tol W` remains a hypothesis.
  Unit covariance: `N = AᵀA`, and `q_bb` is the hat matrix of the homogenised system.
-/
import Gama.Lemmas.Ls.SvdProps
import Gama.Lemmas.Ls.SvdExample
namespace Gama.Props.C03
open Gama Gama.Ls Gama.Ls.Svd Gama.LS Matrix

set_option linter.unusedSectionVars false

variable {K : Type} [Field K] [LinearOrder K] [IsStrictOrderedRing K] {sq : K → K}

/-- **C03 (svd, certificate)**: for EVERY index pair the reported `q_xx` (and `q0_xx`, which is
    `q_xx` for this solver) are the entries of one matrix `Q` that is symmetric, positive
    semi-definite, a reflexive g-inverse of `N = AᵀA` (`N Q N = N`, `Q N Q = Q`), equal to `N⁻¹`
    when the defect is 0, and that belongs to the chosen regularisation (`Q y ⟂_S ker A` for
    every `y`); `q_bb` are the entries of `A Q Aᵀ`, a symmetric projector; `q_bx` those of `A Q`. -/
theorem C03_svd_cert (hs : SqrtLaw sq) (fixed : Bool) {tol : K} (htol : 0 ≤ tol) (p : Problem K) (d : Dec K)
    (hc : SvdCert sq tol p.m p.n (@Problem.dense K (fieldScalar sq) p) d) (hreg : RegOK p.reg) (a : Answer K)
    (h : @svdSolveCert K (fieldScalar sq) fixed tol d p = .ok a) :
    ∃ (Q : Matrix (Fin p.n) (Fin p.n) K) (B : Matrix (Fin p.m) (Fin p.m) K) (X : Matrix (Fin p.m) (Fin p.n) K),
      (∀ i j : Fin p.n, a.qxx (i.val + 1) (j.val + 1) = .ok (Q i j)) ∧
      (∀ i j : Fin p.n, a.q0xx (i.val + 1) (j.val + 1) = .ok (Q i j)) ∧
      (∀ i j : Fin p.m, a.qbb (i.val + 1) (j.val + 1) = .ok (B i j)) ∧
      (∀ (i : Fin p.m) (j : Fin p.n), a.qbx (i.val + 1) (j.val + 1) = .ok (X i j)) ∧
      Qᵀ = Q ∧ (∀ y, 0 ≤ y ⬝ᵥ Q *ᵥ y) ∧
      ((@Problem.A K (fieldScalar sq) p)ᵀ * @Problem.A K (fieldScalar sq) p) * Q
          * ((@Problem.A K (fieldScalar sq) p)ᵀ * @Problem.A K (fieldScalar sq) p)
        = (@Problem.A K (fieldScalar sq) p)ᵀ * @Problem.A K (fieldScalar sq) p ∧
      Q * ((@Problem.A K (fieldScalar sq) p)ᵀ * @Problem.A K (fieldScalar sq) p) * Q = Q ∧
      (a.defect = 0 → Q = ((@Problem.A K (fieldScalar sq) p)ᵀ * @Problem.A K (fieldScalar sq) p)⁻¹) ∧
      (∀ y g, @Problem.A K (fieldScalar sq) p *ᵥ g = 0 →
        ∑ i ∈ p.S, (Q *ᵥ y) i * g i = 0) ∧
      B = @Problem.A K (fieldScalar sq) p * Q * (@Problem.A K (fieldScalar sq) p)ᵀ ∧ Bᵀ = B ∧ B * B = B ∧
      X = @Problem.A K (fieldScalar sq) p * Q :=
  answerOf_cofactors hs fixed htol hc hreg h

/-- the hat matrix `q_bb`: diagonal in [0, 1], redundancy numbers sum to `m − n + defect` -/
theorem C03_svd_cert_redundancy (hs : SqrtLaw sq) (fixed : Bool) {tol : K} (htol : 0 ≤ tol) (p : Problem K)
    (d : Dec K) (hc : SvdCert sq tol p.m p.n (@Problem.dense K (fieldScalar sq) p) d) (hreg : RegOK p.reg)
    (a : Answer K) (h : @svdSolveCert K (fieldScalar sq) fixed tol d p = .ok a) :
    ∃ B : Matrix (Fin p.m) (Fin p.m) K,
      (∀ i j : Fin p.m, a.qbb (i.val + 1) (j.val + 1) = .ok (B i j)) ∧
      (∀ i, 0 ≤ B i i ∧ B i i ≤ 1) ∧
      ∑ i, (1 - B i i) = (p.m : K) - (p.n : K) + (a.defect : K) := by
  obtain ⟨Q, B, X, _, _, hB, _, hQs, _, hN, hR, _, _, hBQ, _, _, _⟩ := answerOf_cofactors hs fixed htol hc hreg h
  have hdef := (answerOf_defect hs fixed htol hc hreg h).1
  refine ⟨B, hB, fun i => ?_, ?_⟩
  · rw [hBQ]; exact ⟨hat_diag_nonneg hQs hR i, hat_diag_le_one hQs hR i⟩
  · rw [hBQ, redundancy_sum hN]
    have : (p.n : K) = (a.defect : K) + ((toMatrix p.m p.n (@Problem.dense K (fieldScalar sq) p)).rank : K) := by
      rw [← Nat.cast_add, hdef]
    simp only [Fintype.card_fin]
    rw [this]
    show (p.m : K) - ((toMatrix p.m p.n (@Problem.dense K (fieldScalar sq) p)).rank : K) = _
    ring

/-- non-vacuity (evaluated over ℚ): the subset-regularised rank-1 problem of `Props/C01/Svd.lean`
    reports q_xx(1,1) = 0 (unknown 1 is the regularised one), q_xx(2,2) = 1/400, q_bb(1,1) = 9/25 -/
example : SvdCert Ex.sqQ (1 / 1000) Ex.pE.m Ex.pE.n (@Problem.dense ℚ (fieldScalar Ex.sqQ) Ex.pE) Ex.dE ∧
    RegOK Ex.pE.reg ∧ ∃ a, @svdSolveCert ℚ (fieldScalar Ex.sqQ) true (1 / 1000) Ex.dE Ex.pE = .ok a ∧
      a.qxx 1 1 = .ok 0 ∧ a.qxx 2 2 = .ok (1 / 400) ∧ a.qbb 1 1 = .ok (9 / 25) :=
  ⟨Ex.pE_cert, Ex.pE_regOK, Ex.pE_cofactors⟩

/-- non-vacuity over ℝ with `SqrtLaw Real.sqrt`: see `Props/C01/Svd.lean` (same instance) -/
example : SqrtLaw Real.sqrt ∧
    SvdCert Real.sqrt (1 / 1000) Ex.pW.m Ex.pW.n (@Problem.dense ℝ (fieldScalar Real.sqrt) Ex.pW) Ex.dW ∧
    ∃ a, @svdSolveCert ℝ (fieldScalar Real.sqrt) true (1 / 1000) Ex.dW Ex.pW = .ok a :=
  ⟨Ex.sqrtLaw_real, Ex.pW_cert, _, rfl⟩

end Gama.Props.C03
