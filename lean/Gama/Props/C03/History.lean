/-
  C03 over solver-object HISTORIES (round 6).

  The cofactor theorems of this directory are about what a solver model returns for ONE problem.  The real objects
  are long lived: `LocalNetwork` resets the same `AdjEnvelope` / `AdjCholDec` / … with another linearisation of the
  same shape, changes the regularisation, `Adj` switches algorithms — and the envelope solver keeps per-row caches
  (`qxxbuf[3]`, marked by the move-to-front key table `indbuf`; `q_xx` / `q0_xx` fill a row lazily, `reset` erases
  the table).  This file states C03 for the object AFTER ANY HISTORY.

  Nothing is re-modelled here.  C04's state machines ARE the solver classes with their caches as the code has them
  (`Model/EnvState.lean`: `mtf` = `indbuf`, `content` = what each `qxxbuf[i]` holds, tagged with the identity of the
  data set it was computed from, `reset` = `indbuf.erase()` + `qxxbuf[i].reset()` + `set_stage(stage_init)`;
  `Model/FullState.lean`: `AdjCholDec`, `AdjGSO`, `AdjSVD` — the real `AdjCholDec::q_bb` has no cache, its `aq` is a
  local; `Model/AdjHist.lean`: class `Adj` with `A_dot`), tied to the C++ by C04's `envstate` / `fullstate` /
  `adjstate` streams (state compared after every call).  C04 proves history freedom and the numeric meaning of every
  answer (`env_answer_denotes`, `full_answer_denotes`, `svd_answer_denotes`, `adj_answer_denotes`); the theorems below
  are COROLLARIES of those, restricted to the cofactor queries and composed with C03's own theorems:

    * `C03_cofactors_history_independent`      envelope: history = fresh object given the current problem
    * `C03_envelope_cache_invariant`           a marked row is the row of the CURRENT system (the invariant
                                               `reset`'s erase step maintains; what seeded/C03-seed2 breaks)
    * `C03_cofactors_history_independent_full` chol / gso (seeded/C03-seed4 adds a member the model does not have)
    * `C03_cofactors_history_independent_svd`
    * `C03_cofactors_history_independent_adj`  class `Adj` incl. `set_algorithm` and `set(other data)`
    * `C03_history_cofactors_are_ginverse`     the `q_xx` answered after any history are the entries of ONE symmetric
                                               PSD reflexive g-inverse of the CURRENT normal matrix
-/
import Gama.Props.C04
import Gama.Props.C04Full
import Gama.Props.C03.EnvSolve
import Gama.Lemmas.C03History
namespace Gama.Props.C03
open Gama Gama.C03H Matrix

/-! ### envelope -/

/-- **History independence of the cofactors (envelope).**  `ops` is ANY history of the object — queries (each fills
    or reads the row cache), `min_x()`, `min_x(n, list)`, `reset()`, `reset(other data)` with the same or another
    number of unknowns —, valid in the sense that indices are within the system held at that moment.  The number
    denoted by the answer to a cofactor query after the history (every cached vector evaluated on the data set it
    was COMPUTED from, `C04.denote`) is the number a brand-new object answers that was given the current problem and
    the configuration the caller left (`hinit h.inp (lastCfg m0 ops)`, no history), and both are the field of the
    numeric model `Ls.envSolve` on the current problem alone.  Corollary of `C04.env_answer_denotes` (twice). -/
theorem C03_cofactors_history_independent {K : Type} [Scalar K] (W : C04.World K) (inp0 : C04.EnvInput)
    (hp : inp0.Pos) (m0 : Option (List Nat)) (ops : List C04.HOp) (hops : C04.HValid inp0 ops)
    (op : C04.Op) (_hc : IsCofactor op) (m m' : Option (List Nat)) :
    let h := C04.hrun (C04.hinit inp0 m0) ops
    op.Valid h.inp.n → W.Describes h.inp → C04.Facts (W.prob h.inp.id) h.inp →
    C04.denote W h.inp.id m (C04.hstep h (.q op)).2
        = C04.denote W h.inp.id m' (C04.hstep (C04.hinit h.inp (C04.lastCfg m0 ops)) (.q op)).2
    ∧ C04.denote W h.inp.id m (C04.hstep h (.q op)).2
        = C04.answer (W.prob h.inp.id) (C04.lastCfg m0 ops) (C04.codeOrder h.inp op) := by
  intro h hop hd hF
  have hpos : h.inp.Pos := (Gama.Props.C04.env_invariant_across_inputs inp0 hp m0 ops hops).1
  have e1 := Gama.Props.C04.env_answer_denotes W inp0 hp m0 ops hops op m hop hd hF
  have e2 := Gama.Props.C04.env_answer_denotes W h.inp hpos (C04.lastCfg m0 ops) [] trivial op m' hop hd hF
  exact ⟨e1.trans e2.symm, e1⟩

/-- **The cache invariant.**  After any history, every row the key table `indbuf` marks as filled holds the row of
    the CURRENT system: a positive key `k` marks the regularised row `L⁻¹ T_row(k)` of the data set the object holds
    now, computed for the list that is effective now (and the system is singular, `x` is valid); a negative key
    `-ii` marks column `ii` of the full inverse of the data set the object holds now (stage `q0` reached).  What
    `q_xx` computes from two marked rows therefore DENOTES the `q_xx` entry of `envSolve` on the current problem.
    This is `C04.Inv.live` along `hrun` (`env_invariant_across_inputs`): `reset` re-establishes it by erasing the
    table (`inv_reset`) — the step seeded/C03-seed2 makes conditional. -/
theorem C03_envelope_cache_invariant {K : Type} [Scalar K] (W : C04.World K) (inp0 : C04.EnvInput) (hp : inp0.Pos)
    (m0 : Option (List Nat)) (ops : List C04.HOp) (hops : C04.HValid inp0 ops) :
    let h := C04.hrun (C04.hinit inp0 m0) ops
    (∀ k b, (k, b) ∈ h.s.mtf.ents →
        (0 < k → h.s.content b = .trow h.inp.id k.toNat (C04.eff h.inp h.s.minx))
        ∧ (k < 0 → h.s.content b = .invcol h.inp.id (-k).toNat))
    ∧ (∀ k1 b1 k2 b2 m, (k1, b1) ∈ h.s.mtf.ents → (k2, b2) ∈ h.s.mtf.ents → 0 < k1 → 0 < k2 →
        C04.denote W h.inp.id m (.qxxSing (h.s.content b1) (h.s.content b2))
          = C04.ofE .num (Ls.envSolve { W.prob h.inp.id with reg := .subset (C04.eff h.inp h.s.minx) }
              >>= fun a => a.qxx k1.toNat k2.toNat))
    ∧ (∀ k b lo m, (k, b) ∈ h.s.mtf.ents → k < 0 →
        C04.denote W h.inp.id m (.q0col (h.s.content b) lo)
          = C04.ofE .num (Ls.envSolve { W.prob h.inp.id with reg := C04.regOf m }
              >>= fun r => r.q0xx (W.perm h.inp.id (-k).toNat) (W.perm h.inp.id lo))) := by
  intro h
  have hi := (Gama.Props.C04.env_invariant_across_inputs inp0 hp m0 ops hops).2.1
  refine ⟨fun k b hm => ⟨fun hk => ((hi.live k b hm).1 hk).2.2, fun hk => ((hi.live k b hm).2.1 hk).2⟩, ?_, ?_⟩
  · intro k1 b1 k2 b2 m h1 h2 p1 p2
    rw [((hi.live k1 b1 h1).1 p1).2.2, ((hi.live k2 b2 h2).1 p2).2.2]
    simp only [C04.denote, and_self, if_true]
    rfl
  · intro k b lo m hm hk
    rw [((hi.live k b hm).2.1 hk).2]
    rfl

/-! ### chol / gso / svd (solver entry) and class `Adj` -/

/-- **chol, gso.**  After any history (queries, `min_x…`, `reset()`, `reset(A', b')` of any size; hypotheses of
    `C04.full_answer_denotes_resolving`: the configured regularisation resolves the defect of every system handed over) the
    number denoted by a cofactor answer is the field of the numeric solver model run ONCE on the current problem `p`
    with the configuration the caller left — a function of `(p, configuration, query)`: two histories that end with
    the same problem and configuration (one of them may be empty: a fresh object) give the same cofactors.
    The real `AdjCholDec::q_bb` keeps nothing between calls (`aq` is a local); the model has no such state, so a
    member that caches it (seeded/C03-seed4) is a change of the modelled class, caught by the correspondence. -/
theorem C03_cofactors_history_independent_full {K : Type} [Scalar K] (p : Ls.Problem K) (k : C04.Full.Kind)
    (inp0 inp0' : C04.Full.Input) (ua ua' : Bool) (l0 l0' : Option (List Nat))
    (h0 : C04.Full.CfgOk k inp0 ua l0) (h0' : C04.Full.CfgOk k inp0' ua' l0')
    (ops ops' : List C04.Full.HOp)
    (hops : C04.Full.ValidF k ⟨inp0, C04.Full.init ua l0⟩ ops)
    (hops' : C04.Full.ValidF k ⟨inp0', C04.Full.init ua' l0'⟩ ops')
    (op : C04.Full.Op) (_hc : IsCofactorF op)
    (hop : op.Ok (C04.Full.hfrun k ⟨inp0, C04.Full.init ua l0⟩ ops).inp)
    (hop' : op.Ok (C04.Full.hfrun k ⟨inp0', C04.Full.init ua' l0'⟩ ops').inp) :
    let h := C04.Full.hfrun k ⟨inp0, C04.Full.init ua l0⟩ ops
    let h' := C04.Full.hfrun k ⟨inp0', C04.Full.init ua' l0'⟩ ops'
    C04.Full.FactsF (C04.Full.algOf k) p h.inp → C04.Full.FactsF (C04.Full.algOf k) p h'.inp →
    h.s.useAll = h'.s.useAll → h.s.list = h'.s.list →
    C04.Full.denoteF (C04.Full.algOf k) p (C04.Full.cfgReg h.s.useAll h.s.list) (C04.Full.hfstep k h (.q op)).2
      = C04.Full.denoteF (C04.Full.algOf k) p (C04.Full.cfgReg h'.s.useAll h'.s.list) (C04.Full.hfstep k h' (.q op)).2 := by
  intro h h' hF hF' eu el
  have e1 := Gama.Props.C04.full_answer_denotes_resolving p k inp0 ua l0 h0 ops hops op hop hF
  have e2 := Gama.Props.C04.full_answer_denotes_resolving p k inp0' ua' l0' h0' ops' hops' op hop' hF'
  rw [e1, e2]
  show C04.Full.answerF _ p h.s.useAll h.s.list op = C04.Full.answerF _ p h'.s.useAll h'.s.list op
  rw [eu, el]

/-- **svd.**  As above through `C04.svd_answer_denotes`. -/
theorem C03_cofactors_history_independent_svd {K : Type} [Scalar K] (p : Ls.Problem K)
    (inp0 inp0' : C04.Full.Input) (sub sub' : Bool) (l0 l0' : Option (List Nat))
    (h0 : C04.Full.SCfgOk inp0 sub l0) (h0' : C04.Full.SCfgOk inp0' sub' l0')
    (ops ops' : List C04.Full.HOp)
    (hops : C04.Full.ValidS ⟨inp0, C04.Full.sinit sub l0⟩ ops)
    (hops' : C04.Full.ValidS ⟨inp0', C04.Full.sinit sub' l0'⟩ ops')
    (op : C04.Full.Op) (_hc : IsCofactorF op)
    (hop : op.Ok (C04.Full.hsrun ⟨inp0, C04.Full.sinit sub l0⟩ ops).inp)
    (hop' : op.Ok (C04.Full.hsrun ⟨inp0', C04.Full.sinit sub' l0'⟩ ops').inp) :
    let h := C04.Full.hsrun ⟨inp0, C04.Full.sinit sub l0⟩ ops
    let h' := C04.Full.hsrun ⟨inp0', C04.Full.sinit sub' l0'⟩ ops'
    C04.Full.FactsF .svd p h.inp → C04.Full.FactsF .svd p h'.inp →
    h.s.sub = h'.s.sub → h.s.list = h'.s.list →
    C04.Full.denoteF .svd p (C04.Full.cfgReg (!h.s.sub) h.s.list) (C04.Full.hsstep h (.q op)).2
      = C04.Full.denoteF .svd p (C04.Full.cfgReg (!h'.s.sub) h'.s.list) (C04.Full.hsstep h' (.q op)).2 := by
  intro h h' hF hF' eu el
  have e1 := Gama.Props.C04.svd_answer_denotes p inp0 sub l0 h0 ops hops op hop hF
  have e2 := Gama.Props.C04.svd_answer_denotes p inp0' sub' l0' h0' ops' hops' op hop' hF'
  rw [e1, e2]
  show C04.Full.answerS p h.s.sub h.s.list op = C04.Full.answerS p h'.s.sub h'.s.list op
  rw [eu, el]

/-- **class `Adj`.**  After any history of queries, `set_algorithm(any)`, `set(same or other data)`: a cofactor query is
    answered exactly as a brand-new `Adj` with the current algorithm and the CURRENT data answers it (`hafresh`), and
    the numeric `Answer` record behind it (full-matrix algorithms: the solver model on what `A_dot` DENOTES after the
    copy loop and the in-place homogenisation) is `Ls.adjSolve` of the current algorithm on the current problem — so
    its `q_xx(i,j)`, `q_bb(i,j)` are those `C03_adj_cofactors` speaks about.  Corollary of
    `C04.adj_history_free_across_inputs`, `C04.adj_answer_denotes`. -/
theorem C03_cofactors_history_independent_adj {K : Type} [Scalar K] (W : Nat → Ls.Problem K)
    (inp0 : C04.AdjM.AInput) (hok : inp0.Ok) (a0 : C04.AdjM.Alg) (ops : List C04.AdjM.HAOp)
    (hops : C04.AdjM.HAValid inp0 ops) (i j : Nat) :
    let h := C04.AdjM.harun (C04.AdjM.hainit inp0 a0) ops
    (C04.AdjM.AOp.qxx i j).Valid h.inp.env.n →
    ((C04.AdjM.hastep h (.q (.qxx i j))).2 = C04.AdjM.hafresh h.inp h.s.alg (.qxx i j)
      ∧ (C04.AdjM.hastep h (.q (.qbb i j))).2 = C04.AdjM.hafresh h.inp h.s.alg (.qbb i j))
    ∧ (C04.AdjM.adjNum W h.s.alg h.inp.id (C04.AdjM.hastep h (.q (.qxx i j))).2.2 >>= fun a => a.qxx i j)
        = (Ls.adjSolve (C04.AdjM.lsAlg h.s.alg) (W h.inp.id) >>= fun a => a.qxx i j)
    ∧ (C04.AdjM.adjNum W h.s.alg h.inp.id (C04.AdjM.hastep h (.q (.qbb i j))).2.2 >>= fun a => a.qbb i j)
        = (Ls.adjSolve (C04.AdjM.lsAlg h.s.alg) (W h.inp.id) >>= fun a => a.qbb i j) := by
  intro h hv
  refine ⟨⟨(Gama.Props.C04.adj_history_free_across_inputs inp0 hok a0 ops hops (.qxx i j) hv).1,
    (Gama.Props.C04.adj_history_free_across_inputs inp0 hok a0 ops hops (.qbb i j) trivial).1⟩, ?_, ?_⟩
  · rw [Gama.Props.C04.adj_answer_denotes W inp0 hok a0 ops hops (.qxx i j) trivial hv]
  · rw [Gama.Props.C04.adj_answer_denotes W inp0 hok a0 ops hops (.qbb i j) trivial trivial]

/-! ### composed with C03's cofactor theorem: after any history the reported `q_xx` are ONE g-inverse of the CURRENT `N` -/

section ginverse
open Gama.Ls Gama.LS Gama.Ls.Env
variable {K : Type} [Field K] [LinearOrder K] [IsStrictOrderedRing K] [SqrtFn K]
attribute [local instance 2000] scalarOfField

/-- **C03 after any history (envelope).**  `ops` any valid history of one `AdjEnvelope` object (queries, `min_x…`,
    `reset`, `reset(other data)`); `p` = the problem the object holds at the end with the configuration the caller
    left.  Under C03's hypotheses for `p` ALONE (`C03_envsolve_cofactors`: rank numerically unambiguous on `p`'s own
    trace, `p.C · P = 1`, the list resolves the defect) there is ONE matrix `Q` — symmetric, positive semi-definite,
    `N Q N = N`, `Q N Q = Q` for `N = AᵀPA` of `p`, belonging to `p`'s regularisation, `= N⁻¹` when the defect is 0 —
    such that the answer of the object to `q_xx(i+1, j+1)` after the history denotes `Q i j`, for ALL index pairs:
    whatever the row cache holds from earlier systems, configurations and queries.  (The code reads the mirror
    element outside the envelope, `codeOrder`; `Q` is symmetric.) -/
theorem C03_history_cofactors_are_ginverse (hsq : IsSqrt (SqrtFn.sq : K → K)) (W : C04.World K)
    (inp0 : C04.EnvInput) (hp : inp0.Pos) (m0 : Option (List Nat)) (ops : List C04.HOp)
    (hops : C04.HValid inp0 ops) (m : Option (List Nat))
    (p : Ls.Problem K)
    (hpdef : p = { W.prob (C04.hrun (C04.hinit inp0 m0) ops).inp.id with reg := C04.regOf (C04.lastCfg m0 ops) })
    (hd : W.Describes (C04.hrun (C04.hinit inp0 m0) ops).inp)
    (hF : C04.Facts (W.prob (C04.hrun (C04.hinit inp0 m0) ops).inp.id) (C04.hrun (C04.hinit inp0 m0) ops).inp)
    (hin : Ls.Env.InputOK p) (hreg : Ls.Env.RegListOK p) (hU : Ls.Env.SolveUnambiguous p)
    (P : Matrix (Fin p.m) (Fin p.m) K) (hP : p.C * P = 1)
    (a : Ls.Answer K) (ha : Ls.envSolve p = .ok a) (hx : a.xErr = none) :
    ∃ Q : Matrix (Fin p.n) (Fin p.n) K,
      (∀ i j : Fin p.n,
        C04.denote W (C04.hrun (C04.hinit inp0 m0) ops).inp.id m
          (C04.hstep (C04.hrun (C04.hinit inp0 m0) ops) (.q (.qxx (i.val + 1) (j.val + 1)))).2 = .num (Q i j))
      ∧ Qᵀ = Q ∧ (p.Aᵀ * P * p.A) * Q * (p.Aᵀ * P * p.A) = p.Aᵀ * P * p.A ∧ Q * (p.Aᵀ * P * p.A) * Q = Q
      ∧ (∀ y, 0 ≤ y ⬝ᵥ Q *ᵥ y) ∧ LS.BelongsTo p.A p.S Q
      ∧ (a.defect = 0 → Q = (p.Aᵀ * P * p.A)⁻¹) := by
  obtain ⟨Q, hq, hsym, h1, h2, h3, h4, h5⟩ := C03_envsolve_cofactors hsq p hin hreg hU P hP a ha hx
  refine ⟨Q, ?_, hsym, h1, h2, h3, h4, h5⟩
  intro i j
  have hn : (C04.hrun (C04.hinit inp0 m0) ops).inp.n = p.n := by rw [hF.n, hpdef]
  have hv : (C04.Op.qxx (i.val + 1) (j.val + 1)).Valid (C04.hrun (C04.hinit inp0 m0) ops).inp.n := by
    rw [hn]; exact ⟨⟨Nat.succ_le_succ (Nat.zero_le _), i.isLt⟩, ⟨Nat.succ_le_succ (Nat.zero_le _), j.isLt⟩⟩
  have e := Gama.Props.C04.env_answer_denotes W inp0 hp m0 ops hops (.qxx (i.val + 1) (j.val + 1)) m hv hd hF
  rw [e]
  have hs : Ls.envSolve { W.prob (C04.hrun (C04.hinit inp0 m0) ops).inp.id with reg := C04.regOf (C04.lastCfg m0 ops) }
      = .ok a := by rw [← hpdef]; exact ha
  have hji : Q j i = Q i j := by
    have := congrFun (congrFun hsym i) j
    simpa [Matrix.transpose_apply] using this
  rcases codeOrder_qxx (C04.hrun (C04.hinit inp0 m0) ops).inp (i.val + 1) (j.val + 1) with hc | hc
  · rw [hc]
    simp only [C04.answer, hs, bind, Except.bind]
    have := hq i j
    simp only [C04.ofE] at *
    rw [show a.qxx (i.val + 1) (j.val + 1) = .ok (Q i j) from hq i j]
  · rw [hc]
    simp only [C04.answer, hs, bind, Except.bind]
    rw [show a.qxx (j.val + 1) (i.val + 1) = .ok (Q j i) from hq j i, hji]
    rfl

end ginverse

/-! ### non-vacuity -/

/-- `C03_cofactors_history_independent`, `C03_envelope_cache_invariant` on a two-problem `World Rat` (data set 1
    singular: x₁ − x₂ observed twice; data set 2 regular, same shape): the object answers `q_xx(1,2)` and `x` on data
    set 1 (rows 1 and 2 are cached under keys 1, 2 with identity 1), is reset to data set 2 and asked `q0_xx(2,1)`;
    the hypotheses hold (`decide +kernel` runs `envSolve` on the rationals), and `q_xx(1,2)` after the history is what
    a fresh object given data set 2 answers: the number `envSolve` gives for problem 2. -/
example :
    let p1 : Ls.Problem Rat := { m := 2, n := 2, rows := #[#[(1, 1), (2, -1)], #[(1, 1), (2, -1)]],
                                 cov := #[⟨2, 0, #[1, 1]⟩], rhs := #[1, 3], reg := .none }
    let p2 : Ls.Problem Rat := { m := 2, n := 2, rows := #[#[(1, 1), (2, -1)], #[(1, 1), (2, 1)]],
                                 cov := #[⟨2, 0, #[1, 1]⟩], rhs := #[1, 3], reg := .none }
    let f1 : C04.Info := ⟨2, 1, #[2, 1], #[0, 1], #[[1, 2], [1, 2]]⟩
    let f2 : C04.Info := ⟨2, 0, #[1, 2], #[0, 1], #[[1, 2], [1, 2]]⟩
    let W := C04.worldOf #[p1, p2] #[some f1, some f2]
    let a := f1.toInputOf (W.prob 1) 1
    let b := f2.toInputOf (W.prob 2) 2
    let ops := [C04.HOp.q (.qxx 1 2), .q .unknowns, .resetNew b, .q (.q0xx 2 1)]
    C04.HValid a ops ∧ IsCofactor (.qxx 1 2)
    ∧ (C04.hrun (C04.hinit a none) [.q (.qxx 1 2), .q .unknowns]).s.mtf.ents.map Prod.fst = [2, 1]
    ∧ C04.denote W 2 none (C04.hstep (C04.hrun (C04.hinit a none) ops) (.q (.qxx 1 2))).2
        = C04.denote W 2 none (C04.hstep (C04.hinit b none) (.q (.qxx 1 2))).2
    ∧ C04.denote W 2 none (C04.hstep (C04.hrun (C04.hinit a none) ops) (.q (.qxx 1 2))).2
        = C04.answer p2 none (.qxx 1 2) := by
  intro p1 p2 f1 f2 W a b ops
  have h1 : f1.agrees (W.prob 1) = true := by decide +kernel
  have h2 : f2.agrees (W.prob 2) = true := by decide +kernel
  have ib := Gama.Props.C04.env_driver_input_is_instance #[p1, p2] #[some f1, some f2] f2 2 rfl h2
  have ia := Gama.Props.C04.env_driver_input_is_instance #[p1, p2] #[some f1, some f2] f1 1 rfl h1
  have hv : C04.HValid a ops := ⟨by decide, trivial, ib.1, by decide, trivial⟩
  have := C03_cofactors_history_independent W a ia.1 none ops hv (.qxx 1 2) trivial none none (by decide) ib.2.1 ib.2.2
  exact ⟨hv, trivial, by decide +kernel, this.1, this.2⟩

/-- `C03_envelope_cache_invariant`: a singular 4-unknown input, `q_xx(1,4)` fills two row buffers (keys 4 and 1, the
    premise `(k, b) ∈ ents` is inhabited); each holds the row of the data set the object holds (identity 1), for the
    list in force -/
example :
    let a : C04.EnvInput := { n := 4, nullity := 1, invp := fun i => i, inEnv := fun i j => (max i j) - (min i j) ≤ 1,
                              resolves := fun l => l ≠ [], qbbIn := fun i j => i == j, id := 1 }
    let W : C04.World Rat := ⟨fun _ => C04.emptyProblem, fun _ k => k⟩
    let h := C04.hrun (C04.hinit a none) [.q (.qxx 1 4)]
    h.s.mtf.ents.map Prod.fst = [4, 1] ∧ C04.eff h.inp h.s.minx = [1, 2, 3, 4]
    ∧ ∀ k b, (k, b) ∈ h.s.mtf.ents → 0 < k → h.s.content b = .trow 1 k.toNat (C04.eff h.inp h.s.minx) := by
  intro a W h
  have hp : a.Pos := fun i hi _ => hi
  have hv : C04.HValid a [.q (.qxx 1 4)] := ⟨by decide, trivial⟩
  exact ⟨by decide, by decide, fun k b hm hk => (((C03_envelope_cache_invariant W a hp none _ hv).1) k b hm).1 hk⟩

/-- `C03_cofactors_history_independent_full` / `_svd` (exact arithmetic, `decide +kernel` runs the solver models on the
    rationals): two regular 3×2 problems of the same shape; one object answers `q_bb(1,2)`, `q_bb(1,1)`, `q_xx(1,2)` on
    problem 1 and is reset to problem 2, the other is a fresh object given problem 2; hypotheses hold, so the cofactors
    `q_bb(1,2)` of the two agree -/
example :
    let p1 : Ls.Problem Rat := { m := 3, n := 2, rows := #[#[(1, 1)], #[(2, 1)], #[(1, 1), (2, 1)]],
                                 cov := #[⟨3, 0, #[1, 1, 1]⟩], rhs := #[1, 2, 4], reg := .none }
    let p2 : Ls.Problem Rat := { m := 3, n := 2, rows := #[#[(1, 2)], #[(1, 1), (2, -1)], #[(2, 3)]],
                                 cov := #[⟨3, 0, #[1, 1, 1]⟩], rhs := #[1, 0, 4], reg := .none }
    let ops := [C04.Full.HOp.q (.qbb 1 2), .q (.qbb 1 1), .q (.qxx 1 2), .resetNew (C04.Full.inputOf .chol p2)]
    let h := C04.Full.hfrun .chol ⟨C04.Full.inputOf .chol p1, C04.Full.init true none⟩ ops
    let h' := C04.Full.hfrun .chol ⟨C04.Full.inputOf .chol p2, C04.Full.init true none⟩ []
    IsCofactorF (.qbb 1 2)
    ∧ C04.Full.denoteF .chol p2 (C04.Full.cfgReg h.s.useAll h.s.list) (C04.Full.hfstep .chol h (.q (.qbb 1 2))).2
      = C04.Full.denoteF .chol p2 (C04.Full.cfgReg h'.s.useAll h'.s.list) (C04.Full.hfstep .chol h' (.q (.qbb 1 2))).2 := by
  intro p1 p2 ops h h'
  have n1 : (C04.Full.inputOf .chol p1).nullity = 0 := by decide +kernel
  have n2 : (C04.Full.inputOf .chol p2).nullity = 0 := by decide +kernel
  have c1 := (Gama.Props.C04.full_driver_cfg_ok .chol p1 none (Or.inl n1)).1
  have c2 := (Gama.Props.C04.full_driver_cfg_ok .chol p2 none (Or.inl n2)).1
  have hv : C04.Full.ValidF .chol ⟨C04.Full.inputOf .chol p1, C04.Full.init true none⟩ ops :=
    ⟨trivial, trivial, trivial, ⟨by rw [n2]; exact Nat.zero_le _, Or.inl n2⟩, trivial⟩
  refine ⟨trivial, ?_⟩
  exact C03_cofactors_history_independent_full p2 .chol _ _ true true none none c1 c2 ops [] hv trivial (.qbb 1 2) trivial
    trivial trivial (C04.Full.factsF_inputOf .chol p2) (C04.Full.factsF_inputOf .chol p2) (by decide +kernel) (by decide +kernel)

/-- … and svd (1×1 problems: the Golub–Reinsch sweep on the rationals is evaluated by the kernel only for a single
    column): `q_xx(1,1)` on problem 1, reset to problem 2, against a fresh object given problem 2 -/
example :
    let p1 : Ls.Problem Rat := { m := 1, n := 1, rows := #[#[(1, 1)]], cov := #[⟨1, 0, #[1]⟩], rhs := #[1], reg := .none }
    let p2 : Ls.Problem Rat := { m := 1, n := 1, rows := #[#[(1, 2)]], cov := #[⟨1, 0, #[1]⟩], rhs := #[3], reg := .none }
    let ops := [C04.Full.HOp.resetNew (C04.Full.inputOf .svd p1), .q (.qxx 1 1), .resetNew (C04.Full.inputOf .svd p2)]
    let h := C04.Full.hsrun ⟨C04.Full.inputOf .svd p1, C04.Full.sinit false none⟩ ops
    let h' := C04.Full.hsrun ⟨C04.Full.inputOf .svd p2, C04.Full.sinit false none⟩ []
    C04.Full.denoteF .svd p2 (C04.Full.cfgReg (!h.s.sub) h.s.list) (C04.Full.hsstep h (.q (.qxx 1 1))).2
      = C04.Full.denoteF .svd p2 (C04.Full.cfgReg (!h'.s.sub) h'.s.list) (C04.Full.hsstep h' (.q (.qxx 1 1))).2 := by
  intro p1 p2 ops h h'
  have c1 := (Gama.Props.C04.full_driver_cfg_ok .chol p1 none (Or.inl (by decide +kernel))).2.1
  have c2 := (Gama.Props.C04.full_driver_cfg_ok .chol p2 none (Or.inl (by decide +kernel))).2.1
  have n2 : (C04.Full.inputOf .svd p2).nullity = 0 := by decide +kernel
  have hv : C04.Full.ValidS ⟨C04.Full.inputOf .svd p1, C04.Full.sinit false none⟩ ops :=
    ⟨Or.inr (Or.inl rfl), trivial, Or.inl n2, trivial⟩
  exact C03_cofactors_history_independent_svd p2 _ _ false false none none c1 c2 ops [] hv trivial (.qxx 1 1) trivial
    trivial trivial (C04.Full.factsF_inputOf .svd p2) (C04.Full.factsF_inputOf .svd p2) (by decide +kernel) (by decide +kernel)

/-- `C03_cofactors_history_independent_adj`: two admissible data sets of the same shape; `x`, `set(data 2)`,
    `set_algorithm(svd)`, `q_xx(1,3)`; the history is valid and the final cofactor queries are those of a fresh `Adj`
    with algorithm svd holding data set 2 -/
example :
    let fi : C04.Full.Input := { n := 3, nullity := 0, resolves := fun _ => true }
    let e : C04.EnvInput := { n := 3, nullity := 0, invp := fun i => i, inEnv := fun _ _ => true,
                              resolves := fun _ => true, qbbIn := fun _ _ => true }
    let d1 : C04.AdjM.AInput := { env := { e with id := 1 }, chol := fi, gso := fi, svd := fi, minx := none,
                                  rows := fun _ => [1, 2], id := 1, m := 4, n := 3 }
    let d2 : C04.AdjM.AInput := { d1 with env := { e with id := 2 }, id := 2 }
    let ops := [C04.AdjM.HAOp.q .x, .setData d2, .q (.setAlg .svd), .q (.qxx 1 3)]
    let h := C04.AdjM.harun (C04.AdjM.hainit d1 .gso) ops
    d1.Ok ∧ C04.AdjM.HAValid d1 ops
    ∧ (C04.AdjM.hastep h (.q (.qxx 3 1))).2 = C04.AdjM.hafresh d2 .svd (.qxx 3 1)
    ∧ (C04.AdjM.hastep h (.q (.qbb 3 1))).2 = C04.AdjM.hafresh d2 .svd (.qbb 3 1) := by
  intro fi e d1 d2 ops h
  have ok : ∀ d : C04.AdjM.AInput, d.env.n = 3 → d.env.invp = (fun i => i) → d.env.nullity = 0 → d.rows = (fun _ => [1, 2]) →
      d.chol = fi → d.gso = fi → d.svd = fi → d.minx = none → d.Ok := by
    intro d hn hi h0 hr hc hg hs hm
    refine ⟨fun i h _ => by rw [hi]; exact h, ?_, Or.inl h0, ?_, ?_, ?_⟩
    · intro i c hc'
      rw [hr] at hc'
      simp at hc'
      rw [hn]
      rcases hc' with rfl | rfl <;> exact ⟨by decide, by decide⟩
    · rw [hc, hm]; exact ⟨by decide, by decide, by decide, (by intro hk hu; first | exact Or.inl rfl | exact absurd hk (by decide) | exact absurd hu (by decide)), by decide⟩
    · rw [hg, hm]; exact ⟨by decide, by decide, by decide, (by intro hk hu; first | exact Or.inl rfl | exact absurd hk (by decide) | exact absurd hu (by decide)), by decide⟩
    · rw [hs, hm]; exact ⟨by decide, by decide, by decide⟩
  have h1 : d1.Ok := ok d1 rfl rfl rfl rfl rfl rfl rfl rfl
  have h2 : d2.Ok := ok d2 rfl rfl rfl rfl rfl rfl rfl rfl
  have hv : C04.AdjM.HAValid d1 ops := ⟨trivial, h2, trivial, (show C04.AdjM.AOp.Valid 3 (.qxx 1 3) from by decide), trivial⟩
  have := (C03_cofactors_history_independent_adj (fun _ => (C04.emptyProblem : Ls.Problem Rat)) d1 h1 .gso ops hv 3 1 (by decide)).1
  exact ⟨h1, hv, this.1, this.2⟩

end Gama.Props.C03
