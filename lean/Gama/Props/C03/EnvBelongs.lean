/-
  C03 — Reported cofactors are the true (generalised) inverse: envelope solver, the two clauses
  that `Props/C03/Env.lean` leaves open (notes/CLAUSES.md, C03 rows 2 and 6):

    * the matrix `Q` of the reported `q_xx` is positive semi-definite;
    * `Q` belongs to the chosen regularisation: every `Q y` is `S`-orthogonal to the kernel of the
      design matrix (`Gama.LS.BelongsTo`), `S` the configured subset — the property that singles
      `Q` out among the symmetric reflexive g-inverses (`Gama.LS.ginv_belongs_unique`,
      `Props/C02Cofactors.lean`).

  Same setting as `C03_envelope_singular` / `C03_envelope_inverse`: ordered field `K`, model at
  `fieldScalar sq`, any ordering `OrdOK n o`, homogenised system `(At, bt)` with `Ã = W A`,
  `W` injective.  ONE statement covers defect = 0 (`Q = N⁻¹`) and defect ≠ 0 (`Q = T Q0 Tᵀ`);
  the hypothesis `RegOK` (distinct valid unknown numbers; `C01_envelope_regOK`) replaces `hSlt` of
  `C03_envelope_singular`.
-/
import Gama.Lemmas.Ls.ComposeEnvBelongs
import Gama.Props.C03.Env
namespace Gama.Props.C03
open Gama Gama.Ls Gama.Ls.Env Gama.LS Matrix

set_option linter.unusedSectionVars false
variable {K : Type} [Field K] [LinearOrder K] [IsStrictOrderedRing K] (sq : K → K)

/-- **SPEC (every solver)**: a symmetric reflexive g-inverse `Q` (`Q N Q = Q`) of a positive
    semi-definite `N` is positive semi-definite: `yᵀQy = (Qy)ᵀN(Qy)` -/
theorem C03_refl_ginv_psd {n : Type*} [Fintype n] {N Q : Matrix n n K}
    (hN : ∀ d, 0 ≤ d ⬝ᵥ N *ᵥ d) (hs : Qᵀ = Q) (hr : Q * N * Q = Q) : ∀ y, 0 ≤ y ⬝ᵥ Q *ᵥ y :=
  refl_ginv_psd hN hs hr

/-- **C03 (envelope), regular or singular, clauses 1–6 in one statement**: for an unambiguous
    problem on which `unknowns()` answers, the values `q_xx(i,j)` for ALL index pairs are the
    entries of one matrix `Q` that is symmetric, a reflexive generalised inverse of `N = ÃᵀÃ`
    (`N Q N = N`, `Q N Q = Q`), positive semi-definite, belongs to the configured regularisation
    subset `S` (`Q y ⟂_S ker A` for every `y`), and is `N⁻¹` when the defect is 0 -/
theorem C03_envelope_cofactors (hsq : IsSqrt sq) (tol stol : K) (m n : ℕ) (A : DMat K) (b : Array K)
    (At : DMat K) (bt : Array K) (reg : Reg) (o : EnvOrd) (hO : OrdOK n o)
    (hU : FactUnambiguous sq tol m n At bt o) (htol : 0 < tol) (hstol : 0 < stol)
    {W : Matrix (Fin m) (Fin m) K} (hWinj : ∀ d, W *ᵥ d = 0 → d = 0)
    (hAt : toMatrix m n At = W * toMatrix m n A)
    (hreg : RegOK n o reg (reg.toFinset n)) {x : Array K}
    (hx : (@envCore K (fieldScalar sq) tol stol m n A b At bt reg o).x = .ok x) :
    ∃ Q : Matrix (Fin n) (Fin n) K,
      (∀ i j : Fin n, (@envCore K (fieldScalar sq) tol stol m n A b At bt reg o).qxx (i + 1) (j + 1) = .ok (Q i j))
      ∧ Qᵀ = Q ∧ NO m n At * Q * NO m n At = NO m n At ∧ Q * NO m n At * Q = Q
      ∧ (∀ y, 0 ≤ y ⬝ᵥ Q *ᵥ y)
      ∧ BelongsTo (toMatrix m n A) (reg.toFinset n) Q
      ∧ ((@envCore K (fieldScalar sq) tol stol m n A b At bt reg o).defect = 0 → Q = (NO m n At)⁻¹) :=
  envCore_cofactors sq tol stol m n A b At bt reg o hsq hO hU htol hstol hWinj hAt hreg hx

/-- the same with the normal matrix of the ORIGINAL weighted problem, `N = AᵀPA`, `P = WᵀW`
    (`C03_normal_matrix_whitened`) -/
theorem C03_envelope_cofactors_weighted (hsq : IsSqrt sq) (tol stol : K) (m n : ℕ) (A : DMat K) (b : Array K)
    (At : DMat K) (bt : Array K) (reg : Reg) (o : EnvOrd) (hO : OrdOK n o)
    (hU : FactUnambiguous sq tol m n At bt o) (htol : 0 < tol) (hstol : 0 < stol)
    {P W : Matrix (Fin m) (Fin m) K} (hW : Wᵀ * W = P) (hWinj : ∀ d, W *ᵥ d = 0 → d = 0)
    (hAt : toMatrix m n At = W * toMatrix m n A)
    (hreg : RegOK n o reg (reg.toFinset n)) {x : Array K}
    (hx : (@envCore K (fieldScalar sq) tol stol m n A b At bt reg o).x = .ok x) :
    ∃ Q : Matrix (Fin n) (Fin n) K,
      (∀ i j : Fin n, (@envCore K (fieldScalar sq) tol stol m n A b At bt reg o).qxx (i + 1) (j + 1) = .ok (Q i j))
      ∧ Qᵀ = Q
      ∧ ((toMatrix m n A)ᵀ * P * toMatrix m n A) * Q * ((toMatrix m n A)ᵀ * P * toMatrix m n A)
          = (toMatrix m n A)ᵀ * P * toMatrix m n A
      ∧ Q * ((toMatrix m n A)ᵀ * P * toMatrix m n A) * Q = Q
      ∧ (∀ y, 0 ≤ y ⬝ᵥ Q *ᵥ y)
      ∧ BelongsTo (toMatrix m n A) (reg.toFinset n) Q
      ∧ ((@envCore K (fieldScalar sq) tol stol m n A b At bt reg o).defect = 0
          → Q = ((toMatrix m n A)ᵀ * P * toMatrix m n A)⁻¹) := by
  rw [← C03_normal_matrix_whitened m n A At hW hAt]
  exact envCore_cofactors sq tol stol m n A b At bt reg o hsq hO hU htol hstol hWinj hAt hreg hx

/-- **C03 clause 2 (envelope)**: the matrix of the reported `q_xx` is positive semi-definite
    (`Q` is ANY matrix whose entries are what `q_xx` answers — there is exactly one) -/
theorem C03_env_psd (hsq : IsSqrt sq) (tol stol : K) (m n : ℕ) (A : DMat K) (b : Array K)
    (At : DMat K) (bt : Array K) (reg : Reg) (o : EnvOrd) (hO : OrdOK n o)
    (hU : FactUnambiguous sq tol m n At bt o) (htol : 0 < tol) (hstol : 0 < stol)
    {W : Matrix (Fin m) (Fin m) K} (hWinj : ∀ d, W *ᵥ d = 0 → d = 0)
    (hAt : toMatrix m n At = W * toMatrix m n A)
    (hreg : RegOK n o reg (reg.toFinset n)) {x : Array K}
    (hx : (@envCore K (fieldScalar sq) tol stol m n A b At bt reg o).x = .ok x)
    (Q : Matrix (Fin n) (Fin n) K)
    (hQ : ∀ i j : Fin n, (@envCore K (fieldScalar sq) tol stol m n A b At bt reg o).qxx (i + 1) (j + 1) = .ok (Q i j)) :
    ∀ y, 0 ≤ y ⬝ᵥ Q *ᵥ y := by
  obtain ⟨Q', h1, -, -, -, h5, -⟩ :=
    envCore_cofactors sq tol stol m n A b At bt reg o hsq hO hU htol hstol hWinj hAt hreg hx
  have e : Q = Q' := by
    ext i j; exact Except.ok.inj ((hQ i j).symm.trans (h1 i j))
  rw [e]; exact h5

/-- **C03 clause 6 (envelope)**: the matrix of the reported `q_xx` belongs to the chosen
    regularisation: for every `y` the vector `Q y` is `S`-orthogonal to the kernel of the design
    matrix, `S` the configured subset of unknowns -/
theorem C03_env_belongs (hsq : IsSqrt sq) (tol stol : K) (m n : ℕ) (A : DMat K) (b : Array K)
    (At : DMat K) (bt : Array K) (reg : Reg) (o : EnvOrd) (hO : OrdOK n o)
    (hU : FactUnambiguous sq tol m n At bt o) (htol : 0 < tol) (hstol : 0 < stol)
    {W : Matrix (Fin m) (Fin m) K} (hWinj : ∀ d, W *ᵥ d = 0 → d = 0)
    (hAt : toMatrix m n At = W * toMatrix m n A)
    (hreg : RegOK n o reg (reg.toFinset n)) {x : Array K}
    (hx : (@envCore K (fieldScalar sq) tol stol m n A b At bt reg o).x = .ok x)
    (Q : Matrix (Fin n) (Fin n) K)
    (hQ : ∀ i j : Fin n, (@envCore K (fieldScalar sq) tol stol m n A b At bt reg o).qxx (i + 1) (j + 1) = .ok (Q i j))
    (y g : Fin n → K) (hg : toMatrix m n A *ᵥ g = 0) :
    ∑ i ∈ reg.toFinset n, (Q *ᵥ y) i * g i = 0 := by
  obtain ⟨Q', h1, -, -, -, -, h6, -⟩ :=
    envCore_cofactors sq tol stol m n A b At bt reg o hsq hO hU htol hstol hWinj hAt hreg hx
  have e : Q = Q' := by
    ext i j; exact Except.ok.inj ((hQ i j).symm.trans (h1 i j))
  rw [e]; exact h6 y g hg

/-! ### non-vacuity -/

/-- the singular 2 × 4 system (two height differences `x1 − x3`, `x2 − x4`, defect 2, ordering of
    the code's reverse Cuthill–McKee) with the regularisation `min_x(2, {1, 2})` meets every
    hypothesis of `C03_envelope_cofactors` except `IsSqrt` — witnessed here: `OrdOK`,
    `FactUnambiguous`, both tolerances positive, `W = 1` injective with `Ã = W A`, `RegOK` for a
    PROPER subset, defect ≠ 0, `unknowns()` answers.  (`IsSqrt` cannot hold over ℚ; on this
    instance the only value the Gram–Schmidt loop takes a root of is 1, where `id` IS the root;
    `IsSqrt Real.sqrt` is shown in `Props/C01/Env.lean`.) -/
example : OrdOK 4 Ex.wo
    ∧ FactUnambiguous (K := ℚ) id (1/2) 2 4 Ex.wA Ex.wb Ex.wo
    ∧ (0 : ℚ) < 1/2
    ∧ (∀ d : Fin 2 → ℚ, (1 : Matrix (Fin 2) (Fin 2) ℚ) *ᵥ d = 0 → d = 0)
    ∧ toMatrix 2 4 Ex.wA = (1 : Matrix (Fin 2) (Fin 2) ℚ) * toMatrix 2 4 Ex.wA
    ∧ RegOK 4 Ex.wo (.subset [1, 2]) ((Reg.subset [1, 2]).toFinset 4)
    ∧ (@envCore ℚ (fieldScalar id) (1/2) (1/2) 2 4 Ex.wA Ex.wb Ex.wA Ex.wb (.subset [1, 2]) Ex.wo).defect = 2
    ∧ (@envCore ℚ (fieldScalar id) (1/2) (1/2) 2 4 Ex.wA Ex.wb Ex.wA Ex.wb (.subset [1, 2]) Ex.wo).x.toOption.map
        Array.toList = some [0, 0, -2, 1] :=
  ⟨Ex.wo_ok, by unfold FactUnambiguous Unambiguous; decide +kernel, by norm_num,
   fun d hd => by simpa using hd, by simp,
   regOK_subset Ex.wo_ok [1, 2] (by decide) (by decide), by decide +kernel, by decide +kernel⟩

/-- on that instance the model reports `Q = diag(0, 0, 1, 1)` (all 16 pairs): symmetric, positive
    semi-definite, rows 1 and 2 — the regularised unknowns — vanish, so every `Q y` is
    `{1,2}`-orthogonal to everything, in particular to the kernel vectors `(1,0,1,0)`, `(0,1,0,1)`;
    another symmetric reflexive g-inverse of `N`, e.g. `diag(1, 1, 0, 0)`, does not belong to
    `{1,2}` -/
example : (List.range 4).map (fun i => (List.range 4).map fun j =>
      ((@envCore ℚ (fieldScalar id) (1/2) (1/2) 2 4 Ex.wA Ex.wb Ex.wA Ex.wb (.subset [1, 2]) Ex.wo).qxx (i + 1) (j + 1)).toOption)
    = [[some 0, some 0, some 0, some 0], [some 0, some 0, some 0, some 0],
       [some 0, some 0, some 1, some 0], [some 0, some 0, some 0, some 1]] := by
  decide +kernel

/-- the regular 3 × 2 system with swapped ordering meets the hypotheses in the branch defect = 0
    (`Q = N⁻¹ = (1/3)[[2,−1],[−1,2]]`, positive definite; the kernel is trivial) -/
example : OrdOK 2 Ex.ro ∧ FactUnambiguous (K := ℚ) id (1/2) 3 2 Ex.rA Ex.rb Ex.ro
    ∧ RegOK 2 Ex.ro .all ((Reg.all).toFinset 2)
    ∧ (@envCore ℚ (fieldScalar id) (1/2) (1/2) 3 2 Ex.rA Ex.rb Ex.rA Ex.rb .all Ex.ro).defect = 0
    ∧ (@envCore ℚ (fieldScalar id) (1/2) (1/2) 3 2 Ex.rA Ex.rb Ex.rA Ex.rb .all Ex.ro).x.toOption.map Array.toList
        = some [0, 3]
    ∧ ((@envCore ℚ (fieldScalar id) (1/2) (1/2) 3 2 Ex.rA Ex.rb Ex.rA Ex.rb .all Ex.ro).qxx 1 1).toOption = some (2/3)
    ∧ ((@envCore ℚ (fieldScalar id) (1/2) (1/2) 3 2 Ex.rA Ex.rb Ex.rA Ex.rb .all Ex.ro).qxx 2 1).toOption = some (-1/3) :=
  ⟨Ex.ro_ok, by unfold FactUnambiguous Unambiguous; decide +kernel, regOK_all Ex.ro_ok _ (Or.inl rfl),
   by decide +kernel, by decide +kernel, by decide +kernel, by decide +kernel⟩

/-- `C03_refl_ginv_psd` is not vacuous: `N = diag(1, 0)`, `Q = N` -/
example : (∀ d : Fin 2 → ℚ, 0 ≤ d ⬝ᵥ (Matrix.diagonal ![1, 0] : Matrix (Fin 2) (Fin 2) ℚ) *ᵥ d)
    ∧ (Matrix.diagonal ![1, 0] : Matrix (Fin 2) (Fin 2) ℚ)ᵀ = Matrix.diagonal ![1, 0]
    ∧ (Matrix.diagonal ![1, 0] : Matrix (Fin 2) (Fin 2) ℚ) * Matrix.diagonal ![1, 0] * Matrix.diagonal ![1, 0]
        = Matrix.diagonal ![1, 0] := by
  refine ⟨fun d => ?_, Matrix.diagonal_transpose _, ?_⟩
  · simp only [mulVec_diagonal, dotProduct, Fin.sum_univ_two]
    simp only [Matrix.cons_val_zero, Matrix.cons_val_one]
    nlinarith [mul_self_nonneg (d 0)]
  · rw [Matrix.diagonal_mul_diagonal, Matrix.diagonal_mul_diagonal]
    congr 1; funext i; fin_cases i <;> simp

end Gama.Props.C03
