/-
  C03 row 11 — `C03_net_xml_cov` on an evaluated `projectEquations` output over ℝ (audit #4, remaining gap 2):
  `projectEquations netWobs = .ok (npO, uO)` (`Lemmas/PeWitnessReal.lean`), `netSolve alg npO = .ok a` for envelope,
  cholesky and gso, `m_0()` a priori `= 2`, a covariance site of the regenerated table, any `--cov-band ≥ −1`: the theorem
  applied — the streamed numbers are `m0²·qxx(ind[i], ind[j])`, written on the band and read back.
-/
import Gama.Lemmas.PeWitnessReal
import Gama.Props.C03.XmlCov
namespace Gama.Props.C03
open Gama Gama.Lin Gama.PE Gama.Ls Gama.Ls.Net Gama.LS Gama.CovBand Gama.XmlCovNet Gama.C06NZ Gama.C06NZ.Ex Matrix

set_option linter.unusedVariables false

section witness
attribute [local instance] sqrtFnOfSqrtField
attribute [local instance 2000] scalarOfField
attribute [local instance 3000] fieldTrig

/-- **`C03_net_xml_cov` applied** -/
theorem C03_net_xml_cov_pe_witness (alg : Alg) (halg : alg ≠ .svd) (band : Int) (hb : -1 ≤ band) (inv : Nat → ℝ) :
    projectEquations netWobs = .ok (npO, uO) ∧
    ∃ (a : NetAnswer ℝ) (g : FormatExpr.Group) (e : FormatExpr.Entry),
      netSolve alg npO = .ok a ∧ a.m0 npO .apriori = .ok 2 ∧ XmlCovSite.IsCovXml g e ∧
      let ind := indList (xmlPtsOf uO) (orisOf uO)
      let dim := ind.length
      let cov : Nat → Nat → ℝ := fun i j =>
        FormatExpr.eval inv (covEnv (okOr0 (a.m0 npO .apriori)) a ind i j) e.expr
      (∀ i j q, a.qxx (ind.getD (i - 1) 0) (ind.getD (j - 1) 0) = .ok q → cov i j = 2 * 2 * q) ∧
      (write cov dim band).flt = emitFlt cov dim (clip band dim) ∧
      (∃ C : CovMat ℝ, read (write cov dim band) = .ok C ∧ C.dim = dim ∧ C.band = clip band dim ∧
        ∀ i j, 1 ≤ i → i ≤ dim → 1 ≤ j → j ≤ dim → get C i j = bandOf cov (clip band dim) i j) ∧
      originalIndex (xmlPtsOf uO) (orisOf uO) = ind := by
  refine ⟨peO, ?_⟩
  obtain ⟨a, ha⟩ := npG_answers [1] (Or.inl rfl) alg halg
  have h := Props.C12.C03_xml_cov_site.2
  simp only [XmlCovSite.covSiteExists, List.any_eq_true, Bool.and_eq_true, beq_iff_eq] at h
  obtain ⟨g, hg, hq, e, he, hbb⟩ := h
  have hm : a.m0 npO .apriori = .ok 2 := rfl
  exact ⟨a, g, e, ha, hm, ⟨hg, hq, he, hbb⟩,
    C03_net_xml_cov realTrig netWobs npO uO peO alg a ha .apriori 2 hm band hb g e ⟨hg, hq, he, hbb⟩ inv⟩

/-- the rows of the XML matrix on this network: the two adjusted heights, `B.z ↦ 1`, `C.z ↦ 2` -/
example : indList (xmlPtsOf uO) (orisOf uO) = [1, 2] := by decide

end witness

end Gama.Props.C03
