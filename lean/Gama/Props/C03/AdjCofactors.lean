/-
  C03 for the façade gama-g3 uses, class `Adj` (model `Gama/Model/Ls/Adj.lean`, `adjSolve alg p`), composed
  with the solver theorems — all four algorithms, ONE statement about the ORIGINAL system `(A, P, S)`,
  `p.C · P = 1`:

    * `Adj::q_xx(i,j)` delegates to the solver object.  `Q` (all `a.qxx(i,j)`) is symmetric, positive
      semi-definite, `N Q N = N`, `Q N Q = Q` for `N = AᵀPA`, belongs to `S`, and is `N⁻¹` when the defect
      is 0  (clauses 1–6);
    * `Adj::q_bb(i,j) = Σ a_j,jn (Σ a_i,in · q0_xx(in,jn))` over the ORIGINAL sparse rows: all `a.qbb(i,j)`
      are the entries of `A Q Aᵀ` — cofactors of the adjusted observations in ORIGINAL units (symmetric).
      For gso / svd / cholesky the solver's `q0_xx` is its `q_xx`; the envelope's `q0_xx` reports ANOTHER
      generalised inverse `Q0` of `N`, and `A Q0 Aᵀ = A Q Aᵀ` (`aqat_invariant`)  (clause 7);
    * with `W` the whitening of the homogenisation (`WᵀW = P`, injective; `Adj::choldec` +
      `forwardSubstitution` for the full solvers, `Homogenization::run` for the envelope),
      `Π = W (A Q Aᵀ) Wᵀ = (WA) Q (WA)ᵀ` is a symmetric projector with diagonal in `[0,1]` and
      `Σ(1 − Π_ii) = m − n + defect`  (clauses 8–9);
    * `defect + rank A = n`.
  Hypotheses: those of the `C01_adj_*` theorems (`AdjM.SolverHyp alg p` = the per-algorithm premise "rank
  numerically unambiguous" asked of the system the solver object is given — `Adj` passes `regOf p.reg`;
  static: block dimensions, `RowsOK`, `p.C · P = 1`).  Positive definiteness of the covariance blocks is not
  assumed (an accepted block suffices).
  Proofs: `Lemmas/Ls/NetFacadeAdjCof.lean` (per solver `cofFacts_*` of `Lemmas/Ls/NetFacadeCof.lean`; transport
  through `W`: `CofFacts.whiten`; `q_bb`: `adj_qbb_spec`).
-/
import Gama.Lemmas.Ls.NetFacadeAdjCof
import Mathlib.Analysis.Real.Sqrt
namespace Gama.Props.C03
open Gama Gama.Ls Gama.LS Gama.Ls.AdjM Matrix

set_option linter.unusedSectionVars false

section sqrtFn
variable {K : Type} [Field K] [LinearOrder K] [IsStrictOrderedRing K] [SqrtFn K]
attribute [local instance 2000] scalarOfField

/-- **C03 through `Adj` + cholesky** (any defect; hypotheses of `C01_adj_cholesky`) -/
theorem C03_adj_cofactors_cholesky (p : Problem K) (hsq : SqrtExactP p)
    (hdim : (dimsOf p).sum = p.m) (hrows : RowsOK p)
    (P : Matrix (Fin p.m) (Fin p.m) K) (hP : p.C * P = 1)
    (hchol : ∀ Ad bd, homogenise p = .ok (Ad, bd) →
      Chol.UnambiguousF (cholFact (dotProblem p Ad bd (regOf p.reg))) ∧
      Chol.GsSqrtExact (dotProblem p Ad bd (regOf p.reg)) ∧
      ∀ S, Chol.regList p.n (regOf p.reg) = some S → S.Nodup)
    (a : Answer K) (h : adjSolve .chol p = .ok a) :
    ∃ (W : Matrix (Fin p.m) (Fin p.m) K) (Q : Matrix (Fin p.n) (Fin p.n) K),
      -- W: the whitening of the homogenisation
      Wᵀ * W = P ∧ (∀ d, W *ᵥ d = 0 → d = 0) ∧
      -- what `q_xx(i,j)` returns, all index pairs
      (∀ i j : Fin p.n, a.qxx (i.val + 1) (j.val + 1) = .ok (Q i j)) ∧
      -- Q: symmetric PSD reflexive g-inverse of N = AᵀPA of the ORIGINAL system, belonging to S
      Qᵀ = Q ∧ (∀ y, 0 ≤ y ⬝ᵥ Q *ᵥ y) ∧
      (p.Aᵀ * P * p.A) * Q * (p.Aᵀ * P * p.A) = p.Aᵀ * P * p.A ∧
      Q * (p.Aᵀ * P * p.A) * Q = Q ∧
      BelongsTo p.A p.S Q ∧
      (a.defect = 0 → Q = (p.Aᵀ * P * p.A)⁻¹) ∧
      -- what `q_bb(i,j)` returns, all index pairs: A Q Aᵀ with the ORIGINAL A
      (∀ i j : Fin p.m, a.qbb (i.val + 1) (j.val + 1) = .ok ((p.A * Q * p.Aᵀ) i j)) ∧
      (p.A * Q * p.Aᵀ)ᵀ = p.A * Q * p.Aᵀ ∧
      -- whitened, it is the hat matrix: a symmetric projector
      (W * (p.A * Q * p.Aᵀ) * Wᵀ)ᵀ = W * (p.A * Q * p.Aᵀ) * Wᵀ ∧
      (W * (p.A * Q * p.Aᵀ) * Wᵀ) * (W * (p.A * Q * p.Aᵀ) * Wᵀ) = W * (p.A * Q * p.Aᵀ) * Wᵀ ∧
      (∀ i, 0 ≤ (W * (p.A * Q * p.Aᵀ) * Wᵀ) i i ∧ (W * (p.A * Q * p.Aᵀ) * Wᵀ) i i ≤ 1) ∧
      ∑ i, (1 - (W * (p.A * Q * p.Aᵀ) * Wᵀ) i i) = (p.m : K) - p.n + a.defect ∧
      a.defect + p.A.rank = p.n :=
  (adj_cofFacts_chol p hsq hdim hrows P hP hchol a h).spell

/-- **C03 through `Adj` + envelope** (sparse branch; hypotheses of `C01_adj_envelope`): `q_bb` is computed
    from the envelope's `q0_xx` — another g-inverse than the `Q` of `q_xx` — and is `A Q Aᵀ` all the same -/
theorem C03_adj_cofactors_envelope (hsq : IsSqrt (SqrtFn.sq : K → K)) (p : Problem K) (hrows : RowsOK p)
    (hin : Env.InputOK { p with reg := regOf p.reg }) (hreg : Env.RegListOK { p with reg := regOf p.reg })
    (hU : Env.SolveUnambiguous { p with reg := regOf p.reg })
    (P : Matrix (Fin p.m) (Fin p.m) K) (hP : p.C * P = 1)
    (a : Answer K) (h : adjSolve .env p = .ok a) :
    ∃ (W : Matrix (Fin p.m) (Fin p.m) K) (Q : Matrix (Fin p.n) (Fin p.n) K),
      -- W: the whitening of the homogenisation
      Wᵀ * W = P ∧ (∀ d, W *ᵥ d = 0 → d = 0) ∧
      -- what `q_xx(i,j)` returns, all index pairs
      (∀ i j : Fin p.n, a.qxx (i.val + 1) (j.val + 1) = .ok (Q i j)) ∧
      -- Q: symmetric PSD reflexive g-inverse of N = AᵀPA of the ORIGINAL system, belonging to S
      Qᵀ = Q ∧ (∀ y, 0 ≤ y ⬝ᵥ Q *ᵥ y) ∧
      (p.Aᵀ * P * p.A) * Q * (p.Aᵀ * P * p.A) = p.Aᵀ * P * p.A ∧
      Q * (p.Aᵀ * P * p.A) * Q = Q ∧
      BelongsTo p.A p.S Q ∧
      (a.defect = 0 → Q = (p.Aᵀ * P * p.A)⁻¹) ∧
      -- what `q_bb(i,j)` returns, all index pairs: A Q Aᵀ with the ORIGINAL A
      (∀ i j : Fin p.m, a.qbb (i.val + 1) (j.val + 1) = .ok ((p.A * Q * p.Aᵀ) i j)) ∧
      (p.A * Q * p.Aᵀ)ᵀ = p.A * Q * p.Aᵀ ∧
      -- whitened, it is the hat matrix: a symmetric projector
      (W * (p.A * Q * p.Aᵀ) * Wᵀ)ᵀ = W * (p.A * Q * p.Aᵀ) * Wᵀ ∧
      (W * (p.A * Q * p.Aᵀ) * Wᵀ) * (W * (p.A * Q * p.Aᵀ) * Wᵀ) = W * (p.A * Q * p.Aᵀ) * Wᵀ ∧
      (∀ i, 0 ≤ (W * (p.A * Q * p.Aᵀ) * Wᵀ) i i ∧ (W * (p.A * Q * p.Aᵀ) * Wᵀ) i i ≤ 1) ∧
      ∑ i, (1 - (W * (p.A * Q * p.Aᵀ) * Wᵀ) i i) = (p.m : K) - p.n + a.defect ∧
      a.defect + p.A.rank = p.n :=
  (adj_cofFacts_env hsq p hrows hin hreg hU P hP a h).spell

end sqrtFn

section sqrtField
variable {K : Type} [Field K] [LinearOrder K] [IsStrictOrderedRing K] [Gso.SqrtField K]
attribute [local instance] sqrtFnOfSqrtField
attribute [local instance 2000] scalarOfField

/-- **C03 through `Adj`, all four algorithms** (`alg` = the algorithm `Adj` is configured with) -/
theorem C03_adj_cofactors (alg : Alg) (p : Problem K) (hdim : (dimsOf p).sum = p.m) (hrows : RowsOK p)
    (P : Matrix (Fin p.m) (Fin p.m) K) (hP : p.C * P = 1)
    (hyp : AdjM.SolverHyp alg p) (a : Answer K) (h : adjSolve alg p = .ok a) :
    ∃ (W : Matrix (Fin p.m) (Fin p.m) K) (Q : Matrix (Fin p.n) (Fin p.n) K),
      -- W: the whitening of the homogenisation
      Wᵀ * W = P ∧ (∀ d, W *ᵥ d = 0 → d = 0) ∧
      -- what `q_xx(i,j)` returns, all index pairs
      (∀ i j : Fin p.n, a.qxx (i.val + 1) (j.val + 1) = .ok (Q i j)) ∧
      -- Q: symmetric PSD reflexive g-inverse of N = AᵀPA of the ORIGINAL system, belonging to S
      Qᵀ = Q ∧ (∀ y, 0 ≤ y ⬝ᵥ Q *ᵥ y) ∧
      (p.Aᵀ * P * p.A) * Q * (p.Aᵀ * P * p.A) = p.Aᵀ * P * p.A ∧
      Q * (p.Aᵀ * P * p.A) * Q = Q ∧
      BelongsTo p.A p.S Q ∧
      (a.defect = 0 → Q = (p.Aᵀ * P * p.A)⁻¹) ∧
      -- what `q_bb(i,j)` returns, all index pairs: A Q Aᵀ with the ORIGINAL A
      (∀ i j : Fin p.m, a.qbb (i.val + 1) (j.val + 1) = .ok ((p.A * Q * p.Aᵀ) i j)) ∧
      (p.A * Q * p.Aᵀ)ᵀ = p.A * Q * p.Aᵀ ∧
      -- whitened, it is the hat matrix: a symmetric projector
      (W * (p.A * Q * p.Aᵀ) * Wᵀ)ᵀ = W * (p.A * Q * p.Aᵀ) * Wᵀ ∧
      (W * (p.A * Q * p.Aᵀ) * Wᵀ) * (W * (p.A * Q * p.Aᵀ) * Wᵀ) = W * (p.A * Q * p.Aᵀ) * Wᵀ ∧
      (∀ i, 0 ≤ (W * (p.A * Q * p.Aᵀ) * Wᵀ) i i ∧ (W * (p.A * Q * p.Aᵀ) * Wᵀ) i i ≤ 1) ∧
      ∑ i, (1 - (W * (p.A * Q * p.Aᵀ) * Wᵀ) i i) = (p.m : K) - p.n + a.defect ∧
      a.defect + p.A.rank = p.n :=
  (adj_cofFacts alg p hdim hrows P hP hyp a h).spell

end sqrtField

/-! ### non-vacuity -/

section examplesRat
open Gama.Ls.Ex
attribute [local instance 2000] scalarOfField

/-- `Ex.pCS ℚ` (correlated block `[[4,2],[2,10]]` of band width 1 + one observation of variance 4,
    `A = [[4,4],[5,5],[4,4]]`: defect 1, `S = {1}`) meets EVERY hypothesis of `C03_adj_cofactors_cholesky`
    (`Ex.sqQ` is exact on the pivots 4, 9, 4 of the blocks and on the Gram–Schmidt pivot 1), and the model
    reports (kernel evaluation, all index pairs) `Q = [[0,0],[0,1/9]]` — unknown 1 carries the regularisation,
    `1/9 = 1/(2²+1²+2²)` for the homogenised column `(2,1,2)` — and `q_bb = A Q Aᵀ = (1/9)(4,5,4)ᵀ(4,5,4)`
    in ORIGINAL units (diagonal 16/9, 25/9, 16/9: not a projector; whitened it is) -/
example : SqrtExactP (pCS ℚ) ∧ (dimsOf (pCS ℚ)).sum = (pCS ℚ).m ∧ RowsOK (pCS ℚ) ∧ (pCS ℚ).C * PCS ℚ = 1
    ∧ (∀ Ad bd, homogenise (pCS ℚ) = .ok (Ad, bd) →
        Chol.UnambiguousF (cholFact (dotProblem (pCS ℚ) Ad bd (regOf (pCS ℚ).reg))) ∧
        Chol.GsSqrtExact (dotProblem (pCS ℚ) Ad bd (regOf (pCS ℚ).reg)) ∧
        ∀ S, Chol.regList (pCS ℚ).n (regOf (pCS ℚ).reg) = some S → S.Nodup)
    ∧ ∃ a, adjSolve .chol (pCS ℚ) = .ok a ∧ a.defect = 1 ∧ adjCofTable a = adjCofTableQ := by
  obtain ⟨a, h, hd, -, -, -, ht⟩ := pCSQ_adj_chol_cof
  exact ⟨pCSQ_sqrt, by decide, pCSQ_rows, pCSQ_weight, pCSQ_hchol, a, h, hd, ht⟩

/-- the theorem applied to the instance: the answer of `Adj` + cholesky on `Ex.pCS ℚ` has a matrix `Q` of all
    `q_xx` that is a symmetric reflexive g-inverse of `AᵀPA` (`P = Ex.PCS ℚ`, correlated) belonging to `S`,
    `q_bb` reports `A Q Aᵀ`, and `defect + rank A = n` -/
example : ∃ a, adjSolve .chol (pCS ℚ) = .ok a ∧
    ∃ Q : Matrix (Fin (pCS ℚ).n) (Fin (pCS ℚ).n) ℚ,
      (∀ i j : Fin (pCS ℚ).n, a.qxx (i.val + 1) (j.val + 1) = .ok (Q i j)) ∧ Qᵀ = Q ∧
      ((pCS ℚ).Aᵀ * PCS ℚ * (pCS ℚ).A) * Q * ((pCS ℚ).Aᵀ * PCS ℚ * (pCS ℚ).A) = (pCS ℚ).Aᵀ * PCS ℚ * (pCS ℚ).A ∧
      Q * ((pCS ℚ).Aᵀ * PCS ℚ * (pCS ℚ).A) * Q = Q ∧ BelongsTo (pCS ℚ).A (pCS ℚ).S Q ∧
      (∀ i j : Fin (pCS ℚ).m, a.qbb (i.val + 1) (j.val + 1) = .ok (((pCS ℚ).A * Q * (pCS ℚ).Aᵀ) i j)) ∧
      a.defect + (pCS ℚ).A.rank = (pCS ℚ).n := by
  obtain ⟨a, h, -⟩ := pCSQ_adj_chol_cof
  obtain ⟨W, Q, -, -, c1, c2, -, c3, c4, c5, -, c6, -, -, -, -, -, c7⟩ :=
    C03_adj_cofactors_cholesky (pCS ℚ) pCSQ_sqrt (by decide) pCSQ_rows (PCS ℚ) pCSQ_weight pCSQ_hchol a h
  exact ⟨a, h, Q, c1, c2, c3, c4, c5, c6, c7⟩

/-- the SAME problem through the sparse branch: every hypothesis of `C03_adj_cofactors_envelope` except the
    global square-root law (ℚ has none; `Ex.sqQ` exact on the roots taken), and the SAME cofactors for all
    index pairs — although the envelope object's `q0_xx`, from which `Adj::q_bb` is computed, is the
    DIFFERENT g-inverse `[[1/9,0],[0,0]]` (kernel evaluation) -/
example : RowsOK (pCS ℚ) ∧ Env.InputOK { pCS ℚ with reg := regOf (pCS ℚ).reg }
    ∧ Env.RegListOK { pCS ℚ with reg := regOf (pCS ℚ).reg }
    ∧ Env.SolveUnambiguous { pCS ℚ with reg := regOf (pCS ℚ).reg } ∧ (pCS ℚ).C * PCS ℚ = 1
    ∧ (∃ a, adjSolve .env (pCS ℚ) = .ok a ∧ a.defect = 1 ∧ adjCofTable a = adjCofTableQ)
    ∧ ∃ s, envSolve { pCS ℚ with reg := regOf (pCS ℚ).reg } = .ok s ∧
        [s.q0xx 1 1, s.q0xx 1 2, s.q0xx 2 1, s.q0xx 2 2].map Except.toOption
          = [some (1/9), some 0, some 0, some 0] ∧
        [s.qxx 1 1, s.qxx 1 2, s.qxx 2 1, s.qxx 2 2].map Except.toOption
          = [some 0, some 0, some 0, some (1/9)] := by
  obtain ⟨a, h, hd, -, -, -, ht⟩ := pCSQ_adj_env_cof
  exact ⟨pCSQ_rows, pCSQ_env_input, pCSQ_env_reg, pCSQ_env_unamb.1, pCSQ_weight, ⟨a, h, hd, ht⟩, pCSQ_env_q0⟩

/-- a second envelope instance, `Ex.pEnvCorr` (`A = [[1,1],[1,1],[2,2]]`, `C = diag([[4,2],[2,10]], 1/4)`,
    `S = {1}`): hypotheses as above, `Q = [[0,0],[0,18/293]]`, `q_bb = A Q Aᵀ = (18/293)(1,1,2)ᵀ(1,1,2)` -/
example : RowsOK pEnvCorr ∧ Env.InputOK { pEnvCorr with reg := regOf pEnvCorr.reg }
    ∧ Env.RegListOK { pEnvCorr with reg := regOf pEnvCorr.reg }
    ∧ Env.SolveUnambiguous { pEnvCorr with reg := regOf pEnvCorr.reg } ∧ pEnvCorr.C * PEnvCorr = 1
    ∧ ∃ a, adjSolve .env pEnvCorr = .ok a ∧ a.defect = 1 ∧ adjCofTable a =
        [some 0, some 0, some 0, some (18/293),
         some (18/293), some (18/293), some (36/293), some (18/293), some (18/293), some (36/293),
         some (36/293), some (36/293), some (72/293)] :=
  ⟨pEnvCorr_input.rows, pEnvCorr_input, pEnvCorr_reg, pEnvCorr_unamb.1, pEnvCorr_weight, pEnvCorr_adj_cof⟩

end examplesRat

section examplesReal
open Gama.Ls.Ex
attribute [local instance] sqrtFnOfSqrtField
attribute [local instance 2000] scalarOfField

/-- non-vacuity of `C03_adj_cofactors` in its own setting (ℝ, `Real.sqrt`, all models on the one instance
    `fieldScalar Real.sqrt`): `Ex.pCS ℝ` with `alg = gso` meets every hypothesis (`AdjM.SolverHyp .gso` is
    `Gso.Unambiguous` of the homogenised system `A_dot = [[2,2],[1,1],[2,2]]`: tested norms 3, 0, 1), `Adj`
    answers with defect 1 (model evaluated over ℝ in `Lemmas/Ls/ComposeAdjExample.lean`) -/
example : (dimsOf (pCS ℝ)).sum = (pCS ℝ).m ∧ RowsOK (pCS ℝ) ∧ (pCS ℝ).C * PCS ℝ = 1
    ∧ AdjM.SolverHyp .gso (pCS ℝ) ∧ ∃ a, adjSolve .gso (pCS ℝ) = .ok a ∧ a.defect = 1 := by
  obtain ⟨a, h, -, hd⟩ := pCS_adj_gso
  exact ⟨by decide, pCS_rows, pCS_weight, pCS_solverHyp_gso, a, h, hd⟩

/-- the theorem applied to that instance (the whole conclusion is available; restated: `Q` symmetric
    g-inverse of `AᵀPA` belonging to `S`, `q_bb = A Q Aᵀ`, its whitening idempotent, `defect + rank A = n`) -/
example : ∃ a, adjSolve .gso (pCS ℝ) = .ok a ∧
    ∃ (W : Matrix (Fin (pCS ℝ).m) (Fin (pCS ℝ).m) ℝ) (Q : Matrix (Fin (pCS ℝ).n) (Fin (pCS ℝ).n) ℝ),
      Wᵀ * W = PCS ℝ ∧
      (∀ i j : Fin (pCS ℝ).n, a.qxx (i.val + 1) (j.val + 1) = .ok (Q i j)) ∧ Qᵀ = Q ∧
      ((pCS ℝ).Aᵀ * PCS ℝ * (pCS ℝ).A) * Q * ((pCS ℝ).Aᵀ * PCS ℝ * (pCS ℝ).A) = (pCS ℝ).Aᵀ * PCS ℝ * (pCS ℝ).A ∧
      BelongsTo (pCS ℝ).A (pCS ℝ).S Q ∧
      (∀ i j : Fin (pCS ℝ).m, a.qbb (i.val + 1) (j.val + 1) = .ok (((pCS ℝ).A * Q * (pCS ℝ).Aᵀ) i j)) ∧
      (W * ((pCS ℝ).A * Q * (pCS ℝ).Aᵀ) * Wᵀ) * (W * ((pCS ℝ).A * Q * (pCS ℝ).Aᵀ) * Wᵀ)
        = W * ((pCS ℝ).A * Q * (pCS ℝ).Aᵀ) * Wᵀ ∧
      a.defect + (pCS ℝ).A.rank = (pCS ℝ).n := by
  obtain ⟨a, h, -⟩ := pCS_adj_gso
  obtain ⟨W, Q, c0, -, c1, c2, -, c3, -, c5, -, c6, -, -, c8, -, -, c9⟩ :=
    C03_adj_cofactors .gso (pCS ℝ) (by decide) pCS_rows (PCS ℝ) pCS_weight pCS_solverHyp_gso a h
  exact ⟨a, h, W, Q, c0, c1, c2, c3, c5, c6, c8, c9⟩

/-- the square-root law of `C03_adj_cofactors_envelope` is satisfiable -/
example : IsSqrt Real.sqrt := ⟨fun _ h => Real.mul_self_sqrt h, fun x _ => Real.sqrt_nonneg x⟩

end examplesReal

end Gama.Props.C03
