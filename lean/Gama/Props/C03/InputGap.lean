/-
  C03 — the cofactor statements through `LocalNetwork` and `Adj` with ONE input-side solver hypothesis (round 8):
  `InputGap alg A P S τ` (`Lemmas/Ls/InputGap.lean`: `GapThresholds ∧ RankGap` for envelope/cholesky/gso,
  `W_tol ≤ τ ∧ SingGap` for svd) instead of the per-algorithm trace premise `Net.SolverHyp` / `AdjM.SolverHyp`.
  Conclusions are those of `C03_net_cofactors` / `C03_adj_cofactors`, word for word.
-/
import Gama.Props.C03.Net
import Gama.Props.C03.AdjCofactors
import Gama.Props.C03.NetWitness
import Gama.Props.C01.InputGap
namespace Gama.Props.C03
open Gama Gama.Ls Gama.Ls.Net Gama.LS Gama.Ls.AdjM Matrix

set_option linter.unusedSectionVars false
set_option linter.unusedVariables false

section sqrtField
variable {K : Type} [Field K] [LinearOrder K] [IsStrictOrderedRing K] [Gso.SqrtField K]
attribute [local instance] sqrtFnOfSqrtField
attribute [local instance 2000] scalarOfField

/-- **C03 through `LocalNetwork`, all four algorithms, input-side hypothesis only** -/
theorem C03_net_cofactors_gap (alg : Alg) (np : NetProblem K)
    (hdim : (dimsN np).sum = np.m) (hrows : RowsOK (toProblem np)) (hm0 : np.m0 ≠ 0)
    (Pc : Matrix (Fin (toProblem np).m) (Fin (toProblem np).m) K) (hPc : Sigma np * Pc = 1)
    (hreg : Env.RegListOK (toProblem np)) {τ : K}
    (hg : InputGap alg (toProblem np).A ((np.m0 * np.m0) • Pc) (toProblem np).S τ)
    (a : NetAnswer K) (h : netSolve alg np = .ok a) :
    ∃ (W : Matrix (Fin (toProblem np).m) (Fin (toProblem np).m) K)
      (Q : Matrix (Fin (toProblem np).n) (Fin (toProblem np).n) K)
      (B : Matrix (Fin (toProblem np).m) (Fin (toProblem np).m) K),
      -- W: the whitening of `prepareProjectEquations()` (`C01_net_prepare`); `a.Ad`, `a.bd` the homogenised system
      Wᵀ * W = (np.m0 * np.m0) • Pc ∧ (∀ d, W *ᵥ d = 0 → d = 0) ∧
      toMatrix (toProblem np).m (toProblem np).n a.Ad = W * (toProblem np).A ∧
      toVec (toProblem np).m a.bd = W *ᵥ (toProblem np).b ∧
      -- what `qxx(i,j)`, `qbb(i,j)` return, all index pairs
      (∀ i j : Fin (toProblem np).n, a.qxx (i.val + 1) (j.val + 1) = .ok (Q i j)) ∧
      (∀ i j : Fin (toProblem np).m, a.qbb (i.val + 1) (j.val + 1) = .ok (B i j)) ∧
      -- Q: symmetric PSD reflexive g-inverse of N = AᵀPA of the ORIGINAL system, belonging to S = min_x_
      Qᵀ = Q ∧ (∀ y, 0 ≤ y ⬝ᵥ Q *ᵥ y) ∧
      ((toProblem np).Aᵀ * ((np.m0 * np.m0) • Pc) * (toProblem np).A) * Q
          * ((toProblem np).Aᵀ * ((np.m0 * np.m0) • Pc) * (toProblem np).A)
        = (toProblem np).Aᵀ * ((np.m0 * np.m0) • Pc) * (toProblem np).A ∧
      Q * ((toProblem np).Aᵀ * ((np.m0 * np.m0) • Pc) * (toProblem np).A) * Q = Q ∧
      BelongsTo (toProblem np).A (toProblem np).S Q ∧
      (a.defect = 0 → Q = ((toProblem np).Aᵀ * ((np.m0 * np.m0) • Pc) * (toProblem np).A)⁻¹) ∧
      -- B: the hat matrix of the HOMOGENISED system, a symmetric projector
      B = toMatrix (toProblem np).m (toProblem np).n a.Ad * Q * (toMatrix (toProblem np).m (toProblem np).n a.Ad)ᵀ ∧
      Bᵀ = B ∧ B * B = B ∧ (∀ i, 0 ≤ B i i ∧ B i i ≤ 1) ∧
      ∑ i, (1 - B i i) = ((toProblem np).m : K) - (toProblem np).n + a.defect ∧
      a.defect + (toProblem np).A.rank = (toProblem np).n :=
  C03_net_cofactors alg np hdim hrows hm0 Pc hPc
    (Props.C01.C01_net_solverhyp_of_inputgap np hdim hrows hm0 Pc hPc hreg alg hg) a h

/-- **C03 through `Adj`, all four algorithms, input-side hypothesis only** -/
theorem C03_adj_cofactors_gap (alg : Alg) (p : Problem K) (hin : Env.InputOK p) (hreg : Env.RegListOK p)
    (P : Matrix (Fin p.m) (Fin p.m) K) (hP : p.C * P = 1) {τ : K}
    (hg : InputGap alg p.A P p.S τ) (a : Answer K) (h : adjSolve alg p = .ok a) :
    ∃ (W : Matrix (Fin p.m) (Fin p.m) K) (Q : Matrix (Fin p.n) (Fin p.n) K),
      -- W: the whitening of the homogenisation
      Wᵀ * W = P ∧ (∀ d, W *ᵥ d = 0 → d = 0) ∧
      -- what `q_xx(i,j)` returns, all index pairs
      (∀ i j : Fin p.n, a.qxx (i.val + 1) (j.val + 1) = .ok (Q i j)) ∧
      -- Q: symmetric PSD reflexive g-inverse of N = AᵀPA of the ORIGINAL system, belonging to S
      Qᵀ = Q ∧ (∀ y, 0 ≤ y ⬝ᵥ Q *ᵥ y) ∧
      (p.Aᵀ * P * p.A) * Q * (p.Aᵀ * P * p.A) = p.Aᵀ * P * p.A ∧
      Q * (p.Aᵀ * P * p.A) * Q = Q ∧
      BelongsTo p.A p.S Q ∧
      (a.defect = 0 → Q = (p.Aᵀ * P * p.A)⁻¹) ∧
      -- what `q_bb(i,j)` returns, all index pairs: A Q Aᵀ with the ORIGINAL A
      (∀ i j : Fin p.m, a.qbb (i.val + 1) (j.val + 1) = .ok ((p.A * Q * p.Aᵀ) i j)) ∧
      (p.A * Q * p.Aᵀ)ᵀ = p.A * Q * p.Aᵀ ∧
      -- whitened, it is the hat matrix: a symmetric projector
      (W * (p.A * Q * p.Aᵀ) * Wᵀ)ᵀ = W * (p.A * Q * p.Aᵀ) * Wᵀ ∧
      (W * (p.A * Q * p.Aᵀ) * Wᵀ) * (W * (p.A * Q * p.Aᵀ) * Wᵀ) = W * (p.A * Q * p.Aᵀ) * Wᵀ ∧
      (∀ i, 0 ≤ (W * (p.A * Q * p.Aᵀ) * Wᵀ) i i ∧ (W * (p.A * Q * p.Aᵀ) * Wᵀ) i i ≤ 1) ∧
      ∑ i, (1 - (W * (p.A * Q * p.Aᵀ) * Wᵀ) i i) = (p.m : K) - p.n + a.defect ∧
      a.defect + p.A.rank = p.n :=
  C03_adj_cofactors alg p hin.dims hin.rows P hP
    (Props.C01.C01_adj_solverhyp_of_inputgap p hin hreg P hP alg hg) a h

end sqrtField

/-! ### non-vacuity -/

section examples
open Gama.Ls.Ex
attribute [local instance] sqrtFnOfSqrtField
attribute [local instance 2000] scalarOfField

/-- `C03_net_cofactors_gap` APPLIED over ℝ to `Ex.npR` (envelope, cholesky, gso; `RankGap` at `τ = ½` proved) and to
    `Ex.npV` (svd; `SingGap` at `W_tol` proved): the model answers and the rank statement follows -/
example (alg : Alg) (halg : alg ≠ .svd) : ∃ a, netSolve alg npR = .ok a ∧
    a.defect + (toProblem npR).A.rank = (toProblem npR).n := by
  obtain ⟨a, ha, -⟩ := Props.C01.C01_net_answers_witness alg halg
  obtain ⟨W, Q, B, -, -, -, -, -, -, -, -, -, -, -, -, -, -, -, -, -, hr⟩ :=
    C03_net_cofactors_gap alg npR (npW_dims 2 [1]) (npW_rows 2 [1]) (by show (2 : ℝ) ≠ 0; norm_num) PcN
      npR_sigma_inv (npW_regListOK 2 [1] (Or.inl rfl)) (Props.C01.C01_net_inputgap_witness alg halg) a ha
  exact ⟨a, ha, hr⟩

example : ∃ a, netSolve .svd npV = .ok a ∧ a.defect + (toProblem npV).A.rank = (toProblem npV).n := by
  obtain ⟨a, ha, -, -⟩ := npV_svd
  obtain ⟨W, Q, B, -, -, -, -, -, -, -, -, -, -, -, -, -, -, -, -, -, hr⟩ :=
    C03_net_cofactors_gap .svd npV npV_dims npV_rows (by show (2 : ℝ) ≠ 0; norm_num) PcV
      npV_sigma_inv Props.C01.npV_regListOK Props.C01.C01_net_inputgap_svd_witness a ha
  exact ⟨a, ha, hr⟩

end examples

end Gama.Props.C03
