/-
  C03 — Reported cofactors are the true (generalised) inverse: svd solver, WITHOUT the factorisation
  certificate.

  `Props/C03/Svd.lean` proves the clauses for the post-decomposition model `svdSolveCert fixed tol d p`
  with the factors `d = (U, W, V)` as a parameter and `SvdCert` (`A = U diag(W) Vᵀ`, `VᵀV = 1`, `UᵀU = 1`
  on the kept columns, singular values unambiguous) as a hypothesis.  For the factors the model of
  `SVD::svd()` returns, the algebraic part of `SvdCert` is a theorem (`Svd.decompose_svdCert`,
  Lemmas/Ls/SvdDecompCert.lean; `Props/C01/SvdDecomp.lean`).  Here both C03 theorems are restated with

      `Svd.decompose p.m p.n p.dense = .ok d`   (the transliterated Golub–Reinsch run returned)
      `Unambiguous sq tol p.n (vget d.W)`       (every returned singular value is exactly 0 or `> tol·max W`)

  in place of the certificate.  What remains outside: that the run returns (convergence of the QR
  iteration within 30 sweeps per singular value) and IEEE rounding.

    C03_svd_decompose             all index pairs of q_xx / q0_xx / q_bb / q_bx: one matrix Q, symmetric, PSD,
                                  reflexive g-inverse of AᵀA, = N⁻¹ for defect 0, belongs to the
                                  regularisation; q_bb = A Q Aᵀ a symmetric projector; q_bx = A Q
    C03_svd_decompose_redundancy  0 ≤ q_bb(i,i) ≤ 1, Σ (1 − q_bb(i,i)) = m − n + defect
    C03_svd_solve_decompose       the same for the solver AS IT RUNS (`svdSolve` = `decompose`, then the
                                  post-decomposition model at the tolerance `Svd.wTol`)
-/
import Gama.Props.C03.Svd
import Gama.Lemmas.Ls.SvdDecompCert
import Gama.Lemmas.Ls.SvdDecompWitness
namespace Gama.Props.C03
open Gama Gama.Ls Gama.Ls.Svd Gama.LS Matrix

set_option linter.unusedSectionVars false

section field
variable {K : Type} [Field K] [LinearOrder K] [IsStrictOrderedRing K] {sq : K → K}

/-- **C03 (svd), certificate-free**: `C03_svd_cert` for the factors `Svd.decompose` returned -/
theorem C03_svd_decompose (hs : SqrtLaw sq) (fixed : Bool) {tol : K} (htol : 0 ≤ tol) (p : Problem K) (d : Dec K)
    (hd : @decompose K (fieldScalar sq) p.m p.n (@Problem.dense K (fieldScalar sq) p) = .ok d)
    (hun : Unambiguous sq tol p.n (@vget K (fieldScalar sq) d.W)) (hreg : RegOK p.reg) (a : Answer K)
    (h : @svdSolveCert K (fieldScalar sq) fixed tol d p = .ok a) :
    ∃ (Q : Matrix (Fin p.n) (Fin p.n) K) (B : Matrix (Fin p.m) (Fin p.m) K) (X : Matrix (Fin p.m) (Fin p.n) K),
      (∀ i j : Fin p.n, a.qxx (i.val + 1) (j.val + 1) = .ok (Q i j)) ∧
      (∀ i j : Fin p.n, a.q0xx (i.val + 1) (j.val + 1) = .ok (Q i j)) ∧
      (∀ i j : Fin p.m, a.qbb (i.val + 1) (j.val + 1) = .ok (B i j)) ∧
      (∀ (i : Fin p.m) (j : Fin p.n), a.qbx (i.val + 1) (j.val + 1) = .ok (X i j)) ∧
      Qᵀ = Q ∧ (∀ y, 0 ≤ y ⬝ᵥ Q *ᵥ y) ∧
      ((@Problem.A K (fieldScalar sq) p)ᵀ * @Problem.A K (fieldScalar sq) p) * Q
          * ((@Problem.A K (fieldScalar sq) p)ᵀ * @Problem.A K (fieldScalar sq) p)
        = (@Problem.A K (fieldScalar sq) p)ᵀ * @Problem.A K (fieldScalar sq) p ∧
      Q * ((@Problem.A K (fieldScalar sq) p)ᵀ * @Problem.A K (fieldScalar sq) p) * Q = Q ∧
      (a.defect = 0 → Q = ((@Problem.A K (fieldScalar sq) p)ᵀ * @Problem.A K (fieldScalar sq) p)⁻¹) ∧
      (∀ y g, @Problem.A K (fieldScalar sq) p *ᵥ g = 0 →
        ∑ i ∈ p.S, (Q *ᵥ y) i * g i = 0) ∧
      B = @Problem.A K (fieldScalar sq) p * Q * (@Problem.A K (fieldScalar sq) p)ᵀ ∧ Bᵀ = B ∧ B * B = B ∧
      X = @Problem.A K (fieldScalar sq) p * Q :=
  C03_svd_cert hs fixed htol p d (decompose_svdCert sq hs.mul_self hs.nonneg tol p.m p.n _ d hd hun) hreg a h

/-- the hat matrix `q_bb`, certificate-free: diagonal in [0, 1], redundancy numbers sum to `m − n + defect` -/
theorem C03_svd_decompose_redundancy (hs : SqrtLaw sq) (fixed : Bool) {tol : K} (htol : 0 ≤ tol) (p : Problem K)
    (d : Dec K)
    (hd : @decompose K (fieldScalar sq) p.m p.n (@Problem.dense K (fieldScalar sq) p) = .ok d)
    (hun : Unambiguous sq tol p.n (@vget K (fieldScalar sq) d.W)) (hreg : RegOK p.reg)
    (a : Answer K) (h : @svdSolveCert K (fieldScalar sq) fixed tol d p = .ok a) :
    ∃ B : Matrix (Fin p.m) (Fin p.m) K,
      (∀ i j : Fin p.m, a.qbb (i.val + 1) (j.val + 1) = .ok (B i j)) ∧
      (∀ i, 0 ≤ B i i ∧ B i i ≤ 1) ∧
      ∑ i, (1 - B i i) = (p.m : K) - (p.n : K) + (a.defect : K) :=
  C03_svd_cert_redundancy hs fixed htol p d
    (decompose_svdCert sq hs.mul_self hs.nonneg tol p.m p.n _ d hd hun) hreg a h

end field

section sqrtField
variable {K : Type} [Field K] [LinearOrder K] [IsStrictOrderedRing K] [Gso.SqrtField K]
attribute [local instance] sqrtFnOfSqrtField
attribute [local instance 2000] scalarOfField

/-- **the svd solver as it runs** (`svdSolve q` = `Svd.decompose`, `set_inv_W`, `min_subset_x`, `solve` at
    the tolerance `Svd.wTol`): whenever it answers, the cofactors it reports for ALL index pairs are the
    entries of one symmetric PSD reflexive g-inverse `Q` of `AᵀA` that belongs to the regularisation,
    `q_bb = A Q Aᵀ`, `q_bx = A Q`, redundancy numbers in [0,1] with sum `m − n + defect` — the only
    hypothesis besides the list being duplicate-free is the unambiguity of the singular values the
    run returned -/
theorem C03_svd_solve_decompose (q : Problem K) (hreg : Svd.RegOK q.reg)
    (hun : ∀ d, Svd.decompose q.m q.n q.dense = .ok d →
      Svd.Unambiguous (Gso.SqrtField.sqrt : K → K) Svd.wTol q.n (Svd.vget d.W))
    (s : Answer K) (hs : svdSolve q = .ok s) :
    ∃ (Q : Matrix (Fin q.n) (Fin q.n) K) (B : Matrix (Fin q.m) (Fin q.m) K),
      (∀ i j : Fin q.n, s.qxx (i.val + 1) (j.val + 1) = .ok (Q i j)) ∧
      (∀ i j : Fin q.n, s.q0xx (i.val + 1) (j.val + 1) = .ok (Q i j)) ∧
      (∀ i j : Fin q.m, s.qbb (i.val + 1) (j.val + 1) = .ok (B i j)) ∧
      Qᵀ = Q ∧ (∀ y, 0 ≤ y ⬝ᵥ Q *ᵥ y) ∧
      (q.Aᵀ * q.A) * Q * (q.Aᵀ * q.A) = q.Aᵀ * q.A ∧ Q * (q.Aᵀ * q.A) * Q = Q ∧
      (s.defect = 0 → Q = (q.Aᵀ * q.A)⁻¹) ∧
      (∀ y g, q.A *ᵥ g = 0 → ∑ i ∈ q.S, (Q *ᵥ y) i * g i = 0) ∧
      B = q.A * Q * q.Aᵀ ∧ Bᵀ = B ∧ B * B = B ∧
      (∀ i, 0 ≤ B i i ∧ B i i ≤ 1) ∧ ∑ i, (1 - B i i) = (q.m : K) - (q.n : K) + (s.defect : K) := by
  have hs' : svdSolveWith true q = .ok s := hs
  unfold svdSolveWith at hs'
  cases hd : Svd.decompose q.m q.n q.dense with
  | error e => rw [hd] at hs'; cases hs'
  | ok d =>
    rw [hd] at hs'
    have hs'' : svdSolveCert true Svd.wTol d q = .ok s := hs'
    obtain ⟨Q, B, X, h1, h2, h3, -, h5, h6, h7, h8, h9, h10, h11, h12, h13, -⟩ :=
      C03_svd_decompose sqrtLaw_of_sqrtField true Svd.wTol_nonneg q d hd (hun d hd) hreg s hs''
    obtain ⟨B', b1, b2, b3⟩ :=
      C03_svd_decompose_redundancy sqrtLaw_of_sqrtField true Svd.wTol_nonneg q d hd (hun d hd) hreg s hs''
    have hBB : B' = B := by
      funext i j
      have := (b1 i j).symm.trans (h3 i j)
      exact Except.ok.inj this
    subst hBB
    exact ⟨Q, B', h1, h2, h3, h5, h6, h7, h8, h9, h10, h11, h12, h13, b2, b3⟩

end sqrtField

/-! ### non-vacuity -/

section examples
open Gama.Ls.Svd.Ex Gama.Ls.Ex
attribute [local instance] sqrtFnOfSqrtField
attribute [local instance 2000] scalarOfField

/-- non-vacuity of `C03_svd_decompose` / `_redundancy` over ℝ (`Real.sqrt`), regular case: on
    `A32 = [[12,12],[5,12],[0,0]]` the transliterated `SVD::svd()` RETURNS the factors `d32`
    (`Lemmas/Ls/SvdDecompExample.lean`: the run evaluated statement by statement), the singular values
    (4, 21) are unambiguous at `tol = 1/1000`, and the post-decomposition model answers `p32` -/
example : SqrtLaw Real.sqrt ∧ (0 : ℝ) ≤ 1 / 1000
    ∧ @decompose ℝ (fieldScalar Real.sqrt) p32.m p32.n (@Problem.dense ℝ (fieldScalar Real.sqrt) p32) = .ok d32
    ∧ Unambiguous Real.sqrt (1 / 1000) p32.n (@vget ℝ (fieldScalar Real.sqrt) d32.W)
    ∧ RegOK p32.reg
    ∧ ∃ a, @svdSolveCert ℝ (fieldScalar Real.sqrt) true (1 / 1000) d32 p32 = .ok a :=
  ⟨sqrtLaw_real, by norm_num, p32_decompose, d32_unamb, trivial, p32_answer⟩

/-- non-vacuity of `C03_svd_solve_decompose` over ℝ, SINGULAR case with a proper regularisation subset:
    `Ex.pCVdot` (`A = [[6,8],[3,4],[6,8]]`, rank 1, S = {1}); the run of `decompose` returns `Ex.dCV`
    (`W = (0, 15)`, one QR sweep + the cancellation loop), the returned singular values are unambiguous
    at the model's own tolerance `Svd.wTol`, and `svdSolve` answers with defect 1 — and the theorem
    applied to that answer -/
example : Svd.RegOK Ex.pCVdot.reg
    ∧ (∀ d, Svd.decompose Ex.pCVdot.m Ex.pCVdot.n Ex.pCVdot.dense = .ok d →
        Svd.Unambiguous (Gso.SqrtField.sqrt : ℝ → ℝ) Svd.wTol Ex.pCVdot.n (Svd.vget d.W))
    ∧ ∃ s, svdSolve Ex.pCVdot = .ok s ∧ s.defect = 1
      ∧ ∃ (Q : Matrix (Fin Ex.pCVdot.n) (Fin Ex.pCVdot.n) ℝ),
          (∀ i j : Fin Ex.pCVdot.n, s.qxx (i.val + 1) (j.val + 1) = .ok (Q i j)) ∧ Qᵀ = Q
          ∧ (Ex.pCVdot.Aᵀ * Ex.pCVdot.A) * Q * (Ex.pCVdot.Aᵀ * Ex.pCVdot.A) = Ex.pCVdot.Aᵀ * Ex.pCVdot.A := by
  obtain ⟨s, hs, -, hd⟩ := Ex.pCVdot_svdSolve
  obtain ⟨Q, B, h1, -, -, h4, -, h6, -⟩ :=
    C03_svd_solve_decompose Ex.pCVdot (List.nodup_singleton 1) Ex.pCVdot_hun s hs
  exact ⟨List.nodup_singleton 1, Ex.pCVdot_hun, s, hs, hd, Q, h1, h4, h6⟩

end examples

end Gama.Props.C03
