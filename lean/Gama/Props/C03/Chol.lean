/-
  C03 — reported cofactors are the true (generalised) inverse: Cholesky solver (`AdjCholDec`,
  model `Gama/Model/Ls/Chol.lean`) and the `q_bb` formula of class `Adj`.

  `N = AᵀA` (unit weights: the solver is handed the homogenised system; through `Adj` this is
  `AᵀPA` of the original problem by `Props/C01/Adj.lean`).  Queries are 1-based as in the C++.
  Regular case (defect 0): `Q = (q_xx(i,j))` for ALL index pairs is symmetric and the inverse of
  `N`, hence `N Q N = N`, `Q N Q = Q`; `q0_xx = q_xx`; `q_bb = A Q Aᵀ`; `q_bx = A Q`.
  Proofs: `Gama/Lemmas/Ls/CholQ0.lean` (the recursion `Z = D⁻¹L⁻¹ + (I − Lᵀ)Z` is the inverse of
  `L D Lᵀ`), `CholCofactor.lean`.
-/
import Gama.Lemmas.Ls.CholCofactor
import Gama.Lemmas.Ls.CholCofSing
import Gama.Lemmas.Ls.CholExample
import Gama.Lemmas.LS.GInverse
namespace Gama.Props.C03
open Gama Gama.Ls Gama.LS Gama.Ls.Chol Matrix

set_option linter.unusedSectionVars false

variable {K : Type} [Field K] [LinearOrder K] [IsStrictOrderedRing K] [SqrtFn K]
attribute [local instance 2000] scalarOfField

/-- **C03 (cholesky, defect 0)**: there is ONE matrix `Q` that all cofactor queries report
    (`q_xx`, `q0_xx` for every index pair, `q_bb = A Q Aᵀ`, `q_bx = A Q`); it is symmetric and the
    inverse of the normal matrix, hence a reflexive generalised inverse -/
theorem C03_cholesky_regular (p : Problem K) (a : Answer K) (h : cholSolve p = .ok a) (hd : a.defect = 0) :
    ∃ Q : Matrix (Fin p.n) (Fin p.n) K,
      Qᵀ = Q ∧ (p.Aᵀ * p.A) * Q = 1 ∧ Q * (p.Aᵀ * p.A) = 1
      ∧ (p.Aᵀ * p.A) * Q * (p.Aᵀ * p.A) = p.Aᵀ * p.A ∧ Q * (p.Aᵀ * p.A) * Q = Q
      ∧ (∀ i j : Fin p.n, a.qxx (i + 1) (j + 1) = .ok (Q i j) ∧ a.q0xx (i + 1) (j + 1) = .ok (Q i j))
      ∧ (∀ i j : Fin p.m, a.qbb (i + 1) (j + 1) = .ok ((p.A * Q * p.Aᵀ) i j))
      ∧ (∀ (i : Fin p.m) (j : Fin p.n), a.qbx (i + 1) (j + 1) = .ok ((p.A * Q) i j)) := by
  unfold cholSolve at h
  cases hs : Chol.solve p with
  | error e => rw [hs] at h; simp [Except.map] at h
  | ok s =>
    rw [hs] at h
    have ha : a = s.answer := (Except.ok.inj h).symm
    subst ha
    have hn : s.nullity = 0 := hd
    obtain ⟨h0, hm, hnn, _⟩ := solve_regular_shape p s hs hn
    obtain ⟨hsym, hQN, hNQ⟩ := chol_regular_Q p s hs hn
    refine ⟨s.Qm p.n, hsym, hNQ, hQN, by rw [hNQ, Matrix.one_mul], by rw [hQN, Matrix.one_mul], ?_, ?_, ?_⟩
    · intro i j
      have hi : s.idx (i.val + 1) = true := by simp [Chol.Solved.idx, hnn]
      have hj : s.idx (j.val + 1) = true := by simp [Chol.Solved.idx, hnn]
      have : (if s.idx (i.val + 1) && s.idx (j.val + 1) then
          Except.ok (s.qxx0 (i.val + 1 - 1) (j.val + 1 - 1)) else Except.error ErrKind.NotModelled)
          = Except.ok (s.Qm p.n i j) := by
        rw [hi, hj]; simp [Chol.Solved.Qm]
      exact ⟨this, this⟩
    · intro i j
      have hi : s.obs (i.val + 1) = true := by simp [Chol.Solved.obs, hm]
      have hj : s.obs (j.val + 1) = true := by simp [Chol.Solved.obs, hm]
      show (if s.obs (i.val + 1) && s.obs (j.val + 1) then
          Except.ok (s.qbb0 (i.val + 1 - 1) (j.val + 1 - 1)) else Except.error ErrKind.NotModelled) = _
      rw [hi, hj]
      simp only [Bool.and_self, if_true, Nat.add_sub_cancel]
      rw [chol_regular_qbb p s hs hn i j]
    · intro i j
      have hi : s.obs (i.val + 1) = true := by simp [Chol.Solved.obs, hm]
      have hj : s.idx (j.val + 1) = true := by simp [Chol.Solved.idx, hnn]
      show (if s.obs (i.val + 1) && s.idx (j.val + 1) then
          Except.ok (s.qbx0 (i.val + 1 - 1) (j.val + 1 - 1)) else Except.error ErrKind.NotModelled) = _
      rw [hi, hj]
      simp only [Bool.and_self, if_true, Nat.add_sub_cancel]
      rw [chol_regular_qbx p s hs hn i j]

/-- **C03 (cholesky, any defect)**: `Q = T Q0 Tᵀ` — what `q_xx` (= `q0_xx`) reports for every index
    pair — is symmetric and a reflexive generalised inverse of `N = AᵀA`: `N Q N = N`, `Q N Q = Q`;
    `q_bb` reports `A Q0 Aᵀ`, which equals `A Q Aᵀ`.  Hypotheses as in `C01_cholesky_singular`
    (rejected pivot exactly 0; `sqrt` exact on the Gram–Schmidt pivots). -/
theorem C03_cholesky (p : Problem K) (hU : UnambiguousF (cholFact p)) (hsq : GsSqrtExact p)
    (a : Answer K) (h : cholSolve p = .ok a) :
    ∃ Q : Matrix (Fin p.n) (Fin p.n) K,
      Qᵀ = Q ∧ (p.Aᵀ * p.A) * Q * (p.Aᵀ * p.A) = p.Aᵀ * p.A ∧ Q * (p.Aᵀ * p.A) * Q = Q
      ∧ (∀ i j : Fin p.n, a.qxx (i + 1) (j + 1) = .ok (Q i j) ∧ a.q0xx (i + 1) (j + 1) = .ok (Q i j))
      ∧ (∀ i j : Fin p.m, a.qbb (i + 1) (j + 1) = .ok ((p.A * Q * p.Aᵀ) i j)) := by
  unfold cholSolve at h
  cases hs : Chol.solve p with
  | error e => rw [hs] at h; simp [Except.map] at h
  | ok s =>
    rw [hs] at h
    have ha : a = s.answer := (Except.ok.inj h).symm
    subst ha
    obtain ⟨hm, hnn, hA, _⟩ := solve_shape p s hs
    obtain ⟨q1, q2, q3, q4⟩ := chol_Q_spec p hU hsq s hs
    refine ⟨s.Qm p.n, q1, q2, q3, ?_, ?_⟩
    · intro i j
      have hi : s.idx (i.val + 1) = true := by simp [Chol.Solved.idx, hnn]
      have hj : s.idx (j.val + 1) = true := by simp [Chol.Solved.idx, hnn]
      have : (if s.idx (i.val + 1) && s.idx (j.val + 1) then
          Except.ok (s.qxx0 (i.val + 1 - 1) (j.val + 1 - 1)) else Except.error ErrKind.NotModelled)
          = Except.ok (s.Qm p.n i j) := by
        rw [hi, hj]; simp [Chol.Solved.Qm]
      exact ⟨this, this⟩
    · intro i j
      have hi : s.obs (i.val + 1) = true := by simp [Chol.Solved.obs, hm]
      have hj : s.obs (j.val + 1) = true := by simp [Chol.Solved.obs, hm]
      show (if s.obs (i.val + 1) && s.obs (j.val + 1) then
          Except.ok (s.qbb0 (i.val + 1 - 1) (j.val + 1 - 1)) else Except.error ErrKind.NotModelled) = _
      rw [hi, hj]
      simp only [Bool.and_self, if_true, Nat.add_sub_cancel]
      rw [← q4, chol_qbb0_eq p s hs i j]

/-- non-vacuity (singular): 4-point levelling loop, all unknowns regularised: the model reports
    `q_xx(1,1) = 5/16`, `q_xx(1,3) = −3/16` = the pseudo-inverse of the loop Laplacian (kernel evaluation) -/
example : ∃ a, cholSolve (Ex.pSing4 .none) = .ok a ∧ a.defect = 1
    ∧ a.qxx 1 1 = .ok (5/16) ∧ a.qxx 1 3 = .ok (-3/16) ∧ a.qxx 3 1 = .ok (-3/16) := by
  have h : (cholSolve (Ex.pSing4 .none)).toOption.map (fun a =>
      (a.defect, [a.qxx 1 1, a.qxx 1 3, a.qxx 3 1].map Except.toOption))
      = some (1, [some (5/16), some (-3/16), some (-3/16)]) := by decide +kernel
  obtain ⟨a, h1, h2⟩ := Ex.ok_of_toOption h
  simp only [Prod.mk.injEq, List.map_cons, List.map_nil, List.cons.injEq, and_true] at h2
  have conv : ∀ (e : Except ErrKind ℚ) (v : ℚ), e.toOption = some v → e = .ok v := by
    intro e v he
    cases e with
    | error _ => simp [Except.toOption] at he
    | ok x => simp [Except.toOption] at he; rw [he]
  exact ⟨a, h1, h2.1, conv _ _ h2.2.1, conv _ _ h2.2.2.1, conv _ _ h2.2.2.2⟩

/-- consequences for the adjusted observations (LS8): `Π = A Q Aᵀ` is a symmetric projector with
    diagonal in `[0,1]` -/
theorem C03_cholesky_regular_projector (p : Problem K) (Q : Matrix (Fin p.n) (Fin p.n) K)
    (hsym : Qᵀ = Q) (hQNQ : Q * (p.Aᵀ * p.A) * Q = Q) :
    (p.A * Q * p.Aᵀ)ᵀ = p.A * Q * p.Aᵀ
      ∧ (p.A * Q * p.Aᵀ) * (p.A * Q * p.Aᵀ) = p.A * Q * p.Aᵀ
      ∧ ∀ i, 0 ≤ (p.A * Q * p.Aᵀ) i i ∧ (p.A * Q * p.Aᵀ) i i ≤ 1 :=
  ⟨hat_symm hsym, hat_idempotent hQNQ, fun i => ⟨hat_diag_nonneg hsym hQNQ i, hat_diag_le_one hsym hQNQ i⟩⟩

/-- non-vacuity: for `A = [[1,0],[1,1],[0,2]]` the model reports `Q = [[5,-1],[-1,2]]/9 = (AᵀA)⁻¹`,
    `q_bb(2,3) = 2/9` (kernel evaluation) -/
example : ∃ a, cholSolve Ex.pReg = .ok a ∧ a.defect = 0
    ∧ a.qxx 1 1 = .ok (5/9) ∧ a.qxx 1 2 = .ok (-1/9) ∧ a.qxx 2 1 = .ok (-1/9) ∧ a.qxx 2 2 = .ok (2/9)
    ∧ a.qbb 2 3 = .ok (2/9) := by
  have h : (cholSolve Ex.pReg).toOption.map (fun a =>
      (a.defect, [a.qxx 1 1, a.qxx 1 2, a.qxx 2 1, a.qxx 2 2, a.qbb 2 3].map Except.toOption))
      = some (0, [some (5/9), some (-1/9), some (-1/9), some (2/9), some (2/9)]) := by decide +kernel
  obtain ⟨a, h1, h2⟩ := Ex.ok_of_toOption h
  simp only [Prod.mk.injEq, List.map_cons, List.map_nil, List.cons.injEq, and_true] at h2
  have conv : ∀ (e : Except ErrKind ℚ) (v : ℚ), e.toOption = some v → e = .ok v := by
    intro e v he
    cases e with
    | error _ => simp [Except.toOption] at he
    | ok x => simp [Except.toOption] at he; rw [he]
  exact ⟨a, h1, h2.1, conv _ _ h2.2.1, conv _ _ h2.2.2.1, conv _ _ h2.2.2.2.1, conv _ _ h2.2.2.2.2.1,
    conv _ _ h2.2.2.2.2.2⟩

end Gama.Props.C03
