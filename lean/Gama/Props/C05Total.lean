/-
  C05 — WHOLE-PASS TOTALITY of the linearisation loop of `LocalNetwork::project_equations()`
  (`Lin.passFrom`, Model/LinPass.lean, over the regenerated member functions of `Gen/Linearization.lean`), over ℝ.

  * A member function fails in exactly two ways: it THROWS (`S_Distance`: slope distance 0 →
    `zeroSlopeDistance`; `Z_Angle`: horizontal or slope distance 0 → `zeroZenithAngle`; for every fuel), or — the
    three classes with the two wrap loops (direction, azimuth, angle) — the model's fuel did not suffice
    (`LinErr.fuel`: "not enough fuel", not a behaviour of the C++).  Enough fuel always exists over ℝ, also INSIDE
    the cut `d < 10⁻⁶` of `bearing_distance` (the `*_terminates` theorems of `Props/C05.lean` carry the hypothesis
    `¬ hdist o < CUT`; it is not needed: `C05_wrap_classes_total`).
  * Every member function, and hence the pass, is monotone in the fuel; so ONE fuel serves a whole list of
    observations and the result does not depend on it.
  * `C05_pass_total_iff`: a pass succeeds (for some fuel) IFF no observation of the list throws — from EVERY
    start state of the index: the state plays no role for success or for the exception raised.
  * `C05_pass_throws_exact`: when some observation throws, for every sufficiently large fuel the pass leaves
    with the exception of the FIRST throwing observation.

  Vocabulary (`Lemmas/LinTotal.lean`): `Throws σ ob`, `ThrowsO k o` — the disjunction written out in
  `C05_pass_total_iff`; `throwKind` — `.z_angle ↦ zeroZenithAngle`, else `zeroSlopeDistance`; `Kind.wraps` —
  direction / azimuth / angle.
-/
import Gama.Lemmas.LinTotal
import Gama.Lemmas.LinTotalExamples
namespace Gama.Props.C05Total
open Gama Gama.Lin Real

/-! ## one observation -/

/-- fuel monotonicity of each of the 13 generated member functions -/
theorem C05_member_fuel_monotone (k : Kind) (fuel fuel' : Nat) (o : Obs ℝ) (out : LinOut ℝ)
    (h : k.lin fuel o = .ok out) (hle : fuel ≤ fuel') : k.lin fuel' o = .ok out :=
  lin_mono k hle o out h

/-- the ten classes without a loop do not read the fuel at all -/
theorem C05_member_fuel_unread (k : Kind) (hk : k.wraps = false) (fuel fuel' : Nat) (o : Obs ℝ) :
    k.lin fuel o = k.lin fuel' o := lin_fuel_indep k hk fuel fuel' o

/-- direction / azimuth / angle return for enough fuel in EVERY regime — no `¬ hdist o < CUT` -/
theorem C05_wrap_classes_total (o : Obs ℝ) :
    (∃ fuel out, Gen.Lin.direction fuel o = .ok out) ∧ (∃ fuel out, Gen.Lin.azimuth fuel o = .ok out) ∧
    (∃ fuel out, Gen.Lin.angle fuel o = .ok out) :=
  ⟨direction_total o, azimuth_total o, angle_total o⟩

/-- a member function returns (for some fuel) iff its input does not throw; a throwing input throws for
    every fuel, with the exception of its class -/
theorem C05_member_total_iff (k : Kind) (o : Obs ℝ) :
    ((∃ fuel out, k.lin fuel o = .ok out) ↔
      ¬ ((k = .s_distance ∧ sdist o = 0) ∨ (k = .z_angle ∧ (hdist o = 0 ∨ sdist o = 0)))) ∧
    (((k = .s_distance ∧ sdist o = 0) ∨ (k = .z_angle ∧ (hdist o = 0 ∨ sdist o = 0))) →
      ∀ fuel, k.lin fuel o = .error (throwKind k)) :=
  ⟨⟨fun ⟨fuel, out, h⟩ => lin_ok_not_throws k fuel o out h, lin_total k o⟩, lin_throws k o⟩

/-- the two failures told apart: the throw (exactly on the throwing inputs, with the class's exception) or "not
    enough fuel" (wrap-loop classes only, non-throwing input, error kind `fuel`) -/
theorem C05_member_error_kinds (k : Kind) (fuel : Nat) (o : Obs ℝ) (e : LinErr) (h : k.lin fuel o = .error e) :
    (ThrowsO k o ∧ e = throwKind k) ∨ (¬ ThrowsO k o ∧ k.wraps = true ∧ e = .fuel) :=
  lin_error k fuel o e h

/-! ## the whole pass -/

/-- more fuel keeps the result of a pass -/
theorem C05_pass_fuel_monotone (σ : Net ℝ) (fuel fuel' : Nat) (obs : List (NObs ℝ)) (s : IdxState) (res : PassOut ℝ)
    (h : passFrom σ fuel obs s = .ok res) (hle : fuel ≤ fuel') : passFrom σ fuel' obs s = .ok res :=
  passFrom_mono σ hle obs s res h

/-- the result of a pass does not depend on the fuel that was enough to produce it -/
theorem C05_pass_result_fuel_independent (σ : Net ℝ) (fuel fuel' : Nat) (obs : List (NObs ℝ)) (s : IdxState)
    (res res' : PassOut ℝ) (h : passFrom σ fuel obs s = .ok res) (h' : passFrom σ fuel' obs s = .ok res') :
    res = res' := by
  have a := passFrom_mono σ (le_max_left fuel fuel') obs s res h
  have b := passFrom_mono σ (le_max_right fuel fuel') obs s res' h'
  rw [a] at b; exact Except.ok.inj b

/-- **whole-pass totality, exact**: from every start state, a pass over `obs` returns for some fuel IFF no
    observation of the list throws (slope distance 0 for `S_Distance`; horizontal or slope distance 0 for
    `Z_Angle`).  No regularity / cut hypothesis. -/
theorem C05_pass_total_iff (σ : Net ℝ) (obs : List (NObs ℝ)) (s : IdxState) :
    (∃ fuel res, passFrom σ fuel obs s = .ok res) ↔
      ∀ ob ∈ obs, ¬ ((ob.kind = .s_distance ∧ sdist (σ.view ob) = 0) ∨
                     (ob.kind = .z_angle ∧ (hdist (σ.view ob) = 0 ∨ sdist (σ.view ob) = 0))) :=
  passFrom_total_iff σ obs s

/-- **the first throwing observation decides**: `obs = pre ++ ob :: post`, nothing in `pre` throws, `ob` throws ⇒
    for every sufficiently large fuel the pass leaves with the exception of `ob`'s class, from every start state -/
theorem C05_pass_throws_exact (σ : Net ℝ) (pre post : List (NObs ℝ)) (ob : NObs ℝ) (s : IdxState)
    (hpre : ∀ p ∈ pre, ¬ Throws σ p) (hob : Throws σ ob) :
    ∃ N, ∀ fuel, N ≤ fuel → passFrom σ fuel (pre ++ ob :: post) s = .error (throwKind ob.kind) :=
  passFrom_throws σ ob post hob pre hpre s

/-- every error of a pass is the exception of its first throwing observation, or `fuel`: then a direction /
    azimuth / angle that does not throw, preceded by no throwing observation, ran out of fuel (and by
    `C05_pass_throws_exact` / `C05_pass_total_iff` a larger fuel gives the final answer) -/
theorem C05_pass_error_kinds (σ : Net ℝ) (fuel : Nat) (obs : List (NObs ℝ)) (s : IdxState) (e : LinErr)
    (h : passFrom σ fuel obs s = .error e) :
    (∃ pre ob post, obs = pre ++ ob :: post ∧ (∀ p ∈ pre, ¬ Throws σ p) ∧ Throws σ ob ∧ e = throwKind ob.kind) ∨
    (e = .fuel ∧ ∃ pre ob post, obs = pre ++ ob :: post ∧ (∀ p ∈ pre, ¬ Throws σ p) ∧ ¬ Throws σ ob ∧
      ob.kind.wraps = true ∧ ob.kind.lin fuel (σ.view ob) = .error .fuel) :=
  passFrom_error σ fuel obs s e h

/-- **the design matrix EXISTS and is the Jacobian**: `C05_design_matrix_is_jacobian` without the hypothesis "the pass
    returned".  From every well-formed index state, for a list none of whose observations throws, there is a fuel
    from which on the pass returns one and the same result, and every row outside the cut of `bearing_distance` is
    the row of derivatives (entry 0 in the column of an unknown none of its roles names). -/
theorem C05_design_matrix_exists_and_is_jacobian (σ : Net ℝ) (obs : List (NObs ℝ)) (s0 : IdxState) (hs0 : s0.WF)
    (hno : ∀ ob ∈ obs, ¬ Throws σ ob) :
    ∃ fuel res, passFrom σ fuel obs s0 = .ok res ∧ (∀ fuel', fuel ≤ fuel' → passFrom σ fuel' obs s0 = .ok res) ∧
      ∀ r ob, obs[r]? = some ob → Regular ob.kind (σ.view ob) →
        (∀ u, σ.isFree u = true → RowDeriv ob.kind σ ob u (codeMatrix res.rows r (res.idx.get u))) ∧
        (∀ u, (∀ rc ∈ ob.kind.roles, ob.name rc.1 rc.2 ≠ u) → codeMatrix res.rows r (res.idx.get u) = 0) := by
  obtain ⟨fuel, res, h⟩ := passFrom_total σ obs hno s0
  exact ⟨fuel, res, h, fun _ hle => passFrom_mono σ hle obs s0 res h,
    fun r ob hr hreg => Lin.design_matrix_is_jacobian σ fuel obs s0 hs0 res h r ob hr hreg⟩

/-! ## non-vacuity -/

-- `C05_design_matrix_exists_and_is_jacobian`: the 13-row list from the cleared state; every row is regular
example : IdxState.init.WF ∧ (∀ ob ∈ all13, ¬ Throws exNet ob) ∧ (∀ ob ∈ all13, Regular ob.kind (exNet.view ob)) ∧
    all13.length = 13 := ⟨IdxState.wf_init, all13_no_throw, all13_regular, rfl⟩


-- a list with all 13 classes that passes (hypothesis of `C05_pass_total_iff` ←, conclusion of →)
example : all13.map (·.kind) = Kind.all ∧ (∀ ob ∈ all13, ¬ Throws exNet ob) ∧
    ∃ fuel res, passFrom exNet fuel all13 IdxState.init = .ok res :=
  ⟨rfl, all13_no_throw, (C05_pass_total_iff exNet all13 IdxState.init).mpr all13_no_throw⟩

-- hence the hypotheses of the monotonicity / independence theorems are met by a 13-row pass
example : ∃ fuel res, passFrom exNet fuel all13 IdxState.init = .ok res ∧
    passFrom exNet (fuel + 1) all13 IdxState.init = .ok res := by
  obtain ⟨fuel, res, h⟩ := (C05_pass_total_iff exNet all13 IdxState.init).mpr all13_no_throw
  exact ⟨fuel, res, h, C05_pass_fuel_monotone _ _ _ _ _ _ h (Nat.le_succ _)⟩

-- a pass that throws: a distance, then a slope distance from a point to itself, then a zenith angle
example : (∀ p ∈ [obD], ¬ Throws exNet p) ∧ Throws exNet obS ∧
    ∃ N, ∀ fuel, N ≤ fuel → passFrom exNet fuel [obD, obS, obZ] IdxState.init = .error .zeroSlopeDistance :=
  ⟨obD_no_throw, obS_throws, C05_pass_throws_exact exNet [obD] [obZ] obS _ obD_no_throw obS_throws⟩

-- a zenith angle along a vertical line throws `zeroZenithAngle` for every fuel (hypothesis of `C05_member_total_iff`, 2nd part)
example : ∀ fuel, Kind.z_angle.lin fuel (exNet.view obZ) = .error .zeroZenithAngle :=
  (C05_member_total_iff .z_angle _).2 (Or.inr ⟨rfl, Or.inl obZ_hdist0⟩)

-- "not enough fuel" exists and is distinct from a throw: a direction whose misclosure needs one wrap, with fuel 0
example : Kind.direction.lin 0 (exNet.view wrapOb) = .error .fuel ∧ ¬ Throws exNet wrapOb ∧
    ∃ out, Kind.direction.lin 1 (exNet.view wrapOb) = .ok out := wrapOb_fuel

end Gama.Props.C05Total
