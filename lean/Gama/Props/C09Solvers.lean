/-
  C09 ∘ (LS layer, C03, C20, C17) — the statistics formulas applied to WHAT THE SOLVER MODELS RETURN.

  `Props/C09.lean` proves every formula of `LocalNetwork` correct as a function of its inputs
  (`q_xx`, `q_bb`, `v'Pv`, defect).  Here the inputs are the answers of the four solver models:

  * `C09_solver_facts_env/_chol/_gso/_svd` — the facts C01/C03/C20 prove about an answer of each solver
    model, collected as `Stats.SolverFacts` at the shared `Scalar ℝ` (hypotheses = those of the C03 theorems);
  * `C09_dof` — the reported degrees of freedom are `m − rank A` = `m − n + dim ker A` (LS10) = the sum of
    the redundancy numbers `Σ (1 − q_bb(i,i))`, and `≥ 0`;
  * `C09_ellipse_of_solver_cofactors` — the 2×2 block (x, y of one point) of the returned cofactor matrix
    is positive semi-definite, hence `std_error_ellipse` IS its eigen-decomposition;
  * `C09_stdev_of_solver_cofactors` — each standard deviation is the ACTUAL reference deviation times the
    square root of the solver's cofactor (`q_xx(i,i)`, `q_bb(i,i)/p`, `1/p − q_bb(i,i)/p`: over ℝ the clamp
    of the residual cofactor never fires on a solver answer);
  * `C09_conf_halfwidth` — half-width = standard deviation × coefficient, Student(dof) for the
    a posteriori, Normal for the a priori reference deviation, at `(1 − conf_pr)/2`, for every
    `conf_pr ∈ (0,1)`; the coefficient functions are C17's models `Statan.normal/student`;
  * `C09_sigma_apr_scaling` — σ_apr ↦ s·σ_apr: from LS9 (`IsLSSolution.scale`, `ginv_scale`) and the
    uniqueness theorems, the second adjustment returns the same x, v, `s²·v'Pv`, `s⁻²·Q`, the same `q_bb`,
    and every reported statistic is unchanged except `v'Pv`, the weights, the cofactors and `m0` (×s).
-/
import Gama.Props.C09
import Gama.Lemmas.StatsSolvers
import Gama.Props.C17
import Gama.Lemmas.Ls.ComposeJointEnvSolveExample
namespace Gama.Props.C09
open Gama Gama.Stats Gama.Ls Gama.LS Matrix Real

/-! ## the solver models' answers (C01 / C03 / C20 at the shared `Scalar ℝ`) -/

/-- envelope as the driver runs it (`envSolve`: homogenisation + RCM + `envCore`), weights `P`, `C·P = 1` -/
theorem C09_solver_facts_env (p : Problem ℝ) (hin : Env.InputOK p) (hreg : Env.RegListOK p)
    (hU : Env.SolveUnambiguous p) (P : Matrix (Fin p.m) (Fin p.m) ℝ) (hP : p.C * P = 1)
    (a : Answer ℝ) (h : envSolve p = .ok a) (hx : a.xErr = none) :
    ∃ W Q B, Wᵀ * W = P ∧ SolverFacts a p.A W p.S Q B :=
  solverFacts_env p hin hreg hU P hP a h hx

section Chol
open Gama.Ls.Chol

/-- cholesky -/
theorem C09_solver_facts_chol (p : Problem ℝ) (hU : UnambiguousF (cholFact p))
    (hsq : GsSqrtExact p) (hnd : ∀ S, regList p.n p.reg = some S → S.Nodup)
    (a : Answer ℝ) (h : cholSolve p = .ok a) : ∃ Q B, SolverFacts a p.A 1 p.S Q B :=
  solverFacts_chol p hU hsq hnd a h

end Chol

section Gso
open Gama.Ls.Gso

/-- Gram–Schmidt -/
theorem C09_solver_facts_gso (p : Problem ℝ) (hU : Unambiguous p) (a : Answer ℝ)
    (h : gsoSolve p = .ok a) : ∃ Q B, SolverFacts a p.A 1 p.S Q B :=
  solverFacts_gso p hU a h

end Gso

section Svd
open Gama.Ls.Svd

/-- svd, modulo the certificate of the factorisation -/
theorem C09_solver_facts_svd (fixed : Bool) {tol : ℝ} (htol : 0 ≤ tol) (p : Problem ℝ) (d : Dec ℝ)
    (hc : SvdCert Real.sqrt tol p.m p.n p.dense d) (hreg : RegOK p.reg) (a : Answer ℝ)
    (h : svdSolveCert fixed tol d p = .ok a) : ∃ Q B, SolverFacts a p.A 1 p.S Q B :=
  solverFacts_svd fixed htol p d hc hreg a h

end Svd

/-! ## (a) degrees of freedom against an independent specification -/

/-- **degrees of freedom.**  For the answer of any solver model (`SolverFacts`: `defect + rank A = n`,
    C03/C20) the number `LocalNetwork::degrees_of_freedom` reports — `A.rows() − A.cols() + defect()` as
    regenerated from network.h — is the redundancy of the adjustment in three independent readings:
    `m − rank A`;  `m − n + dim ker A` (LS10, rank–nullity);  the sum of the redundancy numbers
    `Σ_i (1 − q_bb(i,i))` (trace of `I − Π`, C03 clause 9).  In particular it is never negative. -/
theorem C09_dof {m n : ℕ} (a : Answer ℝ) (A : Matrix (Fin m) (Fin n) ℝ) (W : Matrix (Fin m) (Fin m) ℝ)
    (S : Finset (Fin n)) (Q : Matrix (Fin n) (Fin n) ℝ) (B : Matrix (Fin m) (Fin m) ℝ)
    (hf : SolverFacts a A W S Q B) :
    StatsGen.degreesOfFreedom m n a.defect = (m : ℤ) - A.rank ∧
    StatsGen.degreesOfFreedom m n a.defect = (m : ℤ) - n + LS.nullity A ∧
    0 ≤ StatsGen.degreesOfFreedom m n a.defect ∧
    ((StatsGen.degreesOfFreedom m n a.defect : ℤ) : ℝ) = ∑ i, (1 - B i i) := by
  have hgen : StatsGen.degreesOfFreedom m n a.defect = (m : ℤ) - n + a.defect := rfl
  have hr := hf.defect_rank
  have hnull := LS.rank_add_nullity A
  have hle : A.rank ≤ m := by simpa using A.rank_le_card_height
  simp only [Fintype.card_fin] at hnull
  refine ⟨by rw [hgen]; omega, by rw [hgen]; omega, by rw [hgen]; omega, ?_⟩
  rw [hgen, hf.redundancy]; push_cast; ring

/-! ## (b) the error ellipse of the solver's cofactors -/

/-- the specification `Stats.IsEigenEllipse` written out (it is the conclusion of
    `C09_ellipse_is_eigen_full`, with no reference to the code) -/
theorem C09_ellipse_spec (cxx cxy cyy m0 : ℝ) (e : ℝ × ℝ × ℝ) :
    IsEigenEllipse cxx cxy cyy m0 e ↔
    ∃ l1 l2 : ℝ,
      l1 + l2 = cxx + cyy ∧ l1 * l2 = cxx * cyy - cxy ^ 2 ∧ 0 ≤ l2 ∧ l2 ≤ l1 ∧
      e.1 ^ 2 = m0 ^ 2 * l1 ∧ e.2.1 ^ 2 = m0 ^ 2 * l2 ∧ 0 ≤ e.2.1 ∧ e.2.1 ≤ e.1 ∧
      cxx * cos e.2.2 + cxy * sin e.2.2 = l1 * cos e.2.2 ∧
      cxy * cos e.2.2 + cyy * sin e.2.2 = l1 * sin e.2.2 ∧
      0 ≤ e.2.2 ∧ e.2.2 < π ∧ (l1 = l2 → e.2.2 = 0) ∧
      (l1 ≠ l2 → ∀ β : ℝ, 0 ≤ β → β < π →
        cxx * cos β + cxy * sin β = l1 * cos β → cxy * cos β + cyy * sin β = l1 * sin β → β = e.2.2) :=
  Iff.rfl

/-- **the ellipse of what the solvers return.**  `ix`, `iy` the unknowns of one point.  The three reads of
    `std_error_ellipse` (`cyy = q_xx(iy,iy)`, `cyx = q_xx(iy,ix)`, `cxx = q_xx(ix,ix)`) succeed on the answer
    of a solver model, the block they form is symmetric (`q_xx(ix,iy)` is the same number) and positive
    semi-definite — DERIVED from `Q` being symmetric PSD (C03), not assumed — and the reported
    `(a, b, α)` is the eigen-decomposition of that block scaled by `m0²` (`C09_ellipse_is_eigen_full`). -/
theorem C09_ellipse_of_solver_cofactors {m n : ℕ} (a : Answer ℝ) (A : Matrix (Fin m) (Fin n) ℝ)
    (W : Matrix (Fin m) (Fin m) ℝ) (S : Finset (Fin n)) (Q : Matrix (Fin n) (Fin n) ℝ)
    (B : Matrix (Fin m) (Fin m) ℝ) (hf : SolverFacts a A W S Q B) (ix iy : Fin n) (m0 : ℝ) (hm : 0 ≤ m0) :
    ∃ cyy cyx cxx : ℝ,
      a.qxx (iy.val + 1) (iy.val + 1) = .ok cyy ∧ a.qxx (iy.val + 1) (ix.val + 1) = .ok cyx ∧
      a.qxx (ix.val + 1) (ix.val + 1) = .ok cxx ∧ a.qxx (ix.val + 1) (iy.val + 1) = .ok cyx ∧
      0 ≤ cxx ∧ 0 ≤ cyy ∧ cyx ^ 2 ≤ cxx * cyy ∧
      IsEigenEllipse cxx cyx cyy m0 (StatsGen.stdErrorEllipse cyy cyx cxx m0) := by
  obtain ⟨hxx, hyy, hdet, hsym⟩ := psd_block Q hf.symm hf.psd ix iy
  refine ⟨Q iy iy, Q iy ix, Q ix ix, hf.qxx iy iy, hf.qxx iy ix, hf.qxx ix ix, by rw [hsym]; exact hf.qxx ix iy,
    hxx, hyy, by rw [hsym]; exact hdet, ?_⟩
  exact C09_ellipse_is_eigen_full (Q ix ix) (Q iy ix) (Q iy iy) m0 hm hxx hyy (by rw [hsym]; exact hdet)

/-! ## (c) standard deviations of the solver's cofactors -/

/-- **standard deviations.**  For the answer of any solver model, every reference-deviation setting
    (`sigma-act`), every `v'Pv ≥ 0` and every dof:
    * the ACTUAL reference deviation `m_0()` never throws and is σ_apr in a priori mode, `√(v'Pv/dof)`
      (`m0²·dof = v'Pv`) in a posteriori mode with dof ≥ 1, and the literal 0 for dof ≤ 0;
    * `unknown_stdev(i) = m0·√q_xx(i,i)` with `q_xx(i,i) ≥ 0` READ FROM THE SOLVER, so its square is the
      variance `m0²·q_xx(i,i)`;
    * `stdev_obs(k)` (= `sigma_L(k)`, `gen_accessorReads`) squared is `m0²·q_bb(k,k)/p_k` — the cofactor of
      the adjusted observation in its own units, `p_k = weight_obs(k) = (σ_apr/stdev_k)²`, for an
      uncorrelated observation (C09-F1 for correlated clusters);
    * the residual cofactor `wcoef_res(k)` is `1/p_k − q_bb(k,k)/p_k ≥ 0`: because the solver's `q_bb(k,k) ≤ 1`
      (C03) the clamp `qv >= 0 ? qv : 0` never fires over ℝ, and `stdev_res(k)² = m0²·(1/p_k − q_bb(k,k)/p_k)`. -/
theorem C09_stdev_of_solver_cofactors {m n : ℕ} (a : Answer ℝ) (A : Matrix (Fin m) (Fin n) ℝ)
    (W : Matrix (Fin m) (Fin m) ℝ) (S : Finset (Fin n)) (Q : Matrix (Fin n) (Fin n) ℝ)
    (B : Matrix (Fin m) (Fin m) ℝ) (hf : SolverFacts a A W S Q B)
    (act : SigmaAct) (sapr phi : ℝ) (dof : ℤ) (hsapr : 0 < sapr) (hphi : 0 ≤ phi)
    (i : Fin n) (k : Fin m) (stdev : ℝ) (hst : 0 < stdev) :
    ∃ m0 : ℝ, StatsGen.m0 act sapr phi dof = .ok m0 ∧ 0 ≤ m0 ∧
      (act = .apriori → m0 = sapr) ∧
      (act = .aposteriori → 0 < dof → m0 ^ 2 * (dof : ℝ) = phi) ∧
      (act = .aposteriori → dof ≤ 0 → m0 = 0) ∧
      -- unknowns
      a.qxx (i.val + 1) (i.val + 1) = .ok (Q i i) ∧ 0 ≤ Q i i ∧
      StatsGen.unknownStdev m0 (Q i i) = m0 * √(Q i i) ∧
      StatsGen.unknownStdev m0 (Q i i) ^ 2 = m0 ^ 2 * Q i i ∧
      0 ≤ StatsGen.unknownStdev m0 (Q i i) ∧
      -- adjusted observations
      a.qbb (k.val + 1) (k.val + 1) = .ok (B k k) ∧ 0 ≤ B k k ∧ B k k ≤ 1 ∧
      0 < StatsGen.weightObs sapr stdev ∧
      StatsGen.sigmaL m0 sapr (B k k) stdev ^ 2 = m0 ^ 2 * (B k k / StatsGen.weightObs sapr stdev) ∧
      0 ≤ StatsGen.sigmaL m0 sapr (B k k) stdev ∧
      -- residuals
      StatsGen.wcoefRes (B k k) (StatsGen.weightObs sapr stdev)
        = 1 / StatsGen.weightObs sapr stdev - B k k / StatsGen.weightObs sapr stdev ∧
      0 ≤ StatsGen.wcoefRes (B k k) (StatsGen.weightObs sapr stdev) ∧
      StatsGen.stdevRes m0 (StatsGen.wcoefRes (B k k) (StatsGen.weightObs sapr stdev)) ^ 2
        = m0 ^ 2 * (1 / StatsGen.weightObs sapr stdev - B k k / StatsGen.weightObs sapr stdev) := by
  have hgenU : ∀ x y : ℝ, StatsGen.unknownStdev x y = unknownStdev x y := fun _ _ => rfl
  have hgenW : ∀ x y : ℝ, StatsGen.weightObs x y = weightObs x y := fun _ _ => rfl
  have hgenL : ∀ x y z t : ℝ, StatsGen.sigmaL x y z t = sigmaL x y z t := fun _ _ _ _ => rfl
  have hgenQ : ∀ x y : ℝ, StatsGen.wcoefRes x y = wcoefRes x y := fun _ _ => rfl
  have hgenR : ∀ x y : ℝ, StatsGen.stdevRes x y = stdevRes x y := fun _ _ => rfl
  obtain ⟨m0, h0, ha, hb, hc, -, -⟩ := C09_m0_guard_full act sapr phi 1 dof hphi one_pos
  have hm0 : 0 ≤ m0 := by
    cases act
    · rw [ha rfl]; exact hsapr.le
    · rcases lt_or_ge 0 dof with hd | hd
      · exact (hb rfl hd).2
      · rw [hc rfl hd]
  have hq := psd_diag_nonneg Q hf.psd i
  obtain ⟨hb0, hb1⟩ := hf.hat_diag k
  have hw : 0 < weightObs sapr stdev := by
    rw [weightObs_eq]; positivity
  have hqv : 0 ≤ 1 / weightObs sapr stdev - B k k / weightObs sapr stdev := by
    rw [← sub_div]; exact div_nonneg (by linarith) hw.le
  simp only [hgenU, hgenW, hgenL, hgenQ, hgenR]
  refine ⟨m0, h0, hm0, ha, fun h1 h2 => (hb h1 h2).1, hc, hf.qxx i i, hq, rfl, unknownStdev_sq m0 _ hq,
    mul_nonneg hm0 (Real.sqrt_nonneg _), hf.qbb k k, hb0, hb1, hw, ?_, ?_, wcoefRes_of_nonneg _ _ hqv, ?_, ?_⟩
  · rw [sigmaL_sq m0 sapr (B k k) stdev hb0 hsapr.ne', weightObs_eq]
    field_simp
  · simp only [sigmaL, sqrt_real]
    exact mul_nonneg (mul_nonneg (div_nonneg hm0 hsapr.le) (Real.sqrt_nonneg _)) hst.le
  · exact wcoefRes_nonneg _ _
  · rw [wcoefRes_of_nonneg _ _ hqv]
    simp only [stdevRes, sqrt_real, abs_real]
    rw [mul_pow, Real.sq_sqrt (abs_nonneg _), abs_of_nonneg hqv]

/-! ## (d) confidence half-widths -/

/-- **confidence half-widths**, every `conf_pr ∈ (0,1)`, every dof, both `sigma-act` settings, with the
    coefficient functions of C17 (`Statan.normal fuel`, `Statan.student fuel` — the models of
    `GNU_gama::Normal`, `GNU_gama::Student` that C17's theorems are about; any `fuel`):
    `conf_pr` is accepted; `conf_int_coef()` never throws and is `Normal((1−p)/2)` for the A PRIORI and
    `Student((1−p)/2, dof)` for the A POSTERIORI reference deviation (the literal 0 without redundancy) —
    selected by the SAME setting that selects the reference deviation in `m_0()`; the argument lies in
    `(0, ½)` (where C17's theorems apply); and what the writers print, `stdev·kki` (`gen_halfWidthSites`:
    every use of `kki`), is `m0·√q · coefficient` for an unknown (`q = q_xx(i,i) ≥ 0`) -/
theorem C09_conf_halfwidth (fuel : ℕ) (act : SigmaAct) (p sapr phi q : ℝ) (dof : ℤ)
    (hp0 : 0 < p) (hp1 : p < 1) (hphi : 0 ≤ phi) (hq : 0 ≤ q) :
    StatsGen.confPrAccepted p = true ∧ 0 < (1 - p) / 2 ∧ (1 - p) / 2 < 1 / 2 ∧
    ∃ m0 kki : ℝ,
      StatsGen.m0 act sapr phi dof = .ok m0 ∧
      StatsGen.confIntCoef (Statan.normal fuel) (Statan.student fuel) act p dof = .ok kki ∧
      (act = .apriori → m0 = sapr ∧ kki = Statan.normal fuel ((1 - p) / 2)) ∧
      (act = .aposteriori → 0 < dof →
        m0 ^ 2 * (dof : ℝ) = phi ∧ 0 ≤ m0 ∧ kki = Statan.student fuel ((1 - p) / 2) dof) ∧
      (act = .aposteriori → dof ≤ 0 → m0 = 0 ∧ kki = 0) ∧
      StatsGen.confHalfWidth (StatsGen.unknownStdev m0 q) kki = m0 * √q * kki ∧
      StatsGen.confHalfWidth (StatsGen.unknownStdev m0 q) kki ^ 2 = m0 ^ 2 * q * kki ^ 2 ∧
      (∀ sd : ℝ, StatsGen.confHalfWidth sd kki = sd * kki) := by
  obtain ⟨m0, h0, ha, hb, hc, -, -⟩ := C09_m0_guard_full act sapr phi 1 dof hphi one_pos
  obtain ⟨kki, k0, ka, kb, kc, kacc⟩ :=
    C09_conf_guard_full (Statan.normal fuel) (Statan.student fuel) act p dof
  refine ⟨kacc.2 ⟨hp0, hp1⟩, by linarith, by linarith, m0, kki, h0, k0,
    fun h => ⟨ha h, ka h⟩, fun h hd => ⟨(hb h hd).1, (hb h hd).2, kb h hd⟩, fun h hd => ⟨hc h hd, kc h hd⟩, rfl, ?_,
    fun _ => rfl⟩
  rw [show StatsGen.confHalfWidth (StatsGen.unknownStdev m0 q) kki = m0 * √q * kki from rfl, mul_pow, mul_pow,
    Real.sq_sqrt hq]

/-- the coefficient of the a posteriori half-widths IS C17's `Student`: for dof 1 and 2 its closed forms
    (`C17_student_1`, `C17_student_2`) make the half-width coefficient `k` the exact two-sided critical
    value — the upper tail beyond `k` is `(1 − p)/2`, i.e. `P(|T| ≤ k) = p` — for every `conf_pr ∈ (0,1)` -/
theorem C09_conf_coefficient_small_dof (fuel : ℕ) (p : ℝ) (hp0 : 0 < p) (hp1 : p < 1) :
    (∃ k : ℝ, StatsGen.confIntCoef (Statan.normal fuel) (Statan.student fuel) .aposteriori p 1 = .ok k ∧
      1 / 2 - Real.arctan k / π = (1 - p) / 2) ∧
    (∃ k : ℝ, StatsGen.confIntCoef (Statan.normal fuel) (Statan.student fuel) .aposteriori p 2 = .ok k ∧
      1 / 2 - k / (2 * √(2 + k * k)) = (1 - p) / 2) := by
  constructor
  · obtain ⟨k, k0, -, kb, -, -⟩ := C09_conf_guard_full (Statan.normal fuel) (Statan.student fuel) .aposteriori p 1
    refine ⟨k, k0, ?_⟩
    rw [kb rfl one_pos]
    exact Props.C17.C17_student_1 fuel (le_refl 1) (by linarith) (by linarith)
  · obtain ⟨k, k0, -, kb, -, -⟩ := C09_conf_guard_full (Statan.normal fuel) (Statan.student fuel) .aposteriori p 2
    refine ⟨k, k0, ?_⟩
    rw [kb rfl (by norm_num)]
    exact Props.C17.C17_student_2 fuel (by linarith) (by linarith)

/-! ## (e) changing only the a priori reference standard deviation -/

/-- **σ_apr ↦ s·σ_apr, one theorem about two adjustments.**  Uncorrelated observations with standard
    deviations `stdev_k`; design matrix `A`, right-hand side `b`, regularisation subset `S` that resolves the
    defect.  The weights are what `weight_obs` computes, `p_k = (σ_apr/stdev_k)²`, and the homogenisation
    scales row `k` by `σ_apr/stdev_k`.  FIRST adjustment with σ_apr: answer `a` with cofactors `Q`, `B`
    (`SolverFacts`, C03) and solution `(x, v, v'Pv)` (`IsLSSolution`, the conclusion of the C01 theorems).
    SECOND adjustment with `s·σ_apr` (`s > 0`), nothing else changed: `a'`, `Q'`, `B'`, `(x', v', v'Pv')`.
    NO relation between the two answers is assumed.  Then, by LS9 (`IsLSSolution.scale`: the first solution
    solves the second problem with `s²·v'Pv`; `ginv_scale`: `s⁻²Q` is a reflexive g-inverse of the second
    normal matrix) and uniqueness (`IsLSSolution.unique`, `ginv_belongs_unique`):
      `x' = x`, `v' = v`, `v'Pv' = s²·v'Pv`, `Q' = s⁻²·Q`, `q_bb' = q_bb`, same defect and dof;
    and for the regenerated accessors: `m0' = s·m0` (ratio `m0/σ_apr` and `<ratio>` unchanged), weights `×s²`,
    residual cofactors `×s⁻²`, and UNCHANGED: every `unknown_stdev`, every `<cov-mat>` entry `m0²Q`, every error
    ellipse, every `stdev_obs`, `stdev_res`, studentized residual, the confidence coefficient and every
    half-width — in both `sigma-act` modes. -/
theorem C09_sigma_apr_scaling {m n : ℕ} (A : Matrix (Fin m) (Fin n) ℝ) (b : Fin m → ℝ) (S : Finset (Fin n))
    (hS : Resolves A S) (stdev : Fin m → ℝ) (hst : ∀ k, 0 < stdev k) (sapr s : ℝ) (hsapr : 0 < sapr) (hs : 0 < s)
    (a : Answer ℝ) (Q : Matrix (Fin n) (Fin n) ℝ) (B : Matrix (Fin m) (Fin m) ℝ)
    (hf : SolverFacts a A (diagonal fun k => sapr / stdev k) S Q B)
    (x : Fin n → ℝ) (v : Fin m → ℝ) (phi : ℝ)
    (h1 : IsLSSolution A b (diagonal fun k => StatsGen.weightObs sapr (stdev k)) S x v phi)
    (a' : Answer ℝ) (Q' : Matrix (Fin n) (Fin n) ℝ) (B' : Matrix (Fin m) (Fin m) ℝ)
    (hf' : SolverFacts a' A (diagonal fun k => s * sapr / stdev k) S Q' B')
    (x' : Fin n → ℝ) (v' : Fin m → ℝ) (phi' : ℝ)
    (h2 : IsLSSolution A b (diagonal fun k => StatsGen.weightObs (s * sapr) (stdev k)) S x' v' phi')
    (act : SigmaAct) (hphi : 0 ≤ phi) :
    x' = x ∧ v' = v ∧ phi' = s ^ 2 * phi ∧ Q' = (s ^ 2)⁻¹ • Q ∧ B' = B ∧ a'.defect = a.defect ∧
    StatsGen.degreesOfFreedom m n a'.defect = StatsGen.degreesOfFreedom m n a.defect ∧
    ∃ m0 : ℝ,
      StatsGen.m0 act sapr phi (StatsGen.degreesOfFreedom m n a.defect) = .ok m0 ∧
      StatsGen.m0 act (s * sapr) phi' (StatsGen.degreesOfFreedom m n a'.defect) = .ok (s * m0) ∧
      s * m0 / (s * sapr) = m0 / sapr ∧
      StatsGen.xmlRatio phi' (s * sapr) (StatsGen.degreesOfFreedom m n a'.defect)
        = StatsGen.xmlRatio phi sapr (StatsGen.degreesOfFreedom m n a.defect) ∧
      (∀ i, StatsGen.unknownStdev (s * m0) (Q' i i) = StatsGen.unknownStdev m0 (Q i i)) ∧
      (∀ i j, StatsGen.covEntry (s * m0) (Q' i j) = StatsGen.covEntry m0 (Q i j)) ∧
      (∀ ix iy, StatsGen.stdErrorEllipse (Q' iy iy) (Q' iy ix) (Q' ix ix) (s * m0)
        = StatsGen.stdErrorEllipse (Q iy iy) (Q iy ix) (Q ix ix) m0) ∧
      (∀ k,
        StatsGen.weightObs (s * sapr) (stdev k) = s ^ 2 * StatsGen.weightObs sapr (stdev k) ∧
        StatsGen.sigmaL (s * m0) (s * sapr) (B' k k) (stdev k) = StatsGen.sigmaL m0 sapr (B k k) (stdev k) ∧
        StatsGen.wcoefRes (B' k k) (StatsGen.weightObs (s * sapr) (stdev k))
          = StatsGen.wcoefRes (B k k) (StatsGen.weightObs sapr (stdev k)) / s ^ 2 ∧
        StatsGen.stdevRes (s * m0) (StatsGen.wcoefRes (B' k k) (StatsGen.weightObs (s * sapr) (stdev k)))
          = StatsGen.stdevRes m0 (StatsGen.wcoefRes (B k k) (StatsGen.weightObs sapr (stdev k))) ∧
        StatsGen.studentizedResidual
            (StatsGen.stdevRes (s * m0) (StatsGen.wcoefRes (B' k k) (StatsGen.weightObs (s * sapr) (stdev k)))) (v' k)
          = StatsGen.studentizedResidual
            (StatsGen.stdevRes m0 (StatsGen.wcoefRes (B k k) (StatsGen.weightObs sapr (stdev k)))) (v k)) ∧
      (∀ (normal : ℝ → ℝ) (student : ℝ → ℤ → ℝ) (p : ℝ),
        StatsGen.confIntCoef normal student act p (StatsGen.degreesOfFreedom m n a'.defect)
          = StatsGen.confIntCoef normal student act p (StatsGen.degreesOfFreedom m n a.defect)) ∧
      (∀ (i : Fin n) (kki : ℝ), StatsGen.confHalfWidth (StatsGen.unknownStdev (s * m0) (Q' i i)) kki
          = StatsGen.confHalfWidth (StatsGen.unknownStdev m0 (Q i i)) kki) := by
  have hsne : s ≠ 0 := hs.ne'
  -- the weight matrices and whitenings of the two adjustments
  have hw : ∀ k, 0 < StatsGen.weightObs sapr (stdev k) := fun k => by
    rw [(C09_weight_scale sapr (stdev k) s).1]; have := hst k; positivity
  have hWP : (diagonal fun k => sapr / stdev k)ᵀ * (diagonal fun k => sapr / stdev k)
      = diagonal fun k => StatsGen.weightObs sapr (stdev k) := diagonal_whiten _
  have hWP' : (diagonal fun k => s * sapr / stdev k)ᵀ * (diagonal fun k => s * sapr / stdev k)
      = diagonal fun k => StatsGen.weightObs (s * sapr) (stdev k) := diagonal_whiten _
  have hP' : (diagonal fun k => StatsGen.weightObs (s * sapr) (stdev k))
      = s ^ 2 • diagonal fun k => StatsGen.weightObs sapr (stdev k) := by
    rw [← diagonal_smul]; congr 1; funext k
    exact (C09_weight_scale sapr (stdev k) s).2
  have hW' : (diagonal fun k => s * sapr / stdev k) = s • diagonal fun k => sapr / stdev k := by
    rw [← diagonal_smul]; congr 1; funext k
    simp only [Pi.smul_apply, smul_eq_mul, mul_div_assoc]
  have hpd := diagonal_pd (fun k => StatsGen.weightObs sapr (stdev k)) hw
  have hpd' := scale_pd hsne hpd
  have hPs : (s ^ 2 • diagonal fun k => StatsGen.weightObs sapr (stdev k))ᵀ
      = s ^ 2 • diagonal fun k => StatsGen.weightObs sapr (stdev k) := by
    rw [transpose_smul, diagonal_transpose]
  -- LS9 + uniqueness: solution
  rw [hP'] at h2
  obtain ⟨ex, ev, ephi⟩ := (h1.scale s).unique h2 hpd' hS
  -- LS9 + uniqueness: cofactors
  have hN := whiten_normalMatrix hWP A
  have hN' := whiten_normalMatrix hWP' A
  rw [Matrix.mul_one] at hN hN'
  rw [hP', scale_normalMatrix] at hN'
  have g := ginv_scale hsne (show IsReflGInv _ Q from ⟨hN ▸ hf.nqn, hN ▸ hf.qnq⟩)
  have eQ : (s ^ 2)⁻¹ • Q = Q' := by
    refine ginv_belongs_unique hPs hpd' hS ?_ ?_ ?_ (belongs_smul _ hf.belongs) ?_ ?_ hf'.symm hf'.belongs
    · rw [scale_normalMatrix]; exact g.1
    · rw [scale_normalMatrix]; exact g.2
    · rw [transpose_smul, hf.symm]
    · rw [scale_normalMatrix, ← hN']; exact hf'.nqn
    · rw [scale_normalMatrix, ← hN']; exact hf'.qnq
  have eB : B' = B := by
    rw [hf'.hat, hW', ← eQ, hat_scale hsne, ← hf.hat]
  have edef : a'.defect = a.defect := by
    have := hf.defect_rank; have := hf'.defect_rank; omega
  subst ex ev eB
  rw [← ephi, ← eQ, edef]
  obtain ⟨m0, h0, -, -, -, -, hsc⟩ :=
    C09_m0_guard_full act sapr phi s (StatsGen.degreesOfFreedom m n a.defect) hphi hs
  have hU := fun q => C09_sigma_apr_scaling_formulas m0 sapr s q 0 1 hs hsapr.ne' one_ne_zero
  have hO := fun qbb k => C09_sigma_apr_scaling_formulas m0 sapr s 0 qbb (stdev k) hs hsapr.ne' (hst k).ne'
  refine ⟨rfl, rfl, rfl, rfl, rfl, rfl, rfl, m0, h0, hsc, by field_simp,
    (C09_ratio_guard_full phi sapr s _ hsapr.ne' hs).2.2, fun i => ?_, fun i j => ?_, fun ix iy => ?_, fun k => ?_,
    fun _ _ _ => rfl, fun i kki => ?_⟩
  · rw [smul_inv_sq_apply]; exact (hU (Q i i)).1
  · rw [smul_inv_sq_apply]; exact (hU (Q i j)).2.1
  · rw [smul_inv_sq_apply, smul_inv_sq_apply, smul_inv_sq_apply]
    exact C09_ellipse_scale_free (Q ix ix) (Q iy ix) (Q iy iy) m0 s hs
  · obtain ⟨-, -, o3, o4, o5, o6⟩ := hO (B' k k) k
    refine ⟨o4, o3, o5, o6, ?_⟩
    have : StatsGen.stdevRes (s * m0) (StatsGen.wcoefRes (B' k k) (StatsGen.weightObs (s * sapr) (stdev k)))
        = StatsGen.stdevRes m0 (StatsGen.wcoefRes (B' k k) (StatsGen.weightObs sapr (stdev k))) := o6
    rw [this]
  · rw [smul_inv_sq_apply]
    have : StatsGen.unknownStdev (s * m0) (Q i i / s ^ 2) = StatsGen.unknownStdev m0 (Q i i) := (hU (Q i i)).1
    rw [this]

/-! ## non-vacuity

  `Ex.pR` over ℝ (`Lemmas/Ls/GsoReal.lean`, the joint witness of C02): `A = [1 1; 0 0]`, `b = (1,1)`, unit
  weights, regularisation subset `S = {1}` — defect 1, a proper subset that resolves it.  ONE problem meets
  the hypotheses of all four `C09_solver_facts_*` at the shared `Scalar ℝ`, every model answers, and the
  composed theorems apply to the answers. -/

section Examples
open Gama.Ls.Gso Gama.Ls.Chol Gama.Ls.Env Gama.Ls.Svd

-- gso
example : Gso.Unambiguous Ex.pR ∧ ∃ a, gsoSolve Ex.pR = .ok a := by
  rw [scalarReal_eq_fieldScalar]
  obtain ⟨a, ha, -⟩ := Ex.pR_answers
  exact ⟨Ex.pR_unambiguous, a, ha⟩
-- cholesky
example : UnambiguousF (cholFact Ex.pR) ∧ GsSqrtExact Ex.pR ∧
    (∀ S, Chol.regList Ex.pR.n Ex.pR.reg = some S → S.Nodup) ∧ ∃ a, cholSolve Ex.pR = .ok a := by
  rw [scalarReal_eq_fieldScalar]
  obtain ⟨a, ha, -⟩ := Ex.pR_chol_answers
  exact ⟨Ex.pR_chol_unambiguous, Ex.pR_chol_sqrt, Ex.pR_chol_nodup, a, ha⟩
-- svd (the certificate holds for the explicit factors `Ex.dR`)
example : SvdCert Real.sqrt (1 / 1000) Ex.pR.m Ex.pR.n Ex.pR.dense Ex.dR ∧ Svd.RegOK Ex.pR.reg ∧
    ∃ a, svdSolveCert true (1 / 1000) Ex.dR Ex.pR = .ok a := by
  rw [scalarReal_eq_fieldScalar]
  exact ⟨Ex.pR_svdCert, Ex.pR_svd_regOK, Ex.pR_svd_answers⟩
-- envelope (`envSolve`: homogenisation, RCM ordering and `envCore` evaluated over ℝ)
example : Env.InputOK Ex.pR ∧ Env.RegListOK Ex.pR ∧ Env.SolveUnambiguous Ex.pR ∧ Ex.pR.C * 1 = 1 ∧
    ∃ a, envSolve Ex.pR = .ok a ∧ a.xErr = none := by
  rw [scalarReal_eq_fieldScalar]
  obtain ⟨a, ha, hx, -⟩ := Ex.pR_envSolve
  exact ⟨Ex.pR_input, Ex.pR_regList, Ex.pR_solveUnamb, by rw [Ex.pR_C, Matrix.mul_one], a, ha, hx⟩

/-- the composed theorems applied to the Gram–Schmidt answer for `Ex.pR` (defect 1): the reported degrees of
    freedom are `2 − 2 + 1 = 1 = m − rank A`, and the ellipse computed from the reads `q_xx(2,2)`, `q_xx(2,1)`,
    `q_xx(1,1)` of that answer is the eigen-decomposition of the block they form -/
example : ∃ a, gsoSolve Ex.pR = .ok a ∧ a.defect = 1 ∧
    StatsGen.degreesOfFreedom Ex.pR.m Ex.pR.n a.defect = 1 ∧
    ((Ex.pR.m : ℤ) - Ex.pR.A.rank = 1) ∧
    ∃ cyy cyx cxx : ℝ, a.qxx 2 2 = .ok cyy ∧ a.qxx 2 1 = .ok cyx ∧ a.qxx 1 1 = .ok cxx ∧
      IsEigenEllipse cxx cyx cyy 1 (StatsGen.stdErrorEllipse cyy cyx cxx 1) := by
  have hU := Ex.pR_unambiguous
  have ha : ∃ a, gsoSolve Ex.pR = .ok a ∧ a.defect = 1 := by
    rw [scalarReal_eq_fieldScalar]
    obtain ⟨a, ha, -, -, hd, -⟩ := Ex.pR_answers
    exact ⟨a, ha, hd⟩
  obtain ⟨a, ha, hd⟩ := ha
  obtain ⟨Q, B, hf⟩ := C09_solver_facts_gso Ex.pR hU a ha
  obtain ⟨d1, -, -, -⟩ := C09_dof a _ _ _ Q B hf
  obtain ⟨cyy, cyx, cxx, e1, e2, e3, -, -, -, -, e8⟩ :=
    C09_ellipse_of_solver_cofactors a _ _ _ Q B hf (⟨0, by show 0 < 2; norm_num⟩ : Fin Ex.pR.n)
      (⟨1, by show 1 < 2; norm_num⟩ : Fin Ex.pR.n) 1 zero_le_one
  have hdof : StatsGen.degreesOfFreedom Ex.pR.m Ex.pR.n a.defect = 1 := by rw [hd]; rfl
  exact ⟨a, ha, hd, hdof, by rw [← d1, hdof], cyy, cyx, cxx, e1, e2, e3, e8⟩

-- C09_stdev_of_solver_cofactors / C09_conf_halfwidth / C09_conf_coefficient_small_dof: the numeric hypotheses
example : (0:ℝ) < 10 ∧ (0:ℝ) ≤ 12 ∧ (0:ℝ) < 5 ∧ (0:ℝ) < 0.95 ∧ (0.95:ℝ) < 1 ∧ (0:ℝ) ≤ 4 := by norm_num

/-- `C09_sigma_apr_scaling`: a complete instance of its hypotheses — one observation of one unknown
    (`A = [1]`, `b = (c)`, stdev 1), σ_apr = 1 and `s = 2`: the first adjustment answers `x = c`, `v = 0`,
    `v'Pv = 0`, `Q = [1]`, `q_bb = [1]`; the second `Q' = [¼]` — and the theorem returns `Q' = (2²)⁻¹ • Q` -/
example (c : ℝ) :
    let a : Answer ℝ :=
      { x := #[c], r := #[0], rtr := 0, defect := 0
        qxx := fun _ _ => .ok 1
        q0xx := fun _ _ => .ok 1
        qbb := fun _ _ => .ok 1
        qbx := fun _ _ => .ok 1
        lindep := fun _ => .ok false }
    let a' : Answer ℝ :=
      { x := #[c], r := #[0], rtr := 0, defect := 0
        qxx := fun _ _ => .ok (1 / 4)
        q0xx := fun _ _ => .ok (1 / 4)
        qbb := fun _ _ => .ok 1
        qbx := fun _ _ => .ok 1
        lindep := fun _ => .ok false }
    Resolves (1 : Matrix (Fin 1) (Fin 1) ℝ) ∅ ∧
    SolverFacts a (1 : Matrix (Fin 1) (Fin 1) ℝ) (diagonal fun _ => (1:ℝ) / 1) ∅ 1 1 ∧
    SolverFacts a' (1 : Matrix (Fin 1) (Fin 1) ℝ) (diagonal fun _ => 2 * (1:ℝ) / 1) ∅ ((2 ^ 2 : ℝ)⁻¹ • 1) 1 ∧
    IsLSSolution (1 : Matrix (Fin 1) (Fin 1) ℝ) (fun _ => c) (diagonal fun _ => StatsGen.weightObs (1:ℝ) 1) ∅
      (fun _ => c) 0 0 ∧
    IsLSSolution (1 : Matrix (Fin 1) (Fin 1) ℝ) (fun _ => c) (diagonal fun _ => StatsGen.weightObs (2 * 1 : ℝ) 1) ∅
      (fun _ => c) 0 0 := by
  intro a a'
  have hres : Resolves (1 : Matrix (Fin 1) (Fin 1) ℝ) ∅ := fun g hg _ => by simpa using hg
  have hbel : ∀ Q : Matrix (Fin 1) (Fin 1) ℝ, BelongsTo (1 : Matrix (Fin 1) (Fin 1) ℝ) ∅ Q := fun Q y g _ => by simp
  have hpsd : ∀ t : ℝ, 0 ≤ t → ∀ y : Fin 1 → ℝ, 0 ≤ y ⬝ᵥ (t • (1 : Matrix (Fin 1) (Fin 1) ℝ)) *ᵥ y := by
    intro t ht y
    rw [smul_mulVec, one_mulVec, dotProduct_smul, smul_eq_mul]
    exact mul_nonneg ht (dot_self_nonneg y)
  have hW1 : (diagonal fun _ : Fin 1 => (1:ℝ) / 1) = 1 := by simp
  have hW2 : (diagonal fun _ : Fin 1 => 2 * (1:ℝ) / 1) = (2:ℝ) • 1 := by
    ext i j; simp [diagonal, Matrix.one_apply]
  have hls : ∀ P : Matrix (Fin 1) (Fin 1) ℝ, IsLSSolution (1 : Matrix (Fin 1) (Fin 1) ℝ) (fun _ => c) P ∅
      (fun _ => c) 0 0 := fun P =>
    { res := by simp, normal := by simp, rtr_eq := by simp, orth := fun g _ => by simp }
  refine ⟨hres, ?_, ?_, hls _, hls _⟩
  · exact
      { qxx := fun i j => by simp [a, Matrix.one_apply, Subsingleton.elim i j],
        qbb := fun i j => by simp [a, Matrix.one_apply, Subsingleton.elim i j], symm := transpose_one,
        psd := by simpa using hpsd 1 zero_le_one,
        nqn := by rw [hW1]; simp, qnq := by rw [hW1]; simp, belongs := hbel _, hat := by rw [hW1]; simp,
        hat_diag := fun i => by simp, redundancy := by simp [a],
        defect_rank := by simp [a, Matrix.rank_one] }
  · exact
      { qxx := fun i j => by simp [a', Matrix.smul_apply, Subsingleton.elim i j]; norm_num,
        qbb := fun i j => by simp [a', Matrix.one_apply, Subsingleton.elim i j],
        symm := by rw [transpose_smul, transpose_one],
        psd := hpsd _ (by positivity),
        nqn := by
          rw [hW2]; simp only [Matrix.mul_one, transpose_smul, transpose_one, Matrix.mul_smul, smul_smul]
          congr 1; norm_num,
        qnq := by
          rw [hW2]; simp only [Matrix.mul_one, transpose_smul, transpose_one, Matrix.mul_smul, smul_smul]
          congr 1; norm_num,
        belongs := hbel _,
        hat := by
          rw [hW2]; simp only [Matrix.mul_one, transpose_smul, transpose_one, Matrix.mul_smul, smul_smul]
          norm_num,
        hat_diag := fun i => by simp, redundancy := by simp [a'],
        defect_rank := by simp [a', Matrix.rank_one] }

end Examples

end Gama.Props.C09
