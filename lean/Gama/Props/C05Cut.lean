/-
  C05, clause 6 — "near-vertical and near-horizontal sights / coinciding points are excluded only where
  the function is singular" — as a PRECISE NEGATIVE FINDING about the regenerated linearisation
  (`Gen/Linearization.lean`, from lib/gnu_gama/local/{bearing.cpp, local_linearization.cpp}).

  * the EXCLUDED set of the horizontal types (distance, direction, azimuth, angle) is exactly
    `{ d < 10⁻⁶ m }`, i.e. `Δx² + Δy² < 10⁻¹²`: there `bearing_distance` reports bearing 0 and distance 0
    (`C05_cut_excluded_set`);
  * the SINGULAR set of the horizontal distance `√(Δx² + Δy²)` is exactly `{ d = 0 }`: differentiable in
    every coordinate of both end points when `d ≠ 0`, not differentiable at `d = 0`
    (`C05_singular_set`); the slope distance / zenith angle, which THROW, throw exactly on their
    singular sets (`C05_throwing_types_exact`);
  * hence excluded ⊋ singular: `C05_cut_excludes_nonsingular` exhibits a sight of length `0.5 µm` along
    the y axis, where the distance IS differentiable with `∂d/∂y_to = 1`, `∂d/∂x_to = 0`, and the row the
    code pushes is `y_to ↦ 0`, `x_to ↦ 1` (the fixed row of `C05_below_cut_distance`), which is NOT the
    derivative; right-hand side `1000·value` instead of `1000·(value − d)`.
  The clause therefore holds for the throwing types and FAILS for the cut of `bearing_distance` on
  `0 < d < 10⁻⁶` (known finding C05-cut-wider-than-singular: design limitation, 1 µm).

  Round 9: the same NEG for the ANGULAR types on the same sight (`witnessAng`: reading π/2 = the true bearing;
  `witnessAngle`: the sight as backsight of an angle with foresight (1, 0)).  `IsPartialBearing` / `IsPartialAngle`
  are existential over the lift of the polar angle; the lift starts at `brg (dX o) (dY o)` — the TRUE polar angle
  (π/2 for the witness), not the bearing 0 reported inside the cut — so `¬ IsPartialBearing … 0` is a statement
  about the COEFFICIENT; it needs uniqueness of the lifted derivative (`C05_lifted_derivative_unique`).
  The refuted coefficients are those of `x`: the code pushes `K·sin(0) = K·0`, which is 0 for every finite `K` —
  the refutation does not rest on Lean's `2000/π/0 = 0` (`KF 0`); at `double` the product is `inf·0 = NaN`.
-/
import Gama.Lemmas.LinCut
import Gama.Lemmas.LinCutNeg
import Gama.Lemmas.LinCutNegAng
import Gama.Lemmas.LinTotal
import Mathlib.Analysis.Calculus.Deriv.Abs
namespace Gama.Props.C05Cut
open Gama Gama.Lin Real

/-- **the exact excluded set.**  `bearing_distance` reports distance 0 (and bearing 0) iff `d < 10⁻⁶`, iff
    `Δx² + Δy² < 10⁻¹²` -/
theorem C05_cut_excluded_set (o : Obs ℝ) :
    ((Gen.Lin.bearingDistancePt o.pfrom o.pto).2 = 0 ↔ hdist o < CUT) ∧
    ((Gen.Lin.bearingDistancePt o.pfrom o.pto).1 = 0 ∧ (Gen.Lin.bearingDistancePt o.pfrom o.pto).2 = 0 ↔ hdist o < CUT) ∧
    (hdist o < CUT ↔ dX o * dX o + dY o * dY o < 1 / 10 ^ 12) := by
  have h2 : (Gen.Lin.bearingDistancePt o.pfrom o.pto).2 = 0 ↔ hdist o < CUT := by
    rw [bd_snd]; unfold dC
    constructor
    · intro h
      by_contra hc
      rw [if_neg hc] at h
      have := hdist_pos_of_not_cut hc
      linarith
    · intro h; rw [if_pos h]
  refine ⟨h2, ⟨fun h => h2.mp h.2, fun h => ⟨by rw [bd_fst]; unfold bC; rw [if_pos h], h2.mpr h⟩⟩, ?_⟩
  unfold hdist
  rw [Real.sqrt_lt' CUT_pos]
  have : CUT ^ 2 = 1 / 10 ^ 12 := by unfold CUT; norm_num
  rw [this]

/-- **the exact singular set of the horizontal distance**: for `d ≠ 0` it has all four partial
    derivatives (the formulas of `distance_coeff`, no cut needed); at `d = 0` it has none -/
theorem C05_singular_set (o : Obs ℝ) :
    (hdist o ≠ 0 →
      IsPartial MM hdist o .pfrom .y (-(dY o / hdist o)) ∧ IsPartial MM hdist o .pfrom .x (-(dX o / hdist o)) ∧
      IsPartial MM hdist o .pto .y (dY o / hdist o) ∧ IsPartial MM hdist o .pto .x (dX o / hdist o)) ∧
    (hdist o = 0 → ¬ ∃ v, IsPartial MM hdist o .pto .x v) := by
  refine ⟨fun h => distance_partials o h, ?_⟩
  rintro h0 ⟨v, hv⟩
  have hq : dX o * dX o + dY o * dY o = 0 := by
    have hnn : 0 ≤ dX o * dX o + dY o * dY o := by nlinarith [mul_self_nonneg (dX o), mul_self_nonneg (dY o)]
    unfold hdist at h0
    exact (Real.sqrt_eq_zero hnn).mp h0
  have hx : dX o = 0 := by nlinarith [mul_self_nonneg (dX o), mul_self_nonneg (dY o)]
  have hy : dY o = 0 := by nlinarith [mul_self_nonneg (dX o), mul_self_nonneg (dY o)]
  have hfun : (fun t => MM * hdist (bumpU o .pto .x t)) = fun t => |t| := by
    funext t
    unfold hdist
    rw [dX_bumpU, dY_bumpU, hx, hy]
    simp only [velX, velY, zero_add, zero_mul, mul_zero, add_zero]
    rw [show (1 / 1000 * t) * (1 / 1000 * t) = (t / 1000) ^ 2 by ring, Real.sqrt_sq_eq_abs, abs_div]
    unfold MM
    rw [abs_of_pos (by norm_num : (0 : ℝ) < 1000)]
    ring
  unfold IsPartial at hv
  rw [hfun] at hv
  exact not_differentiableAt_abs_zero hv.differentiableAt

/-- the types that THROW do so exactly on their singular sets (slope distance 0; zenith angle: the sight
    is vertical or has length 0) — for them clause 6 holds -/
theorem C05_throwing_types_exact (fuel : Nat) (o : Obs ℝ) :
    (Gen.Lin.s_distance fuel o = .error .zeroSlopeDistance ↔ sdist o = 0) ∧
    (Gen.Lin.z_angle fuel o = .error .zeroZenithAngle ↔ (hdist o = 0 ∨ sdist o = 0)) := by
  constructor
  · rw [Lin.s_distance_eq]; split <;> simp [*]
  · rw [Lin.z_angle_eq]; split <;> simp [*]

/-- **NEGATIVE FINDING (clause 6 fails on `0 < d < 10⁻⁶`).**  The witness lies inside the excluded set and
    outside the singular set; there the horizontal distance is differentiable, with `∂d/∂y_to = 1` and
    `∂d/∂x_to = 0`; `distance` does not refuse it but pushes `y_to ↦ 0`, `x_to ↦ 1` and the right-hand side
    `1000·value` — neither pushed coefficient is the derivative, and the misclosure `1000·(value − d) = 0`
    is reported as `0.0005`. -/
theorem C05_cut_excludes_nonsingular :
    0 < hdist witness ∧ hdist witness < CUT ∧
    IsPartial MM hdist witness .pto .y 1 ∧ IsPartial MM hdist witness .pto .x 0 ∧
    (∀ fuel, ∃ out, Gen.Lin.distance fuel witness = .ok out ∧
      (Role.pto, Coord.y, (0 : ℝ)) ∈ out.pushes ∧ (Role.pto, Coord.x, (1 : ℝ)) ∈ out.pushes ∧
      out.rhs = 1 / 2000 ∧ MM * (witness.value - hdist witness) = 0) ∧
    ¬ IsPartial MM hdist witness .pto .y 0 ∧ ¬ IsPartial MM hdist witness .pto .x 1 := by
  obtain ⟨hx, hy, hd⟩ := witness_geometry
  have hpos : 0 < hdist witness := by rw [hd]; norm_num
  have hcut : hdist witness < CUT := by rw [hd]; unfold CUT; norm_num
  obtain ⟨-, -, p3, p4⟩ := distance_partials witness hpos.ne'
  have p3' : IsPartial MM hdist witness .pto .y 1 := by
    have : dY witness / hdist witness = 1 := by rw [hy, hd]; norm_num
    rwa [this] at p3
  have p4' : IsPartial MM hdist witness .pto .x 0 := by
    have : dX witness / hdist witness = 0 := by rw [hx]; simp
    rwa [this] at p4
  refine ⟨hpos, hcut, p3', p4', ?_, ?_, ?_⟩
  · intro fuel
    refine ⟨_, distance_cut fuel witness hcut, ?_, ?_, ?_, ?_⟩
    · simp [LinOut.pushes, pushes, xyBlock, witness, Pt.free_xy, Status.isFree]
    · simp [LinOut.pushes, pushes, xyBlock, witness, Pt.free_xy, Status.isFree]
    · simp [witness]; norm_num
    · rw [hd]; simp [witness]
  · intro h; have := isPartial_unique p3' h; norm_num at this
  · intro h; have := isPartial_unique p4' h; norm_num at this

/-- **the derivative of a lifted bearing / angle does not depend on the lift** (sights of non-zero length): two
    differentiable choices of polar angle differ near 0 by a `2πℤ`-valued function that is continuous at 0 and
    vanishes there.  Makes `¬ IsPartialBearing` / `¬ IsPartialAngle` provable from one true coefficient. -/
theorem C05_lifted_derivative_unique (off : Obs ℝ → ℝ) (o : Obs ℝ) (r : Role) (c : Coord) (v v' : ℝ) :
    (hdist o ≠ 0 → IsPartialBearing (fun o => (dX o, dY o)) off o r c v →
      IsPartialBearing (fun o => (dX o, dY o)) off o r c v' → v = v') ∧
    (hdist o ≠ 0 → hdist2 o ≠ 0 → IsPartialAngle o r c v → IsPartialAngle o r c v' → v = v') :=
  ⟨fun h => isPartialBearing_unique h, fun h h' => isPartialAngle_unique h h'⟩

/-- **NEGATIVE FINDING, direction** (same 0.5 µm sight, reading = true bearing π/2, orientation 0): the sight is
    inside the excluded set and outside the singular set; the direction IS differentiable there with
    `∂/∂x_to = −4·10⁹/π`, `∂/∂x_from = +4·10⁹/π` cc/mm (non-zero); `direction` does not refuse it (it returns for
    enough fuel) and every returned row pushes `x_to ↦ 0`, `x_from ↦ 0` and the right-hand side 100 gon although the
    true misclosure is 0; neither pushed coefficient is the derivative, for ANY lift. -/
theorem C05_cut_excludes_nonsingular_direction :
    0 < hdist witnessAng ∧ hdist witnessAng < CUT ∧ brg (dX witnessAng) (dY witnessAng) = π / 2 ∧
    IsPartialBearing (fun o => (dX o, dY o)) (fun o => o.orientation) witnessAng .pto .x (-(4000000000 / π)) ∧
    IsPartialBearing (fun o => (dX o, dY o)) (fun o => o.orientation) witnessAng .pfrom .x (4000000000 / π) ∧
    (∃ fuel out, Gen.Lin.direction fuel witnessAng = .ok out) ∧
    (∀ fuel out, Gen.Lin.direction fuel witnessAng = .ok out →
      (Role.pto, Coord.x, (0 : ℝ)) ∈ out.pushes ∧ (Role.pfrom, Coord.x, (0 : ℝ)) ∈ out.pushes ∧ out.rhs = 1000000) ∧
    R2CC * (witnessAng.value + witnessAng.orientation - brg (dX witnessAng) (dY witnessAng)) = 0 ∧
    ¬ IsPartialBearing (fun o => (dX o, dY o)) (fun o => o.orientation) witnessAng .pto .x 0 ∧
    ¬ IsPartialBearing (fun o => (dX o, dY o)) (fun o => o.orientation) witnessAng .pfrom .x 0 := by
  obtain ⟨t1, t2⟩ := witnessAng_direction_true
  refine ⟨lt_of_le_of_ne (hdist_nonneg _) witnessAng_pos.symm, witnessAng_cut, witnessAng_brg, t1, t2,
    direction_total _, witnessAng_direction_code, witnessAng_true_misclosure.1, ?_, ?_⟩
  · intro h; have := isPartialBearing_unique witnessAng_pos t1 h; exact coeff_ne (by linarith)
  · intro h; exact coeff_ne (isPartialBearing_unique witnessAng_pos t2 h)

/-- **NEGATIVE FINDING, azimuth** (the same sight, `xNorth = 0`): as for the direction -/
theorem C05_cut_excludes_nonsingular_azimuth :
    IsPartialBearing (fun o => (dX o, dY o)) (fun o => o.xNorth) witnessAng .pto .x (-(4000000000 / π)) ∧
    IsPartialBearing (fun o => (dX o, dY o)) (fun o => o.xNorth) witnessAng .pfrom .x (4000000000 / π) ∧
    (∃ fuel out, Gen.Lin.azimuth fuel witnessAng = .ok out) ∧
    (∀ fuel out, Gen.Lin.azimuth fuel witnessAng = .ok out →
      (Role.pto, Coord.x, (0 : ℝ)) ∈ out.pushes ∧ (Role.pfrom, Coord.x, (0 : ℝ)) ∈ out.pushes ∧ out.rhs = 1000000) ∧
    R2CC * (witnessAng.value + witnessAng.xNorth - brg (dX witnessAng) (dY witnessAng)) = 0 ∧
    ¬ IsPartialBearing (fun o => (dX o, dY o)) (fun o => o.xNorth) witnessAng .pto .x 0 ∧
    ¬ IsPartialBearing (fun o => (dX o, dY o)) (fun o => o.xNorth) witnessAng .pfrom .x 0 := by
  obtain ⟨t1, t2⟩ := witnessAng_azimuth_true
  refine ⟨t1, t2, azimuth_total _, witnessAng_azimuth_code, witnessAng_true_misclosure.2, ?_, ?_⟩
  · intro h; have := isPartialBearing_unique witnessAng_pos t1 h; exact coeff_ne (by linarith)
  · intro h; exact coeff_ne (isPartialBearing_unique witnessAng_pos t2 h)

/-- **NEGATIVE FINDING, angle** (backsight = the 0.5 µm sight, foresight (1, 0) at 1 m): both sights have non-zero
    length, the angle is differentiable w.r.t. `x` of the backsight target with coefficient `+4·10⁹/π` cc/mm;
    `angle` returns and pushes `x_bs ↦ 0`, which is not the derivative for any pair of lifts. -/
theorem C05_cut_excludes_nonsingular_angle :
    hdist witnessAngle ≠ 0 ∧ hdist2 witnessAngle ≠ 0 ∧ hdist witnessAngle < CUT ∧
    IsPartialAngle witnessAngle .pto .x (4000000000 / π) ∧
    (∃ fuel out, Gen.Lin.angle fuel witnessAngle = .ok out) ∧
    (∀ fuel out, Gen.Lin.angle fuel witnessAngle = .ok out → (Role.pto, Coord.x, (0 : ℝ)) ∈ out.pushes) ∧
    ¬ IsPartialAngle witnessAngle .pto .x 0 :=
  ⟨witnessAngle_pos.1, witnessAngle_pos.2, witnessAngle_cut, witnessAngle_true, angle_total _, witnessAngle_code,
    fun h => coeff_ne (isPartialAngle_unique witnessAngle_pos.1 witnessAngle_pos.2 witnessAngle_true h)⟩

-- non-vacuity of `C05_lifted_derivative_unique`: both hypotheses are met at the witnesses (with `v = v'` the true coefficient)
example : hdist witnessAng ≠ 0 ∧
    IsPartialBearing (fun o => (dX o, dY o)) (fun o => o.orientation) witnessAng .pto .x (-(4000000000 / π)) :=
  ⟨witnessAng_pos, witnessAng_direction_true.1⟩
example : hdist witnessAngle ≠ 0 ∧ hdist2 witnessAngle ≠ 0 ∧ IsPartialAngle witnessAngle .pto .x (4000000000 / π) :=
  ⟨witnessAngle_pos.1, witnessAngle_pos.2, witnessAngle_true⟩

-- non-vacuity of `C05_singular_set` (second half): a zero-length sight exists
example : ∃ o : Obs ℝ, hdist o = 0 :=
  ⟨{ witness with pto := witness.pfrom }, by simp [hdist, dX, dY, witness]⟩

end Gama.Props.C05Cut
