/-
  C05, clause 6 — "near-vertical and near-horizontal sights / coinciding points are excluded only where
  the function is singular" — as a PRECISE NEGATIVE FINDING about the regenerated linearisation
  (`Gen/Linearization.lean`, from lib/gnu_gama/local/{bearing.cpp, local_linearization.cpp}).

  * the EXCLUDED set of the horizontal types (distance, direction, azimuth, angle) is exactly
    `{ d < 10⁻⁶ m }`, i.e. `Δx² + Δy² < 10⁻¹²`: there `bearing_distance` reports bearing 0 and distance 0
    (`C05_cut_excluded_set`);
  * the SINGULAR set of the horizontal distance `√(Δx² + Δy²)` is exactly `{ d = 0 }`: differentiable in
    every coordinate of both end points when `d ≠ 0`, not differentiable at `d = 0`
    (`C05_singular_set`); the slope distance / zenith angle, which THROW, throw exactly on their
    singular sets (`C05_throwing_types_exact`);
  * hence excluded ⊋ singular: `C05_cut_excludes_nonsingular` exhibits a sight of length `0.5 µm` along
    the y axis, where the distance IS differentiable with `∂d/∂y_to = 1`, `∂d/∂x_to = 0`, and the row the
    code pushes is `y_to ↦ 0`, `x_to ↦ 1` (the fixed row of `C05_below_cut_distance`), which is NOT the
    derivative; right-hand side `1000·value` instead of `1000·(value − d)`.
  The clause therefore holds for the throwing types and FAILS for the cut of `bearing_distance` on
  `0 < d < 10⁻⁶` (known finding C05-cut-wider-than-singular: design limitation, 1 µm).
-/
import Gama.Lemmas.LinCut
import Gama.Lemmas.LinCutNeg
import Mathlib.Analysis.Calculus.Deriv.Abs
namespace Gama.Props.C05Cut
open Gama Gama.Lin Real

/-- **the exact excluded set.**  `bearing_distance` reports distance 0 (and bearing 0) iff `d < 10⁻⁶`, iff
    `Δx² + Δy² < 10⁻¹²` -/
theorem C05_cut_excluded_set (o : Obs ℝ) :
    ((Gen.Lin.bearingDistancePt o.pfrom o.pto).2 = 0 ↔ hdist o < CUT) ∧
    ((Gen.Lin.bearingDistancePt o.pfrom o.pto).1 = 0 ∧ (Gen.Lin.bearingDistancePt o.pfrom o.pto).2 = 0 ↔ hdist o < CUT) ∧
    (hdist o < CUT ↔ dX o * dX o + dY o * dY o < 1 / 10 ^ 12) := by
  have h2 : (Gen.Lin.bearingDistancePt o.pfrom o.pto).2 = 0 ↔ hdist o < CUT := by
    rw [bd_snd]; unfold dC
    constructor
    · intro h
      by_contra hc
      rw [if_neg hc] at h
      have := hdist_pos_of_not_cut hc
      linarith
    · intro h; rw [if_pos h]
  refine ⟨h2, ⟨fun h => h2.mp h.2, fun h => ⟨by rw [bd_fst]; unfold bC; rw [if_pos h], h2.mpr h⟩⟩, ?_⟩
  unfold hdist
  rw [Real.sqrt_lt' CUT_pos]
  have : CUT ^ 2 = 1 / 10 ^ 12 := by unfold CUT; norm_num
  rw [this]

/-- **the exact singular set of the horizontal distance**: for `d ≠ 0` it has all four partial
    derivatives (the formulas of `distance_coeff`, no cut needed); at `d = 0` it has none -/
theorem C05_singular_set (o : Obs ℝ) :
    (hdist o ≠ 0 →
      IsPartial MM hdist o .pfrom .y (-(dY o / hdist o)) ∧ IsPartial MM hdist o .pfrom .x (-(dX o / hdist o)) ∧
      IsPartial MM hdist o .pto .y (dY o / hdist o) ∧ IsPartial MM hdist o .pto .x (dX o / hdist o)) ∧
    (hdist o = 0 → ¬ ∃ v, IsPartial MM hdist o .pto .x v) := by
  refine ⟨fun h => distance_partials o h, ?_⟩
  rintro h0 ⟨v, hv⟩
  have hq : dX o * dX o + dY o * dY o = 0 := by
    have hnn : 0 ≤ dX o * dX o + dY o * dY o := by nlinarith [mul_self_nonneg (dX o), mul_self_nonneg (dY o)]
    unfold hdist at h0
    exact (Real.sqrt_eq_zero hnn).mp h0
  have hx : dX o = 0 := by nlinarith [mul_self_nonneg (dX o), mul_self_nonneg (dY o)]
  have hy : dY o = 0 := by nlinarith [mul_self_nonneg (dX o), mul_self_nonneg (dY o)]
  have hfun : (fun t => MM * hdist (bumpU o .pto .x t)) = fun t => |t| := by
    funext t
    unfold hdist
    rw [dX_bumpU, dY_bumpU, hx, hy]
    simp only [velX, velY, zero_add, zero_mul, mul_zero, add_zero]
    rw [show (1 / 1000 * t) * (1 / 1000 * t) = (t / 1000) ^ 2 by ring, Real.sqrt_sq_eq_abs, abs_div]
    unfold MM
    rw [abs_of_pos (by norm_num : (0 : ℝ) < 1000)]
    ring
  unfold IsPartial at hv
  rw [hfun] at hv
  exact not_differentiableAt_abs_zero hv.differentiableAt

/-- the types that THROW do so exactly on their singular sets (slope distance 0; zenith angle: the sight
    is vertical or has length 0) — for them clause 6 holds -/
theorem C05_throwing_types_exact (fuel : Nat) (o : Obs ℝ) :
    (Gen.Lin.s_distance fuel o = .error .zeroSlopeDistance ↔ sdist o = 0) ∧
    (Gen.Lin.z_angle fuel o = .error .zeroZenithAngle ↔ (hdist o = 0 ∨ sdist o = 0)) := by
  constructor
  · rw [Lin.s_distance_eq]; split <;> simp [*]
  · rw [Lin.z_angle_eq]; split <;> simp [*]

/-- **NEGATIVE FINDING (clause 6 fails on `0 < d < 10⁻⁶`).**  The witness lies inside the excluded set and
    outside the singular set; there the horizontal distance is differentiable, with `∂d/∂y_to = 1` and
    `∂d/∂x_to = 0`; `distance` does not refuse it but pushes `y_to ↦ 0`, `x_to ↦ 1` and the right-hand side
    `1000·value` — neither pushed coefficient is the derivative, and the misclosure `1000·(value − d) = 0`
    is reported as `0.0005`. -/
theorem C05_cut_excludes_nonsingular :
    0 < hdist witness ∧ hdist witness < CUT ∧
    IsPartial MM hdist witness .pto .y 1 ∧ IsPartial MM hdist witness .pto .x 0 ∧
    (∀ fuel, ∃ out, Gen.Lin.distance fuel witness = .ok out ∧
      (Role.pto, Coord.y, (0 : ℝ)) ∈ out.pushes ∧ (Role.pto, Coord.x, (1 : ℝ)) ∈ out.pushes ∧
      out.rhs = 1 / 2000 ∧ MM * (witness.value - hdist witness) = 0) ∧
    ¬ IsPartial MM hdist witness .pto .y 0 ∧ ¬ IsPartial MM hdist witness .pto .x 1 := by
  obtain ⟨hx, hy, hd⟩ := witness_geometry
  have hpos : 0 < hdist witness := by rw [hd]; norm_num
  have hcut : hdist witness < CUT := by rw [hd]; unfold CUT; norm_num
  obtain ⟨-, -, p3, p4⟩ := distance_partials witness hpos.ne'
  have p3' : IsPartial MM hdist witness .pto .y 1 := by
    have : dY witness / hdist witness = 1 := by rw [hy, hd]; norm_num
    rwa [this] at p3
  have p4' : IsPartial MM hdist witness .pto .x 0 := by
    have : dX witness / hdist witness = 0 := by rw [hx]; simp
    rwa [this] at p4
  refine ⟨hpos, hcut, p3', p4', ?_, ?_, ?_⟩
  · intro fuel
    refine ⟨_, distance_cut fuel witness hcut, ?_, ?_, ?_, ?_⟩
    · simp [LinOut.pushes, pushes, xyBlock, witness, Pt.free_xy, Status.isFree]
    · simp [LinOut.pushes, pushes, xyBlock, witness, Pt.free_xy, Status.isFree]
    · simp [witness]; norm_num
    · rw [hd]; simp [witness]
  · intro h; have := isPartial_unique p3' h; norm_num at this
  · intro h; have := isPartial_unique p4' h; norm_num at this

-- non-vacuity of `C05_singular_set` (second half): a zero-length sight exists
example : ∃ o : Obs ℝ, hdist o = 0 :=
  ⟨{ witness with pto := witness.pfrom }, by simp [hdist, dX, dY, witness]⟩

end Gama.Props.C05Cut
