/-
  C08, per solver: the generic theorems of `Props/C08.lean` (about ANY two `IsLSSolution`s of the same
  weighted problem) instantiated for every solver model through its C01 theorem "the answer is an
  `IsLSSolution`": the same problem solved with two regularisation lists `reg`, `reg'` (two choices of
  constrained coordinates) gives the same residuals, the same sum of squares, the same adjusted
  observations, a difference of the unknowns in the kernel — and each answer has minimal S-norm and is
  S-orthogonal to the datum transformations.  Hypotheses are exactly those of the C01 theorem of the
  model (twice: once per list); nothing is assumed about the lists beyond that.

  `C08_svd_subset_min_norm` is the statement for `SVD::min_subset_x` (model `Svd.minSubsetX`: for every
  null column in increasing order, normalise over the subset, orthogonalise EVERY other column against
  it) for ANY defect — with two or more null columns the invariant `Svd.Inv` (Lemmas/Ls/SvdSubset.lean)
  needs the null columns to be orthogonalised against each other, which is what `j ≠ k` (rather than
  "`j` non-null") in the inner loop provides.
-/
import Gama.Props.C08
import Gama.Lemmas.Ls.SvdRefusal
import Gama.Lemmas.Ls.SvdExample
import Gama.Lemmas.Ls.SvdSubsetExample
import Gama.Props.C01.Gso
import Gama.Props.C01.Chol
import Gama.Props.C01.Adj
import Gama.Props.C01.Env
namespace Gama.Props.C08
open Gama Gama.Ls Gama.LS Matrix

set_option linter.unusedSectionVars false

/-- what two least-squares solutions of the same problem share (the conclusion of the per-solver theorems) -/
theorem C08_datum_pair {𝕜 : Type*} [Field 𝕜] [LinearOrder 𝕜] [IsStrictOrderedRing 𝕜] {m n : Type*} [Fintype m] [Fintype n]
    {A : Matrix m n 𝕜} {b : m → 𝕜} {P : Matrix m m 𝕜} {S S' : Finset n} {x x' : n → 𝕜} {v v' : m → 𝕜} {rtr rtr' : 𝕜}
    (hpd : ∀ d, d ≠ 0 → 0 < d ⬝ᵥ P *ᵥ d)
    (h : IsLSSolution A b P S x v rtr) (h' : IsLSSolution A b P S' x' v' rtr') :
    v = v' ∧ rtr = rtr' ∧ A *ᵥ x = A *ᵥ x' ∧ A *ᵥ (x - x') = 0
      ∧ (∀ g, A *ᵥ g = 0 → ∑ i ∈ S, x i * g i = 0) ∧ (∀ g, A *ᵥ g = 0 → ∑ i ∈ S', x' i * g i = 0)
      ∧ (∀ y, Aᵀ *ᵥ (P *ᵥ (A *ᵥ y - b)) = 0 → normS S x ≤ normS S y)
      ∧ (∀ y, Aᵀ *ᵥ (P *ᵥ (A *ᵥ y - b)) = 0 → normS S' x' ≤ normS S' y) :=
  ⟨h.residuals_eq h' hpd, h.rtr_eq_rtr h' hpd, h.adjusted_obs_eq h' hpd, h.sub_mem_ker h' hpd, h.orth, h'.orth,
   h.min_norm hpd, h'.min_norm hpd⟩

section svd
open Gama.Ls.Svd
variable {K : Type} [Field K] [LinearOrder K] [IsStrictOrderedRing K] {sq : K → K}

/-- **`SVD::min_subset_x` minimises the subset norm, for any defect ≥ 0** (certificate hypothesis as in
    `C01_svd_cert`): whenever the svd model answers, the returned unknowns are S-orthogonal to every
    kernel vector, have the smallest `Σ_{i∈S} x_i²` among ALL solutions of the normal equations and along
    every kernel direction -/
theorem C08_svd_subset_min_norm (hs : SqrtLaw sq) (fixed : Bool) {tol : K} (htol : 0 ≤ tol) (p : Problem K) (d : Dec K)
    (hc : SvdCert sq tol p.m p.n (@Problem.dense K (fieldScalar sq) p) d) (hreg : RegOK p.reg) (a : Answer K)
    (h : @svdSolveCert K (fieldScalar sq) fixed tol d p = .ok a) :
    (∀ g, @Problem.A K (fieldScalar sq) p *ᵥ g = 0 → ∑ i ∈ p.S, toVec p.n a.x i * g i = 0)
      ∧ (∀ y, NormalEq (@Problem.A K (fieldScalar sq) p) (@Problem.b K (fieldScalar sq) p) 1 y →
            normS p.S (toVec p.n a.x) ≤ normS p.S y)
      ∧ (∀ g, @Problem.A K (fieldScalar sq) p *ᵥ g = 0 → normS p.S (toVec p.n a.x) ≤ normS p.S (toVec p.n a.x + g)) := by
  have hS : IsLSSolution (@Problem.A K (fieldScalar sq) p) (@Problem.b K (fieldScalar sq) p) 1 p.S
      (toVec p.n a.x) (toVec p.m a.r) a.rtr := answerOf_isLS hs fixed htol hc hreg h
  exact ⟨hS.orth, hS.min_norm one_pd, fun g hg => hS.min_norm one_pd _ (normalEq_add_ker hS.normalEq hg)⟩

/-- svd: two regularisation lists on the same problem -/
theorem C08_svd_datum (hs : SqrtLaw sq) (fixed : Bool) {tol : K} (htol : 0 ≤ tol) (p : Problem K) (reg' : Reg) (d : Dec K)
    (hc : SvdCert sq tol p.m p.n (@Problem.dense K (fieldScalar sq) p) d) (hreg : RegOK p.reg) (hreg' : RegOK reg')
    (a a' : Answer K) (h : @svdSolveCert K (fieldScalar sq) fixed tol d p = .ok a)
    (h' : @svdSolveCert K (fieldScalar sq) fixed tol d { p with reg := reg' } = .ok a') :
    toVec p.m a.r = toVec p.m a'.r ∧ a.rtr = a'.rtr
      ∧ @Problem.A K (fieldScalar sq) p *ᵥ toVec p.n a.x = @Problem.A K (fieldScalar sq) p *ᵥ toVec p.n a'.x
      ∧ @Problem.A K (fieldScalar sq) p *ᵥ (toVec p.n a.x - toVec p.n a'.x) = 0 := by
  have hS : IsLSSolution (@Problem.A K (fieldScalar sq) p) (@Problem.b K (fieldScalar sq) p) 1 p.S
      (toVec p.n a.x) (toVec p.m a.r) a.rtr := answerOf_isLS hs fixed htol hc hreg h
  have hS' : IsLSSolution (@Problem.A K (fieldScalar sq) p) (@Problem.b K (fieldScalar sq) p) 1 (reg'.toFinset p.n)
      (toVec p.n a'.x) (toVec p.m a'.r) a'.rtr :=
    answerOf_isLS (reg := reg') hs fixed htol hc hreg' h'
  obtain ⟨h1, h2, h3, h4, -⟩ := C08_datum_pair one_pd hS hS'
  exact ⟨h1, h2, h3, h4⟩



/-- non-vacuity (defect 2, null columns not S-orthogonal, |S| = defect): hypotheses hold, the model answers -/
example : SvdCert Gama.Ls.Svd.SubEx.sqE (1 / 1000) Gama.Ls.Svd.SubEx.pD.m Gama.Ls.Svd.SubEx.pD.n (@Problem.dense ℚ (fieldScalar Gama.Ls.Svd.SubEx.sqE) Gama.Ls.Svd.SubEx.pD) Gama.Ls.Svd.SubEx.dD
    ∧ RegOK Gama.Ls.Svd.SubEx.pD.reg
    ∧ ∃ a, @svdSolveCert ℚ (fieldScalar Gama.Ls.Svd.SubEx.sqE) true (1 / 1000) Gama.Ls.Svd.SubEx.dD Gama.Ls.Svd.SubEx.pD = .ok a
        ∧ a.x = #[0, 17 / 12, 0] ∧ a.defect = 2 :=
  ⟨Gama.Ls.Svd.SubEx.pD_cert, by show List.Nodup [1, 3]; decide, Gama.Ls.Svd.SubEx.pD_answer⟩

/-- non-vacuity over ℝ (`SqrtLaw Real.sqrt` holds) -/
example : SqrtLaw Real.sqrt ∧ (0 : ℝ) ≤ 1 / 1000 ∧
    SvdCert Real.sqrt (1 / 1000) Ex.pW.m Ex.pW.n (@Problem.dense ℝ (fieldScalar Real.sqrt) Ex.pW) Ex.dW ∧
    RegOK Ex.pW.reg ∧ ∃ a, @svdSolveCert ℝ (fieldScalar Real.sqrt) true (1 / 1000) Ex.dW Ex.pW = .ok a :=
  ⟨Ex.sqrtLaw_real, by norm_num, Ex.pW_cert, trivial, _, rfl⟩

end svd

section gso
open Gama.Ls.Gso
variable {K : Type} [Field K] [LinearOrder K] [IsStrictOrderedRing K] [SqrtField K]

/-- gso (`AdjGSO` / `ICGS`): two regularisation lists on the same problem -/
theorem C08_gso_datum (p : Problem K) (reg' : Reg) (hU : Unambiguous p) (hU' : Unambiguous { p with reg := reg' })
    (a a' : Answer K) (h : gsoSolve p = .ok a) (h' : gsoSolve { p with reg := reg' } = .ok a') :
    toVec p.m a.r = toVec p.m a'.r ∧ a.rtr = a'.rtr ∧ p.A *ᵥ toVec p.n a.x = p.A *ᵥ toVec p.n a'.x
      ∧ p.A *ᵥ (toVec p.n a.x - toVec p.n a'.x) = 0
      ∧ (∀ g, p.A *ᵥ g = 0 → ∑ i ∈ p.S, toVec p.n a.x i * g i = 0)
      ∧ (∀ y, (p.A)ᵀ *ᵥ ((1 : Matrix (Fin p.m) (Fin p.m) K) *ᵥ (p.A *ᵥ y - p.b)) = 0 →
            normS p.S (toVec p.n a.x) ≤ normS p.S y) := by
  have hS := Gama.Props.C01.C01_gso p hU a h
  have hS' : IsLSSolution p.A p.b 1 (reg'.toFinset p.n) (toVec p.n a'.x) (toVec p.m a'.r) a'.rtr :=
    Gama.Props.C01.C01_gso { p with reg := reg' } hU' a' h'
  obtain ⟨h1, h2, h3, h4, h5, -, h7, -⟩ := C08_datum_pair one_pd hS hS'
  exact ⟨h1, h2, h3, h4, h5, h7⟩
end gso

section chol
open Gama.Ls.Chol Gama.Ls.AdjM
variable {K : Type} [Field K] [LinearOrder K] [IsStrictOrderedRing K] [SqrtFn K]
attribute [local instance 2000] scalarOfField

/-- cholesky (`AdjCholDec`): two regularisation lists on the same problem -/
theorem C08_chol_datum (p : Problem K) (reg' : Reg)
    (hU : UnambiguousF (cholFact p)) (hsq : GsSqrtExact p) (hnd : ∀ S, regList p.n p.reg = some S → S.Nodup)
    (hU' : UnambiguousF (cholFact { p with reg := reg' })) (hsq' : GsSqrtExact { p with reg := reg' })
    (hnd' : ∀ S, regList p.n reg' = some S → S.Nodup)
    (a a' : Answer K) (h : cholSolve p = .ok a) (h' : cholSolve { p with reg := reg' } = .ok a') :
    toVec p.m a.r = toVec p.m a'.r ∧ a.rtr = a'.rtr ∧ p.A *ᵥ toVec p.n a.x = p.A *ᵥ toVec p.n a'.x
      ∧ p.A *ᵥ (toVec p.n a.x - toVec p.n a'.x) = 0
      ∧ (∀ g, p.A *ᵥ g = 0 → ∑ i ∈ p.S, toVec p.n a.x i * g i = 0)
      ∧ (∀ y, (p.A)ᵀ *ᵥ ((1 : Matrix (Fin p.m) (Fin p.m) K) *ᵥ (p.A *ᵥ y - p.b)) = 0 →
            normS p.S (toVec p.n a.x) ≤ normS p.S y) := by
  have hS := Gama.Props.C01.C01_cholesky_singular p hU hsq hnd a h
  have hS' : IsLSSolution p.A p.b 1 (reg'.toFinset p.n) (toVec p.n a'.x) (toVec p.m a'.r) a'.rtr :=
    Gama.Props.C01.C01_cholesky_singular { p with reg := reg' } hU' hsq' hnd' a' h'
  obtain ⟨h1, h2, h3, h4, h5, -, h7, -⟩ := C08_datum_pair one_pd hS hS'
  exact ⟨h1, h2, h3, h4, h5, h7⟩

/-- the facade `Adj` (homogenisation by the Cholesky factor of the covariance matrix) in front of any
    full solver, correlated observations included (`P = C⁻¹` symmetric positive definite): two
    regularisation lists on the same problem -/
theorem C08_adj_datum (alg alg' : Alg) (halg : alg ≠ .env) (halg' : alg' ≠ .env) (p : Problem K) (reg' : Reg)
    (hsq : SqrtExactP p) (hsq' : SqrtExactP { p with reg := reg' })
    (hdim : (dimsOf p).sum = p.m) (hrows : RowsOK p) (hrows' : RowsOK { p with reg := reg' })
    (P : Matrix (Fin p.m) (Fin p.m) K) (hP : p.C * P = 1) (hpd : ∀ d, d ≠ 0 → 0 < d ⬝ᵥ P *ᵥ d)
    (hsol : ∀ Ad bd s, homogenise p = .ok (Ad, bd) →
      solverOf alg (dotProblem p Ad bd (regOf p.reg)) = .ok s →
      IsLSSolution (dotProblem p Ad bd (regOf p.reg)).A (dotProblem p Ad bd (regOf p.reg)).b 1
        (dotProblem p Ad bd (regOf p.reg)).S (toVec p.n s.x) (toVec p.m s.r) s.rtr)
    (hsol' : ∀ Ad bd s, homogenise { p with reg := reg' } = .ok (Ad, bd) →
      solverOf alg' (dotProblem { p with reg := reg' } Ad bd (regOf reg')) = .ok s →
      IsLSSolution (dotProblem { p with reg := reg' } Ad bd (regOf reg')).A
        (dotProblem { p with reg := reg' } Ad bd (regOf reg')).b 1
        (dotProblem { p with reg := reg' } Ad bd (regOf reg')).S (toVec p.n s.x) (toVec p.m s.r) s.rtr)
    (a a' : Answer K) (h : adjSolve alg p = .ok a) (h' : adjSolve alg' { p with reg := reg' } = .ok a') :
    toVec p.m a.r = toVec p.m a'.r ∧ a.rtr = a'.rtr ∧ p.A *ᵥ toVec p.n a.x = p.A *ᵥ toVec p.n a'.x
      ∧ p.A *ᵥ (toVec p.n a.x - toVec p.n a'.x) = 0
      ∧ (∀ g, p.A *ᵥ g = 0 → ∑ i ∈ p.S, toVec p.n a.x i * g i = 0)
      ∧ (∀ y, (p.A)ᵀ *ᵥ (P *ᵥ (p.A *ᵥ y - p.b)) = 0 → normS p.S (toVec p.n a.x) ≤ normS p.S y) := by
  have hS := Gama.Props.C01.C01_adj_facade alg halg p hsq hdim hrows P hP hsol a h
  have hS' : IsLSSolution p.A p.b P (reg'.toFinset p.n) (toVec p.n a'.x) (toVec p.m a'.r) a'.rtr :=
    Gama.Props.C01.C01_adj_facade alg' halg' { p with reg := reg' } hsq' hdim hrows' P hP hsol' a' h'
  obtain ⟨h1, h2, h3, h4, h5, -, h7, -⟩ := C08_datum_pair hpd hS hS'
  exact ⟨h1, h2, h3, h4, h5, h7⟩
end chol

section env
open Gama.Ls.Env
variable {K : Type} [Field K] [LinearOrder K] [IsStrictOrderedRing K] {sq : K → K}

/-- envelope (`AdjEnvelope`, sparse Cholesky of the normal equations): two regularisation lists on the
    same (homogenised) problem, weights `P = WᵀW` -/
theorem C08_env_datum (hsq : IsSqrt sq) (tol stol : K) (m n : ℕ) (A : DMat K) (b : Array K)
    (At : DMat K) (bt : Array K) (reg reg' : Reg) (o : EnvOrd) (hO : OrdOK n o)
    (hU : FactUnambiguous sq tol m n At bt o) (htol : 0 < tol) (hstol : 0 < stol)
    {P W : Matrix (Fin m) (Fin m) K} (hW : Wᵀ * W = P) (hWinj : ∀ d, W *ᵥ d = 0 → d = 0)
    (hAt : toMatrix m n At = W * toMatrix m n A) (hbt : toVec m bt = W *ᵥ toVec m b)
    (hreg : RegOK n o reg (reg.toFinset n)) (hreg' : RegOK n o reg' (reg'.toFinset n)) {x x' : Array K}
    (hx : (@envCore K (fieldScalar sq) tol stol m n A b At bt reg o).x = .ok x)
    (hx' : (@envCore K (fieldScalar sq) tol stol m n A b At bt reg' o).x = .ok x')
    (hpd : ∀ d, d ≠ 0 → 0 < d ⬝ᵥ P *ᵥ d) :
    toVec m (@envCore K (fieldScalar sq) tol stol m n A b At bt reg o).r
        = toVec m (@envCore K (fieldScalar sq) tol stol m n A b At bt reg' o).r
      ∧ (@envCore K (fieldScalar sq) tol stol m n A b At bt reg o).rtr
        = (@envCore K (fieldScalar sq) tol stol m n A b At bt reg' o).rtr
      ∧ toMatrix m n A *ᵥ toVec n x = toMatrix m n A *ᵥ toVec n x'
      ∧ (∀ g, toMatrix m n A *ᵥ g = 0 → ∑ i ∈ reg.toFinset n, toVec n x i * g i = 0)
      ∧ (∀ y, (toMatrix m n A)ᵀ *ᵥ (P *ᵥ (toMatrix m n A *ᵥ y - toVec m b)) = 0 →
            normS (reg.toFinset n) (toVec n x) ≤ normS (reg.toFinset n) y) := by
  have hS := Gama.Props.C01.C01_envelope_singular sq hsq tol stol m n A b At bt reg o hO hU htol hstol hW hWinj hAt hbt hreg hx
  have hS' := Gama.Props.C01.C01_envelope_singular sq hsq tol stol m n A b At bt reg' o hO hU htol hstol hW hWinj hAt hbt hreg' hx'
  obtain ⟨h1, h2, h3, -, h5, -, h7, -⟩ := C08_datum_pair hpd hS hS'
  exact ⟨h1, h2, h3, h5, h7⟩
end env

end Gama.Props.C08
