/-
  C09, the link `weight_obs(i) = (m_0_apr / revised_obs_[i-1]->stdDev())²` ↔ "the variance of THAT observation".

  `Observation::stdDev()` is `cluster->stdDev(cluster_index)` = `sqrt(covariance_matrix(cluster_index+1, cluster_index+1))`
  on the FULL covariance matrix of the cluster, with `cluster_index` assigned by `Cluster<Observation>::update()`;
  the adjustment takes its weights from `activeCov()` (the sub-matrix of the ACTIVE observations, index list
  `Cov.activeIdx`).  Each site is fine alone; the statistics (`weight_obs`, hence `<qrr>`, `sigma_L`, `<std-residual>`,
  `<err-obs>/<err-adj>`) belong to the weights of the adjustment only if `cluster_index` is the position in the FULL
  list — also when earlier observations of the cluster are passive.  (Seeded change `seeded/C09-seed4`: the assignment
  moved inside `if (p->active())`; it then counts active observations only.)

  * `gen_clusterWalk`, `gen_clusterUpdate`, `gen_clusterStdDev` — the loop of `update()` and `stdDev` REGENERATED from
    lib/gnu_gama/obsdata.h / observation.cpp (`Gen/ClusterUpdate.lean`, tools/gen/c09_cluster.py; the position of the
    assignment relative to the `if` is part of the generated text) equal the reference model `Model/ClusterIndex.lean`;
  * `C09_weight_obs_is_own_variance` — every cluster, every activity pattern, every position `j` of the full list:
    `cluster_index = j`, `stdDev()` reads `sqrt(cov(j+1, j+1))`, independent of the activity of the other observations;
    and `Net.obsStdDev np` of the façade model (`Model/NetFacade.lean`, written with the index list of `activeCov()`) is,
    entry by entry, `stdDev()` through `cluster_index` of the active observations in cluster order; so
    `Net.weightObs np i = (m0 / stdDev)²` with THAT standard deviation — over ANY `[Scalar K]` (no field law is used:
    the statement is pure data movement and also holds at `Float`);
  * `C09_cluster_index_sigma` — composed with `obsStdDev_get` (`Lemmas/Ls/NetFacadeStdDev.lean`, the lemma behind
    `C03_net_weight_obs`): the value is `√Σ_ss`, `Σ = Sigma np` the covariance matrix of the active observations.
  Each property theorem re-derives the `gen_*` equality it needs inside its own proof, so that a changed source breaks
  it BY NAME.
-/
import Gama.Lemmas.ClusterIndex
import Gama.Gen.ClusterUpdate
import Gama.Lemmas.Ls.NetFacadeStdDev
namespace Gama.Props.C09
open Gama Gama.Cov Gama.Ls Gama.Ls.Net

set_option linter.unusedVariables false
set_option linter.unusedSectionVars false

/-- **regenerated loop of `Cluster<Observation>::update()` = reference model**, from any loop state:
    the `cluster_index` values handed out are `index, index+1, …` for EVERY observation (active or not), and
    `act_obs`, `act_dim` count the active ones -/
theorem gen_clusterWalk (obs : List ObsInfo) (index ao ad : Nat) :
    (ClusterGen.walk index ao ad obs).1 = (Cov.updateIdx index obs).map some ∧
    (ClusterGen.walk index ao ad obs).2
      = (ao + (obs.filter (·.active)).length, ad + ((obs.filter (·.active)).map (·.dimension)).sum) := by
  induction obs generalizing index ao ad with
  | nil => exact ⟨rfl, rfl⟩
  | cons p rest ih =>
    unfold ClusterGen.walk
    cases h : p.active
    · simp [ClusterGen.step, h, ih, Cov.updateIdx]
    · simp [ClusterGen.step, h, ih, Cov.updateIdx]
      omega

/-- **`update()` regenerated = reference**: the indices are those of `Cov.updateIdx 0` (all assigned), the cached
    counts are `act_obs`, `act_dim` of `Cov.clusterUpdate` (`Model/ActiveCov.lean`, C10's model) -/
theorem gen_clusterUpdate (obs : List ObsInfo) (band : Nat) :
    (ClusterGen.update obs).1 = (Cov.updateIdx 0 obs).map some ∧
    (ClusterGen.update obs).2 = ((Cov.clusterUpdate obs band).1, (Cov.clusterUpdate obs band).2.1) ∧
    (∀ j, ClusterGen.clusterIndex obs j = Cov.clusterIndex obs j) := by
  have hw : ∀ (obs : List ObsInfo) (index ao ad : Nat),
      (ClusterGen.walk index ao ad obs).1 = (Cov.updateIdx index obs).map some ∧
      (ClusterGen.walk index ao ad obs).2
        = (ao + (obs.filter (·.active)).length, ad + ((obs.filter (·.active)).map (·.dimension)).sum) := by
    intro obs
    induction obs with
    | nil => intro _ _ _; exact ⟨rfl, rfl⟩
    | cons p rest ih =>
      intro index ao ad
      unfold ClusterGen.walk
      cases h : p.active
      · simp [ClusterGen.step, h, ih, Cov.updateIdx]
      · simp [ClusterGen.step, h, ih, Cov.updateIdx]
        omega
  have h1 : (ClusterGen.update obs).1 = (Cov.updateIdx 0 obs).map some := (hw obs 0 0 0).1
  refine ⟨h1, ?_, ?_⟩
  · show (ClusterGen.walk 0 0 0 obs).2 = _
    rw [(hw obs 0 0 0).2]
    simp [Cov.clusterUpdate]
  · intro j
    unfold ClusterGen.clusterIndex Cov.clusterIndex
    rw [h1, List.getElem?_map]
    cases (Cov.updateIdx 0 obs)[j]? <;> rfl

/-- **`Cluster::stdDev(int)` regenerated = reference**: `i++; sqrt(covariance_matrix(i,i))` -/
theorem gen_clusterStdDev {K : Type} [Scalar K] (cov : CovMat K) (i : Nat) :
    ClusterGen.stdDev cov i = Cov.stdDevAt cov i ∧
    ClusterGen.stdDev cov i = Scalar.sqrt (cov.get (i + 1) (i + 1)) := ⟨rfl, rfl⟩

/-- **the standard deviation `weight_obs` uses is the one of THAT observation.**
    (1) every cluster (any covariance matrix, any observation list, any activity pattern), every position `j` of the
        full list: `update()` assigns `cluster_index = j` and `Observation::stdDev()` reads
        `sqrt(covariance_matrix(j+1, j+1))` — the variance of the observation itself;
    (2) that value does not depend on which observations of the cluster are active;
    (3) `Net.obsStdDev np` (`Model/NetFacade.lean`: the index list of `activeCov()`, i.e. the weights of the adjustment)
        is entry by entry `stdDev()` through `cluster_index` of the active observations in cluster order
        (`Cov.activePos`: the positions `j` with `active[j]`, ascending — `Cov.mem_activePos`);
    (4) hence `weight_obs(i) = (m0 / stdDev)²` with the standard deviation of the i-th active observation itself.
    Over any `[Scalar K]`. -/
theorem C09_weight_obs_is_own_variance {K : Type} [Scalar K] :
    (∀ (cov : CovMat K) (obs : List ObsInfo) (j : Nat), j < obs.length →
        ClusterGen.clusterIndex obs j = some j ∧
        ClusterGen.observationStdDev cov obs j = some (Scalar.sqrt (cov.get (j + 1) (j + 1)))) ∧
    (∀ (cov : CovMat K) (obs obs' : List ObsInfo) (j : Nat), j < obs.length → j < obs'.length →
        ClusterGen.observationStdDev cov obs j = ClusterGen.observationStdDev cov obs' j) ∧
    (∀ np : NetProblem K,
        (obsStdDev np).toList.map some
          = np.clusters.flatMap fun c =>
              (Cov.activePos c.active).map fun j => ClusterGen.observationStdDev c.cov c.obs j) ∧
    (∀ (np : NetProblem K) (i : Nat),
        Net.weightObs np i
          = StatsGen.weightObs np.m0
              ((((np.clusters.flatMap fun c =>
                    (Cov.activePos c.active).map fun j => ClusterGen.observationStdDev c.cov c.obs j)[i - 1]?).join).getD 0)) := by
  -- the regenerated numbering IS the reference numbering (re-derived here: a changed source breaks THIS theorem)
  have hw : ∀ (obs : List ObsInfo) (index ao ad : Nat),
      (ClusterGen.walk index ao ad obs).1 = (Cov.updateIdx index obs).map some := by
    intro obs
    induction obs with
    | nil => intro _ _ _; rfl
    | cons p rest ih =>
      intro index ao ad
      unfold ClusterGen.walk
      cases h : p.active <;> simp [ClusterGen.step, h, ih, Cov.updateIdx]
  have hci : ∀ (obs : List ObsInfo) (j : Nat), ClusterGen.clusterIndex obs j = Cov.clusterIndex obs j := by
    intro obs j
    unfold ClusterGen.clusterIndex Cov.clusterIndex ClusterGen.update
    rw [hw obs 0 0 0, List.getElem?_map]
    cases (Cov.updateIdx 0 obs)[j]? <;> rfl
  have hsd : ∀ (cov : CovMat K) (obs : List ObsInfo) (j : Nat),
      ClusterGen.observationStdDev cov obs j = Cov.observationStdDev cov obs j := by
    intro cov obs j
    unfold ClusterGen.observationStdDev Cov.observationStdDev
    rw [hci]
    rfl
  have h1 : ∀ (cov : CovMat K) (obs : List ObsInfo) (j : Nat), j < obs.length →
      ClusterGen.observationStdDev cov obs j = some (Scalar.sqrt (cov.get (j + 1) (j + 1))) := by
    intro cov obs j h
    rw [hsd, Cov.observationStdDev_own cov obs j h]
  have h3 : ∀ np : NetProblem K,
      (obsStdDev np).toList.map some
        = np.clusters.flatMap fun c =>
            (Cov.activePos c.active).map fun j => ClusterGen.observationStdDev c.cov c.obs j := by
    intro np
    rw [obsStdDev_via_index np]
    have : (fun c : Cluster K => (Cov.activePos c.active).map fun j => Cov.observationStdDev c.cov c.obs j)
        = fun c : Cluster K => (Cov.activePos c.active).map fun j => ClusterGen.observationStdDev c.cov c.obs j := by
      funext c
      exact List.map_congr_left fun j _ => (hsd c.cov c.obs j).symm
    rw [this]
  refine ⟨fun cov obs j h => ⟨by rw [hci, Cov.clusterIndex_eq obs j h], h1 cov obs j h⟩,
    fun cov obs obs' j h h' => by rw [h1 cov obs j h, h1 cov obs' j h'], h3, ?_⟩
  intro np i
  rw [← h3 np]
  unfold Net.weightObs Dn.vget
  congr 1
  rw [List.getElem?_map]
  simp only [Array.getD_eq_getD_getElem?, Array.getElem?_toList]
  cases (obsStdDev np)[i - 1]? <;> rfl

section field
variable {K : Type} [Field K] [LinearOrder K] [IsStrictOrderedRing K] [Gama.Ls.SqrtFn K]
attribute [local instance 2000] Gama.Ls.scalarOfField

/-- **composition with `C03_net_weight_obs`' lemma** (`obsStdDev_get`): `stdDev()` — through `cluster_index` — of the
    s-th ACTIVE observation of the network is `√Σ_ss`, `Σ = Sigma np` the covariance matrix of the active observations
    (the matrix whose inverse, times `m0²`, is the weight matrix of the adjustment: `C01_net_cofactor`), and
    `weight_obs(s+1) = (m0/√Σ_ss)²` -/
theorem C09_cluster_index_sigma (np : NetProblem K) (hdim : (dimsN np).sum = np.m) (s : Nat) (hs : s < np.m) :
    (((np.clusters.flatMap fun c =>
        (Cov.activePos c.active).map fun j => ClusterGen.observationStdDev c.cov c.obs j)[s]?).join).getD 0
      = Scalar.sqrt (sigmaF np s s) ∧
    Net.weightObs np (s + 1) = StatsGen.weightObs np.m0 (Scalar.sqrt (sigmaF np s s)) := by
  obtain ⟨-, -, h3, h4⟩ := @C09_weight_obs_is_own_variance K _
  have hg := obsStdDev_get np hdim s hs
  have h4' := h4 np (s + 1)
  simp only [Nat.add_sub_cancel] at h4'
  have hv : Dn.vget (obsStdDev np) s
      = (((np.clusters.flatMap fun c =>
          (Cov.activePos c.active).map fun j => ClusterGen.observationStdDev c.cov c.obs j)[s]?).join).getD 0 := by
    rw [← h3 np, List.getElem?_map]
    unfold Dn.vget
    simp only [Array.getD_eq_getD_getElem?, Array.getElem?_toList]
    cases (obsStdDev np)[s]? <;> rfl
  refine ⟨by rw [← hv, hg], ?_⟩
  rw [h4', ← hv, hg]

end field

/-! ## non-vacuity / sensitivity -/

/-- a cluster `[passive, active, active]`: hypotheses of (1) hold at every position, and the REGENERATED numbering
    evaluates to the position in the full list (kernel evaluation of `Gen/ClusterUpdate.lean`) -/
example : (1 : Nat) < [(⟨false, 1⟩ : ObsInfo), ⟨true, 1⟩, ⟨true, 1⟩].length ∧
    (ClusterGen.update [⟨false, 1⟩, ⟨true, 1⟩, ⟨true, 1⟩]) = ([some 0, some 1, some 2], 2, 2) ∧
    ClusterGen.clusterIndex [⟨false, 1⟩, ⟨true, 1⟩, ⟨true, 1⟩] 1 = some 1 ∧
    Cov.activePos [false, true, true] = [1, 2] ∧
    Cov.activeIdx 1 [⟨false, 1⟩, ⟨true, 1⟩, ⟨true, 1⟩] = [2, 3] := by decide

/-- **sensitivity**: with the rule of the seeded change (index advanced for active observations only) the cluster
    `[passive, active]` with variances `25, 9` gives the active observation index 0, and `stdDev()` then reads the
    variance 25 of the PASSIVE one instead of its own 9 — the theorem above is not vacuous, and is false for that rule -/
example : Cov.seededUpdateIdx 0 [⟨false, 1⟩, ⟨true, 1⟩] = [0, 0] ∧
    Cov.updateIdx 0 [⟨false, 1⟩, ⟨true, 1⟩] = [0, 1] ∧
    (⟨2, 0, #[25, 9]⟩ : CovMat Int).get (0 + 1) (0 + 1) = 25 ∧
    (⟨2, 0, #[25, 9]⟩ : CovMat Int).get (1 + 1) (1 + 1) = 9 ∧
    (⟨2, 0, #[25, 9]⟩ : CovMat Int).get (0 + 1) (0 + 1) ≠ (⟨2, 0, #[25, 9]⟩ : CovMat Int).get (1 + 1) (1 + 1) := by decide

/-- hypotheses of `C09_cluster_index_sigma` (`hdim`, `s < np.m`) on a network over ℚ with ONE cluster
    `[passive, active]` (variances 25, 9): one adjusted observation, `dimsN = [1]` -/
example : ∃ np : NetProblem ℚ, (dimsN np).sum = np.m ∧ 0 < np.m ∧
    (np.clusters.map fun c => Cov.activePos c.active) = [[1]] :=
  ⟨{ m := 1, n := 1, rows := #[#[(1, 1)]], rhs := #[0], clusters := [⟨⟨2, 0, #[25, 9]⟩, [false, true]⟩],
     m0 := 2, minx := [] }, by decide, by decide, by decide⟩

end Gama.Props.C09
