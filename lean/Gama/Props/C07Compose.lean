/-
  C07 ∘ C09 — the error ellipse REPORTED for the mirrored description is the eigen-decomposition of
  the covariance block OF the mirrored adjustment.

  Possible since `Scalar ℝ` is declared once (`Lemmas/RealScalar.lean`): `Props/C07.lean` and
  `Props/C09.lean` are imported together and three theorems are composed

  * `C07_cofactor_transport` — the cofactor matrix of the mirrored adjustment is `Q' = D_t Q D_t`
    (a reflexive g-inverse of the mirrored normal matrix that belongs to the same subset);
  * `C07_ellipse_transport`  — on the generated `std_error_ellipse`: `cxy ↦ -cxy` keeps both
    semi-axes and maps the bearing `α ↦ π − α` (`0 ↦ 0`);
  * `C09_ellipse_is_eigen_full` — `std_error_ellipse` of a positive semidefinite block is its
    eigen-decomposition, with a unique bearing unless the eigenvalues coincide.

  Both property files speak about the SAME `Gen/StatsGen.lean` definition over the same `Scalar ℝ`;
  their `StatsTrig ℝ` instances (`Gama.instTrigRealC07`, `Gama.instStatsTrigReal`) are equal by `rfl`.
-/
import Gama.Props.C07
import Gama.Props.C09
namespace Gama.Props.C07
open Gama Gama.Lin Real Matrix

/-- C07's and C09's `StatsTrig ℝ` (`atan2 y x = arg (x + y i)`, `pi = π`) are the same instance -/
theorem trigReal_C07_eq_C09 : (Gama.instTrigRealC07 : StatsTrig ℝ) = Gama.instStatsTrigReal := rfl

/-- **the ellipse of the mirrored adjustment.**  `Q` the cofactor matrix of an adjustment (`A`, `P`,
    regularisation subset `S`), `ix`, `iy` the unknowns of one point, whose block is positive
    semidefinite.  Mirror the description (`A' = D_s A D_t`, `P' = D_s P D_s`, signs `±1`, `ix` and `iy`
    of opposite sign — the y flip).  Then
    (1) `Q' = D_t Q D_t` is the cofactor matrix of the mirrored adjustment, with the block
        `(cxx, -cxy, cyy)`;
    (2) the ellipse reported from `Q'` has the same semi-axes and the bearing `π − α` (`0` for `α = 0`);
    (3) it IS the eigen-decomposition of the mirrored block: `a'² = m0² λ₁`, `b'² = m0² λ₂` for the
        eigenvalues `λ₁ ≥ λ₂ ≥ 0` of the block of `Q'` (trace and determinant), `(cos α', sin α')` is an
        eigenvector of the block of `Q'` for `λ₁`, `α' ∈ [0, π)`, unique there unless `λ₁ = λ₂`;
    (4) with the SAME `λ₁, λ₂` the original ellipse is the eigen-decomposition of the block of `Q`, and
        the mirrored major axis is the mirror image of the original one:
        `(cos α', sin α') = ε (cos α, −sin α)`, `ε = ±1`. -/
theorem C07_mirrored_ellipse_is_eigen {m n : Type*} [Fintype m] [Fintype n] [DecidableEq m] [DecidableEq n]
    (A : Matrix m n ℝ) (P : Matrix m m ℝ) (Q : Matrix n n ℝ) (S : Finset n)
    (hQ : LS.IsReflGInv (Aᵀ * P * A) Q) (hb : LS.BelongsTo A S Q)
    (s : m → ℝ) (t : n → ℝ) (hs : ∀ i, s i * s i = 1) (ht : ∀ j, t j * t j = 1)
    (ix iy : n) (hxy : t ix = -t iy) (m0 : ℝ) (hm : 0 ≤ m0)
    (hxx : 0 ≤ Q ix ix) (hyy : 0 ≤ Q iy iy) (hdet : Q ix iy ^ 2 ≤ Q ix ix * Q iy iy) :
    -- (1)
    LS.IsReflGInv ((diagonal s * A * diagonal t)ᵀ * (diagonal s * P * diagonal s) * (diagonal s * A * diagonal t))
      (diagonal t * Q * diagonal t) ∧
    LS.BelongsTo (diagonal s * A * diagonal t) S (diagonal t * Q * diagonal t) ∧
    (diagonal t * Q * diagonal t) ix ix = Q ix ix ∧ (diagonal t * Q * diagonal t) iy iy = Q iy iy ∧
    (diagonal t * Q * diagonal t) ix iy = -Q ix iy ∧
    -- (2)
    (StatsGen.stdErrorEllipse ((diagonal t * Q * diagonal t) iy iy) ((diagonal t * Q * diagonal t) ix iy)
        ((diagonal t * Q * diagonal t) ix ix) m0).1
      = (StatsGen.stdErrorEllipse (Q iy iy) (Q ix iy) (Q ix ix) m0).1 ∧
    (StatsGen.stdErrorEllipse ((diagonal t * Q * diagonal t) iy iy) ((diagonal t * Q * diagonal t) ix iy)
        ((diagonal t * Q * diagonal t) ix ix) m0).2.1
      = (StatsGen.stdErrorEllipse (Q iy iy) (Q ix iy) (Q ix ix) m0).2.1 ∧
    (StatsGen.stdErrorEllipse ((diagonal t * Q * diagonal t) iy iy) ((diagonal t * Q * diagonal t) ix iy)
        ((diagonal t * Q * diagonal t) ix ix) m0).2.2
      = (if (StatsGen.stdErrorEllipse (Q iy iy) (Q ix iy) (Q ix ix) m0).2.2 = 0 then 0
         else π - (StatsGen.stdErrorEllipse (Q iy iy) (Q ix iy) (Q ix ix) m0).2.2) ∧
    -- (3), (4)
    ∃ l1 l2 a' b' α' a b α ε : ℝ,
      StatsGen.stdErrorEllipse ((diagonal t * Q * diagonal t) iy iy) ((diagonal t * Q * diagonal t) ix iy)
        ((diagonal t * Q * diagonal t) ix ix) m0 = (a', b', α') ∧
      StatsGen.stdErrorEllipse (Q iy iy) (Q ix iy) (Q ix ix) m0 = (a, b, α) ∧
      l1 + l2 = (diagonal t * Q * diagonal t) ix ix + (diagonal t * Q * diagonal t) iy iy ∧
      l1 * l2 = (diagonal t * Q * diagonal t) ix ix * (diagonal t * Q * diagonal t) iy iy
        - (diagonal t * Q * diagonal t) ix iy ^ 2 ∧
      0 ≤ l2 ∧ l2 ≤ l1 ∧
      a' ^ 2 = m0 ^ 2 * l1 ∧ b' ^ 2 = m0 ^ 2 * l2 ∧ 0 ≤ b' ∧ b' ≤ a' ∧
      (diagonal t * Q * diagonal t) ix ix * cos α' + (diagonal t * Q * diagonal t) ix iy * sin α' = l1 * cos α' ∧
      (diagonal t * Q * diagonal t) ix iy * cos α' + (diagonal t * Q * diagonal t) iy iy * sin α' = l1 * sin α' ∧
      0 ≤ α' ∧ α' < π ∧ (l1 = l2 → α' = 0) ∧
      (l1 ≠ l2 → ∀ β : ℝ, 0 ≤ β → β < π →
        (diagonal t * Q * diagonal t) ix ix * cos β + (diagonal t * Q * diagonal t) ix iy * sin β = l1 * cos β →
        (diagonal t * Q * diagonal t) ix iy * cos β + (diagonal t * Q * diagonal t) iy iy * sin β = l1 * sin β →
        β = α') ∧
      -- (4)
      l1 + l2 = Q ix ix + Q iy iy ∧ l1 * l2 = Q ix ix * Q iy iy - Q ix iy ^ 2 ∧
      a ^ 2 = m0 ^ 2 * l1 ∧ b ^ 2 = m0 ^ 2 * l2 ∧ a' = a ∧ b' = b ∧
      Q ix ix * cos α + Q ix iy * sin α = l1 * cos α ∧
      Q ix iy * cos α + Q iy iy * sin α = l1 * sin α ∧
      0 ≤ α ∧ α < π ∧ α' = (if α = 0 then 0 else π - α) ∧
      (ε = 1 ∨ ε = -1) ∧ cos α' = ε * cos α ∧ sin α' = -(ε * sin α) := by
  obtain ⟨-, hmir, -⟩ := C07_cofactor_transport (m' := m) (n' := n) A P Q S hQ hb
  obtain ⟨hG, hB, hent, hdiag, hoff, -, -⟩ := hmir s t hs ht
  have exx := hdiag ix
  have eyy := hdiag iy
  have exy := hoff ix iy hxy
  obtain ⟨t1, t2, t3, t4, t5⟩ := C07_ellipse_transport (Q ix ix) (Q ix iy) (Q iy iy) m0
  have hdet' : (-Q ix iy) ^ 2 ≤ Q ix ix * Q iy iy := by rw [neg_sq]; exact hdet
  obtain ⟨l1, l2, c1, c2, c3, c4, c5, c6, c7, c8, c9, c10, c11, c12, c13, c14⟩ :=
    Gama.Props.C09.C09_ellipse_is_eigen_full (Q ix ix) (-Q ix iy) (Q iy iy) m0 hm hxx hyy hdet'
  rw [exx, eyy, exy]
  generalize hE' : StatsGen.stdErrorEllipse (Q iy iy) (-Q ix iy) (Q ix ix) m0 = E' at *
  generalize hE : StatsGen.stdErrorEllipse (Q iy iy) (Q ix iy) (Q ix ix) m0 = E at *
  obtain ⟨a', b', α'⟩ := E'
  obtain ⟨a, b, α⟩ := E
  dsimp only at *
  have hcs : (if α = 0 then (1 : ℝ) else -1) = 1 ∨ (if α = 0 then (1 : ℝ) else -1) = -1 := by
    split_ifs <;> simp
  have hcos : cos α' = (if α = 0 then (1 : ℝ) else -1) * cos α := by
    rw [t3]; split_ifs with h0
    · rw [h0, one_mul]
    · rw [Real.cos_pi_sub, neg_one_mul]
  have hsin : sin α' = -((if α = 0 then (1 : ℝ) else -1) * sin α) := by
    rw [t3]; split_ifs with h0
    · rw [h0, Real.sin_zero, mul_zero, neg_zero]
    · rw [Real.sin_pi_sub]; ring
  refine ⟨hG, hB, rfl, rfl, rfl, t1, t2, t3, l1, l2, a', b', α', a, b, α, if α = 0 then 1 else -1,
    rfl, rfl, c1, c2, c3, c4, c5, c6, c7, c8, c9, c10, c11, c12, c13, c14, c1, ?_, ?_, ?_, t1, t2, ?_, ?_,
    t4, t5, t3, hcs, hcos, hsin⟩
  · rw [c2, neg_sq]
  · rw [← t1]; exact c5
  · rw [← t2]; exact c6
  · rw [hcos, hsin] at c9
    rcases hcs with h | h <;> rw [h] at c9 <;> linarith
  · rw [hcos, hsin] at c10
    rcases hcs with h | h <;> rw [h] at c10 <;> linarith

/-! ## non-vacuity -/

/-- the hypotheses are met by a block with correlation and distinct eigenvalues: `A = 1`,
    `Q = [[2,1],[1,2]]`, `P = Q⁻¹ = [[2,-1],[-1,2]]/3`, signs `(1, -1)` on the unknowns, `m0 = 1`;
    eigenvalues 3 and 1, so the uniqueness clause is not vacuous either -/
example : LS.IsReflGInv ((1 : Matrix (Fin 2) (Fin 2) ℝ)ᵀ * !![2/3, -1/3; -1/3, 2/3] * 1) !![2, 1; 1, 2] ∧
    LS.BelongsTo (1 : Matrix (Fin 2) (Fin 2) ℝ) {0} !![2, 1; 1, 2] ∧
    (∀ i, (![1, 1] : Fin 2 → ℝ) i * ![1, 1] i = 1) ∧ (∀ j, (![1, -1] : Fin 2 → ℝ) j * ![1, -1] j = 1) ∧
    (![1, -1] : Fin 2 → ℝ) 0 = -(![1, -1] : Fin 2 → ℝ) 1 ∧ (0 : ℝ) ≤ 1 ∧
    (0 : ℝ) ≤ (!![2, 1; 1, 2] : Matrix (Fin 2) (Fin 2) ℝ) 0 0 ∧
    (0 : ℝ) ≤ (!![2, 1; 1, 2] : Matrix (Fin 2) (Fin 2) ℝ) 1 1 ∧
    (!![2, 1; 1, 2] : Matrix (Fin 2) (Fin 2) ℝ) 0 1 ^ 2 ≤
      (!![2, 1; 1, 2] : Matrix (Fin 2) (Fin 2) ℝ) 0 0 * (!![2, 1; 1, 2] : Matrix (Fin 2) (Fin 2) ℝ) 1 1 ∧
    (3 : ℝ) + 1 = 2 + 2 ∧ (3 : ℝ) * 1 = 2 * 2 - 1 ^ 2 ∧ (3 : ℝ) ≠ 1 := by
  refine ⟨⟨?_, ?_⟩, fun y g hg => ?_, fun i => by fin_cases i <;> simp, fun j => by fin_cases j <;> simp,
    by simp, by norm_num, by simp, by simp, by simp; norm_num, by norm_num, by norm_num, by norm_num⟩
  · ext i j; fin_cases i <;> fin_cases j <;> simp [Matrix.mul_apply, Fin.sum_univ_two] <;> norm_num
  · ext i j; fin_cases i <;> fin_cases j <;> simp [Matrix.mul_apply, Fin.sum_univ_two] <;> norm_num
  · have : g = 0 := by simpa using hg
    simp [this]

end Gama.Props.C07
