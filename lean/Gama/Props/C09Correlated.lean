/-
  C09 — what `LocalNetwork` reports as the standard deviation of an adjusted observation inside a CORRELATED
  cluster, QUANTIFIED (known finding C09-F1 / C07-F2; `C09_sigmaL_correlated_partial`/`_violated` of `Props/C09.lean`
  characterise and exhibit it, here it is measured).

  A cluster's cofactor block is `C = L Lᵀ` (`L` the lower Cholesky factor, positive diagonal).  The homogenised
  system has the hat matrix `B = Ā Q Āᵀ`, `Ā = L⁻¹A` (`Bᵀ = B`, `B * B = B`; `C03_net_cofactors`), whose diagonal
  the code reads as `q_bb(n,n)`.  TRUE cofactor of the n-th adjusted observation in its own units:
  `t = (A Q Aᵀ)_nn = (L B Lᵀ)_nn`.  The code reports `sigma_L(n)² = m0² · c`, `c = B_nn · C_nn`.

    C09_sigmaL_coded             the regenerated formula (`StatsGen.sigmaL`) squared is `m0² · B_nn · Σ_j (L n j)²`
    C09_sigmaL_correct_iff       `t = c` for every projector `B`  ⇔  row n of `L` is diagonal  ⇔  observation n is
                                 uncorrelated with its predecessors in the cluster (`C n j = 0`, `j < n`)
    C09_sigmaL_correct_all_iff   … for every row ⇔ `L` diagonal ⇔ `C` diagonal
    C09_sigmaL_bound             `0 ≤ t, c ≤ C_nn`, `0 ≤ B_nn ≤ 1`, `|t − c| ≤ 2 ℓ √(B_nn R) + R`,
                                 `ℓ = L n n`, `R = Σ_{j<n} (L n j)²`
    C09_sigmaL_variance_error    `|m0²·t − sigmaL²| ≤ m0² (2 ℓ √(B_nn R) + R)`  (the reported variance against the true one)
    C09_sigmaL_of_net_is_whitened_row   at `LocalNetwork` (hypotheses of `C09_stdev_of_net_gap`): `stdev_obs(k)² = m0² · B_kk · C_kk`,
                                 `B` the hat matrix `qbb` returns (symmetric projector), `C = (toProblem np).C` the cofactor
                                 matrix (`weight_obs(k) · C_kk = 1`); and for every lower factor `L Lᵀ = C` the reported variance
                                 is within `m0² (2 ℓ √(B_kk R) + R)` of `m0² (L B Lᵀ)_kk`

  Linear algebra in `Lemmas/StatsCorrelated.lean`.
-/
import Gama.Props.C09
import Gama.Props.C09InputGap
import Gama.Props.C03.Net
import Gama.Lemmas.StatsCorrelated
namespace Gama.Props.C09
open Gama Gama.Stats Gama.StatsCorr Gama.Ls Gama.Ls.Net Gama.LS Matrix Real

/-- (a) **what the code computes**: with the cluster's cofactor block `C = L Lᵀ` and the observation's a priori
    standard deviation `stdev² = σ_apr² · C_nn`, the regenerated `sigma_L(n)` squared is `m0² · B_nn · Σ_j (L n j)²` -/
theorem C09_sigmaL_coded {N : ℕ} (L B C : Matrix (Fin N) (Fin N) ℝ) (n : Fin N) (m0 sapr stdev : ℝ)
    (hB : 0 ≤ B n n) (hs : sapr ≠ 0) (hC : C = L * Lᵀ) (hst : stdev ^ 2 = sapr ^ 2 * C n n) :
    StatsGen.sigmaL m0 sapr (B n n) stdev ^ 2 = m0 ^ 2 * (B n n * ∑ j, L n j ^ 2) := by
  rw [gen_sigmaL, sigmaL_sq m0 sapr (B n n) stdev hB hs, hst, hC, gram_diag]
  field_simp

/-- (b) **the precise characterisation**, one row: the coded cofactor `B_nn · C_nn` is the true cofactor
    `(L B Lᵀ)_nn` for every hat matrix `B` exactly when row `n` of the Cholesky factor is diagonal, i.e. exactly when
    observation `n` is uncorrelated with its predecessors in the cluster -/
theorem C09_sigmaL_correct_iff {N : ℕ} (L : Matrix (Fin N) (Fin N) ℝ) (hL : ∀ i j, i < j → L i j = 0)
    (hpos : ∀ i, 0 < L i i) (n : Fin N) :
    ((∀ B : Matrix (Fin N) (Fin N) ℝ, Bᵀ = B → B * B = B → (L * B * Lᵀ) n n = B n n * (L * Lᵀ) n n)
        ↔ (∀ j, j < n → L n j = 0)) ∧
    ((∀ j, j < n → L n j = 0) ↔ (∀ j, j < n → (L * Lᵀ) n j = 0)) :=
  ⟨⟨row_diag_of_coded_eq L n, fun h B _ _ => coded_eq_of_row_diag L B hL n h⟩, row_diag_iff_gram L hL hpos n⟩

/-- (b) every row: the coded formula is right for every observation of the cluster and every hat matrix exactly when
    the cluster's cofactor block is diagonal -/
theorem C09_sigmaL_correct_all_iff {N : ℕ} (L : Matrix (Fin N) (Fin N) ℝ) (hL : ∀ i j, i < j → L i j = 0)
    (hpos : ∀ i, 0 < L i i) :
    ((∀ n, ∀ B : Matrix (Fin N) (Fin N) ℝ, Bᵀ = B → B * B = B → (L * B * Lᵀ) n n = B n n * (L * Lᵀ) n n)
        ↔ (∀ i j, i ≠ j → L i j = 0)) ∧
    ((∀ i j, i ≠ j → L i j = 0) ↔ (∀ i j, i ≠ j → (L * Lᵀ) i j = 0)) := by
  have h1 : (∀ i j, i ≠ j → L i j = 0) ↔ (∀ n j, j < n → L n j = 0) :=
    ⟨fun h n j hj => h n j hj.ne', fun h i j hij => (lt_or_gt_of_ne hij).elim (hL i j) (h i j)⟩
  have hsym : ∀ i j, (L * Lᵀ) i j = (L * Lᵀ) j i := fun i j => by
    rw [gram_entry, gram_entry, dotProduct_comm]
  have h2 : (∀ i j, i ≠ j → (L * Lᵀ) i j = 0) ↔ (∀ n j, j < n → (L * Lᵀ) n j = 0) :=
    ⟨fun h n j hj => h n j hj.ne', fun h i j hij =>
      (lt_or_gt_of_ne hij).elim (fun hlt => (hsym i j).trans (h j i hlt)) (h i j)⟩
  rw [h1, h2]
  exact ⟨forall_congr' fun n => (C09_sigmaL_correct_iff L hL hpos n).1,
    forall_congr' fun n => (C09_sigmaL_correct_iff L hL hpos n).2⟩

/-- (c) **the bound**: true cofactor `t = (L B Lᵀ)_nn` against coded cofactor `c = B_nn (L Lᵀ)_nn`, with
    `ℓ = L n n` and `R = Σ_{j<n} (L n j)²` the strictly-lower part of row `n` of the Cholesky factor -/
theorem C09_sigmaL_bound {N : ℕ} (L B : Matrix (Fin N) (Fin N) ℝ) (hL : ∀ i j, i < j → L i j = 0)
    (hsym : Bᵀ = B) (hidem : B * B = B) (n : Fin N) (hℓ : 0 ≤ L n n) :
    (0 ≤ (L * B * Lᵀ) n n ∧ (L * B * Lᵀ) n n ≤ (L * Lᵀ) n n) ∧
    (0 ≤ B n n * (L * Lᵀ) n n ∧ B n n * (L * Lᵀ) n n ≤ (L * Lᵀ) n n) ∧
    (0 ≤ B n n ∧ B n n ≤ 1) ∧
    |(L * B * Lᵀ) n n - B n n * (L * Lᵀ) n n|
      ≤ 2 * L n n * √(B n n * ∑ j with j < n, L n j ^ 2) + ∑ j with j < n, L n j ^ 2 :=
  ⟨true_cof_bounds L B hsym hidem n, coded_cof_bounds L B hsym hidem n,
    ⟨proj_diag_nonneg B hsym hidem n, proj_diag_le_one B hsym hidem n⟩, coded_bound L B hL hsym hidem n hℓ⟩

/-- (c) the bound is 0 on a diagonal row -/
theorem C09_sigmaL_bound_diag_row {N : ℕ} (L B : Matrix (Fin N) (Fin N) ℝ) (n : Fin N)
    (hrow : ∀ j, j < n → L n j = 0) :
    2 * L n n * √(B n n * ∑ j with j < n, L n j ^ 2) + ∑ j with j < n, L n j ^ 2 = 0 := by
  have : ∑ j with j < n, L n j ^ 2 = 0 :=
    Finset.sum_eq_zero fun j hj => by rw [hrow j (Finset.mem_filter.mp hj).2]; ring
  rw [this]; simp

/-- (c) in the units of the report: the variance `sigma_L(n)²` the code reports differs from the true variance
    `m0² (L B Lᵀ)_nn` of the adjusted observation by at most `m0² (2 ℓ √(B_nn R) + R)` -/
theorem C09_sigmaL_variance_error {N : ℕ} (L B C : Matrix (Fin N) (Fin N) ℝ) (n : Fin N) (m0 sapr stdev : ℝ)
    (hL : ∀ i j, i < j → L i j = 0) (hℓ : 0 ≤ L n n) (hsym : Bᵀ = B) (hidem : B * B = B)
    (hs : sapr ≠ 0) (hC : C = L * Lᵀ) (hst : stdev ^ 2 = sapr ^ 2 * C n n) :
    |m0 ^ 2 * (L * B * Lᵀ) n n - StatsGen.sigmaL m0 sapr (B n n) stdev ^ 2|
      ≤ m0 ^ 2 * (2 * L n n * √(B n n * ∑ j with j < n, L n j ^ 2) + ∑ j with j < n, L n j ^ 2) := by
  rw [C09_sigmaL_coded L B C n m0 sapr stdev (proj_diag_nonneg B hsym hidem n) hs hC hst, ← gram_diag,
    ← mul_sub, abs_mul, abs_of_nonneg (sq_nonneg m0)]
  exact mul_le_mul_of_nonneg_left (coded_bound L B hL hsym hidem n hℓ) (sq_nonneg m0)

/-- why `(L B Lᵀ)_nn` is the TRUE cofactor: with the homogenised design `Ā` (`L Ā = A`, what
    `prepareProjectEquations()` leaves: `Lgen · Ad = A`, `Lemmas/Ls/NetFacade.prepare_solve`) and the hat matrix
    `B = Ā Q Āᵀ` the solver returns as `q_bb`, the cofactor matrix of the adjusted observations in their own units,
    `A Q Aᵀ`, is `L B Lᵀ` — for any matrices (no assumption on `Q`) -/
theorem C09_adjusted_obs_cofactor {N M : ℕ} (L : Matrix (Fin N) (Fin N) ℝ) (Ad A : Matrix (Fin N) (Fin M) ℝ)
    (Q : Matrix (Fin M) (Fin M) ℝ) (B : Matrix (Fin N) (Fin N) ℝ) (hA : L * Ad = A) (hB : B = Ad * Q * Adᵀ) :
    A * Q * Aᵀ = L * B * Lᵀ := by
  rw [← hA, hB, Matrix.transpose_mul]
  simp only [Matrix.mul_assoc]

/-! ## at `LocalNetwork` -/

/-- (e) **at `LocalNetwork`**, all four algorithms, input-side hypotheses of `C09_stdev_of_net_gap`: what
    `stdev_obs(k)` returns, squared, is `m0² · B_kk · C_kk` — `B` the matrix `qbb(i,j)` returns (the hat matrix of the
    HOMOGENISED system, a symmetric projector), `C = (toProblem np).C` the cofactor matrix of the observations
    (`weight_obs(k) · C_kk = 1`, `C03_net_weight_obs`).  Hence (`C09_sigmaL_bound`) for EVERY lower-triangular factor
    `L Lᵀ = C` with `0 ≤ L k k` the reported variance is within `m0² (2 ℓ √(B_kk R) + R)` of the variance
    `m0² (L B Lᵀ)_kk` of the adjusted observation, with equality of the two when row `k` of `L` is diagonal. -/
theorem C09_sigmaL_of_net_is_whitened_row (alg : Alg) (np : NetProblem ℝ)
    (hdim : (dimsN np).sum = np.m) (hrows : RowsOK (toProblem np)) (hsapr : 0 < np.m0)
    (P : Matrix (Fin (toProblem np).m) (Fin (toProblem np).m) ℝ) (hP : (toProblem np).C * P = 1)
    (hreg : Env.RegListOK (toProblem np)) {τ : ℝ}
    (hg : InputGap alg (toProblem np).A P (toProblem np).S τ)
    (a : NetAnswer ℝ) (h : netSolve alg np = .ok a) (act : SigmaAct)
    (i : Fin (toProblem np).n) (k : Fin (toProblem np).m) :
    ∃ (m0 sL : ℝ) (B : Matrix (Fin (toProblem np).m) (Fin (toProblem np).m) ℝ),
      a.m0 np act = .ok m0 ∧ 0 ≤ m0 ∧
      (∀ s t : Fin (toProblem np).m, a.qbb (s.val + 1) (t.val + 1) = .ok (B s t)) ∧ Bᵀ = B ∧ B * B = B ∧
      Net.weightObs np (k.val + 1) * (toProblem np).C k k = 1 ∧ 0 < (toProblem np).C k k ∧
      a.stdevObs np act (k.val + 1) = .ok sL ∧ 0 ≤ sL ∧
      sL ^ 2 = m0 ^ 2 * (B k k * (toProblem np).C k k) ∧
      ∀ L : Matrix (Fin (toProblem np).m) (Fin (toProblem np).m) ℝ, (∀ s t, s < t → L s t = 0) → 0 ≤ L k k →
        L * Lᵀ = (toProblem np).C →
        |m0 ^ 2 * (L * B * Lᵀ) k k - sL ^ 2|
            ≤ m0 ^ 2 * (2 * L k k * √(B k k * ∑ j with j < k, L k j ^ 2) + ∑ j with j < k, L k j ^ 2) ∧
        ((∀ j, j < k → L k j = 0) → sL ^ 2 = m0 ^ 2 * (L * B * Lᵀ) k k) := by
  obtain ⟨m0, qii, bkk, h1, h2, -, -, -, h6, h7, h8, h9, ⟨sL, h10, h11, h12⟩, -⟩ :=
    C09_stdev_of_net_gap alg np hdim hrows hsapr P hP hreg hg a h act i k
  have hw : (Net.weightObs np (k.val + 1) * (toProblem np).C k k = 1 ∧ 0 < (toProblem np).C k k) ∧
      ∃ B : Matrix (Fin (toProblem np).m) (Fin (toProblem np).m) ℝ,
        (∀ s t : Fin (toProblem np).m, a.qbb (s.val + 1) (t.val + 1) = .ok (B s t)) ∧ Bᵀ = B ∧ B * B = B := by
    clear h1 h2 h6 h7 h8 h9 h10 h11 h12
    revert hdim hrows P hP hreg hg a h k
    rw [scalarReal_eq_fieldScalar]
    intro hdim hrows P hP hreg hg a h k
    have hm0 : np.m0 ≠ 0 := hsapr.ne'
    obtain ⟨hPc, hPe⟩ := weight_unscale_field np hm0 hdim P hP
    rw [← hPe] at hg
    have hyp := Props.C01.C01_net_solverhyp_of_inputgap np hdim hrows hm0 _ hPc hreg alg hg
    obtain ⟨W, Q, B, hW, hinj, -, -, hf⟩ := net_cofFacts alg np hdim hrows P hP hyp a h
    have hC := inv_gram_diag_pos hP hW hinj k
    have hS : 0 < Sigma np k k := by
      have hC' := hC
      rw [cofactor_matrix np hdim, Matrix.smul_apply, smul_eq_mul] at hC'
      have h3 : 0 < 1 / (np.m0 * np.m0) := by positivity
      exact (mul_pos_iff_of_pos_left h3).1 hC'
    exact ⟨⟨(Props.C03.C03_net_weight_obs isSqrt_of_sqrtField np hdim hm0 k hS).2.2.2, hC⟩,
      B, hf.qbb, hf.hat_proj.1, hf.hat_proj.2⟩
  obtain ⟨⟨hw1, hw2⟩, B, hB, hBs, hBi⟩ := hw
  have hbk : bkk = B k k := by
    have := (hB k k).symm.trans h6
    exact (Except.ok.inj this).symm
  have hdiv : bkk / Net.weightObs np (k.val + 1) = B k k * (toProblem np).C k k := by
    rw [← hbk, div_eq_iff h9.ne', mul_assoc, mul_comm ((toProblem np).C k k), hw1, mul_one]
  have hsq : sL ^ 2 = m0 ^ 2 * (B k k * (toProblem np).C k k) := by rw [h12, hdiv]
  refine ⟨m0, sL, B, h1, h2, hB, hBs, hBi, hw1, hw2, h10, h11, hsq, fun L hL hℓ hLC => ⟨?_, fun hrow => ?_⟩⟩
  · rw [hsq, ← hLC, ← mul_sub, abs_mul, abs_of_nonneg (sq_nonneg m0)]
    exact mul_le_mul_of_nonneg_left (coded_bound L B hL hBs hBi k hℓ) (sq_nonneg m0)
  · rw [hsq, ← hLC, coded_eq_of_row_diag L B hL k hrow]

/-! ## non-vacuity and the witness of C09-F1 -/

section examples

/-- (d) NEG witness kept: `L = [[1,0],[1,1]]`, `B = ½[[1,1],[1,1]]`, second row: true cofactor 2, coded cofactor 1,
    `R = 1`, `ℓ = 1`, and the bound `|2 − 1| ≤ 2·1·√(½·1) + 1` holds (it is the instance of `C09_sigmaL_bound`) -/
example :
    let L : Matrix (Fin 2) (Fin 2) ℝ := !![1, 0; 1, 1]
    let B : Matrix (Fin 2) (Fin 2) ℝ := !![1/2, 1/2; 1/2, 1/2]
    (L * B * Lᵀ) 1 1 = 2 ∧ B 1 1 * (L * Lᵀ) 1 1 = 1 ∧ L 1 1 = 1 ∧ ∑ j with j < (1 : Fin 2), L 1 j ^ 2 = 1 ∧
    |(2:ℝ) - 1| ≤ 2 * 1 * √(1/2 * 1) + 1 ∧
    (L * B * Lᵀ) 1 1 ≠ B 1 1 * (L * Lᵀ) 1 1 := by
  intro L B
  have ht : (L * B * Lᵀ) 1 1 = 2 := by
    simp [L, B, Matrix.mul_apply, Fin.sum_univ_two]; norm_num
  have hc : B 1 1 * (L * Lᵀ) 1 1 = 1 := by
    simp [L, B, Matrix.mul_apply, Fin.sum_univ_two]; norm_num
  have hR : ∑ j with j < (1 : Fin 2), L 1 j ^ 2 = 1 := by
    simp [L, Finset.sum_filter]
  have hb := (C09_sigmaL_bound L B wL_lower wB_symm wB_idem 1 (by simp [L])).2.2.2
  rw [ht, hc, hR] at hb
  refine ⟨ht, hc, by simp [L], hR, ?_, by rw [ht, hc]; norm_num⟩
  simpa [L, B] using hb

/-- `C09_sigmaL_coded`, `C09_sigmaL_variance_error` on the witness (`σ_apr = 1`, `stdev₂ = √2`, `m0 = 1`):
    reported variance 1, true variance 2, error bound `√2 + 1` -/
example :
    let L : Matrix (Fin 2) (Fin 2) ℝ := !![1, 0; 1, 1]
    let B : Matrix (Fin 2) (Fin 2) ℝ := !![1/2, 1/2; 1/2, 1/2]
    StatsGen.sigmaL 1 1 (B 1 1) (√2) ^ 2 = 1 ^ 2 * (B 1 1 * ∑ j, L 1 j ^ 2) ∧
    |1 ^ 2 * (L * B * Lᵀ) 1 1 - StatsGen.sigmaL 1 1 (B 1 1) (√2) ^ 2|
      ≤ 1 ^ 2 * (2 * L 1 1 * √(B 1 1 * ∑ j with j < (1 : Fin 2), L 1 j ^ 2)
          + ∑ j with j < (1 : Fin 2), L 1 j ^ 2) := by
  intro L B
  have hst : (√2 : ℝ) ^ 2 = 1 ^ 2 * (L * Lᵀ) 1 1 := by
    rw [Real.sq_sqrt (by norm_num)]; simp [L, Matrix.mul_apply, Fin.sum_univ_two]; norm_num
  exact ⟨C09_sigmaL_coded L B (L * Lᵀ) 1 1 1 (√2) (by simp [B]) one_ne_zero rfl hst,
    C09_sigmaL_variance_error L B (L * Lᵀ) 1 1 1 (√2) wL_lower (by simp [L]) wB_symm wB_idem one_ne_zero rfl hst⟩

/-- (b) non-vacuity, failing side: for the witness `L` the second row is not diagonal, so SOME hat matrix has
    coded ≠ true (the equivalence, read right to left negated) -/
example :
    ¬ ∀ B : Matrix (Fin 2) (Fin 2) ℝ, Bᵀ = B → B * B = B →
      ((!![1, 0; 1, 1] : Matrix (Fin 2) (Fin 2) ℝ) * B * (!![1, 0; 1, 1] : Matrix (Fin 2) (Fin 2) ℝ)ᵀ) 1 1
        = B 1 1 * ((!![1, 0; 1, 1] : Matrix (Fin 2) (Fin 2) ℝ) * (!![1, 0; 1, 1] : Matrix (Fin 2) (Fin 2) ℝ)ᵀ) 1 1 := by
  intro h
  have := ((C09_sigmaL_correct_iff _ wL_lower wL_pos 1).1.mp h) 0 (by decide)
  simp at this

/-- (b) non-vacuity, holding side: a diagonal factor `L = diag(2,3)` (uncorrelated cluster with unequal weights):
    coded = true for every hat matrix and every row; and `C = L Lᵀ` is diagonal -/
example :
    (∀ n, ∀ B : Matrix (Fin 2) (Fin 2) ℝ, Bᵀ = B → B * B = B →
      ((!![2, 0; 0, 3] : Matrix (Fin 2) (Fin 2) ℝ) * B * (!![2, 0; 0, 3] : Matrix (Fin 2) (Fin 2) ℝ)ᵀ) n n
        = B n n * ((!![2, 0; 0, 3] : Matrix (Fin 2) (Fin 2) ℝ) * (!![2, 0; 0, 3] : Matrix (Fin 2) (Fin 2) ℝ)ᵀ) n n) ∧
    (∀ i j : Fin 2, i ≠ j →
      ((!![2, 0; 0, 3] : Matrix (Fin 2) (Fin 2) ℝ) * (!![2, 0; 0, 3] : Matrix (Fin 2) (Fin 2) ℝ)ᵀ) i j = 0) := by
  have hL : ∀ i j : Fin 2, i < j → (!![2, 0; 0, 3] : Matrix (Fin 2) (Fin 2) ℝ) i j = 0 := by
    intro i j; fin_cases i <;> fin_cases j <;> simp
  have hpos : ∀ i : Fin 2, 0 < (!![2, 0; 0, 3] : Matrix (Fin 2) (Fin 2) ℝ) i i := by
    intro i; fin_cases i <;> simp
  have hd : ∀ i j : Fin 2, i ≠ j → (!![2, 0; 0, 3] : Matrix (Fin 2) (Fin 2) ℝ) i j = 0 := by
    intro i j; fin_cases i <;> fin_cases j <;> simp
  have T := C09_sigmaL_correct_all_iff _ hL hpos
  exact ⟨T.1.mpr hd, T.2.mp hd⟩

/-- `C09_sigmaL_bound_diag_row`: on the first row of the witness (no predecessor) the bound is 0 -/
example : 2 * (!![1, 0; 1, 1] : Matrix (Fin 2) (Fin 2) ℝ) 0 0
      * √((!![1/2, 1/2; 1/2, 1/2] : Matrix (Fin 2) (Fin 2) ℝ) 0 0
          * ∑ j with j < (0 : Fin 2), (!![1, 0; 1, 1] : Matrix (Fin 2) (Fin 2) ℝ) 0 j ^ 2)
      + ∑ j with j < (0 : Fin 2), (!![1, 0; 1, 1] : Matrix (Fin 2) (Fin 2) ℝ) 0 j ^ 2 = 0 :=
  C09_sigmaL_bound_diag_row _ _ 0 (fun j hj => absurd hj (Fin.not_lt_zero j))

end examples

section netExample
open Gama.Ls.Ex

/-- `C09_sigmaL_of_net_is_whitened_row` APPLIED over ℝ to `Ex.npR` (its first cluster is CORRELATED: active block
    `[[16,8],[8,40]]`; envelope, cholesky, gso; both `sigma-act` modes; every observation) -/
example (alg : Alg) (halg : alg ≠ .svd) (act : SigmaAct) (i : Fin (toProblem npR).n) (k : Fin (toProblem npR).m) :
    ∃ (a : NetAnswer ℝ) (m0 sL : ℝ) (B : Matrix (Fin (toProblem npR).m) (Fin (toProblem npR).m) ℝ),
      netSolve alg npR = .ok a ∧ a.m0 npR act = .ok m0 ∧ a.stdevObs npR act (k.val + 1) = .ok sL ∧
      sL ^ 2 = m0 ^ 2 * (B k k * (toProblem npR).C k k) ∧ Bᵀ = B ∧ B * B = B := by
  have T := C09_sigmaL_of_net_is_whitened_row alg npR
  have G := Props.C01.C01_net_inputgap_witness alg halg
  have A := Props.C01.C01_net_answers_witness alg halg
  revert T G A i k
  rw [scalarReal_eq_fieldScalar]
  intro i k T G A
  obtain ⟨a, ha, -⟩ := A
  obtain ⟨m0, sL, B, h1, -, -, hs, hi, -, -, h10, -, hsq, -⟩ :=
    T (npW_dims 2 [1]) (npW_rows 2 [1]) (by show (0 : ℝ) < 2; norm_num) _
      (weight_of_sigma npR (npW_dims 2 [1]) (by show (2 : ℝ) ≠ 0; norm_num) PcN npR_sigma_inv)
      (npW_regListOK 2 [1] (Or.inl rfl)) G a ha act i k
  exact ⟨a, m0, sL, B, ha, h1, h10, hsq, hs, hi⟩

end netExample

end Gama.Props.C09
