/-
  C19, clause 5 for the REAL number format of the dump.  `Props/C19.lean` proves the dump round trip for an abstract
  `Codec.Printer` law (witnessed there only by toy codecs); here the law is PROVED for the stream format gama-g3 uses —
  `out.precision(p)` with the default floatfield (`%.{p}g`, p = 16 in src/gama-g3.cpp), integers by `operator<<(int)` —
  modelled over ℚ by `Model/DecimalCodec.lean` (`fmtGen`, `rdDecimal` = `Lit.isFloat` + exact value) and tied to
  libstdc++ on the exact binary value of doubles by the `codec` stream (tools/gen/codec_probe.py, byte-identical texts).

  What ℚ does not see: the second rounding of the reader (decimal → nearest double).  `DecimalStream` of
  `Lemmas/AdjXmlLemmas.lean` names it `N`; over ℚ `N` is the value of the numeral.  For doubles, `stable` at p = 16
  stays the hypothesis discussed there (measured on every run by C19's `adjrt16` stream).
-/
import Gama.Lemmas.DecimalCodecC19
namespace Gama.Props.C19Codec
open Gama.AdjXml Gama.Dec

/-- the stream format is a printer in the sense of `C19_dump_roundtrip`: what is read back is the number rounded to `p`
    significant digits, and re-printing it gives the same text — for every precision and rounding rule, no hypothesis -/
theorem C19_stream_codec_printer (m : RMode) (p : Nat) : (streamCodec m p).Printer (roundSig m (sigDigits p)) :=
  streamCodec_printer m p

/-- … and it is a `DecimalStream` (round to `P` digits, render; parse exactly), so `C19_printer_of_decimal_stream`
    applies: `q = N ∘ D` is a projection -/
theorem C19_stream_codec_decimal_stream (m : RMode) (p : Nat) :
    DecimalStream (Dec := Numeral' (sigDigits p)) (streamCodec m p)
      (fun x => ⟨sigD m (sigDigits p) x, sigD_m_lt m _ (sigDigits_pos p) x⟩) (fun d => d.1.val)
      (fun d => String.ofList (genShow (sigDigits p) d.1)) :=
  streamCodec_stream m p

/-- **the dump round trip for the real printer**: for every well-formed adjustment input over ℚ, reading what
    `write_xml` wrote on a stream with `precision(p)` gives the input with every number rounded to `p` significant
    digits; a second dump is byte-identical; the re-read data is a fixed point of dump → read -/
theorem C19_dump_roundtrip_stream (m : RMode) (p : Nat) (d : AdjData ℚ) (hd : WF d) :
    readAdj (streamCodec m p) (writeAdj (streamCodec m p) d) = .ok (d.mapQ (roundSig m (sigDigits p))) ∧
    writeAdj (streamCodec m p) (d.mapQ (roundSig m (sigDigits p))) = writeAdj (streamCodec m p) d ∧
    readAdj (streamCodec m p) (writeAdj (streamCodec m p) (d.mapQ (roundSig m (sigDigits p))))
      = .ok (d.mapQ (roundSig m (sigDigits p))) := by
  have hc := streamCodec_printer m p
  refine ⟨readAdj_writeAdj_printer _ hc d hd, writeAdj_mapQ _ hc d, ?_⟩
  rw [writeAdj_mapQ _ hc d]
  exact readAdj_writeAdj_printer _ hc d hd

/-- how far the re-read numbers are from the dumped ones: half a unit of the `p`-th significant digit
    (relative error ≤ ½·10^(1−p): 5·10⁻¹⁶ for the 16 digits of gama-g3), never zero for a non-zero number, same sign -/
theorem C19_stream_rounding (m : RMode) (p : Nat) (x : ℚ) (hx : x ≠ 0) :
    (∃ e : Int, (10 : ℚ) ^ e ≤ |x| ∧ |x| < (10 : ℚ) ^ (e + 1) ∧
      |roundSig m (sigDigits p) x - x| ≤ 1 / 2 * (10 : ℚ) ^ (e - ((sigDigits p : Int) - 1))) ∧
    roundSig m (sigDigits p) x ≠ 0 ∧ (0 < roundSig m (sigDigits p) x ↔ 0 < x) :=
  ⟨roundSig_err m _ (sigDigits_pos p) x hx,
   fun h => hx ((roundSig_eq_zero_iff m _ (sigDigits_pos p) x).mp h),
   roundSig_pos_iff m _ (sigDigits_pos p) x⟩

/-! ## non-vacuity -/

-- the 16-digit stream: 1.23456789 and 0.99996 are kept, 1/3 and 2/7 are rounded, 1e-6 and −2e20 use the exponent form
example : fmtGenL .halfEven 16 (123456789 / 100000000) = "1.23456789".toList := by decide +kernel
example : fmtGenL .halfEven 16 (-1 / 3) = "-0.3333333333333333".toList := by decide +kernel
example : fmtGenL .halfEven 16 (2 / 7) = "0.2857142857142857".toList := by decide +kernel
example : fmtGenL .halfEven 16 (1 / 1000000) = "1e-06".toList := by decide +kernel
example : fmtGenL .halfEven 16 (-200000000000000000000) = "-2e+20".toList := by decide +kernel
example : roundSig .halfEven 16 (-1 / 3) = -3333333333333333 / 10000000000000000 := by decide +kernel
-- four significant digits: 1.23456789 ↦ 1.235, and 0.99996 rounds up across the digit boundary to 1
example : fmtGenL .halfEven 4 (123456789 / 100000000) = "1.235".toList := by decide +kernel
example : fmtGenL .halfEven 4 (99996 / 100000) = "1".toList ∧ roundSig .halfEven 4 (99996 / 100000) = 1 := by decide +kernel
-- an exact tie: 2.5 at one digit is 2 under glibc's rule, 3 under schoolbook rounding
example : fmtGenL .halfEven 1 (5 / 2) = "2".toList ∧ fmtGenL .halfAway 1 (5 / 2) = "3".toList := by decide +kernel
-- the theorem applies to data with all of these
example : WF realData := realData_WF
example : readAdj (streamCodec .halfEven 16) (writeAdj (streamCodec .halfEven 16) realData)
    = .ok (realData.mapQ (roundSig .halfEven 16)) :=
  (C19_dump_roundtrip_stream .halfEven 16 realData realData_WF).1
example : (realData.mapQ (roundSig .halfEven 16)).rhs = [100, -200000000000000000000, 3 / 1000000] := by decide +kernel
example : (realData.mapQ (roundSig .halfEven 16)).cov.map (List.map (·.vals)) ≠ realData.cov.map (List.map (·.vals)) := by
  decide +kernel

end Gama.Props.C19Codec
