/-
  C13 — Exported input reproduces the adjustment and is a fixed point.

  Property theorems only; helper lemmas live in Gama/Lemmas/Export.lean.  `route` (which attribute of
  which element reaches which constructor argument / setter in GKFparser::process_*) is REGENERATED from
  gkfparser.cpp; the parser model is generic in it, so the proofs below are re-checked against the
  attribute handling of the tree being checked.

  Covered by theorems: observations of an `<obs>` cluster with all their attributes (from, to/bs/fs, val,
  stdev, from_dh, to_dh/bs_dh, fs_dh, extern), `<dh>` (dist / stdev, extern), `<cov-mat>`, a whole
  StandPoint cluster; fixed point of export∘parse∘export.  The single hypothesis about numbers is
  `rd (fmt x) = some x` (+ `isZero x ↔ x = 0`).  Explored only (tools/props/c13.py): points and status,
  parameters, vectors/coordinates clusters, units (gon/degree), digits printed, and everything that
  involves the adjustment (same coordinates, no further iterations, n = 1, 2, 3 rounds).
-/
import Gama.Lemmas.Export
import Gama.Lemmas.ExportNet
import Gama.Lemmas.ExportQuant
import Gama.Lemmas.ExportPrinter
import Gama.Lemmas.ExportExamples
namespace Gama.Props.C13
open Gama Gama.Export Gama.Gen.GkfAttrs Gama.Gen.GkfDoc

variable {K : Type} {R : K → Prop}

/-- parse ∘ export = id on an observation with every attribute (all six kinds, attributes zero or not,
    own or inherited standpoint, with or without extern) -/
theorem C13_roundtrip_obs (F : NumFmt K) (hF : F.LawfulOn R) (cf : String) (impl : K) (o : Obs K)
    (hw : o.WF F) (hr : o.Rep R) (hdir : o.kind = .direction → o.from_ = cf) :
    parseObs F cf F.zero impl o.kind (exportObs F true cf o).2 = .ok o :=
  parse_export_obs F hF cf impl o hw hr hdir

/-- parse ∘ export = id on a whole `<obs>` cluster (any number of observations) -/
theorem C13_roundtrip (F : NumFmt K) (hF : F.LawfulOn R) (impl : Kind → K) (c : StandPoint K)
    (hw : ∀ o ∈ c.obs, o.WF F) (hr : ∀ o ∈ c.obs, o.Rep R) (hdir : ∀ o ∈ c.obs, o.kind = .direction → o.from_ = c.station) :
    parseCluster F impl (exportCluster F true c) = .ok c :=
  parse_export_cluster F hF impl c hw hr hdir

/-- exporting what was parsed from an export yields the same file -/
theorem C13_fixed_point (F : NumFmt K) (hF : F.LawfulOn R) (impl : Kind → K) (c : StandPoint K)
    (hw : ∀ o ∈ c.obs, o.WF F) (hr : ∀ o ∈ c.obs, o.Rep R) (hdir : ∀ o ∈ c.obs, o.kind = .direction → o.from_ = c.station) :
    (parseCluster F impl (exportCluster F true c)).map (exportCluster F true) = .ok (exportCluster F true c) := by
  rw [parse_export_cluster F hF impl c hw hr hdir]; rfl

/-- `<dh>`: `dist` is exported when positive (then the standard deviation is the implied one), else `stdev` -/
theorem C13_roundtrip_dh (F : NumFmt K) (hF : F.LawfulOn R) (sd : K → K) (pos : K → Bool) (h : HDiff K)
    (h1 : h.from_ ≠ "") (h2 : h.to ≠ "") (hr : R h.val ∧ (pos h.dist = true → R h.dist) ∧ (pos h.dist = false → R h.stdev))
    (hpos : pos h.dist = false → h.dist = F.zero) (hsd : pos h.dist = true → h.stdev = sd h.dist) :
    parseDh F sd (exportDh F true pos h).2 = .ok h :=
  parse_export_dh F hF sd pos h h1 h2 hr hpos hsd

/-- `<cov-mat>`: same dim, band and elements -/
theorem C13_roundtrip_cov (F : NumFmt K) (hF : F.LawfulOn R) (c : Cov K) (hr : ∀ x ∈ c.data, R x) :
    parseCov F (exportCov F c) = some c :=
  parse_export_cov F hF c hr

/-- `<cov-mat>` of `<coordinates>` / `<vectors>` with inconsistent axes/angles: the export negates the covariances
    between mirrored (y, dy) and not mirrored components, the parser followed by `remove_inconsistency()` negates the
    same entries again: the internal matrix comes back (all dim, band, mirror patterns) -/
theorem C13_roundtrip_cov_y_sign (F : NumFmt K) (hF : F.LawfulOn R) (neg : K → K) (hneg : ∀ x, neg (neg x) = x)
    (hR : ∀ x, R x → R (neg x)) (ysign : Bool) (mir : Nat → Bool) (c : Cov K) (hr : ∀ x ∈ c.data, R x) :
    parseCovY F neg ysign mir (exportCovY F neg ysign mir c) = some c :=
  parse_export_covY F hF neg hneg hR ysign mir c hr

/-- F8 (pinned commit): with `fs_dh ↦ dropped` in process_angle the target height of the second target is lost.
    Stated on the route table as text so that it stays checkable after the repair: the regenerated table
    must route `fs_dh` to `set_fs_dh` -/
theorem C13_F8_repaired : route .angle .fs_dh = some .setFsDh := by decide

/-- F21 (pinned commit): `export_xml` does not write `extern`; parsing the export returns the observation
    without it -/
theorem C13_F21_witness (F : NumFmt K) (hF : F.LawfulOn R) (x : K) (hx : R x) :
    parseObs F "A" F.zero x .distance
      (exportObs F false "A" ⟨.distance, "A", "B", "", x, x, F.zero, F.zero, F.zero, "e1"⟩).2
      = .ok ⟨.distance, "A", "B", "", x, x, F.zero, F.zero, F.zero, ""⟩ :=
  parse_export_obs_noext_witness F hF x hx

/-! ## round 3: the whole document (Model/ExportNet.lean, tables of Gen/GkfDoc.lean REGENERATED from gkfparser.cpp,
    network.cpp, observation.cpp, lcoords.h)

  Full statement of the property on the model: for every network `n` the parser can have produced,
  `parseNet (exportNet n) = ok (canon n)` and `exportNet (canon n) = exportNet n`, where `canon` drops the points without
  any status (export_xml skips them).  Proved below for output in gons (`Net.WF.gons`).  Missing for the `_partial`
  theorems: output in degrees (`angles="360"`): the model writes and reads sexagesimal values, standard deviations and
  (repaired export, finding F26) covariances, but the inverse law is proved for gons only. -/

/-- points: same id, same status per coordinate group (fixed / free / constrained / unused for xy and for z, written as
    `fix=` / `adj=` letters in upper or lower case), same coordinates, y through `y_sign()` on the way out and
    `remove_inconsistency()` on the way in; holds for every previous `pp_id` of the parser -/
theorem C13_roundtrip_points (C : Codec K) (hC : C.LawfulOn R) (ys : Bool) (pp : String) (p : Point K) (hid : p.id ≠ "")
    (hrep : p.Rep R) :
    (parsePointAttrs C pp (exportPoint C ys p)).map (fun u => (u.id, mirrorIf C ys (u.apply ⟨p.id, none, none, .unused, .unused⟩)))
      = .ok (p.id, p) := by
  obtain ⟨u, h1, h2, h3⟩ := parse_export_point' C hC ys pp p hid hrep
  rw [h1]
  simp only [Except.map, h2, h3]
  cases ys
  · rfl
  · simp [mirrorIf, mirrorPoint_mirrorPoint C hC]

/-- `<parameters>`: sigma-apr, conf-pr, tol-abs, sigma-act, angles, algorithm, latitude (radians inside, gons in the
    file), ellipsoid, cov-band; the optional ones only when set; whatever the defaults of the reading network are -/
theorem C13_roundtrip_parameters (C : Codec K) (hC : C.LawfulOn R) (p0 p : Params K) (hw : p.WF C R)
    (h0 : p0.algorithm = none ∧ p0.latitude = none ∧ p0.ellipsoid = none) :
    parseParams C p0 (exportParams C p) = .ok p :=
  parse_export_params C hC p0 p hw h0

/-- `<network axes-xy angles epoch>`: all 8 × 2 conventions, hence the same `y_sign()` on both sides -/
theorem C13_roundtrip_axes (C : Codec K) (hC : C.LawfulOn R) (h : Head K) (hrep : ∀ e, h.epoch = some e → R e) :
    parseHead C (exportHead C h) = .ok h :=
  parse_export_head C hC h hrep

/-- a `<vectors>` cluster: ids, dx dy dz, extern, and the covariance matrix; with inconsistent axes / angles dy and the
    covariances between dy and dx / dz are written with the opposite sign and `remove_inconsistency()` (`mirrorClusterIf`)
    restores them: s·s = 1.  The parser's other state (points, earlier clusters) is untouched. -/
theorem C13_roundtrip_vectors (C : Codec K) (hC : C.LawfulOn R) (impl : Kind → K) (par : Params K) (ys : Bool)
    (ps : List (Point K)) (cl : List (Cluster K)) (pp : String) (vecs : List (Vec K)) (cov : Cov K)
    (hw : (Cluster.vectors vecs cov).WF C R par.sigmaApr ps) :
    ∃ pp', (parseItem C impl par ⟨ps.map (mirrorIf C ys), cl, pp⟩ (exportCluster' C ys true (.vectors vecs cov))).map
        (fun s => { s with clusters := s.clusters.map (mirrorClusterIf C ys) })
      = .ok ⟨ps.map (mirrorIf C ys), cl.map (mirrorClusterIf C ys) ++ [.vectors vecs cov], pp'⟩ := by
  obtain ⟨pp', h⟩ := parse_export_cluster' C hC impl par ys ps cl pp _ hw
  refine ⟨pp', ?_⟩
  rw [h]
  cases ys
  · simp [Except.map, mirrorClusterIf]
  · simp [Except.map, mirrorClusterIf, mirrorCluster_mirrorCluster C hC]

/-- a `<coordinates>` cluster: ids, x y z, extern of the cluster, covariance matrix with the y_sign conjugation; the
    points it names keep their coordinates (`agrees`: the parser stores the observed coordinates in PointData) -/
theorem C13_roundtrip_coordinates (C : Codec K) (hC : C.LawfulOn R) (impl : Kind → K) (par : Params K) (ys : Bool)
    (ps : List (Point K)) (cl : List (Cluster K)) (pp : String) (ext : String) (pts : List (CPoint K)) (cov : Cov K)
    (hw : (Cluster.coords ext pts cov).WF C R par.sigmaApr ps) :
    ∃ pp', (parseItem C impl par ⟨ps.map (mirrorIf C ys), cl, pp⟩ (exportCluster' C ys true (.coords ext pts cov))).map
        (fun s => { s with clusters := s.clusters.map (mirrorClusterIf C ys) })
      = .ok ⟨ps.map (mirrorIf C ys), cl.map (mirrorClusterIf C ys) ++ [.coords ext pts cov], pp'⟩ := by
  obtain ⟨pp', h⟩ := parse_export_cluster' C hC impl par ys ps cl pp _ hw
  refine ⟨pp', ?_⟩
  rw [h]
  cases ys
  · simp [Except.map, mirrorClusterIf]
  · simp [Except.map, mirrorClusterIf, mirrorCluster_mirrorCluster C hC]

/-- the whole document: reading what export_xml wrote gives the network back (without its unused points), for all
    networks, any number of points and clusters of the four kinds, all axes / angle conventions.  `_partial`: gons. -/
theorem C13_roundtrip_network_partial (C : Codec K) (hC : C.LawfulOn R) (impl : Kind → K) (par0 : Params K) (n : Net K)
    (hw : n.WF C R) : parseNet C impl par0 (exportNet C n) = .ok (canon n) :=
  parse_export_net C hC impl par0 n hw

/-- exporting what was read from an export yields the same document -/
theorem C13_fixed_point_network_partial (C : Codec K) (hC : C.LawfulOn R) (impl : Kind → K) (par0 : Params K) (n : Net K)
    (hw : n.WF C R) : (parseNet C impl par0 (exportNet C n)).map (exportNet C) = .ok (exportNet C n) := by
  rw [parse_export_net C hC impl par0 n hw]
  simp [Except.map, exportNet_canon]

/-- points without any status are not written, and that is all `canon` changes: the exported document is the same -/
theorem C13_export_skips_unused (C : Codec K) (n : Net K) : exportNet C (canon n) = exportNet C n :=
  exportNet_canon C n

/-! ## a printer with finitely many digits (`Codec.Printer`: `rd (fmt x) = some (q x)`, `fmt (q x) = fmt x`)

  `R x := q x = x` are the numbers the printer gives back exactly; every number read from a printed file is one, so the
  theorems above apply verbatim to the second, third, … export.  For the first export of arbitrary numbers: -/

/-- the exported document does not change when every number of the network is replaced by its printed-and-read value -/
theorem C13_export_quantised {C : Codec K} {q : K → K} (P : C.Printer q) (n : Net K) (hg : n.par.gons = true) :
    exportNet C (quantNet C q n) = exportNet C n :=
  exportNet_quant P n hg

/-- reading the export gives the network with every number quantised (`quantNet`: `x ↦ q x`; the latitude through its
    unit conversion; the standard deviation of a height difference given by its length recomputed from the printed
    length), provided the quantised values still pass the parser's guards (`Net.WF` of the quantised network) -/
theorem C13_roundtrip_network_printer_partial {C : Codec K} {q : K → K} (P : C.Printer q) (impl : Kind → K)
    (par0 : Params K) (n : Net K) (hw : (quantNet C q n).WF C (fun x => q x = x)) :
    parseNet C impl par0 (exportNet C n) = .ok (canon (quantNet C q n)) :=
  parse_export_net_printer P impl par0 n hw

/-- … and exporting that again gives the same document: the export is a fixed point from the first round on -/
theorem C13_fixed_point_network_printer_partial {C : Codec K} {q : K → K} (P : C.Printer q) (impl : Kind → K)
    (par0 : Params K) (n : Net K) (hw : (quantNet C q n).WF C (fun x => q x = x)) :
    (parseNet C impl par0 (exportNet C n)).map (exportNet C) = .ok (exportNet C n) := by
  rw [parse_export_net_printer P impl par0 n hw]
  simp [Except.map, exportNet_canon, exportNet_quant P n hw.gons]

/-- F27 repaired: the latitude is written in the unit process_parameters reads (false on the pinned tree) -/
theorem C13_F27_repaired : latitudeInGons = true := by decide

/-! ## non-vacuity: numbers = their decimal text (fmt = id), which satisfies the hypothesis -/

example : strFmt.LawfulOn (fun _ => True) := ⟨fun _ _ => rfl, fun x => by simp [strFmt]⟩

-- an angle with all three heights and extern, standpoint different from the cluster's
example : (exportObs strFmt true "S" ⟨.angle, "A", "B", "C", "100", "10", "1.5", "1.2", "1.7", "e 1"⟩).2 =
    [(.from_, "A"), (.bs, "B"), (.fs, "C"), (.from_dh, "1.5"), (.bs_dh, "1.2"), (.fs_dh, "1.7"),
     (.val, "100"), (.stdev, "10"), (.extern, "e 1")] := by decide
example : (match parseObs strFmt "S" "0" "7" .angle
    [(.from_, "A"), (.bs, "B"), (.fs, "C"), (.from_dh, "1.5"), (.bs_dh, "1.2"), (.fs_dh, "1.7"),
     (.val, "100"), (.stdev, "10"), (.extern, "e 1")] with
    | .ok o => [o.from_, o.to, o.fs, o.extern, o.val, o.stdev, o.fromDh, o.toDh, o.fsDh]
    | .error _ => []) = ["A", "B", "C", "e 1", "100", "10", "1.5", "1.2", "1.7"] := by decide
-- a direction without optional attributes inherits the standpoint; zero heights are not written
example : (exportObs strFmt true "S" ⟨.direction, "S", "B", "", "5", "10", "0", "0", "0", ""⟩).2 =
    [(.to, "B"), (.val, "5"), (.stdev, "10")] := by decide
-- an attribute the element does not accept is an error
example : (match parseObs strFmt "S" "0" "7" .direction [(.bs, "B")] with
    | .error .undefinedAttribute => true | _ => false) = true := by decide
-- <dh> with a distance / with a standard deviation
example : (exportDh strFmt true (· != "0") ⟨"A", "B", "1.25", "0.7", "8.4", ""⟩).2 =
    [(.from_, "A"), (.to, "B"), (.val, "1.25"), (.dist, "0.7")] := by decide
example : (exportDh strFmt true (· != "0") ⟨"A", "B", "1.25", "0", "3", "x"⟩).2 =
    [(.from_, "A"), (.to, "B"), (.val, "1.25"), (.stdev, "3"), (.extern, "x")] := by decide
-- x, y, z of one point (y mirrored), full matrix: cov(x,y) and cov(y,z) change sign, cov(x,z) and the diagonal do not
example : entrySigns 3 2 (fun i => i == 2) = [false, true, false, false, true, false] := by decide
example : (exportCovY strFmt (fun s => "-" ++ s) true (fun i => i == 2) ⟨3, 2, ["a", "b", "c", "d", "e", "f"]⟩).2.2 =
    ["a", "-b", "c", "d", "-e", "f"] := by decide

/-! ## non-vacuity, whole document -/

example : unaryCodec.LawfulOn (fun _ => True) :=
  ⟨⟨fun x _ => by simp [unaryCodec], fun x => by simp [unaryCodec]⟩, fun _ => rfl, fun _ _ => trivial,
   fun i hi => by simp [unaryCodec]; omega, fun _ => rfl, fun _ => rfl,
   fun x => by
     intro h
     have := congrArg String.length h
     simp [unaryCodec] at this⟩

-- a constrained-xy / fixed-z point in an inconsistent system: y mirrored back, `fix="z"`, `adj="XY"`
example : exportPoint strCodec true ⟨"A", some ("1", "2"), some "3", .constr, .fixed⟩ =
    [(.id, "A"), (.x, "1"), (.y, "-2"), (.z, "3"), (.fix, "z"), (.adj, "XY")] := by decide
-- a vector and a coordinate point in an inconsistent system
example : exportVec strCodec true ⟨"A", "B", "1", "2", "3", "0", "0", "e"⟩ =
    [(.from_, "A"), (.to, "B"), (.dx, "1"), (.dy, "-2"), (.dz, "3"), (.extern, "e")] := by decide
example : exportCPoint strCodec true ⟨"A", some ("1", "2"), some "3"⟩ = [(.id, "A"), (.x, "1"), (.y, "-2"), (.z, "3")] := by decide
-- parameters: the optional ones appear only when set
example : (exportParams strCodec ⟨"10", "0.95", "1000", false, true, none, none, none, -1⟩).map (·.1) =
    [.sigma_apr, .conf_pr, .tol_abs, .sigma_act, .angles, .cov_band] := by decide
-- the sample network (every cluster kind, a constrained and an unused point, en + left-handed = inconsistent) meets the hypotheses
example : sampleNet.head.ys = true := by decide
example : (canon sampleNet).points.map (·.id) = ["A", "B"] := by decide

-- a printer with a fixed number of decimal digits (units of 10⁻⁴ printed in units of 10⁻³) satisfies the hypotheses,
-- is lossy, and the quantised sample network (inconsistent axes, a constrained and an unused point, a vectors cluster)
-- meets the side condition
example : decCodec.Printer decQ := decCodec_printer
example : decCodec.rd (decCodec.fmt 1001) = some 1010 := by rw [decCodec_printer.rd_fmt]; rfl
example : (quantNet decCodec decQ lossyNet).WF decCodec (fun x => decQ x = x) := lossyNet_WF
example : lossyNet.head.ys = true := by decide

end Gama.Props.C13
