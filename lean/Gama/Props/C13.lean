/-
  C13 — Exported input reproduces the adjustment and is a fixed point.

  Property theorems only; helper lemmas live in Gama/Lemmas/Export*.lean.  The tables the models are generic in are
  REGENERATED on every run: `route` (Gen/GkfAttrs.lean, from gkfparser.cpp) and Gen/GkfDoc.lean (gkfparser.cpp, network.cpp,
  observation.cpp, lcoords.h), so the proofs below are re-checked against the tree being checked.

  Covered by theorems: the whole document — `<network>`, `<parameters>`, points with status, the four cluster kinds with
  their covariance matrices — in gons AND in degrees (`angles="360"`: sexagesimal values through the shared gon2deg /
  deg2gon models of C18, standard deviations and covariance rows in sexagesimal seconds), for an exact codec on the
  representable numbers and for a printer with finitely many digits (quantisation); the hypothesis `Net.WF` is decidable;
  what the exported coordinates are (refine_approx_coordinates) and when re-adjusting the export reproduces the
  adjustment with zero iterations (refine_adjustment).  In THIS file the adjustment is a function of the network
  (`adj` / `step`, abstract) and the codec a parameter; the three items that used to be explored only have theorems in
  the sibling files: the digits gama prints — `Props/C13Codec.lean` (`realCodec` over ℚ: `%.pg`, `%.16e` for `<cov-mat>`,
  the sexagesimal text; `C13_real_codec_printer`, `C13_roundtrip_network_real`, the regenerated per-site formats
  `C13_number_sites_formats`); the adjustment itself — `Props/C13Rerun.lean` (`C13_rerun_zero_iterations` for the real
  loop `RA.refineAdjustment`, `C13_rerun_zero_iterations_project_equations` for `PE.projectEquations` + `netSolve`,
  `C13_readjustment_identical_real`; exact codec); n rounds — `C13_rounds_fixed`, `C13_rounds_fixed_printer`,
  `C13_rerun_rounds` (every n).  tools/props/c13.py still samples all three on the real program.
-/
import Gama.Lemmas.Export
import Gama.Lemmas.ExportNet
import Gama.Lemmas.ExportQuant
import Gama.Lemmas.ExportPrinter
import Gama.Lemmas.ExportExamples
import Gama.Lemmas.ExportDegrees
import Gama.Lemmas.ExportAdj
import Gama.Lemmas.ExportParse
import Gama.Lemmas.C06GN
namespace Gama.Props.C13
open Gama Gama.Export Gama.Gen.GkfAttrs Gama.Gen.GkfDoc

variable {K : Type} {R Rd : K → Prop}

/-- parse ∘ export = id on an observation with every attribute (all six kinds, attributes zero or not,
    own or inherited standpoint, with or without extern) -/
theorem C13_roundtrip_obs (F : NumFmt K) (hF : F.LawfulOn R) (cf : String) (impl : K) (o : Obs K)
    (hw : o.WF F) (hr : o.Rep R) (hdir : o.kind = .direction → o.from_ = cf) :
    parseObs F cf F.zero impl o.kind (exportObs F true cf o).2 = .ok o :=
  parse_export_obs F hF cf impl o hw hr hdir

/-- parse ∘ export = id on a whole `<obs>` cluster (any number of observations) -/
theorem C13_roundtrip (F : NumFmt K) (hF : F.LawfulOn R) (impl : Kind → K) (c : StandPoint K)
    (hw : ∀ o ∈ c.obs, o.WF F) (hr : ∀ o ∈ c.obs, o.Rep R) (hdir : ∀ o ∈ c.obs, o.kind = .direction → o.from_ = c.station) :
    parseCluster F impl (exportCluster F true c) = .ok c :=
  parse_export_cluster F hF impl c hw hr hdir

/-- exporting what was parsed from an export yields the same file -/
theorem C13_fixed_point (F : NumFmt K) (hF : F.LawfulOn R) (impl : Kind → K) (c : StandPoint K)
    (hw : ∀ o ∈ c.obs, o.WF F) (hr : ∀ o ∈ c.obs, o.Rep R) (hdir : ∀ o ∈ c.obs, o.kind = .direction → o.from_ = c.station) :
    (parseCluster F impl (exportCluster F true c)).map (exportCluster F true) = .ok (exportCluster F true c) := by
  rw [parse_export_cluster F hF impl c hw hr hdir]; rfl

/-- `<dh>`: `dist` is exported when positive, `stdev` always (the tree since 9f04c51): value, distance, standard deviation
    and extern come back whatever the relation between distance and standard deviation -/
theorem C13_roundtrip_dh (F : NumFmt K) (hF : F.LawfulOn R) (sd : K → K) (pos : K → Bool) (h : HDiff K)
    (h1 : h.from_ ≠ "") (h2 : h.to ≠ "") (hr : R h.val ∧ (pos h.dist = true → R h.dist) ∧ R h.stdev)
    (hpos : pos h.dist = false → h.dist = F.zero) :
    parseDh F sd (exportDh F true pos true h).2 = .ok h :=
  parse_export_dh_always F hF sd pos h h1 h2 hr hpos

/-- `<cov-mat>`: same dim, band and elements -/
theorem C13_roundtrip_cov (F : NumFmt K) (hF : F.LawfulOn R) (c : Cov K) (hr : ∀ x ∈ c.data, R x) :
    parseCov F (exportCov F c) = some c :=
  parse_export_cov F hF c hr

/-- `<cov-mat>` of `<coordinates>` / `<vectors>` with inconsistent axes/angles: the export negates the covariances
    between mirrored (y, dy) and not mirrored components, the parser followed by `remove_inconsistency()` negates the
    same entries again: the internal matrix comes back (all dim, band, mirror patterns) -/
theorem C13_roundtrip_cov_y_sign (F : NumFmt K) (hF : F.LawfulOn R) (neg : K → K) (hneg : ∀ x, neg (neg x) = x)
    (hR : ∀ x, R x → R (neg x)) (ysign : Bool) (mir : Nat → Bool) (c : Cov K) (hr : ∀ x ∈ c.data, R x) :
    parseCovY F neg ysign mir (exportCovY F neg ysign mir c) = some c :=
  parse_export_covY F hF neg hneg hR ysign mir c hr

/-- F8 (pinned commit): with `fs_dh ↦ dropped` in process_angle the target height of the second target is lost.
    Stated on the route table as text so that it stays checkable after the repair: the regenerated table
    must route `fs_dh` to `set_fs_dh` -/
theorem C13_F8_repaired : route .angle .fs_dh = some .setFsDh := by decide

/-- F21 (pinned commit): `export_xml` does not write `extern`; parsing the export returns the observation
    without it -/
theorem C13_F21_witness (F : NumFmt K) (hF : F.LawfulOn R) (x : K) (hx : R x) :
    parseObs F "A" F.zero x .distance
      (exportObs F false "A" ⟨.distance, "A", "B", "", x, x, F.zero, F.zero, F.zero, "e1"⟩).2
      = .ok ⟨.distance, "A", "B", "", x, x, F.zero, F.zero, F.zero, ""⟩ :=
  parse_export_obs_noext_witness F hF x hx

/-! ## round 3: the whole document (Model/ExportNet.lean, tables of Gen/GkfDoc.lean REGENERATED from gkfparser.cpp,
    network.cpp, observation.cpp, lcoords.h)

  Full statement of the property on the model: for every network `n` the parser can have produced,
  `parseNet (exportNet n) = ok (canon n)` and `exportNet (canon n) = exportNet n`, where `canon` drops the points without
  any status (export_xml skips them).  Proved below (`C13_roundtrip_network`, `C13_fixed_point_network`) for output in gons
  AND in degrees (`angles="360"`: the model writes and reads sexagesimal values, standard deviations and — repaired
  export, finding F26 — covariances in seconds; the inverse law for them is the hypothesis `Codec.DegLawfulOn Rd`, see
  the section "output in degrees" below: `C13_roundtrip_obs_degrees`, `C13_roundtrip_obs_cluster_degrees`; the real
  sexagesimal codec satisfies it on `DegDom` after quantisation, `Props/C13Codec.lean`).  The two `_partial` theorems
  that remain (`C13_export_coordinates_are_adjusted_partial`, `C13_parser_establishes_wf_partial`) are partial for
  reasons stated in their own docstrings, not because of the angular unit. -/

/-- points: same id, same status per coordinate group (fixed / free / constrained / unused for xy and for z, written as
    `fix=` / `adj=` letters in upper or lower case), same coordinates, y through `y_sign()` on the way out and
    `remove_inconsistency()` on the way in; holds for every previous `pp_id` of the parser -/
theorem C13_roundtrip_points (C : Codec K) (hC : C.LawfulOn R) (ys : Bool) (pp : String) (p : Point K) (hid : p.id ≠ "")
    (hrep : p.Rep R) :
    (parsePointAttrs C pp (exportPoint C ys p)).map (fun u => (u.id, mirrorIf C ys (u.apply ⟨p.id, none, none, .unused, .unused⟩)))
      = .ok (p.id, p) := by
  obtain ⟨u, h1, h2, h3⟩ := parse_export_point' C hC ys pp p hid hrep
  rw [h1]
  simp only [Except.map, h2, h3]
  cases ys
  · rfl
  · simp [mirrorIf, mirrorPoint_mirrorPoint C hC]

/-- `<parameters>`: sigma-apr, conf-pr, tol-abs, sigma-act, angles, algorithm, latitude (radians inside, gons in the
    file), ellipsoid, cov-band; the optional ones only when set; whatever the defaults of the reading network are -/
theorem C13_roundtrip_parameters (C : Codec K) (hC : C.LawfulOn R) (p0 p : Params K) (hw : p.WF C R)
    (h0 : p0.algorithm = none ∧ p0.latitude = none ∧ p0.ellipsoid = none) :
    parseParams C p0 (exportParams C p) = .ok p :=
  parse_export_params C hC p0 p hw h0

/-- `<network axes-xy angles epoch>`: all 8 × 2 conventions, hence the same `y_sign()` on both sides -/
theorem C13_roundtrip_axes (C : Codec K) (hC : C.LawfulOn R) (h : Head K) (hrep : ∀ e, h.epoch = some e → R e) :
    parseHead C (exportHead C h) = .ok h :=
  parse_export_head C hC h hrep

/-- a `<vectors>` cluster: ids, dx dy dz, extern, and the covariance matrix; with inconsistent axes / angles dy and the
    covariances between dy and dx / dz are written with the opposite sign and `remove_inconsistency()` (`mirrorClusterIf`)
    restores them: s·s = 1.  The parser's other state (points, earlier clusters) is untouched.  Gons or degrees. -/
theorem C13_roundtrip_vectors (C : Codec K) (hC : C.LawfulOn R) (hD : C.DegLawfulOn Rd) (impl : Kind → K) (par : Params K)
    (ys gons : Bool)
    (ps : List (Point K)) (cl : List (Cluster K)) (pp : String) (vecs : List (Vec K)) (cov : Cov K)
    (hw : (Cluster.vectors vecs cov).WF C R Rd gons par.sigmaApr ps) :
    ∃ pp', (parseItem C impl par ⟨ps.map (mirrorIf C ys), cl, pp⟩ (exportCluster' C ys gons (.vectors vecs cov))).map
        (fun s => { s with clusters := s.clusters.map (mirrorClusterIf C ys) })
      = .ok ⟨ps.map (mirrorIf C ys), cl.map (mirrorClusterIf C ys) ++ [.vectors vecs cov], pp'⟩ := by
  obtain ⟨pp', h⟩ := parse_export_cluster' C hC hD impl par ys gons ps cl pp _ hw
  refine ⟨pp', ?_⟩
  rw [h]
  cases ys
  · simp [Except.map, mirrorClusterIf]
  · simp [Except.map, mirrorClusterIf, mirrorCluster_mirrorCluster C hC]

/-- a `<coordinates>` cluster: ids, x y z, extern of the cluster, covariance matrix with the y_sign conjugation; the
    points it names keep their coordinates (`agrees`: they have the coordinate groups the observations have; since 6848bc2a
    the observed values do not replace them, so the values need not be equal) -/
theorem C13_roundtrip_coordinates (C : Codec K) (hC : C.LawfulOn R) (hD : C.DegLawfulOn Rd) (impl : Kind → K) (par : Params K)
    (ys gons : Bool)
    (ps : List (Point K)) (cl : List (Cluster K)) (pp : String) (ext : String) (pts : List (CPoint K)) (cov : Cov K)
    (hw : (Cluster.coords ext pts cov).WF C R Rd gons par.sigmaApr ps) :
    ∃ pp', (parseItem C impl par ⟨ps.map (mirrorIf C ys), cl, pp⟩ (exportCluster' C ys gons (.coords ext pts cov))).map
        (fun s => { s with clusters := s.clusters.map (mirrorClusterIf C ys) })
      = .ok ⟨ps.map (mirrorIf C ys), cl.map (mirrorClusterIf C ys) ++ [.coords ext pts cov], pp'⟩ := by
  obtain ⟨pp', h⟩ := parse_export_cluster' C hC hD impl par ys gons ps cl pp _ hw
  refine ⟨pp', ?_⟩
  rw [h]
  cases ys
  · simp [Except.map, mirrorClusterIf]
  · simp [Except.map, mirrorClusterIf, mirrorCluster_mirrorCluster C hC]

/-! ### output in degrees (`angles="360"`) -/

/-- an observation of `<obs>` in gons or degrees: in degrees the value of a direction / angle / zenith angle / azimuth
    is written as sexagesimal text (`gon2deg(m, 0, 4)`) and its standard deviation in seconds (`* 0.324`); the parser's
    `deg2gon` accepts the text, the observation comes back with its standard deviation still in the unit of the file
    (`obsOut`) and the flag "sexagesimal" set exactly for the angular observations of a file in degrees (`finish_obs`
    then scales the flagged rows by 1.0/0.324: next theorem) -/
theorem C13_roundtrip_obs_degrees (C : Codec K) (hC : C.LawfulOn R) (hD : C.DegLawfulOn Rd) (impl : Kind → K) (gons : Bool)
    (cf : String) (o : Obs K) (hw : o.WF C.toNumFmt) (hr : o.RepU C R Rd gons) (hdir : o.kind = .direction → o.from_ = cf) :
    parseElemU C impl cf C.zero (exportObsU C gons cf o) = .ok (obsOut C gons o, !gons && o.kind.angular) :=
  parse_export_elemU C hC hD impl gons cf o hw hr hdir

/-- a whole `<obs>` cluster in gons or degrees, with or without a covariance matrix: standard deviations and the rows
    and columns of the angular observations (`unit[i]·unit[j]`, the diagonal twice) go out in seconds and come back -/
theorem C13_roundtrip_obs_cluster_degrees (C : Codec K) (hC : C.LawfulOn R) (hD : C.DegLawfulOn Rd) (impl : Kind → K)
    (par : Params K) (ys gons : Bool) (ps : List (Point K)) (cl : List (Cluster K)) (pp : String) (sp : StandPoint K)
    (cov : Option (Cov K)) (hw : (Cluster.obs sp cov).WF C R Rd gons par.sigmaApr ps) :
    ∃ pp', parseItem C impl par ⟨ps.map (mirrorIf C ys), cl, pp⟩ (exportCluster' C ys gons (.obs sp cov))
      = .ok ⟨ps.map (mirrorIf C ys), cl ++ [.obs sp cov], pp'⟩ := by
  obtain ⟨pp', h⟩ := parse_export_cluster' C hC hD impl par ys gons ps cl pp _ hw
  refine ⟨pp', ?_⟩
  rw [h]
  cases ys <;> rfl

/-- the factor of the export (0.324, DisplayObservationVisitor and updated_xml_covmat) and of the parser (1.0/0.324,
    finish_obs) cancel over every field in which 0.324 ≠ 0: the hypotheses `fromSec (toSec x) = x`, `toSec (fromSec x) = x` -/
theorem C13_seconds_factors_cancel {F : Type} [Field F] (h : (324 / 1000 : F) ≠ 0) (x : F) :
    x * (324 / 1000) * (1 / (324 / 1000)) = x ∧ x * (1 / (324 / 1000)) * (324 / 1000) = x :=
  sec_factors_cancel h x

/-- the hypothesis about the sexagesimal text, for the models C18 verifies (`Gama.Angles.gon2deg` = the formatter of the
    tree, `Gama.Angles.deg2gon`; exact arithmetic): for every angle 0 ≤ g with `g·0.9 < 2³¹−1` the text export_xml writes
    (`gon2deg(g, 0, 4)`) is accepted by `deg2gon`, and the value read, `degQ g` — the quantisation `qd` of
    `Codec.Printer` — differs from `g` by at most half a unit of the fourth decimal of the seconds -/
theorem C13_sexagesimal_read_back (g : ℚ) (h0 : 0 ≤ g) (hg : g * (9 / 10) < 2147483647) :
    ((Angles.gon2deg g 0 4).bind fun s => (Angles.deg2gon s : Option ℚ)) = some (degQ g) ∧
    |degQ g - g| ≤ (1 / 2) / (10 : ℚ) ^ 4 / 3600 / (9 / 10) :=
  sexagesimal_read_back g h0 hg

/-! ### the whole document -/

/-- the whole document: reading what export_xml wrote gives the network back (without its unused points), for all
    networks, any number of points and clusters of the four kinds, all axes / angle conventions, output in gons or in
    degrees.  FULL on the model (the property's first sentence); `Net.WF` is decidable (Model/ExportWF.lean). -/
theorem C13_roundtrip_network (C : Codec K) (hC : C.LawfulOn R) (hD : C.DegLawfulOn Rd) (impl : Kind → K) (par0 : Params K)
    (n : Net K) (hw : n.WF C R Rd) : parseNet C impl par0 (exportNet C n) = .ok (canon n) :=
  parse_export_net C hC hD impl par0 n hw

/-- exporting what was read from an export yields the same document -/
theorem C13_fixed_point_network (C : Codec K) (hC : C.LawfulOn R) (hD : C.DegLawfulOn Rd) (impl : Kind → K) (par0 : Params K)
    (n : Net K) (hw : n.WF C R Rd) : (parseNet C impl par0 (exportNet C n)).map (exportNet C) = .ok (exportNet C n) := by
  rw [parse_export_net C hC hD impl par0 n hw]
  simp [Except.map, exportNet_canon]

/-- points without any status are not written, and that is all `canon` changes: the exported document is the same -/
theorem C13_export_skips_unused (C : Codec K) (n : Net K) : exportNet C (canon n) = exportNet C n :=
  exportNet_canon C n

/-! ## a printer with finitely many digits (`Codec.PrinterOn D`: `rd (fmt x) = some (q x)`, `fmt (q x) = fmt x`; the
    sexagesimal text likewise with its own quantisation `qd`, its two laws required on the domain `D` only; round 8: the
    elements of `<cov-mat>` likewise with THEIR printer `fmtCov` and quantisation `qc` — `updated_xml_covmat` prints them
    with `scientific`, `precision(16)`, not through `to_xmlstr`)

  `R x := q x = x`, `Rc x := qc x = x`, `Rd x := D x ∧ qd x = x` are the numbers the three printers give back exactly
  (`Net.WFc C R Rc Rd`; `Net.WF C R Rd` is `Rc := Codec.CovRep`, i.e. `rd (fmtCov x) = some x`, the same thing for a printer:
  `Codec.PrinterOn.wf_iff`); every number read from
  a printed file is one, so the theorems above apply verbatim to the second, third, … export.  For the first export of
  arbitrary numbers the angular values printed as sexagesimal text must lie in the domain of that printer
  (`Net.AngIn D`; gama normalises observed angles to [0, 400) gon; a document in gons prints none: `Net.angIn_gons`).
  `Codec.Printer` = `Codec.PrinterOn (fun _ => True)` is the law without a domain.  The REAL pair of printers
  (`%.{p}g` and C18's `gon2deg(·, 0, 4)` / `deg2gon`) satisfies `PrinterOn` with `D g := 0 ≤ g ∧ g·0.9 < 2³¹−1`:
  Props/C13Codec.lean. -/

/-- the exported document does not change when every number of the network is replaced by its printed-and-read value
    (in degrees: the value of an angular observation by `qd`, its standard deviation and covariance rows quantised in
    seconds) -/
theorem C13_export_quantised {C : Codec K} {D : K → Prop} {q qc qd : K → K} (P : C.PrinterOn D q qc qd) (n : Net K)
    (hD : n.AngIn D) : exportNet C (quantNet C q qc qd n) = exportNet C n :=
  exportNet_quant P n hD

/-- reading the export gives the network with every number quantised (`quantNet`: `x ↦ q x`, covariance elements
    `x ↦ qc x`; the latitude through its
    unit conversion; in degrees `val ↦ qd val`, `stdev ↦ fromSec (q (toSec stdev))`), provided the angular values printed
    as sexagesimal text are in the domain `D` of that printer and the quantised values still pass the parser's guards
    (`Net.WFc` of the quantised network, decidable, in arithmetic).  Gons and degrees. -/
theorem C13_roundtrip_network_printer {C : Codec K} {D : K → Prop} {q qc qd : K → K} (P : C.PrinterOn D q qc qd) (impl : Kind → K)
    (par0 : Params K) (n : Net K) (hD : n.AngIn D)
    (hw : (quantNet C q qc qd n).WFc C (fun x => q x = x) (fun x => qc x = x) (fun x => D x ∧ qd x = x)) :
    parseNet C impl par0 (exportNet C n) = .ok (canon (quantNet C q qc qd n)) :=
  parse_export_net_printer P impl par0 n hD hw

/-- … and exporting that again gives the same document: the export is a fixed point from the first round on -/
theorem C13_fixed_point_network_printer {C : Codec K} {D : K → Prop} {q qc qd : K → K} (P : C.PrinterOn D q qc qd) (impl : Kind → K)
    (par0 : Params K) (n : Net K) (hD : n.AngIn D)
    (hw : (quantNet C q qc qd n).WFc C (fun x => q x = x) (fun x => qc x = x) (fun x => D x ∧ qd x = x)) :
    (parseNet C impl par0 (exportNet C n)).map (exportNet C) = .ok (exportNet C n) := by
  rw [parse_export_net_printer P impl par0 n hD hw]
  simp [Except.map, exportNet_canon, exportNet_quant P n hD]

/-- the side condition about the domain is what `Net.WF` says about the angular values of a file in degrees (`Rd ⊆ D`);
    a document in gons meets it for every `D` -/
theorem C13_wf_angular_in_domain {C : Codec K} {R Rd D : K → Prop} (n : Net K) :
    (n.WF C R Rd → (∀ x, Rd x → D x) → n.AngIn D) ∧ (n.par.gons = true → n.AngIn D) :=
  ⟨fun w h => w.angIn h, Net.angIn_gons D n⟩

/-! ## the adjustment clauses (Model/ExportAdj.lean)

  gama-local exports after `refine_adjustment()`.  export_xml writes `point.x()`, `point.y()`, `point.z()` — the
  coordinates in PointData, i.e. the point of the LAST linearisation — and never adds the corrections itself. -/

/-- "approximate coordinates updated from the adjustment", as the code has it: after a pass of
    refine_approx_coordinates with the solution `x` every point of PointData — free or constrained alike, the status is
    not consulted — holds the adjusted coordinates of that solution (`approximate + x(i)/1000`, y from `x(i+1)`), points
    that are not unknowns keep theirs, and export_xml writes exactly those.  `_partial`: the clause read literally
    ("the exported coordinates are the adjusted ones of the reported adjustment") is FALSE for the code: the reported
    adjustment is a further solution at the refined point, and when no pass was needed the given approximate coordinates
    are exported unchanged (`C13_export_coordinates_adjusted_iff`, witness `C13_export_not_adjusted_witness`, replayed on
    corpus/C13/net-coords-nw.gkf: P3 exported x = 107.5331, adjusted 107.5370). -/
theorem C13_export_coordinates_are_adjusted_partial (C : Codec K) (upd : Nat → K → K → K) (z0 : K) (x : List K)
    (unks : List UnkT) (hnd : unks.Nodup) (n : Net K) :
    (refineNet upd z0 x unks n).points = n.points.map (adjusted upd z0 x unks) ∧
    (exportNet C (refineNet upd z0 x unks n)).items =
      (((n.points.map (adjusted upd z0 x unks)).filter Point.active).map (fun p => DItem.point (exportPoint C n.head.ys p))) ++
        n.clusters.map (exportCluster' C n.head.ys n.par.gons) := by
  have h := refineNet_points upd z0 x unks hnd n
  refine ⟨h, ?_⟩
  simp only [exportNet, h]
  rfl

/-- the guarded coordinate setters of 6848bc2a are in the tree (regeneration tie; all three false on a tree before it, where
    `apply_noop`, `applyObs_keeps` and with them the theorems below fail): `process_coords_point` calls
    `process_point(atts, true)`, and there `set_xy` / `set_z` are skipped when the point already has the group -/
theorem C13_coords_point_keeps_approx_sites :
    coordsPointObserved = true ∧ observedKeepsXY = true ∧ observedKeepsZ = true := by decide

/-- **a `<coordinates>` cluster never changes coordinates a point already has**: for ANY accepted list of `<point>` elements
    inside `<coordinates>` and any PointData, every point is still there afterwards with its id and with every coordinate
    group it had (its status may change: `fix=` / `adj=` still apply; a point without coordinates gets the observed ones).
    Before 6848bc2a the observed values replaced them — also the adjusted coordinates an export had written. -/
theorem C13_coordinates_cluster_keeps_coordinates (C : Codec K) (ps : List (Point K)) (pp : String)
    (pts : List (List (PAttr × String))) (ps' : List (Point K)) (pp' : String) (cps : List (CPoint K))
    (h : parseCoordPts C ps pp pts = .ok (ps', pp', cps)) :
    ∀ p ∈ ps, ∃ p' ∈ ps', p'.id = p.id ∧ (p.xy.isSome = true → p'.xy = p.xy) ∧ (p.z.isSome = true → p'.z = p.z) :=
  parseCoordPts_keeps C ps pp pts ps' pp' cps h

/-- **"approximate coordinates updated from the adjustment" survives the re-import, whatever `<coordinates>` clusters
    follow**: take any well-formed network — its coordinate observations may name the adjusted points, with any values —
    refine it with a solution `x` (`refineNet` = refine_approx_coordinates), export it and read the export: the result is the
    refined network; its points carry `approximate + x(i)/1000` (`adjusted`), not the observed coordinates.  For a codec
    that gives every number back (the moved coordinates are arbitrary numbers; for a printer: `C13_roundtrip_network_printer`
    on the refined network).  Before 6848bc2a this was FALSE for a point with observed coordinates (`Net.WF` demanded
    `p.xy = c.xy`, which refining destroys: the re-import gave the observed values back — replays/C13-11, corpus
    net-observed-coords-dh.gkf). -/
theorem C13_reimport_keeps_adjusted_coordinates (C : Codec K) (hC : C.LawfulOn (fun _ => True)) (hD : C.DegLawfulOn Rd)
    (impl : Kind → K) (par0 : Params K) (upd : Nat → K → K → K) (z0 : K) (x : List K) (unks : List UnkT) (hnd : unks.Nodup)
    (n : Net K) (hw : n.WF C (fun _ => True) Rd) :
    parseNet C impl par0 (exportNet C (refineNet upd z0 x unks n)) = .ok (canon (refineNet upd z0 x unks n)) ∧
    (canon (refineNet upd z0 x unks n)).points = (n.points.filter Point.active).map (adjusted upd z0 x unks) := by
  refine ⟨parse_export_net C hC hD impl par0 _ (refineNet_WF upd z0 x unks hnd n hw), ?_⟩
  show (refineNet upd z0 x unks n).points.filter Point.active = _
  rw [refineNet_points upd z0 x unks hnd n, filter_active_adjusted]

/-- the sites the model of the refinement was written for are the ones the tree contains (regeneration tie): `x = solve()`,
    `LocalPoint& b = PD[cb]` by reference, `x(i)/1000`, `x(i+1)/1000` for y, no test of the point's status, and the loop of
    refine_adjustment -/
theorem C13_refine_sites : refineSolves = true ∧ refineXY = (true, 1000, 1, 1000) ∧ refineZ = (true, 1000) ∧
    refineLoopShape = true := by decide

/-- exported = adjusted exactly when the corrections vanish: over a field, `a + d/1000 = a ↔ d = 0` -/
theorem C13_export_coordinates_adjusted_iff {F : Type} [Field F] [CharZero F] (a d : F) : a + d / 1000 = a ↔ d = 0 := by
  constructor
  · intro h
    have h1 : d / 1000 = 0 := by simpa using h
    have h2 : (1000 : F) ≠ 0 := by norm_num
    exact (div_eq_zero_iff.mp h1).resolve_right h2
  · intro h; simp [h]

/-- a free point with a non-zero last correction: what export_xml writes (PointData) is not the adjusted coordinate -/
theorem C13_export_not_adjusted_witness :
    (adjusted (fun _ a d => a + d) 0 [38, 8] [.X "P3", .Y "P3"] ⟨"P3", some (1075331, -5102111), none, .free, .unused⟩).xy
      ≠ (⟨"P3", some (1075331, -5102111), none, .free, .unused⟩ : Point Int).xy := by decide

/-- "adjusting it gives the same adjusted coordinates, residuals and statistics without further iterations" — the exact
    statement.  `step` = one pass of refine_adjustment's loop (`none`: neither refine_obsdh_reductions nor
    TestLinearization asks for a refinement), `adj` = everything gama-local computes from the network at its current
    coordinates — design matrix and right-hand side (C05: a function of coordinates and observations), the solution of
    whichever algorithm (C01 / C04: all four are functions of the problem), residuals, Φ, cofactors, statistics (C09:
    functions of (A, b, P, Q)): ANY function of the network.  IF the run that was exported had converged — its loop ended
    because no test asked for a refinement, not because the iteration budget was used up (`hconv`) — THEN the exported
    document is read back as the same network (`C13_roundtrip_network`), the loop of the second run stops at once with
    ZERO iterations, and `adj` — coordinates, residuals, statistics — is the same.  (`hadj`, `hstep`: points without any
    status take no part in the adjustment.)  For the printed precision see `C13_roundtrip_network_printer`: the second run
    starts from `quantNet`, the e2e oracle measures how far that moves the results. -/
theorem C13_readjustment_identical {α : Type} (C : Codec K) (hC : C.LawfulOn R) (hD : C.DegLawfulOn Rd) (impl : Kind → K)
    (par0 : Params K) (adj : Net K → α) (step : Net K → Option (Net K)) (fuel fuel' : Nat) (n : Net K)
    (hw : (refineLoop step fuel n).1.WF C R Rd)
    (hconv : step (refineLoop step fuel n).1 = none)
    (hadj : ∀ m, adj (canon m) = adj m) (hstep : ∀ m, step m = none → step (canon m) = none) :
    ∃ m, parseNet C impl par0 (exportNet C (refineLoop step fuel n).1) = .ok m ∧
         refineLoop step fuel' m = (m, 0) ∧ adj m = adj (refineLoop step fuel n).1 :=
  ⟨canon (refineLoop step fuel n).1, parse_export_net C hC hD impl par0 _ hw,
   refineLoop_stop step fuel' _ (hstep _ hconv), hadj _⟩

/-- the dependence on "converged" is real: a run that stopped only because its iteration budget was used up exports a
    network whose re-adjustment does iterate -/
theorem C13_readjustment_iterates_when_not_converged (step : Net K → Option (Net K)) (fuel' : Nat) (m s' : Net K)
    (h : step m = some s') : 1 ≤ (refineLoop step (fuel' + 1) m).2 := by
  rw [refineLoop_iterates step fuel' m s' h]
  omega

/-- a run ends converged or with its budget used up (`linearization_iterations() = max`) -/
theorem C13_run_converged_or_exhausted (step : Net K → Option (Net K)) (fuel : Nat) (n : Net K) :
    step (refineLoop step fuel n).1 = none ∨ (refineLoop step fuel n).2 = fuel :=
  refineLoop_end step fuel n

/-- with C06: the state in which every positional misclosure of the stopping test is zero (the iteration's fixed point,
    `C06_fixed_point_pol…`) is a converged state of the loop — `TestLinearization` = `GN.testLin` of the misclosures -/
theorem C13_converged_at_fixed_point (pols : Net ℝ → List ℝ) (refine : Net ℝ → Net ℝ) (n : Net ℝ) (k : ℕ)
    (h : pols n = List.replicate k 0) :
    (fun m => if GN.testLin (pols m) then some (refine m) else none) n = none := by
  simp [h, C06L.testLin_zeros k]

/-! ## the hypothesis `Net.WF`: decidable, and what the parser establishes of it -/

/-- `Net.WF` can be decided (for decidable `R`, `Rd` and decidable equality of numbers): it is evaluated by
    Driver/Export.lean on every document of the `doc` stream and by `decide` in the examples below -/
theorem C13_wf_decidable (C : Codec K) [DecidableEq K] [DecidablePred R] [DecidablePred Rd] (n : Net K) :
    decide (n.WF C R Rd) = true ↔ n.WF C R Rd := by simp

/-- what GKFparser establishes for EVERY document it accepts: parameters within the guards of the setters (given that
    the defaults of the reading network are), point ids non-empty and pairwise distinct.  `_partial`: the full statement
    `parseNet d = ok n → Net.WF n` is FALSE for the parser — the cluster part of `Net.WF` fails for a `<dh>` given both
    `dist` and `stdev` (the export writes `dist` only: finding F28, `C13_F28_witness`), a `<vec>` with `from_dh` / `to_dh`
    (deliberately not exported), a `<coordinates>` point without status (since 6848bc2a a later `<point>` that gives the point other coordinates is no exception any more: `agrees` compares the groups, not the values); for all
    other documents of the `doc` stream the driver finds `Net.WF` true.  Covariance matrices: next theorem. -/
theorem C13_parser_establishes_wf_partial (C : Codec K) (hell : C.ellKnown "wgs84" = true) (impl : Kind → K) (par0 : Params K)
    (d : Doc) (n : Net K) (h : parseNet C impl par0 d = .ok n) (h0 : par0.Guards C) :
    n.par.WF C (fun _ => True) ∧ (∀ p ∈ n.points, p.id ≠ "" ∧ p.Rep (fun _ => True)) ∧ (n.points.map (·.id)).Nodup := by
  have hp := parseNet_points_ok C impl par0 d n h
  refine ⟨Params.wf_of_guards C _ (parseNet_params_ok C hell impl par0 d n h h0), ?_, hp.2⟩
  intro p hpm
  refine ⟨hp.1 p hpm, ?_⟩
  unfold Point.Rep
  cases p.xy <;> cases p.z <;> simp

/-- every covariance matrix the parser accepts has dim ≥ 1, band < dim, dim = number of observations of its cluster and
    exactly the packed number of elements (`process_cov`, `finish_cov`, `finish_<cluster>`) -/
theorem C13_parser_cov_wf (C : Codec K) (n : Nat) (d : CovDoc) (c : Cov K) (h : parseCovChecked C n d = .ok c) :
    c.WF (fun _ => True) n :=
  parseCovChecked_wf C n d c h

/-- F28 (found with the decidable hypothesis; replayed on the real code, corpus/C13/doc-dh-dist-stdev-F28.gkf): a `<dh>`
    given both `dist` and `stdev` keeps the given standard deviation; the export before 9f04c51 (`always = false`) wrote
    `dist` only, and reading it gave the standard deviation implied by the distance -/
theorem C13_F28_witness :
    (match parseDh strFmt id [(.from_, "A"), (.to, "B"), (.val, "1"), (.dist, "2"), (.stdev, "9")] with
     | .ok h => (h.stdev, (exportDh strFmt true (· != "0") false h).2,
         match parseDh strFmt id (exportDh strFmt true (· != "0") false h).2 with | .ok h2 => h2.stdev | .error _ => "refused")
     | .error _ => ("refused", [], "")) = ("9", [(.from_, "A"), (.to, "B"), (.val, "1"), (.dist, "2")], "2") := by decide

/-- F28 repaired: the tree writes the standard deviation of a `<dh>` always (regenerated; false before 9f04c51) -/
theorem C13_F28_repaired : dhStdevAlways = true := by decide

/-- F27 repaired: the latitude is written in the unit process_parameters reads (false on the pinned tree) -/
theorem C13_F27_repaired : latitudeInGons = true := by decide

/-! ## non-vacuity: numbers = their decimal text (fmt = id), which satisfies the hypothesis -/

example : strFmt.LawfulOn (fun _ => True) := ⟨fun _ _ => rfl, fun x => by simp [strFmt]⟩

-- an angle with all three heights and extern, standpoint different from the cluster's
example : (exportObs strFmt true "S" ⟨.angle, "A", "B", "C", "100", "10", "1.5", "1.2", "1.7", "e 1"⟩).2 =
    [(.from_, "A"), (.bs, "B"), (.fs, "C"), (.from_dh, "1.5"), (.bs_dh, "1.2"), (.fs_dh, "1.7"),
     (.val, "100"), (.stdev, "10"), (.extern, "e 1")] := by decide
example : (match parseObs strFmt "S" "0" "7" .angle
    [(.from_, "A"), (.bs, "B"), (.fs, "C"), (.from_dh, "1.5"), (.bs_dh, "1.2"), (.fs_dh, "1.7"),
     (.val, "100"), (.stdev, "10"), (.extern, "e 1")] with
    | .ok o => [o.from_, o.to, o.fs, o.extern, o.val, o.stdev, o.fromDh, o.toDh, o.fsDh]
    | .error _ => []) = ["A", "B", "C", "e 1", "100", "10", "1.5", "1.2", "1.7"] := by decide
-- a direction without optional attributes inherits the standpoint; zero heights are not written
example : (exportObs strFmt true "S" ⟨.direction, "S", "B", "", "5", "10", "0", "0", "0", ""⟩).2 =
    [(.to, "B"), (.val, "5"), (.stdev, "10")] := by decide
-- an attribute the element does not accept is an error
example : (match parseObs strFmt "S" "0" "7" .direction [(.bs, "B")] with
    | .error .undefinedAttribute => true | _ => false) = true := by decide
-- <dh> with a distance / with a standard deviation
example : (exportDh strFmt true (· != "0") true ⟨"A", "B", "1.25", "0.7", "8.4", ""⟩).2 =
    [(.from_, "A"), (.to, "B"), (.val, "1.25"), (.dist, "0.7"), (.stdev, "8.4")] := by decide
example : (exportDh strFmt true (· != "0") true ⟨"A", "B", "1.25", "0", "3", "x"⟩).2 =
    [(.from_, "A"), (.to, "B"), (.val, "1.25"), (.stdev, "3"), (.extern, "x")] := by decide
-- x, y, z of one point (y mirrored), full matrix: cov(x,y) and cov(y,z) change sign, cov(x,z) and the diagonal do not
example : entrySigns 3 2 (fun i => i == 2) = [false, true, false, false, true, false] := by decide
example : (exportCovY strFmt (fun s => "-" ++ s) true (fun i => i == 2) ⟨3, 2, ["a", "b", "c", "d", "e", "f"]⟩).2.2 =
    ["a", "-b", "c", "d", "-e", "f"] := by decide

/-! ## non-vacuity, whole document -/

example : unaryCodec.LawfulOn (fun _ => True) :=
  ⟨⟨fun x _ => by simp [unaryCodec], fun x => by simp [unaryCodec]⟩, fun _ => rfl, fun _ _ => trivial,
   fun i hi => by simp [unaryCodec]; omega, fun _ => rfl, fun _ => rfl,
   fun x => by
     intro h
     have := congrArg String.length h
     simp [unaryCodec] at this,
   fun _ h => h⟩

-- a constrained-xy / fixed-z point in an inconsistent system: y mirrored back, `fix="z"`, `adj="XY"`
example : exportPoint strCodec true ⟨"A", some ("1", "2"), some "3", .constr, .fixed⟩ =
    [(.id, "A"), (.x, "1"), (.y, "-2"), (.z, "3"), (.fix, "z"), (.adj, "XY")] := by decide
-- a vector and a coordinate point in an inconsistent system
example : exportVec strCodec true ⟨"A", "B", "1", "2", "3", "0", "0", "e"⟩ =
    [(.from_, "A"), (.to, "B"), (.dx, "1"), (.dy, "-2"), (.dz, "3"), (.extern, "e")] := by decide
example : exportCPoint strCodec true ⟨"A", some ("1", "2"), some "3"⟩ = [(.id, "A"), (.x, "1"), (.y, "-2"), (.z, "3")] := by decide
-- parameters: the optional ones appear only when set
example : (exportParams strCodec ⟨"10", "0.95", "1000", false, true, none, none, none, -1⟩).map (·.1) =
    [.sigma_apr, .conf_pr, .tol_abs, .sigma_act, .angles, .cov_band] := by decide
-- the sample network (every cluster kind, a constrained and an unused point, en + left-handed = inconsistent) meets the hypotheses
example : sampleNet.head.ys = true := by decide
example : (canon sampleNet).points.map (·.id) = ["A", "B"] := by decide

-- a printer with a fixed number of decimal digits (units of 10⁻⁴ printed in units of 10⁻³) satisfies the hypotheses,
-- is lossy, and the quantised sample network (inconsistent axes, a constrained and an unused point, a vectors cluster)
-- meets the side condition
example : decCodec.Printer decQ decQd := decCodec_printer
example : decCodec.rd (decCodec.fmt 1001) = some 1010 := by rw [decCodec_printer.rd_fmt]; rfl
example : decCodec.rdDeg (decCodec.fmtDeg 123456) = some 123500 := by rw [decCodec_printer.rdDeg_fmtDeg _ trivial]; rfl
example : (quantNet decCodec decQ decQ decQd lossyNet).WFc decCodec (fun x => decQ x = x) (fun x => decQ x = x) (fun x => True ∧ decQd x = x) := lossyNet_WF
example : lossyNet.head.ys = true := by decide
-- output in degrees: an `<obs>` cluster with a direction, a distance, an angle and a full covariance matrix; the
-- quantised network meets the (decidable) side condition, and the theorem applies to it
example : lossyNetDeg.par.gons = false := rfl
example : (quantNet decCodec decQ decQ decQd lossyNetDeg).WFc decCodec (fun x => decQ x = x) (fun x => decQ x = x) (fun x => True ∧ decQd x = x) := lossyNetDeg_WF
example : lossyNetDeg.AngIn (fun _ => True) := by decide
example : parseNet decCodec (fun _ => 7) lossyNet.par (exportNet decCodec lossyNetDeg)
    = .ok (canon (quantNet decCodec decQ decQ decQd lossyNetDeg)) :=
  C13_roundtrip_network_printer decCodec_printer _ _ _ (by decide) lossyNetDeg_WF
-- the hypothesis of the exact theorem is decidable: evaluated on the sample network; the parser theorems apply to what
-- the model reads from the sample network's own export
example : unaryCodec.ellKnown "wgs84" = true := rfl
example : (sampleNet.par).Guards unaryCodec := by unfold Params.Guards; decide
-- (`Net.WF` asks `rd (fmtCov x) = some x` of the covariance elements — true for every number of the unary codec; the rest is decided)
example : sampleNet.WF unaryCodec (fun _ => True) (fun _ => True) :=
  (Net.WFc.congr_cov (fun x => ⟨fun _ => by simp [Codec.CovRep, unaryCodec], fun _ => trivial⟩) _).mp
    (by decide : sampleNet.WFc unaryCodec (fun _ => True) (fun _ => True) (fun _ => True))
-- 6848bc2a: B has observed coordinates (4, 5) in the `gps` cluster; after the refinement pass B is at (9, 12), the refined
-- network is still well-formed (the cluster keeps (4, 5)), and reading its export gives B = (9, 12) back
example : (refineNet (fun _ a d => a + d) 0 [5, 7, 9] [.X "B", .Y "B", .Z "B"] sampleNet).WF unaryCodec (fun _ => True) (fun _ => False) :=
  (Net.WFc.congr_cov (fun x => ⟨fun _ => by simp [Codec.CovRep, unaryCodec], fun _ => trivial⟩) _).mp
    (by decide : (refineNet (fun _ a d => a + d) 0 [5, 7, 9] [.X "B", .Y "B", .Z "B"] sampleNet).WFc unaryCodec
      (fun _ => True) (fun _ => True) (fun _ => False))
set_option maxRecDepth 100000 in
example : ((parseNet unaryCodec (fun _ => 7) sampleNet.par
      (exportNet unaryCodec (refineNet (fun _ a d => a + d) 0 [5, 7, 9] [.X "B", .Y "B", .Z "B"] sampleNet))).toOption.map
        (fun m => m.points.map (fun p => (p.id, p.xy)))) = some [("A", some (1, 2)), ("B", some (9, 12))] := by decide +kernel
set_option maxRecDepth 100000 in
example : ((parseNet unaryCodec (fun _ => 7) sampleNet.par
      (exportNet unaryCodec (refineNet (fun _ a d => a + d) 0 [5, 7, 9] [.X "B", .Y "B", .Z "B"] sampleNet))).toOption.map
        (fun m => m.clusters.filterMap (fun c => match c with | .coords _ pts _ => some (pts.map (fun q => q.xy)) | _ => none)))
    = some [[some (4, 5)]] := by decide +kernel
-- the refinement pass moves a constrained point like a free one, and leaves a fixed one
example : (refineNet (fun _ a d => a + d) 0 [5, 7, 9] [.X "B", .Y "B", .Z "B"] sampleNet).points.map (·.xy) =
    [some (1, 2), some (9, 12), some (6, 7)] := by decide
-- converged: zero iterations; not converged: the budget is used up
example : refineLoop (fun n : Nat => if n < 3 then some (n + 1) else none) 10 0 = (3, 3) := by decide
example : refineLoop (fun n : Nat => if n < 3 then some (n + 1) else none) 10 3 = (3, 0) := by decide
example : refineLoop (fun n : Nat => if n < 3 then some (n + 1) else none) 2 0 = (2, 2) := by decide

end Gama.Props.C13
