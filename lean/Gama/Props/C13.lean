/-
  C13 — Exported input reproduces the adjustment and is a fixed point.

  Property theorems only; helper lemmas live in Gama/Lemmas/Export.lean.  `route` (which attribute of
  which element reaches which constructor argument / setter in GKFparser::process_*) is REGENERATED from
  gkfparser.cpp; the parser model is generic in it, so the proofs below are re-checked against the
  attribute handling of the tree being checked.

  Covered by theorems: observations of an `<obs>` cluster with all their attributes (from, to/bs/fs, val,
  stdev, from_dh, to_dh/bs_dh, fs_dh, extern), `<dh>` (dist / stdev, extern), `<cov-mat>`, a whole
  StandPoint cluster; fixed point of export∘parse∘export.  The single hypothesis about numbers is
  `rd (fmt x) = some x` (+ `isZero x ↔ x = 0`).  Explored only (tools/props/c13.py): points and status,
  parameters, vectors/coordinates clusters, units (gon/degree), digits printed, and everything that
  involves the adjustment (same coordinates, no further iterations, n = 1, 2, 3 rounds).
-/
import Gama.Lemmas.Export
import Gama.Lemmas.ExportExamples
namespace Gama.Props.C13
open Gama Gama.Export Gama.Gen.GkfAttrs

variable {K : Type}

/-- parse ∘ export = id on an observation with every attribute (all six kinds, attributes zero or not,
    own or inherited standpoint, with or without extern) -/
theorem C13_roundtrip_obs (F : NumFmt K) (hF : F.Lawful) (cf : String) (impl : K) (o : Obs K)
    (hw : o.WF F) (hdir : o.kind = .direction → o.from_ = cf) :
    parseObs F cf F.zero impl o.kind (exportObs F true cf o).2 = .ok o :=
  parse_export_obs F hF cf impl o hw hdir

/-- parse ∘ export = id on a whole `<obs>` cluster (any number of observations) -/
theorem C13_roundtrip (F : NumFmt K) (hF : F.Lawful) (impl : Kind → K) (c : StandPoint K)
    (hw : ∀ o ∈ c.obs, o.WF F) (hdir : ∀ o ∈ c.obs, o.kind = .direction → o.from_ = c.station) :
    parseCluster F impl (exportCluster F true c) = .ok c :=
  parse_export_cluster F hF impl c hw hdir

/-- exporting what was parsed from an export yields the same file -/
theorem C13_fixed_point (F : NumFmt K) (hF : F.Lawful) (impl : Kind → K) (c : StandPoint K)
    (hw : ∀ o ∈ c.obs, o.WF F) (hdir : ∀ o ∈ c.obs, o.kind = .direction → o.from_ = c.station) :
    (parseCluster F impl (exportCluster F true c)).map (exportCluster F true) = .ok (exportCluster F true c) := by
  rw [parse_export_cluster F hF impl c hw hdir]; rfl

/-- `<dh>`: `dist` is exported when positive (then the standard deviation is the implied one), else `stdev` -/
theorem C13_roundtrip_dh (F : NumFmt K) (hF : F.Lawful) (sd : K → K) (pos : K → Bool) (h : HDiff K)
    (h1 : h.from_ ≠ "") (h2 : h.to ≠ "") (hpos : pos h.dist = false → h.dist = F.zero)
    (hsd : pos h.dist = true → h.stdev = sd h.dist) :
    parseDh F sd (exportDh F true pos h).2 = .ok h :=
  parse_export_dh F hF sd pos h h1 h2 hpos hsd

/-- `<cov-mat>`: same dim, band and elements -/
theorem C13_roundtrip_cov (F : NumFmt K) (hF : F.Lawful) (c : Cov K) : parseCov F (exportCov F c) = some c :=
  parse_export_cov F hF c

/-- `<cov-mat>` of `<coordinates>` / `<vectors>` with inconsistent axes/angles: the export negates the covariances
    between mirrored (y, dy) and not mirrored components, the parser followed by `remove_inconsistency()` negates the
    same entries again: the internal matrix comes back (all dim, band, mirror patterns) -/
theorem C13_roundtrip_cov_y_sign (F : NumFmt K) (hF : F.Lawful) (neg : K → K) (hneg : ∀ x, neg (neg x) = x)
    (ysign : Bool) (mir : Nat → Bool) (c : Cov K) :
    parseCovY F neg ysign mir (exportCovY F neg ysign mir c) = some c :=
  parse_export_covY F hF neg hneg ysign mir c

/-- F8 (pinned commit): with `fs_dh ↦ dropped` in process_angle the target height of the second target is lost.
    Stated on the route table as text so that it stays checkable after the repair: the regenerated table
    must route `fs_dh` to `set_fs_dh` -/
theorem C13_F8_repaired : route .angle .fs_dh = some .setFsDh := by decide

/-- F21 (pinned commit): `export_xml` does not write `extern`; parsing the export returns the observation
    without it -/
theorem C13_F21_witness (F : NumFmt K) (hF : F.Lawful) (x : K) :
    parseObs F "A" F.zero x .distance
      (exportObs F false "A" ⟨.distance, "A", "B", "", x, x, F.zero, F.zero, F.zero, "e1"⟩).2
      = .ok ⟨.distance, "A", "B", "", x, x, F.zero, F.zero, F.zero, ""⟩ :=
  parse_export_obs_noext_witness F hF x

/-! ## non-vacuity: numbers = their decimal text (fmt = id), which satisfies the hypothesis -/

example : strFmt.Lawful := ⟨fun _ => rfl, fun x => by simp [strFmt]⟩

-- an angle with all three heights and extern, standpoint different from the cluster's
example : (exportObs strFmt true "S" ⟨.angle, "A", "B", "C", "100", "10", "1.5", "1.2", "1.7", "e 1"⟩).2 =
    [(.from_, "A"), (.bs, "B"), (.fs, "C"), (.from_dh, "1.5"), (.bs_dh, "1.2"), (.fs_dh, "1.7"),
     (.val, "100"), (.stdev, "10"), (.extern, "e 1")] := by decide
example : (match parseObs strFmt "S" "0" "7" .angle
    [(.from_, "A"), (.bs, "B"), (.fs, "C"), (.from_dh, "1.5"), (.bs_dh, "1.2"), (.fs_dh, "1.7"),
     (.val, "100"), (.stdev, "10"), (.extern, "e 1")] with
    | .ok o => [o.from_, o.to, o.fs, o.extern, o.val, o.stdev, o.fromDh, o.toDh, o.fsDh]
    | .error _ => []) = ["A", "B", "C", "e 1", "100", "10", "1.5", "1.2", "1.7"] := by decide
-- a direction without optional attributes inherits the standpoint; zero heights are not written
example : (exportObs strFmt true "S" ⟨.direction, "S", "B", "", "5", "10", "0", "0", "0", ""⟩).2 =
    [(.to, "B"), (.val, "5"), (.stdev, "10")] := by decide
-- an attribute the element does not accept is an error
example : (match parseObs strFmt "S" "0" "7" .direction [(.bs, "B")] with
    | .error .undefinedAttribute => true | _ => false) = true := by decide
-- <dh> with a distance / with a standard deviation
example : (exportDh strFmt true (· != "0") ⟨"A", "B", "1.25", "0.7", "8.4", ""⟩).2 =
    [(.from_, "A"), (.to, "B"), (.val, "1.25"), (.dist, "0.7")] := by decide
example : (exportDh strFmt true (· != "0") ⟨"A", "B", "1.25", "0", "3", "x"⟩).2 =
    [(.from_, "A"), (.to, "B"), (.val, "1.25"), (.stdev, "3"), (.extern, "x")] := by decide
-- x, y, z of one point (y mirrored), full matrix: cov(x,y) and cov(y,z) change sign, cov(x,z) and the diagonal do not
example : entrySigns 3 2 (fun i => i == 2) = [false, true, false, false, true, false] := by decide
example : (exportCovY strFmt (fun s => "-" ++ s) true (fun i => i == 2) ⟨3, 2, ["a", "b", "c", "d", "e", "f"]⟩).2.2 =
    ["a", "-b", "c", "d", "-e", "f"] := by decide

end Gama.Props.C13
