/-
  C09 at `LocalNetwork` level — `C09_stdev_of_net` and `C09_net_sigma_apr_scaling` APPLIED over ℝ (at the shared
  `Scalar ℝ`, the carrier of these theorems), every hypothesis discharged on one object (audit #3, closing-table
  gap #2).  `Ex.npR` (`Lemmas/Ls/NetFacadeReal.lean`, `Props/C01/NetWitness.lean`): a CORRELATED cluster with an
  excluded observation, an all-passive cluster, an uncorrelated cluster, `m_0_apr_ = 2`, defect 1, `min_x_ = [1]`.

    * `C09_stdev_of_net_witness`: for envelope, cholesky and gso, both `sigma-act` modes, every unknown and every
      observation: the static hypotheses, `C·P = 1` with `P = m0²Σ⁻¹`, `Net.SolverHyp` (from the one `RankGap`, proved),
      the model answers, `0 < m_0_apr_`, `0 ≤ [pvv]` (`= 1/2`), `stdDev() > 0` — DERIVED for this network, and the theorem's
      conclusion;
    * `C09_net_sigma_apr_scaling_witness`: first run = ENVELOPE on `npR`, second run = CHOLESKY on `scaleM0 2 npR`
      (`m_0_apr_ = 4`, nothing else changed) — two different algorithms; `Net.SolverHyp` for the SCALED network too
      (its own `RankGap`: the pivots are `0` and `36`), both models answer over ℝ.
-/
import Gama.Props.C09NetScaling
import Gama.Props.C01.NetWitness
namespace Gama.Props.C09
open Gama Gama.Stats Gama.Ls Gama.Ls.Net Gama.LS Gama.Ls.Ex Matrix Real

set_option linter.unusedVariables false

/-- **`C09_stdev_of_net` applied to `npR`** -/
theorem C09_stdev_of_net_witness (alg : Alg) (halg : alg ≠ .svd) (act : SigmaAct)
    (i : Fin (toProblem npR).n) (k : Fin (toProblem npR).m) :
    ∃ (a : NetAnswer ℝ) (m0 qii bkk : ℝ), netSolve alg npR = .ok a ∧
      a.m0 npR act = .ok m0 ∧ 0 ≤ m0 ∧
      a.qxx (i.val + 1) (i.val + 1) = .ok qii ∧ 0 ≤ qii ∧
      StatsGen.unknownStdev m0 qii ^ 2 = m0 ^ 2 * qii ∧
      a.qbb (k.val + 1) (k.val + 1) = .ok bkk ∧ 0 ≤ bkk ∧ bkk ≤ 1 ∧ 0 < Net.weightObs npR (k.val + 1) ∧
      (∃ sL, a.stdevObs npR act (k.val + 1) = .ok sL ∧ 0 ≤ sL ∧
        sL ^ 2 = m0 ^ 2 * (bkk / Net.weightObs npR (k.val + 1))) ∧
      (∃ qv, a.wcoefRes npR (k.val + 1) = .ok qv ∧ 0 ≤ qv ∧
        qv = 1 / Net.weightObs npR (k.val + 1) - bkk / Net.weightObs npR (k.val + 1) ∧
        StatsGen.stdevRes m0 qv ^ 2 = m0 ^ 2 * qv) := by
  have T := C09_stdev_of_net alg npR
  revert T i k
  rw [scalarReal_eq_fieldScalar]
  intro i k T
  obtain ⟨a, ha, -, -, -, hp, -⟩ := Props.C01.C01_net_of_gap_witness alg halg
  have hm0 : npR.m0 ≠ 0 := by show (2 : ℝ) ≠ 0; norm_num
  have hP := weight_of_sigma npR (npW_dims 2 [1]) hm0 PcN npR_sigma_inv
  obtain ⟨m0, qii, bkk, h⟩ := T (npW_dims 2 [1]) (npW_rows 2 [1]) _ hP
    (Props.C01.C01_net_solverhyp_witness alg halg) a ha act (by show (0 : ℝ) < 2; norm_num)
    (by rw [hp]; norm_num) i k
    (netSolve_obsStdDev_pos alg npR (npW_dims 2 [1]) (npW_rows 2 [1]) hm0 _ hP a ha k)
  exact ⟨a, m0, qii, bkk, ha, h⟩

/-- **`C09_net_sigma_apr_scaling` applied**: envelope on `npR` (`m_0_apr_ = 2`) versus cholesky on `scaleM0 2 npR`
    (`m_0_apr_ = 4`) -/
theorem C09_net_sigma_apr_scaling_witness (act : SigmaAct) :
    ∃ (a a' : NetAnswer ℝ) (m0 : ℝ), netSolve .env npR = .ok a ∧ netSolve .chol (scaleM0 2 npR) = .ok a' ∧
      toVec (toProblem npR).n a'.x = toVec (toProblem npR).n a.x ∧
      toVec (toProblem npR).m a'.r = toVec (toProblem npR).m a.r ∧
      a'.pvv = 2 ^ 2 * a.pvv ∧ a'.defect = a.defect ∧ a'.dof (scaleM0 2 npR) = a.dof npR ∧
      a.m0 npR act = .ok m0 ∧ a'.m0 (scaleM0 2 npR) act = .ok (2 * m0) ∧
      (∀ k : Fin (toProblem npR).m,
        Net.weightObs (scaleM0 2 npR) (k.val + 1) = 2 ^ 2 * Net.weightObs npR (k.val + 1) ∧
        a'.stdevObs (scaleM0 2 npR) act (k.val + 1) = a.stdevObs npR act (k.val + 1)) := by
  have T := C09_net_sigma_apr_scaling .env .chol npR 2 (by norm_num)
  revert T
  rw [scalarReal_eq_fieldScalar]
  intro T
  obtain ⟨a, ha, -⟩ := Props.C01.C01_net_answers_witness .env (by decide)
  obtain ⟨a', ha', -⟩ := npR4_chol
  have hm0 : npR.m0 ≠ 0 := by show (2 : ℝ) ≠ 0; norm_num
  have hP := weight_of_sigma npR (npW_dims 2 [1]) hm0 PcN npR_sigma_inv
  have hyp' : Net.SolverHyp .chol (scaleM0 2 npR) :=
    Props.C01.C01_net_solverhyp_of_gap (npW (2 * 2) [1]) (npW_dims (2 * 2) [1]) (npW_rows (2 * 2) [1])
      (by show (2 * 2 : ℝ) ≠ 0; norm_num) (PcW (2 * 2) [1]) (npW_sigma_inv (2 * 2) [1])
      (npW_regListOK (2 * 2) [1] (Or.inl rfl)) gapThresholds_half
      (npW_rankGap (2 * 2) [1] (Or.inl rfl) (by norm_num)) .chol (by decide)
  obtain ⟨h1, h2, h3, h4, h5, Q, B, m0, -, -, h8, h9, -, -, -, -, -, h15, -⟩ :=
    T (by show (0 : ℝ) < 2; norm_num) (npW_dims 2 [1]) (npW_rows 2 [1]) _ hP
      (Props.C01.C01_net_solverhyp_witness .env (by decide)) hyp' npR_rankGap.2.resolves a a' ha ha' act
  exact ⟨a, a', m0, ha, ha', h1, h2, h3, h4, h5, h8, h9, fun k => ⟨(h15 k).1, (h15 k).2.1⟩⟩

end Gama.Props.C09
