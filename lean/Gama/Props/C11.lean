/-
  C11 — Any input is either adjusted or refused with a located diagnostic, safely.
  Property theorems only; helper lemmas live in Gama/Lemmas/Gkf*.lean, Gama/Lemmas/Literals.lean.
  The automaton (`State`, `Tag`, `start`, `stop`, `handlerOps`, `attrNames`, …) is REGENERATED from
  gkfparser.cpp/.h on every run; theorems about it are re-checked against what the code says now.
-/
import Gama.Lemmas.Gkf
import Gama.Lemmas.GkfDiag
import Gama.Lemmas.Literals
import Gama.Lemmas.GkfCov
import Gama.Lemmas.GkfGrammar
namespace Gama.Props.C11
open Gama Gama.Gkf Gama.Lit Gama.Cov

/-- the error state is absorbing: whatever events follow, `state` stays `state_error` -/
theorem C11_error_absorbing (evs : List Event) (st : St) (h : st.state = .error_) :
    (run st evs).state = .error_ := run_error_absorbing evs st h

/-- first error wins: a recorded error (line, message) is never overwritten -/
theorem C11_first_error_wins (evs : List Event) (st : St) (e : Nat × ErrKind) (h : st.err = some e) :
    (run st evs).err = some e := run_err_preserved evs st e h

/-- the recorded error is that of the first offending event: it carries that event's position,
    no error was recorded before it, and it is there right after it -/
theorem C11_error_located (evs : List Event) (i : Nat) (k : ErrKind)
    (h : (run St.init evs).err = some (i, k)) :
    i < evs.length ∧ (run St.init (evs.take i)).err = none ∧
      (run St.init (evs.take (i + 1))).err = some (i, k) := by
  have := run_err_located evs St.init i k rfl h
  simpa [St.init] using this.2

/-- startElement decides every (state, tag) pair: no pair falls out of the switch unhandled -/
theorem C11_total : ∀ (s : State) (t : Tag), start s t ≠ .ignore :=
  start_never_ignore

/-- chunked delivery does not change acceptance: the parser throws after some chunk
    iff the whole event sequence ends in the error state -/
theorem C11_chunking_accept (cs : List (List Event)) (st : St) :
    (runChunks st cs).state = .error_ ↔ (run st cs.flatten).state = .error_ := runChunks_error_iff cs st

/-- … nor the reported error, when one was recorded -/
theorem C11_chunking_error (cs : List (List Event)) (st : St) (h : (runChunks st cs).err.isSome) :
    (run st cs.flatten).err = (runChunks st cs).err := runChunks_err cs st h

/-- a recorded error is never lost: once `error()` has been called the run ends in `state_error`,
    i.e. `xml_parse` throws (no handler takes the automaton out of the error state).
    Needs: in every `process_*` no `state = …` follows a failed check (`handlers_guarded`, by `decide`
    over the generated handler skeletons). -/
theorem C11_error_never_lost (evs : List Event) (h : (run St.init evs).err.isSome) :
    (run St.init evs).state = .error_ :=
  run_errImplies evs St.init (fun h0 => by cases h0) h

/-- refused ⇒ located: for every event sequence expat can deliver (no end tag without an open element),
    a run that ends in `state_error` has a recorded error, which (`C11_error_located`) carries the position
    of the first offending event.  Needs: every end-tag case reachable with an open element calls `error()`
    or moves to a non-error state (`stop_depth`, by `decide` over the generated table). -/
theorem C11_diag_has_line (evs : List Event) (d : Nat) (hw : depthAfter evs 0 = some d)
    (h : (run St.init evs).state = .error_) : (run St.init evs).err.isSome :=
  (run_located evs St.init 0 d init_located hw).err_of_error h

/-- accepted ⇒ no error was recorded at all, and the automaton's state agrees with the nesting depth -/
theorem C11_accepted_clean (evs : List Event) (d : Nat) (hw : depthAfter evs 0 = some d)
    (h : (run St.init evs).state ≠ .error_) :
    (run St.init evs).err = none ∧ depthOf (run St.init evs).state = d :=
  (run_located evs St.init 0 d init_located hw).ok h

/-- every document of the documented element/attribute grammar (gama-local.xsd: Model/GkfGrammar.lean, any number
    and order of children, documented attribute names, values passing their checks) is accepted: the run ends in
    `state_stop` with no error recorded.  Proof by induction over the lists of children at each level; the table
    facts (`cluster_table`, `spine_table`) are `decide`d on the generated automaton and attribute sets — e.g. they
    fail if a documented attribute name is not accepted by the corresponding `process_*`. -/
theorem C11_accepts_grammar (d : Doc) (hv : d.valid = true) :
    (run St.init d.events).state = .stop_ ∧ (run St.init d.events).err = none := run_doc_clean d hv

/-! ### numeric literals

  Full statement wanted:  `isFloat s = true ↔ FloatLang s`  where
  `FloatLang = ws* [+-]? (d+ ('.' d*)? | '.' d+) ([eE][+-]?d+)? ws*`  (Lemmas/Literals.lean).
  Proved: the soundness direction (accepted ⇒ in the documented format, hence `atof` reads the whole
  trimmed string).  Missing: completeness (format ⇒ accepted); it is covered by the exhaustive
  correspondence on all strings of length ≤ 5/6 over {0,1,9,+,-,.,e,E,' ',x} and the examples below. -/

theorem C11_isFloat_spec_partial (s : List Char) (h : isFloat s = true) : FloatLang s := isFloat_sound s h

/-- accepted by IsInteger ⇒ `ws* [+-]? d* ws*`, not blank.  NB the language contains a lone sign
    (`"+"`, `"-"`): the pinned C++ accepts it and `atoi` yields 0 (finding, patch proposed by C18); the model reads
    from the source whether the guard after the sign is present (`intLoneSignRejected`). -/
theorem C11_isInteger_spec_partial (s : List Char) (h : isInteger s = true) : IntLang s := isInteger_sound s h

/-- accepted by CoreParser::toIndex ⇒ `ws* d+ ws*` and the value is the digit string read in base 10 -/
theorem C11_toIndex_spec_partial (s : List Char) (v : Nat) (h : toIndex s = some v) : IndexLang s v :=
  toIndex_sound s v h

/-! ### cov-mat element accounting

  Full statement wanted: an accepted `<cov-mat>` supplies exactly `dim*(band+1) - band*(band+1)/2` numbers and the
  fill loop writes every entry (r, c), 1 ≤ r ≤ c ≤ min(dim, r+band) exactly once.
  Proved: exactly `covElements dim band` words, all floats, one write per word, each write within the band of its
  row (`r ≤ c ≤ r + band`).  Missing: `c ≤ dim` / the writes are exactly the band positions, i.e. the closed formula
  equals the number of band entries (checked below by `decide` for all dim ≤ 5 as an example, and by the
  correspondence on generated dim/band/text triples). -/
theorem C11_cov_count_partial (dim band : Nat) (text : List Char) (ps : List (Nat × Nat))
    (h : finishCov dim band text = .ok ps) :
    (words text).length = covElements dim band ∧ ps.length = covElements dim band ∧
    (∀ w ∈ words text, isFloat w = true) ∧ ∀ q ∈ ps, q.1 ≤ q.2 ∧ q.2 ≤ q.1 + band :=
  fill_ok dim band (words text) _ (1, 1) ps ⟨Nat.le_refl _, by simp⟩ h

/-- every `finish_*` that installs a `<cov-mat>` compares its `dim` with the number of observations of the
    cluster (generated from the presence of the `idim != …observation_list.size()` guard): otherwise a later stage
    (`Cluster::activeCov`) reads covariance entries that were not supplied (F9). -/
theorem C11_cov_dim_checked : ∀ f ∈ Finish.all, (finishSpec f).checksDim = true := by decide

/-! ### non-vacuity -/

/-- a document with a `<cov-mat>` is accepted, in state_stop, no error -/
example :
    let a (n : String) : Attr := ⟨n, true⟩
    let evs : List Event :=
      [.start .gama_xml [a "xmlns"] true, .start .network [] true, .text ['\n'],
       .start .description [] true, .text "net".toList, .stop true,
       .start .points_observations [a "distance-stdev"] true,
       .start .point_ [a "id", a "x", a "y", a "fix"] true, .stop true,
       .start .obs [a "from"] true,
       .start .distance [a "to", a "val"] true, .stop true,
       .start .direction [a "to", a "val", a "stdev"] true, .stop true,
       .start .cov_mat [a "dim", a "band"] true, .text " 1 0 1 ".toList, .stop true, .stop true,
       .start .coordinates [] true, .start .point_ [a "id", a "z"] true, .stop true,
       .start .cov_mat [a "dim", a "band"] true, .text "1".toList, .stop true, .stop true,
       .stop true, .stop true, .stop true]
    (run St.init evs).state = .stop_ ∧ (run St.init evs).err = none ∧ depthAfter evs 0 = some 0 := by decide

/-- a grammar document with every kind of cluster is valid (hypothesis of `C11_accepts_grammar` is satisfiable) -/
example :
    let a (n : String) : Attr := ⟨n, true⟩
    let cov : CovEl := ⟨[a "dim", a "band"], [" 1 ".toList, "0 1".toList]⟩
    let d : Doc := ⟨[a "xmlns"], [a "axes-xy"], [
      .description ["a net".toList], .parameters [a "sigma-apr", a "language", a "encoding"],
      .pointsObs [a "distance-stdev"] [
        .point ⟨.point_, [a "id", a "x", a "y", a "fix"]⟩,
        .cluster ⟨.obs, [a "from"], [⟨.direction, [a "to", a "val"]⟩, ⟨.angle, [a "bs", a "fs", a "val"]⟩], some cov⟩,
        .cluster ⟨.obs, [], [], none⟩,
        .cluster ⟨.hdiffs, [], [⟨.dh, [a "from", a "to", a "val", a "dist"]⟩], none⟩,
        .cluster ⟨.coords, [a "extern"], [⟨.point_, [a "id", a "z"]⟩], some cov⟩,
        .cluster ⟨.vectors, [], [⟨.vec, [a "from", a "to", a "dx", a "dy", a "dz"]⟩], some cov⟩]]⟩
    d.valid = true ∧ (run St.init d.events).state = .stop_ ∧ 40 ≤ d.events.length := by decide

/-- an offending tag deep in the document: refused, located at that event (index 4), never overwritten -/
example :
    let evs : List Event :=
      [.start .gama_xml [] true, .start .network [] true, .start .points_observations [] true,
       .start .obs [] true, .start .dh [] true, .stop true, .start .unknown [] true, .text "x".toList]
    (run St.init evs).state = .error_ ∧ (run St.init evs).err = some (4, .e01a_illegal_tag) := by decide

/-- unknown attribute name and failed value check are recorded as handler errors -/
example : (run St.init [.start .gama_xml [⟨"bogus", true⟩] true]).err = some (0, .handler) := by decide
example : (run St.init [.start .gama_xml [] true, .start .network [] false, .stop true]).err = some (1, .handler) := by decide

/-- a `<point>` inside `<coordinates>` whose value check fails: refused (the error is not lost) -/
example :
    let evs : List Event :=
      [.start .gama_xml [] true, .start .network [] true, .start .points_observations [] true,
       .start .coordinates [] true, .start .point_ [⟨"id", true⟩, ⟨"x", true⟩, ⟨"y", true⟩] false, .stop true]
    (run St.init evs).state = .error_ ∧ (run St.init evs).err = some (4, .handler) := by decide

/-- `<coordinates/>` without a covariance matrix reaches finish_coords (which reports with a line) -/
example : stop .coords = .goto .point_obs (some .coords_) := by decide

example : isFloat " +12.5e-3 ".toList = true ∧ isFloat ".5".toList = true ∧ isFloat "5.".toList = true ∧
    isFloat "1e".toList = false ∧ isFloat ".".toList = false ∧ isFloat "1 1".toList = false ∧
    isFloat "+".toList = false ∧ isFloat "".toList = false := by decide
example : isInteger " -12 ".toList = true ∧ isInteger "1.0".toList = false ∧ isInteger " ".toList = false := by decide
example : toIndex " 012 ".toList = some 12 ∧ toIndex "+1".toList = none ∧ toIndex "1 2".toList = none := by decide
example : deg2gonAccepts "10-20-30.5".toList = true ∧ deg2gonAccepts "-+5-10-20".toList = true ∧
    deg2gonAccepts "1-2".toList = false ∧ deg2gonAccepts "1-2-.5".toList = false := by decide

/-- band positions for small matrices: the accepted fill writes exactly the upper band, row by row -/
example : (finishCov 3 1 " 1 2 3 4 5 ".toList).toOption = some [(1,1), (1,2), (2,2), (2,3), (3,3)] := by decide
example : verdict "3".toList "1".toList "1 2 3 4".toList = .not_enough ∧
    verdict "3".toList "1".toList "1 2 3 4 5 6".toList = .too_many ∧
    verdict "2".toList "0".toList "1 x".toList = .bad_element ∧ verdict "2".toList "2".toList "1".toList = .bad_band ∧
    verdict " 2 ".toList "1".toList "4 1 4".toList = .ok := by decide
example : ∀ dim ∈ [1, 2, 3, 4, 5], ∀ band ∈ List.range dim,
    covElements dim band = ((List.range dim).map (fun r => min dim (r + 1 + band) - r)).sum := by decide

end Gama.Props.C11
