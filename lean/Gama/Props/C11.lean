/-
  C11 — Any input is either adjusted or refused with a located diagnostic, safely.
  Property theorems only; helper lemmas live in Gama/Lemmas/Gkf*.lean, Gama/Lemmas/Literals.lean.
  The automaton (`State`, `Tag`, `start`, `stop`, `handlerOps`, `attrNames`, …) is REGENERATED from
  gkfparser.cpp/.h on every run; theorems about it are re-checked against what the code says now.
-/
import Gama.Lemmas.Gkf
import Gama.Lemmas.GkfDiag
import Gama.Lemmas.Literals
import Gama.Lemmas.LiteralsComplete
import Gama.Lemmas.GkfCov
import Gama.Lemmas.GkfCovBounds
import Gama.Lemmas.GkfGrammar
namespace Gama.Props.C11
open Gama Gama.Gkf Gama.Lit Gama.Cov

/-- the error state is absorbing: whatever events follow, `state` stays `state_error` -/
theorem C11_error_absorbing (evs : List Event) (st : St) (h : st.state = .error_) :
    (run st evs).state = .error_ := run_error_absorbing evs st h

/-- first error wins: a recorded error (line, message) is never overwritten -/
theorem C11_first_error_wins (evs : List Event) (st : St) (e : Nat × ErrKind) (h : st.err = some e) :
    (run st evs).err = some e := run_err_preserved evs st e h

/-- the recorded error is that of the first offending event: it carries that event's position,
    no error was recorded before it, and it is there right after it -/
theorem C11_error_located (evs : List Event) (i : Nat) (k : ErrKind)
    (h : (run St.init evs).err = some (i, k)) :
    i < evs.length ∧ (run St.init (evs.take i)).err = none ∧
      (run St.init (evs.take (i + 1))).err = some (i, k) := by
  have := run_err_located evs St.init i k rfl h
  simpa [St.init] using this.2

/-- startElement decides every (state, tag) pair: no pair falls out of the switch unhandled -/
theorem C11_total : ∀ (s : State) (t : Tag), start s t ≠ .ignore :=
  start_never_ignore

/-- chunked delivery does not change acceptance: the parser throws after some chunk
    iff the whole event sequence ends in the error state -/
theorem C11_chunking_accept (cs : List (List Event)) (st : St) :
    (runChunks st cs).state = .error_ ↔ (run st cs.flatten).state = .error_ := runChunks_error_iff cs st

/-- … nor the reported error, when one was recorded -/
theorem C11_chunking_error (cs : List (List Event)) (st : St) (h : (runChunks st cs).err.isSome) :
    (run st cs.flatten).err = (runChunks st cs).err := runChunks_err cs st h

/-- a recorded error is never lost: once `error()` has been called the run ends in `state_error`,
    i.e. `xml_parse` throws (no handler takes the automaton out of the error state).
    Needs: in every `process_*` no `state = …` follows a failed check (`handlers_guarded`, by `decide`
    over the generated handler skeletons). -/
theorem C11_error_never_lost (evs : List Event) (h : (run St.init evs).err.isSome) :
    (run St.init evs).state = .error_ :=
  run_errImplies evs St.init (fun h0 => by cases h0) h

/-- refused ⇒ located: for every event sequence expat can deliver (no end tag without an open element),
    a run that ends in `state_error` has a recorded error, which (`C11_error_located`) carries the position
    of the first offending event.  Needs: every end-tag case reachable with an open element calls `error()`
    or moves to a non-error state (`stop_depth`, by `decide` over the generated table). -/
theorem C11_diag_has_line (evs : List Event) (d : Nat) (hw : depthAfter evs 0 = some d)
    (h : (run St.init evs).state = .error_) : (run St.init evs).err.isSome :=
  (run_located evs St.init 0 d init_located hw).err_of_error h

/-- accepted ⇒ no error was recorded at all, and the automaton's state agrees with the nesting depth -/
theorem C11_accepted_clean (evs : List Event) (d : Nat) (hw : depthAfter evs 0 = some d)
    (h : (run St.init evs).state ≠ .error_) :
    (run St.init evs).err = none ∧ depthOf (run St.init evs).state = d :=
  (run_located evs St.init 0 d init_located hw).ok h

/-- every document of the documented element/attribute grammar (gama-local.xsd: Model/GkfGrammar.lean, any number
    and order of children, documented attribute names, values passing their checks) is accepted: the run ends in
    `state_stop` with no error recorded.  Proof by induction over the lists of children at each level; the table
    facts (`cluster_table`, `spine_table`) are `decide`d on the generated automaton and attribute sets — e.g. they
    fail if a documented attribute name is not accepted by the corresponding `process_*`. -/
theorem C11_accepts_grammar (d : Doc) (hv : d.valid = true) :
    (run St.init d.events).state = .stop_ ∧ (run St.init d.events).err = none := run_doc_clean d hv

/-! ### numeric literals

  The recognisers of intfloat.h / CoreParser accept EXACTLY the documented formats, for all strings
  (soundness: Lemmas/Literals.lean, completeness: Lemmas/LiteralsComplete.lean; induction over the scanner
  functions `skipWs`, `dropBack`, `skipSign`, `skipDigits`, `expPart`, no enumeration).
  `FloatLang = ws* [+-]? (d+ ('.' d*)? | '.' d+) ([eE][+-]?d+)? ws*`, hence `atof` reads the whole trimmed string. -/

/-- `IsFloat` accepts a string iff it is `ws* [+-]? d* '.'? d* ([eE][+-]?d+)? ws*` with at least one mantissa digit -/
theorem C11_isFloat_spec (s : List Char) : isFloat s = true ↔ FloatLang s := isFloat_iff s

/-- the core of `FloatLang` is the textbook shape `[+-]? (d+ ('.' d*)? | '.' d+) ([eE][+-]?d+)?` -/
theorem C11_floatCore_textbook (t : List Char) :
    FloatCore t ↔ ∃ sg m ex, t = sg ++ (m ++ ex) ∧ SignOpt sg ∧ Mantissa m ∧ ExpOpt ex :=
  floatCore_iff_mantissa t

/-- `IsInteger` accepts exactly `ws* [+-]? d+ ws*`.  The language follows the source: the guard
    `if (b == e) return false;` after the optional sign is read by the translator (`intLoneSignRejected`, now `true`:
    a lone `"+"`/`"-"` is refused); the proof unfolds the flag and fails if the guard disappears. -/
theorem C11_isInteger_spec (s : List Char) : isInteger s = true ↔ IntLang s := isInteger_iff s

/-- … and for either value of the generated flag: without the guard the language is `ws* [+-]? d* ws*`, not blank
    (`IntLangOf false`), with it `ws* [+-]? d+ ws*` (`IntLangOf true`) -/
theorem C11_isInteger_spec_flag (s : List Char) : isInteger s = true ↔ IntLangOf intLoneSignRejected s :=
  isInteger_iff_flag s

/-- `CoreParser::toIndex` accepts exactly `ws* d+ ws*` whose value `atof` keeps finite (`toDouble` demands
    `std::isfinite` since 425dbdc: below `dblOverflow = 2^1024 - 2^970`), and the value is the digit string read in base 10 -/
theorem C11_toIndex_spec (s : List Char) (v : Nat) : toIndex s = some v ↔ IndexLang s v ∧ v < dblOverflow := toIndex_iff s v

/-! ### cov-mat element accounting

  An accepted `<cov-mat dim band>` supplies exactly `dim*(band+1) - band*(band+1)/2` numbers and the fill loop writes
  every entry (r, c), 1 ≤ r ≤ c ≤ min(dim, r+band), exactly once, row by row; nothing else is written
  (Lemmas/GkfCov.lean, Lemmas/GkfCovBounds.lean).  `process_cov` guarantees `1 ≤ dim`, `band < dim`
  (`band < dim` alone implies `1 ≤ dim`, so only it is a hypothesis). -/

/-- for any dim/band: exactly `covElements` words, all floats, one write per word, each within the band of its row -/
theorem C11_cov_count (dim band : Nat) (text : List Char) (ps : List (Nat × Nat))
    (h : finishCov dim band text = .ok ps) :
    (words text).length = covElements dim band ∧ ps.length = covElements dim band ∧
    (∀ w ∈ words text, toDoubleOk w = true) ∧ ∀ q ∈ ps, q.1 ≤ q.2 ∧ q.2 ≤ q.1 + band :=
  fill_ok dim band (words text) _ (1, 1) ps ⟨Nat.le_refl _, Nat.le_add_right _ _⟩ h

/-- the writes of an accepted text stay inside the matrix and its band, are pairwise distinct and are EXACTLY the
    upper band positions enumerated row by row -/
theorem C11_cov_fill_in_bounds (dim band : Nat) (text : List Char) (ps : List (Nat × Nat)) (hb : band < dim)
    (h : finishCov dim band text = .ok ps) :
    (words text).length = covElements dim band ∧ ps.length = covElements dim band ∧
    (∀ w ∈ words text, toDoubleOk w = true) ∧
    (∀ q ∈ ps, 1 ≤ q.1 ∧ q.1 ≤ q.2 ∧ q.2 ≤ dim ∧ q.2 ≤ q.1 + band) ∧
    ps.Nodup ∧
    ps = (List.range dim).flatMap (fun r =>
           (List.range (min dim (r + 1 + band) - r)).map (fun k => (r + 1, r + 1 + k))) := by
  obtain ⟨h1, h2, h3⟩ := finishCov_ok dim band text ps hb h
  subst h3
  exact ⟨h1, bandPositions_length dim band hb, h2, fun q hq => (mem_bandPositions dim band q).mp hq,
    bandPositions_nodup dim band hb, rfl⟩

/-- every entry of the upper band is written (and, by `Nodup` above, exactly once), nothing outside it -/
theorem C11_cov_writes_exactly_band (dim band : Nat) (text : List Char) (ps : List (Nat × Nat)) (hb : band < dim)
    (h : finishCov dim band text = .ok ps) (q : Nat × Nat) :
    q ∈ ps ↔ (1 ≤ q.1 ∧ q.1 ≤ q.2 ∧ q.2 ≤ dim ∧ q.2 ≤ q.1 + band) := by
  rw [(finishCov_ok dim band text ps hb h).2.2]; exact mem_bandPositions dim band q

/-- the closed formula of finish_cov counts the band entries row by row; its division by 2 is exact -/
theorem C11_cov_count_formula (dim band : Nat) (hb : band < dim) :
    covElements dim band = ((List.range dim).map (fun r => min dim (r + 1 + band) - r)).sum ∧
    band * (band + 1) % 2 = 0 :=
  ⟨covElements_eq_sum dim band hb, band_mul_succ_even band⟩

/-- linear indices: a written position has its place in the row-by-row enumeration below `covElements`, and its
    `BandMat::operator()` offset `(r-1)*(band+1) + (c-r)` lies inside the `dim*(band+1)` numbers allocated by
    `cov_mat.reset(idim, iband)` -/
theorem C11_cov_linear_index (dim band : Nat) (text : List Char) (ps : List (Nat × Nat)) (hb : band < dim)
    (h : finishCov dim band text = .ok ps) (q : Nat × Nat) (hq : q ∈ ps) :
    ps.idxOf q < covElements dim band ∧ (q.1 - 1) * (band + 1) + (q.2 - q.1) < dim * (band + 1) := by
  obtain ⟨_, h2, _, h4, _, _⟩ := C11_cov_fill_in_bounds dim band text ps hb h
  obtain ⟨b1, b2, b3, b4⟩ := h4 q hq
  exact ⟨h2 ▸ List.idxOf_lt_length_iff.mpr hq, band_storage_index dim band q.1 q.2 b1 b2 b3 b4⟩

/-- acceptance is exactly "`covElements` blank-separated words, all numbers" -/
theorem C11_cov_accept_iff (dim band : Nat) (text : List Char) :
    (∃ ps, finishCov dim band text = .ok ps) ↔
      ((words text).length = covElements dim band ∧ ∀ w ∈ words text, toDoubleOk w = true) :=
  ⟨fun ⟨ps, h⟩ => ⟨((fill_ok_iff dim band _ _ _ ps).mp h).1, ((fill_ok_iff dim band _ _ _ ps).mp h).2.1⟩,
   fun ⟨h1, h2⟩ => finishCov_complete dim band text h1 h2⟩

/-- surplus elements are refused before the write (the `elements == 0` test precedes `cov_mat(row,col) = d`):
    with more words than `covElements` no fill succeeds, and if the first `covElements` words are numbers the
    verdict is "too many elements" -/
theorem C11_cov_surplus_refused (dim band : Nat) (text : List Char)
    (hlen : covElements dim band < (words text).length) :
    (∀ ps, finishCov dim band text ≠ .ok ps) ∧
    ((∀ w ∈ (words text).take (covElements dim band), toDoubleOk w = true) →
      finishCov dim band text = .error .too_many) :=
  ⟨fun ps => fill_surplus_not_ok dim band _ _ _ ps hlen, fun hf => fill_too_many dim band _ _ _ hlen hf⟩

/-- through `process_cov`: a `<cov-mat>` with verdict `ok` has `dim`, `band` read by `toIndex`, `1 ≤ dim`,
    `band < dim`, and its writes are exactly the distinct upper band positions, all inside the matrix -/
theorem C11_cov_verdict_in_bounds (sdim sband text : List Char) (h : verdict sdim sband text = .ok) :
    ∃ d b ps, toIndex sdim = some d ∧ toIndex sband = some b ∧ 1 ≤ d ∧ b < d ∧
      finishCov d b text = .ok ps ∧ ps.length = covElements d b ∧ ps.Nodup ∧
      ∀ q, q ∈ ps ↔ (1 ≤ q.1 ∧ q.1 ≤ q.2 ∧ q.2 ≤ d ∧ q.2 ≤ q.1 + b) := by
  obtain ⟨d, b, ps, hp, hf⟩ := verdict_ok sdim sband text h
  obtain ⟨h1, h2, h3, h4⟩ := processCov_ok sdim sband d b hp
  obtain ⟨_, g2, _, _, g5, _⟩ := C11_cov_fill_in_bounds d b text ps h2 hf
  exact ⟨d, b, ps, h3, h4, h1, h2, hf, g2, g5, C11_cov_writes_exactly_band d b text ps h2 hf⟩

/-- every `finish_*` that installs a `<cov-mat>` compares its `dim` with the number of observations of the
    cluster (generated from the presence of the `idim != …observation_list.size()` guard): otherwise a later stage
    (`Cluster::activeCov`) reads covariance entries that were not supplied (F9). -/
theorem C11_cov_dim_checked : ∀ f ∈ Finish.all, (finishSpec f).checksDim = true := by decide

/-! ### non-vacuity -/

/-- a document with a `<cov-mat>` is accepted, in state_stop, no error -/
example :
    let a (n : String) : Attr := ⟨n, true⟩
    let evs : List Event :=
      [.start .gama_xml [a "xmlns"] true, .start .network [] true, .text ['\n'],
       .start .description [] true, .text "net".toList, .stop true,
       .start .points_observations [a "distance-stdev"] true,
       .start .point_ [a "id", a "x", a "y", a "fix"] true, .stop true,
       .start .obs [a "from"] true,
       .start .distance [a "to", a "val"] true, .stop true,
       .start .direction [a "to", a "val", a "stdev"] true, .stop true,
       .start .cov_mat [a "dim", a "band"] true, .text " 1 0 1 ".toList, .stop true, .stop true,
       .start .coordinates [] true, .start .point_ [a "id", a "z"] true, .stop true,
       .start .cov_mat [a "dim", a "band"] true, .text "1".toList, .stop true, .stop true,
       .stop true, .stop true, .stop true]
    (run St.init evs).state = .stop_ ∧ (run St.init evs).err = none ∧ depthAfter evs 0 = some 0 := by decide

/-- a grammar document with every kind of cluster is valid (hypothesis of `C11_accepts_grammar` is satisfiable) -/
example :
    let a (n : String) : Attr := ⟨n, true⟩
    let cov : CovEl := ⟨[a "dim", a "band"], [" 1 ".toList, "0 1".toList]⟩
    let d : Doc := ⟨[a "xmlns"], [a "axes-xy"], [
      .description ["a net".toList], .parameters [a "sigma-apr", a "language", a "encoding"],
      .pointsObs [a "distance-stdev"] [
        .point ⟨.point_, [a "id", a "x", a "y", a "fix"]⟩,
        .cluster ⟨.obs, [a "from"], [⟨.direction, [a "to", a "val"]⟩, ⟨.angle, [a "bs", a "fs", a "val"]⟩], some cov⟩,
        .cluster ⟨.obs, [], [], none⟩,
        .cluster ⟨.hdiffs, [], [⟨.dh, [a "from", a "to", a "val", a "dist"]⟩], none⟩,
        .cluster ⟨.coords, [a "extern"], [⟨.point_, [a "id", a "z"]⟩], some cov⟩,
        .cluster ⟨.vectors, [], [⟨.vec, [a "from", a "to", a "dx", a "dy", a "dz"]⟩], some cov⟩]]⟩
    d.valid = true ∧ (run St.init d.events).state = .stop_ ∧ 40 ≤ d.events.length := by decide

/-- an offending tag deep in the document: refused, located at that event (index 4), never overwritten -/
example :
    let evs : List Event :=
      [.start .gama_xml [] true, .start .network [] true, .start .points_observations [] true,
       .start .obs [] true, .start .dh [] true, .stop true, .start .unknown [] true, .text "x".toList]
    (run St.init evs).state = .error_ ∧ (run St.init evs).err = some (4, .e01a_illegal_tag) := by decide

/-- unknown attribute name and failed value check are recorded as handler errors -/
example : (run St.init [.start .gama_xml [⟨"bogus", true⟩] true]).err = some (0, .handler) := by decide
example : (run St.init [.start .gama_xml [] true, .start .network [] false, .stop true]).err = some (1, .handler) := by decide

/-- a `<point>` inside `<coordinates>` whose value check fails: refused (the error is not lost) -/
example :
    let evs : List Event :=
      [.start .gama_xml [] true, .start .network [] true, .start .points_observations [] true,
       .start .coordinates [] true, .start .point_ [⟨"id", true⟩, ⟨"x", true⟩, ⟨"y", true⟩] false, .stop true]
    (run St.init evs).state = .error_ ∧ (run St.init evs).err = some (4, .handler) := by decide

/-- `<coordinates/>` without a covariance matrix reaches finish_coords (which reports with a line) -/
example : stop .coords = .goto .point_obs (some .coords_) := by decide

example : isFloat " +12.5e-3 ".toList = true ∧ isFloat ".5".toList = true ∧ isFloat "5.".toList = true ∧
    isFloat "1e".toList = false ∧ isFloat ".".toList = false ∧ isFloat "1 1".toList = false ∧
    isFloat "+".toList = false ∧ isFloat "".toList = false := by decide
/-- `FloatLang` is inhabited by an explicit decomposition (hypothesis of the completeness direction) … -/
example : FloatLang " +12.5e-3 ".toList :=
  ⟨[' '], "+12.5e-3".toList, [' '], by decide, by unfold AllSpace; decide, by unfold AllSpace; decide,
   ['+'], ['1', '2'], ['.'], ['5'], "e-3".toList, by decide, Or.inr (Or.inl rfl), by unfold AllDigit; decide,
   Or.inr rfl, by unfold AllDigit; decide, Or.inl (by decide),
   Or.inr ⟨'e', ['-'], ['3'], by decide, Or.inr (Or.inr rfl), by unfold AllDigit; decide, by decide, by decide⟩⟩
/-- … and the specification refuses what the scanner refuses: `"1e"`, `"."`, `"1 1"` are not in `FloatLang` -/
example : ¬ FloatLang "1e".toList ∧ ¬ FloatLang ".".toList ∧ ¬ FloatLang "1 1".toList :=
  ⟨fun h => absurd ((C11_isFloat_spec _).mpr h) (by decide), fun h => absurd ((C11_isFloat_spec _).mpr h) (by decide),
   fun h => absurd ((C11_isFloat_spec _).mpr h) (by decide)⟩
example : Mantissa "12.5".toList ∧ Mantissa ".5".toList ∧ Mantissa "5.".toList :=
  ⟨Or.inl ⟨['1', '2'], ['5'], by unfold AllDigit; decide, by decide, by unfold AllDigit; decide, Or.inr (by decide)⟩,
   Or.inr ⟨['5'], by unfold AllDigit; decide, by decide, by decide⟩,
   Or.inl ⟨['5'], [], by unfold AllDigit; decide, by decide, by unfold AllDigit; decide, Or.inr (by decide)⟩⟩
example : isInteger " -12 ".toList = true ∧ isInteger "1.0".toList = false ∧ isInteger " ".toList = false ∧
    isInteger "+".toList = false ∧ isInteger " - ".toList = false := by decide
example : IntLang " -12 ".toList :=
  ⟨[' '], ['-'], ['1', '2'], [' '], by decide, by unfold AllSpace; decide, by unfold AllSpace; decide,
   Or.inr (Or.inr rfl), by unfold AllDigit; decide, by decide⟩
/-- a lone sign is outside the integer language of the current source -/
example : ¬ IntLang "+".toList ∧ ¬ IntLang " - ".toList :=
  ⟨fun h => absurd ((C11_isInteger_spec _).mpr h) (by decide), fun h => absurd ((C11_isInteger_spec _).mpr h) (by decide)⟩
example : toIndex " 012 ".toList = some 12 ∧ toIndex "+1".toList = none ∧ toIndex "1 2".toList = none := by decide
example : IndexLang " 012 ".toList 12 :=
  ⟨[' '], ['0', '1', '2'], [' '], by decide, by unfold AllSpace; decide, by unfold AllSpace; decide,
   by unfold AllDigit; decide, by decide, by decide⟩
example : ¬ IndexLang "+1".toList 1 ∧ ¬ IndexLang " 012 ".toList 13 :=
  ⟨fun h => absurd ((C11_toIndex_spec _ _).mpr ⟨h, by decide⟩) (by decide),
   fun h => absurd ((C11_toIndex_spec _ _).mpr ⟨h, by decide⟩) (by decide)⟩
example : deg2gonAccepts "10-20-30.5".toList = true ∧ deg2gonAccepts "-+5-10-20".toList = true ∧
    deg2gonAccepts "1-2".toList = false ∧ deg2gonAccepts "1-2-.5".toList = false := by decide

/-- band positions for small matrices: the accepted fill writes exactly the upper band, row by row -/
example : (finishCov 3 1 " 1 2 3 4 5 ".toList).toOption = some [(1,1), (1,2), (2,2), (2,3), (3,3)] := by decide
example : verdict "3".toList "1".toList "1 2 3 4".toList = .not_enough ∧
    verdict "3".toList "1".toList "1 2 3 4 5 6".toList = .too_many ∧
    verdict "2".toList "0".toList "1 x".toList = .bad_element ∧ verdict "2".toList "2".toList "1".toList = .bad_band ∧
    verdict " 2 ".toList "1".toList "4 1 4".toList = .ok := by decide
example : ∀ dim ∈ [1, 2, 3, 4, 5], ∀ band ∈ List.range dim,
    covElements dim band = ((List.range dim).map (fun r => min dim (r + 1 + band) - r)).sum := by decide
/-- hypotheses of `C11_cov_fill_in_bounds` / `_writes_exactly_band` / `_linear_index` are satisfiable (band < dim, accepted text) -/
example : (1 : Nat) < 3 ∧ (finishCov 3 1 " 1 2 3 4 5 ".toList).toOption = some [(1,1), (1,2), (2,2), (2,3), (3,3)] ∧
    (finishCov 4 3 "1 2 3 4 5 6 7 8 9 10".toList).toOption =
      some [(1,1), (1,2), (1,3), (1,4), (2,2), (2,3), (2,4), (3,3), (3,4), (4,4)] ∧
    (finishCov 1 0 "7".toList).toOption = some [(1,1)] := by decide
/-- without `band < dim` (never passed on by process_cov) the closed formula is NOT the band count: the hypothesis matters -/
example : covElements 2 3 = 2 ∧ ((List.range 2).map (fun r => min 2 (r + 1 + 3) - r)).sum = 3 := by decide
/-- hypothesis of `C11_cov_surplus_refused`: six words for five entries; the sixth is not even looked at -/
example : covElements 3 1 < (words "1 2 3 4 5 x".toList).length ∧
    (∀ w ∈ (words "1 2 3 4 5 x".toList).take (covElements 3 1), toDoubleOk w = true) ∧
    verdict "3".toList "1".toList "1 2 3 4 5 x".toList = .too_many ∧
    verdict "3".toList "1".toList "1 2 x 4 5 6".toList = .bad_element := by decide
/-- hypothesis of `C11_cov_verdict_in_bounds` -/
example : verdict " 3 ".toList "1".toList " 1 2 3 4 5 ".toList = .ok := by decide

/-- `CoreParser::toDouble` = `IsFloat` and `std::isfinite(atof)`: literals that overflow to infinity are refused, in
    attributes and as `<cov-mat>` elements (the border is DBL_MAX + ulp/2, exactly) -/
example : toDoubleOk "1e999".toList = false ∧ toDoubleOk "-1E+400".toList = false ∧ toDoubleOk "1.7976931348623158e308".toList = true ∧
    toDoubleOk "1.7976931348623159e308".toList = false ∧ toDoubleOk "0e999".toList = true ∧ toDoubleOk "1e-999".toList = true ∧
    toDoubleOk "1e".toList = false := by decide +kernel
example : verdict "1".toList "0".toList "1e999".toList = .bad_element ∧ verdict "1".toList "0".toList "1e30".toList = .ok ∧
    toIndex (List.replicate 400 '9') = none := by decide +kernel
example : dblOverflow = 2 ^ 1024 - 2 ^ 970 := dblOverflow_eq

end Gama.Props.C11
