/-
  C02 — instantiation of `C02_same_solution` / `C02_refusal_agree` (Props/C02.lean) for the solver
  models whose C01 / refusal theorems exist: Gram–Schmidt (`gsoSolve`, full), Cholesky (`cholSolve`,
  full incl. singular case), envelope (`envCore`, full incl. singular case; ordering and
  homogenisation as parameters, here unit weights) and SVD (`svdSolveCert` with the factors as a
  parameter and `SvdCert` as hypothesis; `Props/C02SvdDecompose.lean` restates the svd pairs for the
  factors `Svd.decompose` returns — `SvdCert` proved up to `Unambiguous tol W` — and adds the
  refusal equivalence `C02_refusal_svd`).
  Each theorem pairs the Gram–Schmidt model with one of the other three; equality is transitive, so
  all four agree.  Hypotheses are exactly those of the per-solver theorems ("rank numerically
  unambiguous" in each algorithm's own sense) plus `Resolves p.A p.S`.

  Scalars: an ordered field with a square root (`Gso.SqrtField`); all models run at
  `fieldScalar SqrtField.sqrt`, i.e. on the same instance.
-/
import Gama.Props.C01.Gso
import Gama.Props.C01.Chol
import Gama.Props.C01.Env
import Gama.Props.C01.Svd
namespace Gama.Props.C02
open Gama Gama.Ls Gama.LS Gama.Ls.Gso Gama.Ls.Chol Gama.Ls.Env Matrix

set_option linter.unusedSectionVars false

variable {K : Type} [Field K] [LinearOrder K] [IsStrictOrderedRing K] [SqrtField K]
local instance sqrtFnOfSqrtField : SqrtFn K := ⟨SqrtField.sqrt⟩

/-- **gso = cholesky** on every well-posed unambiguous problem: same unknowns, residuals, sum of squares -/
theorem C02_same_gso_chol (p : Problem K) (hUg : Gso.Unambiguous p) (hUc : UnambiguousF (cholFact p)) (hsq : GsSqrtExact p)
    (hnd : ∀ S, Chol.regList p.n p.reg = some S → S.Nodup) (hS : Resolves p.A p.S)
    (a a' : Answer K) (h : gsoSolve p = .ok a) (h' : cholSolve p = .ok a') :
    toVec p.n a.x = toVec p.n a'.x ∧ toVec p.m a.r = toVec p.m a'.r ∧ a.rtr = a'.rtr :=
  (Gama.Props.C01.C01_gso p hUg a h).unique (Gama.Props.C01.C01_cholesky_singular p hUc hsq hnd a' h') one_pd hS

/-- **gso = envelope** (unit weights; any ordering `o`, the code's is reverse Cuthill–McKee) -/
theorem C02_same_gso_env (p : Problem K) (hUg : Gso.Unambiguous p) (tol stol : K) (o : EnvOrd) (hO : OrdOK p.n o)
    (hU : FactUnambiguous (SqrtField.sqrt : K → K) tol p.m p.n p.dense p.rhs o) (htol : 0 < tol) (hstol : 0 < stol)
    (hreg : Env.RegOK p.n o p.reg (p.reg.toFinset p.n)) (hS : Resolves p.A p.S)
    (a : Answer K) (h : gsoSolve p = .ok a) {x : Array K}
    (hx : (@envCore K (Gama.LS.fieldScalar SqrtField.sqrt) tol stol p.m p.n p.dense p.rhs p.dense p.rhs p.reg o).x = .ok x) :
    toVec p.n a.x = toVec p.n x
      ∧ toVec p.m a.r = toVec p.m (@envCore K (Gama.LS.fieldScalar SqrtField.sqrt) tol stol p.m p.n p.dense p.rhs p.dense p.rhs p.reg o).r
      ∧ a.rtr = (@envCore K (Gama.LS.fieldScalar SqrtField.sqrt) tol stol p.m p.n p.dense p.rhs p.dense p.rhs p.reg o).rtr := by
  have h1 := Gama.Props.C01.C01_gso p hUg a h
  have hsq : IsSqrt (SqrtField.sqrt : K → K) :=
    ⟨fun x hx => (SqrtField.sqrt_spec x hx).1, fun x hx => (SqrtField.sqrt_spec x hx).2⟩
  have h2 := Gama.Props.C01.C01_envelope_singular (SqrtField.sqrt : K → K) hsq tol stol p.m p.n p.dense p.rhs
    p.dense p.rhs p.reg o hO hU htol hstol (P := 1) (W := 1) (by simp) (by intro d hd; simpa using hd) (by simp) (by simp) hreg hx
  exact h1.unique h2 one_pd hS

/-- **gso = svd**, the SVD factorisation being certified (`SvdCert`) -/
theorem C02_same_gso_svd (p : Problem K) (hUg : Gso.Unambiguous p) (fixed : Bool) {tol : K} (htol : 0 ≤ tol) (d : Svd.Dec K)
    (hc : Svd.SvdCert (SqrtField.sqrt : K → K) tol p.m p.n p.dense d) (hreg : Svd.RegOK p.reg) (hS : Resolves p.A p.S)
    (a a' : Answer K) (h : gsoSolve p = .ok a)
    (h' : @svdSolveCert K (Gama.LS.fieldScalar SqrtField.sqrt) fixed tol d p = .ok a') :
    toVec p.n a.x = toVec p.n a'.x ∧ toVec p.m a.r = toVec p.m a'.r ∧ a.rtr = a'.rtr := by
  have h1 := Gama.Props.C01.C01_gso p hUg a h
  have hs : Svd.SqrtLaw (SqrtField.sqrt : K → K) :=
    ⟨fun x hx => (SqrtField.sqrt_spec x hx).1, fun x hx => (SqrtField.sqrt_spec x hx).2⟩
  exact h1.unique (Gama.Props.C01.C01_svd_cert hs fixed htol p d hc hreg a' h') one_pd hS

/-- **gso and cholesky refuse the same problems** (instance of `C02_refusal_agree` from
    `C02_refusal_gso`, `C02_refusal_chol`) -/
theorem C02_refusal_gso_chol (p : Problem K) (hUg : Gso.Unambiguous p) (hreg : regInRange p.n p.reg = true)
    (hUc : UnambiguousF (cholFact p)) (hsq : GsSqrtExact p) (hun : GsUnamb p)
    (hrl : Chol.regList p.n p.reg ≠ none) :
    gsoSolve p = .error .BadRegularization ↔ cholSolve p = .error .BadRegularization := by
  obtain ⟨hok, herr⟩ := Gama.Props.C01.C02_refusal_chol p hUc hsq hun
  rw [Gama.Props.C01.C02_refusal_gso p hUg hreg]
  constructor
  · intro hS
    cases hc : cholSolve p with
    | ok a => exact absurd (hok a hc) hS
    | error e =>
      rcases herr e hc with ⟨rfl, _⟩ | ⟨_, hn⟩
      · rfl
      · exact absurd hn hrl
  · intro hc
    rcases herr _ hc with ⟨_, hS⟩ | ⟨he, _⟩
    · exact hS
    · cases he

/-- non-vacuity: the hypotheses of the Gram–Schmidt side hold on the singular 2×2 problem of
    Props/C01/Gso.lean over ℝ, whose subset S = {1} resolves the defect and which is answered -/
example : Gso.Unambiguous Ex.pR ∧ ∃ a, gsoSolve Ex.pR = .ok a :=
  ⟨Ex.pR_unambiguous, Ex.pR_answers.choose, Ex.pR_answers.choose_spec.1⟩

end Gama.Props.C02
