/-
  C10 — `C10_network_solution_uses_full_covariance` on an evaluated `projectEquations` output over ℝ (audit #4, remaining
  gap 2): `projectEquations netWobs = .ok (npO, uO)` (`Lemmas/PeWitnessReal.lean`: correlated cluster with a switched-off
  observation — `Σ` has the off-diagonal entry 8 between rows 1 and 2 —, inexact height differences), every hypothesis
  (`hdim`, `RowsOK`, `m0 ≠ 0`, `Σ·Pc = 1`, `RegListOK`, `InputGap`) discharged, envelope / cholesky / gso answer.
-/
import Gama.Lemmas.PeWitnessReal
import Gama.Props.C10Net
namespace Gama.Props.C10
open Gama Gama.Ls Gama.Ls.Net Gama.LS Gama.C06NZ Gama.C06NZ.Ex Gama.Ls.Ex Matrix

section witness
attribute [local instance] sqrtFnOfSqrtField
attribute [local instance 2000] scalarOfField
attribute [local instance 3000] fieldTrig

/-- **`C10_network_solution_uses_full_covariance` applied** (clauses (ii), (iii) and the symmetry of `Σ`) -/
theorem C10_network_solution_uses_full_covariance_pe_witness (alg : Alg) (halg : alg ≠ .svd) :
    PE.projectEquations netWobs = .ok (npO, uO) ∧
    ∃ a, netSolve alg npO = .ok a ∧ (Sigma npO)ᵀ = Sigma npO ∧
      (toProblem npO).C = (1 / (npO.m0 * npO.m0)) • Sigma npO ∧
      IsLSSolution (toProblem npO).A (toProblem npO).b ((npO.m0 * npO.m0) • PcG [1]) (toProblem npO).S
        (toVec (toProblem npO).n a.x) (toVec (toProblem npO).m a.r) a.pvv ∧
      (PcG [1])ᵀ = PcG [1] ∧
      ∀ x' : Fin (toProblem npO).n → ℝ,
        a.pvv ≤ ((toProblem npO).A *ᵥ x' - (toProblem npO).b) ⬝ᵥ
          ((npO.m0 * npO.m0) • PcG [1]) *ᵥ ((toProblem npO).A *ᵥ x' - (toProblem npO).b) := by
  refine ⟨peO, ?_⟩
  obtain ⟨a, ha⟩ := npG_answers [1] (Or.inl rfl) alg halg
  obtain ⟨⟨-, h2, h3⟩, ⟨h4, h5, -⟩, -, -, h9⟩ :=
    C10_network_solution_uses_full_covariance npO (npG_dims [1]) (npG_rows [1]) (npG_m0 [1]) (PcG [1])
      (npG_sigma_inv [1]) (npG_reg [1] (Or.inl rfl)) alg
      ((InputGap.of_ne_svd halg).2 ⟨Props.C01.C01_gap_thresholds_default, npG_rankGap [1]⟩) a ha
  exact ⟨a, ha, h2, h3, h4, h5, h9⟩

/-- the covariance really is full: rows 1 and 2 (the two ACTIVE observations of the correlated cluster) are correlated -/
example : (Sigma npO : Matrix (Fin 3) (Fin 3) ℝ) = !![16, 8, 0; 8, 40, 0; 0, 0, 16] := npW_Sigma 2 [1]

end witness

end Gama.Props.C10
