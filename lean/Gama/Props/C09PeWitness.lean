/-
  C09 — `C09_xml_statistics_are_model_statistics` on an evaluated `projectEquations` output over ℝ, at the shared `Scalar ℝ`
  (audit #4, remaining gap 2): `projectEquations netWobs = .ok (npO, uO)` (`Lemmas/PeWitnessReal.lean`: correlated cluster
  with a switched-off observation, all-passive cluster, inexact height differences, `m_0_apr_ = 2`).  `hdim`, `RowsOK`,
  `0 < m0`, `C·P = 1` (`P = m0²Σ⁻¹`), `RegListOK`, `InputGap` discharged; envelope / cholesky / gso answer; the theorem
  applied for every configuration `c`, unknown `i`, observation `k` (the general fields and `<flt>`, `<stdev>`, `<qrr>`).
-/
import Gama.Lemmas.PeWitnessReal
import Gama.Props.C09Xml
namespace Gama.Props.C09
open Gama Gama.Stats Gama.Stats.Xml Gama.Ls Gama.Ls.Net Gama.LS Gama.C06NZ Gama.C06NZ.Ex Gama.Ls.Ex Matrix Real

set_option linter.unusedVariables false

/-- **`C09_xml_statistics_are_model_statistics` applied** -/
theorem C09_xml_statistics_are_model_statistics_pe_witness (alg : Alg) (halg : alg ≠ .svd) (c : Xml.Cfg)
    (i : Fin (toProblem npO).n) (k : Fin (toProblem npO).m) :
    PE.projectEquations netWobs = .ok (npO, uO) ∧
    ∃ a : NetAnswer ℝ, netSolve alg npO = .ok a ∧ Xml.tableOK = true ∧
      Xml.value npO a c .dof 0 0 0 = .ok (((npO.m : ℤ) - npO.n + a.defect : ℤ) : ℝ) ∧
      Xml.value npO a c .defect 0 0 0 = .ok (a.defect : ℝ) ∧ Xml.value npO a c .pvv 0 0 0 = .ok a.pvv ∧
      Xml.value npO a c .apriori 0 0 0 = .ok npO.m0 ∧
      ∃ (m0 qii bkk sL qv : ℝ),
        a.m0 npO c.act = .ok m0 ∧ 0 ≤ m0 ∧ a.qxx (i.val + 1) (i.val + 1) = .ok qii ∧ 0 ≤ qii ∧
        a.qbb (k.val + 1) (k.val + 1) = .ok bkk ∧ 0 ≤ bkk ∧ bkk ≤ 1 ∧ 0 < Net.weightObs npO (k.val + 1) ∧
        Xml.value npO a c .cov 0 (i.val + 1) (i.val + 1) = .ok (m0 ^ 2 * qii) ∧
        Xml.value npO a c .stdev (k.val + 1) 0 0 = .ok sL ∧ 0 ≤ sL ∧
          sL ^ 2 = m0 ^ 2 * (bkk / Net.weightObs npO (k.val + 1)) ∧
        Xml.value npO a c .qrr (k.val + 1) 0 0 = .ok qv ∧ 0 ≤ qv := by
  have T := C09_xml_statistics_are_model_statistics alg npO
  revert T i k
  rw [scalarReal_eq_fieldScalar, ← trig_eq]
  intro i k T
  refine ⟨peO, ?_⟩
  obtain ⟨a, ha⟩ := npG_answers [1] (Or.inl rfl) alg halg
  have hP := weight_of_sigma npO (npG_dims [1]) (npG_m0 [1]) (PcG [1]) (npG_sigma_inv [1])
  obtain ⟨t1, t2, t3, t4, t5, -, m0, qii, bkk, sL, qv, r1, r2, r3, r4, r5, r6, r7, r8, r9, r10, r11, r12, r13, r14, -⟩ :=
    T (npG_dims [1]) (npG_rows [1]) (by show (0 : ℝ) < 2; norm_num) _ hP (npG_reg [1] (Or.inl rfl))
      ((InputGap.of_ne_svd halg).2 ⟨Props.C01.C01_gap_thresholds_default, npG_rankGap [1]⟩) a ha c i k
  exact ⟨a, ha, t1, t2, t3, t4, t5, m0, qii, bkk, sL, qv, r1, r2, r3, r4, r5, r6, r7, r8, r9, r10, r11, r12, r13, r14⟩

end Gama.Props.C09
