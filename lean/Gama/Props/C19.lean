/-
  C19 — gama-g3 reproduces consistent global networks, independent of algorithm.
  Property theorems only; helper lemmas live in Gama/Lemmas/{NeuLemmas,G3BookLemmas,AdjXmlLemmas}.lean.

  What is specific to gama-g3 is proved here; the adjustment itself (class `Adj`, four algorithms:
  minimiser, equality of the algorithms, defect) is C01–C04.  Reading guide:
  * `Neu.frame b l`       = `Point::transformation_matrix(b, l)` over ℝ
  * `Neu.dispXYZ p x`     = XYZ displacement of point `p` when the unknowns are `x` (by column
                            index; components that are not adjusted do not move) — `R · (n, e, u)`
  * `Neu.linVector …`     = `Model::linearization(Vector*)` etc. (`rows`, `rhs` in millimetres)
  * `G3Book.updateObservations P obs` = `Model::update_observations` on the record list `obs`
-/
import Gama.Lemmas.NeuLemmas
import Gama.Lemmas.G3BookLemmas
import Gama.Lemmas.AdjXmlLemmas
namespace Gama.Props.C19
open Gama Gama.Neu Gama.G3Book Gama.AdjXml
open Matrix

/-- the rotation `Point::transformation_matrix(b, l)` builds is orthogonal: `Rᵀ R = 1` -/
theorem C19_neu_orthogonal (b l : ℝ) :
    (frame b l).toMatrixᵀ * (frame b l).toMatrix = 1 :=
  toMatrix_transpose_mul_self (frame_orthonormal b l)

/-- its determinant is −1: (north, east, up) is a left-handed triple (north × east = down).
    DESIGN.md expected `det = 1`; −1 is the true value for an n-e-u frame (not a defect). -/
theorem C19_neu_det (b l : ℝ) : (frame b l).toMatrix.det = -1 := frame_det b l

example : (frame 0 0).toMatrix = !![0, 0, 1; 0, 1, 0; 1, 0, 0] := by
  simp [frame_eq, Rot.toMatrix]

/-- the three rows of a vector (XYZ difference) observation are `+R_to` and `−R_from` in the
    n-e-u unknowns: applied to any `x` they give exactly the change of `to − from`
    (the observation is linear in the unknowns, so this *is* its derivative) -/
theorem C19_vector_row (frm tgt : Pt ℝ) (dx dy dz fdh tdh tol : ℝ) (x : ℕ → ℝ) :
    (@linVector ℝ realScalar frm tgt dx dy dz fdh tdh tol).rows.map (fun r => @rowDot ℝ realScalar r x) =
      [ (dispXYZ tgt x).1 - (dispXYZ frm x).1,
        (dispXYZ tgt x).2.1 - (dispXYZ frm x).2.1,
        (dispXYZ tgt x).2.2 - (dispXYZ frm x).2.2 ] :=
  linVector_rows frm tgt dx dy dz fdh tdh tol x

/-- same for observed coordinates (rows `+R`) -/
theorem C19_xyz_row (p : Pt ℝ) (a b c tol : ℝ) (x : ℕ → ℝ) :
    (@linXYZ ℝ realScalar p a b c tol).rows.map (fun r => @rowDot ℝ realScalar r x) =
      [ (dispXYZ p x).1, (dispXYZ p x).2.1, (dispXYZ p x).2.2 ] :=
  linXYZ_rows p a b c tol x

/-- the distance row is the gradient of the spatial distance in the n-e-u unknowns
    (directional derivative along every displacement `ξ`), for distinct end points -/
theorem C19_distance_row (frm tgt : Pt ℝ) (obs fdh tdh tol : ℝ) (ξ : ℕ → ℝ)
    (hne : (tgt.X - frm.X) ^ 2 + (tgt.Y - frm.Y) ^ 2 + (tgt.Z - frm.Z) ^ 2 ≠ 0) :
    (@linDistance ℝ realScalar frm tgt obs fdh tdh tol).rows = [distRow frm tgt] ∧
      HasDerivAt (distAlong frm tgt ξ) (@rowDot ℝ realScalar (distRow frm tgt) ξ) 0 :=
  ⟨linDistance_rows frm tgt obs fdh tdh tol hne, distRow_hasDerivAt frm tgt ξ hne⟩

/-- the vector covariance is used as given (an XYZ covariance, no rotation): the block handed to
    `Adj` is the cluster's packed covariance divided by the a priori variance -/
theorem C19_vector_cov_unrotated (sd : ℝ) (c : List ℝ) :
    @cofactorBlock ℝ realScalar sd c = c.map (fun v => v / (sd * sd)) := by
  unfold cofactorBlock
  apply List.map_congr_left
  intro v _
  show v * (1 / (sd * sd)) = v / (sd * sd)
  ring

/-- consistent vectors: one Gauss–Newton step is exact.  If the observed vector is the
    difference of the points displaced by `ξ` metres in their own frames, then `x = 1000 ξ`
    satisfies every equation of the observation with zero residual. -/
theorem C19_vector_one_step (frm tgt : Pt ℝ) (dx dy dz fdh tdh tol : ℝ) (ξ : ℕ → ℝ)
    (hx : dx = (@Pt.Xdh ℝ realScalar tgt tdh + (dispXYZ tgt ξ).1) - (@Pt.Xdh ℝ realScalar frm fdh + (dispXYZ frm ξ).1))
    (hy : dy = (@Pt.Ydh ℝ realScalar tgt tdh + (dispXYZ tgt ξ).2.1) - (@Pt.Ydh ℝ realScalar frm fdh + (dispXYZ frm ξ).2.1))
    (hz : dz = (@Pt.Zdh ℝ realScalar tgt tdh + (dispXYZ tgt ξ).2.2) - (@Pt.Zdh ℝ realScalar frm fdh + (dispXYZ frm ξ).2.2)) :
    (@linVector ℝ realScalar frm tgt dx dy dz fdh tdh tol).rhs =
      (@linVector ℝ realScalar frm tgt dx dy dz fdh tdh tol).rows.map
        (fun r => @rowDot ℝ realScalar r (fun i => 1000 * ξ i)) :=
  linVector_one_step frm tgt dx dy dz fdh tdh tol ξ hx hy hz

theorem C19_xyz_one_step (p : Pt ℝ) (a b c tol : ℝ) (ξ : ℕ → ℝ)
    (hx : a = p.X + (dispXYZ p ξ).1) (hy : b = p.Y + (dispXYZ p ξ).2.1) (hz : c = p.Z + (dispXYZ p ξ).2.2) :
    (@linXYZ ℝ realScalar p a b c tol).rhs =
      (@linXYZ ℝ realScalar p a b c tol).rows.map (fun r => @rowDot ℝ realScalar r (fun i => 1000 * ξ i)) :=
  linXYZ_one_step p a b c tol ξ hx hy hz

/-- consistent observations at the generating coordinates: every right-hand side is 0
    (vector, xyz, distance, height, height difference), so `x = 0` and the adjusted
    coordinates are the generating ones.
    `_partial`: angles, zenith angles and azimuths are not modelled in Lean; angles are covered by the
    end-to-end oracle only (it found the sign defect of the left-target coefficients, fixed in 97d6802). -/
theorem C19_consistent_fixed_point_partial (frm tgt : Pt ℝ) (fdh tdh tol : ℝ) :
    (@linVector ℝ realScalar frm tgt
        (@Pt.Xdh ℝ realScalar tgt tdh - @Pt.Xdh ℝ realScalar frm fdh)
        (@Pt.Ydh ℝ realScalar tgt tdh - @Pt.Ydh ℝ realScalar frm fdh)
        (@Pt.Zdh ℝ realScalar tgt tdh - @Pt.Zdh ℝ realScalar frm fdh) fdh tdh tol).rhs = [0, 0, 0] ∧
    (@linXYZ ℝ realScalar tgt tgt.X tgt.Y tgt.Z tol).rhs = [0, 0, 0] ∧
    (@linDistance ℝ realScalar frm tgt (dist3 frm tgt fdh tdh) fdh tdh tol).rhs = [0] ∧
    (@linHeight ℝ realScalar tgt (@Pt.modelHeight ℝ realScalar tgt)).rhs = [0] ∧
    (@linHeightDiff ℝ realScalar frm tgt
        (@Pt.modelHeight ℝ realScalar tgt - @Pt.modelHeight ℝ realScalar frm)).rhs = [0] := by
  refine ⟨by simp [linVector], by simp [linXYZ], ?_, by simp [linHeight], by simp [linHeightDiff]⟩
  rw [linDistance_rhs]; simp

example : (@linVector ℝ realScalar
    ⟨0, 0, 0, frame 0 0, 0, 0, true, true, 1, 2, 3⟩ ⟨10, 0, 0, frame 0 0, 0, 0, true, true, 4, 5, 6⟩
    10 0 0 0 0 1000).rhs = [0, 0, 0] := by
  simp [linVector, Pt.Xdh, Pt.Ydh, Pt.Zdh, frame_eq]

/-- Permuting the input records (`obs₁ ~ obs₂`) leaves `dm_rows`, `dm_floats`, `dm_cols` and the
    set of active observations unchanged and renumbers the unknowns by an injective self-map `σ`
    of `1 … dm_cols` (hence a bijection): `index₂ = σ ∘ index₁`.  Every sparse row is a list of
    `(coefficient, index p)` pairs whose coefficients do not depend on the indices
    (`Neu.pointTriple`), so the design matrix of the permuted input is the original one with rows
    permuted and columns renumbered by `σ`; that the least-squares solution is then the permuted
    solution is LS5 in `Gama/Lemmas/LS.lean` (lead, C01/C07). -/
theorem C19_order_independent {ι : Type} [DecidableEq ι] (P : Points ι) {o₁ o₂ : List (Obs ι)}
    (h : o₁.Perm o₂) :
    (updateObservations P o₁).rows = (updateObservations P o₂).rows ∧
    (updateObservations P o₁).floats = (updateObservations P o₂).floats ∧
    (updateObservations P o₁).idx.cols = (updateObservations P o₂).idx.cols ∧
    (updateObservations P o₁).active.Perm (updateObservations P o₂).active ∧
    ∃ σ : Nat → Nat,
      (∀ k, 1 ≤ k → k ≤ (updateObservations P o₁).idx.cols →
          1 ≤ σ k ∧ σ k ≤ (updateObservations P o₂).idx.cols) ∧
      (∀ k k', 1 ≤ k → k ≤ (updateObservations P o₁).idx.cols →
          1 ≤ k' → k' ≤ (updateObservations P o₁).idx.cols → σ k = σ k' → k = k') ∧
      ∀ q, (updateObservations P o₂).idx.index (isFreePar P) q =
        if (updateObservations P o₁).idx.index (isFreePar P) q = 0 then 0
        else σ ((updateObservations P o₁).idx.index (isFreePar P) q) :=
  order_independent P h

/-- for every record order the column indices are a bijection between the adjusted parameters
    that occur in an active observation and `1 … dm_cols` (no unknown index is assigned twice,
    none is skipped) -/
theorem C19_index_bijective {ι : Type} [DecidableEq ι] (P : Points ι) (obs : List (Obs ι)) :
    (∀ q q', (updateObservations P obs).idx.index (isFreePar P) q ≠ 0 →
        (updateObservations P obs).idx.index (isFreePar P) q =
          (updateObservations P obs).idx.index (isFreePar P) q' → q = q') ∧
    (∀ q, (updateObservations P obs).idx.index (isFreePar P) q ≤ (updateObservations P obs).idx.cols) ∧
    (∀ k, 1 ≤ k → k ≤ (updateObservations P obs).idx.cols →
        ∃ q, (updateObservations P obs).idx.index (isFreePar P) q = k) := by
  obtain ⟨inv, _⟩ := final_inv P obs
  refine ⟨fun q q' hq he => index_injective inv hq he, fun q => ?_, fun k h1 h2 => index_surjective inv h1 h2⟩
  by_cases hq : (updateObservations P obs).idx.index (isFreePar P) q = 0
  · omega
  · exact (index_range inv hq).2

/-- `redundancy = dm_rows − dm_cols + defect` as coded in `Model::update_adjustment`;
    with `defect = dm_cols − rank A` (C01/C20 for `Adj::defect`) this is `dm_rows − rank A` (LS10). -/
theorem C19_redundancy_defect {ι : Type} [DecidableEq ι] (b : Book ι) (defect : Nat) :
    redundancy b defect + (b.idx.cols : Int) = (b.rows : Int) + (defect : Int) :=
  redundancy_eq b defect

/-- non-vacuity of the bookkeeping theorems (`examplePoints`: point 0 fixed, 1 free, 2 constrained):
    two vectors 0→1, 0→2; both record orders give 6 rows, 6 columns, 18 reserved non-zeroes; the
    columns of points 1 and 2 are swapped, and so is the `minx` list -/
example :
    let b₁ := updateObservations examplePoints [.vector 0 1, .vector 0 2]
    (b₁.rows, b₁.idx.cols, b₁.floats, b₁.idx.index (isFreePar examplePoints) (2, .N),
      b₁.idx.index (isFreePar examplePoints) (0, .N), minx examplePoints b₁) = (6, 6, 18, 4, 0, [4, 5, 6]) := by
  decide

example :
    let b₂ := updateObservations examplePoints [.vector 0 2, .vector 0 1]
    (b₂.rows, b₂.idx.cols, b₂.floats, b₂.idx.index (isFreePar examplePoints) (2, .N),
      b₂.idx.index (isFreePar examplePoints) (0, .N), minx examplePoints b₂) = (6, 6, 18, 1, 0, [1, 2, 3]) := by
  decide

/-- the project-equation dump is faithful: reading what `AdjInputData::write_xml` wrote gives the
    adjustment input back (sparse rows with their column indices, covariance blocks, right-hand
    side, `minx`), for every well-formed input (`WF`: the three mandatory sections present, block
    headers consistent) and every number codec with `rd (fmt x) = x`.  Hence adjusting the dump with
    class `Adj` is adjusting the same (A, b, C, S) as gama-g3 does; that the solution is then the same
    is C01/C02. -/
theorem C19_dump_roundtrip {K S : Type} (c : Codec K S) (hc : c.Lawful) (d : AdjData K) (hd : WF d) :
    readAdj c (writeAdj c d) = .ok d :=
  readAdj_writeAdj c hc d hd

/-- non-vacuity: a 3×4 matrix with an empty row, a banded and a 1×1 block, `minx = [2, 4]` -/
example : WF exampleData ∧ exampleCodec.Lawful ∧ (writeAdj exampleCodec exampleData).length = 107 := by
  refine ⟨⟨rfl, ⟨_, rfl, ?_⟩, by decide⟩, ⟨fun _ => rfl, fun _ => rfl⟩, by decide⟩
  decide

end Gama.Props.C19
