/-
  C19 — gama-g3 reproduces consistent global networks, independent of algorithm.
  Property theorems only; helper lemmas live in Gama/Lemmas/{NeuLemmas,G3BookLemmas,AdjXmlLemmas,G3LinReal,G3LinZenith,
  G3LinAngle,G3AngleRhs,G3ParserLemmas,G3Assemble,G3NetLemmas,G3OneStep,G3NetExample}.lean.

  What is specific to gama-g3 is proved here; the adjustment itself (class `Adj`, four algorithms:
  minimiser, equality of the algorithms, defect) is C01–C04.  Reading guide:
  * `Neu.frame b l`       = `Point::transformation_matrix(b, l)` over ℝ
  * `Neu.dispXYZ p x`     = XYZ displacement of point `p` when the unknowns are `x` (by column
                            index; components that are not adjusted do not move) — `R · (n, e, u)`
  * `Neu.linVector …`     = `Model::linearization(Vector*)` etc. (`rows`, `rhs` in millimetres)
  * `G3Book.updateObservations P obs` = `Model::update_observations` on the record list `obs`
-/
import Gama.Lemmas.NeuLemmas
import Gama.Lemmas.G3BookLemmas
import Gama.Lemmas.AdjXmlLemmas
import Gama.Lemmas.G3LinReal
import Gama.Lemmas.G3LinZenith
import Gama.Lemmas.G3ParserLemmas
import Gama.Lemmas.G3Assemble
import Gama.Lemmas.G3NetLemmas
import Gama.Lemmas.G3LinAngle
import Gama.Lemmas.G3OneStep
import Gama.Lemmas.G3AngleRhs
import Gama.Lemmas.G3NetExample
namespace Gama.Props.C19
open Gama Gama.Neu Gama.G3Book Gama.AdjXml Gama.G3Lin Gama.Gen.G3Lin Gama.G3Parser Gama.G3Net
open Matrix

/-- the rotation `Point::transformation_matrix(b, l)` builds is orthogonal: `Rᵀ R = 1` -/
theorem C19_neu_orthogonal (b l : ℝ) :
    (frame b l).toMatrixᵀ * (frame b l).toMatrix = 1 :=
  toMatrix_transpose_mul_self (frame_orthonormal b l)

/-- its determinant is −1: (north, east, up) is a left-handed triple (north × east = down).
    DESIGN.md expected `det = 1`; −1 is the true value for an n-e-u frame (not a defect). -/
theorem C19_neu_det (b l : ℝ) : (frame b l).toMatrix.det = -1 := frame_det b l

example : (frame 0 0).toMatrix = !![0, 0, 1; 0, 1, 0; 1, 0, 0] := by
  simp [frame_eq, Rot.toMatrix]

/-- the three rows of a vector (XYZ difference) observation, as generated from
    `Model::linearization(Vector*)`, are `+R_to` and `−R_from` in the n-e-u unknowns: applied to any `x`
    they give exactly the change of `to − from` (the observation is linear in the unknowns, so this *is*
    its derivative with respect to the local n/e/u displacements) -/
theorem C19_coeff_is_derivative_vector (P : Pts ℝ) (o : GObs ℝ) (tol : ℝ) (x : ℕ → ℝ) :
    (evalLin P (@vector ℝ realTrig P o tol)).rows.map (fun r => @rowDot ℝ realScalar r x) =
      [ (dispXYZ (toPt (P .to)) x).1 - (dispXYZ (toPt (P .frm)) x).1,
        (dispXYZ (toPt (P .to)) x).2.1 - (dispXYZ (toPt (P .frm)) x).2.1,
        (dispXYZ (toPt (P .to)) x).2.2 - (dispXYZ (toPt (P .frm)) x).2.2 ] := by
  rw [gen_vector_eq]; exact linVector_rows _ _ _ _ _ _ _ _ x

/-- same for observed coordinates (rows `+R`) -/
theorem C19_coeff_is_derivative_xyz (P : Pts ℝ) (o : GObs ℝ) (tol : ℝ) (x : ℕ → ℝ) :
    (evalLin P (@xyz ℝ realTrig P o tol)).rows.map (fun r => @rowDot ℝ realScalar r x) =
      [ (dispXYZ (toPt (P .pt)) x).1, (dispXYZ (toPt (P .pt)) x).2.1, (dispXYZ (toPt (P .pt)) x).2.2 ] := by
  rw [gen_xyz_eq]; exact linXYZ_rows _ _ _ _ _ x

/-- the generated distance row is the gradient of the spatial distance in the n-e-u unknowns
    (directional derivative along every displacement `ξ`), for distinct end points -/
theorem C19_coeff_is_derivative_distance (P : Pts ℝ) (o : GObs ℝ) (tol : ℝ) (ξ : ℕ → ℝ)
    (hne : ((P .to).X - (P .frm).X) ^ 2 + ((P .to).Y - (P .frm).Y) ^ 2 + ((P .to).Z - (P .frm).Z) ^ 2 ≠ 0) :
    (evalLin P (@distance ℝ realTrig P o tol)).rows = [distRow (toPt (P .frm)) (toPt (P .to))] ∧
      HasDerivAt (distAlong (toPt (P .frm)) (toPt (P .to)) ξ)
        (@rowDot ℝ realScalar (distRow (toPt (P .frm)) (toPt (P .to))) ξ) 0 := by
  rw [gen_distance_eq]
  exact ⟨linDistance_rows _ _ _ _ _ _ hne, distRow_hasDerivAt _ _ ξ hne⟩

/-- height and height difference: the rows applied to `x` are the change of the (difference of the)
    heights when the points move by their `u` unknowns (heights are linear in `u`) -/
theorem C19_coeff_is_derivative_height (P : Pts ℝ) (o : GObs ℝ) (tol : ℝ) (x : ℕ → ℝ) :
    (evalLin P (@height ℝ realTrig P o tol)).rows.map (fun r => @rowDot ℝ realScalar r x) =
      [dispU (toPt (P .pt)) x] ∧
    (evalLin P (@hdiff ℝ realTrig P o tol)).rows.map (fun r => @rowDot ℝ realScalar r x) =
      [dispU (toPt (P .to)) x - dispU (toPt (P .frm)) x] := by
  rw [gen_height_eq, gen_hdiff_eq]
  constructor
  · simp only [linHeight, dispU, List.map_cons, List.map_nil]
    cases (toPt (P .pt)).freeU <;> simp [rowDot]
  · simp only [linHeightDiff, dispU, List.map_cons, List.map_nil]
    cases (toPt (P .frm)).freeU <;> cases (toPt (P .to)).freeU <;> simp [rowDot] <;> ring

/-- zenith angle, station part: the three coefficients the generated row pushes for the station are the
    partial derivatives of the zenith angle `zen l = arccos(l₃/|l|)` of the line of sight `l` (expressed in
    the station's n-e-u frame, `zLocal`) when the station moves along its own n, e, u axis, times
    `Angular().scale()/Linear().scale()`; for every non-vertical sight.
    Holds for the repaired formula `pd(-l1*l3*q, -l2*l3*q, r/s)` (notes/proposed/C19-zenith-horizontal-coef.diff);
    on the unrepaired tree (`-l1*q, -l2*q`) this proof fails and the `lin` stream shows the wrong derivative.
    Kept as the statement in the station's own axes; the full statement (every displacement of station and target,
    the target's rotated coefficients, `zenithFn = zen (zLocal)`) is `C19_coeff_is_derivative_zenith` below. -/
theorem C19_coeff_is_derivative_zenith_partial (P : Pts ℝ) (o : GObs ℝ) (tol : ℝ)
    (h : (zLocal P o).e1 * (zLocal P o).e1 + (zLocal P o).e2 * (zLocal P o).e2 ≠ 0) :
    ∃ cN cE cU tN tE tU,
      (@zenith ℝ realTrig P o tol).rows =
        [[⟨[(.frm, .freeH)], [⟨.frm, .N, cN⟩, ⟨.frm, .E, cE⟩]⟩, ⟨[(.frm, .freeU)], [⟨.frm, .U, cU⟩]⟩,
          ⟨[(.to, .freeH)], [⟨.to, .N, tN⟩, ⟨.to, .E, tE⟩]⟩, ⟨[(.to, .freeU)], [⟨.to, .U, tU⟩]⟩]] ∧
      HasDerivAt (fun t => angPerLin * zen ((zLocal P o).e1 - t) (zLocal P o).e2 (zLocal P o).e3) cN 0 ∧
      HasDerivAt (fun t => angPerLin * zen (zLocal P o).e1 ((zLocal P o).e2 - t) (zLocal P o).e3) cE 0 ∧
      HasDerivAt (fun t => angPerLin * zen (zLocal P o).e1 (zLocal P o).e2 ((zLocal P o).e3 - t)) cU 0 :=
  zenith_station_derivs P o tol h

/-- non-vacuity: station at the origin of the frame (0, 0), target 10 m along the north axis (Z) -/
example :
    let fr : GPt ℝ := ⟨0, 0, 0, 0, 0, 0, 0, 0, 0, 0, 0, 0, frame 0 0, .free, .free, .free, 1, 2, 3⟩
    let tg : GPt ℝ := ⟨0, 0, 10, 0, 0, 10, 0, 0, 0, 0, 0, 0, frame 0 0, .free, .free, .free, 4, 5, 6⟩
    let P : Pts ℝ := fun r => if r = .to then tg else fr
    (zLocal P ⟨0, 0, 0, 0, 0, 0, 0⟩).e1 * (zLocal P ⟨0, 0, 0, 0, 0, 0, 0⟩).e1 +
      (zLocal P ⟨0, 0, 0, 0, 0, 0, 0⟩).e2 * (zLocal P ⟨0, 0, 0, 0, 0, 0, 0⟩).e2 ≠ 0 := by
  simp [zLocal, sightLocal, sight, raised, up, vsub, E3.inverse, frame_eq]

/-- consistent vectors: one Gauss–Newton step is exact.  If the observed vector is the
    difference of the points displaced by `ξ` metres in their own frames, then `x = 1000 ξ`
    satisfies every equation of the observation with zero residual. -/
theorem C19_vector_one_step (P : Pts ℝ) (o : GObs ℝ) (tol : ℝ) (ξ : ℕ → ℝ)
    (hx : o.v1 = (@GPt.Xdh ℝ realScalar (P .to) o.toDh + (dispXYZ (toPt (P .to)) ξ).1) -
                 (@GPt.Xdh ℝ realScalar (P .frm) o.fromDh + (dispXYZ (toPt (P .frm)) ξ).1))
    (hy : o.v2 = (@GPt.Ydh ℝ realScalar (P .to) o.toDh + (dispXYZ (toPt (P .to)) ξ).2.1) -
                 (@GPt.Ydh ℝ realScalar (P .frm) o.fromDh + (dispXYZ (toPt (P .frm)) ξ).2.1))
    (hz : o.v3 = (@GPt.Zdh ℝ realScalar (P .to) o.toDh + (dispXYZ (toPt (P .to)) ξ).2.2) -
                 (@GPt.Zdh ℝ realScalar (P .frm) o.fromDh + (dispXYZ (toPt (P .frm)) ξ).2.2)) :
    (evalLin P (@vector ℝ realTrig P o tol)).rhs =
      (evalLin P (@vector ℝ realTrig P o tol)).rows.map (fun r => @rowDot ℝ realScalar r (fun i => 1000 * ξ i)) := by
  rw [gen_vector_eq]
  exact linVector_one_step _ _ _ _ _ _ _ _ ξ hx hy hz

theorem C19_xyz_one_step (P : Pts ℝ) (o : GObs ℝ) (tol : ℝ) (ξ : ℕ → ℝ)
    (hx : o.v1 = (P .pt).X + (dispXYZ (toPt (P .pt)) ξ).1) (hy : o.v2 = (P .pt).Y + (dispXYZ (toPt (P .pt)) ξ).2.1)
    (hz : o.v3 = (P .pt).Z + (dispXYZ (toPt (P .pt)) ξ).2.2) :
    (evalLin P (@xyz ℝ realTrig P o tol)).rhs =
      (evalLin P (@xyz ℝ realTrig P o tol)).rows.map (fun r => @rowDot ℝ realScalar r (fun i => 1000 * ξ i)) := by
  rw [gen_xyz_eq]
  exact linXYZ_one_step _ _ _ _ _ ξ hx hy hz

/-- **which unknowns get a coefficient** (all eight observation types, generated guards): in every row a
    coefficient is emitted for exactly the adjusted (free or constrained) unknowns among those the
    observation depends on — `patFromTo` = n,e,u of `from` and `to`; heights: only `u`; azimuth: not the
    `u` of its own station; angle: n,e,u of the three points — each once, in program order; nothing for a
    fixed or unused component, nothing for any other point.  `Normal P`: N and E of a point are in the same
    state, which `Model::update_parameters` establishes (the angle rows do not need it).
    A `to->free_height()` block moved inside the `free_horizontal_position()` block breaks `shape_*`. -/
theorem C19_only_free {K : Type} [Trig K] (P : Pts K) (h : Normal P) (o : GObs K) (tol : K) :
    (∀ r ∈ (vector P o tol).rows, emitted P r = patFromTo.filter (adjusted P)) ∧
    (∀ r ∈ (xyz P o tol).rows, emitted P r = patPoint.filter (adjusted P)) ∧
    (∀ r ∈ (distance P o tol).rows, emitted P r = patFromTo.filter (adjusted P)) ∧
    (∀ r ∈ (zenith P o tol).rows, emitted P r = patFromTo.filter (adjusted P)) ∧
    (∀ r ∈ (azimuth P o tol).rows, emitted P r = patAzimuth.filter (adjusted P)) ∧
    (∀ r ∈ (height P o tol).rows, emitted P r = patHeight.filter (adjusted P)) ∧
    (∀ r ∈ (hdiff P o tol).rows, emitted P r = patHdiff.filter (adjusted P)) ∧
    (∀ r ∈ (angle P o tol).rows, emitted P r = patAngle.filter (adjusted P)) :=
  ⟨only_free_vector P h o tol, only_free_xyz P h o tol, only_free_distance P h o tol, only_free_zenith P h o tol,
   only_free_azimuth P h o tol, only_free_height P h o tol, only_free_hdiff P h o tol, only_free_angle P o tol⟩

/-- … and the sparse row holds them under the column indices `Parameter::index()` of these unknowns -/
theorem C19_only_free_indices {K : Type} (P : Pts K) (r : GRow K) :
    (evalRow P r).map Prod.snd = (emitted P r).map fun q => (P q.1).index q.2 :=
  evalRow_indices P r

/-- non-vacuity: target with fixed n, e and free u, free station: the distance row has n, e, u of the
    station and only u of the target -/
example :
    let fr : GPt ℚ := ⟨0, 0, 0, 0, 0, 0, 0, 0, 0, 0, 0, 0, ⟨0, 0, 1, 0, 1, 0, 1, 0, 0⟩, .free, .free, .free, 1, 2, 3⟩
    let tg : GPt ℚ := ⟨3, 4, 0, 3, 4, 0, 0, 0, 0, 0, 0, 0, ⟨0, 0, 1, 0, 1, 0, 1, 0, 0⟩, .fixed, .fixed, .constr, 0, 0, 4⟩
    let P : Pts ℚ := fun r => if r = .to then tg else fr
    patFromTo.filter (adjusted P) = [(.frm, .N), (.frm, .E), (.frm, .U), (.to, .U)] := by
  decide

/-- consistent observations at the generating coordinates: every right-hand side is 0, for all eight
    observation types (generated right-hand sides), so `x = 0` solves the equations and the adjusted
    coordinates are the generating ones.  Observation functions (`Gama/Lemmas/G3LinReal.lean`):
    vector = difference of the raised points, `distanceFn` = their distance, `zenithFn` = angle between the
    station's vertical and the line of sight, `azimuthFn` = polar angle of the line of sight in the
    station's n-e plane (observed in gon), `angleFn` = angle between the vertical planes through the left
    and the right target, heights `H − geoid`. -/
theorem C19_consistent_fixed_point (P : Pts ℝ) (o : GObs ℝ) (tol : ℝ) :
    (o.v1 = @GPt.Xdh ℝ realScalar (P .to) o.toDh - @GPt.Xdh ℝ realScalar (P .frm) o.fromDh →
     o.v2 = @GPt.Ydh ℝ realScalar (P .to) o.toDh - @GPt.Ydh ℝ realScalar (P .frm) o.fromDh →
     o.v3 = @GPt.Zdh ℝ realScalar (P .to) o.toDh - @GPt.Zdh ℝ realScalar (P .frm) o.fromDh →
       (@vector ℝ realTrig P o tol).rhs = [0, 0, 0]) ∧
    (o.v1 = (P .pt).X → o.v2 = (P .pt).Y → o.v3 = (P .pt).Z → (@xyz ℝ realTrig P o tol).rhs = [0, 0, 0]) ∧
    (o.v1 = distanceFn P o → (@distance ℝ realTrig P o tol).rhs = [0]) ∧
    (o.v1 = @GPt.modelHeight ℝ realScalar (P .pt) → (@height ℝ realTrig P o tol).rhs = [0]) ∧
    (o.v1 = @GPt.modelHeight ℝ realScalar (P .to) - @GPt.modelHeight ℝ realScalar (P .frm) →
       (@hdiff ℝ realTrig P o tol).rhs = [0]) ∧
    (o.v1 = zenithFn P o → (@zenith ℝ realTrig P o tol).rhs = [0]) ∧
    (o.v1 = azimuthFn P o * 200 / Real.pi → (@azimuth ℝ realTrig P o tol).rhs = [0]) ∧
    (o.v1 = angleFn P o → (@angle ℝ realTrig P o tol).rhs = [0]) :=
  consistent_fixed_point P o tol

/-- non-vacuity: a vector observed between two points of the frame at (0, 0) -/
example :
    let fr : GPt ℝ := ⟨0, 0, 0, 0, 0, 0, 0, 0, 0, 0, 0, 0, frame 0 0, .free, .free, .free, 1, 2, 3⟩
    let tg : GPt ℝ := ⟨10, 0, 0, 10, 0, 0, 0, 0, 0, 0, 0, 0, frame 0 0, .free, .free, .free, 4, 5, 6⟩
    (@vector ℝ realTrig (fun r => if r = .to then tg else fr) ⟨10, 0, 0, 0, 0, 0, 0⟩ 1000).rhs = [0, 0, 0] := by
  simp [vector, GPt.Xdh, GPt.Ydh, GPt.Zdh, frame_eq]

/-- Permuting the input records (`obs₁ ~ obs₂`) leaves `dm_rows`, `dm_floats`, `dm_cols` and the
    set of active observations unchanged and renumbers the unknowns by an injective self-map `σ`
    of `1 … dm_cols` (hence a bijection): `index₂ = σ ∘ index₁`.  Every sparse row is a list of
    `(coefficient, index p)` pairs whose coefficients do not depend on the indices
    (`Neu.pointTriple`), so the design matrix of the permuted input is the original one with rows
    permuted and columns renumbered by `σ`; that the least-squares solution is then the permuted
    solution is LS5 in `Gama/Lemmas/LS.lean` (lead, C01/C07). -/
theorem C19_order_independent {ι : Type} [DecidableEq ι] (P : Points ι) {o₁ o₂ : List (Obs ι)}
    (h : o₁.Perm o₂) :
    (updateObservations P o₁).rows = (updateObservations P o₂).rows ∧
    (updateObservations P o₁).floats = (updateObservations P o₂).floats ∧
    (updateObservations P o₁).idx.cols = (updateObservations P o₂).idx.cols ∧
    (updateObservations P o₁).active.Perm (updateObservations P o₂).active ∧
    ∃ σ : Nat → Nat,
      (∀ k, 1 ≤ k → k ≤ (updateObservations P o₁).idx.cols →
          1 ≤ σ k ∧ σ k ≤ (updateObservations P o₂).idx.cols) ∧
      (∀ k k', 1 ≤ k → k ≤ (updateObservations P o₁).idx.cols →
          1 ≤ k' → k' ≤ (updateObservations P o₁).idx.cols → σ k = σ k' → k = k') ∧
      ∀ q, (updateObservations P o₂).idx.index (isFreePar P) q =
        if (updateObservations P o₁).idx.index (isFreePar P) q = 0 then 0
        else σ ((updateObservations P o₁).idx.index (isFreePar P) q) :=
  order_independent P h

/-- for every record order the column indices are a bijection between the adjusted parameters
    that occur in an active observation and `1 … dm_cols` (no unknown index is assigned twice,
    none is skipped) -/
theorem C19_index_bijective {ι : Type} [DecidableEq ι] (P : Points ι) (obs : List (Obs ι)) :
    (∀ q q', (updateObservations P obs).idx.index (isFreePar P) q ≠ 0 →
        (updateObservations P obs).idx.index (isFreePar P) q =
          (updateObservations P obs).idx.index (isFreePar P) q' → q = q') ∧
    (∀ q, (updateObservations P obs).idx.index (isFreePar P) q ≤ (updateObservations P obs).idx.cols) ∧
    (∀ k, 1 ≤ k → k ≤ (updateObservations P obs).idx.cols →
        ∃ q, (updateObservations P obs).idx.index (isFreePar P) q = k) := by
  obtain ⟨inv, _⟩ := final_inv P obs
  refine ⟨fun q q' hq he => index_injective inv hq he, fun q => ?_, fun k h1 h2 => index_surjective inv h1 h2⟩
  by_cases hq : (updateObservations P obs).idx.index (isFreePar P) q = 0
  · omega
  · exact (index_range inv hq).2

/-- `redundancy = dm_rows − dm_cols + defect` as coded in `Model::update_adjustment`;
    with `defect = dm_cols − rank A` (C01/C20 for `Adj::defect`) this is `dm_rows − rank A` (LS10).
    Definitional (transliteration tie of that one line); the statement `redundancy = rows − rank` of the assembled
    matrix needs the assembly of the generated rows into a matrix and LS10 — not done; the end-to-end oracle
    compares the reported redundancy / defect with an independent Jacobian rank on every network. -/
theorem C19_redundancy_defect {ι : Type} [DecidableEq ι] (b : Book ι) (defect : Nat) :
    redundancy b defect + (b.idx.cols : Int) = (b.rows : Int) + (defect : Int) :=
  redundancy_eq b defect

/-- non-vacuity of the bookkeeping theorems (`examplePoints`: point 0 fixed, 1 free, 2 constrained):
    two vectors 0→1, 0→2; both record orders give 6 rows, 6 columns, 18 reserved non-zeroes; the
    columns of points 1 and 2 are swapped, and so is the `minx` list -/
example :
    let b₁ := updateObservations examplePoints [.vector 0 1, .vector 0 2]
    (b₁.rows, b₁.idx.cols, b₁.floats, b₁.idx.index (isFreePar examplePoints) (2, .N),
      b₁.idx.index (isFreePar examplePoints) (0, .N), minx examplePoints b₁) = (6, 6, 18, 4, 0, [4, 5, 6]) := by
  decide

example :
    let b₂ := updateObservations examplePoints [.vector 0 2, .vector 0 1]
    (b₂.rows, b₂.idx.cols, b₂.floats, b₂.idx.index (isFreePar examplePoints) (2, .N),
      b₂.idx.index (isFreePar examplePoints) (0, .N), minx examplePoints b₂) = (6, 6, 18, 1, 0, [1, 2, 3]) := by
  decide

/-- the sparse row the generated linearisation hands to `SparseMatrix::add_element` is its *symbolic* row
    (coefficients keyed by point name and component, `symRow`) under the column indices of the book, whenever the
    points the linearisation reads carry these indices — the link between the generated rows and `matOf` below.
    The hypothesis `h` is discharged by `C19_update_index_is_book` for the points `ptsOf net idx.ind ob` the network
    model hands to the linearisation; `C19_record_order_independent` is the hypothesis-free composition. -/
theorem C19_rows_symbolic {ι : Type} (P : Pts ℝ) (names : Role → ι) (index : Par ι → Nat)
    (h : ∀ r c, @GPt.index ℝ (P r) c = index (names r, c)) (r : GRow ℝ) :
    evalRow P r = (symRow P names r).map fun e => (e.2, index e.1) :=
  evalRow_eq_symRow P names index h r

/-- **same results for any order of the input records** (index model + LS5 in one statement).  `o₁ ~ o₂` two
    orders of the records, `n` = number of unknowns, `rows` the symbolic rows in the first order, `matOf n index rows`
    the assembled design matrix (entry (r, k) = sum of the coefficients of row r whose unknown has index k+1).
    There is a renumbering `e` of the unknowns such that for every permutation `ρ` of the rows: the design matrix of
    the second input is the first with rows permuted and columns renumbered, and every least-squares solution
    `(x, v, Φ)` of the first problem (any right-hand side, any weight matrix, regularisation subset `S`) is the
    solution of the second one after renumbering the unknowns by `e`, permuting the residuals by `ρ`, with the
    same `Φ` and `S` transported — whichever algorithm produced it (C01: each returns an `IsLSSolution`). -/
theorem C19_order_solution {ι : Type} [DecidableEq ι] (P : Points ι) {o₁ o₂ : List (Obs ι)} (h : o₁.Perm o₂) {m : Nat}
    (rows : Fin m → SRow ι) :
    ∃ e : Fin (updateObservations P o₁).idx.cols ≃ Fin (updateObservations P o₁).idx.cols,
      ∀ (ρ : Fin m ≃ Fin m),
        matOf _ ((updateObservations P o₂).idx.index (isFreePar P)) (rows ∘ ρ) =
          (matOf _ ((updateObservations P o₁).idx.index (isFreePar P)) rows).submatrix ρ e.symm ∧
        ∀ (b : Fin m → ℝ) (W : Matrix (Fin m) (Fin m) ℝ) (S : Finset (Fin (updateObservations P o₁).idx.cols))
          (x : Fin (updateObservations P o₁).idx.cols → ℝ) (v : Fin m → ℝ) (rtr : ℝ),
          LS.IsLSSolution (matOf _ ((updateObservations P o₁).idx.index (isFreePar P)) rows) b W S x v rtr →
          LS.IsLSSolution (matOf _ ((updateObservations P o₂).idx.index (isFreePar P)) (rows ∘ ρ)) (b ∘ ρ)
            (W.submatrix ρ ρ) (S.map e.toEmbedding) (x ∘ e.symm) (v ∘ ρ) rtr :=
  order_solution P h rows

/-- non-vacuity of the inner implication: every design matrix has least-squares solutions in the sense used
    (consistent right-hand side `A x`, zero residuals; `examplePoints` in two orders is the `Perm` instance above) -/
example {m n : Nat} (A : Matrix (Fin m) (Fin n) ℝ) (x : Fin n → ℝ) (W : Matrix (Fin m) (Fin m) ℝ) :
    LS.IsLSSolution A (A *ᵥ x) W ∅ x 0 0 :=
  ⟨by simp, by simp, by simp, by simp⟩

/-- **redundancy = rows − rank** (LS10): for the assembled design matrix `A` (any matrix with `dm_rows` rows and
    `dm_cols` columns), if the reported defect is the nullity of `A` (`Adj::defect`, C01/C20) then the redundancy
    coded in `Model::update_adjustment` is `dm_rows − rank A` -/
theorem C19_redundancy_rank {ι : Type} (b : Book ι) (A : Matrix (Fin b.rows) (Fin b.idx.cols) ℝ) :
    redundancy b (LS.nullity A) = (b.rows : ℤ) - (A.rank : ℤ) :=
  redundancy_rank b A

/-- the project-equation dump is faithful **up to the digits the printer keeps**: for every number format with
    `rd (fmt x) = q x` (`q` = rounding to the printed digits), `fmt (q x) = fmt x`, integers exact (`Codec.Printer`),
    and every well-formed input (`WF`: the three mandatory sections present, block headers consistent), reading what
    `AdjInputData::write_xml` wrote gives the adjustment input with every number replaced by its printed value
    (sparse rows with their column indices, covariance blocks, right-hand side, `minx` unchanged in structure),
    a second dump of that is identical to the first, and the re-read data is a fixed point of dump → read.
    Hence adjusting the dump with class `Adj` is adjusting the rounded (A, b, C, S); that the solution is then
    the same up to that rounding is C01/C02 (continuity of the solution is not stated here). -/
theorem C19_dump_roundtrip {K S : Type} (c : Codec K S) {q : K → K} (hc : c.Printer q) (d : AdjData K) (hd : WF d) :
    readAdj c (writeAdj c d) = .ok (d.mapQ q) ∧
    writeAdj c (d.mapQ q) = writeAdj c d ∧
    readAdj c (writeAdj c (d.mapQ q)) = .ok (d.mapQ q) := by
  refine ⟨readAdj_writeAdj_printer c hc d hd, writeAdj_mapQ c hc d, ?_⟩
  rw [writeAdj_mapQ c hc d]
  exact readAdj_writeAdj_printer c hc d hd

/-- the exact case (`q = id`, e.g. `precision(17)` on IEEE doubles, which the harness uses): `readAdj ∘ writeAdj = id` -/
theorem C19_dump_roundtrip_exact {K S : Type} (c : Codec K S) (hc : c.Lawful) (d : AdjData K) (hd : WF d) :
    readAdj c (writeAdj c d) = .ok d :=
  readAdj_writeAdj c hc d hd

/-- non-vacuity with a genuinely lossy printer: numbers in units of 10⁻⁴ printed with three decimals (`decCodec`,
    decimal numerals through `Nat.repr` / `String.toNat?`): 10 004 is printed as "1001" and read back as 10 010 -/
example : decCodec.Printer decQ ∧ WF exampleData ∧ decQ 10004 = 10010 ∧ decCodec.fmtF 10004 = "1001" := by
  refine ⟨decCodec_printer, ⟨rfl, ⟨_, rfl, ?_⟩, by decide⟩, by decide, by decide⟩
  decide

/-- non-vacuity: a 3×4 matrix with an empty row, a banded and a 1×1 block, `minx = [2, 4]` -/
example : WF exampleData ∧ exampleCodec.Lawful ∧ (writeAdj exampleCodec exampleData).length = 107 := by
  refine ⟨⟨rfl, ⟨_, rfl, ?_⟩, by decide⟩, ⟨fun _ => rfl, fun _ => rfl⟩, by decide⟩
  decide

/-- the pending-attribute discipline read from `dataparser_g3.cpp` (generated `sites`): every pending
    field a handler reads is cleared by `init_g3`, and every record kind that can set such a field reads it
    through `optional(…)`.  An assignment `obs->to_dh = g3->to_dh;` without `optional(` makes this false. -/
theorem C19_parser_sites_ok : Gama.Gen.G3ParserSites.sites.ok = true := by decide

/-- **record locality of the g3 parser**: whatever the uninitialised members of `DataParser_g3` hold
    (`junk`), a document whose records only use the optional children their kind allows parses to
    exactly `build sites r` for every record `r` — the observation depends on the record's own child
    elements only; no value set inside one record survives into a later one — and any other document
    is refused. -/
theorem C19_parser_record_local {K α : Type} [Zero K] (junk : Pending K) (rs : List (Rec α K)) :
    parse Gama.Gen.G3ParserSites.sites junk rs =
      if rs.all (wellFormed Gama.Gen.G3ParserSites.sites) then .ok (rs.map (build Gama.Gen.G3ParserSites.sites))
      else .error .unknownTag :=
  parse_record_local C19_parser_sites_ok junk rs

/-- hence parsing is independent of the order of the records: a permuted document gives the permuted
    observations (and is refused iff the original is) -/
theorem C19_parser_order_independent {K α : Type} [Zero K] (junk junk' : Pending K) {rs rs' : List (Rec α K)}
    (hp : rs.Perm rs') :
    (∀ bs, parse Gama.Gen.G3ParserSites.sites junk rs = .ok bs →
        ∃ bs', parse Gama.Gen.G3ParserSites.sites junk' rs' = .ok bs' ∧ bs.Perm bs') ∧
    (∀ e, parse Gama.Gen.G3ParserSites.sites junk rs = .error e →
        parse Gama.Gen.G3ParserSites.sites junk' rs' = .error e) :=
  parse_perm C19_parser_sites_ok junk junk' hp

/-- non-vacuity: a distance with `<to-dh>` followed by a vector without: the vector's `to_dh` is 0
    (junk 7 in the uninitialised members does not show) -/
example :
    parse (K := Int) (α := Unit) Gama.Gen.G3ParserSites.sites (fun _ => 7)
      [⟨.dist, (), [(.toDh, 5)]⟩, ⟨.vector, (), []⟩] =
    .ok [⟨.dist, (), [(.fromDh, 0), (.toDh, 5)]⟩, ⟨.vector, (), [(.fromDh, 0), (.toDh, 0)]⟩] := by
  rfl

/-- the target heights of an `<angle>` record reach the observation (923ba08; before, the handler read the
    unrelated pending `to_dh` twice and `left_dh = right_dh = 0` always — finding G7 of the report): the members
    `from_dh, left_dh, right_dh` are what the record's own `<from-dh>`, `<left-dh>`, `<right-dh>` children left in
    the (initially zero) pending fields — `setOpts`: the last child of that name, 0 if there is none.
    Record locality for these fields is `C19_parser_record_local` (the generated `sites` now list
    `left_dh`, `right_dh` among the fields cleared by `init_g3` and read through `optional(…)`). -/
theorem C19_parser_angle_target_heights {K α : Type} [Zero K] (a : α) (opts : List (Field × K)) :
    (build Gama.Gen.G3ParserSites.sites (⟨.angle, a, opts⟩ : Rec α K)).dh =
      [(.fromDh, setOpts (fun _ => (0 : K)) opts .fromDh), (.leftDh, setOpts (fun _ => (0 : K)) opts .leftDh),
       (.rightDh, setOpts (fun _ => (0 : K)) opts .rightDh)] := by
  simp [build, Gama.Gen.G3ParserSites.sites, Gama.Gen.G3ParserSites.consumes, consume, upd]

/-- a child that occurs once, last, is the value read -/
theorem C19_parser_child_value {K : Type} [Zero K] (p : Pending K) (o : List (Field × K)) (f : Field) (v : K) :
    setOpts p (o ++ [(f, v)]) f = v := by
  induction o generalizing p with
  | nil => simp [setOpts, upd]
  | cons a t ih => obtain ⟨g, w⟩ := a; simpa [setOpts] using ih (upd p g w)

/-- an angle with `<left-dh>3</left-dh><right-dh>4</right-dh>` followed by an angle without children:
    3 and 4 reach the first, nothing reaches the second (junk 7 in the members before `init_g3`) -/
example :
    parse (K := Int) (α := Unit) Gama.Gen.G3ParserSites.sites (fun _ => 7)
      [⟨.angle, (), [(.leftDh, 3), (.rightDh, 4)]⟩, ⟨.angle, (), []⟩] =
    .ok [⟨.angle, (), [(.fromDh, 0), (.leftDh, 3), (.rightDh, 4)]⟩,
         ⟨.angle, (), [(.fromDh, 0), (.leftDh, 0), (.rightDh, 0)]⟩] := by
  rfl

/-! ## Round 3b — the network level: indices, record order, derivatives of the angular rows, reported results -/

/-- **`Model::update_index` and the linearisation meet in the same `Parameter` objects.**  For every observation and
    role, the column index the generated linearisation reads from the point of that role (`Parameter::index()` on the
    point `points->find(name)`, whose members `ind` are what `Model::update_index` stored: `ptsOf net idx.ind`) is the
    index of the book (`Idx.index`, the subject of `C19_index_bijective` / `C19_order_independent`) for the parameter
    (name, component); a role the observation does not have reads 0.  This was a hypothesis of `C19_rows_symbolic`. -/
theorem C19_update_index_is_book {ι K : Type} [DecidableEq ι] [Scalar K] (net : Net ι K) (idx : Idx ι) (ob : Obs ι)
    (r : Role) (c : Comp) :
    (ptsOf net idx.ind ob r).index c =
      match roleName ob r with
      | some n => idx.index (isFreePar net.points) (n, c)
      | none => 0 :=
  ptsOf_index net idx ob r c

/-- **any order of the input records** (no hypothesis besides `nobs₁ ~ nobs₂`).  `net` the point table, `nobs₁`, `nobs₂`
    the same observation records in two orders.  `netEqsR net nobs` = the project equations `Model::update_linearization`
    assembles (loop over `active_obs`, generated linearisations, indices of `update_index`), `designOf` / `rhsOf` their
    design matrix and right-hand side.  Then: same `dm_cols`, same `dm_rows`; there are an explicit renumbering `e` of the
    columns — `index₂ = renum e ∘ index₁` for every parameter — and an explicit bijection `ρ` of the rows, derived from
    the permutation of the active-observation lists, with `A₂ = A₁.submatrix ρ e⁻¹`, `b₂ = b₁ ∘ ρ`, equal rank (hence
    equal defect and redundancy, `C19_redundancy_rank`); every least-squares solution `(x, v, Φ)` of the first problem
    — whichever algorithm produced it (C01: each returns an `IsLSSolution`), any weight matrix `W` attached to the
    observations, any regularisation set `S` — is the solution of the second after renumbering (LS5): same `Φ`,
    residuals per observation (`v ∘ ρ`), and the same correction for every parameter, hence the same reported
    `dn de du` and adjusted `X Y Z` of every point (`C19_adjusted_xyz_from_neu` expresses them through `neuCorr`);
    the defect (nullity) and the redundancy `dm_rows − dm_cols + defect` are the same.
    **The regularisation list is transported by the same `e`** (round 4): the `minx` list of the second order is a
    permutation of the renumbered list of the first, and the set class `Adj` regularises over (`regSet`: the columns on
    the list, all columns if there is no constrained parameter) is `S₂ = S₁.map e` — so taking `S := regSet … nobs₁` in the
    solution transport gives exactly gama-g3's own problem for the second order. -/
theorem C19_record_order_independent {ι : Type} [DecidableEq ι] (net : Net ι ℝ) {nobs₁ nobs₂ : List (NObs ι ℝ)}
    (h : nobs₁.Perm nobs₂) :
    (bookOf net nobs₁).idx.cols = (bookOf net nobs₂).idx.cols ∧ (bookOf net nobs₁).rows = (bookOf net nobs₂).rows ∧
    ∃ (e : Fin (bookOf net nobs₁).idx.cols ≃ Fin (bookOf net nobs₁).idx.cols)
      (ρ : Fin (netEqsR net nobs₂).length ≃ Fin (netEqsR net nobs₁).length),
      (∀ q, (bookOf net nobs₂).idx.index (isFreePar net.points) q =
        renum e ((bookOf net nobs₁).idx.index (isFreePar net.points) q)) ∧
      designOf (bookOf net nobs₁).idx.cols (netEqsR net nobs₂) =
        (designOf (bookOf net nobs₁).idx.cols (netEqsR net nobs₁)).submatrix ρ e.symm ∧
      rhsOf (netEqsR net nobs₂) = rhsOf (netEqsR net nobs₁) ∘ ρ ∧
      (designOf (bookOf net nobs₁).idx.cols (netEqsR net nobs₂)).rank =
        (designOf (bookOf net nobs₁).idx.cols (netEqsR net nobs₁)).rank ∧
      (∀ (W : Matrix (Fin (netEqsR net nobs₁).length) (Fin (netEqsR net nobs₁).length) ℝ)
          (S : Finset (Fin (bookOf net nobs₁).idx.cols)) (x : Fin (bookOf net nobs₁).idx.cols → ℝ)
          (v : Fin (netEqsR net nobs₁).length → ℝ) (rtr : ℝ),
        LS.IsLSSolution (designOf _ (netEqsR net nobs₁)) (rhsOf (netEqsR net nobs₁)) W S x v rtr →
        LS.IsLSSolution (designOf _ (netEqsR net nobs₂)) (rhsOf (netEqsR net nobs₂)) (W.submatrix ρ ρ)
          (S.map e.toEmbedding) (x ∘ e.symm) (v ∘ ρ) rtr) ∧
      (∀ (x : Fin (bookOf net nobs₁).idx.cols → ℝ) (n : ι) (c : Comp),
        neuCorr net.points (bookOf net nobs₂) (vecAt (x ∘ e.symm)) n c =
          neuCorr net.points (bookOf net nobs₁) (vecAt x) n c) ∧
      LS.nullity (designOf (bookOf net nobs₁).idx.cols (netEqsR net nobs₂)) =
        LS.nullity (designOf (bookOf net nobs₁).idx.cols (netEqsR net nobs₁)) ∧
      redundancy (bookOf net nobs₂) (LS.nullity (designOf (bookOf net nobs₁).idx.cols (netEqsR net nobs₂))) =
        redundancy (bookOf net nobs₁) (LS.nullity (designOf (bookOf net nobs₁).idx.cols (netEqsR net nobs₁))) ∧
      (minx net.points (bookOf net nobs₂)).Perm ((minx net.points (bookOf net nobs₁)).map (renum e)) ∧
      regSet (bookOf net nobs₁).idx.cols net.points (bookOf net nobs₂) =
        (regSet (bookOf net nobs₁).idx.cols net.points (bookOf net nobs₁)).map e.toEmbedding := by
  obtain ⟨hc, hr, e, ρ, he, hm, hb, hrk, hls⟩ := record_order_independent net h
  have hnul : LS.nullity (designOf (bookOf net nobs₁).idx.cols (netEqsR net nobs₂)) =
      LS.nullity (designOf (bookOf net nobs₁).idx.cols (netEqsR net nobs₁)) := by
    have h1 := LS.rank_add_nullity (designOf (bookOf net nobs₁).idx.cols (netEqsR net nobs₁))
    have h2 := LS.rank_add_nullity (designOf (bookOf net nobs₁).idx.cols (netEqsR net nobs₂))
    omega
  refine ⟨hc, hr, e, ρ, he, hm, hb, hrk, hls, fun x n c => ?_, hnul, ?_,
    minx_perm_renum (final_inv net.points _).1 (final_inv net.points _).1 e he,
    regSet_renum (final_inv net.points _).1 (final_inv net.points _).1 e he⟩
  · exact neuCorr_renumber net.points _ _ (final_inv net.points _).1 e he x n c
  · unfold redundancy
    rw [hnul, hc, hr]

/-- non-vacuity of `C19_record_order_independent` and of the index theorem: two free points observed from a fixed
    one, the two records swapped: the indices the linearisation reads for the second vector's target are 4 5 6 in one
    order and 1 2 3 in the other -/
example :
    let pt : NPt ℚ := ⟨0, 0, 0, 0, 0, 0, 0, 0, 0, 0, 0, 0, ⟨0, 0, 1, 0, 1, 0, 1, 0, 0⟩, ⟨true, false, false, .free, .free, .free⟩⟩
    let fx : NPt ℚ := { pt with s := ⟨true, false, false, .fixed, .fixed, .fixed⟩ }
    let net : Net Nat ℚ := ⟨fun n => if n = 0 then some fx else if n ≤ 2 then some pt else none, 1000⟩
    let o₁ : List (Obs Nat) := [.vector 0 1, .vector 0 2]
    let o₂ : List (Obs Nat) := [.vector 0 2, .vector 0 1]
    ((ptsOf net (updateObservations net.points o₁).idx.ind (.vector 0 2) .to).index .N,
     (ptsOf net (updateObservations net.points o₂).idx.ind (.vector 0 2) .to).index .N,
     (ptsOf net (updateObservations net.points o₁).idx.ind (.vector 0 2) .frm).index .N) = (4, 1, 0) := by
  decide

/-- `dm_rows` is the number of project equations the linearisation loop produces (every active observation
    contributes `dimension()` rows with as many right-hand sides), and the redundancy coded in
    `Model::update_adjustment`, with the defect of the *assembled* design matrix, is equations − rank (LS10):
    `C19_redundancy_defect` / `C19_redundancy_rank` composed with the assembly -/
theorem C19_redundancy_is_equations_minus_rank {ι : Type} [DecidableEq ι] (net : Net ι ℝ) (nobs : List (NObs ι ℝ)) :
    (netEqsR net nobs).length = (bookOf net nobs).rows ∧
    redundancy (bookOf net nobs) (LS.nullity (designOf (bookOf net nobs).idx.cols (netEqsR net nobs))) =
      ((netEqsR net nobs).length : ℤ) - ((designOf (bookOf net nobs).idx.cols (netEqsR net nobs)).rank : ℤ) :=
  ⟨netEqs_length net nobs, redundancy_eq_rows_sub_rank net nobs⟩

/-- the assembled design matrix applied to a vector of unknowns is the sparse row applied to it
    (`Σ coef · x(index)`): the link between the row-level theorems (`C19_coeff_is_derivative_*`, `C19_*_one_step`,
    stated with `rowDot`) and the matrix-level ones (`IsLSSolution`) -/
theorem C19_design_mulVec {m n : Nat} (rows : Fin m → Row ℝ) (x : Fin n → ℝ) (i : Fin m) :
    (matOfRows n rows *ᵥ x) i = @rowDot ℝ realScalar (rows i) (vecAt x) :=
  matOfRows_mulVec rows x i

/-- **the angle coefficients are derivatives** (was: numerically only).  Station, left and right target are displaced by
    `t·ξf`, `t·ξl`, `t·ξr`, each in its own n-e-u frame.  There are differentiable direction angles `θl`, `θr` of the
    horizontal parts of station → left / right target in the station's frame along this motion (`Lin.IsPolarAngle`, C05's
    polar lift), starting at the code's `atan2` values as bearings, and the derivative of
    `Angular().scale()/Linear().scale() · (θr − θl)` at `t = 0` is the generated row applied to `(ξf, ξl, ξr)`:
    `cF·ξf + cL·ξl + cR·ξr` with the nine coefficients of the row.  Hypotheses: neither target in the station's vertical.
    The angle is formed from the initial coordinates in the station's geodetic frame, as the coefficients are
    (the right-hand side additionally uses instrument / target heights and the deflection of the vertical: second order).
    A sign change of `Lcoef` / `Rcoef` (finding G3 of round 1, mutation c2 of round 3) breaks this proof. -/
theorem C19_coeff_is_derivative_angle (P : Pts ℝ) (o : GObs ℝ) (tol : ℝ) (ξf ξl ξr : E3 ℝ)
    (hl : (aLocal P .left).e1 * (aLocal P .left).e1 + (aLocal P .left).e2 * (aLocal P .left).e2 ≠ 0)
    (hr : (aLocal P .right).e1 * (aLocal P .right).e1 + (aLocal P .right).e2 * (aLocal P .right).e2 ≠ 0) :
    ∃ cF cL cR : E3 ℝ,
      (@angle ℝ realTrig P o tol).rows =
        [[⟨[(.frm, .freeN)], [⟨.frm, .N, cF.e1⟩]⟩, ⟨[(.frm, .freeE)], [⟨.frm, .E, cF.e2⟩]⟩,
          ⟨[(.frm, .freeU)], [⟨.frm, .U, cF.e3⟩]⟩,
          ⟨[(.left, .freeN)], [⟨.left, .N, cL.e1⟩]⟩, ⟨[(.left, .freeE)], [⟨.left, .E, cL.e2⟩]⟩,
          ⟨[(.left, .freeU)], [⟨.left, .U, cL.e3⟩]⟩,
          ⟨[(.right, .freeN)], [⟨.right, .N, cR.e1⟩]⟩, ⟨[(.right, .freeE)], [⟨.right, .E, cR.e2⟩]⟩,
          ⟨[(.right, .freeU)], [⟨.right, .U, cR.e3⟩]⟩]] ∧
      ∃ θl θr : ℝ → ℝ,
        θl 0 = Gama.Lin.brg (aLocal P .left).e1 (aLocal P .left).e2 ∧
        θr 0 = Gama.Lin.brg (aLocal P .right).e1 (aLocal P .right).e2 ∧
        (∀ t, Gama.Lin.IsPolarAngle
          ((aLocal P .left).e1 + (relDisp (frameOf (P .frm)) (frameOf (P .left)) ξf ξl).e1 * t)
          ((aLocal P .left).e2 + (relDisp (frameOf (P .frm)) (frameOf (P .left)) ξf ξl).e2 * t) (θl t)) ∧
        (∀ t, Gama.Lin.IsPolarAngle
          ((aLocal P .right).e1 + (relDisp (frameOf (P .frm)) (frameOf (P .right)) ξf ξr).e1 * t)
          ((aLocal P .right).e2 + (relDisp (frameOf (P .frm)) (frameOf (P .right)) ξf ξr).e2 * t) (θr t)) ∧
        HasDerivAt (fun t => angPerLin * (θr t - θl t)) (angleRowDot cF cL cR ξf ξl ξr) 0 :=
  angle_is_derivative P o tol ξf ξl ξr hl hr

/-- non-vacuity: station at the origin of the frame (0, 0), left target 10 m north (Z), right target 10 m east (Y) -/
example :
    let mk (x y z : ℝ) : GPt ℝ := ⟨x, y, z, x, y, z, 0, 0, 0, 0, 0, 0, frame 0 0, .free, .free, .free, 1, 2, 3⟩
    let P : Pts ℝ := fun r => if r = .left then mk 0 0 10 else if r = .right then mk 0 10 0 else mk 0 0 0
    (aLocal P .left).e1 * (aLocal P .left).e1 + (aLocal P .left).e2 * (aLocal P .left).e2 ≠ 0 ∧
    (aLocal P .right).e1 * (aLocal P .right).e1 + (aLocal P .right).e2 * (aLocal P .right).e2 ≠ 0 := by
  simp [aLocal, frameOf, E3.inverse, frame_eq]

/-- **zenith angle, complete** (finishes `C19_coeff_is_derivative_zenith_partial`): station and target displaced by
    `t·ξf`, `t·ξt`, each in its own n-e-u frame; the line of sight in the station's frame is then `l + t·δ`,
    `δ = R_fᵀ(R_t ξt − R_f ξf)`; the derivative of `scale · zen (l + t δ)` at 0 is the generated row applied to
    `(ξf, ξt)` — including the target's coefficients `R_tᵀ(−R_f pd)` — and `zen l` is the zenith angle the right-hand side
    compares the observation with (`zenithFn`, station without deflection of the vertical).  Non-vertical sight. -/
theorem C19_coeff_is_derivative_zenith (P : Pts ℝ) (o : GObs ℝ) (tol : ℝ) (ξf ξt : E3 ℝ)
    (h : (zLocal P o).e1 * (zLocal P o).e1 + (zLocal P o).e2 * (zLocal P o).e2 ≠ 0) :
    (∃ cF cT : E3 ℝ,
      (@zenith ℝ realTrig P o tol).rows =
        [[⟨[(.frm, .freeH)], [⟨.frm, .N, cF.e1⟩, ⟨.frm, .E, cF.e2⟩]⟩, ⟨[(.frm, .freeU)], [⟨.frm, .U, cF.e3⟩]⟩,
          ⟨[(.to, .freeH)], [⟨.to, .N, cT.e1⟩, ⟨.to, .E, cT.e2⟩]⟩, ⟨[(.to, .freeU)], [⟨.to, .U, cT.e3⟩]⟩]] ∧
      HasDerivAt (fun t => angPerLin * zen
          ((zLocal P o).e1 + (relDisp (frameOf (P .frm)) (frameOf (P .to)) ξf ξt).e1 * t)
          ((zLocal P o).e2 + (relDisp (frameOf (P .frm)) (frameOf (P .to)) ξf ξt).e2 * t)
          ((zLocal P o).e3 + (relDisp (frameOf (P .frm)) (frameOf (P .to)) ξf ξt).e3 * t))
        (edot cF ξf + edot cT ξt) 0) ∧
    ((P .frm).dB = 0 → (P .frm).dL = 0 → zenithFn P o = zen (zLocal P o).e1 (zLocal P o).e2 (zLocal P o).e3) :=
  ⟨zenith_is_derivative P o tol ξf ξt h, zenithFn_eq_zen P o⟩

/-- **vector rows are ECEF coordinate differences** (the content behind `C19_vector_cov_unrotated`).  For every vector
    of unknowns `x` [mm]: the three generated rows applied to `x` are the ECEF components of
    `R_to·(n,e,u)_to − R_from·(n,e,u)_from` (`dispXYZ p x = R_p · (x_N, x_E, x_U)`, components that are not adjusted
    contribute 0), so the residuals `A x − b` of these three rows are, component by component,
    `1000 · ((to' − from') − observed)` with `to' = to + R_to·(n,e,u)_to/1000` the adjusted position: the residual
    vector is the ECEF difference "adjusted vector − observed vector" in millimetres.  Its covariance is therefore the
    3×3 ECEF covariance of the observed vector as given in the input; no rotation of the covariance is needed
    (only the unknowns live in the local frames). -/
theorem C19_vector_rows_are_ecef (P : Pts ℝ) (o : GObs ℝ) (tol : ℝ) (x : ℕ → ℝ) :
    List.zipWith (· - ·)
      ((evalLin P (@vector ℝ realTrig P o tol)).rows.map (fun r => @rowDot ℝ realScalar r x))
      (evalLin P (@vector ℝ realTrig P o tol)).rhs =
    [ 1000 * ((@GPt.Xdh ℝ realScalar (P .to) o.toDh + (dispXYZ (toPt (P .to)) x).1 / 1000) -
              (@GPt.Xdh ℝ realScalar (P .frm) o.fromDh + (dispXYZ (toPt (P .frm)) x).1 / 1000) - o.v1),
      1000 * ((@GPt.Ydh ℝ realScalar (P .to) o.toDh + (dispXYZ (toPt (P .to)) x).2.1 / 1000) -
              (@GPt.Ydh ℝ realScalar (P .frm) o.fromDh + (dispXYZ (toPt (P .frm)) x).2.1 / 1000) - o.v2),
      1000 * ((@GPt.Zdh ℝ realScalar (P .to) o.toDh + (dispXYZ (toPt (P .to)) x).2.2 / 1000) -
              (@GPt.Zdh ℝ realScalar (P .frm) o.fromDh + (dispXYZ (toPt (P .frm)) x).2.2 / 1000) - o.v3) ] := by
  rw [C19_coeff_is_derivative_vector P o tol x]
  have hr : (evalLin P (@vector ℝ realTrig P o tol)).rhs =
      [(o.v1 - (@GPt.Xdh ℝ realScalar (P .to) o.toDh - @GPt.Xdh ℝ realScalar (P .frm) o.fromDh)) * 1000,
       (o.v2 - (@GPt.Ydh ℝ realScalar (P .to) o.toDh - @GPt.Ydh ℝ realScalar (P .frm) o.fromDh)) * 1000,
       (o.v3 - (@GPt.Zdh ℝ realScalar (P .to) o.toDh - @GPt.Zdh ℝ realScalar (P .frm) o.fromDh)) * 1000] := by
    rw [gen_vector_eq]
    simp [linVector, linScale_real, toPt, GPt.Xdh, GPt.Ydh, GPt.Zdh, Pt.Xdh, Pt.Ydh, Pt.Zdh]
  rw [hr]
  simp only [List.zipWith_cons_cons, List.zipWith_nil_right]
  refine congrArg₂ _ (by ring) (congrArg₂ _ (by ring) (congrArg₂ _ (by ring) rfl))

/-- **the vector covariance is used as given (an ECEF covariance, no rotation)** — corollary of
    `C19_vector_rows_are_ecef`.  The block `Model::update_linearization` hands to `Adj` for a cluster is its packed
    covariance divided by the a priori variance, element by element (second conjunct: `C /= apriori_sd²`, no rotation
    applied; compared bit for bit by the xml stream), and that is the right thing to hand over because (first
    conjunct, `C19_vector_rows_are_ecef`) the residuals `A x − b` of the three rows this block weights are, for every
    `x`, the ECEF components of "adjusted vector − observed vector": the given 3×3 covariance of the observed ECEF
    vector is the covariance of exactly these residuals, only the unknowns live in the local n-e-u frames. -/
theorem C19_vector_cov_unrotated (P : Pts ℝ) (o : GObs ℝ) (tol : ℝ) (x : ℕ → ℝ) (sd : ℝ) (c : List ℝ) :
    List.zipWith (· - ·)
      ((evalLin P (@vector ℝ realTrig P o tol)).rows.map (fun r => @rowDot ℝ realScalar r x))
      (evalLin P (@vector ℝ realTrig P o tol)).rhs =
    [ 1000 * ((@GPt.Xdh ℝ realScalar (P .to) o.toDh + (dispXYZ (toPt (P .to)) x).1 / 1000) -
              (@GPt.Xdh ℝ realScalar (P .frm) o.fromDh + (dispXYZ (toPt (P .frm)) x).1 / 1000) - o.v1),
      1000 * ((@GPt.Ydh ℝ realScalar (P .to) o.toDh + (dispXYZ (toPt (P .to)) x).2.1 / 1000) -
              (@GPt.Ydh ℝ realScalar (P .frm) o.fromDh + (dispXYZ (toPt (P .frm)) x).2.1 / 1000) - o.v2),
      1000 * ((@GPt.Zdh ℝ realScalar (P .to) o.toDh + (dispXYZ (toPt (P .to)) x).2.2 / 1000) -
              (@GPt.Zdh ℝ realScalar (P .frm) o.fromDh + (dispXYZ (toPt (P .frm)) x).2.2 / 1000) - o.v3) ] ∧
    @cofactorBlock ℝ realScalar sd c = c.map (fun v => v / (sd * sd)) := by
  refine ⟨C19_vector_rows_are_ecef P o tol x, ?_⟩
  unfold cofactorBlock
  apply List.map_congr_left
  intro v _
  show v * (1 / (sd * sd)) = v / (sd * sd)
  ring

/-- **what gama-g3 reports for a point** (`Model::update_adjustment` + `Point::write_xml`, corrections 0 before the
    adjustment): the printed `dn de du` [mm] are the unknowns `adj->x()(index)` of the point's adjusted components
    (0 for a component without a column), the correction of the linked parameter `height` is that of `U` (0 — nothing
    is read from the solution vector — when `U` has no column: the repaired code, finding G8), and the adjusted
    coordinates are `X' = X₀ + R·(dn, de, du)/1000` with `R` the point's own n-e-u frame — every parameter of `par_list`
    corrected exactly once -/
theorem C19_adjusted_xyz_from_neu {ι : Type} [DecidableEq ι] (net : Net ι ℝ) (nobs : List (NObs ι ℝ)) (a : AdjOut ℝ)
    (var : ℝ) (n : ι) (g : NPt ℝ) (hg : net.pts n = some g) :
    ∃ out, reportR net (bookOf net nobs) a var n = some out ∧
      out.dn = neuCorr net.points (bookOf net nobs) a.x n .N * 1000 ∧
      out.de = neuCorr net.points (bookOf net nobs) a.x n .E * 1000 ∧
      out.du = neuCorr net.points (bookOf net nobs) a.x n .U * 1000 ∧
      out.dh = neuCorr net.points (bookOf net nobs) a.x n .U ∧
      out.ax = g.X0 + (g.R.r11 * neuCorr net.points (bookOf net nobs) a.x n .N +
        g.R.r12 * neuCorr net.points (bookOf net nobs) a.x n .E + g.R.r13 * neuCorr net.points (bookOf net nobs) a.x n .U) ∧
      out.ay = g.Y0 + (g.R.r21 * neuCorr net.points (bookOf net nobs) a.x n .N +
        g.R.r22 * neuCorr net.points (bookOf net nobs) a.x n .E + g.R.r23 * neuCorr net.points (bookOf net nobs) a.x n .U) ∧
      out.az = g.Z0 + (g.R.r31 * neuCorr net.points (bookOf net nobs) a.x n .N +
        g.R.r32 * neuCorr net.points (bookOf net nobs) a.x n .E + g.R.r33 * neuCorr net.points (bookOf net nobs) a.x n .U) :=
  reportR_eq net nobs a var n g hg

/-- **a consistent network is reproduced** — "returns adjusted coordinates equal to the generating ones" as a theorem.
    Hypotheses: (i) the approximate coordinates are the generating ones: every active observation equals its
    observation function at the coordinates the linearisation reads (`ConsistentAt`, all eight types); (ii) the weight
    matrix is positive definite; (iii) the regularisation set `S` (the constrained parameters, `minx`) resolves the
    defect of the design matrix (C01's uniqueness condition; automatic for a network of full column rank).
    Then for every least-squares solution in the sense of `IsLSSolution` — whichever of the four algorithms produced it
    (C01) — `x = 0`, all residuals are 0, `Φ = 0`, and every point is reported with `dn = de = du = 0` and adjusted
    `X Y Z` equal to its generating coordinates. -/
theorem C19_consistent_network_reproduced {ι : Type} [DecidableEq ι] (net : Net ι ℝ) (nobs : List (NObs ι ℝ))
    (hcons : ∀ no ∈ activeOf net nobs, ConsistentAt (ptsOfR net (bookOf net nobs).idx.ind no.obs) no.obs no.o)
    (W : Matrix (Fin (netEqsR net nobs).length) (Fin (netEqsR net nobs).length) ℝ)
    (hpd : ∀ d, d ≠ 0 → 0 < d ⬝ᵥ W *ᵥ d) (S : Finset (Fin (bookOf net nobs).idx.cols))
    (hS : LS.Resolves (designOf (bookOf net nobs).idx.cols (netEqsR net nobs)) S)
    (x : Fin (bookOf net nobs).idx.cols → ℝ) (v : Fin (netEqsR net nobs).length → ℝ) (rtr : ℝ)
    (hsol : LS.IsLSSolution (designOf _ (netEqsR net nobs)) (rhsOf (netEqsR net nobs)) W S x v rtr) :
    x = 0 ∧ v = 0 ∧ rtr = 0 ∧
    ∀ (qxx : Nat → Nat → ℝ) (defect : Nat) (var : ℝ) (n : ι) (g : NPt ℝ), net.pts n = some g →
      ∃ out, reportR net (bookOf net nobs) ⟨vecAt x, defect, rtr, qxx⟩ var n = some out ∧
        out.dn = 0 ∧ out.de = 0 ∧ out.du = 0 ∧ out.ax = g.X0 ∧ out.ay = g.Y0 ∧ out.az = g.Z0 := by
  rw [rhsOf_zero_of_consistent net nobs hcons] at hsol
  obtain ⟨hx, hv, hr⟩ := ls_zero _ W hpd S hS hsol
  refine ⟨hx, hv, hr, fun qxx defect var n g hg => ?_⟩
  obtain ⟨out, ho, h1, h2, h3, _, h4, h5, h6⟩ := reportR_eq net nobs ⟨vecAt x, defect, rtr, qxx⟩ var n g hg
  have hz : ∀ c, neuCorr net.points (bookOf net nobs) (vecAt x) n c = 0 := by
    intro c
    unfold neuCorr vecAt
    rw [hx]
    split_ifs <;> simp
  refine ⟨out, ho, ?_, ?_, ?_, ?_, ?_, ?_⟩
  · rw [h1, hz]; simp
  · rw [h2, hz]; simp
  · rw [h3, hz]; simp
  · rw [h4, hz, hz, hz]; simp
  · rw [h5, hz, hz, hz]; simp
  · rw [h6, hz, hz, hz]; simp

/-- **one linearisation step from nearby**: if every project equation is satisfied exactly by the unknowns `ξ`
    (observations that are linear in the unknowns and consistent with the coordinates displaced by `ξ` — for vectors and
    observed coordinates this is `C19_vector_one_step` / `C19_xyz_one_step`, any displacement within `tol_abs`), the
    weight matrix is positive definite and the design matrix has full column rank, then every least-squares solution is
    `x = ξ` with zero residuals, and the reported coordinates are `X₀ + R·ξ_point/1000` — the generating ones.
    (Distances and angles are not linear: for them this holds up to second order, which the end-to-end oracle bounds.)
    The hypothesis `hlin` is *derived* for vector / xyz / height / height-difference networks in
    `C19_generated_network_is_linear`; `C19_one_step_linear_network_reproduced` is this theorem without it. -/
theorem C19_one_step_network_reproduced {ι : Type} [DecidableEq ι] (net : Net ι ℝ) (nobs : List (NObs ι ℝ))
    (ξ : Fin (bookOf net nobs).idx.cols → ℝ)
    (hlin : ∀ p ∈ netEqsR net nobs, p.2 = @rowDot ℝ realScalar p.1 (vecAt ξ))
    (W : Matrix (Fin (netEqsR net nobs).length) (Fin (netEqsR net nobs).length) ℝ)
    (hpd : ∀ d, d ≠ 0 → 0 < d ⬝ᵥ W *ᵥ d) (S : Finset (Fin (bookOf net nobs).idx.cols))
    (hker : ∀ g, designOf (bookOf net nobs).idx.cols (netEqsR net nobs) *ᵥ g = 0 → g = 0)
    (x : Fin (bookOf net nobs).idx.cols → ℝ) (v : Fin (netEqsR net nobs).length → ℝ) (rtr : ℝ)
    (hsol : LS.IsLSSolution (designOf _ (netEqsR net nobs)) (rhsOf (netEqsR net nobs)) W S x v rtr) :
    x = ξ ∧ v = 0 ∧ rtr = 0 := by
  rw [rhsOf_eq_mulVec (netEqsR net nobs) ξ hlin] at hsol
  exact ls_one_step _ W hpd S hker ξ hsol

/-- non-vacuity of the two solution theorems: the zero solution of a consistent problem exists for every design
    matrix, and full column rank makes every regularisation set resolving -/
example {m n : Nat} (A : Matrix (Fin m) (Fin n) ℝ) (W : Matrix (Fin m) (Fin m) ℝ) (S : Finset (Fin n)) :
    LS.IsLSSolution A 0 W S 0 0 0 ∧ ((∀ g, A *ᵥ g = 0 → g = 0) → LS.Resolves A S) :=
  ⟨⟨by simp, by simp, by simp, by simp⟩, fun h => LS.resolves_of_ker_trivial h S⟩

/-- **`precision(p)` printing as a printer.**  If `operator<<` / `istringstream >>` on doubles decompose into rounding
    to a `p`-digit decimal numeral `D`, exact rendering / parsing, and rounding to the nearest double `N`, with
    `D (N (D x)) = D x` (re-printing what was read gives the same numeral — `DecimalStream`, whose docstring says why this
    holds for IEEE doubles and every `p`, and that for `p = 17` even `N (D x) = x`), then the codec is a `Codec.Printer`
    for the projection `q = N ∘ D`, so `C19_dump_roundtrip` applies to gama-g3's `precision(16)` dump: re-reading gives
    the data rounded to 16 digits, a second dump is identical.  With `N (D x) = x` (17 digits) it is exact. -/
theorem C19_printer_of_decimal_stream {K S Dec : Type} (c : Codec K S) (D : K → Dec) (N : Dec → K) (shw : Dec → S)
    (h : DecimalStream c D N shw) :
    c.Printer (N ∘ D) ∧ (∀ x, (N ∘ D) ((N ∘ D) x) = (N ∘ D) x) ∧ ((∀ x, N (D x) = x) → c.Lawful) :=
  ⟨h.printer.1, h.printer.2, h.exact⟩

/-- non-vacuity: the three-decimal printer is such a stream, and it is not exact -/
example : DecimalStream decCodec (fun n => (n + 9) / 10) (· * 10) Nat.repr ∧ ((· * 10) ∘ fun n => (n + 9) / 10) 10004 ≠ 10004 :=
  ⟨decCodec_stream, by decide⟩

/-! ## Round 4 — no free hypotheses at the network level: linear networks, the regularisation list, azimuth, angle rhs -/

/-- **the points of the network model are `Normal`**: N and E of every point the linearisation reads are in the same
    state (`Model::update_parameters`), so the hypothesis `Normal P` of `C19_only_free` holds for `ptsOf net … ob` -/
theorem C19_ptsOf_normal {ι K : Type} [DecidableEq ι] [Scalar K] (net : Net ι K) (ind : Par ι → Nat) (ob : Obs ι) :
    Normal (ptsOf net ind ob) :=
  ptsOf_normal net ind ob

/-- **`hlin` derived** (was a hypothesis of `C19_one_step_network_reproduced`).  If every active observation of the
    network is a vector / observed-coordinates / height / height-difference record whose observed value was generated from
    the coordinates displaced by the unknowns `ξ` [mm] (`GeneratedObs`: every point moved by `R_point · (dn, de, du)_point`
    in ECEF, `(dn, de, du)_point` its own corrections in its own n-e-u frame — the frames of the two end points of a vector
    differ), then every project equation of the assembled network is satisfied exactly by `ξ`.
    Lifts `C19_vector_one_step` / `C19_xyz_one_step` / `C19_coeff_is_derivative_height` to `netEqsR`. -/
theorem C19_generated_network_is_linear {ι : Type} [DecidableEq ι] (net : Net ι ℝ) (nobs : List (NObs ι ℝ))
    (ξ : Fin (bookOf net nobs).idx.cols → ℝ)
    (hgen : ∀ no ∈ activeOf net nobs, GeneratedObs net (bookOf net nobs) (vecAt ξ) no.obs no.o) :
    ∀ p ∈ netEqsR net nobs, p.2 = @rowDot ℝ realScalar p.1 (vecAt ξ) :=
  netEqs_linear net nobs (vecAt ξ) (vecAt_zero ξ) hgen

/-- **one linearisation step reproduces a linear network — no hypothesis on the assembled equations.**
    Vector / xyz / height / height-difference network, observed values generated from the approximate coordinates
    displaced by `ξ` (`GeneratedObs`), positive definite weights, full column rank.  Then every least-squares solution
    — whichever algorithm, whichever regularisation set — is `x = ξ` with zero residuals and `Φ = 0`, and every point is
    reported with `dn de du` = its components of `ξ` and adjusted `X Y Z = X₀ + R·(dn, de, du)/1000`: the coordinates the
    observations were generated from (`X() = X₀` before the step). -/
theorem C19_one_step_linear_network_reproduced {ι : Type} [DecidableEq ι] (net : Net ι ℝ) (nobs : List (NObs ι ℝ))
    (ξ : Fin (bookOf net nobs).idx.cols → ℝ)
    (hgen : ∀ no ∈ activeOf net nobs, GeneratedObs net (bookOf net nobs) (vecAt ξ) no.obs no.o)
    (W : Matrix (Fin (netEqsR net nobs).length) (Fin (netEqsR net nobs).length) ℝ)
    (hpd : ∀ d, d ≠ 0 → 0 < d ⬝ᵥ W *ᵥ d) (S : Finset (Fin (bookOf net nobs).idx.cols))
    (hker : ∀ g, designOf (bookOf net nobs).idx.cols (netEqsR net nobs) *ᵥ g = 0 → g = 0)
    (x : Fin (bookOf net nobs).idx.cols → ℝ) (v : Fin (netEqsR net nobs).length → ℝ) (rtr : ℝ)
    (hsol : LS.IsLSSolution (designOf _ (netEqsR net nobs)) (rhsOf (netEqsR net nobs)) W S x v rtr) :
    x = ξ ∧ v = 0 ∧ rtr = 0 ∧
    ∀ (qxx : Nat → Nat → ℝ) (defect : Nat) (var : ℝ) (n : ι) (g : NPt ℝ), net.pts n = some g →
      ∃ out, reportR net (bookOf net nobs) ⟨vecAt x, defect, rtr, qxx⟩ var n = some out ∧
        out.ax = g.X0 + (neuDisp g.R (neuCorr net.points (bookOf net nobs) (vecAt ξ) n)).1 ∧
        out.ay = g.Y0 + (neuDisp g.R (neuCorr net.points (bookOf net nobs) (vecAt ξ) n)).2.1 ∧
        out.az = g.Z0 + (neuDisp g.R (neuCorr net.points (bookOf net nobs) (vecAt ξ) n)).2.2 := by
  obtain ⟨hx, hv, hr⟩ := C19_one_step_network_reproduced net nobs ξ (C19_generated_network_is_linear net nobs ξ hgen)
    W hpd S hker x v rtr hsol
  refine ⟨hx, hv, hr, fun qxx defect var n g hg => ?_⟩
  obtain ⟨out, ho, _, _, _, _, h4, h5, h6⟩ := reportR_eq net nobs ⟨vecAt x, defect, rtr, qxx⟩ var n g hg
  subst hx
  exact ⟨out, ho, h4, h5, h6⟩

/-- **a kernel vector of the design matrix moves both ends of every active vector alike**: `R_to·g_to = R_from·g_from`
    in ECEF (each end in its own frame) — the only freedom vector observations leave is a common translation -/
theorem C19_vector_kernel_is_translation {ι : Type} [DecidableEq ι] (net : Net ι ℝ) (nobs : List (NObs ι ℝ))
    (g : Fin (bookOf net nobs).idx.cols → ℝ)
    (hA : designOf (bookOf net nobs).idx.cols (netEqsR net nobs) *ᵥ g = 0) (f t : ι) (o : GObs ℝ)
    (hno : (⟨.vector f t, o⟩ : NObs ι ℝ) ∈ activeOf net nobs) :
    neuDisp (ptsOfR net (bookOf net nobs).idx.ind (.vector f t) .to).R
        (fun c => vecAt g ((bookOf net nobs).idx.index (isFreePar net.points) (t, c))) =
      neuDisp (ptsOfR net (bookOf net nobs).idx.ind (.vector f t) .frm).R
        (fun c => vecAt g ((bookOf net nobs).idx.index (isFreePar net.points) (f, c))) :=
  ker_vector_same_disp net nobs g hA f t o hno

/-- **`minx_spec`: what `Model::update_linearization` hands to `Adj::min_x`.**  The list holds exactly the column
    indices of the *constrained* parameters (n, e, u components in state `constr_`) that occur in an active observation
    (`update_index` gave them a column), each once, all of them columns `1 … dm_cols` — never a free, fixed or unused
    component.  (A list built from the free instead of the constrained components makes this false and the `xml` stream
    disagree.) -/
theorem C19_minx_spec {ι : Type} [DecidableEq ι] (net : Net ι ℝ) (nobs : List (NObs ι ℝ)) :
    (∀ k, k ∈ minx net.points (bookOf net nobs) ↔
      k ≠ 0 ∧ ∃ q, (parState net.points q).isConstr = true ∧
        (bookOf net nobs).idx.index (isFreePar net.points) q = k) ∧
    (minx net.points (bookOf net nobs)).Nodup ∧
    ∀ k ∈ minx net.points (bookOf net nobs), 1 ≤ k ∧ k ≤ (bookOf net nobs).idx.cols :=
  ⟨fun k => mem_minx_iff (final_inv net.points _).1 k, (minx_nodup_range (final_inv net.points _).1).1,
   (minx_nodup_range (final_inv net.points _).1).2⟩

/-- **a consistent network is reproduced, with the regularisation set gama-g3 itself hands over** (`regSet`: the
    columns of the constrained components on the `minx` list; all columns when there is no constrained parameter and no
    list is set).  `C19_consistent_network_reproduced` for `S := regSet`; the only hypotheses left are about the input:
    consistent observations, positive definite weights, and that the constrained components resolve the defect. -/
theorem C19_consistent_network_reproduced_minx {ι : Type} [DecidableEq ι] (net : Net ι ℝ) (nobs : List (NObs ι ℝ))
    (hcons : ∀ no ∈ activeOf net nobs, ConsistentAt (ptsOfR net (bookOf net nobs).idx.ind no.obs) no.obs no.o)
    (W : Matrix (Fin (netEqsR net nobs).length) (Fin (netEqsR net nobs).length) ℝ)
    (hpd : ∀ d, d ≠ 0 → 0 < d ⬝ᵥ W *ᵥ d)
    (hS : LS.Resolves (designOf (bookOf net nobs).idx.cols (netEqsR net nobs))
      (regSet (bookOf net nobs).idx.cols net.points (bookOf net nobs)))
    (x : Fin (bookOf net nobs).idx.cols → ℝ) (v : Fin (netEqsR net nobs).length → ℝ) (rtr : ℝ)
    (hsol : LS.IsLSSolution (designOf _ (netEqsR net nobs)) (rhsOf (netEqsR net nobs)) W
      (regSet (bookOf net nobs).idx.cols net.points (bookOf net nobs)) x v rtr) :
    x = 0 ∧ v = 0 ∧ rtr = 0 ∧
    ∀ (qxx : Nat → Nat → ℝ) (defect : Nat) (var : ℝ) (n : ι) (g : NPt ℝ), net.pts n = some g →
      ∃ out, reportR net (bookOf net nobs) ⟨vecAt x, defect, rtr, qxx⟩ var n = some out ∧
        out.dn = 0 ∧ out.de = 0 ∧ out.du = 0 ∧ out.ax = g.X0 ∧ out.ay = g.Y0 ∧ out.az = g.Z0 :=
  C19_consistent_network_reproduced net nobs hcons W hpd _ hS x v rtr hsol

/-- **non-vacuity on a concrete network** (`Gama/Lemmas/G3NetExample.lean`): point 0 fixed, point 1 free with the frame
    of (B, L) = (0, 0), point 2 constrained with the frame of (0, π/2) — two different local frames —, two vectors
    0 → 1, 0 → 2.  Six columns, six equations, `minx = [4, 5, 6]`, `regSet` = the three columns of point 2.  With the
    observed values generated from the points displaced by (1, 2, 3) mm resp. (4, 5, 6) mm in their own frames, unit weights:
    all hypotheses of `C19_one_step_linear_network_reproduced` hold together (`ex_generated`, `LS.one_pd`, `ex_ker`),
    a solution exists (`ex_solution`), and every solution is `x = (1, …, 6)`. -/
example (x : Fin (bookOf exNet (exObs exD₁ exD₂)).idx.cols → ℝ)
    (v : Fin (netEqsR exNet (exObs exD₁ exD₂)).length → ℝ) (rtr : ℝ)
    (hsol : LS.IsLSSolution (designOf _ (netEqsR exNet (exObs exD₁ exD₂))) (rhsOf (netEqsR exNet (exObs exD₁ exD₂))) 1
      (regSet (bookOf exNet (exObs exD₁ exD₂)).idx.cols exNet.points (bookOf exNet (exObs exD₁ exD₂))) x v rtr) :
    x = exXi _ ∧ v = 0 ∧ rtr = 0 :=
  let h := C19_one_step_linear_network_reproduced exNet (exObs exD₁ exD₂) (exXi _) ex_generated 1 LS.one_pd _
    (ex_ker _ _) x v rtr hsol
  ⟨h.1, h.2.1, h.2.2.1⟩

example : ∃ x v rtr,
    LS.IsLSSolution (designOf _ (netEqsR exNet (exObs exD₁ exD₂))) (rhsOf (netEqsR exNet (exObs exD₁ exD₂))) 1
      (regSet (bookOf exNet (exObs exD₁ exD₂)).idx.cols exNet.points (bookOf exNet (exObs exD₁ exD₂))) x v rtr ∧
    x ≠ 0 := by
  refine ⟨exXi _, 0, 0, ex_solution, fun h => ?_⟩
  have hc := (ex_book exD₁ exD₂).1
  have := congrFun h ⟨0, by rw [hc]; omega⟩
  simp [exXi] at this

/-- … and the same network observed at its approximate coordinates: `hcons`, `hpd`, `hS` of
    `C19_consistent_network_reproduced_minx` hold together (the empty network is not the only witness), with gama-g3's own
    regularisation set `{4, 5, 6}` -/
example (x : Fin (bookOf exNet (exObs exE₁ exE₂)).idx.cols → ℝ)
    (v : Fin (netEqsR exNet (exObs exE₁ exE₂)).length → ℝ) (rtr : ℝ)
    (hsol : LS.IsLSSolution (designOf _ (netEqsR exNet (exObs exE₁ exE₂))) (rhsOf (netEqsR exNet (exObs exE₁ exE₂))) 1
      (regSet (bookOf exNet (exObs exE₁ exE₂)).idx.cols exNet.points (bookOf exNet (exObs exE₁ exE₂))) x v rtr) :
    x = 0 ∧ v = 0 ∧ rtr = 0 :=
  let h := C19_consistent_network_reproduced_minx exNet (exObs exE₁ exE₂) ex_consistent 1 LS.one_pd
    (LS.resolves_of_ker_trivial (ex_ker _ _) _) x v rtr hsol
  ⟨h.1, h.2.1, h.2.2.1⟩

example (k : Fin (bookOf exNet (exObs exE₁ exE₂)).idx.cols) :
    (bookOf exNet (exObs exE₁ exE₂)).idx.cols = 6 ∧ minx exNet.points (bookOf exNet (exObs exE₁ exE₂)) = [4, 5, 6] ∧
    (k ∈ regSet (bookOf exNet (exObs exE₁ exE₂)).idx.cols exNet.points (bookOf exNet (exObs exE₁ exE₂)) ↔ 3 ≤ k.val) :=
  ⟨(ex_book _ _).1, (ex_book _ _).2.2.1, ex_regSet _ _ k⟩

/-- **azimuth observations are unreachable from the input** (finding G2, now a theorem on the regenerated parser
    tables `obsSites`: which class the end-tag handler registered for a record tag builds, `dimension()` of the class,
    the number of `g3->scale.push_back` on every accepting path of the handler).  `DataParser::g3_obs` accepts a
    cluster only if `Σ dimension() = g3->scale.size()`; every handler pushes at most `dimension()` entries and the one
    that builds an `Azimuth` pushes none — so in every cluster the parser accepts (any records, any paths through the
    handlers) no record builds an `Azimuth`: `Model::linearization(Azimuth*)` is never run by gama-g3.
    This is what licenses leaving the azimuth coefficients unspecified (`C19_only_free` gives their shape,
    `C19_consistent_fixed_point` their right-hand side, nothing says they are derivatives — and they are not:
    the code pushes `(cos a, −sin a, 0)` of the *observed value in gon read as radians*, without the distance).
    **If azimuth input is enabled** (a `scale.push_back` in `g3_obs_azimuth`) this theorem fails and the coefficients
    must be specified; they would have to be, with `az = atan2(l₂, l₁)` of the sight `l` in the station's frame and
    `d² = l₁² + l₂²`, in rad/mm (the right-hand side `obs·GON_TO_RAD − az` is in radians):
    station `(sin az / d, −cos az / d, 0) / 1000`, target `R_toᵀ R_from (−sin az / d, cos az / d, 0) / 1000`
    — the `Rcoef` / `−Rcoef` pattern of the angle row (`aRcoef`, `C19_coeff_is_derivative_angle`). -/
theorem C19_azimuth_unreachable (rs : List ClusterRec)
    (hv : Gama.Gen.G3ParserSites.obsSites.validRun rs = true)
    (hc : Gama.Gen.G3ParserSites.obsSites.scaleCheck rs = true) :
    ∀ r ∈ rs, Gama.Gen.G3ParserSites.obsSites.builds r.1 ≠ .azimuth :=
  starved_refused _ .azimuth (by decide) rs hv hc

/-- every record tag of `<obs>` runs the end-tag handler that builds the observation class of that tag (a handler
    registered under another tag — `t_zenith` → `g3_obs_azimuth` — makes this false), and no other class is starved:
    the clusters of the other seven kinds do pass the check -/
theorem C19_parser_builds_own_class :
    (∀ k, Gama.Gen.G3ParserSites.obsSites.builds k = k) ∧
    (∀ k, k ≠ .azimuth → ∀ c ∈ Gama.Gen.G3ParserSites.obsSites.scalePushes k,
      c = Gama.Gen.G3ParserSites.obsSites.dimension k) := by
  constructor
  · intro k; cases k <;> rfl
  · intro k hk c hc
    cases k <;> first | exact absurd rfl hk | (simp [Gama.Gen.G3ParserSites.obsSites, Gama.Gen.G3ParserSites.scalePushes] at hc; subst hc; rfl)

/-- non-vacuity: a distance and a vector pass the cluster check (4 = 4); an azimuth record alone is a valid run of its
    handler and is refused (1 ≠ 0) -/
example :
    Gama.Gen.G3ParserSites.obsSites.validRun [(.dist, 1), (.vector, 3)] = true ∧
    Gama.Gen.G3ParserSites.obsSites.scaleCheck [(.dist, 1), (.vector, 3)] = true ∧
    Gama.Gen.G3ParserSites.obsSites.validRun [(.azimuth, 0)] = true ∧
    Gama.Gen.G3ParserSites.obsSites.scaleCheck [(.azimuth, 0)] = false := by
  decide

/-- **the right-hand side of the angle row uses the SAME `θ` the coefficients differentiate.**
    `C19_coeff_is_derivative_angle` plus: the generated right-hand side is
    `(observed − arccos (cos (θr 0 − θl 0))) · Angular().scale()` — `GNU_gama::angle(VL, VR)` of the normals of the two
    vertical planes reduces to the difference of the two direction angles, folded into `[0, π]` by `acos` as coded —
    with the very `θl`, `θr` whose difference the row differentiates; `observed − (θr − θl)` whenever `θr − θl ∈ [0, π]`
    (outside, the input cannot express the angle: limitation G4).  Additional hypotheses: station without deflection of
    the vertical (`dB = dL = 0`), targets not raised (`left_dh = right_dh = 0`; any instrument height), zero
    corrections (`X() = X.init_value()`: the single step gama-g3 does).  A right-hand side formed with left and right
    interchanged, or with another vertical, breaks `angle_rhs` / this proof. -/
theorem C19_angle_rhs_same_theta (P : Pts ℝ) (o : GObs ℝ) (tol : ℝ) (ξf ξl ξr : E3 ℝ)
    (hB : (P .frm).dB = 0) (hL : (P .frm).dL = 0)
    (hX : ∀ r, (P r).X = (P r).X0 ∧ (P r).Y = (P r).Y0 ∧ (P r).Z = (P r).Z0)
    (hdl : o.leftDh = 0) (hdr : o.rightDh = 0)
    (hl : (aLocal P .left).e1 * (aLocal P .left).e1 + (aLocal P .left).e2 * (aLocal P .left).e2 ≠ 0)
    (hr : (aLocal P .right).e1 * (aLocal P .right).e1 + (aLocal P .right).e2 * (aLocal P .right).e2 ≠ 0) :
    ∃ cF cL cR : E3 ℝ,
      (@angle ℝ realTrig P o tol).rows =
        [[⟨[(.frm, .freeN)], [⟨.frm, .N, cF.e1⟩]⟩, ⟨[(.frm, .freeE)], [⟨.frm, .E, cF.e2⟩]⟩,
          ⟨[(.frm, .freeU)], [⟨.frm, .U, cF.e3⟩]⟩,
          ⟨[(.left, .freeN)], [⟨.left, .N, cL.e1⟩]⟩, ⟨[(.left, .freeE)], [⟨.left, .E, cL.e2⟩]⟩,
          ⟨[(.left, .freeU)], [⟨.left, .U, cL.e3⟩]⟩,
          ⟨[(.right, .freeN)], [⟨.right, .N, cR.e1⟩]⟩, ⟨[(.right, .freeE)], [⟨.right, .E, cR.e2⟩]⟩,
          ⟨[(.right, .freeU)], [⟨.right, .U, cR.e3⟩]⟩]] ∧
      ∃ θl θr : ℝ → ℝ,
        θl 0 = Gama.Lin.brg (aLocal P .left).e1 (aLocal P .left).e2 ∧
        θr 0 = Gama.Lin.brg (aLocal P .right).e1 (aLocal P .right).e2 ∧
        (∀ t, Gama.Lin.IsPolarAngle
          ((aLocal P .left).e1 + (relDisp (frameOf (P .frm)) (frameOf (P .left)) ξf ξl).e1 * t)
          ((aLocal P .left).e2 + (relDisp (frameOf (P .frm)) (frameOf (P .left)) ξf ξl).e2 * t) (θl t)) ∧
        (∀ t, Gama.Lin.IsPolarAngle
          ((aLocal P .right).e1 + (relDisp (frameOf (P .frm)) (frameOf (P .right)) ξf ξr).e1 * t)
          ((aLocal P .right).e2 + (relDisp (frameOf (P .frm)) (frameOf (P .right)) ξf ξr).e2 * t) (θr t)) ∧
        HasDerivAt (fun t => angPerLin * (θr t - θl t)) (angleRowDot cF cL cR ξf ξl ξr) 0 ∧
        (@angle ℝ realTrig P o tol).rhs = [(o.v1 - Real.arccos (Real.cos (θr 0 - θl 0))) * angScaleR] ∧
        (0 ≤ θr 0 - θl 0 → θr 0 - θl 0 ≤ Real.pi →
          (@angle ℝ realTrig P o tol).rhs = [(o.v1 - (θr 0 - θl 0)) * angScaleR]) :=
  angle_row_and_rhs P o tol ξf ξl ξr hB hL hX hdl hdr hl hr

/-- non-vacuity: the station / left 10 m north / right 10 m east configuration of the example above meets all
    hypotheses (no deflection, `X = X₀`, no target heights; instrument height 1.5 m) -/
example :
    let mk (x y z : ℝ) : GPt ℝ := ⟨x, y, z, x, y, z, 0, 0, 0, 0, 0, 0, frame 0 0, .free, .free, .free, 1, 2, 3⟩
    let P : Pts ℝ := fun r => if r = .left then mk 0 0 10 else if r = .right then mk 0 10 0 else mk 0 0 0
    let o : GObs ℝ := ⟨1, 0, 0, 3 / 2, 0, 0, 0⟩
    (P .frm).dB = 0 ∧ (P .frm).dL = 0 ∧ (∀ r, (P r).X = (P r).X0 ∧ (P r).Y = (P r).Y0 ∧ (P r).Z = (P r).Z0) ∧
    o.leftDh = 0 ∧ o.rightDh = 0 ∧
    (aLocal P .left).e1 * (aLocal P .left).e1 + (aLocal P .left).e2 * (aLocal P .left).e2 ≠ 0 ∧
    (aLocal P .right).e1 * (aLocal P .right).e1 + (aLocal P .right).e2 * (aLocal P .right).e2 ≠ 0 := by
  refine ⟨rfl, rfl, fun r => ?_, rfl, rfl, ?_, ?_⟩
  · cases r <;> exact ⟨rfl, rfl, rfl⟩
  · simp [aLocal, frameOf, E3.inverse, frame_eq]
  · simp [aLocal, frameOf, E3.inverse, frame_eq]

end Gama.Props.C19
