/-
  C14 — `C14_pe_solution_equals_deletion_partial` on an evaluated `projectEquations` output over ℝ (audit #4, remaining
  gap 2).  `Ex.netWobs` (`Lemmas/PeWitnessReal.lean`) HAS excluded items: a switched-off height difference INSIDE a
  correlated cluster and a cluster whose only observation is switched off.  `projectEquations netWobs = .ok (npO, uO)`;
  the theorem applied: the call on the input with those observations DELETED (any index fields) returns a system on which
  every algorithm gives literally the same `netSolve` result.
-/
import Gama.Lemmas.PeWitnessReal
import Gama.Props.C14
namespace Gama.Props.C14
open Gama Gama.Ls Gama.C06NZ Gama.C06NZ.Ex

section witness
attribute [local instance] sqrtFnOfSqrtField
attribute [local instance 2000] scalarOfField
attribute [local instance 3000] fieldTrig

/-- **`C14_pe_solution_equals_deletion_partial` applied** -/
theorem C14_pe_solution_equals_deletion_pe_witness (idx0 : Lin.IdxState) :
    PE.projectEquations netWobs = .ok (npO, uO) ∧
    ∃ np' u', PE.projectEquations { RevPE.delObs uO.net with idx := idx0 } = .ok (np', u') ∧
      (∀ alg : Ls.Alg, Ls.Net.netSolve alg np' = Ls.Net.netSolve alg npO) ∧
      u'.n = uO.n ∧ u'.list = uO.list ∧ u'.removed = [] ∧ u'.net.points = uO.net.points ∧
      u'.net.clusters = (RevPE.delObs uO.net).clusters ∧
      (∀ c ∈ u'.net.clusters, ∀ o ∈ c.obs, o.active = true) ∧
      np'.m = npO.m ∧ np'.n = npO.n ∧ np'.rows = npO.rows ∧ np'.rhs = npO.rhs ∧ np'.minx = npO.minx ∧
      Ls.Net.cofs np' = Ls.Net.cofs npO :=
  ⟨peO, C14_pe_solution_equals_deletion_partial netWobs npO uO peO idx0⟩

/-- the deletion is not the identity here: the input has 3 + 1 + 1 observations, the deleted input 2 + 0 + 1 -/
example : uO.net.clusters.map (·.obs.length) = [3, 1, 1] ∧
    (RevPE.delObs uO.net).clusters.map (·.obs.length) = [2, 0, 1] := ⟨rfl, rfl⟩

/-- … and the common answer exists (envelope, cholesky, gso answer on `npO`) -/
example (alg : Ls.Alg) (halg : alg ≠ .svd) : ∃ a, Ls.Net.netSolve alg npO = .ok a :=
  npG_answers [1] (Or.inl rfl) alg halg

end witness

end Gama.Props.C14
