/-
  C08 — Choice of datum in a free network changes only the datum.

  Every statement is about ANY two `IsLSSolution`s `(x, v, rtr)` for `S` and `(x', v', rtr')` for
  `S'` of the same weighted problem `(A, b, P)`, P symmetric positive definite — hence about the
  output of every solver model that is proved to return an `IsLSSolution` (Props/C01/*.lean), for
  every pair of regularisation subsets ("constrained coordinates") and every pair of algorithms.
  Nothing about S, S' is needed for the invariants (they hold for any two solutions of the normal
  equations); "resolves the defect" is what makes each `x_S` unique (`C08_datum_determines_x`).
  Proofs: Lemmas/LS (LS2, LS3, LS7, LS8, LS10).  Non-vacuity: Lemmas/LS/Example.lean
  (4×3, rank 2, weights diag(1,4,1,¼), S = {0,1}, S' = {2}, x ≠ x').

  Not covered (explored by the network-level oracle of tools/props/c08.py): "all distances and
  angles between adjusted points are the same" is the first-order reading of
  `C08_difference_in_kernel` + `C08_datum_kernel_2d` (the kernel of a distance network consists of
  infinitesimal rigid motions); after iteration to convergence it holds to printed precision.
-/
import Gama.Lemmas.LS
import Gama.Lemmas.LS.Example
import Gama.Lemmas.MinX
namespace Gama.Props.C08
open Gama Gama.LS Matrix Finset

set_option linter.unusedSectionVars false
set_option linter.unnecessarySeqFocus false

variable {𝕜 : Type*} [Field 𝕜] [LinearOrder 𝕜] [IsStrictOrderedRing 𝕜]
variable {m n : Type*} [Fintype m] [Fintype n]
variable {A : Matrix m n 𝕜} {b : m → 𝕜} {P : Matrix m m 𝕜} {S S' : Finset n}
variable {x x' : n → 𝕜} {v v' : m → 𝕜} {rtr rtr' : 𝕜}

/-- residuals do not depend on the datum -/
theorem C08_residuals_invariant (hpd : ∀ d, d ≠ 0 → 0 < d ⬝ᵥ P *ᵥ d)
    (h : IsLSSolution A b P S x v rtr) (h' : IsLSSolution A b P S' x' v' rtr') : v = v' :=
  h.residuals_eq h' hpd

/-- the sum of squares `vᵀ P v` does not depend on the datum -/
theorem C08_rtr_invariant (hpd : ∀ d, d ≠ 0 → 0 < d ⬝ᵥ P *ᵥ d)
    (h : IsLSSolution A b P S x v rtr) (h' : IsLSSolution A b P S' x' v' rtr') : rtr = rtr' :=
  h.rtr_eq_rtr h' hpd

/-- adjusted observations `A x` do not depend on the datum -/
theorem C08_adjusted_obs_invariant (hpd : ∀ d, d ≠ 0 → 0 < d ⬝ᵥ P *ᵥ d)
    (h : IsLSSolution A b P S x v rtr) (h' : IsLSSolution A b P S' x' v' rtr') :
    A *ᵥ x = A *ᵥ x' :=
  h.adjusted_obs_eq h' hpd

/-- the two solutions differ by a kernel vector of A (an infinitesimal datum transformation) -/
theorem C08_difference_in_kernel (hpd : ∀ d, d ≠ 0 → 0 < d ⬝ᵥ P *ᵥ d)
    (h : IsLSSolution A b P S x v rtr) (h' : IsLSSolution A b P S' x' v' rtr') :
    A *ᵥ (x - x') = 0 :=
  h.sub_mem_ker h' hpd

example : IsLSSolution Ex.A Ex.b Ex.P Ex.S Ex.x Ex.v (9 / 4)
    ∧ IsLSSolution Ex.A Ex.b Ex.P Ex.S' Ex.x' Ex.v (9 / 4)
    ∧ (∀ d, d ≠ 0 → 0 < d ⬝ᵥ Ex.P *ᵥ d) ∧ Ex.x ≠ Ex.x'
    ∧ Resolves Ex.A Ex.S ∧ Resolves Ex.A Ex.S' ∧ (∃ g, Ex.A *ᵥ g = 0 ∧ g ≠ 0) :=
  ⟨Ex.sol, Ex.sol', Ex.P_pd, Ex.x_ne_x', Ex.S_resolves, Ex.S'_resolves, Ex.g₀, Ex.g₀_ker⟩

/-- the corrections of the constrained coordinates have minimal sum of squares: among all
    solutions of the normal equations and among all minimisers of `vᵀPv` -/
theorem C08_min_norm (hP : Pᵀ = P) (hpd : ∀ d, d ≠ 0 → 0 < d ⬝ᵥ P *ᵥ d)
    (h : IsLSSolution A b P S x v rtr) :
    (∀ y, Aᵀ *ᵥ (P *ᵥ (A *ᵥ y - b)) = 0 → normS S x ≤ normS S y)
      ∧ (∀ y, (∀ z, Phi A b P y ≤ Phi A b P z) → normS S x ≤ normS S y)
      ∧ ∀ g, A *ᵥ g = 0 → normS S x ≤ normS S (x + g) :=
  ⟨h.min_norm hpd, h.min_norm_among_minimisers hP hpd,
   fun _ hg => h.min_norm hpd _ (normalEq_add_ker h.normalEq hg)⟩

/-- … and are orthogonal to the datum transformations (kernel vectors restricted to S); this is
    equivalent to the minimum property, so nothing stronger than the property is asserted -/
theorem C08_orthogonal_to_datum (hpd : ∀ d, d ≠ 0 → 0 < d ⬝ᵥ P *ᵥ d)
    (h : IsLSSolution A b P S x v rtr) :
    (∀ g, A *ᵥ g = 0 → ∑ i ∈ S, x i * g i = 0)
      ∧ ((∀ g, A *ᵥ g = 0 → ∑ i ∈ S, x i * g i = 0)
          ↔ ∀ y, Aᵀ *ᵥ (P *ᵥ (A *ᵥ y - b)) = 0 → normS S x ≤ normS S y) :=
  ⟨h.orth, (min_norm_iff_sorth hpd S h.normalEq).symm⟩

/-- a constraint set that resolves the defect determines x: two solutions for the SAME resolving
    S (two algorithms, two runs) coincide — the datum is all that S chooses -/
theorem C08_datum_determines_x (hpd : ∀ d, d ≠ 0 → 0 < d ⬝ᵥ P *ᵥ d)
    (hS : ∀ g, A *ᵥ g = 0 → (∀ i ∈ S, g i = 0) → g = 0)
    (h : IsLSSolution A b P S x v rtr) (h' : IsLSSolution A b P S x' v' rtr') : x = x' :=
  (h.unique h' hpd hS).1

/-- conversely every datum transformation of a solution is a solution of the normal equations
    with the same residuals: the invariants cannot distinguish the datum -/
theorem C08_kernel_shift_is_solution (h : IsLSSolution A b P S x v rtr) {g : n → 𝕜}
    (hg : A *ᵥ g = 0) :
    Aᵀ *ᵥ (P *ᵥ (A *ᵥ (x + g) - b)) = 0 ∧ A *ᵥ (x + g) - b = v := by
  refine ⟨normalEq_add_ker h.normalEq hg, ?_⟩
  rw [mulVec_add, hg, add_zero, h.res]

/-- cofactors of the adjusted observations `A Q Aᵀ` are the same for ALL generalised inverses
    `Q`, `Q'` of `N = Aᵀ P A` (no reflexivity, symmetry or relation to S needed): in particular
    for the cofactor matrices `Q_S`, `Q_S'` belonging to two datum choices or two algorithms;
    hence equal standard deviations of adjusted observations (diagonal) -/
theorem C08_qbb_invariant (hP : Pᵀ = P) (hpd : ∀ d, d ≠ 0 → 0 < d ⬝ᵥ P *ᵥ d)
    {Q Q' : Matrix n n 𝕜}
    (hQ : (Aᵀ * P * A) * Q * (Aᵀ * P * A) = Aᵀ * P * A)
    (hQ' : (Aᵀ * P * A) * Q' * (Aᵀ * P * A) = Aᵀ * P * A) :
    A * Q * Aᵀ = A * Q' * Aᵀ ∧ ∀ i, (A * Q * Aᵀ) i i = (A * Q' * Aᵀ) i i := by
  have h := aqat_invariant hP hpd hQ hQ'
  exact ⟨h, fun i => by rw [h]⟩

example : (Ex.Aᵀ * Ex.P * Ex.A) * Ex.Q * (Ex.Aᵀ * Ex.P * Ex.A) = Ex.Aᵀ * Ex.P * Ex.A
    ∧ (Ex.Aᵀ * Ex.P * Ex.A) * Ex.Q' * (Ex.Aᵀ * Ex.P * Ex.A) = Ex.Aᵀ * Ex.P * Ex.A
    ∧ Ex.Q ≠ Ex.Q' ∧ Ex.Pᵀ = Ex.P := by
  rw [Ex.N_eq]; exact ⟨Ex.Q_ginv, Ex.Q'_ginv, Ex.Q_ne_Q', Ex.P_symm⟩

/-- the a posteriori variance factor and with it the covariances of the adjusted observations
    are datum independent: same `rtr`, same `dof`, same `A Q Aᵀ` -/
theorem C08_adjusted_obs_cov_invariant (hP : Pᵀ = P) (hpd : ∀ d, d ≠ 0 → 0 < d ⬝ᵥ P *ᵥ d)
    (h : IsLSSolution A b P S x v rtr) (h' : IsLSSolution A b P S' x' v' rtr')
    {Q Q' : Matrix n n 𝕜}
    (hQ : (Aᵀ * P * A) * Q * (Aᵀ * P * A) = Aᵀ * P * A)
    (hQ' : (Aᵀ * P * A) * Q' * (Aᵀ * P * A) = Aᵀ * P * A) (dof : 𝕜) :
    (rtr / dof) • (A * Q * Aᵀ) = (rtr' / dof) • (A * Q' * Aᵀ) := by
  rw [h.rtr_eq_rtr h' hpd, aqat_invariant hP hpd hQ hQ']

/-- degrees of freedom `m − n + defect`: the defect reported with either datum is `n − rank A`
    (C01 proves `defect + rank A = n` for each model), a quantity of A alone -/
theorem C08_dof_invariant {d d' : ℕ} (hd : d + A.rank = Fintype.card n)
    (hd' : d' + A.rank = Fintype.card n) :
    d = d' ∧ d = nullity A
      ∧ (Fintype.card m : ℤ) - Fintype.card n + d = Fintype.card m - A.rank
      ∧ (Fintype.card m : ℤ) - Fintype.card n + d = (Fintype.card m : ℤ) - Fintype.card n + d' := by
  have := rank_add_nullity A
  refine ⟨by omega, by omega, by omega, by omega⟩

example : ∃ d : ℕ, d + Ex.A.rank = Fintype.card (Fin 3) :=
  ⟨nullity Ex.A, by rw [add_comm]; exact rank_add_nullity Ex.A⟩

/-- (B) geometric reading for a 2D distance network: every design matrix whose rows have the shape
    the linearisation produces (`(-c,-s)` at `from`, `(c,s)` at `to`, `(c,s) ∥ (Δx,Δy)`) annihilates
    the two translations and the infinitesimal rotation about the approximate coordinates — so the
    kernel vector `x_S − x_S'` of `C08_difference_in_kernel` contains every infinitesimal rigid
    motion as a possible value, which is what leaves inter-point distances unchanged to first order -/
theorem C08_datum_kernel_2d {ι κ : Type*} [Fintype ι] [DecidableEq ι] [Fintype κ]
    (pts : ι → 𝕜 × 𝕜) (obs : κ → ι × ι) (cs : κ → 𝕜 × 𝕜)
    (hpar : ∀ k, (cs k).1 * ((pts (obs k).2).2 - (pts (obs k).1).2)
                = (cs k).2 * ((pts (obs k).2).1 - (pts (obs k).1).1)) :
    Datum2D.distDesign obs cs *ᵥ Datum2D.transX = 0
      ∧ Datum2D.distDesign obs cs *ᵥ Datum2D.transY = 0
      ∧ Datum2D.distDesign obs cs *ᵥ Datum2D.rot pts = 0
      ∧ ∀ a b ω : 𝕜, Datum2D.distDesign obs cs
            *ᵥ (a • Datum2D.transX + b • Datum2D.transY + ω • Datum2D.rot pts) = 0 :=
  ⟨Datum2D.transX_mem_ker obs cs, Datum2D.transY_mem_ker obs cs, Datum2D.rot_mem_ker pts obs cs hpar,
   Datum2D.rigid_mem_ker pts obs cs hpar⟩

example : ∃ (pts : Fin 3 → ℚ × ℚ) (obs : Fin 3 → Fin 3 × Fin 3) (cs : Fin 3 → ℚ × ℚ),
    (∀ k, (cs k).1 * ((pts (obs k).2).2 - (pts (obs k).1).2)
          = (cs k).2 * ((pts (obs k).2).1 - (pts (obs k).1).1)) ∧ (∀ k, cs k ≠ (0, 0)) :=
  ⟨![(0, 0), (3, 0), (0, 4)], ![(0, 1), (0, 2), (1, 2)], ![(1, 0), (0, 1), (-3/5, 4/5)],
   by intro k; fin_cases k <;> simp <;> norm_num, by intro k; fin_cases k <;> simp⟩

/-! ### the list of constrained coordinates handed to the solver (`LocalNetwork::project_equations`) -/

section MinX
open Gama.MinX

/-- **the regularisation list is the set of constrained coordinates of the CURRENT pass.**
    For every network state `st` (whatever indexes, `min_x_`, `min_n_` earlier calls left behind) and every
    history `steps` (between two calls the rest of the program changes point statuses and the world —
    outlying observations removed, points removed by `null_space` / the huge-covariance pass,
    re-linearisation — in any way):
    (1) every call of `project_equations()` completes within the fuel `#points + 1`;
    (2) what the calls hand over is what they would hand over on a FRESH network with the current
        statuses (no stale list: a function of the current pass only);
    (3) for each completed call, with `s` the numbering of its last inner call computed from scratch:
        the number of unknowns is `s.maxn`; the list has length `min_n_`; it contains exactly the non-zero
        indexes `s` gives to the constrained coordinates, in `PD` order (y, x, then z of each point);
        its entries are distinct and lie in `1..n` (what the solver theorems assume of `Reg.subset`);
        and it is what stays in `min_x_` / `min_n_`. -/
theorem C08_minx_is_constrained (st : St) (steps : List Step) :
    (∀ r ∈ run projectEquations st steps, r.isSome = true)
    ∧ run projectEquations st steps = runFresh st.pts steps
    ∧ ∀ (W : World) (fuel : Nat) (st0 : St) (rm : List String) (st2 : St) (o : Out),
        projectEquations W fuel st0 rm = some (st2, o) →
        let s := numbering st2.pts (W.rev st2.pts)
        o.unknowns = s.maxn ∧ o.minx.length = o.minn
          ∧ (∀ i, i ∈ o.minx ↔ ∃ u, consCoord st2.pts u = true ∧ s.idx u ≠ 0 ∧ s.idx u = i)
          ∧ o.minx = fillMin s.idx st2.pts
          ∧ (∀ i ∈ o.minx, 1 ≤ i ∧ i ≤ o.unknowns) ∧ o.minx.Nodup
          ∧ st2.minx = o.minx ∧ st2.minn = o.minn := by
  refine ⟨?_, run_eq_runFresh steps st, ?_⟩
  · rw [run_eq_runFresh]; exact runFresh_all_some steps st.pts
  · intro W fuel st0 rm st2 o h
    obtain ⟨h1, h2, _, h4, h5, h6, h7, h8, h9⟩ := pe_spec W fuel st0 rm st2 o h
    exact ⟨h1, h4, h7, h2, h5, h6, h8, h9⟩

/-- **another observation order permutes the list consistently.**  Two passes over the same statuses whose
    observation lists are permutations of each other (more generally: contain the same observations) have
    the same number `n` of unknowns, and there is a bijection `σ` of `1..n` (with `σ 0 = 0`) that maps the
    index of EVERY unknown in the first numbering to its index in the second, and the regularisation list
    of the first pass, entry by entry, to that of the second (same length) — so by LS5
    (`IsLSSolution.perm`: a permutation of the columns with `S` transported) both passes pose the same
    adjustment. -/
theorem C08_minx_perm_invariant (pts : List PtS) (obs obs' : List Obs) (idx0 idx0' : Unk → Nat)
    (h : obs'.Perm obs) :
    let s := number pts obs (reset pts idx0)
    let s' := number pts obs' (reset pts idx0')
    s'.maxn = s.maxn ∧ ∃ σ : Nat → Nat, σ 0 = 0
      ∧ (∀ i, 1 ≤ i → i ≤ s.maxn → 1 ≤ σ i ∧ σ i ≤ s.maxn)
      ∧ (∀ i j, 1 ≤ i → i ≤ s.maxn → 1 ≤ j → j ≤ s.maxn → σ i = σ j → i = j)
      ∧ (∀ u, live pts u = true → s'.idx u = σ (s.idx u))
      ∧ fillMin s'.idx pts = (fillMin s.idx pts).map σ
      ∧ countMin s'.idx pts = countMin s.idx pts :=
  renumber pts obs obs' idx0 idx0' fun _ => h.mem_iff



/-- non-vacuity: a two-call history in which the list changes while keeping its length -/
example : run projectEquations (St.fresh MinX.Ex.pts) MinX.Ex.steps
    = [some ⟨4, 4, [2, 1, 4, 3], []⟩, some ⟨4, 4, [4, 3, 2, 1], []⟩] := by decide

example : [MinX.Ex.dBC, MinX.Ex.dAC, MinX.Ex.dAB].Perm [MinX.Ex.dAB, MinX.Ex.dBC, MinX.Ex.dAC] := by decide

/-- **the theorem distinguishes the code from its stale variant**: "rebuild `min_x_` only when its length
    changed" (`projectEquationsStale`, NOT the code) hands the solver the list of the previous numbering —
    `C08_minx_is_constrained` (2) is false for it -/
theorem C08_minx_stale_is_wrong :
    ∃ (st : St) (steps : List Step), run projectEquationsStale st steps ≠ runFresh st.pts steps
      ∧ run projectEquationsStale st steps = [some ⟨4, 4, [2, 1, 4, 3], []⟩, some ⟨4, 4, [2, 1, 4, 3], []⟩] := by
  have h1 : run projectEquationsStale (St.fresh MinX.Ex.pts) MinX.Ex.steps
      = [some ⟨4, 4, [2, 1, 4, 3], []⟩, some ⟨4, 4, [2, 1, 4, 3], []⟩] := by decide
  have h2 : runFresh (St.fresh MinX.Ex.pts).pts MinX.Ex.steps
      = [some ⟨4, 4, [2, 1, 4, 3], []⟩, some ⟨4, 4, [4, 3, 2, 1], []⟩] := by decide
  refine ⟨St.fresh MinX.Ex.pts, MinX.Ex.steps, ?_, h1⟩
  rw [h1, h2]; decide

end MinX

end Gama.Props.C08
