/-
  C13, clause 10 "removed observations" — known finding F29 as a theorem-level characterisation (round 9).

  gama-local screens the absolute terms ONCE, at the given approximate coordinates (`remove_huge_abs_terms()`,
  src/gama-local.cpp l.595–598), adjusts (the coordinates move), and exports.  `export_xml` writes EVERY observation of
  `OD` — it never consults `obs->active()` — and the parser builds every observation active.  So the re-adjustment screens
  ALL observations again, at the EXPORTED coordinates (`Removed.rerun`).

  * `C13_export_forgets_removed`   — the re-import has the parsed observations back, whatever the stage removed.
  * `C13_F29_characterisation`     — the exported network is adjusted like the network of the first run (same active
    flags ⇒ same equations) IFF the test's verdict at the exported coordinates equals its verdict at the given ones for
    every observation, IFF no observation was removed that passes at the exported coordinates AND no observation was kept
    that fails there.
  * `C13_F29_more_equations`       — the finding's direction: an observation removed only because the given coordinates
    were poor comes back, the re-adjustment has more project equations (r0 64 / r1 65 on the reproducer).
  * `C13_F29_witness` (NEG)        — the corpus reproducer's observation 61 (`<vec from="P3" to="P4" dy=…>`), with the REAL
    test (C14's regenerated `TestAbsTermVisitor` / `test_abs_term` on C05's right-hand side) over ℚ and the coordinates of
    the input / of gama-local's own export: the test fires at the given coordinates (|absolute term| = 1348.6 mm > 1000)
    and not at the exported ones (3.9 mm) — the clause "adjusting the export gives the same adjustment" FAILS for this
    network; replayed on the real code (corpus/C13/f29-poor-approx-removed-obs.gkf, classify → F29).
  The test is a parameter `test pts o` of the general theorems (any function of `PD` and the observation; the real one
  reads the right-hand side of the pass at `pts`, itself a function of `pts` and `o`).
-/
import Gama.Lemmas.ExportRemoved
import Gama.Gen.GkfDoc
namespace Gama.Props.C13Removed
open Gama Gama.Rev Gama.Removed

variable {K : Type}

/-- the sites the model was written for are the ones the tree contains (regeneration tie, tools/gen/c13_doc.py): gama-local
    calls `IS->remove_huge_abs_terms()` exactly once, before `IS->refine_adjustment()`; `export_xml` comes after the loop and
    calls `active()` on nothing but `point` (every observation of `OD` is written); the parser never makes an observation
    passive.  A tree whose export skips passive observations, or that screens again after the loop, changes a constant -/
theorem C13_removed_sites :
    Gen.GkfDoc.absStageOnceBeforeLoop = true ∧ Gen.GkfDoc.exportAfterLoop = true ∧
    Gen.GkfDoc.exportConsultsObsActive = false ∧ Gen.GkfDoc.parserSetsPassive = false := by decide

/-- the export forgets which observations the abs-term stage removed: the re-import has all of them, active -/
theorem C13_export_forgets_removed (test : List (Pt K) → Obs K → Bool) (pts : List (Pt K)) (obs : List (Obs K))
    (hall : ∀ o ∈ obs, o.active = true) : exported (removeHuge test pts obs) = obs :=
  exported_removeHuge test pts obs hall

/-- **F29, characterised**: for parsed observations `obs` (all active), given coordinates `pts`, exported coordinates
    `pts'`: the abs-term stage of the run on the export leaves the observations exactly as the first run had them
    ⇔ the test gives every observation the same verdict at `pts'` as at `pts`
    ⇔ no removed observation passes at the exported coordinates and no kept observation fails there -/
theorem C13_F29_characterisation (test : List (Pt K) → Obs K → Bool) (pts pts' : List (Pt K)) (obs : List (Obs K))
    (hall : ∀ o ∈ obs, o.active = true) :
    (rerun test pts' (removeHuge test pts obs) = removeHuge test pts obs ↔ ∀ o ∈ obs, test pts' o = test pts o) ∧
    ((∀ o ∈ obs, test pts' o = test pts o) ↔
      (¬ ∃ o ∈ obs, test pts o = true ∧ test pts' o = false) ∧ (¬ ∃ o ∈ obs, test pts o = false ∧ test pts' o = true)) :=
  ⟨rerun_eq_iff test pts pts' obs hall, verdicts_iff test pts pts' obs⟩

/-- **F29's direction**: an observation removed at the given coordinates passes at the exported ones (and no kept one
    fails there) ⇒ the re-adjustment of the export has strictly more project equations than the exported adjustment -/
theorem C13_F29_more_equations (test : List (Pt K) → Obs K → Bool) (pts pts' : List (Pt K)) (obs : List (Obs K))
    (hall : ∀ o ∈ obs, o.active = true)
    (hback : ∃ o ∈ obs, test pts o = true ∧ test pts' o = false)
    (hnone : ∀ o ∈ obs, test pts o = false → test pts' o = false) :
    nActive (removeHuge test pts obs) < nActive (rerun test pts' (removeHuge test pts obs)) :=
  rerun_more_equations test pts pts' obs hall hback hnone

/-- **NEG witness = the corpus reproducer** (real test, ℚ): observation 61 of f29-poor-approx-removed-obs.gkf is removed at
    the given coordinates, passes at the coordinates gama-local exported, the first run has 0 and the re-run 1 equation of
    it, and the two networks differ -/
theorem C13_F29_witness :
    ydiffTest 1000 wGiven wObs = true ∧ ydiffTest 1000 wExported wObs = false ∧
    ydiffRhs wGiven wObs = -13486029619 / 10000000 ∧
    nActive (removeHuge (ydiffTest 1000) wGiven [wObs]) = 0 ∧
    nActive (rerun (ydiffTest 1000) wExported (removeHuge (ydiffTest 1000) wGiven [wObs])) = 1 ∧
    rerun (ydiffTest 1000) wExported (removeHuge (ydiffTest 1000) wGiven [wObs]) ≠ removeHuge (ydiffTest 1000) wGiven [wObs] := by
  have h1 : ydiffTest 1000 wGiven wObs = true := by decide +kernel
  have h2 : ydiffTest 1000 wExported wObs = false := by decide +kernel
  refine ⟨h1, h2, by decide +kernel, by decide +kernel, by decide +kernel, ?_⟩
  intro h
  have := (rerun_eq_iff (ydiffTest 1000) wGiven wExported [wObs] (by intro o ho; rw [List.mem_singleton.1 ho]; rfl)).1 h
    wObs (List.mem_singleton.2 rfl)
  rw [h1, h2] at this
  cases this

/-! ### non-vacuity -/

/-- the hypotheses of `C13_F29_more_equations` hold on the reproducer's observation -/
example : (∀ o ∈ [wObs], o.active = true) ∧ (∃ o ∈ [wObs], ydiffTest 1000 wGiven o = true ∧ ydiffTest 1000 wExported o = false) ∧
    (∀ o ∈ [wObs], ydiffTest 1000 wGiven o = false → ydiffTest 1000 wExported o = false) := by
  have h1 : ydiffTest 1000 wGiven wObs = true := by decide +kernel
  have h2 : ydiffTest 1000 wExported wObs = false := by decide +kernel
  refine ⟨fun o ho => by rw [List.mem_singleton.1 ho]; rfl, ⟨wObs, List.mem_singleton.2 rfl, h1, h2⟩, ?_⟩
  intro o ho h
  rw [List.mem_singleton.1 ho, h1] at h
  cases h

/-- … and the equality side of the characterisation is inhabited too: at unchanged coordinates the re-run reproduces the
    first run (the observation stays removed) -/
example : rerun (ydiffTest 1000) wGiven (removeHuge (ydiffTest 1000) wGiven [wObs]) = removeHuge (ydiffTest 1000) wGiven [wObs] :=
  (rerun_eq_iff (ydiffTest 1000) wGiven wGiven [wObs] (by intro o ho; rw [List.mem_singleton.1 ho]; rfl)).2 (fun _ _ => rfl)

end Gama.Props.C13Removed
