/-
  C18, clause 3 — the angle STRING / sexagesimal functions (gon2deg.cpp, latlong.cpp) as regenerated definitions,
  with round-trip theorems on strings.

  Property theorems only; lemmas live in Gama/Lemmas/GeoLatLongString.lean (strings), GeoAnglesGenTie.lean (source
  tie), GeoRoundTrip.lean / GeoDms.lean (round 3).  `Gen/AnglesFns.lean` is rewritten from the C++ on every run
  (tools/gen/c18_angles.py).

  `rad2deg_str` and `latlong` use the constant `M_PI`; strings need exact arithmetic.  In the C++ `M_PI` IS a
  rational number (a double): the theorems hold for EVERY rational value `p` of the constant (`transcOfPi p`),
  positive where the sign matters.
-/
import Gama.Lemmas.GeoLatLongString
import Gama.Lemmas.GeoDms
namespace Gama.Props.C18Strings
open Gama Gama.Angles Real

/-- SOURCE TIE: for every scalar type, each hand-model function of gon2deg.cpp / latlong.cpp equals the definition
    regenerated from the C++ (numeric code statement by statement; `while` loops and iostream tails pinned) -/
theorem C18_angles_source_tie {K : Type} [Scalar K] [Trunc K] [Exact K] [Transc K] :
    (∀ (fuel : ℕ) (x : K), rad2dms fuel x = Gen.Ang.rad2dms fuel x) ∧
    (∀ (fuel : ℕ) (x : K), dms2rad fuel x = Gen.Ang.dms2rad fuel x) ∧
    (∀ (g : K) (sign : ℤ) (prec : ℕ), gon2deg g sign prec = Gen.Ang.gon2deg g sign prec) ∧
    (∀ (g : K) (sign : ℤ) (prec : ℕ), gon2deg g sign prec = Gen.Ang.gon2deg_str g sign prec) ∧
    (∀ (r : K) (sign : ℤ) (prec : ℕ), rad2degStr r sign prec = Gen.Ang.rad2deg_str r sign prec) ∧
    (∀ (r : K) (prec : ℕ), latlong r prec = Gen.Ang.latlong r prec) ∧
    (∀ (r : K) (prec : ℕ), latlong r prec = Gen.Ang.latitude r prec) ∧
    (∀ (r : K) (prec : ℕ), latlong r prec = Gen.Ang.longitude r prec) ∧
    Gen.Ang.radToDegMacro = "180.0/M_PI" :=
  ⟨rad2dms_eq_gen, dms2rad_eq_gen, gon2deg_eq_gen, gon2degStr_eq_gen, rad2degStr_eq_gen, latlong_eq_gen,
   latitude_eq_gen, longitude_eq_gen, radToDeg_eq_gen⟩

/-- `deg2gon (rad2deg_str rad sign prec)` on STRINGS, for every rational value `p` of `M_PI`: the text is accepted and
    reads back within half a unit of the printed precision of `rad/p·200` gon — signed when a sign is printed
    (`sign` 1, 2, 3), of the absolute value otherwise.  `|rad/p·200|·0.9 < 2³¹−1`: beyond, `int(gon)` is undefined. -/
theorem C18_rad2degStr_roundtrip (p : ℚ) (_hp : 0 < p) (rad : ℚ) (sign : ℤ) (prec : ℕ)
    (h : |rad / p * 200| * (9 / 10) < 2147483647) :
    letI := transcOfPi p
    ∃ (str : String) (v : ℚ), rad2degStr rad sign prec = some str ∧ (deg2gon str : Option ℚ) = some v ∧
      |v - (if sign = 1 ∨ sign = 2 ∨ sign = 3 then rad / p * 200 else |rad / p * 200|)|
        ≤ (1 / 2) / (10 : ℚ) ^ prec / 3600 / (9 / 10) :=
  rad2degStr_roundtrip p rad sign prec h

/-- the same for the function regenerated from the C++ -/
theorem C18_rad2degStr_roundtrip_source (p : ℚ) (_hp : 0 < p) (rad : ℚ) (sign : ℤ) (prec : ℕ)
    (h : |rad / p * 200| * (9 / 10) < 2147483647) :
    letI := transcOfPi p
    ∃ (str : String) (v : ℚ), Gen.Ang.rad2deg_str rad sign prec = some str ∧ (deg2gon str : Option ℚ) = some v ∧
      |v - (if sign = 1 ∨ sign = 2 ∨ sign = 3 then rad / p * 200 else |rad / p * 200|)|
        ≤ (1 / 2) / (10 : ℚ) ^ prec / 3600 / (9 / 10) := by
  have e := @rad2degStr_eq_gen ℚ _ _ _ (transcOfPi p) rad sign prec
  rw [← e]
  exact rad2degStr_roundtrip p rad sign prec h

/-- `deg2gon (latlong rad prec)` on STRINGS, for every positive rational value `p` of `M_PI`: the text `latitude` /
    `longitude` write is accepted by `deg2gon` (the only reader of `d-m-s` texts) and reads back, in degrees (`v·0.9`),
    within half a unit of the printed precision (arc seconds) of `rad·(180/p)` — SIGNED (latlong always writes the
    sign).  Domain: the degrees fit `int`; a NEGATIVE angle stays below 1000° − 0.5″ (`ostr.width(4)`: with four
    digits of degrees, also after the carry, there is no blank left and `s[0] = '-'` overwrites the first digit —
    `C18_latlong_overwrites_digit`). -/
theorem C18_latlong_roundtrip (p : ℚ) (hp : 0 < p) (rad : ℚ) (prec : ℕ)
    (hint : |rad| * (180 / p) < 2147483647) (hneg : rad < 0 → |rad| * (180 / p) < 1000 - 1 / 7200) :
    letI := transcOfPi p
    ∃ (str : String) (v : ℚ), latlong rad prec = some str ∧ (deg2gon str : Option ℚ) = some v ∧
      |v * (9 / 10) - rad * (180 / p)| ≤ (1 / 2) / (10 : ℚ) ^ prec / 3600 :=
  latlong_roundtrip p hp rad prec hint hneg

/-- the same for the function regenerated from the C++ (`latitude` and `longitude` are this function) -/
theorem C18_latlong_roundtrip_source (p : ℚ) (hp : 0 < p) (rad : ℚ) (prec : ℕ)
    (hint : |rad| * (180 / p) < 2147483647) (hneg : rad < 0 → |rad| * (180 / p) < 1000 - 1 / 7200) :
    letI := transcOfPi p
    ∃ (str : String) (v : ℚ), Gen.Ang.latlong rad prec = some str ∧ Gen.Ang.latitude rad prec = some str ∧
      Gen.Ang.longitude rad prec = some str ∧ (deg2gon str : Option ℚ) = some v ∧
      |v * (9 / 10) - rad * (180 / p)| ≤ (1 / 2) / (10 : ℚ) ^ prec / 3600 := by
  obtain ⟨str, v, h1, h2, h3⟩ := latlong_roundtrip p hp rad prec hint hneg
  have e := @latlong_eq_gen ℚ _ _ _ (transcOfPi p) rad prec
  have h1' : @Gen.Ang.latlong ℚ _ _ _ (transcOfPi p) rad prec = some str := e ▸ h1
  exact ⟨str, v, h1', h1', h1', h2, h3⟩

/-- the layout of what `latlong` writes: blanks, `-` directly in front of the digits of a negative angle, degrees,
    `-`, two digits of minutes, `-`, the seconds field — provided a negative angle has at most three digits of degrees -/
theorem C18_latlong_layout (p : Printed) (hd : 0 ≤ p.d) (hn : 0 ≤ p.n) (hz : p.secNegZero = false)
    (hdom : p.neg = true → p.d ≤ 999) :
    ∃ sp1 : List Char, (∀ c ∈ sp1, Grammar.isSpace c = true) ∧
      p.renderLatLong.toList =
        sp1 ++ (if p.neg = true then ['-'] else []) ++ [] ++ natL p.d.toNat ++
          '-' :: (padLeft '0' 2 (toString p.m)).toList ++
          '-' :: (padLeft '0' (3 + p.prec) (renderScaled p.n.toNat p.prec)).toList :=
  renderLatLong_layout p hd hn hz hdom

/-- NEGATIVE result beyond the domain (M_PI := 1): −1000° is written `-000-00-00.0` (the sign overwrote the `1` of
    `1000-00-00.0`) and reads back as 0; −999°59′59.99″ at one decimal carries to `1000-00-00.0` and suffers the same -/
theorem C18_latlong_overwrites_digit :
    letI := transcOfPi 1
    latlong (-50 / 9 : ℚ) 1 = some "-000-00-00.0" ∧ latlong (50 / 9 : ℚ) 1 = some "1000-00-00.0" ∧
    (deg2gon "-000-00-00.0" : Option ℚ) = some 0 ∧
    latlong (-359999999 / 64800000 : ℚ) 1 = some "-000-00-00.0" ∧
    latlong (-359999999 / 64800000 : ℚ) 2 = some "-999-59-59.99" :=
  ⟨latlong_overwrites_digit.1, latlong_overwrites_digit.2.1, latlong_overwrites_digit.2.2,
   latlong_carry_overwrites_digit.1, latlong_carry_overwrites_digit.2⟩

/-- `dms2rad` / `rad2dms` REGENERATED from the C++, over ℝ, on valid fields d < 360, m < 60, 0 ≤ s < 60: the
    `ddd.mmss` value denotes d + m/60 + s/3600 degrees and the two functions are mutually inverse (any loop fuel) -/
theorem C18_dms2rad_rad2dms_source (fuel : ℕ) {d m : ℕ} {s : ℝ} (hd : d < 360) (hm : m < 60) (hs0 : 0 ≤ s) (hs : s < 60) :
    Gen.Ang.dms2rad fuel (dmsOf d m s) = degOf d m s / 180 * π ∧
    Gen.Ang.rad2dms fuel (Gen.Ang.dms2rad fuel (dmsOf d m s)) = dmsOf d m s ∧
    Gen.Ang.dms2rad fuel (Gen.Ang.rad2dms fuel (degOf d m s / 180 * π)) = degOf d m s / 180 * π := by
  have h1 := dms2rad_fields fuel hd hm hs0 hs
  have h2 := rad2dms_fields fuel hd hm hs0 hs
  simp only [← dms2rad_eq_gen, ← rad2dms_eq_gen]
  exact ⟨h1, by rw [h1, h2], by rw [h2, h1]⟩

-- non-vacuity / digit-level samples (tests, not theorems); M_PI := 355/113
example : (0 : ℚ) < 355 / 113 ∧ |(-1 : ℚ) / (355 / 113) * 200| * (9 / 10) < 2147483647 := by
  rw [abs_of_neg (by norm_num)]; norm_num
example : (letI := transcOfPi (355 / 113); rad2degStr (-1 : ℚ) 2 2) = some " -57-17-44.79" := by decide +kernel
example : (letI := transcOfPi (355 / 113); Gen.Ang.rad2deg_str (-1 : ℚ) 2 2) = some " -57-17-44.79" := by decide +kernel
example : (letI := transcOfPi (355 / 113); rad2degStr (1 : ℚ) 0 0) = some " 57-17-045" := by decide +kernel
example : (deg2gon " -57-17-44.79" : Option ℚ) = some (-20626479 / 324000) := by decide +kernel
example : |(-1 : ℚ)| * (180 / (355 / 113)) < 2147483647 ∧ ((-1 : ℚ) < 0 → |(-1 : ℚ)| * (180 / (355 / 113)) < 1000 - 1 / 7200) := by
  rw [abs_of_neg (by norm_num)]; norm_num
example : (letI := transcOfPi (355 / 113); latlong (-1 : ℚ) 2) = some " -57-17-44.79" := by decide +kernel
example : (letI := transcOfPi (355 / 113); Gen.Ang.latitude (-1 : ℚ) 2) = some " -57-17-44.79" := by decide +kernel
example : (letI := transcOfPi (355 / 113); latlong (1 / 1000 : ℚ) 3) = some "   0-03-26.265" := by decide +kernel
example : (letI := transcOfPi (355 / 113); latlong (-3 : ℚ) 0) = some "-171-53-014" := by decide +kernel
example : (letI := transcOfPi (355 / 113); Gen.Ang.longitude (-3 : ℚ) 0) = some "-171-53-014" := by decide +kernel
example : (deg2gon "-171-53-014" : Option ℚ).isSome = true := by decide +kernel
-- a Printed in the layout theorem's domain, negative with three digits
example : ({ neg := true, d := 171, m := 53, n := 14, prec := 0 } : Printed).renderLatLong = "-171-53-014" := by decide +kernel
example : (3 : ℕ) < 360 ∧ (59 : ℕ) < 60 ∧ (0 : ℝ) ≤ 59.5 ∧ (59.5 : ℝ) < 60 := by norm_num

end Gama.Props.C18Strings
