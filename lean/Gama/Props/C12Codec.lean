/-
  C12, rows 2b / 2c for the REAL number formats.  `Props/C12.lean` proves the record round trips for an abstract number
  law `rd (fmt x) = some (q x)` (witnessed there by the toy `decCodec` on ℕ); here the law is PROVED for what
  `LocalNetworkXML` does — `out.setf(ios_base::fixed | scientific, floatfield); out.precision(p); out << x` —
  modelled over ℚ by `Model/DecimalCodec.lean` and tied to libstdc++ by the `codec` stream.

  Per-site precision.  The `…_real` theorems take the format `f : Fmt` (floatfield + precision) as a PARAMETER: they
  hold for every format.  Round 8 (gap #7 of audit #3): the format IN FORCE at every numeric operand of the writer is
  REGENERATED (`Gen/XmlFmtSites.lean`, tools/gen/c12_skeleton.py: the `setf` / `precision` / `flags` statements and
  `<<` manipulators executed before the output statement, on the stream the operand goes to, through calls, branches
  and loops) and the `…_sites` theorems below are the round trips with THOSE formats, one per leaf:
  `C12_number_sites_formats` (`decide` on the table of the tree being checked: every site has the format the result
  file promises and one of the formats the law is instantiated for), `C12_site_number_law`,
  `C12_section_roundtrip_sites`, `C12_orientation_roundtrip_sites`, `C12_observation_roundtrip_sites` (`<obs>`, `<adj>`,
  `<stdev>` with 16, the control quantities with 3 decimals), `C12_band_roundtrip_text` (the `<flt>` texts of the
  covariance band, `%.7e`: the reader reconstructs the band of `roundSig 8 ∘ Q`).
  Over ℚ; IEEE doubles (the decimal → double rounding of the reader, −0.0, inf / nan) stay out of scope.
-/
import Gama.Lemmas.DecimalCodecC12
import Gama.Lemmas.XmlFmtSpec
namespace Gama.Props.C12Codec
open Gama.XmlRec Gama.ReaderPoint Gama.Dec Gama.Gen.XmlFmtSites Gama.CovBand

/-- the number law of the record round trips holds for every real format: what the reader gets is `f.q m x`
    (`roundTo m p x` for `fixed p`, `roundSig m (p+1) x` for `scientific p`) — every `x`, no side condition -/
theorem C12_real_number_law (m : RMode) (f : Fmt) (x : ℚ) :
    (realNum m f).rd ((realNum m f).fmt x) = some (f.q m x) :=
  realNum_law m f x

/-- the size of the quantisation, fixed notation: half a unit of the last printed decimal; the value read back is
    re-printed as itself; the sign is symmetric; and — what the abstract law of C13 excludes — a non-zero number DOES print
    as zero exactly when `|x| < ½·10⁻ᵖ` (or `= ½·10⁻ᵖ` under round-half-even) -/
theorem C12_fixed_quantisation (m : RMode) (p : Nat) (x : ℚ) :
    |roundTo m p x - x| ≤ 1 / 2 / (10 : ℚ) ^ p ∧ roundTo m p (roundTo m p x) = roundTo m p x ∧
    roundTo m p (-x) = -roundTo m p x ∧
    (roundTo m p x = 0 ↔ |x| < 1 / 2 / (10 : ℚ) ^ p ∨ (|x| = 1 / 2 / (10 : ℚ) ^ p ∧ m = .halfEven)) :=
  ⟨roundTo_err m p x, roundTo_idem m m p x, roundTo_neg m p x, roundTo_eq_zero_iff m p x⟩

/-- printing what was read gives the same text (`fmt (q x) = fmt x`) unless `x` is a negative number that rounds to
    zero; then — and only then — the texts differ by the sign: `-0.00…0` against `0.00…0` (ℚ has no negative zero;
    a `double` reader gets `-0.0` and re-prints `-0.00…0`) -/
theorem C12_fixed_projection (m : RMode) (p : Nat) (x : ℚ) :
    (¬ (x < 0 ∧ roundTo m p x = 0) → fmtFixed m p (roundTo m p x) = fmtFixed m p x) ∧
    (x < 0 → roundTo m p x = 0 → fmtFixedL m p x = '-' :: fmtFixedL m p (roundTo m p x)) := by
  constructor
  · intro h
    apply fmtFixed_roundTo
    intro ⟨h1, h2⟩
    apply h
    refine ⟨h1, ?_⟩
    rw [fixD_val, h2]; simp [signed]
  · intro h1 h2
    have hs : scaled m p x = 0 := by
      by_contra hs
      have := (fixD_roundTo_iff m p x).mpr (fun h => hs h.2)
      have hneg := congrArg Numeral.neg this
      rw [fixD_roundTo] at hneg
      simp only [fixD, (isNeg_iff x).mpr h1, hs, ne_eq, not_false_eq_true, decide_true, Bool.and_self] at hneg
      have hn : isNeg (roundTo m p x) = true := by rw [isNeg_roundTo]; simp [(isNeg_iff x).mpr h1, hs]
      rw [h2] at hn
      exact absurd hn (by decide)
    obtain ⟨_, h3, h4⟩ := fmtFixed_roundTo_neg_zero m p x h1 hs
    rw [h3, h4]

/-- row 2b for the real printer: one `<point>` -/
theorem C12_point_roundtrip_real (m : RMode) (f : Fmt) (zero : ℚ) (st : PState ℚ) (s : Sect) (fr : Frame ℚ) (p : LPoint ℚ)
    (hid : Trimmed p.id) (ha : st.adjusted = (s == .adjusted)) :
    ∃ r, readPoint (realNum m f) zero st (writePoint (realNum m f) s fr p) = .ok r ∧
      r.tmp = expectPoint (f.q m) zero s fr st.k p ∧ r.k = nextK s st.k p ∧
      r.out = st.out ++ [expectPoint (f.q m) zero s fr st.k p] ∧ r.adjusted = st.adjusted :=
  readPoint_writePoint (realNum m f) (f.q m) (realNum_law m f) zero st s fr p hid ha

/-- a whole section, any number of points in any mix and order -/
theorem C12_section_roundtrip_real (m : RMode) (f : Fmt) (zero : ℚ) (s : Sect) (fr : Frame ℚ) (pts : List (LPoint ℚ))
    (hid : ∀ p ∈ pts, Trimmed p.id) (st : PState ℚ) (ha : st.adjusted = (s == .adjusted)) :
    ∃ r, readPoints (realNum m f) zero st (writeSection (realNum m f) s fr pts) = .ok r ∧
      r.out = st.out ++ (expectSection (f.q m) zero s fr st.k pts).1 ∧ r.k = (expectSection (f.q m) zero s fr st.k pts).2 ∧
      r.adjusted = st.adjusted :=
  readPoints_writeSection (realNum m f) (f.q m) (realNum_law m f) zero s fr pts hid st ha

/-- `<orientation>` records -/
theorem C12_orientation_roundtrip_real (m : RMode) (f : Fmt) (fr : Frame ℚ) (os : List (LOri ℚ))
    (hid : ∀ o ∈ os, Trimmed o.id) (st : OState ℚ) :
    ∃ r, readOris (realNum m f) st (os.map (writeOri (realNum m f) fr)) = .ok r ∧ r.k = st.k + os.length ∧
      r.out = st.out ++ expectOris (f.q m) fr st.k os :=
  readOris_writeOris (realNum m f) (f.q m) (realNum_law m f) fr os hid st

/-- an observation element of any of the 13 kinds -/
theorem C12_observation_roundtrip_real (m : RMode) (f : Fmt) (zero : ℚ) (fr : Frame ℚ) (o : LObs ℚ)
    (hfrom : Trimmed o.from_) (hto : Trimmed o.to) (hbs : Trimmed o.bs) (hfs : Trimmed o.fs) :
    readObs (realNum m f) zero o.kind.tag (writeObs (realNum m f) fr o) = .ok (expectObs (realNum m f) (f.q m) zero fr o) :=
  readObs_writeObs (realNum m f) (f.q m) (realNum_law m f) zero fr o hfrom hto hbs hfs

/-! ## the formats of the sites (round 8) -/

/-- **every number site of the writer uses the format the result file promises, and one for which the number law is
    instantiated** — `decide` on the REGENERATED table of the tree being checked: a changed `precision(…)`,
    `setf(…, floatfield)`, `make_check_precision`, a manipulator moved after the output statement, an `int` site that
    becomes a `double` with no determined format: all change `Gen.XmlFmtSites.sites` and make this fail.  The table is
    not empty and has the covariance, coordinate and observation sites. -/
theorem C12_number_sites_formats :
    (∀ s ∈ sites, s.fmt = specFmt s ∧ s.fmt.instantiated = true) ∧
    siteFmt "coordinates/cov-mat" "flt" = some (.sci 7) ∧
    (∀ n ∈ ["x", "y", "z", "X", "Y", "Z"], siteFmt "coordinates/adjusted/point" n = some (.fixed 16) ∧
      siteFmt "coordinates/approximate/point" n = some (.fixed 6)) ∧
    (∀ n ∈ ["x", "y", "z"], siteFmt "coordinates/fixed/point" n = some (.fixed 6)) ∧
    (∀ n ∈ ["approx", "adj"], siteFmt "orientation-shifts/orientation" n = some (.fixed 6)) ∧
    (∀ k ∈ OKind.all,
      (∀ n ∈ ["obs", "adj", "stdev"], siteFmt ("observations/" ++ k.tag) n = some (.fixed 16)) ∧
      (∀ n ∈ ["qrr", "f", "std-residual", "err-obs", "err-adj"], siteFmt ("observations/" ++ k.tag) n = some (.fixed 3))) := by
  refine ⟨?_, ?_, ?_, ?_, ?_, ?_⟩ <;> decide +kernel

/-- the number law at every site of the regenerated table: reading what the site prints gives the quantisation of the
    site's own format (`roundTo m p` for `fixed p`, `roundSig m (p+1)` for `scientific p`) — every `x`, both tie rules -/
theorem C12_site_number_law (m : RMode) (s : FmtSite) (hs : s ∈ sites) (f : Fmt) (hf : s.fmt = .num f) (x : ℚ) :
    rdDecimal (f.print m x) = some (f.q m x) ∧ f ∈ instFmts := by
  refine ⟨rd_print m f x, ?_⟩
  have h := (C12_number_sites_formats.1 s hs).2
  rw [hf] at h
  simpa [SiteFmt.instantiated] using h

/-- a whole section of `<point>`s with the regenerated format of ITS coordinate leaves (`<fixed>`, `<approximate>`:
    6 decimals; `<adjusted>`: `make_check_precision(6)` = 16) -/
theorem C12_section_roundtrip_sites (m : RMode) (zero : ℚ) (s : Sect) (fr : Frame ℚ) (pts : List (LPoint ℚ))
    (hid : ∀ p ∈ pts, Trimmed p.id) (st : PState ℚ) (ha : st.adjusted = (s == .adjusted)) :
    -- all coordinate leaves of the section have ONE format in the regenerated table, the one of `x`
    (∀ n ∈ ["x", "y", "z"], siteFmt (sectPath s) n = siteFmt (sectPath s) "x") ∧
    (s ≠ .fixed → ∀ n ∈ ["X", "Y", "Z"], siteFmt (sectPath s) n = siteFmt (sectPath s) "x") ∧
    siteQ m (sectPath s) "x" = roundTo m (if s = .adjusted then 16 else 6) ∧
    ∃ r, readPoints (siteNum m (sectPath s) "x") zero st (writeSection (siteNum m (sectPath s) "x") s fr pts) = .ok r ∧
      r.out = st.out ++ (expectSection (siteQ m (sectPath s) "x") zero s fr st.k pts).1 ∧
      r.k = (expectSection (siteQ m (sectPath s) "x") zero s fr st.k pts).2 ∧ r.adjusted = st.adjusted := by
  refine ⟨?_, ?_, ?_, readPoints_writeSection (siteNum m (sectPath s) "x") (siteQ m (sectPath s) "x")
    (siteNum_law m (sectPath s) "x") zero s fr pts hid st ha⟩
  · clear ha; cases s <;> decide +kernel
  · clear ha; cases s
    · intro h; exact absurd rfl h
    · intro _; decide +kernel
    · intro _; decide +kernel
  · have h16 : siteFmt "coordinates/adjusted/point" "x" = some (.fixed 16) := by decide +kernel
    have h6a : siteFmt "coordinates/approximate/point" "x" = some (.fixed 6) := by decide +kernel
    have h6f : siteFmt "coordinates/fixed/point" "x" = some (.fixed 6) := by decide +kernel
    clear ha; cases s <;> simp only [sectPath, siteQ, h16, h6a, h6f, Option.getD_some] <;> rfl

/-- `<orientation>` records with the regenerated format of `<approx>` / `<adj>` (6 decimals) -/
theorem C12_orientation_roundtrip_sites (m : RMode) (fr : Frame ℚ) (os : List (LOri ℚ))
    (hid : ∀ o ∈ os, Trimmed o.id) (st : OState ℚ) :
    siteFmt "orientation-shifts/orientation" "adj" = siteFmt "orientation-shifts/orientation" "approx" ∧
    siteQ m "orientation-shifts/orientation" "approx" = roundTo m 6 ∧
    ∃ r, readOris (siteNum m "orientation-shifts/orientation" "approx") st
        (os.map (writeOri (siteNum m "orientation-shifts/orientation" "approx") fr)) = .ok r ∧ r.k = st.k + os.length ∧
      r.out = st.out ++ expectOris (siteQ m "orientation-shifts/orientation" "approx") fr st.k os := by
  have h : siteFmt "orientation-shifts/orientation" "approx" = some (.fixed 6) := by decide +kernel
  refine ⟨by decide +kernel, ?_, readOris_writeOris _ _ (siteNum_law m _ _) fr os hid st⟩
  simp only [siteQ, h, Option.getD_some]; rfl

/-- **an observation element with the format of EACH leaf** (any of the 13 kinds): `<obs>`, `<adj>` (the visitor's
    `linear` / `angular` = `make_check_precision(·)` = 16 decimals on the secondary stream), `<stdev>` (16), `<qrr>`,
    `<f>`, `<std-residual>`, `<err-obs>`, `<err-adj>` (3 decimals) — the formats are looked up in the regenerated table
    under the element of the observation's kind; the reader (one `get_float` for all leaves) gives back, leaf by leaf,
    the quantisation of that leaf's format -/
theorem C12_observation_roundtrip_sites (m : RMode) (zero : ℚ) (fr : Frame ℚ) (o : LObs ℚ)
    (hfrom : Trimmed o.from_) (hto : Trimmed o.to) (hbs : Trimmed o.bs) (hfs : Trimmed o.fs) :
    readObs (realNum m (.gen 6)) zero o.kind.tag (writeObsT (siteNum m ("observations/" ++ o.kind.tag)) fr o)
      = .ok (expectObsT (siteNum m ("observations/" ++ o.kind.tag)) (siteQ m ("observations/" ++ o.kind.tag)) zero fr o) ∧
    (∀ n ∈ ["obs", "adj", "stdev"], siteQ m ("observations/" ++ o.kind.tag) n = roundTo m 16) ∧
    (∀ n ∈ ["qrr", "f", "std-residual", "err-obs", "err-adj"], siteQ m ("observations/" ++ o.kind.tag) n = roundTo m 3) := by
  have hk : o.kind ∈ OKind.all := by cases o.kind <;> decide
  have hf := C12_number_sites_formats.2.2.2.2.2 o.kind hk
  refine ⟨readObs_writeObsT (realNum m (.gen 6)) _ _ (fun t x => siteNum_law m _ t x) zero fr o hfrom hto hbs hfs, ?_, ?_⟩
  · intro n hn
    have h : siteFmt ("observations/" ++ o.kind.tag) n = some (.fixed 16) := hf.1 n hn
    unfold siteQ; rw [h]; rfl
  · intro n hn
    have h : siteFmt ("observations/" ++ o.kind.tag) n = some (.fixed 3) := hf.2 n hn
    unfold siteQ; rw [h]; rfl

/-- **the covariance band through its text** (`out.setf(scientific); out.precision(7)` — the regenerated format of
    `<flt>`): gama's reader accepts the `<cov-mat>` the writer printed for any `Q`, `dim`, `--cov-band ≥ -1`, and the
    `CovMat` it builds is, at every position of the dim × dim matrix (both triangles, 0 outside the band), the band of
    `Q` ROUNDED TO 8 SIGNIFICANT DIGITS: `read (write (realNum (.sci 7)) Q) = bandOf (roundSig 8 ∘ Q)` -/
theorem C12_band_roundtrip_text (m : RMode) (Q : Nat → Nat → ℚ) (dim : Nat) (band : Int) (h : -1 ≤ band) :
    siteFmt "coordinates/cov-mat" "flt" = some (.sci 7) ∧
    ∃ C : CovMat ℚ, readS (realNum m (.sci 7)) (writeS (realNum m (.sci 7)) Q dim band) = .ok C ∧ C.dim = dim ∧
      C.band = clip band dim ∧
      ∀ i j, 1 ≤ i → i ≤ dim → 1 ≤ j → j ≤ dim →
        get C i j = bandOf (fun a b => roundSig m 8 (Q a b)) (clip band dim) i j :=
  ⟨C12_number_sites_formats.2.1, read_writeS (realNum m (.sci 7)) (roundSig m 8) (realNum_law m (.sci 7)) Q dim band h⟩

/-! ## non-vacuity -/

-- 1.23456789 at four decimals; 0.99996 rounds up across the digit boundary; a tiny negative keeps its sign in the text
example : fmtFixedL .halfEven 4 (123456789 / 100000000) = "1.2346".toList := by decide +kernel
example : fmtFixedL .halfEven 4 (99996 / 100000) = "1.0000".toList ∧ roundTo .halfEven 4 (99996 / 100000) = 1 := by
  decide +kernel
example : fmtFixedL .halfEven 4 (-1 / 100000) = "-0.0000".toList ∧ roundTo .halfEven 4 (-1 / 100000) = 0 ∧
    fmtFixedL .halfEven 4 0 = "0.0000".toList := by decide +kernel
-- exact ties at the last digit: glibc rounds the exact value half to even (0.125 ↦ 0.12, 0.375 ↦ 0.38, 2.5 ↦ 2)
example : fmtFixedL .halfEven 2 (1 / 8) = "0.12".toList ∧ fmtFixedL .halfEven 2 (3 / 8) = "0.38".toList ∧
    fmtFixedL .halfEven 0 (5 / 2) = "2".toList ∧ fmtFixedL .halfAway 2 (1 / 8) = "0.13".toList := by decide +kernel
-- scientific 7 (covariances) and 16 decimals (coordinates under `make_check_precision`)
example : fmtSciL .halfEven 7 (-1 / 3) = "-3.3333333e-01".toList := by decide +kernel
example : fmtFixedL .halfEven 16 (1001 / 7) = "143.0000000000000000".toList := by decide +kernel
-- the hypotheses of `C12_fixed_projection`: both cases occur
example : ¬ ((1 / 3 : ℚ) < 0 ∧ roundTo .halfEven 4 (1 / 3) = 0) := by decide +kernel
example : ((-1 / 100000 : ℚ) < 0) ∧ roundTo .halfEven 4 (-1 / 100000) = 0 := by decide +kernel
-- the section round trip on a mixed section, four decimals
example : ∃ r, readPoints (realNum .halfEven (.fixed 4)) 0 (sectionStart 0 true)
      (writeSection (realNum .halfEven (.fixed 4)) .adjusted qFrame qPoints) = .ok r ∧
    r.out = (expectSection (roundTo .halfEven 4) 0 .adjusted qFrame 0 qPoints).1 ∧ r.k = 6 := by
  obtain ⟨r, h1, h2, h3, _⟩ := C12_section_roundtrip_real .halfEven (.fixed 4) 0 .adjusted qFrame qPoints qPoints_trimmed
    (sectionStart 0 true) rfl
  refine ⟨r, h1, ?_, ?_⟩
  · simp only [sectionStart, List.nil_append] at h2; exact h2
  · rw [h3]; decide +kernel
example : ∃ r, readOris (realNum .halfEven (.sci 7)) ⟨⟨"", 0, 0, 0⟩, "", 6, []⟩
      (qOris.map (writeOri (realNum .halfEven (.sci 7)) qFrame)) = .ok r ∧ r.k = 8 :=
  let ⟨r, h1, h2, _⟩ := C12_orientation_roundtrip_real .halfEven (.sci 7) qFrame qOris qOris_trimmed ⟨⟨"", 0, 0, 0⟩, "", 6, []⟩
  ⟨r, h1, h2⟩
example : readObs (realNum .halfEven (.fixed 16)) 0 qObs.kind.tag (writeObs (realNum .halfEven (.fixed 16)) qFrame qObs)
    = .ok (expectObs (realNum .halfEven (.fixed 16)) (roundTo .halfEven 16) 0 qFrame qObs) :=
  C12_observation_roundtrip_real .halfEven (.fixed 16) 0 qFrame qObs ⟨by decide, by decide⟩ ⟨by decide, by decide⟩
    ⟨by decide, by decide⟩ ⟨by decide, by decide⟩

-- round 8: the regenerated table is not empty: 161 sites, 26 of them `int`
example : sites.length = 161 ∧ (sites.filter (fun s => s.fmt == .int)).length = 26 := by decide +kernel
-- an observation printed leaf by leaf with the regenerated formats: 16 decimals for the value, 3 for the control
-- quantities (`#eval`: obs 12.3450000000000000, adj 12.3456666666666667, stdev 0.7000000000000000, qrr 1.000, f 1.286,
-- std-residual 4.000, err-obs 0.333, err-adj -0.333), and read back leaf by leaf
example : fmtFixedL .halfEven 16 (adjVal qFrame qObs) = "12.3456666666666667".toList ∧
    fmtFixedL .halfEven 3 qObs.f = "1.286".toList ∧ hasErr qFrame qObs = true ∧
    fmtFixedL .halfEven 3 (errAdj qFrame qObs) = "-0.333".toList := by decide +kernel
example : readObs (realNum .halfEven (.gen 6)) 0 "dy" (writeObsT (siteNum .halfEven "observations/dy") qFrame qObs)
    = .ok (expectObsT (siteNum .halfEven "observations/dy") (siteQ .halfEven "observations/dy") 0 qFrame qObs) :=
  (C12_observation_roundtrip_sites .halfEven 0 qFrame qObs ⟨by decide, by decide⟩ ⟨by decide, by decide⟩
    ⟨by decide, by decide⟩ ⟨by decide, by decide⟩).1
-- the band as text: dim 3, band 1, Q(i,j) = (10 i + j)/3 — five `<flt>` texts (`#eval`: 3.6666667e+00 4.0000000e+00
-- 7.3333333e+00 7.6666667e+00 1.1000000e+01), read back as the 8-digit values; (3,1) is outside the band
example : (write (fun i j => ((10 * i + j : Nat) : ℚ) / 3) 3 1).flt.map (fmtSciL .halfEven 7) =
    ["3.6666667e+00".toList, "4.0000000e+00".toList, "7.3333333e+00".toList, "7.6666667e+00".toList,
     "1.1000000e+01".toList] := by decide +kernel
example : ∃ C, readS (realNum .halfEven (.sci 7)) (writeS (realNum .halfEven (.sci 7)) (fun i j => ((10 * i + j : Nat) : ℚ) / 3) 3 1)
      = .ok C ∧ get C 1 1 = 36666667 / 10000000 ∧ get C 2 1 = 4 ∧ get C 3 1 = 0 ∧ get C 3 3 = 11 := by
  obtain ⟨_, C, h, _, _, hg⟩ := C12_band_roundtrip_text .halfEven (fun i j => ((10 * i + j : Nat) : ℚ) / 3) 3 1 (by decide)
  refine ⟨C, h, ?_, ?_, ?_, ?_⟩
  · rw [hg 1 1 (by decide) (by decide) (by decide) (by decide)]; decide +kernel
  · rw [hg 2 1 (by decide) (by decide) (by decide) (by decide)]; decide +kernel
  · rw [hg 3 1 (by decide) (by decide) (by decide) (by decide)]; decide +kernel
  · rw [hg 3 3 (by decide) (by decide) (by decide) (by decide)]; decide +kernel

end Gama.Props.C12Codec
