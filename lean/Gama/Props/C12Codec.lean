/-
  C12, rows 2b / 2c for the REAL number formats.  `Props/C12.lean` proves the record round trips for an abstract number
  law `rd (fmt x) = some (q x)` (witnessed there by the toy `decCodec` on ℕ); here the law is PROVED for what
  `LocalNetworkXML` does — `out.setf(ios_base::fixed | scientific, floatfield); out.precision(p); out << x` —
  modelled over ℚ by `Model/DecimalCodec.lean` and tied to libstdc++ by the `codec` stream.

  Per-site precision: `Gen/XmlSites.lean` / `Gen/XmlSkeleton.lean` do NOT record the precision in force at a site, and
  the record model (`Model/XmlRecords.lean`) has ONE `Num` for all fields.  So the format `f : Fmt` (floatfield +
  precision) is a PARAMETER of the statements: they hold for every format, in particular for the ones of
  localnetworkxml.cpp (`fixed` 16 = `make_check_precision(·)` for coordinates and observations, `fixed` 3 / 6 / 7,
  `scientific` 7 for covariances).
-/
import Gama.Lemmas.DecimalCodecC12
namespace Gama.Props.C12Codec
open Gama.XmlRec Gama.ReaderPoint Gama.Dec

/-- the number law of the record round trips holds for every real format: what the reader gets is `f.q m x`
    (`roundTo m p x` for `fixed p`, `roundSig m (p+1) x` for `scientific p`) — every `x`, no side condition -/
theorem C12_real_number_law (m : RMode) (f : Fmt) (x : ℚ) :
    (realNum m f).rd ((realNum m f).fmt x) = some (f.q m x) :=
  realNum_law m f x

/-- the size of the quantisation, fixed notation: half a unit of the last printed decimal; the value read back is
    re-printed as itself; the sign is symmetric; and — what the abstract law of C13 excludes — a non-zero number DOES print
    as zero exactly when `|x| < ½·10⁻ᵖ` (or `= ½·10⁻ᵖ` under round-half-even) -/
theorem C12_fixed_quantisation (m : RMode) (p : Nat) (x : ℚ) :
    |roundTo m p x - x| ≤ 1 / 2 / (10 : ℚ) ^ p ∧ roundTo m p (roundTo m p x) = roundTo m p x ∧
    roundTo m p (-x) = -roundTo m p x ∧
    (roundTo m p x = 0 ↔ |x| < 1 / 2 / (10 : ℚ) ^ p ∨ (|x| = 1 / 2 / (10 : ℚ) ^ p ∧ m = .halfEven)) :=
  ⟨roundTo_err m p x, roundTo_idem m m p x, roundTo_neg m p x, roundTo_eq_zero_iff m p x⟩

/-- printing what was read gives the same text (`fmt (q x) = fmt x`) unless `x` is a negative number that rounds to
    zero; then — and only then — the texts differ by the sign: `-0.00…0` against `0.00…0` (ℚ has no negative zero;
    a `double` reader gets `-0.0` and re-prints `-0.00…0`) -/
theorem C12_fixed_projection (m : RMode) (p : Nat) (x : ℚ) :
    (¬ (x < 0 ∧ roundTo m p x = 0) → fmtFixed m p (roundTo m p x) = fmtFixed m p x) ∧
    (x < 0 → roundTo m p x = 0 → fmtFixedL m p x = '-' :: fmtFixedL m p (roundTo m p x)) := by
  constructor
  · intro h
    apply fmtFixed_roundTo
    intro ⟨h1, h2⟩
    apply h
    refine ⟨h1, ?_⟩
    rw [fixD_val, h2]; simp [signed]
  · intro h1 h2
    have hs : scaled m p x = 0 := by
      by_contra hs
      have := (fixD_roundTo_iff m p x).mpr (fun h => hs h.2)
      have hneg := congrArg Numeral.neg this
      rw [fixD_roundTo] at hneg
      simp only [fixD, (isNeg_iff x).mpr h1, hs, ne_eq, not_false_eq_true, decide_true, Bool.and_self] at hneg
      have hn : isNeg (roundTo m p x) = true := by rw [isNeg_roundTo]; simp [(isNeg_iff x).mpr h1, hs]
      rw [h2] at hn
      exact absurd hn (by decide)
    obtain ⟨_, h3, h4⟩ := fmtFixed_roundTo_neg_zero m p x h1 hs
    rw [h3, h4]

/-- row 2b for the real printer: one `<point>` -/
theorem C12_point_roundtrip_real (m : RMode) (f : Fmt) (zero : ℚ) (st : PState ℚ) (s : Sect) (fr : Frame ℚ) (p : LPoint ℚ)
    (hid : Trimmed p.id) (ha : st.adjusted = (s == .adjusted)) :
    ∃ r, readPoint (realNum m f) zero st (writePoint (realNum m f) s fr p) = .ok r ∧
      r.tmp = expectPoint (f.q m) zero s fr st.k p ∧ r.k = nextK s st.k p ∧
      r.out = st.out ++ [expectPoint (f.q m) zero s fr st.k p] ∧ r.adjusted = st.adjusted :=
  readPoint_writePoint (realNum m f) (f.q m) (realNum_law m f) zero st s fr p hid ha

/-- a whole section, any number of points in any mix and order -/
theorem C12_section_roundtrip_real (m : RMode) (f : Fmt) (zero : ℚ) (s : Sect) (fr : Frame ℚ) (pts : List (LPoint ℚ))
    (hid : ∀ p ∈ pts, Trimmed p.id) (st : PState ℚ) (ha : st.adjusted = (s == .adjusted)) :
    ∃ r, readPoints (realNum m f) zero st (writeSection (realNum m f) s fr pts) = .ok r ∧
      r.out = st.out ++ (expectSection (f.q m) zero s fr st.k pts).1 ∧ r.k = (expectSection (f.q m) zero s fr st.k pts).2 ∧
      r.adjusted = st.adjusted :=
  readPoints_writeSection (realNum m f) (f.q m) (realNum_law m f) zero s fr pts hid st ha

/-- `<orientation>` records -/
theorem C12_orientation_roundtrip_real (m : RMode) (f : Fmt) (fr : Frame ℚ) (os : List (LOri ℚ))
    (hid : ∀ o ∈ os, Trimmed o.id) (st : OState ℚ) :
    ∃ r, readOris (realNum m f) st (os.map (writeOri (realNum m f) fr)) = .ok r ∧ r.k = st.k + os.length ∧
      r.out = st.out ++ expectOris (f.q m) fr st.k os :=
  readOris_writeOris (realNum m f) (f.q m) (realNum_law m f) fr os hid st

/-- an observation element of any of the 13 kinds -/
theorem C12_observation_roundtrip_real (m : RMode) (f : Fmt) (zero : ℚ) (fr : Frame ℚ) (o : LObs ℚ)
    (hfrom : Trimmed o.from_) (hto : Trimmed o.to) (hbs : Trimmed o.bs) (hfs : Trimmed o.fs) :
    readObs (realNum m f) zero o.kind.tag (writeObs (realNum m f) fr o) = .ok (expectObs (realNum m f) (f.q m) zero fr o) :=
  readObs_writeObs (realNum m f) (f.q m) (realNum_law m f) zero fr o hfrom hto hbs hfs

/-! ## non-vacuity -/

-- 1.23456789 at four decimals; 0.99996 rounds up across the digit boundary; a tiny negative keeps its sign in the text
example : fmtFixedL .halfEven 4 (123456789 / 100000000) = "1.2346".toList := by decide +kernel
example : fmtFixedL .halfEven 4 (99996 / 100000) = "1.0000".toList ∧ roundTo .halfEven 4 (99996 / 100000) = 1 := by
  decide +kernel
example : fmtFixedL .halfEven 4 (-1 / 100000) = "-0.0000".toList ∧ roundTo .halfEven 4 (-1 / 100000) = 0 ∧
    fmtFixedL .halfEven 4 0 = "0.0000".toList := by decide +kernel
-- exact ties at the last digit: glibc rounds the exact value half to even (0.125 ↦ 0.12, 0.375 ↦ 0.38, 2.5 ↦ 2)
example : fmtFixedL .halfEven 2 (1 / 8) = "0.12".toList ∧ fmtFixedL .halfEven 2 (3 / 8) = "0.38".toList ∧
    fmtFixedL .halfEven 0 (5 / 2) = "2".toList ∧ fmtFixedL .halfAway 2 (1 / 8) = "0.13".toList := by decide +kernel
-- scientific 7 (covariances) and 16 decimals (coordinates under `make_check_precision`)
example : fmtSciL .halfEven 7 (-1 / 3) = "-3.3333333e-01".toList := by decide +kernel
example : fmtFixedL .halfEven 16 (1001 / 7) = "143.0000000000000000".toList := by decide +kernel
-- the hypotheses of `C12_fixed_projection`: both cases occur
example : ¬ ((1 / 3 : ℚ) < 0 ∧ roundTo .halfEven 4 (1 / 3) = 0) := by decide +kernel
example : ((-1 / 100000 : ℚ) < 0) ∧ roundTo .halfEven 4 (-1 / 100000) = 0 := by decide +kernel
-- the section round trip on a mixed section, four decimals
example : ∃ r, readPoints (realNum .halfEven (.fixed 4)) 0 (sectionStart 0 true)
      (writeSection (realNum .halfEven (.fixed 4)) .adjusted qFrame qPoints) = .ok r ∧
    r.out = (expectSection (roundTo .halfEven 4) 0 .adjusted qFrame 0 qPoints).1 ∧ r.k = 6 := by
  obtain ⟨r, h1, h2, h3, _⟩ := C12_section_roundtrip_real .halfEven (.fixed 4) 0 .adjusted qFrame qPoints qPoints_trimmed
    (sectionStart 0 true) rfl
  refine ⟨r, h1, ?_, ?_⟩
  · simp only [sectionStart, List.nil_append] at h2; exact h2
  · rw [h3]; decide +kernel
example : ∃ r, readOris (realNum .halfEven (.sci 7)) ⟨⟨"", 0, 0, 0⟩, "", 6, []⟩
      (qOris.map (writeOri (realNum .halfEven (.sci 7)) qFrame)) = .ok r ∧ r.k = 8 :=
  let ⟨r, h1, h2, _⟩ := C12_orientation_roundtrip_real .halfEven (.sci 7) qFrame qOris qOris_trimmed ⟨⟨"", 0, 0, 0⟩, "", 6, []⟩
  ⟨r, h1, h2⟩
example : readObs (realNum .halfEven (.fixed 16)) 0 qObs.kind.tag (writeObs (realNum .halfEven (.fixed 16)) qFrame qObs)
    = .ok (expectObs (realNum .halfEven (.fixed 16)) (roundTo .halfEven 16) 0 qFrame qObs) :=
  C12_observation_roundtrip_real .halfEven (.fixed 16) 0 qFrame qObs ⟨by decide, by decide⟩ ⟨by decide, by decide⟩
    ⟨by decide, by decide⟩ ⟨by decide, by decide⟩

end Gama.Props.C12Codec
