/-
  C02 — non-vacuity of `C02_same_gso_envsolve` (Props/C02EnvSolve.lean): the envelope solver AS THE
  DRIVER RUNS IT (`envSolve p` = homogenisation + reverse Cuthill–McKee + `envCore`) paired with the
  Gram–Schmidt solver.  Over ℚ the global square-root law `IsSqrt` cannot hold, so the witness is
  over ℝ with `Real.sqrt`: the problem `Ex.pR` of Props/C02Joint.lean
     A = [1 1; 0 0], b = (1,1), one unit covariance block, S = {1}  (defect 1, S proper, resolves)
  — the SAME problem on which the hypotheses of `C02_same_gso_chol`, `C02_same_gso_env`,
  `C02_same_gso_svd` hold.  Every hypothesis of `C02_same_gso_envsolve` is proved for it
  (Lemmas/Ls/ComposeJointEnvSolveExample.lean: `BlockDiagonal::cholDec` returns the unit block,
  the sweep is the identity, RCM of the pattern `[[1,2],[]]` is the identity ordering), `envSolve`
  answers with `xErr = none`, and the equality of unknowns / residuals / sum of squares / defect /
  cofactors is OBTAINED FROM THE PAIR THEOREM.
-/
import Gama.Props.C02EnvSolve
import Gama.Props.C02Joint
import Gama.Lemmas.Ls.ComposeJointEnvSolveExample
namespace Gama.Props.C02
open Gama Gama.Ls Gama.LS Gama.Ls.Gso Gama.Ls.Env Gama.Ls.AdjM Matrix

attribute [local instance] sqrtFnOfSqrtFieldES

/-- **joint witness gso + `envSolve`**: `Ex.pR` meets EVERY hypothesis of `C02_same_gso_envsolve`
    (Gram–Schmidt unambiguous; static input conditions; valid regularisation list; every pivot the
    factorisation of the homogenised, RCM-ordered system tests is 0 or ≥ tol; unit covariance; `S`
    resolves the defect), both models answer (`unknowns()` of the envelope solver included), and —
    by `C02_same_gso_envsolve` — with the same unknowns, residuals, sum of squares, defect (= 1) and
    cofactors of the unknowns -/
theorem C02_joint_witness_gso_envsolve :
    (Gso.Unambiguous Ex.pR ∧ Env.InputOK Ex.pR ∧ Env.RegListOK Ex.pR ∧ Env.SolveUnambiguous Ex.pR
      ∧ Ex.pR.C = 1 ∧ Resolves Ex.pR.A Ex.pR.S)
    ∧ ∃ a a', gsoSolve Ex.pR = .ok a
        ∧ @envSolve ℝ (Gama.LS.fieldScalar SqrtField.sqrt) Ex.pR = .ok a' ∧ a'.xErr = none
        ∧ a.defect = 1 ∧ a'.defect = 1
        ∧ toVec Ex.pR.n a.x = toVec Ex.pR.n a'.x ∧ toVec Ex.pR.m a.r = toVec Ex.pR.m a'.r ∧ a.rtr = a'.rtr
        ∧ a.defect = a'.defect ∧ ∀ i j : Fin Ex.pR.n, a.qxx (i + 1) (j + 1) = a'.qxx (i + 1) (j + 1) := by
  obtain ⟨a, ha, -, -, hd, -⟩ := Ex.pR_answers
  obtain ⟨a', ha', hx', hd'⟩ := Ex.pR_envSolve
  exact ⟨⟨Ex.pR_unambiguous, Ex.pR_input, Ex.pR_regList, Ex.pR_solveUnamb, Ex.pR_C, Ex.pR_resolves⟩,
    a, a', ha, ha', hx', hd, hd',
    C02_same_gso_envsolve Ex.pR Ex.pR_unambiguous Ex.pR_input Ex.pR_regList Ex.pR_solveUnamb Ex.pR_C
      Ex.pR_resolves a a' ha ha' hx'⟩

/-- what `envSolve` runs on that problem: the homogenised system is the problem itself (unit
    weights) and the reverse Cuthill–McKee ordering of its pattern is the identity -/
example : homogenize Ex.pR = .ok ⟨Ex.pR.dense, Ex.pR.rhs, #[[1, 2], []]⟩
    ∧ rcmOrd 2 #[[1, 2], []] = idOrd 2 :=
  ⟨Ex.pR_homogenize_eq, Ex.pR_rcm⟩

/-- the witness is not degenerate (as in Props/C02Joint.lean): non-trivial kernel, `S` proper -/
example : (∃ g, Ex.pR.A *ᵥ g = 0 ∧ g ≠ 0) ∧ Ex.pR.S ≠ Finset.univ :=
  ⟨Ex.pR_kernel, Ex.pR_S_proper⟩

end Gama.Props.C02
