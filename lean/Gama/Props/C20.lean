/-
  C20 — Ill-posed networks are diagnosed, identically for every algorithm: the decision layer.

  The per-solver statements (a flagged unknown is truly dependent, #flags = defect) live in
  `Props/C20/{Env,Chol,Gso,…}.lean`.  This file is about what `LocalNetwork` / `gama-local` do with
  those answers — model `Gama/Model/NetDecision.lean` (`vyrovnani_`, `null_space`,
  `GeneralParameters`, as functions of the solver's answers only; `project_equations()` and the
  solver are the parameter `W : WorldA`), lemmas `Gama/Lemmas/NetDecision.lean`.

  `W.RefusalFirst` says that a huge-covariance pass that ends in `BadRegularization` removed nothing
  before the throw — true of the real solvers, whose first `q_xx` query triggers the (global) solve:
  either the first query throws or none does (`WorldA.UniformRefusal.refusalFirst`).  Without it the
  two verdict theorems are false (`Lemmas/NetDecisionCex.lean`: a pass that first removes a point and
  then meets a refusal leaves `tst_vyrovnani_ = false`; if then nothing is flagged `null_space()`
  returns a stale defect and `trans_VWV()` really re-adjusts).

  `W.WF` is what `project_equations()` guarantees (revision only switches coordinates off; an unknown
  exists only for an active coordinate group of its point; the huge-covariance test fires only on a
  coordinate that has an index).  `W.RefusalFlags` is the consequence of the per-solver theorems that
  the decision layer needs: a solver that refuses (`BadRegularization`) flags at least one unknown
  (refusal ⇒ defect > 0, and #flags = defect).
-/
import Gama.Lemmas.NetDecision
import Gama.Lemmas.NetDecisionCex
namespace Gama.Props.C20
open Gama Gama.Ls Gama.NetDecision

/-- **C20_removal_terminates**: for every network and every solver behaviour compatible with
    `project_equations()`, the point-removal recursion of `null_space()` and the huge-covariance
    loop of `vyrovnani_()` end within `actives net + 1` rounds each (`actives` = number of active
    coordinate groups, ≤ 2 per point): the decision never runs out of that fuel -/
theorem C20_removal_terminates (W : WorldA) (hW : W.WF) (net : Net) :
    (decideA W net).2 ≠ .exception .fuel :=
  decideA_no_fuel W hW net

/-- each step of the `null_space` recursion removes a point: the coordinate group of the flagged
    unknown is active, `removeUnknown` switches it off -/
theorem C20_removal_step_decreases (s : St) (u : Unknown)
    (h : ∃ P ∈ s.net, P.id = u.pid ∧ (if u.type = .Z then P.z.active else P.xy.active) = true) :
    actives (removeUnknown s u).net < actives s.net :=
  removeUnknown_decreases s u h

/-- at most one recorded removal per active coordinate group (≤ 2 per point) -/
theorem C20_removal_bound (W : WorldA) (hW : W.WF) (hS : W.Still) (net : Net) :
    (decideA W net).1.length ≤ actives net :=
  decideA_removed_bound W hW hS net

/-- **C20_removal_sound** (what is removed is recorded): positions and identifiers of the points
    are kept, and every point whose status differs from the input is named in the removal record -/
theorem C20_removal_sound (W : WorldA) (hS : W.Still) (net : Net) :
    let r := generalParameters W (fuelFor net) (fuelFor net) (St.init net)
    r.1.net.length = net.length ∧
    ∀ k (hk : k < net.length) (hk' : k < r.1.net.length),
      (r.1.net[k]).id = (net[k]).id ∧ (r.1.net[k] ≠ net[k] → (net[k]).id ∈ r.1.removed.map Prod.fst) :=
  decideA_sound W hS net

/-- the removal record only grows along `null_space` -/
theorem C20_removed_monotone (W : WorldA) (vf nf : Nat) (s : St) :
    ∃ l, (nullSpace W vf nf s).1.removed = s.removed ++ l :=
  nullSpace_removed_prefix W vf nf s

/-- **no adjustment for a refused configuration**: when `gama-local` goes on to print results
    (verdict `adjusted d`), `vyrovnani_` has completed on the final configuration: the solver
    answered there, its defect is `d`, and at least `d` constrained coordinates take part -/
theorem C20_adjusted_sound (W : WorldA) (hflag : W.RefusalFlags) (hfirst : W.RefusalFirst) (net : Net) (d : Nat)
    (h : (decideA W net).2 = .adjusted d) :
    ∃ n0, (W n0).abs.resid = .ok () ∧ (W n0).abs.defect = d ∧
      (W n0).net = (generalParameters W (fuelFor net) (fuelFor net) (St.init net)).1.net ∧
      d ≤ minN (W n0).abs.unknowns (W n0).net :=
  decideA_adjusted W hflag hfirst net d h

/-
  FULL STATEMENT of the verdict clause (DESIGN §6):
      `decideA W net` says "network can not be adjusted"  ↔  the configured constraints do not
      resolve the defect,   given   (solver refuses ↔ ¬ Resolves).
  On the faithful model this is FALSE, in the strongest possible way: under exactly that premise the
  verdict `cannot` is unreachable (`C20_verdict_cannot_unreachable`).  A refusing solver flags an
  unknown, `null_space()` removes its point and retries, so a configuration that cannot be adjusted
  is never diagnosed: it is stripped point by point until the rest can be adjusted or nothing is left
  ("No unknowns have been defined").  The message exists in the code and was reachable only while
  `AdjGSO` did not refuse (before repo commit f703dbb): `C20_verdict_cannot_witness_no_refusal`.
  This is finding F7; replayed on the real code (corpus/C20/f7-free1.gkf).
-/

/-- **F7 as a theorem**: if a configuration on which the solver answers always has at least
    `defect` constrained coordinates, and a refusing solver always flags an unknown (both hold for
    solvers that meet their C01/C20 specifications), `GeneralParameters` never reaches its diagnosis
    "network can not be adjusted" -/
theorem C20_verdict_cannot_unreachable (W : WorldA)
    (hcount : ∀ n, (W n).abs.resid = .ok () → (W n).abs.defect ≤ minN (W n).abs.unknowns (W n).net)
    (hflag : W.RefusalFlags) (hfirst : W.RefusalFirst) (net : Net) (d : Nat) (b : Bool) (l : List (Nat × Unknown)) :
    (decideA W net).2 ≠ .cannot d b l :=
  decideA_never_cannot W hcount hflag hfirst net d b l

/-- four free points A–D, A constrained (2 coordinates), six distances: defect 3 > 2
    (`notes/design-replays/free1.gkf`) -/
def free1 : Net := [⟨"A", .constrained, .unused⟩, ⟨"B", .free, .unused⟩, ⟨"C", .free, .unused⟩, ⟨"D", .free, .unused⟩]

/-- its world for a solver that refuses while two or more points are in (distances only: defect 3,
    one constrained point never suffices) and flags the last unknown; one remaining point has no
    observation left, hence no unknowns -/
def free1World (refuses : Bool) : WorldA := fun net =>
  let act := net.filter fun P => P.xy.active
  let us : List Unknown := if act.length < 2 then [] else act.flatMap fun P => [⟨P.id, .X⟩, ⟨P.id, .Y⟩]
  let bad : Except ErrKind Unit := if refuses then .error .BadRegularization else .ok ()
  { net := net, rm := []
    abs := { unknowns := us, nObs := act.length * (act.length - 1) / 2, nPts := act.length
             defect := if us.isEmpty then 0 else 3
             flagged := if us.isEmpty then [] else [us.length - 2, us.length - 1, us.length]
             huge := fun P => if P.xy.adjusted then bad.map (fun _ => none) else .ok none
             resid := bad } }

/-- **negation of the full verdict statement, with a witness** (finding F7, all four algorithms
    since f703dbb): the under-constrained free network is not diagnosed — every point is stripped
    and the run ends with "No unknowns have been defined" -/
theorem C20_verdict_not_diagnosed :
    decideA (free1World true) free1
      = ([("C", .singular_xy), ("B", .singular_xy), ("A", .singular_xy)], .exception .noUnknowns) := by
  decide +kernel

/-- the diagnosis is reachable only for a solver that does not refuse (AdjGSO before f703dbb):
    "defect 3, not enough constrained points", the flagged unknowns named -/
theorem C20_verdict_cannot_witness_no_refusal :
    decideA (free1World false) free1
      = ([], .cannot 3 true [(6, ⟨"C", .Y⟩), (7, ⟨"D", .X⟩), (8, ⟨"D", .Y⟩)]) := by
  decide +kernel

/-- non-vacuity of `C20_removal_terminates` / `_sound` / `_bound`: the world of `free1` is
    well-formed and still -/
example : (free1World true).Still := fun _ => ⟨rfl, rfl⟩

-- ------------------------------------------------------------------ guarded formulas (no NaN by construction)

section Formulas
variable {K : Type} [Scalar K]

/-- **C20_no_nan (decision layer)**: the huge-covariance test contains no division; the only
    partial operations are the solver queries — if `q_xx` answers, the test answers -/
theorem C20_huge_test_total (m0 : K) (v : View K) (P : Point) (h : ∀ i, ∃ q, v.qxx i = .ok q) :
    ∃ r, hugeDecision m0 v P = .ok r := by
  unfold hugeDecision
  split
  · exact ⟨none, rfl⟩
  · have hs : ∀ i, ∃ t, sigmaOf m0 v i = .ok t := by
      intro i
      unfold sigmaOf
      split
      · exact ⟨0, rfl⟩
      · obtain ⟨q, hq⟩ := h i
        exact ⟨m0 * Scalar.sqrt q, by rw [hq]; rfl⟩
    obtain ⟨tx, hx⟩ := hs (indexOf v.unknowns P.id .X)
    obtain ⟨ty, hy⟩ := hs (indexOf v.unknowns P.id .Y)
    obtain ⟨tz, hz⟩ := hs (indexOf v.unknowns P.id .Z)
    simp only [hx, hy, hz, bind, Except.bind, pure, Except.pure]
    split
    · exact ⟨_, rfl⟩
    · split
      · exact ⟨_, rfl⟩
      · split
        · exact ⟨_, rfl⟩
        · exact ⟨_, rfl⟩

/-- points without an adjusted (free or constrained) coordinate group are never touched by the
    huge-covariance loop -/
theorem C20_huge_test_only_adjusted (m0 : K) (v : View K) (P : Point)
    (h : P.xy.adjusted = false ∧ P.z.adjusted = false) : hugeDecision m0 v P = .ok none := by
  unfold hugeDecision
  simp [h.1, h.2]

end Formulas

/-
  A not-a-number cofactor compares false with `1e4`, so the point stays: no removal is ever decided
  on a NaN.  This is a statement about `Float`, hence not a theorem here; it is exercised on every run
  by the decision-layer correspondence (scripted cofactors NaN, ±inf, negative) against the C++.
-/

end Gama.Props.C20
