/-
  C02 — the envelope solver AS THE DRIVER RUNS IT (`envSolve p`: homogenisation + reverse
  Cuthill–McKee + `envCore`) paired with the Gram–Schmidt solver, and its refusal behaviour.
  The envelope-side hypotheses are those of `Props/C01/EnvSolve.lean` — static input conditions and
  `Env.SolveUnambiguous p` — no external `At`, `bt`, `W`, ordering.  The Gram–Schmidt model has unit
  weights, so the pair theorem is for problems with `p.C = 1`.
  Scalars: an ordered field with a square root (`Gso.SqrtField`); both models at
  `fieldScalar SqrtField.sqrt`.
-/
import Gama.Props.C01.Gso
import Gama.Props.C03.Gso
import Gama.Lemmas.Ls.ComposeEnvSolve
import Gama.Lemmas.Ls.ComposeEnvSolveExample
import Gama.Lemmas.Ls.ComposeGinvUnique
namespace Gama.Props.C02
open Gama Gama.Ls Gama.LS Gama.Ls.Gso Gama.Ls.Env Gama.Ls.AdjM Matrix

set_option linter.unusedSectionVars false

section Refusal
variable {K : Type} [Field K] [LinearOrder K] [IsStrictOrderedRing K] [SqrtFn K]
attribute [local instance 2000] scalarOfField

/-- **C02 refusal for `envSolve`**: with unambiguous pivots in the factorisation and in the
    Gram–Schmidt loop of `solve_x`, `unknowns()` answers iff the regularisation subset resolves the
    defect (`Resolves A S`), and the only thing it ever throws is `BadRegularization` -/
theorem C02_refusal_envsolve (hsq : IsSqrt (SqrtFn.sq : K → K)) (p : Problem K) (hin : Env.InputOK p)
    (hreg : Env.RegListOK p) (hU : Env.SolveUnambiguous p) (hGS : Env.SolveGSUnambiguous p)
    (P : Matrix (Fin p.m) (Fin p.m) K) (hP : p.C * P = 1)
    (a : Answer K) (h : envSolve p = .ok a) :
    (a.xErr = none ↔ Resolves p.A p.S) ∧ ∀ e, a.xErr = some e → e = .BadRegularization :=
  envSolve_refusal hsq p hin hreg hU hGS P hP a h

/-- non-vacuity: `Ex.pEnvCorr` (correlated block, defect 1, proper subset) meets every hypothesis
    except the global square-root law (ℚ), and `unknowns()` answers -/
example : Env.InputOK Ex.pEnvCorr ∧ Env.RegListOK Ex.pEnvCorr ∧ Env.SolveUnambiguous Ex.pEnvCorr
    ∧ Env.SolveGSUnambiguous Ex.pEnvCorr ∧ Ex.pEnvCorr.C * Ex.PEnvCorr = 1
    ∧ ∃ a, envSolve Ex.pEnvCorr = .ok a ∧ a.xErr = none := by
  obtain ⟨a, h1, -, h3, -⟩ := Ex.pEnvCorr_answer
  exact ⟨Ex.pEnvCorr_input, Ex.pEnvCorr_reg, Ex.pEnvCorr_unamb.1, Ex.pEnvCorr_unamb.2, Ex.pEnvCorr_weight, a, h1, h3⟩

end Refusal

section Pair
variable {K : Type} [Field K] [LinearOrder K] [IsStrictOrderedRing K] [SqrtField K]
local instance sqrtFnOfSqrtFieldES : SqrtFn K := ⟨SqrtField.sqrt⟩

/-- **gso = envelope as run** (unit covariance): same unknowns, residuals, sum of squares, defect and
    cofactors of the unknowns for all index pairs -/
theorem C02_same_gso_envsolve (p : Problem K) (hUg : Gso.Unambiguous p) (hin : Env.InputOK p)
    (hreg : Env.RegListOK p) (hU : Env.SolveUnambiguous p) (hC : p.C = 1) (hS : Resolves p.A p.S)
    (a a' : Answer K) (h : gsoSolve p = .ok a)
    (h' : @envSolve K (Gama.LS.fieldScalar SqrtField.sqrt) p = .ok a') (hx : a'.xErr = none) :
    toVec p.n a.x = toVec p.n a'.x ∧ toVec p.m a.r = toVec p.m a'.r ∧ a.rtr = a'.rtr
    ∧ a.defect = a'.defect ∧ ∀ i j : Fin p.n, a.qxx (i + 1) (j + 1) = a'.qxx (i + 1) (j + 1) := by
  have hsq : IsSqrt (SqrtFn.sq : K → K) :=
    ⟨fun x hx => (SqrtField.sqrt_spec x hx).1, fun x hx => (SqrtField.sqrt_spec x hx).2⟩
  have hP : p.C * (1 : Matrix (Fin p.m) (Fin p.m) K) = 1 := by rw [hC, Matrix.mul_one]
  have h1 := Gama.Props.C01.C01_gso p hUg a h
  have h2 := envSolve_isLS hsq p hin hreg hU 1 hP a' h' hx
  obtain ⟨u1, u2, u3⟩ := h1.unique h2 one_pd hS
  refine ⟨u1, u2, u3, ?_, ?_⟩
  · have d1 := (Gama.Props.C01.C01_gso_minimal p hUg a h).2.2.2.2.2
    have d2 := envSolve_defect_rank hsq p hin hU 1 hP a' h'
    omega
  · intro i j
    obtain ⟨Q, e1, e2, e3, e4, -, e6, -⟩ := envSolve_cofactors hsq p hin hreg hU 1 hP a' h' hx
    obtain ⟨g1, -, g3, g4⟩ := Gama.Props.C03.C03_gso p hUg
    have hN : (p.A)ᵀ * p.A = (p.A)ᵀ * (1 : Matrix (Fin p.m) (Fin p.m) K) * p.A := by rw [Matrix.mul_one]
    rw [hN] at g3 g4
    have hQ : gsoC p * (gsoC p)ᵀ = Q :=
      ginv_belongs_unique one_symm one_pd hS g3 g4 g1 (Gama.Props.C03.C03_gso_belongs p hUg) e3 e4 e2 e6
    rw [(Gama.Props.C03.C03_gso_entries p hUg a h).1 i j, e1 i j, hQ]

end Pair

end Gama.Props.C02
