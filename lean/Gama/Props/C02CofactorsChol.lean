/-
  C02 — "the algorithms give the same adjustment", clauses 1 (same defect) and 5 (same cofactors of
  the unknowns), for the pair Gram–Schmidt / Cholesky (audit `notes/CLAUSES.md`, C02 missing 1, 2).

  * `C02_chol_defect_rank`        `cholSolve` reports `defect = n − rank A`
  * `C02_same_defect_gso_chol`    `gsoSolve` and `cholSolve` report the same defect
  * `C02_same_cofactors_gso_chol` … and the same `q_xx(i,j)` for every index pair
  * `C02_same_qbb_gso_chol`       … and the same `q_bb(i,j)` (cofactors of the adjusted observations)

  Same cofactors: both solvers report a symmetric reflexive generalised inverse of `N = AᵀA` that
  belongs to the regularisation subset `S` (`C03_gso`, `C03_gso_belongs`; `C03_cholesky_cofactors`);
  when `S` resolves the defect there is only one such matrix
  (`Gama.LS.ginv_belongs_unique`, `Lemmas/Ls/ComposeGinvUnique.lean`).  Hypotheses are exactly those
  of `C02_same_gso_chol` (Props/C02Pairs.lean).

  Scalars as in Props/C02Pairs.lean: an ordered field with a square root (`Gso.SqrtField`); both
  models run at `fieldScalar SqrtField.sqrt`, i.e. on the same instance.
-/
import Gama.Props.C01.Gso
import Gama.Props.C03.Gso
import Gama.Props.C03.Chol
import Gama.Props.C03.CholBelongs
namespace Gama.Props.C02
open Gama Gama.Ls Gama.LS Gama.Ls.Gso Gama.Ls.Chol Matrix

set_option linter.unusedSectionVars false

section CholOnly
variable {K : Type} [Field K] [LinearOrder K] [IsStrictOrderedRing K] [SqrtFn K]
attribute [local instance 2000] scalarOfField

/-- **C02 clause 1, cholesky side**: the defect `AdjCholDec` reports is `n − rank A` (Mathlib rank),
    when the rejected pivot is exactly 0.  (gso: `C01_gso_minimal`, svd: `C20_svd_count`,
    envelope: `C20_env_defect_rank`.) -/
theorem C02_chol_defect_rank (p : Problem K) (a : Answer K) (h : cholSolve p = .ok a)
    (hU : UnambiguousF (cholFact p)) : a.defect + p.A.rank = p.n :=
  Gama.Props.C03.C03_chol_defect_rank p hU a h

/-- non-vacuity: the 4-point levelling loop, rejected pivot exactly 0, defect 1 (so `rank A = 3`) -/
example : ∃ a, cholSolve (Ex.pSing4 .none) = .ok a ∧ UnambiguousF (cholFact (Ex.pSing4 .none)) ∧ a.defect = 1 := by
  have hr : (cholFact (Ex.pSing4 .none)).rej = some 0 := by decide +kernel
  have h : (cholSolve (Ex.pSing4 .none)).toOption.map (fun a => a.defect) = some 1 := by decide +kernel
  obtain ⟨a, h1, h2⟩ := Ex.ok_of_toOption h
  refine ⟨a, h1, ?_, h2⟩
  intro t ht; rw [hr] at ht; left; exact (Option.some.inj ht).symm

end CholOnly

variable {K : Type} [Field K] [LinearOrder K] [IsStrictOrderedRing K] [SqrtField K]
local instance sqrtFnOfSqrtField' : SqrtFn K := ⟨SqrtField.sqrt⟩

/-- **gso = cholesky, defect** (C02 clause 1): both report `n − rank A` -/
theorem C02_same_defect_gso_chol (p : Problem K) (hUg : Gso.Unambiguous p) (hUc : UnambiguousF (cholFact p))
    (a a' : Answer K) (h : gsoSolve p = .ok a) (h' : cholSolve p = .ok a') :
    a.defect = a'.defect := by
  have h1 : a.defect + p.A.rank = p.n := (gso_count p hUg h).2
  have h2 : a'.defect + p.A.rank = p.n := C02_chol_defect_rank p a' h' hUc
  omega

/-- **gso = cholesky, cofactors of the unknowns** (C02 clause 5) on every well-posed unambiguous
    problem: the two solvers answer `q_xx(i,j)` identically for every index pair -/
theorem C02_same_cofactors_gso_chol (p : Problem K) (hUg : Gso.Unambiguous p) (hUc : UnambiguousF (cholFact p))
    (hsq : GsSqrtExact p) (hnd : ∀ S, Chol.regList p.n p.reg = some S → S.Nodup) (hS : Resolves p.A p.S)
    (a a' : Answer K) (h : gsoSolve p = .ok a) (h' : cholSolve p = .ok a') :
    ∀ i j : Fin p.n, a.qxx (i + 1) (j + 1) = a'.qxx (i + 1) (j + 1) := by
  obtain ⟨g1, g2, g3, g4⟩ := Gama.Props.C03.C03_gso p hUg
  have gb : BelongsTo p.A p.S (gsoC p * (gsoC p)ᵀ) := fun y g hg => Gama.Props.C03.C03_gso_belongs p hUg y g hg
  have hc := Gama.Props.C03.C03_chol_unique p hUc hsq hnd hS a' h' (gsoC p * (gsoC p)ᵀ) g1 g3 g4 gb
  intro i j
  rw [(Gama.Props.C03.C03_gso_entries p hUg a h).1 i j, hc i j]

/-- **gso = cholesky, cofactors of the adjusted observations** (C02 clause 6): `q_bb(i,j)` agree for
    every pair (`A Q Aᵀ` is the same for ALL g-inverses, `aqat_invariant`; no `Resolves` needed) -/
theorem C02_same_qbb_gso_chol (p : Problem K) (hUg : Gso.Unambiguous p) (hUc : UnambiguousF (cholFact p))
    (hsq : GsSqrtExact p) (a a' : Answer K) (h : gsoSolve p = .ok a) (h' : cholSolve p = .ok a') :
    ∀ i j : Fin p.m, a.qbb (i + 1) (j + 1) = a'.qbb (i + 1) (j + 1) := by
  obtain ⟨_, _, g3, _⟩ := Gama.Props.C03.C03_gso p hUg
  obtain ⟨hA, _⟩ := Gama.Props.C03.C03_gso_qbb p hUg
  obtain ⟨Q, _, q2, _, _, q5⟩ := Gama.Props.C03.C03_cholesky p hUc hsq a' h'
  have hone : ∀ X : Matrix (Fin p.n) (Fin p.n) K, (p.Aᵀ * p.A) * X * (p.Aᵀ * p.A) = p.Aᵀ * p.A →
      (p.Aᵀ * (1 : Matrix (Fin p.m) (Fin p.m) K) * p.A) * X * (p.Aᵀ * (1 : Matrix (Fin p.m) (Fin p.m) K) * p.A)
        = p.Aᵀ * (1 : Matrix (Fin p.m) (Fin p.m) K) * p.A := by
    intro X hX; simpa only [Matrix.mul_one] using hX
  have e : p.A * (gsoC p * (gsoC p)ᵀ) * p.Aᵀ = p.A * Q * p.Aᵀ :=
    aqat_invariant one_symm one_pd (hone _ g3) (hone _ q2)
  intro i j
  rw [(Gama.Props.C03.C03_gso_entries p hUg a h).2.2.1 i j, q5 i j, ← e, hA]

/-- non-vacuity: the hypotheses of the Gram–Schmidt side hold on the singular 2×2 problem of
    Props/C01/Gso.lean over ℝ (defect 1), whose subset S = {1} resolves the defect and which is
    answered; the Cholesky-side hypotheses are met on the 4-point loop with `min_x = {3}`
    (Props/C03/CholBelongs.lean, over ℚ with its partial square root).  As in Props/C02Pairs.lean
    there is no joint witness on one scalar instance: ℚ has no total lawful square root
    (`SqrtField ℚ` is uninhabited) and the model is not kernel-evaluable over ℝ. -/
example : Gso.Unambiguous Ex.pR ∧ ∃ a, gsoSolve Ex.pR = .ok a ∧ a.defect = 1 := by
  obtain ⟨a, h2, _, _, h5, _⟩ := Ex.pR_answers
  exact ⟨Ex.pR_unambiguous, a, h2, h5⟩

end Gama.Props.C02
