/-
  C16 (round 7) — source tie of the body of `Envelope::cholDec`.

  Up to round 6 the factorisation loop was tied to the source by ONE integer (`Gen.cholFirstRow`); any change inside
  the loop body was invisible to every proof.  `Gen/CholDecLoop.lean` now regenerates the whole loop nest from
  lib/gnu_gama/adj/envelope.h on every run (tools/gen/c16_choldec.py: skeleton match + every bound, index expression,
  operator and test from the text of the current tree) and the hand model is proved equal to it.
-/
import Gama.Props.C16
import Gama.Lemmas.EnvelopeGenTie
namespace Gama.Props.C16
open Gama

/-- **`Env.cholDec` is the loop nest the source contains now**, for every scalar type: default tolerance
    (`tol <= 0 → sqrt ε`), `defect_ = 0`, rows `firstRow … dim_`; per row `start = row − (e−b)`, `stop = row − 1`,
    `lowerSolve` then `diagonalSolve` on the row's cells, `s += u·u·d` with `d` walking the diagonal from `start − 1`,
    the pivot `diag[row−1] − s`, the test `|d| < tol`, the exact zero and `defect_++`.  An off-by-one in a bound or an
    index, a flipped operator, swapped solves, `<` → `<=` in the pivot test change the right-hand sides and this
    proof fails; a change of the statement structure stops the translator. -/
theorem C16_choldec_source_tie {K : Type} [Scalar K] :
    (∀ tol : K, Env.effTol tol = Gen.Chol.effTol tol) ∧
    (∀ (tol : K) (E : Env K) (row : Nat), Env.cholRow tol E row = Gen.Chol.cholRow tol E row) ∧
    Gen.cholFirstRow = Gen.Chol.firstRow ∧
    (∀ (E : Env K) (tol : K), E.cholDec tol = Gen.Chol.cholDec E tol) ∧
    Gen.Chol.solveOrder = ["lowerSolve", "diagonalSolve"] :=
  ⟨Env.effTol_eq_gen, Env.cholRow_eq_gen, rfl, Env.cholDec_eq_gen, rfl⟩

end Gama.Props.C16
