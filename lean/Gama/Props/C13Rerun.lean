/-
  C13, clause 8 — "adjusting it gives the same adjusted coordinates, residuals and statistics without needing further
  linearisation iterations" — with the REAL models (round 9).  `C13_readjustment_identical` (Props/C13.lean) is a
  statement over an abstract `adj` / `step`; here

    * the loop is `RA.refineAdjustment` over `Gen.Obsdh.refineTests` (regenerated from `refine_adjustment()`): the stopping
      tests are `refine_obsdh_reductions(this)`, `TL.testLinearization` (the regenerated `TestLinearizationVisitor`),
      `refine_obsdh_reductions(this, true)`;
    * the adjustment is `Rerun.peAdjust` = `PE.projectEquations` then `Ls.Net.netSolve alg` (`Rerun.peEnv`);
    * gama-local's call order (`refine_obsdh_reductions(IS)` before the first adjustment) is `Rerun.start` / `runLocal`.

  WHAT IS PROVED (exact codec).  The export is written after the loop stopped normally (by `break`) in the state `s'`.
  The re-imported network has the coordinates of `s'` (`C13_reimport_keeps_adjusted_coordinates`: whatever `<coordinates>`
  clusters follow) and the observations of `s'` without their `from_dh`/`to_dh` reductions (the document has `value_`,
  `from_dh`, `to_dh`; not `reduction()`).  gama-local's first `refine_obsdh_reductions(IS)` stores the reductions of these
  coordinates whatever was stored (281bcf7) — the program is IN THE STATE `s'`.  Every test of a turn is a function of the
  state, so the three tests answer "no" as they did in the last turn of the first run: ZERO iterations, the function
  returns `false`, and the adjustment reported is the first run's, field by field (`report`).  In particular the first
  correction of the re-adjustment satisfies the stopping test's misclosure bound (`StopsAt`: `TestLinearization = false`,
  every positional misclosure < 0.0005 mm-units bound of `GN.testLin`; reductions within 1 µm / 0.1 cc).
  NOTE what this does NOT say: the linearisation point of the re-adjustment is the exported point = the LAST
  linearisation point of the first run, not its adjusted coordinates (`C13_export_not_adjusted_witness`); the correction
  of the re-adjustment is the first run's last correction — small by the stopping test, not zero and not "second order".
  The zero-iteration claim needs no smallness argument: it is determinism + `stored` overwriting.

  WHAT STAYS ORACLE-ONLY.  (1) A lossy printer: the re-import starts from `quantNet n'`, a state near `s'`; the tests'
  margins (`|pol| < bound`, `|Δred| ≤ tol`) are not bounded against the quantisation (e2e oracle: no
  `<linearization-iterations>` in r1..r3, measured shift 5.5e-9 m).  (2) `Loader`: how the parsed document becomes
  `PD` / `OD` (constructors `dm*G2R`, Acord2, PD order) and, conversely, that `export_xml` writes the state (`Describes`)
  — the document ↔ network half is proved (`C13_roundtrip_network`), the network ↔ `PD`/`OD` half is tied by the `doc` and
  `net` streams only.  (3) a run that used up its iteration budget (`C13_readjustment_iterates_when_not_converged`).
  (4) observations made passive by `remove_huge_abs_terms` (F29): Props/C13Removed.lean.
-/
import Gama.Lemmas.ExportRerun
import Gama.Lemmas.ExportNet
import Gama.Lemmas.ExportQuant
import Gama.Lemmas.C06GN
import Gama.Lemmas.ExportParseNeg
import Gama.Lemmas.ExportLoader
import Gama.Lemmas.ExportObsWF
import Gama.Lemmas.ExportRerunWitness
namespace Gama.Props.C13Rerun
open Gama Gama.Lin Gama.RA Gama.Gen.Obsdh Gama.C06RA Gama.TL Gama.Rerun Gama.Export

/-- the call order `Rerun.start` / `runLocal` model is the one of src/gama-local.cpp (regeneration tie): Acord2, exactly one
    `refine_obsdh_reductions(IS);`, then the one `IS->refine_adjustment()`, then the one `IS->export_xml()`; the loop has the
    shape `Gen.Obsdh.refineTests` was read from (`refineLoopShape`, C06's translator reads the same function) -/
theorem C13_rerun_sites :
    Gen.GkfDoc.obsdhBeforeLoop = true ∧ Gen.GkfDoc.exportAfterLoop = true ∧ Gen.GkfDoc.refineLoopShape = true ∧
    refineTests = [.obsdh false, .testLin, .obsdh true] := by decide

/-- **zero iterations, real loop, any adjustment.**  `refine_adjustment()` (three regenerated tests) stopped normally in
    `s'` — from any start state, after any number of iterations, with any `Env` (adjustment, `refine_approx_coordinates`).
    A run that starts from the coordinates of `s'` and its observations as the parser builds them (`fresh`: no reduction):
    after gama-local's `refine_obsdh_reductions(IS)` it is in the state `s'`; `refine_adjustment()` with any bound ≥ 1
    leaves by `break` in its first turn, `linearization_iterations() = 0`, returns `false`; the reported adjustment
    (index fields, `solve()`, `residuals()`, `revised_obs_`) is the first run's; no test asks there.
    (`hred`: an observation no branch of `refine_obsdh_reductions` applies to carries no reduction — true of every state
    reached from parsed observations, whose reduction is the constructor's 0, as long as `test_xyz()` is not lost.) -/
theorem C13_rerun_zero_iterations (E : RA.Env ℝ) (maxIter : Nat) (s s' : St ℝ) (it : Bool)
    (h : refineAdjustment E maxIter s = some (s', true, it))
    (hred : ∀ o ∈ s'.obs, curRed s'.σ s'.xyz o = none → o.red = 0) (m : Nat) :
    start s'.σ s'.xyz (s'.obs.map fresh) = ⟨s'.σ, s'.xyz, s'.obs, 0⟩ ∧
    runLocal E (m + 1) s'.σ s'.xyz (s'.obs.map fresh) = some (⟨s'.σ, s'.xyz, s'.obs, 0⟩, true, false) ∧
    report E ⟨s'.σ, s'.xyz, s'.obs, 0⟩ = report E s' ∧ StopsAt E ⟨s'.σ, s'.xyz, s'.obs, 0⟩ :=
  rerun_zero E maxIter s s' it h hred m

/-- **the same with `project_equations()` + the solver as THE adjustment** (`peEnv`): besides the above, the reported
    adjustment of the re-run is literally `PE.projectEquations` of the network in the exported state followed by
    `netSolve alg`, both of which succeed, and `TestLinearization` of that adjustment answers "no" -/
theorem C13_rerun_zero_iterations_project_equations (alg : Ls.Alg) (frame : PE.Net ℝ)
    (ra : Lin.Net ℝ → (Nat → Bool) → List (DObs ℝ) → RA.Adj ℝ → Lin.Net ℝ × (Nat → Bool)) (fuel maxIter : Nat)
    (σ0 : Lin.Net ℝ) (xyz0 : Nat → Bool) (obs0 : List (DObs ℝ)) (s' : St ℝ) (it : Bool)
    (h : runLocal (peEnv alg frame ra fuel) maxIter σ0 xyz0 obs0 = some (s', true, it))
    (hred : ∀ o ∈ s'.obs, curRed s'.σ s'.xyz o = none → o.red = 0) (m : Nat) :
    runLocal (peEnv alg frame ra fuel) (m + 1) s'.σ s'.xyz (s'.obs.map fresh)
      = some (⟨s'.σ, s'.xyz, s'.obs, 0⟩, true, false) ∧
    ∃ np u a, PE.projectEquations (withState frame s'.σ s'.obs) = .ok (np, u) ∧ Ls.Net.netSolve alg np = .ok a ∧
      report (peEnv alg frame ra fuel) ⟨s'.σ, s'.xyz, s'.obs, 0⟩
        = some ⟨u.net.idx, a.x.toList, a.r.toList, PE.revisedObs u.net⟩ ∧
      report (peEnv alg frame ra fuel) s' = some ⟨u.net.idx, a.x.toList, a.r.toList, PE.revisedObs u.net⟩ ∧
      testLinearization s'.σ fuel u.net.idx a.x.toList a.r.toList (PE.revisedObs u.net) = some false := by
  obtain ⟨_, h2, _, adj, ha, ht, _⟩ := rerun_zero (peEnv alg frame ra fuel) maxIter _ s' it h hred m
  refine ⟨h2, ?_⟩
  have ha' : peAdjust alg frame s'.σ s'.xyz s'.obs = some adj := ha
  unfold peAdjust at ha'
  cases hp : PE.projectEquations (withState frame s'.σ s'.obs) with
  | error e => rw [hp] at ha'; cases ha'
  | ok r =>
    rcases r with ⟨np, u⟩
    rw [hp] at ha'
    simp only [] at ha'
    cases hs : Ls.Net.netSolve alg np with
    | error e => rw [hs] at ha'; cases ha'
    | ok a =>
      rw [hs] at ha'
      simp only [Option.some.injEq] at ha'
      subst ha'
      have hr : report (peEnv alg frame ra fuel) s' = some ⟨u.net.idx, a.x.toList, a.r.toList, PE.revisedObs u.net⟩ := by
        show peAdjust alg frame s'.σ s'.xyz s'.obs = _
        unfold peAdjust; rw [hp]; simp only []; rw [hs]
      exact ⟨np, u, a, rfl, hs, hr, hr, ht⟩

/-- **the document level**: gama-local on the document `n` (loader `L`, real adjustment) stopped normally in `s'`; `n'` is
    the network `export_xml` sees — it describes `s'` (`Describes`) and is well-formed; the loader does not look at points
    without status (they take no part in the adjustment; the export skips them).  Then the exported document is accepted,
    and gama-local on what the parser returns does ZERO iterations and reports the first run's adjustment.
    Exact codec (`LawfulOn R` on the representable numbers of `n'`); `K'` = the carrier of the document's numbers -/
theorem C13_readjustment_identical_real {K' : Type} {R Rd : K' → Prop} (C : Codec K') (hC : C.LawfulOn R)
    (hD : C.DegLawfulOn Rd) (impl : Export.Kind → K') (par0 : Params K') (L : Loader (Export.Net K') ℝ) (alg : Ls.Alg)
    (ra : Lin.Net ℝ → (Nat → Bool) → List (DObs ℝ) → RA.Adj ℝ → Lin.Net ℝ × (Nat → Bool)) (fuel maxIter : Nat)
    (n n' : Export.Net K') (s' : St ℝ) (it : Bool)
    (hrun : runDoc L alg ra fuel maxIter n = some (s', true, it))
    (hdesc : Describes L n n' s') (hw : n'.WF C R Rd)
    (hcanon : ∀ d, L.frame (canon d) = L.frame d ∧ L.σ (canon d) = L.σ d ∧ L.xyz (canon d) = L.xyz d ∧
      L.obs (canon d) = L.obs d)
    (hred : ∀ o ∈ s'.obs, curRed s'.σ s'.xyz o = none → o.red = 0) (m : Nat) :
    ∃ d, parseNet C impl par0 (exportNet C n') = .ok d ∧
      runDoc L alg ra fuel (m + 1) d = some (⟨s'.σ, s'.xyz, s'.obs, 0⟩, true, false) ∧
      report (peEnv alg (L.frame d) ra fuel) ⟨s'.σ, s'.xyz, s'.obs, 0⟩ = report (peEnv alg (L.frame n) ra fuel) s' := by
  refine ⟨canon n', parse_export_net C hC hD impl par0 n' hw, ?_, ?_⟩
  · obtain ⟨c1, c2, c3, c4⟩ := hcanon n'
    obtain ⟨d1, d2, d3, d4⟩ := hdesc
    unfold runDoc
    rw [c1, c2, c3, c4, d1, d2, d3, d4]
    exact (rerun_zero (peEnv alg (L.frame n) ra fuel) maxIter _ s' it hrun hred m).2.1
  · rw [(hcanon n').1, hdesc.1]; rfl

/-- **the document level WITHOUT `Loader` / `Describes` hypotheses** (round 13): the CONCRETE loader `docLoader cv` (PD order = point
    list, ids ↦ positions, `OD` in cluster / element order with the classes and `from_dh` / `to_dh`; `cv` = the conversions the
    loop does not touch) and the network `export_xml` reads in the state `s'`, `unload n s'.σ` = the parsed network with the
    coordinates of `PD`.  gama-local on `n` stopped normally in `s'`; `n` is well-formed with every point active (true of every
    re-imported network: the export skips the others); the loop left alone what it leaves alone (`SameShape`: statuses, zeros of
    missing groups, `xNorthAngle`, `test_xyz()`, the observations up to reductions) and — the one condition that is NOT
    structural — the orientations of the stand-points in `s'` are those the program computes for the exported document
    (`SameShape.ori`: the export contains no orientation; for a network without directions the clause is about unused numbers).
    Then: the exported document is accepted and read back as `unload n s'.σ` itself (`Describes` is `describes_unload`, `Net.WF`
    is `unload_WF`: proved, not assumed), and gama-local on it does ZERO iterations and reports the first run's adjustment -/
theorem C13_readjustment_identical_concrete {Rd : ℝ → Prop} (C : Codec ℝ) (hC : C.LawfulOn (fun _ => True))
    (hD : C.DegLawfulOn Rd) (impl : Export.Kind → ℝ) (par0 : Params ℝ) (cv : Conv ℝ) (alg : Ls.Alg)
    (ra : Lin.Net ℝ → (Nat → Bool) → List (DObs ℝ) → RA.Adj ℝ → Lin.Net ℝ × (Nat → Bool)) (maxIter : Nat)
    (n : Export.Net ℝ) (s' : St ℝ) (it : Bool)
    (hrun : runDoc (docLoader cv) alg ra cv.fuel maxIter n = some (s', true, it))
    (hw : n.WF C (fun _ => True) Rd) (hact : ∀ p ∈ n.points, p.active = true) (hs : SameShape cv n s')
    (hred : ∀ o ∈ s'.obs, curRed s'.σ s'.xyz o = none → o.red = 0) (m : Nat) :
    parseNet C impl par0 (exportNet C (unload n s'.σ)) = .ok (unload n s'.σ) ∧
    runDoc (docLoader cv) alg ra cv.fuel (m + 1) (unload n s'.σ) = some (⟨s'.σ, s'.xyz, s'.obs, 0⟩, true, false) ∧
    report (peEnv alg ((docLoader cv).frame (unload n s'.σ)) ra cv.fuel) ⟨s'.σ, s'.xyz, s'.obs, 0⟩
      = report (peEnv alg ((docLoader cv).frame n) ra cv.fuel) s' := by
  obtain ⟨d1, d2, d3, d4⟩ := describes_unload cv n s' hw.nodup hs
  refine ⟨?_, ?_, ?_⟩
  · rw [parse_export_net C hC hD impl par0 _ (unload_WF n s'.σ hw), unload_canon n s'.σ hact]
  · unfold runDoc
    rw [d1, d2, d3, d4]
    exact (rerun_zero (peEnv alg ((docLoader cv).frame n) ra cv.fuel) maxIter _ s' it hrun hred m).2.1
  · rw [d1]; rfl

/-- **n rounds, documents**: for every number k ≥ 1 of export–import rounds the network is the one of the first round
    (`canon n`), and every exported document is the first one — a corollary of the fixed-point theorem -/
theorem C13_rounds_fixed {K : Type} {R Rd : K → Prop} (C : Codec K) (hC : C.LawfulOn R) (hD : C.DegLawfulOn Rd)
    (impl : Export.Kind → K) (par0 : Params K) (n : Export.Net K) (hw : n.WF C R Rd) (k : Nat) :
    rounds (fun m => parseNet C impl par0 (exportNet C m)) (k + 1) n = .ok (canon n) ∧
    (rounds (fun m => parseNet C impl par0 (exportNet C m)) (k + 1) n).map (exportNet C) = .ok (exportNet C n) := by
  have h1 := parse_export_net C hC hD impl par0 n hw
  have h2 : parseNet C impl par0 (exportNet C (canon n)) = .ok (canon n) := by rw [exportNet_canon]; exact h1
  have h := rounds_stable (fun m => parseNet C impl par0 (exportNet C m)) n (canon n) h1 h2 k
  refine ⟨h, ?_⟩
  rw [h]; simp [Except.map, exportNet_canon]

/-- … and with a printer of finitely many digits (`PrinterOn`; the real `%g` / sexagesimal printers: Props/C13Codec.lean):
    after ANY number k ≥ 1 of rounds the network is `canon (quantNet n)` — the quantisation happens once — and every
    exported document is the first one -/
theorem C13_rounds_fixed_printer {K : Type} {C : Codec K} {D : K → Prop} {q qc qd : K → K} (P : C.PrinterOn D q qc qd)
    (impl : Export.Kind → K) (par0 : Params K) (n : Export.Net K) (hD : n.AngIn D)
    (hw : (quantNet C q qc qd n).WFc C (fun x => q x = x) (fun x => qc x = x) (fun x => D x ∧ qd x = x)) (k : Nat) :
    rounds (fun m => parseNet C impl par0 (exportNet C m)) (k + 1) n = .ok (canon (quantNet C q qc qd n)) ∧
    (rounds (fun m => parseNet C impl par0 (exportNet C m)) (k + 1) n).map (exportNet C) = .ok (exportNet C n) := by
  have h1 := parse_export_net_printer P impl par0 n hD hw
  have h2 : parseNet C impl par0 (exportNet C (canon (quantNet C q qc qd n))) = .ok (canon (quantNet C q qc qd n)) := by
    rw [exportNet_canon, exportNet_quant P n hD]; exact h1
  have h := rounds_stable (fun m => parseNet C impl par0 (exportNet C m)) n _ h1 h2 k
  refine ⟨h, ?_⟩
  rw [h]; simp [Except.map, exportNet_canon, exportNet_quant P n hD]

/-- **n rounds, adjustments**: after a run that stopped normally, every further export–adjust round (k = 0, 1, 2, …
    further rounds) is the same run: zero iterations, the same state -/
theorem C13_rerun_rounds (E : RA.Env ℝ) (maxIter : Nat) (s s' : St ℝ) (it : Bool)
    (h : refineAdjustment E maxIter s = some (s', true, it))
    (hred : ∀ o ∈ s'.obs, curRed s'.σ s'.xyz o = none → o.red = 0) (m k : Nat) :
    (Nat.iterate (fun r : Option (St ℝ × Bool × Bool) =>
        r.bind fun q => runLocal E (m + 1) q.1.σ q.1.xyz (q.1.obs.map fresh)) (k + 1) (some (s', true, it)))
      = some (⟨s'.σ, s'.xyz, s'.obs, 0⟩, true, false) := by
  obtain ⟨t, ht, h'⟩ := rerun_rounds E maxIter s s' it h hred m k
  rw [h', ht]

/-! ## `Net.WF` of the parser's output: why `C13_parser_establishes_wf_partial` keeps its `_partial` after 6848bc2a -/

/-- **NEG**: the full statement "`parseNet d = ok n → n.WF`" is still FALSE for the code: two families of accepted documents
    remain whose network is not well-formed (= is not a fixed point of export ∘ parse) — E2, a `<vec>` with `from_dh` /
    `to_dh` (stored by `process_vec`, deliberately not exported), and E3, a `<coordinates>` point that has no status (in
    `PD`, skipped by `export_xml`, its cluster written).  E1 (`<dh dist stdev>`) went with 9f04c51, E4 (a `<coordinates>`
    point overwritten later) with 6848bc2a.  Witnesses: the sample network's own export with one edit each (the unedited
    sample network is well-formed and its export is read back: Props/C13.lean, `sampleNet.WF`, `C13_roundtrip_network`) -/
theorem C13_parser_wf_exceptions_remain :
    (∃ n, parseNet unaryCodec (fun _ => 7) sampleNet.par docVecDh = .ok n ∧ ¬ n.WF unaryCodec (fun _ => True) (fun _ => True)) ∧
    (∃ n, parseNet unaryCodec (fun _ => 7) sampleNet.par docCoordNoStatus = .ok n ∧
      ¬ n.WF unaryCodec (fun _ => True) (fun _ => True)) := by
  exact ⟨acceptedNotWF_spec docVecDh e2_accepted, e3_not_wf⟩

/-- **the observation part of `Net.WF` IS established by the parser** (open since round 3b): every observation
    `process_distance / direction / angle / sdistance / zangle / azimuth` accept — any attribute list, any way of reading the
    value (`toDouble`, or `deg2gon` first), any inherited stand-point / instrument height — has non-empty `from` and `to`, a
    second target exactly when it is an angle, `fs_dh = 0` otherwise, and the class of its element.  With
    `C13_parser_establishes_wf_partial` (parameters, ids) and `C13_parser_cov_wf` (covariance shape) what remains of `Net.WF` for
    parser output are exactly the two exceptions above (E2, E3) and the cluster-level clauses that mention them -/
theorem C13_parser_establishes_obs_wf {K : Type} (F : NumFmt K) (rdVal : String → Option K) (cf : String) (cdh impl : K)
    (k : Export.Kind) (as : Attrs) (o : Export.Obs K) (h : parseObsV F rdVal cf cdh impl k as = .ok o) : o.WF F ∧ o.kind = k :=
  parseObsV_wf F rdVal cf cdh impl k as o h

/-! ### non-vacuity -/

/-- the hypothesis of `C13_parser_establishes_obs_wf` is met by an angle element with all its attributes (and refused without `fs`) -/
example : (∃ o, parseObs strFmt "S" "0" "7" .angle [(.bs, "B"), (.fs, "C"), (.val, "100"), (.fs_dh, "1.7")] = .ok o) ∧
    parseObs strFmt "S" "0" "7" .angle [(.bs, "B"), (.val, "100")] = .error .missingSecondTarget := by
  constructor
  · exact ⟨_, rfl⟩
  · rfl

/-- the hypotheses of `C13_rerun_zero_iterations` hold on C06's slope-distance instance (`Ex`: a 13 m slope distance to a
    target 12 m above its mark, reduction −8 m stored): the run stops normally, the observation carries a reduction a
    branch applies to, and the conclusion is the run from the FRESH observation (`red = 0`, `value()` 13 instead of 5) -/
example : ∃ f0 : Nat, ∀ fuel, f0 ≤ fuel →
    refineAdjustment (Ex.E fuel) 5 ⟨Ex.σ, Ex.xyz, [Ex.o].map (stored Ex.σ Ex.xyz), 3⟩
      = some (⟨Ex.σ, Ex.xyz, [Ex.o].map (stored Ex.σ Ex.xyz), 0⟩, true, false) ∧
    (∀ o ∈ [Ex.o].map (stored Ex.σ Ex.xyz), curRed Ex.σ Ex.xyz o = none → o.red = 0) ∧
    runLocal (Ex.E fuel) 1 Ex.σ Ex.xyz (([Ex.o].map (stored Ex.σ Ex.xyz)).map fresh)
      = some (⟨Ex.σ, Ex.xyz, [Ex.o].map (stored Ex.σ Ex.xyz), 0⟩, true, false) ∧
    (fresh (stored Ex.σ Ex.xyz Ex.o)).nobs.value = 13 ∧ (stored Ex.σ Ex.xyz Ex.o).nobs.value = 5 := by
  obtain ⟨f0, hf⟩ := refineAdjustment_fixed_point Ex.σ Ex.xyz [Ex.o] Ex.a
    (fun o ho => by rw [List.mem_singleton.1 ho]; exact Ex.exact_o)
    (fun ob hob => ⟨Ex.o, List.mem_singleton.2 rfl, List.mem_singleton.1 hob⟩)
    (fun _ => ⟨fun _ => rfl, fun _ => rfl⟩)
  refine ⟨f0, fun fuel hfu => ?_⟩
  have h1 := hf (Ex.E fuel) rfl hfu 4 3
  have hst : stored Ex.σ Ex.xyz Ex.o = { Ex.o with red := -8 } := stored_of_some _ _ _ _ Ex.curRed_o
  have hred : ∀ o ∈ [Ex.o].map (stored Ex.σ Ex.xyz), curRed Ex.σ Ex.xyz o = none → o.red = 0 := by
    intro o ho hn
    simp only [List.map_cons, List.map_nil, List.mem_singleton] at ho
    rw [ho, curRed_stored, Ex.curRed_o] at hn
    cases hn
  refine ⟨h1, hred, (C13_rerun_zero_iterations (Ex.E fuel) 5 _ _ false h1 hred 0).2.1, ?_, ?_⟩
  · rw [hst]; show (13 : ℝ) + 0 = 13; norm_num
  · rw [hst]; show (13 : ℝ) + -8 = 5; norm_num

/-- **NON-degenerate evaluated instance of `C13_rerun_zero_iterations_project_equations`** (round 13): b-W7b's levelling
    network `Ex.netWobs` over ℝ (A fixed, B constrained, C free; a correlated cluster of height differences with one switched
    off, an uncorrelated one; inconsistent right-hand side (1, 2, 4) mm, residuals (3/11, 6/11, −2/11)): `project_equations()`
    evaluates (`peO`), envelope / cholesky / gso answer (`∃ a, netSolve … = .ok a`: the answer is known through
    `C02_net_answered_iff_resolves`, not as a literal array), `TestLinearization` of ANY such answer says "no" (height
    differences have no positional misclosure), so the run of gama-local with the REAL adjustment stops normally — the
    hypotheses `h`, `hred` hold — and the theorem applied to it: the re-run from the fresh observations does zero iterations
    and reports `PE.projectEquations` + `netSolve` of the same network -/
example (alg : Ls.Alg) (halg : alg ≠ .svd)
    (ra : Lin.Net ℝ → (Nat → Bool) → List (DObs ℝ) → RA.Adj ℝ → Lin.Net ℝ × (Nat → Bool)) (fuel maxIter m : Nat) :
    ∃ s', runLocal (peEnv alg C06NZ.Ex.netWobs ra fuel) (maxIter + 1) σW xyzW obsW = some (s', true, false) ∧
      runLocal (peEnv alg C06NZ.Ex.netWobs ra fuel) (m + 1) s'.σ s'.xyz (s'.obs.map fresh)
        = some (⟨s'.σ, s'.xyz, s'.obs, 0⟩, true, false) ∧
      ∃ np u a, PE.projectEquations (withState C06NZ.Ex.netWobs s'.σ s'.obs) = .ok (np, u) ∧ Ls.Net.netSolve alg np = .ok a ∧
        report (peEnv alg C06NZ.Ex.netWobs ra fuel) ⟨s'.σ, s'.xyz, s'.obs, 0⟩
          = some ⟨u.net.idx, a.x.toList, a.r.toList, PE.revisedObs u.net⟩ := by
  obtain ⟨s', h, _, _, hred, _⟩ := netWobs_run alg halg ra fuel maxIter
  obtain ⟨h2, np, u, a, hp, hs, hr, _, _⟩ :=
    C13_rerun_zero_iterations_project_equations alg C06NZ.Ex.netWobs ra fuel (maxIter + 1) σW xyzW obsW s' false h hred m
  exact ⟨s', h, h2, np, u, a, hp, hs, hr⟩

/-- `peEnv` on the EMPTY network (DEGENERATE: the only network on which `PE.projectEquations` / `netSolve` evaluate by
    `rfl` over ℝ; an evaluated non-degenerate PE ∘ netSolve instance exists over ℚ only, `PE.Ex.netW`): the run stops
    normally with zero iterations, so the hypotheses of `C13_rerun_zero_iterations_project_equations` hold together -/
example : runLocal (peEnv .env emptyFrame (fun n z _ _ => (n, z)) 0) 3 Ex.σ Ex.xyz []
    = some (⟨Ex.σ, Ex.xyz, [], 0⟩, true, false) := by
  have ht : testLinearization Ex.σ 0 IdxState.init ([] : List ℝ) [] [] = some false := by
    show (some ([] : List ℝ)).map GN.testLin = some false
    simp only [Option.map_some]
    exact congrArg some (C06L.testLin_zeros 0)
  have ha : peAdjust .env emptyFrame Ex.σ Ex.xyz [] = some ⟨IdxState.init, [], [], []⟩ := rfl
  simp only [runLocal, start, refineAdjustment, loop, refineTests, runTests, runTest, peEnv, ha, refineObsdh, obsdhFrom, ht,
    Option.map_some, lt_self_iff_false, decide_false]

/-- `SameShape` is satisfiable by a state that MOVED (levelling: `B` 110 → 110.002 after two iterations), the network
    `export_xml` reads then has the moved height, and `Describes` — a hypothesis in round 9 — holds of it by `describes_unload`
    (the run itself, `hrun`, is witnessed separately on `Ex.netWobs`: `Lemmas/ExportRerunWitness.lean`) -/
example : SameShape cvId levNet levState ∧
    (unload levNet levState.σ).points.map (·.z) = [some 100, some (110 + 2 / 1000)] ∧
    Describes (docLoader cvId) levNet (unload levNet levState.σ) levState :=
  ⟨levState_sameShape, levState_unload,
   describes_unload cvId levNet levState levNet_nodup levState_sameShape⟩

/-- `rounds` on a concrete partial round function: 0 ↦ 5, 5 ↦ 5: every k ≥ 1 gives 5 -/
example : (List.range 4).map (fun k => rounds (fun n : Nat => if n = 7 then Except.error "refused" else Except.ok 5) (k + 1) 0)
    = [.ok 5, .ok 5, .ok 5, .ok 5] := by decide

end Gama.Props.C13Rerun
