/-
  C11 (gama-g3 / adjustment-input reader) — any input is either read or refused with a located diagnostic.
  Property theorems about GNU_gama::DataParser only; helper lemmas live in Gama/Lemmas/DataParser.lean.
  The tables (`row` = next/stag, `after`, `dataH`, `etag`) and the handler skeletons (`startProg`, `endProg`,
  `dataProg`) are REGENERATED from dataparser*.cpp/.h on every run; the theorems are re-checked against what the
  code says now.  They hold for ALL event sequences and ALL outcomes of the data-dependent conditions.
-/
import Gama.Lemmas.DataParser
namespace Gama.Props.C11
open Gama Gama.DP

/-- the tables decide every (state, tag) pair: it is refused — handler `parser_error`, which calls `error()` on every
    path, target `s_error` — or it is a real transition — another handler, a target other than `s_error`, out of a
    state other than `s_error`, for a known tag; and no `etag` entry is a null member pointer.
    (Index ranges: `State` / `Tag` are the enumerations; the translator checks that the default fill covers the
    arrays and that every `init()` argument is an enumerator.) -/
theorem C11_dp_total (s : State) (t : Tag) :
    ((stag s t = .h_parser_error ∧ next s t = .s_error ∧
        ∀ c d st, (exec (startProg (stag s t)) c d st).1.err.isSome = true) ∨
     (stag s t ≠ .h_parser_error ∧ next s t ≠ .s_error ∧ s ≠ .s_error ∧ t ≠ .t_unknown)) ∧
    etag s ≠ .null_ := by
  refine ⟨?_, etag_ne_null s⟩
  rcases table_total s t with ⟨h1, h2⟩ | h
  · left
    refine ⟨h1, h2, ?_⟩
    intro c d st
    rw [h1, parser_error_exec]
    exact error_err_isSome _ _
  · right; exact h

/-- the error state is absorbing: whatever events follow, `state` stays `s_error`
    (needs `after[s_error] == s_error`, row `s_error` of next/stag/data/etag untouched by `init()`) -/
theorem C11_dp_error_absorbing (evs : List Event) (st : St) (h : st.state = .s_error) :
    (run st evs).state = .s_error := run_error_absorbing evs st h

/-- first error wins: a recorded error (line, message) is never overwritten -/
theorem C11_dp_first_error_wins (evs : List Event) (st : St) (e : Nat × ErrKind) (h : st.err = some e) :
    (run st evs).err = some e := run_err_preserved evs st e h

/-- the recorded error is that of the first offending event: it carries that event's position,
    no error was recorded before it, and it is there right after it -/
theorem C11_dp_error_located (evs : List Event) (i : Nat) (k : ErrKind)
    (h : (run St.init evs).err = some (i, k)) :
    i < evs.length ∧ (run St.init (evs.take i)).err = none ∧
      (run St.init (evs.take (i + 1))).err = some (i, k) := by
  have := run_err_located evs St.init i k rfl h
  simpa [St.init] using this.2

/-- a recorded error is never lost: once `error()` has been called the run ends in `s_error`, i.e. `xml_parse`
    throws — although handlers go on after a failed check (`no_attributes(..); state = next[state][tag(name)];`,
    `error(..)` without `return`): every assignment they execute then is `next[s_error][·]` / `after[s_error]`.
    By evaluation of every path of every handler in every state (`stateOk`, `errorOk`). -/
theorem C11_dp_error_never_lost (evs : List Event) (h : (run St.init evs).err.isSome) :
    (run St.init evs).state = .s_error :=
  ((good_iff _).mp (run_good evs St.init init_good)).mpr h

/-- refused ⇒ located: a run that ends in `s_error` has a recorded error, which (`C11_dp_error_located`) carries
    the position of the first offending event — `error()` is the only way into `s_error`: no `init()` names
    `s_error` as a target and `end_tag` calls `error()` when `after[state]` is `s_error`.
    For EVERY event sequence (also end tags with nothing open). -/
theorem C11_dp_diag_has_line (evs : List Event) (h : (run St.init evs).state = .s_error) :
    (run St.init evs).err.isSome :=
  ((good_iff _).mp (run_good evs St.init init_good)).mp h

/-- accepted ⇒ `error()` was never called -/
theorem C11_dp_accepted_clean (evs : List Event) (h : (run St.init evs).state ≠ .s_error) :
    (run St.init evs).err = none := by
  cases he : (run St.init evs).err with
  | none => rfl
  | some e => exact absurd (C11_dp_error_never_lost evs (by simp [he])) h

/-- `stag[state][tag(name)]`: reading `state` before or after the call of `tag()` (which may call `error()`)
    gives the same result — the order is unspecified in C++14 -/
theorem C11_dp_eval_order (st : St) (t : Tag) (ae : Bool) (d : List Bool) :
    reactStartTagFirst st t ae d = react st (.start t ae d) := react_start_order st t ae d

/-- chunked delivery does not change acceptance -/
theorem C11_dp_chunking_accept (cs : List (List Event)) (st : St) :
    (runChunks st cs).state = .s_error ↔ (run st cs.flatten).state = .s_error := runChunks_error_iff cs st

/-- end and text handlers never use `tag(name)` or the attribute list -/
theorem C11_dp_end_text_plain : (∀ h : EndH, (endProg h).plain = true) ∧ (∀ h : DataH, (dataProg h).plain = true) :=
  ⟨end_plain, data_plain⟩

/-- coding discipline of the generic handlers `start_tag`, `end_tag`, `parser_error`: no assignment to `state`
    is executed after a check of the same call has failed -/
theorem C11_dp_generic_guarded :
    (startProg .h_start_tag).guarded = true ∧ endTagProg.guarded = true ∧ (startProg .h_parser_error).guarded = true := by
  decide

/-! ### non-vacuity -/

/-- a small gama-g3 document (constants with an ellipsoid given by a / b, a point, an observation with its
    covariance matrix, a <text>) is accepted: the run ends in `s_stop`, no error -/
example :
    let o' (t : Tag) (txt : String) (d : List Bool) : List Event := [.start t true [], .text txt.toList [], .stop d]
    let o (t : Tag) (txt : String) : List Event := o' t txt []
    let evs : List Event :=
      [.start .t_gama_data false [false], .text ['\n'] []] ++ o .t_text "demo" ++
      [.start .t_g3_model true [], .start .t_constants true []] ++ o .t_apriori_sd "10" ++
      [.start .t_ang_gons true [], .stop [], .start .t_ellipsoid true []] ++ o .t_a "6378137" ++ o .t_b "6356752.3" ++
      [.stop [], .stop [], .start .t_fixed true [], .start .t_n true [], .stop [], .stop [],
       .start .t_point true []] ++ o' .t_id "A" [false] ++ o .t_x "1" ++ o .t_y "2" ++ o' .t_z "3" [false] ++ [.stop [false],
       .start .t_obs true [], .start .t_dist true []] ++ o .t_from "A" ++ o .t_to "B" ++ o .t_val "10" ++
      [.start .t_stdev true [], .text "5".toList [false], .stop [], .stop [],
       .start .t_covmat true []] ++ o .t_dim "1" ++ o .t_band "0" ++ o .t_flt "25" ++
      [.stop [false, false, false, false, false, false], .stop [false, false, false, false], .stop [], .stop []]
    (run St.init evs).state = .s_stop ∧ (run St.init evs).err = none ∧ 60 ≤ evs.length := by decide +kernel

/-- an element that is not allowed where it stands: refused, located at that event (index 3), and the
    following end tags do not take the automaton out of `s_error` -/
example :
    let evs : List Event :=
      [.start .t_gama_data true [], .start .t_g3_model true [], .start .t_constants true [],
       .start .t_point true [], .stop [], .stop [], .stop [], .stop []]
    (run St.init evs).state = .s_error ∧ (run St.init evs).err = some (3, .context) := by decide

/-- unknown element, attribute on an element that takes none, failed value check, text where none is allowed,
    end tag without a transition: each is recorded with its kind and position -/
example : (run St.init [.start .t_gama_data true [], .start .t_unknown true []]).err = some (1, .unknown_tag) := by decide
example : (run St.init [.start .t_gama_data true [], .start .t_g3_model false []]).err = some (1, .attributes) ∧
    (run St.init [.start .t_gama_data true [], .start .t_g3_model false []]).state = .s_error := by decide
example : (run St.init [.start .t_gama_data false [true]]).err = some (0, .attributes) := by decide
example :
    let evs : List Event := [.start .t_gama_data true [], .start .t_g3_model true [], .start .t_point true [],
      .start .t_id true [], .text "a b".toList [], .stop [true]]
    (run St.init evs).err = some (5, .data) ∧ (run St.init evs).state = .s_error := by decide
example : (run St.init [.start .t_gama_data true [], .text "x".toList []]).err = some (1, .text) := by decide
example : (run St.init [.stop []]).err = some (0, .end_tag) ∧ (run St.init [.stop []]).state = .s_error := by decide

/-- the hypotheses of `C11_dp_error_absorbing` / `C11_dp_first_error_wins` are met by a reachable state -/
example : (run St.init [.start .t_angle true []]).state = .s_error ∧
    (run St.init [.start .t_angle true []]).err = some (0, .context) := by decide

/-- both alternatives of `C11_dp_total` occur -/
example : stag .s_g3_model .t_point = .h_start_tag ∧ next .s_g3_model .t_point = .s_g3_point_1 ∧
    stag .s_g3_model .t_flt = .h_parser_error := by decide

/-- handlers that continue after a failed check exist (the invariant is not a matter of coding style) -/
example : (startProg .h_g3_model).guarded = false ∧ (endProg .h_sparse_mat).guarded = false := by decide

end Gama.Props.C11
