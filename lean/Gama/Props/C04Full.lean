/-
  C04 — Solver answers do not depend on the order or history of queries; second part:
  the full-matrix solvers `AdjCholDec`, `AdjGSO`, `AdjSVD` (with the internal state of
  `GNU_gama::SVD`), the general class `Adj`, and `LocalNetwork`'s update cascade.
  Property theorems only; models in Model/FullState.lean, Model/AdjState.lean,
  Model/NetState.lean + Gen/NetCascade.lean; lemmas in Lemmas/FullState.lean, AdjState.lean,
  NetState.lean.

  Same shape as the envelope part (Props/C04.lean): the objects are modelled as state machines
  with their flags and cached artefacts; every answer is a symbolic term naming the artefacts
  (and their provenance) it was read from; after ANY finite history the answer equals the
  answer of a fresh object with the current configuration.

  Quantifier.  The single-input theorems (`full_history_free`, `svd_*`, `adj_*`, `net_*`) assume that the
  `min_x` lists resolve the defect (`Op.Ok`, `CfgOk`, `AInput.Ok`, `inp.throws = false`).  For chol / gso the
  multi-input theorem `full_history_free_across_inputs` has NO such hypothesis: histories that contain refused
  solves (BadRegularization; `is_solved` is set before the throw) are covered, the region where the object
  differs from a fresh one is characterised exactly (`Pending`) and — round 9 — shown to be a region of genuine
  difference (`full_pending_differs_from_fresh`; svd: `svd_pending_differs_from_fresh` with its own `PendingS`).
-/
import Gama.Lemmas.FullState
import Gama.Lemmas.AdjState
import Gama.Lemmas.NetState
import Gama.Lemmas.NetStateSolver
import Gama.Lemmas.FullHist
import Gama.Lemmas.AdjHist
import Gama.Lemmas.AdjBuf
import Gama.Lemmas.FullDenote
import Gama.Lemmas.FullRefusal
import Gama.Lemmas.FullDenoteFree
namespace Gama.Props.C04
open Gama Gama.C04 Gama.C04.Full Gama.C04.AdjM Gama.C04.Net

/-! ### `AdjCholDec`, `AdjGSO` -/

/-- **History freedom.**  After any finite sequence of API calls (queries, `min_x()`,
    `min_x(list)`, `reset(same A, b)`) every query is answered exactly as a brand-new object
    configured with the current regularisation would answer it. -/
theorem full_history_free (k : Kind) (inp : Full.Input) (ua : Bool) (l0 : Option (List Nat))
    (h0 : CfgOk k inp ua l0) (ops : List Full.Op) (hops : ∀ o ∈ ops, o.Ok inp) (op : Full.Op) (hop : op.Ok inp) :
    let s := Full.run k inp (Full.init ua l0) ops
    (Full.step k inp s op).2 = Full.fresh k inp s.useAll s.list op :=
  Full.step_eq_fresh (Full.run_inv h0 hops) op hop

/-- the invariant behind it: whenever `is_solved` is set, `x`, `G` / the orthogonalised matrix were
    computed for the effective regularisation list, which is the list stored in the object -/
theorem full_invariant (k : Kind) (inp : Full.Input) (ua : Bool) (l0 : Option (List Nat))
    (h0 : CfgOk k inp ua l0) (ops : List Full.Op) (hops : ∀ o ∈ ops, o.Ok inp) :
    Full.Inv k inp (Full.run k inp (Full.init ua l0) ops) :=
  Full.run_inv h0 hops

/-- **One value per question.**  The answer is a function of the input and the effective list. -/
theorem full_answer_is_spec (k : Kind) (inp : Full.Input) (ua : Bool) (l0 : Option (List Nat))
    (h0 : CfgOk k inp ua l0) (ops : List Full.Op) (hops : ∀ o ∈ ops, o.Ok inp) (op : Full.Op) (hop : op.Ok inp) :
    let s := Full.run k inp (Full.init ua l0) ops
    (Full.step k inp s op).2 = Full.spec k inp (Full.eff inp s) op :=
  (Full.step_spec (Full.run_inv h0 hops) op hop).2.1

/-- **Idempotence.** -/
theorem full_idempotent (k : Kind) (inp : Full.Input) (ua : Bool) (l0 : Option (List Nat))
    (h0 : CfgOk k inp ua l0) (ops : List Full.Op) (hops : ∀ o ∈ ops, o.Ok inp) (q : Full.Op) (hq : q.IsQuery) :
    let s := Full.run k inp (Full.init ua l0) ops
    (Full.step k inp (Full.step k inp s q).1 q).2 = (Full.step k inp s q).2 :=
  Full.step_twice (Full.run_inv h0 hops) q (by cases q <;> simp_all [Full.Op.Ok, Full.Op.IsQuery]) hq

/-- **Reset with the same input** changes no answer. -/
theorem full_reset_same_input (k : Kind) (inp : Full.Input) (ua : Bool) (l0 : Option (List Nat))
    (h0 : CfgOk k inp ua l0) (ops : List Full.Op) (hops : ∀ o ∈ ops, o.Ok inp) (q : Full.Op) (hq : q.Ok inp) :
    let s := Full.run k inp (Full.init ua l0) ops
    (Full.step k inp (Full.step k inp s .reset).1 q).2 = (Full.step k inp s q).2 :=
  Full.step_after_reset (Full.run_inv h0 hops) q hq

/-- non-vacuity (chol, defect 2 of 5): queries, a subset, back to all (list materialised by `solve`),
    reset; the final `q_xx` reads `T` over the list `x` and `G` were computed for -/
example :
    let inp : Full.Input := { n := 5, nullity := 2, resolves := fun l => decide (2 ≤ l.length) }
    let ops := [Full.Op.qxx 1 5, .defect, .minx [1, 2, 3], .unknowns, .qbx 2 1, .minxAll, .lindep 3,
                .reset, .qbb 1 2, .minx [4, 5], .sumsq]
    CfgOk .chol inp true none ∧ (∀ o ∈ ops, o.Ok inp)
    ∧ (Full.step .chol inp (Full.run .chol inp (Full.init true none) ops) (.qxx 1 5)).2
        = .qxx 1 5 (some [4, 5]) (.reg [4, 5]) := by
  refine ⟨⟨by decide, by decide, by decide, (by intro hk hu; first | exact Or.inl rfl | exact absurd hk (by decide) | exact absurd hu (by decide)), by decide⟩, by decide, by decide⟩

/-- non-vacuity (gso) -/
example :
    let inp : Full.Input := { n := 4, nullity := 1, resolves := fun l => decide (1 ≤ l.length) }
    let ops := [Full.Op.unknowns, .minx [2], .qxx 1 1, .minxAll, .defect]
    CfgOk .gso inp false (some [1, 3]) ∧ (∀ o ∈ ops, o.Ok inp)
    ∧ (Full.step .gso inp (Full.run .gso inp (Full.init false (some [1, 3])) ops) .unknowns).2
        = .x (.reg [1, 2, 3, 4]) := by
  refine ⟨⟨by decide, by decide, by decide, (by intro hk hu; first | exact Or.inl rfl | exact absurd hk (by decide) | exact absurd hu (by decide)), by decide⟩, by decide, by decide⟩

/-- a list that does not resolve the defect (outside `CfgOk` of the single-input theorems above, INSIDE
    `full_history_free_across_inputs`: this is its `Pending` state): both classes set `is_solved = true` before they
    throw, so the second identical query does not throw but returns the half-regularised artefact, where a fresh
    object refuses (`full_pending_differs_from_fresh`) -/
example :
    let inp : Full.Input := { n := 4, nullity := 2, resolves := fun l => decide (2 ≤ l.length) }
    let s1 := (Full.step .chol inp (Full.init false (some [1])) .unknowns)
    s1.2 = .badReg ∧ (Full.step .chol inp s1.1 .unknowns).2 = .x (.broken [1]) := by decide

/-! ### `AdjSVD` on `SVD` -/

theorem svd_history_free (inp : Full.Input) (sub : Bool) (l0 : Option (List Nat))
    (h0 : SCfgOk inp sub l0) (ops : List Full.Op) (hops : ∀ o ∈ ops, o.Ok inp) (op : Full.Op) (hop : op.Ok inp) :
    let s := Full.srun inp (Full.sinit sub l0) ops
    (Full.sstep inp s op).2 = Full.sfresh inp s.sub s.list op :=
  Full.sstep_eq_fresh (Full.srun_inv h0 hops) op hop

/-- the invariant: `decomposed` ⇒ `defect` is known, `minV` holds the plain `V` on a singular
    system, and `V_` is regularised for exactly the configured list; `is_solved` ⇒ decomposed and
    `x` was computed with that `V_` -/
theorem svd_invariant (inp : Full.Input) (sub : Bool) (l0 : Option (List Nat))
    (h0 : SCfgOk inp sub l0) (ops : List Full.Op) (hops : ∀ o ∈ ops, o.Ok inp) :
    Full.SInv inp (Full.srun inp (Full.sinit sub l0) ops) :=
  Full.srun_inv h0 hops

theorem svd_answer_is_spec (inp : Full.Input) (sub : Bool) (l0 : Option (List Nat))
    (h0 : SCfgOk inp sub l0) (ops : List Full.Op) (hops : ∀ o ∈ ops, o.Ok inp) (op : Full.Op) (hop : op.Ok inp) :
    let s := Full.srun inp (Full.sinit sub l0) ops
    (Full.sstep inp s op).2 = Full.sspec inp (Full.seff s) op :=
  (Full.sstep_spec (Full.srun_inv h0 hops) op hop).2.1

theorem svd_idempotent (inp : Full.Input) (sub : Bool) (l0 : Option (List Nat))
    (h0 : SCfgOk inp sub l0) (ops : List Full.Op) (hops : ∀ o ∈ ops, o.Ok inp) (q : Full.Op) (hq : q.IsQuery) :
    let s := Full.srun inp (Full.sinit sub l0) ops
    (Full.sstep inp (Full.sstep inp s q).1 q).2 = (Full.sstep inp s q).2 :=
  Full.sstep_twice (Full.srun_inv h0 hops) q (by cases q <;> simp_all [Full.Op.Ok, Full.Op.IsQuery]) hq

theorem svd_reset_same_input (inp : Full.Input) (sub : Bool) (l0 : Option (List Nat))
    (h0 : SCfgOk inp sub l0) (ops : List Full.Op) (hops : ∀ o ∈ ops, o.Ok inp) (q : Full.Op) (hq : q.Ok inp) :
    let s := Full.srun inp (Full.sinit sub l0) ops
    (Full.sstep inp (Full.sstep inp s .reset).1 q).2 = (Full.sstep inp s q).2 :=
  Full.sstep_after_reset (Full.srun_inv h0 hops) q hq

/-- non-vacuity: `defect()` decomposes without solving, `min_x(list)` re-regularises the saved
    `V` at once, `min_x()` restores it, `solve` re-decomposes; the last `q_xx` reads `V_` for [2,3] -/
example :
    let inp : Full.Input := { n := 4, nullity := 1, resolves := fun l => decide (1 ≤ l.length) }
    let ops := [Full.Op.defect, .minx [1], .lindep 2, .qxx 1 1, .minxAll, .unknowns, .reset, .defect, .minx [2, 3]]
    SCfgOk inp false none ∧ (∀ o ∈ ops, o.Ok inp)
    ∧ (Full.srun inp (Full.sinit false none) ops).vprov = .reg [2, 3]
    ∧ (Full.srun inp (Full.sinit false none) ops).solved = false
    ∧ (Full.sstep inp (Full.srun inp (Full.sinit false none) ops) (.qxx 1 4)).2 = .qxx 1 4 none (.reg [2, 3]) := by
  refine ⟨⟨by decide, by decide, by decide⟩, by decide, by decide, by decide, by decide⟩

/-- outside `SCfgOk`/`ValidS` (the svd theorems above still assume resolving lists; the region is `PendingS`, see
    `svd_pending_differs_from_fresh`): `SVD::min_x(list)` throws from inside `AdjSVD::min_x` *before*
    `is_solved = false` is reached — the old `x` stays cached for the new list -/
example :
    let inp : Full.Input := { n := 4, nullity := 2, resolves := fun l => decide (2 ≤ l.length) }
    let s1 := (Full.sstep inp (Full.sinit false none) .unknowns).1
    let s2 := Full.sstep inp s1 (.minx [1])
    s2.2 = .badReg ∧ s2.1.solved = true ∧ (Full.sstep inp s2.1 .unknowns).2 = .x .plain := by decide

/-! ### class `Adj` -/

/-- **History freedom.**  After any sequence of `x`, `r`, `rtr`, `defect`, `q_xx`, `q_bb`,
    `set_algorithm`, `set(same data)` every answer is the one a brand-new `Adj` with the currently
    selected algorithm gives: computed by a solver object of that algorithm, created for the
    current data, whose own answer is its history-free one. -/
theorem adj_history_free (inp : AInput) (hok : inp.Ok) (a0 : AdjM.Alg) (ops : List AOp)
    (hops : ∀ o ∈ ops, o.Valid inp.env.n) (op : AOp) (hop : op.Valid inp.env.n) :
    let s := arun inp (ainit a0) ops
    (astep inp s op).2 = afresh inp s.alg op :=
  astep_eq_fresh hok (arun_inv hok (ainv_init inp a0) hops) op hop

theorem adj_answer_is_spec (inp : AInput) (hok : inp.Ok) (a0 : AdjM.Alg) (ops : List AOp)
    (hops : ∀ o ∈ ops, o.Valid inp.env.n) (op : AOp) (hop : op.Valid inp.env.n) :
    let s := arun inp (ainit a0) ops
    (astep inp s op).2 = aspec inp s.alg op :=
  (astep_spec hok (arun_inv hok (ainv_init inp a0) hops) op hop).2.1

theorem adj_idempotent (inp : AInput) (hok : inp.Ok) (a0 : AdjM.Alg) (ops : List AOp)
    (hops : ∀ o ∈ ops, o.Valid inp.env.n) (q : AOp) (hq : q.Valid inp.env.n) (hquery : q.IsQuery) :
    let s := arun inp (ainit a0) ops
    (astep inp (astep inp s q).1 q).2 = (astep inp s q).2 :=
  astep_twice hok (arun_inv hok (ainv_init inp a0) hops) q hq hquery

/-- `set(same data)` changes no answer -/
theorem adj_reset_same_input (inp : AInput) (hok : inp.Ok) (a0 : AdjM.Alg) (ops : List AOp)
    (hops : ∀ o ∈ ops, o.Valid inp.env.n) (q : AOp) (hq : q.Valid inp.env.n) :
    let s := arun inp (ainit a0) ops
    (astep inp (astep inp s .set).1 q).2 = (astep inp s q).2 :=
  astep_after_set hok (arun_inv hok (ainv_init inp a0) hops) q hq

/-- **Switching the algorithm and back** (with any queries in between) changes no answer, and every
    answer is produced by an object of the currently selected algorithm. -/
theorem adj_set_algorithm_roundtrip (inp : AInput) (hok : inp.Ok) (a0 : AdjM.Alg) (ops : List AOp)
    (hops : ∀ o ∈ ops, o.Valid inp.env.n) (a : AdjM.Alg) (mid : List AOp) (hmid : ∀ o ∈ mid, o.Valid inp.env.n ∧ o.IsQuery)
    (q : AOp) (hq : q.Valid inp.env.n) (hquery : q.IsQuery) :
    let s := arun inp (ainit a0) ops
    (astep inp (astep inp (arun inp (astep inp s (.setAlg a)).1 mid) (.setAlg s.alg)).1 q).2 = (astep inp s q).2
    ∧ (astep inp s q).2.by? = some s.alg := by
  intro s
  have hs := arun_inv hok (ainv_init inp a0) hops
  refine ⟨astep_roundtrip hok hs a mid hmid q hq, ?_⟩
  rw [(astep_spec hok hs q hq).2.1]
  exact aspec_by inp _ q hquery

/-- non-vacuity (Adj): an admissible input (defect 1, list [1,2] stored with the data), a history
    with two algorithm switches and a `set(same data)`; `q_bb(1,2)` walks rows 1 and 2 of A -/
example :
    let fi : Full.Input := { n := 3, nullity := 1, resolves := fun l => decide (1 ≤ l.length) }
    let inp : AInput :=
      { env := { n := 3, nullity := 1, invp := fun i => i, inEnv := fun i j => (max i j) - (min i j) ≤ 1,
                 resolves := fun l => decide (1 ≤ l.length), qbbIn := fun _ _ => true },
        chol := fi, gso := fi, svd := fi, minx := some [1, 2], rows := fun _ => [1, 2] }
    let ops := [AOp.x, .setAlg .svd, .qxx 1 3, .defect, .set, .setAlg .chol, .rtr]
    inp.Ok ∧ (∀ o ∈ ops, o.Valid inp.env.n)
    ∧ (astep inp (arun inp (ainit .env) ops) (.qbb 1 2)).2
        = .qbb .chol [.full (.qxx 1 1 (some [1, 2]) (.reg [1, 2])), .full (.qxx 2 1 (some [1, 2]) (.reg [1, 2])),
                      .full (.qxx 1 2 (some [1, 2]) (.reg [1, 2])), .full (.qxx 2 2 (some [1, 2]) (.reg [1, 2]))] := by
  refine ⟨⟨fun i h _ => h, ?_, by decide, ⟨by decide, by decide, by decide, (by intro hk hu; first | exact Or.inl rfl | exact absurd hk (by decide) | exact absurd hu (by decide)), by decide⟩,
           ⟨by decide, by decide, by decide, (by intro hk hu; first | exact Or.inl rfl | exact absurd hk (by decide) | exact absurd hu (by decide)), by decide⟩, ⟨by decide, by decide, by decide⟩⟩,
          by decide, by decide⟩
  intro i c hc
  simp at hc
  rcases hc with rfl | rfl <;> exact ⟨by decide, by decide⟩


/-! ### across resets to OTHER inputs (round 3)

The current input is part of the state; `resetNew inp'` / `setData inp'` hand the object another
problem (any size, regular or singular).  What survives physically is state of the models
(Model/FullHist.lean, Model/AdjHist.lean).  Quantifier: chol / gso — none (`full_history_free_across_inputs`
covers refused solves; `ValidF` only in the `…_resolving` corollary and in `full_invariant_across_inputs`);
svd and `Adj` — the regularisation the object is configured with resolves the defect of every input it is given
(`ValidS`, `AInput.Ok`/`HAValid`). -/

/-- **chol, gso: history freedom across inputs — refusals included (round 5).**  No hypothesis on the inputs, the
    lists or the outcomes: after ANY history of queries, `min_x…`, `reset`, `reset(A', b')` — any of the solves may
    have been refused with BadRegularization — every answer, a refusal included, is that of a brand-new object given
    the CURRENT input and configuration, unless the refusal of this very input under this very configuration has
    already been delivered and nothing cleared `is_solved` since (`Pending`: both classes set `is_solved = true`
    before they throw, `null_space()` reads `defect()/lindep()` next; a fresh object refuses there — second part).
    A refusal never reaches another problem or configuration.  For gso this is the statement that the ICGS error
    counter (state `FState.err`) is reset on every `solve()`; the sites are regenerated (Gen/IcgsError.lean) and the
    variant of seeded/C20-seed3 violates it (`C20_gso_refusal_sticky_with_reset_behind_early_return`). -/
theorem full_history_free_across_inputs (k : Kind) (inp0 : Full.Input) (ua : Bool) (l0 : Option (List Nat))
    (ops : List Full.HOp) (op : Full.Op) :
    let h := hfrun k ⟨inp0, Full.init ua l0⟩ ops
    (¬ Pending k h.inp h.s → (hfstep k h (.q op)).2 = Full.fresh k h.inp h.s.useAll h.s.list op) ∧
    (Pending k h.inp h.s → op.IsQuery → Full.fresh k h.inp h.s.useAll h.s.list op = .badReg) ∧
    (op.IsQuery → (Full.fresh k h.inp h.s.useAll h.s.list op = .badReg ↔
        (0 < h.inp.nullity ∧ h.inp.resolves (effM k h.inp h.s) = false))) := by
  intro h
  have hi := hfrunR k ⟨inp0, Full.init ua l0⟩ (invR_unsolved _ _ _ rfl) ops
  refine ⟨(stepR k h.inp h.s hi op).2, fun hp hq => pending_fresh_refuses k h.inp h.s hp op hq, fun hq => ?_⟩
  rw [fresh_refused_iff k h.inp _ _ op hq]
  unfold Refuses
  rw [← effM_cfg]

/-- the refusal-inclusive invariant behind it: a solved object is, field by field (error counter included), what a
    fresh object with the same configuration becomes by solving the current input -/
theorem full_invariant_with_refusals (k : Kind) (inp0 : Full.Input) (ua : Bool) (l0 : Option (List Nat))
    (ops : List Full.HOp) :
    let h := hfrun k ⟨inp0, Full.init ua l0⟩ ops
    h.s.solved = true → (Full.solve k h.inp (Full.init h.s.useAll h.s.list)).1 = h.s :=
  hfrunR k ⟨inp0, Full.init ua l0⟩ (invR_unsolved _ _ _ rfl) ops

/-- the round-3 statement (histories whose configurations resolve every defect: `ValidF`) is the special case in which
    no refusal is ever pending -/
theorem full_history_free_across_inputs_resolving (k : Kind) (inp0 : Full.Input) (ua : Bool) (l0 : Option (List Nat))
    (h0 : CfgOk k inp0 ua l0) (ops : List Full.HOp) (hops : ValidF k ⟨inp0, Full.init ua l0⟩ ops)
    (op : Full.Op) (hop : op.Ok (hfrun k ⟨inp0, Full.init ua l0⟩ ops).inp) :
    let h := hfrun k ⟨inp0, Full.init ua l0⟩ ops
    (hfstep k h (.q op)).2 = Full.fresh k h.inp h.s.useAll h.s.list op := by
  intro h
  have _ := hop
  have hinv := hfrun_inv (h := ⟨inp0, Full.init ua l0⟩) h0 hops
  refine (full_history_free_across_inputs k inp0 ua l0 ops op).1 ?_
  rintro ⟨_, h0', hr⟩
  have he : effM k h.inp h.s = Full.eff h.inp h.s := by
    cases k with
    | gso => exact effM_gso _ _
    | chol => exact effM_chol _ _ (Nat.lt_of_lt_of_le h0' hinv.wf) (hinv.all rfl)
  rw [he] at hr
  rcases hinv.cfg with hc | hc
  · exact absurd hc (Nat.pos_iff_ne_zero.1 h0')
  · rw [hc] at hr; exact absurd hr (by decide)

/-- non-vacuity of the refusal-inclusive theorem (gso and chol): a singular system with a list too short for its
    defect is refused; `reset` to a regular system, to a singular one the list resolves and back: the answers are
    `x`, `x` over the list, and the refusal again — each what a fresh object gives; and the `Pending` state exists:
    right after the refusal the same query returns the abandoned artefact -/
example :
    let a : Full.Input := { n := 6, nullity := 3, resolves := fun l => decide (3 ≤ l.length) }
    let b : Full.Input := { n := 4, nullity := 0, resolves := fun _ => true }
    let c : Full.Input := { n := 5, nullity := 2, resolves := fun l => decide (2 ≤ l.length) }
    ∀ k : Kind,
      let h := hfrun k ⟨a, Full.init false (some [1, 2])⟩ [.q .unknowns]
      (hfstep k ⟨a, Full.init false (some [1, 2])⟩ (.q .unknowns)).2 = .badReg ∧
      Pending k h.inp h.s ∧ (hfstep k h (.q .unknowns)).2 = .x (.broken [1, 2]) ∧
      (hfstep k (hfstep k h (.resetNew b)).1 (.q .unknowns)).2 = .x .plain ∧
      (hfstep k (hfstep k h (.resetNew c)).1 (.q .unknowns)).2 = .x (.reg [1, 2]) ∧
      (hfstep k (hfstep k h (.resetNew a)).1 (.q .unknowns)).2 = .badReg ∧
      (hfstep k (hfstep k h (.q (.minx [1, 2, 3]))).1 (.q .unknowns)).2 = .x (.reg [1, 2, 3]) := by
  intro a b c k
  cases k <;> decide

theorem full_invariant_across_inputs (k : Kind) (inp0 : Full.Input) (ua : Bool) (l0 : Option (List Nat))
    (h0 : CfgOk k inp0 ua l0) (ops : List Full.HOp) (hops : ValidF k ⟨inp0, Full.init ua l0⟩ ops) :
    let h := hfrun k ⟨inp0, Full.init ua l0⟩ ops
    Full.Inv k h.inp h.s :=
  hfrun_inv (h := ⟨inp0, Full.init ua l0⟩) h0 hops

/-- **svd: history freedom across inputs.**  `minV` (the saved plain V) and `defect` of an earlier input
    survive `reset`; the invariant claims them only under `decomposed`, which `svd.reset(A)` clears. -/
theorem svd_history_free_across_inputs (inp0 : Full.Input) (sub : Bool) (l0 : Option (List Nat))
    (h0 : SCfgOk inp0 sub l0) (ops : List Full.HOp) (hops : ValidS ⟨inp0, Full.sinit sub l0⟩ ops)
    (op : Full.Op) (hop : op.Ok (hsrun ⟨inp0, Full.sinit sub l0⟩ ops).inp) :
    let h := hsrun ⟨inp0, Full.sinit sub l0⟩ ops
    (hsstep h (.q op)).2 = Full.sfresh h.inp h.s.sub h.s.list op :=
  Full.sstep_eq_fresh (hsrun_inv (h := ⟨inp0, Full.sinit sub l0⟩) h0 hops) op hop

/-- non-vacuity (chol): singular 5-unknown system, "all" materialised as 1..5, reset to a singular
    3-unknown system: the list is rebuilt as 1..3 (`minx_n != N`), then to a regular 4-unknown one -/
example :
    let a : Full.Input := { n := 5, nullity := 2, resolves := fun l => decide (2 ≤ l.length) }
    let b : Full.Input := { n := 3, nullity := 1, resolves := fun l => decide (1 ≤ l.length) }
    let c : Full.Input := { n := 4, nullity := 0, resolves := fun _ => true }
    let ops := [Full.HOp.q (.qxx 1 5), .resetNew b, .q .unknowns, .q (.minx [2, 3]), .resetNew c, .q .defect, .resetNew b]
    CfgOk .chol a true none ∧ ValidF .chol ⟨a, Full.init true none⟩ ops
    ∧ (hfrun .chol ⟨a, Full.init true none⟩ [.q (.qxx 1 5), .resetNew b]).s.list = some [1, 2, 3, 4, 5]
    ∧ (hfstep .chol (hfrun .chol ⟨a, Full.init true none⟩ [.q (.qxx 1 5), .resetNew b]) (.q (.qxx 1 2))).2
        = .qxx 1 2 (some [1, 2, 3]) (.reg [1, 2, 3])
    ∧ (hfstep .chol (hfrun .chol ⟨a, Full.init true none⟩ ops) (.q (.qxx 1 2))).2
        = .qxx 1 2 (some [2, 3]) (.reg [2, 3]) := by
  refine ⟨⟨by decide, by decide, by decide, (by intro hk hu; first | exact Or.inl rfl | exact absurd hk (by decide) | exact absurd hu (by decide)), by decide⟩, ?_, by decide, by decide, by decide⟩
  simp only [ValidF, Full.HOp.OkF, Full.Op.Ok, and_true]
  decide

/-- **The flag-clearing steps are needed (witnesses).**  chol/gso: a `reset` that leaves `is_solved`
    set answers `x` from the vector of the OLD data; svd: a `reset` without `svd.reset(A)` leaves
    `decomposed` set and `defect()` returns the old decomposition's defect (own mutation M3). -/
example :
    let a : Full.Input := { n := 4, nullity := 1, resolves := fun l => decide (1 ≤ l.length) }
    let b : Full.Input := { n := 4, nullity := 0, resolves := fun _ => true }
    (hfstepWith fresetKeep .gso (hfrunWith fresetKeep .gso ⟨a, Full.init true none⟩ [.q .unknowns, .resetNew b]) (.q .unknowns)).2
        = .stale "x"
    ∧ (hfstep .gso (hfrun .gso ⟨a, Full.init true none⟩ [.q .unknowns, .resetNew b]) (.q .unknowns)).2 = .x .plain
    ∧ (hsstepWith sresetKeep (hsrunWith sresetKeep ⟨a, Full.sinit false none⟩ [.q .defect, .resetNew b]) (.q .defect)).2
        = .stale "defect"
    ∧ (hsstep (hsrun ⟨a, Full.sinit false none⟩ [.q .defect, .resetNew b]) (.q .defect)).2 = .defect := by decide

/-- **Numeric meaning (`answer_denotes`, chol and gso solver entry; round 4: no free `alg`, `c`; round 6: no branch
    on the defect).**  `p` is a numeric problem whose facts the current symbolic input carries (`FactsF`: same size,
    `nullity` = the defect the numeric model `Ls.solverOf (algOf k)` reports for `p`, `resolves` = its regularisation
    verdict).  After any history incl. resets to other inputs, the value denoted by the symbolic answer (`denoteF` with
    the algorithm OF THE MACHINE'S KIND and the configuration THE OBJECT HOLDS) is `answerF`: the field, for the query,
    of ONE run of the numeric solver model on `p` under the caller's configuration,
    `fieldF (solverOf (algOf k) { p with reg := cfgReg useAll list }) op` — no branch on the defect; a function of the
    problem, the configuration and the query alone (as `env_answer_denotes`).  That the symbolic machine distinguishes
    the regular from the singular case (`.plain` / `.reg (effective list)`) is invisible in the value: `.all` and the
    materialised list `1..n` are the same configuration for the solver models (`chol_all`, `gso_all`).

    Round 9: on top of `full_history_free_across_inputs` — NO `CfgOk`, `ValidF`, `op.Ok`.  EVERY history (refused
    solves included), EVERY op; the only state excluded is `Pending` (where the object provably differs from a fresh
    one, `full_pending_differs_from_fresh`).  A refused answer is covered: `.badReg` denotes
    `.err .BadRegularization`, and that is `answerF` there, because under `FactsF` a list with `resolves = false` makes
    the numeric solver model return `.error .BadRegularization` (the chol / gso models never use the deferred `xErr`).
    Of `FactsF` only `n` and `resolves` are used; `nullity ≤ n`, `sub`, `cfg` of the old `Inv` are not needed.
    The ONE hypothesis kept, `hall`, is the representation invariant of `AdjCholDec`'s "all" mode for the INITIAL
    configuration (`minx_t == ALL` ⇒ no list stored, or a list `1..n'` an earlier `solve()` built; `Inv.all` on its own).
    It is needed because the machine state `Full.init true (some l)` with an arbitrary `l` of length `n` — which no call
    sequence on the real class produces (the constructor stores no list, `min_x()` frees it) — would regularise over
    `l` (`solve()` rebuilds the list only `if (minx_n != N)`), whereas `answerF` under "all" uses `1..n`.  It holds for
    the constructor, for whatever the driver creates (`Full.init l.isNone l`: `allOk_isNone`), for gso vacuously, and
    every step keeps it (`allOk_hfrun`). -/
theorem full_answer_denotes {K : Type} [Scalar K] (p : Ls.Problem K)
    (k : Kind) (inp0 : Full.Input) (ua : Bool) (l0 : Option (List Nat))
    (hall : k = .chol → ua = true → l0 = none ∨ ∃ n', l0 = some (allList n'))
    (ops : List Full.HOp) (op : Full.Op) :
    let h := hfrun k ⟨inp0, Full.init ua l0⟩ ops
    ¬ Pending k h.inp h.s → FactsF (algOf k) p h.inp →
    denoteF (algOf k) p (cfgReg h.s.useAll h.s.list) (hfstep k h (.q op)).2
      = answerF (algOf k) p h.s.useAll h.s.list op := by
  intro h hp hF
  exact denoteF_step k p h.inp h.s (hfrunR k ⟨inp0, Full.init ua l0⟩ (invR_unsolved _ _ _ rfl) ops)
    (allOk_hfrun k ⟨inp0, Full.init ua l0⟩ hall ops) hp hF op

/-- the round-4/6 statement (histories whose configurations resolve every defect: `CfgOk`, `ValidF`, `op.Ok`) is the
    special case in which no refusal is ever pending (`not_pending_of_inv`) and `hall` is `Inv.all` -/
theorem full_answer_denotes_resolving {K : Type} [Scalar K] (p : Ls.Problem K)
    (k : Kind) (inp0 : Full.Input) (ua : Bool) (l0 : Option (List Nat))
    (h0 : CfgOk k inp0 ua l0) (ops : List Full.HOp) (hops : ValidF k ⟨inp0, Full.init ua l0⟩ ops)
    (op : Full.Op) (hop : op.Ok (hfrun k ⟨inp0, Full.init ua l0⟩ ops).inp) :
    let h := hfrun k ⟨inp0, Full.init ua l0⟩ ops
    FactsF (algOf k) p h.inp →
    denoteF (algOf k) p (cfgReg h.s.useAll h.s.list) (hfstep k h (.q op)).2
      = answerF (algOf k) p h.s.useAll h.s.list op := by
  intro h hF
  have _ := hop
  exact full_answer_denotes p k inp0 ua l0 h0.all ops op
    (not_pending_of_inv (hfrun_inv (h := ⟨inp0, Full.init ua l0⟩) h0 hops)) hF

/-- non-vacuity of the hypothesis-free `full_answer_denotes` (exact arithmetic; `decide +kernel` runs `cholSolve` on
    the rationals): a rank-1 problem in 2 unknowns (defect 1), the machine on `Full.inputOf .chol p`, created with the
    EMPTY list.  The first `unknowns()` is refused and leaves `Pending`; after `reset(A, b)` with the same data nothing
    is pending, the query is refused AGAIN — and by the theorem that refusal denotes what the numeric model answers
    under the empty list: `.err .BadRegularization`; after `min_x([1])` instead nothing is pending either and the
    answer is `x` regularised over `[1]`. -/
example :
    let p : Ls.Problem Rat := { m := 3, n := 2, rows := #[#[(1, 1), (2, 1)], #[(1, 1), (2, 1)], #[(1, 1), (2, 1)]],
                                cov := #[⟨3, 0, #[1, 1, 1]⟩], rhs := #[1, 2, 4], reg := .all }
    let inp := Full.inputOf .chol p
    let h0 : HF := ⟨inp, Full.init false (some [])⟩
    let h1 := hfrun .chol h0 [.q .unknowns]
    let h2 := hfrun .chol h0 [.q .unknowns, .resetNew inp]
    let h3 := hfrun .chol h0 [.q .unknowns, .q (.minx [1])]
    inp.nullity = 1 ∧ (hfstep .chol h0 (.q .unknowns)).2 = .badReg ∧ Pending .chol h1.inp h1.s
    ∧ ¬ Pending .chol h2.inp h2.s ∧ (hfstep .chol h2 (.q .unknowns)).2 = .badReg
    ∧ answerF .chol p false (some []) .unknowns = .err .BadRegularization
    ∧ ¬ Pending .chol h3.inp h3.s ∧ (hfstep .chol h3 (.q .unknowns)).2 = .x (.reg [1])
    ∧ FactsF .chol p h3.inp := by
  intro p inp h0 h1 h2 h3
  have hp2 : ¬ Pending .chol h2.inp h2.s := by decide +kernel
  have e2 : (hfstep .chol h2 (.q .unknowns)).2 = .badReg := by decide +kernel
  have eu : h2.s.useAll = false := by decide +kernel
  have el : h2.s.list = some [] := by decide +kernel
  have T : denoteF (algOf .chol) p (cfgReg h2.s.useAll h2.s.list) (hfstep .chol h2 (.q .unknowns)).2
      = answerF (algOf .chol) p h2.s.useAll h2.s.list .unknowns :=
    full_answer_denotes p .chol inp false (some []) (fun _ h => by cases h) [.q .unknowns, .resetNew inp] .unknowns
      hp2 (factsF_inputOf .chol p)
  rw [e2, eu, el] at T
  exact ⟨by decide +kernel, by decide +kernel, by decide +kernel, hp2, e2, T.symm, by decide +kernel, by decide +kernel,
    factsF_inputOf .chol p⟩

/-- … and for `AdjSVD` (a configured subset, else all: `V` stays plain): `answerS p sub list op
    = fieldF (solverOf .svd { p with reg := cfgReg (!sub) list }) op` — no branch on the defect either -/
theorem svd_answer_denotes {K : Type} [Scalar K] (p : Ls.Problem K)
    (inp0 : Full.Input) (sub : Bool) (l0 : Option (List Nat))
    (h0 : SCfgOk inp0 sub l0) (ops : List Full.HOp) (hops : ValidS ⟨inp0, Full.sinit sub l0⟩ ops)
    (op : Full.Op) (hop : op.Ok (hsrun ⟨inp0, Full.sinit sub l0⟩ ops).inp) :
    let h := hsrun ⟨inp0, Full.sinit sub l0⟩ ops
    FactsF .svd p h.inp →
    denoteF .svd p (cfgReg (!h.s.sub) h.s.list) (hsstep h (.q op)).2 = answerS p h.s.sub h.s.list op := by
  intro h hF
  have hs := (Full.sstep_spec (hsrun_inv (h := ⟨inp0, Full.sinit sub l0⟩) h0 hops) op hop).2.1
  show denoteF .svd p _ (Full.sstep h.inp h.s op).2 = _
  rw [hs, denoteF_sspec .svd p _ h.inp _ op]
  exact directF_eq_answerS p h.inp hF h.s op

/-- the symbolic input OF a numeric problem carries its facts (non-vacuity of `FactsF` for every problem and
    algorithm; `Full.inputOf` is what `Driver/FullState.lean` runs the machines on since round 6) -/
theorem full_facts_of_problem {K : Type} [Scalar K] (alg : Ls.Alg) (p : Ls.Problem K) :
    FactsF alg p (Full.inputOf alg p) := factsF_inputOf alg p

/-- **Regular-case independence of the solver models (round 6; the analogue of the envelope's `core_regular`).**
    chol / gso / svd: if the numeric solver model reports defect 0 for `(A, b)` under ONE regularisation `r`, it
    returns the very same answer record — `x`, `r`, `[pvv]`, defect, `q_xx`, `q_bb`, `q_bx`, `lindep`, `cond` —
    under EVERY regularisation `r'` the model covers (`RegCovered`: chol answers `NotModelled` for a list with an
    index outside `1..n` whatever the defect, `Full.chol_out_of_range`; gso and svd: no condition — in the regular
    case a short or out-of-range list neither throws nor is looked at). -/
theorem full_solver_regular_independent {K : Type} [Scalar K] (alg : Ls.Alg) (halg : alg ≠ .env)
    (p : Ls.Problem K) (r r' : Ls.Reg) (a : Ls.Answer K)
    (h : Ls.solverOf alg { p with reg := r } = .ok a) (hd : a.defect = 0) (hr : RegCovered alg p.n r') :
    Ls.solverOf alg { p with reg := r' } = .ok a :=
  solver_regular alg halg p r r' a h hd hr

/-- … hence on a regular problem `answerF` / `answerS` do not depend on the caller's configuration at all -/
theorem full_answer_regular_config_free {K : Type} [Scalar K] (p : Ls.Problem K) (k : Kind) (ua ua' : Bool)
    (l l' : Option (List Nat)) (a : Ls.Answer K)
    (h : Ls.solverOf (algOf k) { p with reg := cfgReg ua l } = .ok a) (hd : a.defect = 0)
    (hr : RegCovered (algOf k) p.n (cfgReg ua' l')) (op : Full.Op) :
    answerF (algOf k) p ua' l' op = answerF (algOf k) p ua l op :=
  answerF_regular k p ua ua' l l' a h hd hr op

theorem svd_answer_regular_config_free {K : Type} [Scalar K] (p : Ls.Problem K) (sub sub' : Bool)
    (l l' : Option (List Nat)) (a : Ls.Answer K)
    (h : Ls.solverOf .svd { p with reg := cfgReg (!sub) l } = .ok a) (hd : a.defect = 0) (op : Full.Op) :
    answerS p sub' l' op = answerS p sub l op :=
  answerS_regular p sub sub' l l' a h hd op

/-- whatever regularisation a solve of `p` succeeds under, the defect it reports is the same (the fact `nullity`
    of `FactsF` is a fact of `(A, b)`) -/
theorem full_defect_is_of_the_problem {K : Type} [Scalar K] (alg : Ls.Alg) (halg : alg ≠ .env) (p : Ls.Problem K)
    (r r' : Ls.Reg) (a a' : Ls.Answer K)
    (h : Ls.solverOf alg { p with reg := r } = .ok a) (h' : Ls.solverOf alg { p with reg := r' } = .ok a') :
    a.defect = a'.defect :=
  solver_defect_indep alg halg p r r' a a' h h'

/-- **Singular case: what does NOT depend on the regularisation list (round 13: gso complete).**  Whenever the numeric
    solver model succeeds under two regularisations of the same `(A, b)`, the defect, `q_bb` (the cofactors of the
    adjusted observations), `lindep` and `cond` agree for all three full-matrix solvers; for chol and gso also the
    residuals and `[pvv]` (svd computes them from the regularised `x` in floating point).  gso's `q_bb` was the missing
    field (`gso_indep_partial`): `icgs2` re-sorts the pointer-ordered columns into storage order and leaves their upper
    blocks alone (`Full.icgs2_tops`, unconditional). -/
theorem full_solver_list_independent_fields {K : Type} [Scalar K] (p : Ls.Problem K) (r r' : Ls.Reg) :
    (∀ a a', Ls.cholSolve { p with reg := r } = .ok a → Ls.cholSolve { p with reg := r' } = .ok a' →
      a.r = a'.r ∧ a.rtr = a'.rtr ∧ a.defect = a'.defect ∧ a.qbb = a'.qbb ∧ a.lindep = a'.lindep ∧ a.cond = a'.cond)
    ∧ (∀ a a', Ls.gsoSolve { p with reg := r } = .ok a → Ls.gsoSolve { p with reg := r' } = .ok a' →
      a.r = a'.r ∧ a.rtr = a'.rtr ∧ a.defect = a'.defect ∧ a.qbb = a'.qbb ∧ a.lindep = a'.lindep ∧ a.cond = a'.cond)
    ∧ (∀ a a', Ls.svdSolve { p with reg := r } = .ok a → Ls.svdSolve { p with reg := r' } = .ok a' →
      a.defect = a'.defect ∧ a.qbb = a'.qbb ∧ a.lindep = a'.lindep ∧ a.cond = a'.cond) :=
  ⟨fun a a' h h' => chol_indep p r r' a a' h h',
   fun a a' h h' => by
     obtain ⟨h1, h2, h3, h4, h5, h6⟩ := gso_indep p r r' a a' h h'
     exact ⟨h1, h2, h3, h6, h4, h5⟩,
   fun a a' h h' => svd_indep p r r' a a' h h'⟩

/-- **The driver's input is an instance (round 6).**  `Driver/FullState.lean` runs the chol / gso / svd machines on
    `Full.inputOf alg p` (`p` = the numeric problem of the data set the object currently holds: size, defect and
    resolution verdicts computed by the numeric solver model) and accepts an `info` line — size and `defect()` read
    from the real class — only if `f.agrees alg p`.  Then the facts hypothesis of `full_answer_denotes` /
    `svd_answer_denotes` holds for the input the machine runs on, the facts read from the implementation are that
    input's, and the input is well formed (`Inv.wf`: defect ≤ unknowns). -/
theorem full_driver_input_is_instance {K : Type} [Scalar K] (alg : Ls.Alg) (halg : alg ≠ .env) (p : Ls.Problem K)
    (f : FInfo) :
    f.agrees alg p = true →
    FactsF alg p (Full.inputOf alg p)
    ∧ f.n = (Full.inputOf alg p).n ∧ f.nullity = (Full.inputOf alg p).nullity
    ∧ (Full.inputOf alg p).nullity ≤ (Full.inputOf alg p).n :=
  fun ha => ⟨factsF_inputOf alg p, (FInfo.agrees_spec ha).1, (FInfo.agrees_spec ha).2, defectF_le alg halg p⟩

/-- … and the configurations the driver creates objects with (`new`: `min_x()` / nothing stored, or a stored list)
    are admissible (`CfgOk`, `SCfgOk`) for that input exactly when the list resolves the defect — the condition the
    driver evaluates on the numeric model for every state (`outsideF` / `outsideS`; otherwise it prints `after-throw`:
    the case is outside the quantifier of `full_answer_denotes_resolving` and `svd_answer_denotes` (`CfgOk` / `SCfgOk`,
    `ValidF` / `ValidS`, `op.Ok`), but inside `full_history_free_across_inputs` and — for chol / gso, since round 9 —
    inside `full_answer_denotes`, which covers every history and every op and excludes only `Pending` states). -/
theorem full_driver_cfg_ok {K : Type} [Scalar K] (k : Kind) (p : Ls.Problem K) (l : Option (List Nat)) :
    let inp := Full.inputOf (algOf k) p
    (inp.nullity = 0 ∨ inp.resolves (Full.eff inp (Full.init l.isNone l)) = true) →
    CfgOk k inp l.isNone l ∧ SCfgOk (Full.inputOf .svd p) false none
    ∧ ((Full.inputOf .svd p).nullity = 0 ∨ (Full.inputOf .svd p).resolves (l.getD []) = true →
        SCfgOk (Full.inputOf .svd p) true l) := by
  intro inp hc
  refine ⟨⟨defectF_le (algOf k) (by cases k <;> simp [algOf]) p, hc, ?_, ?_, ?_⟩, ⟨Or.inr (Or.inl rfl), ?_, ?_⟩,
    fun hs => ⟨?_, ?_, ?_⟩⟩
  · cases l <;> simp [Full.init]
  · intro _ hu
    cases l with
    | none => exact Or.inl rfl
    | some l => simp [Full.init] at hu
  · intro hh; simp [Full.init] at hh
  · intro hh; simp [Full.sinit] at hh
  · intro hh; simp [Full.sinit] at hh
  · rcases hs with h0 | hr
    · exact Or.inl h0
    · exact Or.inr (Or.inr hr)
  · intro hh; simp [Full.sinit] at hh
  · intro hh; simp [Full.sinit] at hh

/-- **The driver's ADJ entry (round 9).**  The full-matrix solver inside `Adj` is not given `p` but the homogenised
    system: `q = dotProblem p A_dot b_dot` with `(A_dot, b_dot) = homogenise p` (Model/Ls/Adj.lean) — the numeric
    model of a fresh `Adj` (`Ls.adjSolve`) answers with the defect and the unknowns of `solverOf alg q`.
    `Driver/FullState.lean` now runs the chol / gso / svd machines inside the `Adj` machine on `Full.inputOf alg q`
    (before: the probe's nullity and a length test for `resolves`) and accepts an `info chol|gso|svd` line of the adj
    entry — `n` and `defect()` of a fresh real `Adj` with that algorithm — only if `f.agrees alg q`.  Then, as
    `full_driver_input_is_instance` at `q`: the facts hypothesis holds for the input the inner machine runs on, the
    facts read from the implementation are that input's, and the input is well formed. -/
theorem adj_driver_input_is_instance {K : Type} [Scalar K] (alg : Ls.Alg) (halg : alg ≠ .env) (p : Ls.Problem K)
    (Ad : Ls.DMat K) (bd : Array K) (f : FInfo) :
    let q := Ls.AdjM.dotProblem p Ad bd (Ls.AdjM.regOf p.reg)
    Ls.AdjM.homogenise p = .ok (Ad, bd) → f.agrees alg q = true →
    (∀ a, Ls.adjSolve alg p = .ok a → ∃ s, Ls.solverOf alg q = .ok s ∧ a.defect = s.defect ∧ a.x = s.x)
    ∧ FactsF alg q (Full.inputOf alg q)
    ∧ f.n = p.n ∧ (Full.inputOf alg q).n = p.n ∧ f.nullity = (Full.inputOf alg q).nullity
    ∧ (Full.inputOf alg q).nullity ≤ p.n := by
  intro q hh ha
  refine ⟨fun a hs => ?_, factsF_inputOf alg q, (FInfo.agrees_spec ha).1, rfl, (FInfo.agrees_spec ha).2,
    defectF_le alg halg q⟩
  have hs' : Ls.adjFull alg p = .ok a := by cases alg <;> first | exact absurd rfl halg | exact hs
  simp only [Ls.adjFull, hh] at hs'
  split at hs'
  · exact absurd hs' (by simp)
  · rename_i s hq
    split at hs'
    · exact absurd hs' (by simp)
    · injection hs' with hs'
      subst hs'
      exact ⟨s, hq, rfl, rfl⟩

/-- non-vacuity (exact arithmetic, unit covariance so that the homogenisation is square-root free): the rank-1
    problem in 2 unknowns; the homogenisation succeeds, `info chol 2 1` agrees with the homogenised system,
    `info chol 2 0` is refused -/
example :
    let p : Ls.Problem Rat := { m := 3, n := 2, rows := #[#[(1, 1), (2, 1)], #[(1, 1), (2, 1)], #[(1, 1), (2, 1)]],
                                cov := #[⟨3, 0, #[1, 1, 1]⟩], rhs := #[1, 2, 4], reg := .subset [2] }
    ∃ Ad bd, Ls.AdjM.homogenise p = .ok (Ad, bd)
      ∧ (FInfo.mk 2 1).agrees .chol (Ls.AdjM.dotProblem p Ad bd (Ls.AdjM.regOf p.reg)) = true
      ∧ (FInfo.mk 2 0).agrees .chol (Ls.AdjM.dotProblem p Ad bd (Ls.AdjM.regOf p.reg)) = false := by
  intro p
  have h : (match Ls.AdjM.homogenise p with
      | .ok (Ad, bd) => (FInfo.mk 2 1).agrees .chol (Ls.AdjM.dotProblem p Ad bd (Ls.AdjM.regOf p.reg))
                        && !(FInfo.mk 2 0).agrees .chol (Ls.AdjM.dotProblem p Ad bd (Ls.AdjM.regOf p.reg))
      | .error _ => false) = true := by decide +kernel
  cases hh : Ls.AdjM.homogenise p with
  | error e => rw [hh] at h; exact absurd h (by simp)
  | ok r =>
    obtain ⟨Ad, bd⟩ := r
    rw [hh] at h
    simp only [Bool.and_eq_true, Bool.not_eq_true'] at h
    exact ⟨Ad, bd, rfl, h.1, h.2⟩

/-- non-vacuity (exact arithmetic; `decide +kernel` runs `cholSolve` on the rationals): a regular 3×2 problem
    (defined with the list `[1]`, which `inputOf` does not look at); the `info` facts `⟨2, 0⟩` agree with the numeric
    model, an `info` line reporting defect 1 or size 3 is refused; under `min_x()` the model returns defect 0 and
    `x = (4/3, 7/3)`, so by `full_answer_regular_config_free` every query has the same answer under the (too short —
    in the regular case harmless) empty list; the driver's initial configuration is admissible; and a list with an
    index outside `1..n` is where the chol MODEL stops (`NotModelled` although the system is regular: the
    counterexample to an unconditional `chol_regular`). -/
example :
    let p : Ls.Problem Rat := { m := 3, n := 2, rows := #[#[(1, 1)], #[(2, 1)], #[(1, 1), (2, 1)]],
                                cov := #[⟨3, 0, #[1, 1, 1]⟩], rhs := #[1, 2, 4], reg := .subset [1] }
    (FInfo.mk 2 0).agrees .chol p = true ∧ (FInfo.mk 2 1).agrees .chol p = false ∧ (FInfo.mk 3 0).agrees .chol p = false
    ∧ (∃ a, Ls.solverOf .chol { p with reg := cfgReg true none } = .ok a ∧ a.defect = 0 ∧ a.x = #[4/3, 7/3])
    ∧ (∀ op, answerF .chol p false (some []) op = answerF .chol p true none op)
    ∧ CfgOk .chol (Full.inputOf .chol p) false (some [1])
    ∧ (match Ls.solverOf .chol { p with reg := .subset [3] } with | .error e => e == .NotModelled | .ok _ => false) = true := by
  intro p
  have hs : ∃ a, Ls.solverOf .chol { p with reg := cfgReg true none } = .ok a ∧ a.defect = 0 ∧ a.x = #[4/3, 7/3] := by
    cases h : Ls.solverOf .chol { p with reg := cfgReg true none } with
    | error e =>
      have : (match Ls.solverOf .chol { p with reg := cfgReg true none } with | .ok _ => true | .error _ => false) = true := by
        decide +kernel
      rw [h] at this; exact absurd this (by simp)
    | ok a =>
      have h1 : (match Ls.solverOf .chol { p with reg := cfgReg true none } with
          | .ok a => a.defect == 0 && a.x == #[4/3, 7/3] | .error _ => false) = true := by decide +kernel
      rw [h] at h1
      simp only [Bool.and_eq_true, beq_iff_eq] at h1
      exact ⟨a, rfl, h1.1, h1.2⟩
  obtain ⟨a, ha, hd, _⟩ := hs
  have h0 : (Full.inputOf .chol p).nullity = 0 := by decide +kernel
  refine ⟨by decide +kernel, by decide +kernel, by decide +kernel, ⟨a, ha, hd, ‹_›⟩,
    fun op => full_answer_regular_config_free p .chol true false none (some []) a ha hd (fun _ => by decide) op,
    (full_driver_cfg_ok .chol p (some [1]) (Or.inl h0)).1, by decide +kernel⟩

/-- **`Adj`: history freedom across inputs, with the work matrices.**  After any history of queries,
    `set_algorithm`, `set(same or other data)` every answer is the one a brand-new `Adj` with the current
    algorithm and the CURRENT data gives, AND the full-matrix solver that produced it was given the rows of
    the current data copied onto a ZEROED `A_dot` (`some (.filled id .zero)`; `none` for the envelope) —
    never onto homogenisation fill-in or non-zeros of an earlier run.  The proof uses the code's
    `A_dot.set_zero()` (`fillCode`). -/
theorem adj_history_free_across_inputs (inp0 : AInput) (hok : inp0.Ok) (a0 : AdjM.Alg) (ops : List HAOp)
    (hops : HAValid inp0 ops) (op : AOp) :
    let h := harun (hainit inp0 a0) ops
    op.Valid h.inp.env.n →
    (hastep h (.q op)).2 = hafresh h.inp h.s.alg op
    ∧ (hastep h (.q op)).2 = (aspec h.inp h.s.alg op, if isQuery op then expectedIn h.inp h.s.alg else none) :=
  fun hop => ⟨hastep_eq_fresh (harun_inv (hainv_init hok a0) hops) op hop,
   hastep_spec (harun_inv (hainv_init hok a0) hops) op hop⟩

theorem adj_invariant_across_inputs (inp0 : AInput) (hok : inp0.Ok) (a0 : AdjM.Alg) (ops : List HAOp)
    (hops : HAValid inp0 ops) : HAInv (harun (hainit inp0 a0) ops) :=
  harun_inv (hainv_init hok a0) hops


/-- **Numeric meaning (`answer_denotes`, class `Adj`).**  `W d` is the numeric problem with identity `d`.
    After any history, the numeric `Answer` behind a query's answer — for a full-matrix algorithm: the
    solver model run on the pair `(A_dot, b_dot)` that the provenance of `A_dot` DENOTES (copy loop over
    whatever the matrix held, in-place homogenisation, Model/AdjBuf.lean); for the envelope: the sparse
    branch — is the answer of the numeric model of a fresh `Adj` (`Gama.Ls.adjSolve`) on the CURRENT
    problem.  Uses `copyRows_zeros`: on a zeroed matrix the copy loop yields the dense design matrix. -/
theorem adj_answer_denotes {K : Type} [Scalar K] (W : Nat → Ls.Problem K) (inp0 : AInput) (hok : inp0.Ok)
    (a0 : AdjM.Alg) (ops : List HAOp) (hops : HAValid inp0 ops) (op : AOp) (hq : op.IsQuery) :
    let h := harun (hainit inp0 a0) ops
    op.Valid h.inp.env.n →
    adjNum W h.s.alg h.inp.id (hastep h (.q op)).2.2 = Ls.adjSolve (lsAlg h.s.alg) (W h.inp.id) := by
  intro h hop
  rw [hastep_spec (harun_inv (hainv_init hok a0) hops) op hop]
  simp only [haspec, (isQuery_iff op).mpr hq, if_true]
  exact adjNum_expected W h.inp h.s.alg

/-- non-vacuity + **the zeroing step is needed (witness).**  Data sets 1 and 2 have the same shape.  With
    the code (`fillCode`) the svd object created after `set(data 2)` is given `.filled 2 .zero`; with the
    variant that zeroes `A_dot` only when the shape changes (`fillKeep`, seeded change C01-seed1) it is given
    the rows of data 2 written over the homogenised matrix of data 1, and after `set_algorithm` on the same
    data the rows of data 2 over its own homogenisation fill-in — not what a fresh `Adj` computes. -/
example :
    let fi : Full.Input := { n := 3, nullity := 0, resolves := fun _ => true }
    let e : EnvInput := { n := 3, nullity := 0, invp := fun i => i, inEnv := fun _ _ => true,
                          resolves := fun _ => true, qbbIn := fun _ _ => true }
    let d1 : AInput := { env := { e with id := 1 }, chol := fi, gso := fi, svd := fi, minx := none, rows := fun _ => [1, 2],
                         id := 1, m := 4, n := 3 }
    let d2 : AInput := { d1 with env := { e with id := 2 }, id := 2 }
    let ops := [HAOp.q .x, .setData d2, .q (.setAlg .svd)]
    (hastep (harun (hainit d1 .gso) ops) (.q .x)).2.2 = some (.filled 2 .zero)
    ∧ (hastepWith fillKeep (harunWith fillKeep (hainit d1 .gso) ops) (.q .x)).2.2 = some (.filled 2 (.filled 1 .zero))
    ∧ (hastepWith fillKeep (harunWith fillKeep (hainit d1 .gso) [.q .x, .q (.setAlg .svd)]) (.q .x)).2.2
        = some (.filled 1 (.filled 1 .zero))
    ∧ (hafresh d2 .svd .x).2 = some (.filled 2 .zero) := by decide

/-- non-vacuity of `HAValid` with a `set(other data)` (round 4: `HAOp.Valid (.setData d)` = `d.Ok` was never shown
    satisfiable): both data sets are admissible, the history is valid, and the final query is valid for the data held -/
example :
    let fi : Full.Input := { n := 3, nullity := 0, resolves := fun _ => true }
    let e : EnvInput := { n := 3, nullity := 0, invp := fun i => i, inEnv := fun _ _ => true,
                          resolves := fun _ => true, qbbIn := fun _ _ => true }
    let d1 : AInput := { env := { e with id := 1 }, chol := fi, gso := fi, svd := fi, minx := none, rows := fun _ => [1, 2],
                         id := 1, m := 4, n := 3 }
    let d2 : AInput := { d1 with env := { e with id := 2 }, id := 2 }
    let ops := [HAOp.q .x, .setData d2, .q (.setAlg .svd), .q (.qxx 1 3)]
    d1.Ok ∧ d2.Ok ∧ HAValid d1 ops ∧ (AOp.qxx 3 1).Valid (harun (hainit d1 .gso) ops).inp.env.n := by
  intro fi e d1 d2 ops
  have ok : ∀ d : AInput, d.env.n = 3 → d.env.invp = (fun i => i) → d.env.nullity = 0 → d.rows = (fun _ => [1, 2]) →
      d.chol = fi → d.gso = fi → d.svd = fi → d.minx = none → d.Ok := by
    intro d hn hi h0 hr hc hg hs hm
    refine ⟨fun i h _ => by rw [hi]; exact h, ?_, Or.inl h0, ?_, ?_, ?_⟩
    · intro i c hc'
      rw [hr] at hc'
      simp at hc'
      rw [hn]
      rcases hc' with rfl | rfl <;> exact ⟨by decide, by decide⟩
    · rw [hc, hm]; exact ⟨by decide, by decide, by decide, (by intro hk hu; first | exact Or.inl rfl | exact absurd hk (by decide) | exact absurd hu (by decide)), by decide⟩
    · rw [hg, hm]; exact ⟨by decide, by decide, by decide, (by intro hk hu; first | exact Or.inl rfl | exact absurd hk (by decide) | exact absurd hu (by decide)), by decide⟩
    · rw [hs, hm]; exact ⟨by decide, by decide, by decide⟩
  have h1 : d1.Ok := ok d1 rfl rfl rfl rfl rfl rfl rfl rfl
  have h2 : d2.Ok := ok d2 rfl rfl rfl rfl rfl rfl rfl rfl
  exact ⟨h1, h2, ⟨trivial, h2, trivial, (show AOp.Valid 3 (.qxx 1 3) from by decide), trivial⟩, by decide⟩

/-- what a leftover means numerically (exact arithmetic): the copy loop touches only the STORED elements (and ADDS
    to them: `A_dot(k,*i) += *n`), so a structural zero of the new rows keeps the old number (here 7 at position (1,2))
    and a stored one sits on top of the old number (5 + 3) — which is why `A_dot.set_zero()` precedes the loop -/
example :
    let p1 : Ls.Problem Rat := { m := 1, n := 2, rows := #[#[(1, 5), (2, 7)]], cov := #[], rhs := #[0], reg := .none }
    let p2 : Ls.Problem Rat := { m := 1, n := 2, rows := #[#[(1, 3)]], cov := #[], rhs := #[0], reg := .none }
    copyRows (copyRows (zeros 1 2) p1) p2 = #[#[8, 7]] ∧ copyRows (zeros 1 2) p2 = #[#[3, 0]] := by
  constructor <;> decide +kernel

/-! ### `LocalNetwork`: the update cascade -/

/-- what the source says (generated table): `update(L)` clears exactly the flags of the levels ≥ L,
    i.e. the switch falls through in the order Points, Observations, Residuals, Adjustment -/
theorem net_update_fallthrough (s : NState) :
    update s 0 = { s with f0 := false, f1 := false, f2 := false, f3 := false }
    ∧ update s 1 = { s with f1 := false, f2 := false, f3 := false }
    ∧ update s 2 = { s with f2 := false, f3 := false }
    ∧ update s 3 = { s with f3 := false } :=
  update_eq s

/-- **Cascade soundness.**  After any sequence of configuration changes (at any level, each followed
    by its `update(L)`), `update_…()` calls and calls of public members that read only what their
    unconditional prefix has brought up to date, every cached artefact a member reads was computed
    from the CURRENT configuration (provided the solver does not throw inside `vyrovnani_`). -/
theorem net_cascade_sound (inp : NInput) (hthr : inp.throws = false) (c0 : Cfg) (ops : List NOp)
    (hops : ∀ o ∈ ops, o.Ok) (m : Gen.Member) (hm : m.WF) :
    let s := nrun inp (ninit c0) ops
    (nstep inp s (.call m)).2 = .read (m.reads.map fun l => (l, some (snap s.cfg l))) :=
  (nstep_spec inp hthr (nrun_inv inp hthr (ninv_init c0) hops) (.call m) hm).2.1

/-- the invariant: the flags are downward closed and a set flag certifies its artefacts -/
theorem net_invariant (inp : NInput) (hthr : inp.throws = false) (c0 : Cfg) (ops : List NOp)
    (hops : ∀ o ∈ ops, o.Ok) : NInv (nrun inp (ninit c0) ops) :=
  nrun_inv inp hthr (ninv_init c0) hops

theorem net_history_free (inp : NInput) (hthr : inp.throws = false) (c0 : Cfg) (ops : List NOp)
    (hops : ∀ o ∈ ops, o.Ok) (op : NOp) (hop : op.Ok) :
    let s := nrun inp (ninit c0) ops
    (nstep inp s op).2 = nfresh inp s.cfg op :=
  nstep_eq_fresh inp hthr (nrun_inv inp hthr (ninv_init c0) hops) op hop

theorem net_answer_is_spec (inp : NInput) (hthr : inp.throws = false) (c0 : Cfg) (ops : List NOp)
    (hops : ∀ o ∈ ops, o.Ok) (op : NOp) (hop : op.Ok) :
    let s := nrun inp (ninit c0) ops
    (nstep inp s op).2 = nspec s.cfg op :=
  (nstep_spec inp hthr (nrun_inv inp hthr (ninv_init c0) hops) op hop).2.1

theorem net_idempotent (inp : NInput) (hthr : inp.throws = false) (c0 : Cfg) (ops : List NOp)
    (hops : ∀ o ∈ ops, o.Ok) (m : Gen.Member) (hm : m.WF) :
    let s := nrun inp (ninit c0) ops
    (nstep inp (nstep inp s (.call m)).1 (.call m)).2 = (nstep inp s (.call m)).2 :=
  nstep_twice inp hthr (nrun_inv inp hthr (ninv_init c0) hops) m hm

/-- `update_points()` … `update_adjustment()` without a configuration change alter no answer -/
theorem net_reset_same_input (inp : NInput) (hthr : inp.throws = false) (c0 : Cfg) (ops : List NOp)
    (hops : ∀ o ∈ ops, o.Ok) (l : Nat) (hl : l ≤ 3) (q : NOp) (hq : q.Ok) :
    let s := nrun inp (ninit c0) ops
    (nstep inp (nstep inp s (.touch l)).1 q).2 = (nstep inp s q).2 :=
  nstep_after_touch inp hthr (nrun_inv inp hthr (ninv_init c0) hops) l hl q hq

/-- which public members of the CURRENT source are covered by `net_cascade_sound` (their table row
    is well formed) … -/
theorem net_table_covered :
    (Gen.members.filter (fun m => m.wfb && !m.reads.isEmpty)).map (·.name)
      = ["degrees_of_freedom", "huge_abs_terms", "null_space", "observations_count#2", "points_count",
         "project_equations#2", "project_equations#3", "refine_approx_coordinates", "remove_huge_abs_terms",
         "residuals", "solve", "trans_VWV", "unknowns_count"] := by decide

/-- … and which read a cached artefact without bringing it up to date first ("raw readers": they
    answer from whatever the last adjustment left, see `net_raw_reader_stale`).  A change of the source
    that moves a member between the two lists breaks these two theorems. -/
theorem net_table_raw_readers :
    (Gen.members.filter (fun m => !m.wfb)).map (·.name)
      = ["cond", "connected_network", "lindep", "min_n", "obs_control", "observations_count", "ptr_obs",
         "qbb", "qbx", "qxx", "rejected_observations", "rhs", "std_error_ellipse", "stdev_obs", "stdev_res",
         "studentized_residual", "test_abs_term", "undefined_coordinates", "unknown_pointid",
         "unknown_standpoint", "unknown_stdev", "unknown_type", "wcoef_res", "weight_obs"] := by decide

/-- non-vacuity: adjust, move a point (Residuals), ask `residuals()`; the adjustment artefact read is
    the one of the new configuration, revision artefacts were not recomputed -/
example :
    let inp : NInput := { throws := false }
    let solve := memberD "solve"
    let resid := memberD "residuals"
    let dof := memberD "degrees_of_freedom"
    let ops := [NOp.call solve, .change 2, .call dof, .touch 3, .change 1, .call resid, .change 2]
    solve.WF ∧ resid.WF ∧ dof.WF ∧ (∀ o ∈ ops, o.Ok)
    ∧ (nstep inp (nrun inp (ninit ⟨0, 0, 0, 0⟩) ops) (.call dof)).2 = .read [(2, some ⟨0, 1, 2, 0⟩), (3, some ⟨0, 1, 2, 0⟩)]
    ∧ (nrun inp (ninit ⟨0, 0, 0, 0⟩) ops).a0 = some ⟨0, 0, 0, 0⟩ := by
  refine ⟨Gen.Member.wf_of_wfb (by decide), Gen.Member.wf_of_wfb (by decide), Gen.Member.wf_of_wfb (by decide), ?_, by decide, by decide⟩
  intro o ho
  simp only [List.mem_cons, List.mem_nil_iff, or_false] at ho
  rcases ho with rfl | rfl | rfl | rfl | rfl | rfl | rfl
  all_goals first | exact Gen.Member.wf_of_wfb (by decide) | (show _ ≤ 3; decide)

/-- **Raw readers are outside the guarantee (witness).**  `stdev_obs(i)` returns `sigma_L(i)` as the
    last adjustment left it: after a configuration change the artefact read is the one of the OLD
    configuration (`c2 = 0` while the configuration has `c2 = 1`); on a fresh network nothing was
    computed at all.  Replayed on the real object by the correspondence stream (`raw` probes). -/
theorem net_raw_reader_stale :
    let inp : NInput := { throws := false }
    let solve := memberD "solve"
    let sdo := memberD "stdev_obs"
    (nstep inp (nrun inp (ninit ⟨0, 0, 0, 0⟩) [.call solve, .change 2]) (.call sdo)).2 = .read [(3, some ⟨0, 0, 0, 0⟩)]
    ∧ (nrun inp (ninit ⟨0, 0, 0, 0⟩) [.call solve, .change 2]).cfg = ⟨0, 0, 1, 0⟩
    ∧ nfresh inp ⟨0, 0, 1, 0⟩ (.call sdo) = .read [(3, none)] := by decide

/-- **`studentized_residual(i)` evaluates `stdev_res(i)` before `residuals()`** triggers the adjustment:
    the weight coefficient it divides by is the stale one. -/
theorem net_studentized_residual_reads_before_adjusting :
    (memberD "studentized_residual").uncovered = [3]
    ∧ (memberD "studentized_residual").ensures = some 3 := by decide

/-- **A throw of the solver inside `vyrovnani_`** (a configuration for which the regularisation does
    not resolve the defect — outside `inp.throws = false` of the `net_*` history-freedom theorems; at the solver
    level such histories are inside `full_history_free_across_inputs`): the flag, set
    before the solver is consulted, is taken back by the handler; the invariant survives for every
    reachable state, and an adjusted network never re-consults the solver. -/
theorem net_throw_keeps_invariant (inp : NInput) (hthr : inp.throws = true) (s : NState) (h : NInv s) :
    NInv (run inp 3 s).1 ∧ (run inp 3 s).1.cfg = s.cfg
    ∧ ((run inp 3 s).2 = true → (run inp 3 s).1.f3 = false)
    ∧ ((run inp 3 s).2 = false → (run inp 3 s).1 = s ∧ s.f3 = true) :=
  run3_throw inp hthr h

/-- concretely: adjust, change the points, the next `residuals()` throws; `is_adjusted()` is false
    afterwards and asking again throws again — exactly what a fresh network does
    (before the fix: `f3 = true` and the second call returned the old vector; corpus/C04/net-throw-flag.ops) -/
example :
    let resid := memberD "residuals"
    let s1 := nrun { throws := false } (ninit ⟨0, 0, 0, 0⟩) [.call resid, .change 0]
    let s2 := nstep { throws := true } s1 (.call resid)
    s2.2 = .throw ∧ s2.1.f3 = false
    ∧ (nstep { throws := true } s2.1 (.call resid)).2 = .throw
    ∧ nfresh { throws := true } s2.1.cfg (.call resid) = .throw := by decide

/-! ### the solver object and its regularisation list (round 4; seeded/C04-seed4)

`set_algorithm()` creates a NEW solver object (default: regularise over ALL unknowns) and `update(Points)`;
`project_equations()` hands the list of the current numbering (`min_x_`: the constrained coordinates of a free
network) to the solver on every run.  `MState` keeps which list the CURRENT solver object holds and its class, and the
adjustment artefacts carry (ghost) the list held by, and the class of, the solver that produced them. -/

/-- **The solver that produced what is read held the list of the current numbering and is of the selected class.**
    After ANY history of configuration changes, `update_*`, member calls and `set_algorithm(name)` (no solver
    exception), a member that reads the adjustment artefacts (unknowns, residuals, [pvv], cofactors …) reads artefacts
    produced by a solver object that had been given `min_x(min_n_, min_x_)` with the list computed from the CURRENT
    configuration (`curList = .given (lst (snap cfg 2))`) — never a solver left at its default (all unknowns) by
    `set_algorithm`, never a list of an earlier numbering — and of the class selected LAST.  Invariant (`MInv`): while
    `tst_rov_opr_` the current solver holds the current list; while `tst_vyrovnani_` the adjustment was produced under it
    by the current object's class.  Round 9: the two steps of the machine this rests on are interpreted from rows
    regenerated from network.cpp (`handCode_eq`, `setAlgCode_eq`; `net_handover_site`, `net_set_algorithm_site` in
    Props/C04Net.lean), the list is a list (`lst : Cfg → List Nat`, tied to `np.minx` in `net_answer_denotes`). -/
theorem net_solver_holds_current_minx (inp : MInput) (hthr : inp.net.throws = false) (c0 : Cfg) (ops : List MOp)
    (hops : ∀ o ∈ ops, o.Ok) (mem : Gen.Member) (hm : mem.WF) (hr : mem.reads.contains 3 = true) :
    let m := mrun inp (minit c0) ops
    MInv inp m ∧ (mstep inp m (.net (.call mem))).2.2 = some (curList inp m.net, m.cls) :=
  ⟨mrun_inv inp hthr (minv_init inp c0) hops,
   mstep_reads inp hthr (mrun_inv inp hthr (minv_init inp c0) hops) (.call mem) hm hr⟩

/-- non-vacuity + **the hand-over on every run is needed (witness: seeded/C04-seed4).**  `residuals()` is a covered
    member reading the adjustment; the list does not depend on the algorithm (`lst` constant `[7]`).  History: adjust,
    `set_algorithm`, ask again.  The code hands the list to the new solver object (`.given [7]`); the variant that hands
    it over only when it differs from the previous run's (`handOnChange`) finds it unchanged, and the residuals — and
    with them coordinates, standard deviations, ellipses — come from a solver regularising over ALL unknowns
    (`.dflt`), which is not what a fresh network does (`.given [7]`).  Without `set_algorithm` the variant is fine. -/
example :
    let resid := memberD "residuals"
    let inp : MInput := { net := { throws := false }, lst := fun _ => [7] }
    let ops := [MOp.net (.call resid), .setAlgorithm "gso"]
    resid.WF ∧ resid.reads.contains 3 = true ∧ (∀ o ∈ ops, o.Ok)
    ∧ (mstep inp (mrun inp (minit ⟨0, 0, 0, 0⟩) ops) (.net (.call resid))).2.2 = some (.given [7], "AdjGSO")
    ∧ (mstepWith handOnChange Gen.setAlg inp (mrunWith handOnChange Gen.setAlg inp (minit ⟨0, 0, 0, 0⟩) ops) (.net (.call resid))).2.2
        = some (.dflt, "AdjGSO")
    ∧ (mstep inp (minit ⟨0, 0, 0, 0⟩) (.net (.call resid))).2.2 = some (.given [7], "AdjEnvelope")
    ∧ (mstepWith handOnChange Gen.setAlg inp (mrunWith handOnChange Gen.setAlg inp (minit ⟨0, 0, 0, 0⟩) [.net (.call resid), .net (.change 2)])
        (.net (.call resid))).2.2 = some (.given [7], "AdjEnvelope") := by
  refine ⟨Gen.Member.wf_of_wfb (by decide), by decide, ?_, by decide, by decide, by decide, by decide⟩
  intro o ho
  simp only [List.mem_cons, List.mem_nil_iff, or_false] at ho
  rcases ho with rfl | rfl
  · exact Gen.Member.wf_of_wfb (by decide)
  · trivial

end Gama.Props.C04
