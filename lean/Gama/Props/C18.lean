/-
  C18 — Geodetic primitives round-trip: ellipsoidal coordinates, angles, bearings.

  Property theorems only; lemmas live in Gama/Lemmas/Geo*.lean.  Models:
  Gama/Model/{Ellipsoid,Angles,Bearing,GeoLiterals}.lean, table regenerated into
  Gama/Gen/Ellipsoids.lean.  Over ℝ: `sqrt = Real.sqrt`, `sin/cos = Real.sin/cos`,
  `atan2 y x = Complex.arg (x + y·i)`, `M_PI = π`.  Over ℚ: the sexagesimal field
  splitting and the decimal rounding `ostream` performs (exact arithmetic).
  `xyz2blhWith c`, `gonFields a`, `toPrinted carry`: the flags select the original / repaired
  code (Gama/Gen/GeoVariants.lean says which the tree contains); theorems quantify over them
  where both behave the same.
-/
import Gama.Lemmas.GeoTable
import Gama.Lemmas.GeoAngles
import Gama.Lemmas.GeoDms
import Gama.Lemmas.GeoBearing
import Gama.Lemmas.GeoLiterals
import Gama.Lemmas.GeoBowring
import Gama.Lemmas.GeoRoundTrip
import Gama.Lemmas.GeoLatLong
import Gama.Lemmas.GeoHeight
import Gama.Lemmas.GeoGenTie
namespace Gama.Props.C18
open Gama Gama.Ellipsoid Gama.Angles Real

/-! ## Ellipsoids -/

/-- every row of the table of ellipsoids.cpp (and the default constructor) yields 0 < b ≤ a and
    members f, n, e², e'², 1−e², 1+e'², a(1−e²), a/b satisfying their defining relations -/
theorem C18_ellipsoid_table :
    (∀ r ∈ Gen.ellipsoidTable, WF (ofRow r : Ellipsoid ℝ)) ∧ WF (ofRow Gen.defaultEllipsoid : Ellipsoid ℝ) :=
  ⟨fun r hr => ofRow_wf r (table_good r hr), ofRow_wf _ default_good⟩

/-- … hence 0 ≤ e² < 1, 0 ≤ e'², 1 − e² = b²/a² > 0 and (1 − e²)(1 + e'²) = 1 -/
theorem C18_ellipsoid_params (e : Ellipsoid ℝ) (w : WF e) :
    0 ≤ e.e2 ∧ e.e2 < 1 ∧ 0 ≤ e.e22 ∧ e.Ime2 = e.B * e.B / (e.A * e.A) ∧ 0 < e.Ime2 ∧ e.Ime2 * e.Ipe22 = 1 :=
  ⟨w.e2_nonneg, w.e2_lt_one, w.e22_nonneg, w.Ime2_eq, w.Ime2_pos, w.Ime2_mul_Ipe22⟩

/-- the three setters establish the relations for every 0 < b ≤ a, 0 < f < 1, 1/f > 1 -/
theorem C18_setters_wf {a x : ℝ} :
    (0 < x → x ≤ a → WF (setAb a x)) ∧ (0 < a → 0 < x → x < 1 → WF (setAf a x)) ∧ (0 < a → 1 < x → WF (setAf1 a x)) :=
  ⟨setAb_wf, setAf_wf, setAf1_wf⟩

/-- pole branch: a point on the axis comes back as (±π/2, 0, h); the longitude is reported as 0 -/
theorem C18_blh_pole (c : Bool) (e : Ellipsoid ℝ) (l h : ℝ) (hh : 0 < e.N (π / 2) * e.Ime2 + h) :
    (let p := e.blh2xyz (π / 2) l h; xyz2blhWith c e p.1 p.2.1 p.2.2) = (π / 2, 0, h) ∧
    (let p := e.blh2xyz (-(π / 2)) l h; xyz2blhWith c e p.1 p.2.1 p.2.2) = (-(π / 2), 0, h) := by
  have hN : e.N (-(π / 2)) = e.N (π / 2) := by simp [N_real, W_real]
  constructor
  · simp only [blh2xyz_real, Real.cos_pi_div_two, Real.sin_pi_div_two, mul_zero, zero_mul, mul_one]
    rw [xyz2blh_axis, if_pos hh]; congr 2; ring
  · simp only [blh2xyz_real, Real.cos_neg, Real.sin_neg, Real.cos_pi_div_two, Real.sin_pi_div_two, mul_zero, zero_mul, hN]
    rw [xyz2blh_axis, if_neg (by linarith), hN]; congr 2; ring

/-- longitude is recovered exactly off the poles, for every l ∈ (−π, π] (antimeridian included) and every height
    above the centre of curvature -/
theorem C18_lon (c : Bool) (e : Ellipsoid ℝ) {b l h : ℝ} (hc : 0 < Real.cos b) (hn : 0 < e.N b + h)
    (hl : l ∈ Set.Ioc (-π) π) :
    (let p := e.blh2xyz b l h; xyz2blhWith c e p.1 p.2.1 p.2.2).2.1 = l := by
  simp only [blh2xyz_real]; rw [xyz2blh_blh2xyz c e hc hn hl]

/-- the height is exact whenever the latitude is: both height formulas return h -/
theorem C18_height_exact (c : Bool) (e : Ellipsoid ℝ) {b l h : ℝ} (hc : 0 < Real.cos b) (hn : 0 < e.N b + h)
    (hl : l ∈ Set.Ioc (-π) π)
    (hb : (let p := e.blh2xyz b l h; xyz2blhWith c e p.1 p.2.1 p.2.2).1 = b) :
    (let p := e.blh2xyz b l h; xyz2blhWith c e p.1 p.2.1 p.2.2).2.2 = h := by
  simp only [blh2xyz_real] at hb ⊢
  rw [xyz2blh_blh2xyz c e hc hn hl] at hb ⊢
  simp only at hb ⊢
  rw [hb]; exact heightOf_exact e hc hn

/-- Bowring's formula is exact on the surface of every ellipsoid 0 < b ≤ a: already the first pass returns the
    geodetic latitude, and the second pass (original or clamped) reproduces it -/
theorem C18_bowring_surface (c : Bool) (e : Ellipsoid ℝ) (w : WF e) {b : ℝ} (hb : b ∈ Set.Ioo (-(π / 2)) (π / 2)) :
    e.bowring1 (e.N b * Real.cos b) (e.N b * e.Ime2 * Real.sin b) = b ∧
    e.bowring2 c (e.N b * Real.cos b) (e.N b * e.Ime2 * Real.sin b) b = b :=
  ⟨bowring1_surface w hb, bowring2_surface c w hb⟩

/-- round trip on the ellipsoid (h = 0) is the identity for every latitude in (−π/2, π/2), longitude in (−π, π] -/
theorem C18_roundtrip_surface (c : Bool) (e : Ellipsoid ℝ) (w : WF e) {b l : ℝ} (hb : b ∈ Set.Ioo (-(π / 2)) (π / 2))
    (hl : l ∈ Set.Ioc (-π) π) :
    (let p := e.blh2xyz b l 0; xyz2blhWith c e p.1 p.2.1 p.2.2) = (b, l, 0) := by
  have hc := cos_pos_of_lat hb
  have hn : 0 < e.N b + 0 := by rw [add_zero]; exact w.N_pos b
  simp only [blh2xyz_real]
  rw [xyz2blh_blh2xyz c e hc hn hl]
  have h1 := bowring1_surface w hb
  have h2 := bowring2_surface c w hb
  simp only [add_zero] at *
  rw [h1, h2]
  have := heightOf_exact e (h := 0) hc (by rw [add_zero]; exact w.N_pos b)
  simp only [add_zero] at this
  rw [this]

/-- off the surface, any ellipsoid, any height above the centre of curvature: the SHAPE of the result — the
    longitude is exact, the latitude is the two-pass Bowring value `B`, the height is `heightOf … B`, and it is exact as
    soon as `B` is.  (Sizes of the two errors: `C18_bowring_*`, `C18_height_error`, and all together for the table
    `C18_roundtrip_offsurface_table` — this replaces the former `C18_roundtrip_offsurface_partial`.) -/
theorem C18_roundtrip_offsurface_shape (c : Bool) (e : Ellipsoid ℝ) {b l h : ℝ} (hc : 0 < Real.cos b)
    (hn : 0 < e.N b + h) (hl : l ∈ Set.Ioc (-π) π) :
    ∃ B : ℝ, (let p := e.blh2xyz b l h; xyz2blhWith c e p.1 p.2.1 p.2.2) =
      (B, l, e.heightOf ((e.N b + h) * Real.cos b) ((e.N b * e.Ime2 + h) * Real.sin b) B) ∧
      (B = b → e.heightOf ((e.N b + h) * Real.cos b) ((e.N b * e.Ime2 + h) * Real.sin b) B = h) := by
  refine ⟨e.bowring2 c ((e.N b + h) * Real.cos b) ((e.N b * e.Ime2 + h) * Real.sin b)
          (e.bowring1 ((e.N b + h) * Real.cos b) ((e.N b * e.Ime2 + h) * Real.sin b)), ?_, fun hB => ?_⟩
  · simp only [blh2xyz_real]; exact xyz2blh_blh2xyz c e hc hn hl
  · rw [hB]; exact heightOf_exact e hc hn

/-- **poles and longitude for every row of the regenerated table** (and the default ellipsoid), every height
    `h ≥ −10 km`: the hypotheses `hh` of `C18_blh_pole` and `hn` of `C18_lon` are discharged
    (`N(1−e²) + h ≥ 6.3·10⁶·0.9895 − 10⁴ > 0`, `N + h > 0`).  A point on the axis comes back as `(±π/2, 0, h)` — the
    longitude there is REPORTED AS 0 whatever it was —, and off the poles the longitude comes back exactly for every
    `l ∈ (−π, π]` (antimeridian included). -/
theorem C18_pole_lon_table (c : Bool) :
    (∀ r ∈ Gen.ellipsoidTable, ∀ l h : ℝ, -10000 ≤ h →
      (let e : Ellipsoid ℝ := ofRow r
       (let p := e.blh2xyz (π / 2) l h; xyz2blhWith c e p.1 p.2.1 p.2.2) = (π / 2, 0, h) ∧
       (let p := e.blh2xyz (-(π / 2)) l h; xyz2blhWith c e p.1 p.2.1 p.2.2) = (-(π / 2), 0, h) ∧
       ∀ b : ℝ, 0 < Real.cos b → l ∈ Set.Ioc (-π) π →
         (let p := e.blh2xyz b l h; xyz2blhWith c e p.1 p.2.1 p.2.2).2.1 = l)) ∧
    (∀ l h : ℝ, -10000 ≤ h →
      (let e : Ellipsoid ℝ := ofRow Gen.defaultEllipsoid
       (let p := e.blh2xyz (π / 2) l h; xyz2blhWith c e p.1 p.2.1 p.2.2) = (π / 2, 0, h) ∧
       (let p := e.blh2xyz (-(π / 2)) l h; xyz2blhWith c e p.1 p.2.1 p.2.2) = (-(π / 2), 0, h) ∧
       ∀ b : ℝ, 0 < Real.cos b → l ∈ Set.Ioc (-π) π →
         (let p := e.blh2xyz b l h; xyz2blhWith c e p.1 p.2.1 p.2.2).2.1 = l)) := by
  have key : ∀ e : Ellipsoid ℝ, WF e → e.e2 ≤ 105 / 10000 → 6300000 ≤ e.A → ∀ l h : ℝ, -10000 ≤ h →
      (let p := e.blh2xyz (π / 2) l h; xyz2blhWith c e p.1 p.2.1 p.2.2) = (π / 2, 0, h) ∧
      (let p := e.blh2xyz (-(π / 2)) l h; xyz2blhWith c e p.1 p.2.1 p.2.2) = (-(π / 2), 0, h) ∧
      ∀ b : ℝ, 0 < Real.cos b → l ∈ Set.Ioc (-π) π →
        (let p := e.blh2xyz b l h; xyz2blhWith c e p.1 p.2.1 p.2.2).2.1 = l := by
    intro e w he2 hA1 l h hh
    obtain ⟨hp1, hp2⟩ := C18_blh_pole c e l h (pole_lon_hyps w he2 hA1 hh (π / 2)).1
    exact ⟨hp1, hp2, fun b hc hl => C18_lon c e hc (pole_lon_hyps w he2 hA1 hh b).2 hl⟩
  constructor
  · intro r hr l h hh
    obtain ⟨wf, he2, hA1, -⟩ := table_bowring_hyps r hr
    exact key _ wf he2 hA1 l h hh
  · intro l h hh
    obtain ⟨wf, he2, hA1, -⟩ := default_bowring_hyps
    exact key _ wf he2 hA1 l h hh

/-- **the height error as a function of the latitude error.**  Any ellipsoid with `e² ≤ 0.0105`, the point of latitude
    `φ` (`cos φ > 0`) and height `h` with `0 < N + h` and `N ≤ 1.002·(N + h)`, and ANY latitude `B` less than a right
    angle off with `|sin(B − φ)| ≤ 1/100`: the height `heightOf x z B` that `xyz2blh` computes from `B` — by
    `x/cos B − N(B)` when `|z| < x`, by `z/sin B − (1−e²)N(B)` otherwise — satisfies
    `|h' − h| ≤ 2·(N + h)·|sin(B − φ)|`.  (Explicit Lipschitz estimate; the two branch conditions keep the divisor
    `cos B` resp. `sin B` above 0.59 resp. 0.69.) -/
theorem C18_height_error {e : Ellipsoid ℝ} (w : WF e) (he2 : e.e2 ≤ 105 / 10000) {φ h B : ℝ}
    (hc : 0 < Real.cos φ) (hρ : 0 < e.N φ + h) (hNρ : e.N φ ≤ 1002 / 1000 * (e.N φ + h))
    (hs : |Real.sin (B - φ)| ≤ 1 / 100) (hcB : 0 < Real.cos (B - φ)) :
    |e.heightOf ((e.N φ + h) * Real.cos φ) ((e.N φ * e.Ime2 + h) * Real.sin φ) B - h|
      ≤ 2 * ((e.N φ + h) * |Real.sin (B - φ)|) :=
  heightOf_error w he2 hc hρ hNρ hs hcB

/-- **FULL off-surface round trip, one statement for the whole triple.**  On every ellipsoid of the regenerated table
    (and the default one), every latitude off the poles, every longitude in (−π, π], every height
    −10 km ≤ h ≤ 20 000 km, the triple `(B, L, H) = xyz2blh (blh2xyz (φ, l, h))` (exact real arithmetic) satisfies
    `(N+h)·|sin(B − φ)| < 10⁻⁵ m` with `cos(B − φ) > 0`, `L = l` exactly, and
    `|H − h| ≤ 2·(N+h)·|sin(B − φ)| < 2·10⁻⁵ m` (sub-millimetre by a factor 50). -/
theorem C18_roundtrip_offsurface_table (c : Bool) :
    (∀ r ∈ Gen.ellipsoidTable, ∀ φ l h : ℝ, -10000 ≤ h → h ≤ 20000000 → 0 < Real.cos φ → l ∈ Set.Ioc (-π) π →
      (let e : Ellipsoid ℝ := ofRow r
       let p := e.blh2xyz φ l h
       let t := xyz2blhWith c e p.1 p.2.1 p.2.2
       ((e.N φ + h) * |Real.sin (t.1 - φ)| < 1 / 100000 ∧ 0 < Real.cos (t.1 - φ)) ∧ t.2.1 = l ∧
       (|t.2.2 - h| ≤ 2 * ((e.N φ + h) * |Real.sin (t.1 - φ)|) ∧ |t.2.2 - h| < 2 / 100000))) ∧
    (∀ φ l h : ℝ, -10000 ≤ h → h ≤ 20000000 → 0 < Real.cos φ → l ∈ Set.Ioc (-π) π →
      (let e : Ellipsoid ℝ := ofRow Gen.defaultEllipsoid
       let p := e.blh2xyz φ l h
       let t := xyz2blhWith c e p.1 p.2.1 p.2.2
       ((e.N φ + h) * |Real.sin (t.1 - φ)| < 1 / 100000 ∧ 0 < Real.cos (t.1 - φ)) ∧ t.2.1 = l ∧
       (|t.2.2 - h| ≤ 2 * ((e.N φ + h) * |Real.sin (t.1 - φ)|) ∧ |t.2.2 - h| < 2 / 100000))) := by
  constructor
  · intro r hr φ l h h1 h2 hc hl
    obtain ⟨wf, he2, hA1, hA2⟩ := table_bowring_hyps r hr
    simp only [blh2xyz_real]
    exact roundtrip_offsurface c wf he2 hA1 hA2 h1 h2 hc hl
  · intro φ l h h1 h2 hc hl
    obtain ⟨wf, he2, hA1, hA2⟩ := default_bowring_hyps
    simp only [blh2xyz_real]
    exact roundtrip_offsurface c wf he2 hA1 hA2 h1 h2 hc hl

-- non-vacuity: the first table row at h = −10 km and h = 8848 m, φ = 0, l = π (antimeridian): hypotheses hold
example : ∃ r ∈ Gen.ellipsoidTable, (-10000 : ℝ) ≤ -10000 ∧ (8848 : ℝ) ≤ 20000000 ∧ 0 < Real.cos 0 ∧
    π ∈ Set.Ioc (-π) π := by
  refine ⟨Gen.ellipsoidTable.head (by decide), List.head_mem _, le_refl _, by norm_num, by simp, ?_⟩
  exact ⟨by linarith [Real.pi_pos], le_refl _⟩
-- non-vacuity of `C18_height_error`: default ellipsoid, φ = 0, h = 0, B = φ (hypotheses all hold)
example : ∃ (e : Ellipsoid ℝ) (φ h B : ℝ), WF e ∧ e.e2 ≤ 105 / 10000 ∧ 0 < Real.cos φ ∧ 0 < e.N φ + h ∧
    e.N φ ≤ 1002 / 1000 * (e.N φ + h) ∧ |Real.sin (B - φ)| ≤ 1 / 100 ∧ 0 < Real.cos (B - φ) := by
  obtain ⟨wf, he2, hA1, -⟩ := default_bowring_hyps
  refine ⟨_, 0, 0, 0, wf, he2, by simp, ?_, ?_, by simp, by simp⟩
  · rw [add_zero]; exact wf.N_pos 0
  · rw [add_zero]; nlinarith [wf.N_pos 0]

/-- one Bowring pass, from ANY estimate (p, q) = (cos u, sin u) of the parametric latitude on the right side
    (`d = cos(u − u*) ≥ 0`): the latitude it returns is less than a right angle off, and its error is QUADRATIC in the
    error `σ = sin(u − u*)` of the estimate, with the factor `K = (5/2)·e²·a²/(b·D)`, `D = a(1−e²) + h − e²a − 2e'²b`
    (contraction: also `≤ K·|σ|`) -/
theorem C18_bowring_contraction {e : Ellipsoid ℝ} (w : WF e) {φ h p q : ℝ} (hc : 0 < Real.cos φ)
    (hpq : p * p + q * q = 1) (hd : 0 ≤ p * pstar e φ + q * qstar e φ) (hD : 0 < bowringD e h) :
    |Real.sin (Complex.arg ⟨(e.N φ + h) * Real.cos φ - e.e2 * e.A * (p * p) * p,
          (e.N φ * e.Ime2 + h) * Real.sin φ + e.e22 * e.B * (q * q) * q⟩ - φ)| ≤
      bowringK e h * (q * pstar e φ - p * qstar e φ) ^ 2 ∧
    |Real.sin (Complex.arg ⟨(e.N φ + h) * Real.cos φ - e.e2 * e.A * (p * p) * p,
          (e.N φ * e.Ime2 + h) * Real.sin φ + e.e22 * e.B * (q * q) * q⟩ - φ)| ≤
      bowringK e h * |q * pstar e φ - p * qstar e φ| :=
  bowring_contraction w hc hpq hd hD

/-- the two passes of `xyz2blh` (original and clamped second pass), any well-formed ellipsoid, any latitude off the
    poles, any height with `D > 0`: explicit bound on the latitude error, and the error is below a right angle -/
theorem C18_bowring_two_pass (c : Bool) {e : Ellipsoid ℝ} (w : WF e) {φ l h : ℝ}
    (hc : 0 < Real.cos φ) (hD : 0 < bowringD e h) (hl : l ∈ Set.Ioc (-π) π) :
    (let p := e.blh2xyz φ l h
     |Real.sin ((xyz2blhWith c e p.1 p.2.1 p.2.2).1 - φ)| ≤
        bowringK e h * (e.A / e.B) ^ 2 * (bowringK e h * (e.e22 * |h| / (e.N φ + h)) ^ 2) ^ 2 ∧
     0 < Real.cos ((xyz2blhWith c e p.1 p.2.1 p.2.2).1 - φ)) := by
  simp only [blh2xyz_real]
  exact ⟨bowring_two_pass_error c w hc hD hl, bowring_two_pass_cos_pos c w hc hD hl⟩

/-- FULL for the latitude: on every ellipsoid of the regenerated table (and the default one), every latitude off the
    poles, every longitude in (−π, π], every height −10 km ≤ h ≤ 20 000 km, the latitude returned by
    `xyz2blh ∘ blh2xyz` is off by less than a millimetre at the point (`(N+h)·|sin ΔB| < 0.001 m`; proved bound ≈ 1e-5 m) -/
theorem C18_bowring_submm_table (c : Bool) :
    (∀ r ∈ Gen.ellipsoidTable, ∀ φ l h : ℝ, -10000 ≤ h → h ≤ 20000000 → 0 < Real.cos φ → l ∈ Set.Ioc (-π) π →
      (let e : Ellipsoid ℝ := ofRow r
       let p := e.blh2xyz φ l h
       (e.N φ + h) * |Real.sin ((xyz2blhWith c e p.1 p.2.1 p.2.2).1 - φ)| < 1 / 1000)) ∧
    (∀ φ l h : ℝ, -10000 ≤ h → h ≤ 20000000 → 0 < Real.cos φ → l ∈ Set.Ioc (-π) π →
      (let e : Ellipsoid ℝ := ofRow Gen.defaultEllipsoid
       let p := e.blh2xyz φ l h
       (e.N φ + h) * |Real.sin ((xyz2blhWith c e p.1 p.2.1 p.2.2).1 - φ)| < 1 / 1000)) := by
  constructor
  · intro r hr φ l h h1 h2 hc hl
    simp only [blh2xyz_real]
    exact table_bowring_submm c r hr φ l h h1 h2 hc hl
  · intro φ l h h1 h2 hc hl
    simp only [blh2xyz_real]
    obtain ⟨wf, he2, hA1, hA2⟩ := default_bowring_hyps
    exact bowring_submm c wf he2 hA1 hA2 h1 h2 hc hl


/-- the variant selected by the translator is one of the two: all of the above hold for `Ellipsoid.xyz2blh` -/
theorem C18_current_variant (e : Ellipsoid ℝ) (x y z : ℝ) :
    e.xyz2blh x y z = xyz2blhWith Gen.bowringClamp e x y z := rfl

example : WF (ofRow Gen.defaultEllipsoid : Ellipsoid ℝ) := C18_ellipsoid_table.2
example : (π / 4) ∈ Set.Ioo (-(π / 2)) (π / 2) := ⟨by linarith [Real.pi_pos], by linarith [Real.pi_pos]⟩
example : π ∈ Set.Ioc (-π) π := ⟨by linarith [Real.pi_pos], le_refl _⟩
example : Gen.ellipsoidTable.length = 48 := by decide
example : 0 < bowringD (ofRow Gen.defaultEllipsoid : Ellipsoid ℝ) 1000 := by
  obtain ⟨wf, he2, hA1, hA2⟩ := default_bowring_hyps
  obtain ⟨-, -, hD6, -, -⟩ := numeric_facts (h := 1000) wf.hB wf.hBA he2 wf.e22_nonneg hA1 hA2 (by norm_num)
    wf.hIme2 wf.BB_eq wf.e22_mul_BB
  unfold bowringD; linarith
example : (0 : ℝ) ≤ 1 * pstar (ofRow Gen.defaultEllipsoid) 0 + 0 * qstar (ofRow Gen.defaultEllipsoid) 0 := by
  have w : WF (ofRow Gen.defaultEllipsoid : Ellipsoid ℝ) := C18_ellipsoid_table.2
  have := w.W_pos 0
  unfold pstar; simp only [Real.cos_zero, one_mul, zero_mul, add_zero]; positivity

/-! ## Sexagesimal angles (exact arithmetic over ℚ) -/

/-- field splitting of `gon2deg` (original and `fabs` variant): sign flag, 0 ≤ d, 0 ≤ m < 60, 0 ≤ s < 60 and the
    value identity |g|·0.9 = d + m/60 + s/3600 before rounding -/
theorem C18_dms_fields_exact (absFix : Bool) (g : ℚ) :
    let f := gonFields absFix g
    f.neg = decide (g < 0) ∧ 0 ≤ f.d ∧ 0 ≤ f.m ∧ f.m < 60 ∧ 0 ≤ f.s ∧ f.s < 60 ∧
      |g| * (9 / 10) = (f.d : ℚ) + (f.m : ℚ) / 60 + f.s / 3600 := by
  intro f
  have hx : 0 ≤ |g| * (9 / 10 : ℚ) := by positivity
  have h := splitDeg_spec (decide (g < 0)) hx
  have hf : f = splitDeg (decide (g < 0)) (|g| * (9 / 10)) := gonFields_eq absFix g
  rw [hf]
  exact ⟨h.1, h.2.2.1, h.2.2.2.1, h.2.2.2.2.1, h.2.2.2.2.2.1, h.2.2.2.2.2.2.1, h.2.2.2.2.2.2.2⟩

/-- F14: the ORIGINAL formatter (before fix 4ddaee6) prints seconds = 60 (here 60.00 at two decimals) — the statement
    "printed seconds < 60" was false for that code; witness g = 11.4999997 gon
    (replayed on the real code; kept as regression input corpus/C18/ang-f14-seconds60.txt) -/
theorem C18_dms_printed_range_violated_original :
    ¬ (∀ (g : ℚ) (prec : ℕ), let f := gonFields false g
        (toPrinted false f.neg f.d f.m f.s prec).n < 60 * (10 : ℤ) ^ prec) := by
  intro h
  have := h (114999997 / 10000000) 2
  revert this
  decide +kernel

/-- HISTORY — about code the tree no longer contains (the ORIGINAL `gon2deg` formatter without the carry; the current
    one is covered in full by `C18_dms_printed_range_current`).  What does hold for the original formatter: minutes in
    range, printed seconds never above 60 -/
theorem C18_dms_printed_range_partial (g : ℚ) (prec : ℕ) :
    let f := gonFields false g
    let p := toPrinted false f.neg f.d f.m f.s prec
    0 ≤ p.m ∧ p.m < 60 ∧ 0 ≤ p.n ∧ p.n ≤ 60 * (10 : ℤ) ^ prec := by
  intro f p
  obtain ⟨-, -, hm0, hm, hs0, hs, -⟩ := C18_dms_fields_exact false g
  have hr := toPrinted_nocarry_range f.neg f.d f.m f.s prec false hs0 hs
  have hp : p = { neg := f.neg, d := f.d, m := f.m, n := scaled f.s prec, prec := prec, secNegZero := false } :=
    toPrinted_nocarry _ _ _ _ _ _
  refine ⟨?_, ?_, hr.1, hr.2⟩
  · rw [hp]; exact hm0
  · rw [hp]; exact hm

/-- the REPAIRED formatter (carry after rounding; notes/proposed/C18-gon2deg-carry.diff): every printed field is in
    range for every angle and every precision: 0 ≤ d, 0 ≤ m < 60, 0 ≤ printed seconds < 60 -/
theorem C18_dms_printed_range (absFix : Bool) (g : ℚ) (prec : ℕ) :
    let f := gonFields absFix g
    let p := toPrinted true f.neg f.d f.m f.s prec
    0 ≤ p.d ∧ 0 ≤ p.m ∧ p.m < 60 ∧ 0 ≤ p.n ∧ p.n < 60 * (10 : ℤ) ^ prec := by
  intro f p
  obtain ⟨-, hd, hm0, hm, hs0, hs, -⟩ := C18_dms_fields_exact absFix g
  have := toPrinted_carry_range f.neg f.d f.m f.s prec false hd hm0 hm hs0 hs
  exact ⟨this.1, this.2.1, this.2.2.1, this.2.2.2.1, this.2.2.2.2.1⟩

/-- the tree contains the repaired variants (regenerated flags): reverting a fix in /repo breaks this theorem, and the
    oracle then produces the failing input -/
theorem C18_tree_has_repaired_variants :
    Gen.gon2degCarry = true ∧ Gen.gon2degAbs = true ∧ Gen.latlongCarry = true ∧ Gen.latlongAbs = true ∧
      Gen.bowringClamp = true ∧ Gen.isIntegerNeedsDigit = true := by decide

/-- FULL statement for the formatter the tree contains: printed fields of `gon2deg` are in range for every angle and
    precision (0 ≤ d, 0 ≤ m < 60, 0 ≤ printed seconds < 60) -/
theorem C18_dms_printed_range_current (g : ℚ) (prec : ℕ) :
    let f := gonFields Gen.gon2degAbs g
    let p := toPrinted Gen.gon2degCarry f.neg f.d f.m f.s prec
    0 ≤ p.d ∧ 0 ≤ p.m ∧ p.m < 60 ∧ 0 ≤ p.n ∧ p.n < 60 * (10 : ℤ) ^ prec := by
  have h : Gen.gon2degCarry = true := C18_tree_has_repaired_variants.1
  rw [h]; exact C18_dms_printed_range Gen.gon2degAbs g prec

/-- the same two facts for any fields in range — this is the shared tail of `gon2deg` and `latlong` -/
theorem C18_printed_fields_any (neg : Bool) (d m : ℤ) (s : ℚ) (prec : ℕ) (hd : 0 ≤ d) (hm0 : 0 ≤ m) (hm : m < 60)
    (hs0 : 0 ≤ s) (hs : s < 60) :
    (let p := toPrinted true neg d m s prec
     0 ≤ p.d ∧ 0 ≤ p.m ∧ p.m < 60 ∧ 0 ≤ p.n ∧ p.n < 60 * (10 : ℤ) ^ prec) ∧
    (∀ carry, |(toPrinted carry neg d m s prec).degrees - ((d : ℚ) + (m : ℚ) / 60 + s / 3600)|
        ≤ (1 / 2) / (10 : ℚ) ^ prec / 3600) := by
  have := toPrinted_carry_range neg d m s prec false hd hm0 hm hs0 hs
  exact ⟨⟨this.1, this.2.1, this.2.2.1, this.2.2.2.1, this.2.2.2.2.1⟩,
         fun carry => toPrinted_close carry neg d m s prec false hs⟩

/-- on the printed FIELDS (d, m, seconds·10^prec as integers), original and repaired formatter alike (`60.00` reads back
    correctly): the value `deg2gon` computes from them, `(d/360 + m/21600 + s/1296000)·400`, is within ½·10^(−prec) arc
    seconds (converted to gon) of |g| -/
theorem C18_deg2gon_gon2deg_fields (carry absFix : Bool) (g : ℚ) (prec : ℕ) :
    let f := gonFields absFix g
    let p := toPrinted carry f.neg f.d f.m f.s prec
    abs (p.gon - abs g) ≤ (1 / 2) / (10 : ℚ) ^ prec / 3600 / (9 / 10) := by
  intro f p
  obtain ⟨-, -, -, -, -, hs, hval⟩ := C18_dms_fields_exact absFix g
  have h := toPrinted_close carry f.neg f.d f.m f.s prec false hs
  rw [← hval] at h
  rw [Printed.gon_eq]
  have e : p.degrees / (9 / 10) - |g| = (p.degrees - |g| * (9 / 10)) / (9 / 10) := by field_simp
  rw [e, abs_div, abs_of_pos (by norm_num : (0 : ℚ) < 9 / 10)]
  gcongr

/-- FULL, on STRINGS: for the repaired formatter, every angle (negative ones, seconds that round up to 60 and are
    carried into minutes and degrees, zero), every precision and every `sign` mode, the text `gon2deg` writes is
    accepted by `deg2gon` and reads back within half a unit of the printed precision — of `g` when a sign is printed
    (`sign` = 1, 2, 3), of `|g|` otherwise.  Digits ↔ numbers: `toString`/`setw`/`setfill` on one side, `istream >> int`
    and `>> double` (model of the scanner) on the other.  `|g|·0.9 < 2³¹ − 1`: beyond it `int(gon)` is undefined in the
    C++.  (`-0.0` is an IEEE value; with `std::fabs` its fields are those of `0`, covered by the correspondence.) -/
theorem C18_deg2gon_gon2deg_string (g : ℚ) (sign : ℤ) (prec : ℕ) (hg : |g| * (9 / 10) < 2147483647) :
    ∃ (str : String) (v : ℚ), gon2degWith true true g sign prec = some str ∧ (deg2gon str : Option ℚ) = some v ∧
      |v - (if sign = 1 ∨ sign = 2 ∨ sign = 3 then g else |g|)| ≤ (1 / 2) / (10 : ℚ) ^ prec / 3600 / (9 / 10) :=
  deg2gon_gon2deg_string g sign prec hg

/-- the same for the formatter the tree contains -/
theorem C18_deg2gon_gon2deg_current (g : ℚ) (sign : ℤ) (prec : ℕ) (hg : |g| * (9 / 10) < 2147483647) :
    ∃ (str : String) (v : ℚ), gon2deg g sign prec = some str ∧ (deg2gon str : Option ℚ) = some v ∧
      |v - (if sign = 1 ∨ sign = 2 ∨ sign = 3 then g else |g|)| ≤ (1 / 2) / (10 : ℚ) ^ prec / 3600 / (9 / 10) := by
  have h1 : Gen.gon2degCarry = true := C18_tree_has_repaired_variants.1
  have h2 : Gen.gon2degAbs = true := C18_tree_has_repaired_variants.2.1
  unfold gon2deg; rw [h1, h2]
  exact deg2gon_gon2deg_string g sign prec hg

/-- what is written is laid out as blanks, `-` (only when a sign is requested and the angle is negative), blanks, the
    digits of the degrees, `-`, two digits of minutes, `-`, the seconds field — every `sign` mode -/
theorem C18_gon2deg_layout (p : Printed) (sign : ℤ) (hd : 0 ≤ p.d) (hn : 0 ≤ p.n) (hz : p.secNegZero = false) :
    ∃ sp1 sp2 : List Char, (∀ c ∈ sp1, Grammar.isSpace c = true) ∧ (∀ c ∈ sp2, Grammar.isSpace c = true) ∧
      (p.renderGon sign).toList =
        sp1 ++ (if decide (p.neg = true ∧ (sign = 1 ∨ sign = 2 ∨ sign = 3)) = true then ['-'] else []) ++ sp2 ++ natL p.d.toNat ++
          '-' :: (padLeft '0' 2 (toString p.m)).toList ++
          '-' :: (padLeft '0' (3 + p.prec) (renderScaled p.n.toNat p.prec)).toList :=
  renderGon_layout p sign hd hn hz

/-- `latlong` (latitude/longitude strings) over ℝ, with `RAD_TO_DEG = 180/π`: sign flag, 0 ≤ d, 0 ≤ m < 60, 0 ≤ s < 60
    and `|rad|·180/π = d + m/60 + s/3600` (both sign-removal variants); the printed tail is `C18_printed_fields_any` -/
theorem C18_latlong_fields_real (absFix : Bool) (r : ℝ) :
    let f := latlongFields absFix r
    f.neg = decide (r < 0) ∧ 0 ≤ f.d ∧ 0 ≤ f.m ∧ f.m < 60 ∧ 0 ≤ f.s ∧ f.s < 60 ∧
      |r| * (180 / π) = (f.d : ℝ) + (f.m : ℝ) / 60 + f.s / 3600 :=
  latlongFields_spec absFix r

/-- `dms2rad` and `rad2dms` on valid fields d < 360, m < 60, 0 ≤ s < 60: the `ddd.mmss` value denotes
    d + m/60 + s/3600 degrees and the two functions are mutually inverse (any loop fuel) -/
theorem C18_dms2rad_rad2dms (fuel : ℕ) {d m : ℕ} {s : ℝ} (hd : d < 360) (hm : m < 60) (hs0 : 0 ≤ s) (hs : s < 60) :
    dms2rad fuel (dmsOf d m s) = degOf d m s / 180 * π ∧
    rad2dms fuel (dms2rad fuel (dmsOf d m s)) = dmsOf d m s ∧
    dms2rad fuel (rad2dms fuel (degOf d m s / 180 * π)) = degOf d m s / 180 * π := by
  have h1 := dms2rad_fields fuel hd hm hs0 hs
  have h2 := rad2dms_fields fuel hd hm hs0 hs
  exact ⟨h1, by rw [h1, h2], by rw [h2, h1]⟩

-- non-vacuity / digit-level samples (tests, not theorems)
example : gon2degWith false false (114999997 / 10000000 : ℚ) 0 2 = some " 10-20-60.00" := by decide +kernel
example : gon2degWith true false (114999997 / 10000000 : ℚ) 0 2 = some " 10-21-00.00" := by decide +kernel
example : gon2degWith true true (-114999997 / 10000000 : ℚ) 2 2 = some " -10-21-00.00" := by decide +kernel
example : gon2degWith true true (-1 / 1000000000 : ℚ) 3 0 = some "-0-00-000" := by decide +kernel
example : gon2degWith true true (399999999 / 1000000 : ℚ) 1 1 = some " 360-00-00.0" := by decide +kernel
example : parseDms " 10-21-00.00" = some (false, 10, 21, (0, -2)) := by decide +kernel
example : parseDms " -10-20-60.00" = some (true, 10, 20, (6000, -2)) := by decide +kernel
example : (deg2gon " 10-20-60.00" : Option ℚ) = some (23 / 2) := by decide +kernel
example : parseDms "10-20" = none ∧ parseDms "10-20-3x" = none ∧ parseDms "--1-2-3" = none := by decide +kernel
example : (3 : ℕ) < 360 ∧ (59 : ℕ) < 60 ∧ (0 : ℝ) ≤ 59.5 ∧ (59.5 : ℝ) < 60 := by norm_num
example : |(-114999997 / 10000000 : ℚ)| * (9 / 10) < 2147483647 := by rw [abs_of_neg (by norm_num)]; norm_num
example : (deg2gon " -10-21-00.00" : Option ℚ) = some (-23 / 2) := by decide +kernel
example : parseDms "1-1-1e999" = none ∧ parseDms "1-1-17976931348623159e292" = none
    ∧ (parseDms "1-1-17976931348623158e292").isSome = true ∧ (parseDms "1-1-1e-999").isSome = true := by decide +kernel

/-! ## Bearing and distance -/

/-- normalisation: above the cut the bearing lies in [0, 2π) -/
theorem C18_bearing_range (ya xa yb xb : ℝ) (hd : Bearing.cut ≤ (Bearing.bearingDistance ya xa yb xb).2) :
    0 ≤ (Bearing.bearingDistance ya xa yb xb).1 ∧ (Bearing.bearingDistance ya xa yb xb).1 < 2 * π := by
  rw [Bearing.bd_real] at hd ⊢
  split_ifs at hd ⊢ with hcut
  · rw [Bearing.cut_real] at hd; norm_num at hd
  · exact Bearing.norm2pi_range (Complex.arg_mem_Ioc _)

/-- polar consistency: d·cos s = Δx ∧ d·sin s = Δy -/
theorem C18_polar_consistent (ya xa yb xb : ℝ) (hd : Bearing.cut ≤ (Bearing.bearingDistance ya xa yb xb).2) :
    (Bearing.bearingDistance ya xa yb xb).2 * Real.cos (Bearing.bearingDistance ya xa yb xb).1 = xb - xa ∧
    (Bearing.bearingDistance ya xa yb xb).2 * Real.sin (Bearing.bearingDistance ya xa yb xb).1 = yb - ya := by
  rw [Bearing.bd_real] at hd ⊢
  split_ifs at hd ⊢ with hcut
  · rw [Bearing.cut_real] at hd; norm_num at hd
  · have hz : Bearing.dir ya xa yb xb ≠ 0 := by
      intro h0
      apply hcut
      rw [Bearing.dist_eq_norm, h0]; norm_num
    simp only [Bearing.dist_eq_norm]
    exact Bearing.polar _ hz

/-- antisymmetry: the bearing of the reverse direction is the bearing ± π, folded into [0, 2π) -/
theorem C18_bearing_antisym (ya xa yb xb : ℝ) (hd : Bearing.cut ≤ (Bearing.bearingDistance ya xa yb xb).2) :
    (Bearing.bearingDistance yb xb ya xa).1 =
      if (Bearing.bearingDistance ya xa yb xb).1 < π then (Bearing.bearingDistance ya xa yb xb).1 + π
      else (Bearing.bearingDistance ya xa yb xb).1 - π := by
  rw [Bearing.bd_real ya xa yb xb] at hd ⊢
  rw [Bearing.bd_real yb xb ya xa, ← Bearing.dist_symm ya xa yb xb]
  split_ifs at hd ⊢ with hcut
  all_goals first
    | (rw [Bearing.cut_real] at hd; norm_num at hd; done)
    | skip
  all_goals
    have hz : Bearing.dir ya xa yb xb ≠ 0 := by
      intro h0
      apply hcut
      rw [Bearing.dist_eq_norm, h0]; norm_num
    have := Bearing.norm2pi_arg_neg _ hz
    rw [Bearing.dir_neg]
    simp only [*] at *
  all_goals rfl

/-- distance is symmetric (with and without the cut); below the cut both results are (0, 0) in both directions -/
theorem C18_distance_sym (ya xa yb xb : ℝ) :
    (Bearing.bearingDistance ya xa yb xb).2 = (Bearing.bearingDistance yb xb ya xa).2 ∧
    Bearing.distance ya xa yb xb = Bearing.distance yb xb ya xa ∧
    ((Bearing.bearingDistance ya xa yb xb).2 < Bearing.cut →
      Bearing.bearingDistance ya xa yb xb = (0, 0) ∧ Bearing.bearingDistance yb xb ya xa = (0, 0)) := by
  rw [Bearing.bd_real ya xa yb xb, Bearing.bd_real yb xb ya xa, ← Bearing.dist_symm ya xa yb xb,
      Bearing.distance_real, Bearing.distance_real, Bearing.dist_symm ya xa yb xb, Bearing.cut_real]
  refine ⟨?_, rfl, ?_⟩
  · split_ifs <;> rfl
  · intro h
    split_ifs at h ⊢ with hc
    · exact ⟨rfl, rfl⟩
    · exact absurd h hc

example : Bearing.cut ≤ (Bearing.bearingDistance (0 : ℝ) 0 1 0).2 := by
  rw [Bearing.bd_real, Bearing.cut_real]
  have : Bearing.dist 0 0 1 0 = 1 := by unfold Bearing.dist; norm_num
  rw [this]; norm_num

/-! ## Literal recognisers (intfloat.h) -/

/-- the recogniser of the CURRENT tree (`Literals.isIntegerCur`: the variant of `GNU_gama::IsInteger` selected by the flag
    regenerated from intfloat.h; it is what `drv_geo` executes and what the C++ at HEAD answers): accepted ⇔ after the
    optional sign there is at least one character and only digits; in particular an accepted literal contains a digit -/
theorem C18_isInteger_requires_digit (s : List Char) :
    (Literals.isIntegerCur s = true ↔
      Literals.skipSign (Literals.trim s) ≠ [] ∧ ∀ c ∈ Literals.skipSign (Literals.trim s), Literals.isDigit c = true) ∧
    (Literals.isIntegerCur s = true → ∃ c ∈ s, Literals.isDigit c = true) := by
  have hv : Gen.isIntegerNeedsDigit = true := C18_tree_has_repaired_variants.2.2.2.2.2
  unfold Literals.isIntegerCur; rw [hv]
  exact ⟨Literals.isIntegerWith_true_iff s, Literals.isIntegerWith_true_has_digit s⟩

/-- FULL, about the CURRENT code: `IsInteger` accepts EXACTLY the documented format `ws* [+-]? D+ ws*` (every string;
    induction over the scanner, `Grammar.integerRx`) -/
theorem C18_isInteger_grammar (s : List Char) :
    Literals.isIntegerCur s = true ↔ Grammar.integerRx.Lang s := by
  have hv : Gen.isIntegerNeedsDigit = true := C18_tree_has_repaired_variants.2.2.2.2.2
  unfold Literals.isIntegerCur; rw [hv]
  exact Literals.isIntegerWith_true_grammar s

/-- HISTORY — the ORIGINAL `IsInteger` (before fix 5c79698; `Literals.isIntegerWith false`, also named
    `Literals.isInteger` in the model file: NOT the code of the tree) accepted exactly: white space, an optional sign,
    decimal digits (possibly none!), white space, not everything empty -/
theorem C18_isInteger_original_language (s : List Char) :
    Literals.isIntegerWith false s = true ↔
      Literals.trim s ≠ [] ∧ ∃ sg ds, Literals.trim s = sg ++ ds ∧ (sg = [] ∨ sg = ['+'] ∨ sg = ['-']) ∧
        (∀ c ∈ ds, Literals.isDigit c = true) :=
  Literals.isInteger_iff s

/-- HISTORY / NEG: "an accepted integer literal contains a digit" was FALSE for the ORIGINAL code: a lone sign was accepted
    (regression input corpus/C18/lit-f16-isint-sign-only.txt); the current recogniser refuses exactly those strings
    (lone `+`, lone `-`) and agrees with the original everywhere else -/
theorem C18_isInteger_original_differs :
    ¬ (∀ s : List Char, Literals.isIntegerWith false s = true → ∃ c ∈ s, Literals.isDigit c = true) ∧
    Literals.isIntegerWith false ['+'] = true ∧ Literals.isIntegerCur ['+'] = false ∧ Literals.isIntegerCur ['-'] = false ∧
    (∀ s : List Char, Literals.isIntegerCur s = true → Literals.isIntegerWith false s = true) := by
  refine ⟨?_, by decide, by decide, by decide, ?_⟩
  · intro h
    have := h ['+'] (by decide)
    revert this
    decide
  · intro s h
    have hv : Gen.isIntegerNeedsDigit = true := C18_tree_has_repaired_variants.2.2.2.2.2
    unfold Literals.isIntegerCur at h; rw [hv] at h
    obtain ⟨hne, hd⟩ := (Literals.isIntegerWith_true_iff s).mp h
    rw [show Literals.isIntegerWith false s = Literals.isInteger s from rfl, Literals.isInteger_iff]
    have htrim : Literals.trim s ≠ [] := by
      intro e; rw [e] at hne; exact hne (by decide)
    refine ⟨htrim, ?_⟩
    cases ht : Literals.trim s with
    | nil => exact absurd ht htrim
    | cons c cs =>
      by_cases hc : c = '+' ∨ c = '-'
      · refine ⟨[c], cs, rfl, ?_, ?_⟩
        · rcases hc with rfl | rfl <;> simp
        · rw [ht] at hd
          rcases hc with rfl | rfl <;> simpa [Literals.skipSign] using hd
      · refine ⟨[], c :: cs, rfl, Or.inl rfl, ?_⟩
        rw [ht] at hd
        have : Literals.skipSign (c :: cs) = c :: cs := by
          unfold Literals.skipSign
          rw [not_or] at hc
          split <;> simp_all
        rw [this] at hd; exact hd

/-- FULL: `IsFloat` accepts EXACTLY `ws* [+-]? ( D+ (. D*)? | . D+ ) ( [eE] [+-]? D+ )? ws*` (every string) -/
theorem C18_isFloat_grammar (s : List Char) : Literals.isFloat s = true ↔ Grammar.floatRx.Lang s :=
  Literals.isFloat_grammar s

/-- FULL: `deg2gon` accepts EXACTLY the strings of the shape
    `ws* ( [+-] ws* [+-]? )? D+ - D+ - D+ (. D*)? ([eE] [+-]? D+)? ws*` whose degrees and minutes fit `int` (a degree
    field written with an own minus sign must be zero) and whose seconds convert to a finite `double`
    (`Angles.DmsRanges`: what `istream >> int`/`>> double` reject although the shape is right).  No sign inside
    minutes or seconds, no blank inside, minutes/seconds ranges are NOT checked by the code (`1-99-99` is accepted). -/
theorem C18_deg2gon_grammar (s : String) :
    ((deg2gon s : Option ℚ).isSome = true ↔ Grammar.dmsRx.Lang s.toList ∧ DmsRanges (trimWs s.toList)) ∧
    ((parseDms s).isSome = true ↔ Grammar.dmsRx.Lang s.toList ∧ DmsRanges (trimWs s.toList)) := by
  refine ⟨?_, parseDms_grammar s⟩
  rw [← parseDms_grammar s]
  unfold deg2gon
  rw [Option.isSome_map]

/-- the seconds range of `DmsRanges`: `secFits (m, x)` ⇔ the decimal `m·10^x` is below `dblOverflow` := 2¹⁰²⁴ − 2⁹⁷⁰ (= `DBL_MAX` + ½ulp), i.e. it
    converts to a finite double; at or above, libstdc++ sets failbit and `deg2gon` returns false (replayed:
    `…158e292` accepted, `…159e292` rejected — corpus/C18/lit-r3-seconds-overflow.txt) -/
theorem C18_seconds_range_meaning (p : ℕ × ℤ) :
    secFits p = true ↔ (p.1 : ℚ) * (10 : ℚ) ^ p.2 < (dblOverflow : ℚ) :=
  secFits_iff p

/-- … and as a decision procedure: shape matcher ∧ Boolean ranges — this is what the driver runs as `rxdms` -/
theorem C18_deg2gon_decision (s : String) : (parseDms s).isSome = dmsDecide s.toList :=
  parseDms_decide s

/-- the decision procedure that runs next to the model and the real code in the check (derivative matcher) decides
    the language of every expression -/
theorem C18_grammar_decision (r : Grammar.Rx) (s : List Char) : r.accepts s = true ↔ r.Lang s :=
  Grammar.Rx.accepts_iff r s

/-- corollary kept from round 1: an accepted float literal contains a digit -/
theorem C18_isFloat_has_digit (s : List Char) (h : Literals.isFloat s = true) :
    (∃ c ∈ Literals.trim s, Literals.isDigit c = true) :=
  Literals.isFloat_has_digit s h

example : Grammar.floatRx.accepts "+1.5e-3".toList = true ∧ Grammar.floatRx.accepts " 5. ".toList = true
    ∧ Grammar.floatRx.accepts "1e".toList = false ∧ Grammar.integerRx.accepts " -12 ".toList = true
    ∧ Grammar.integerRx.accepts "+".toList = false ∧ Grammar.dmsRx.accepts " -10-21-00.00".toList = true
    ∧ Grammar.dmsRx.accepts "+-0-0-0".toList = true ∧ Grammar.dmsRx.accepts "1-2--3".toList = false
    ∧ Grammar.dmsRx.accepts "1-2-+3".toList = false ∧ Grammar.dmsRx.accepts "1- 2-3".toList = false := by decide
example : Literals.isIntegerCur " -12 ".toList = true ∧ Literals.isIntegerCur "1 2".toList = false ∧ Literals.isIntegerCur "+".toList = false
    ∧ Literals.isFloat "+1.5e-3".toList = true ∧ Literals.isFloat ".".toList = false
    ∧ Literals.isFloat "1e".toList = false ∧ Literals.isFloat " 5. ".toList = true := by decide

/-! ## Source tie of the ellipsoid formulas (round 7)

`Gen/EllipsoidExpr.lean` is rewritten from `ellipsoid.{h,cpp}` on every run (one definition per member function, one
line per C++ statement).  The hand model the theorems above are about is EQUAL to it. -/

/-- **every function of the ellipsoid model is the function the source defines now**, for every scalar type (`Float`
    in the driver, `ℝ` in the theorems): the derived-parameter setters (`set_abff1` and its three entry points, hence
    every table row), `W N M V F`, `blh2xyz`, and `xyz2blh` — `atan2`, the axis branch, the first Bowring pass, the
    clamped second pass, both height formulas.  A changed sign / factor / operand / guard / order in the C++ changes
    the right-hand sides and this proof fails. -/
theorem C18_ellipsoid_source_tie {K : Type} [Scalar K] [Transc K] :
    (∀ pa pb pf pf1 : K, setAbff1 pa pb pf pf1 = Gen.Ell.set_abff1 pa pb pf pf1) ∧
    (∀ r : Gen.EllRow, (ofRow r : Ellipsoid K) = ofRowGen r) ∧
    (∀ (e : Ellipsoid K) (b : K), e.W b = Gen.Ell.W e b ∧ e.N b = Gen.Ell.N e b ∧ e.M b = Gen.Ell.M e b ∧
      e.V b = Gen.Ell.V e b ∧ e.F b = Gen.Ell.F e b) ∧
    (∀ (e : Ellipsoid K) (b l h : K), e.blh2xyz b l h = Gen.Ell.blh2xyz e b l h) ∧
    (∀ (e : Ellipsoid K) (x y z : K), e.xyz2blh x y z = Gen.Ell.xyz2blh e x y z) :=
  ⟨setAbff1_eq_gen, ofRow_eq_gen, fun e b => ⟨W_eq_gen e b, N_eq_gen e b, M_eq_gen e b, V_eq_gen e b, F_eq_gen e b⟩,
   blh2xyz_eq_gen, xyz2blh_eq_gen⟩

/-- the whole off-surface triple (`C18_roundtrip_offsurface_table`) stated for the REGENERATED functions: every
    row of the regenerated table through the regenerated setters, `Gen.Ell.xyz2blh (Gen.Ell.blh2xyz (φ, l, h))`. -/
theorem C18_roundtrip_offsurface_source :
    ∀ r ∈ Gen.ellipsoidTable, ∀ φ l h : ℝ, -10000 ≤ h → h ≤ 20000000 → 0 < Real.cos φ → l ∈ Set.Ioc (-π) π →
      (let e : Ellipsoid ℝ := ofRowGen r
       let p := Gen.Ell.blh2xyz e φ l h
       let t := Gen.Ell.xyz2blh e p.1 p.2.1 p.2.2
       ((Gen.Ell.N e φ + h) * |Real.sin (t.1 - φ)| < 1 / 100000 ∧ 0 < Real.cos (t.1 - φ)) ∧ t.2.1 = l ∧
       (|t.2.2 - h| ≤ 2 * ((Gen.Ell.N e φ + h) * |Real.sin (t.1 - φ)|) ∧ |t.2.2 - h| < 2 / 100000)) := by
  intro r hr φ l h h1 h2 hc hl
  have := (C18_roundtrip_offsurface_table Gen.bowringClamp).1 r hr φ l h h1 h2 hc hl
  simp only [← ofRow_eq_gen, ← blh2xyz_eq_gen, ← xyz2blh_eq_gen, ← N_eq_gen]
  exact this

-- non-vacuity: the regenerated setter is a well-formed ellipsoid on a concrete input (`set_ab 5 4`: B = 4, 0 < B ≤ A)
example : WF (Gen.Ell.set_ab (5 : ℝ) 4) ∧ Gen.Ell.members.length = 10 := by
  rw [← setAb_eq_gen]
  exact ⟨setAb_wf (by norm_num) (by norm_num), rfl⟩

end Gama.Props.C18
