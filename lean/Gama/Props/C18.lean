/-
  C18 — Geodetic primitives round-trip: ellipsoidal coordinates, angles, bearings.

  Property theorems only; lemmas live in Gama/Lemmas/Geo*.lean.  Models:
  Gama/Model/{Ellipsoid,Angles,Bearing,GeoLiterals}.lean, table regenerated into
  Gama/Gen/Ellipsoids.lean.  Over ℝ: `sqrt = Real.sqrt`, `sin/cos = Real.sin/cos`,
  `atan2 y x = Complex.arg (x + y·i)`, `M_PI = π`.  Over ℚ: the sexagesimal field
  splitting and the decimal rounding `ostream` performs (exact arithmetic).
  `xyz2blhWith c`, `gonFields a`, `toPrinted carry`: the flags select the original / repaired
  code (Gama/Gen/GeoVariants.lean says which the tree contains); theorems quantify over them
  where both behave the same.
-/
import Gama.Lemmas.GeoTable
import Gama.Lemmas.GeoAngles
import Gama.Lemmas.GeoDms
import Gama.Lemmas.GeoBearing
import Gama.Lemmas.GeoLiterals
namespace Gama.Props.C18
open Gama Gama.Ellipsoid Gama.Angles Real

/-! ## Ellipsoids -/

/-- every row of the table of ellipsoids.cpp (and the default constructor) yields 0 < b ≤ a and
    members f, n, e², e'², 1−e², 1+e'², a(1−e²), a/b satisfying their defining relations -/
theorem C18_ellipsoid_table :
    (∀ r ∈ Gen.ellipsoidTable, WF (ofRow r : Ellipsoid ℝ)) ∧ WF (ofRow Gen.defaultEllipsoid : Ellipsoid ℝ) :=
  ⟨fun r hr => ofRow_wf r (table_good r hr), ofRow_wf _ default_good⟩

/-- … hence 0 ≤ e² < 1, 0 ≤ e'², 1 − e² = b²/a² > 0 and (1 − e²)(1 + e'²) = 1 -/
theorem C18_ellipsoid_params (e : Ellipsoid ℝ) (w : WF e) :
    0 ≤ e.e2 ∧ e.e2 < 1 ∧ 0 ≤ e.e22 ∧ e.Ime2 = e.B * e.B / (e.A * e.A) ∧ 0 < e.Ime2 ∧ e.Ime2 * e.Ipe22 = 1 :=
  ⟨w.e2_nonneg, w.e2_lt_one, w.e22_nonneg, w.Ime2_eq, w.Ime2_pos, w.Ime2_mul_Ipe22⟩

/-- the three setters establish the relations for every 0 < b ≤ a, 0 < f < 1, 1/f > 1 -/
theorem C18_setters_wf {a x : ℝ} :
    (0 < x → x ≤ a → WF (setAb a x)) ∧ (0 < a → 0 < x → x < 1 → WF (setAf a x)) ∧ (0 < a → 1 < x → WF (setAf1 a x)) :=
  ⟨setAb_wf, setAf_wf, setAf1_wf⟩

/-- pole branch: a point on the axis comes back as (±π/2, 0, h); the longitude is reported as 0 -/
theorem C18_blh_pole (c : Bool) (e : Ellipsoid ℝ) (l h : ℝ) (hh : 0 < e.N (π / 2) * e.Ime2 + h) :
    (let p := e.blh2xyz (π / 2) l h; xyz2blhWith c e p.1 p.2.1 p.2.2) = (π / 2, 0, h) ∧
    (let p := e.blh2xyz (-(π / 2)) l h; xyz2blhWith c e p.1 p.2.1 p.2.2) = (-(π / 2), 0, h) := by
  have hN : e.N (-(π / 2)) = e.N (π / 2) := by simp [N_real, W_real]
  constructor
  · simp only [blh2xyz_real, Real.cos_pi_div_two, Real.sin_pi_div_two, mul_zero, zero_mul, mul_one]
    rw [xyz2blh_axis, if_pos hh]; congr 2; ring
  · simp only [blh2xyz_real, Real.cos_neg, Real.sin_neg, Real.cos_pi_div_two, Real.sin_pi_div_two, mul_zero, zero_mul, hN]
    rw [xyz2blh_axis, if_neg (by linarith), hN]; congr 2; ring

/-- longitude is recovered exactly off the poles, for every l ∈ (−π, π] (antimeridian included) and every height
    above the centre of curvature -/
theorem C18_lon (c : Bool) (e : Ellipsoid ℝ) {b l h : ℝ} (hc : 0 < Real.cos b) (hn : 0 < e.N b + h)
    (hl : l ∈ Set.Ioc (-π) π) :
    (let p := e.blh2xyz b l h; xyz2blhWith c e p.1 p.2.1 p.2.2).2.1 = l := by
  simp only [blh2xyz_real]; rw [xyz2blh_blh2xyz c e hc hn hl]

/-- the height is exact whenever the latitude is: both height formulas return h -/
theorem C18_height_exact (c : Bool) (e : Ellipsoid ℝ) {b l h : ℝ} (hc : 0 < Real.cos b) (hn : 0 < e.N b + h)
    (hl : l ∈ Set.Ioc (-π) π)
    (hb : (let p := e.blh2xyz b l h; xyz2blhWith c e p.1 p.2.1 p.2.2).1 = b) :
    (let p := e.blh2xyz b l h; xyz2blhWith c e p.1 p.2.1 p.2.2).2.2 = h := by
  simp only [blh2xyz_real] at hb ⊢
  rw [xyz2blh_blh2xyz c e hc hn hl] at hb ⊢
  simp only at hb ⊢
  rw [hb]; exact heightOf_exact e hc hn

/-- Bowring's formula is exact on the surface of every ellipsoid 0 < b ≤ a: already the first pass returns the
    geodetic latitude, and the second pass (original or clamped) reproduces it -/
theorem C18_bowring_surface (c : Bool) (e : Ellipsoid ℝ) (w : WF e) {b : ℝ} (hb : b ∈ Set.Ioo (-(π / 2)) (π / 2)) :
    e.bowring1 (e.N b * Real.cos b) (e.N b * e.Ime2 * Real.sin b) = b ∧
    e.bowring2 c (e.N b * Real.cos b) (e.N b * e.Ime2 * Real.sin b) b = b :=
  ⟨bowring1_surface w hb, bowring2_surface c w hb⟩

/-- round trip on the ellipsoid (h = 0) is the identity for every latitude in (−π/2, π/2), longitude in (−π, π] -/
theorem C18_roundtrip_surface (c : Bool) (e : Ellipsoid ℝ) (w : WF e) {b l : ℝ} (hb : b ∈ Set.Ioo (-(π / 2)) (π / 2))
    (hl : l ∈ Set.Ioc (-π) π) :
    (let p := e.blh2xyz b l 0; xyz2blhWith c e p.1 p.2.1 p.2.2) = (b, l, 0) := by
  have hc := cos_pos_of_lat hb
  have hn : 0 < e.N b + 0 := by rw [add_zero]; exact w.N_pos b
  simp only [blh2xyz_real]
  rw [xyz2blh_blh2xyz c e hc hn hl]
  have h1 := bowring1_surface w hb
  have h2 := bowring2_surface c w hb
  simp only [add_zero] at *
  rw [h1, h2]
  have := heightOf_exact e (h := 0) hc (by rw [add_zero]; exact w.N_pos b)
  simp only [add_zero] at this
  rw [this]

/-
  FULL STATEMENT (h ≠ 0): `xyz2blh (blh2xyz b l h) = (b, l, h)` up to the error of the two-pass Bowring
  formula ("max error 0.0018″ for H = 2a" for one pass, ellipsoid.cpp).  That error bound is an analytic
  estimate which is searched (tools/props/c18.py: < 4e-16 rad and < 2e-8 m measured up to 20000 km on
  every table ellipsoid), not proved.  What is proved for every height: the longitude is exact, the
  height is exact as soon as the latitude is, and the structure of the result below.
-/
theorem C18_roundtrip_offsurface_partial (c : Bool) (e : Ellipsoid ℝ) {b l h : ℝ} (hc : 0 < Real.cos b)
    (hn : 0 < e.N b + h) (hl : l ∈ Set.Ioc (-π) π) :
    ∃ B : ℝ, (let p := e.blh2xyz b l h; xyz2blhWith c e p.1 p.2.1 p.2.2) =
      (B, l, e.heightOf ((e.N b + h) * Real.cos b) ((e.N b * e.Ime2 + h) * Real.sin b) B) ∧
      (B = b → e.heightOf ((e.N b + h) * Real.cos b) ((e.N b * e.Ime2 + h) * Real.sin b) B = h) := by
  refine ⟨e.bowring2 c ((e.N b + h) * Real.cos b) ((e.N b * e.Ime2 + h) * Real.sin b)
          (e.bowring1 ((e.N b + h) * Real.cos b) ((e.N b * e.Ime2 + h) * Real.sin b)), ?_, fun hB => ?_⟩
  · simp only [blh2xyz_real]; exact xyz2blh_blh2xyz c e hc hn hl
  · rw [hB]; exact heightOf_exact e hc hn

/-- the variant selected by the translator is one of the two: all of the above hold for `Ellipsoid.xyz2blh` -/
theorem C18_current_variant (e : Ellipsoid ℝ) (x y z : ℝ) :
    e.xyz2blh x y z = xyz2blhWith Gen.bowringClamp e x y z := rfl

example : WF (ofRow Gen.defaultEllipsoid : Ellipsoid ℝ) := C18_ellipsoid_table.2
example : (π / 4) ∈ Set.Ioo (-(π / 2)) (π / 2) := ⟨by linarith [Real.pi_pos], by linarith [Real.pi_pos]⟩
example : π ∈ Set.Ioc (-π) π := ⟨by linarith [Real.pi_pos], le_refl _⟩
example : Gen.ellipsoidTable.length = 48 := by decide

/-! ## Sexagesimal angles (exact arithmetic over ℚ) -/

/-- field splitting of `gon2deg` (original and `fabs` variant): sign flag, 0 ≤ d, 0 ≤ m < 60, 0 ≤ s < 60 and the
    value identity |g|·0.9 = d + m/60 + s/3600 before rounding -/
theorem C18_dms_fields_exact (absFix : Bool) (g : ℚ) :
    let f := gonFields absFix g
    f.neg = decide (g < 0) ∧ 0 ≤ f.d ∧ 0 ≤ f.m ∧ f.m < 60 ∧ 0 ≤ f.s ∧ f.s < 60 ∧
      |g| * (9 / 10) = (f.d : ℚ) + (f.m : ℚ) / 60 + f.s / 3600 := by
  intro f
  have hx : 0 ≤ |g| * (9 / 10 : ℚ) := by positivity
  have h := splitDeg_spec (decide (g < 0)) hx
  have hf : f = splitDeg (decide (g < 0)) (|g| * (9 / 10)) := gonFields_eq absFix g
  rw [hf]
  exact ⟨h.1, h.2.2.1, h.2.2.2.1, h.2.2.2.2.1, h.2.2.2.2.2.1, h.2.2.2.2.2.2.1, h.2.2.2.2.2.2.2⟩

/-- F14: the ORIGINAL formatter (before fix 4ddaee6) prints seconds = 60 (here 60.00 at two decimals) — the statement
    "printed seconds < 60" was false for that code; witness g = 11.4999997 gon
    (replayed on the real code; kept as regression input corpus/C18/ang-f14-seconds60.txt) -/
theorem C18_dms_printed_range_violated_original :
    ¬ (∀ (g : ℚ) (prec : ℕ), let f := gonFields false g
        (toPrinted false f.neg f.d f.m f.s prec).n < 60 * (10 : ℤ) ^ prec) := by
  intro h
  have := h (114999997 / 10000000) 2
  revert this
  decide +kernel

/-- what does hold for the original formatter: minutes in range, printed seconds never above 60 -/
theorem C18_dms_printed_range_partial (g : ℚ) (prec : ℕ) :
    let f := gonFields false g
    let p := toPrinted false f.neg f.d f.m f.s prec
    0 ≤ p.m ∧ p.m < 60 ∧ 0 ≤ p.n ∧ p.n ≤ 60 * (10 : ℤ) ^ prec := by
  intro f p
  obtain ⟨-, -, hm0, hm, hs0, hs, -⟩ := C18_dms_fields_exact false g
  have hr := toPrinted_nocarry_range f.neg f.d f.m f.s prec false hs0 hs
  have hp : p = { neg := f.neg, d := f.d, m := f.m, n := scaled f.s prec, prec := prec, secNegZero := false } :=
    toPrinted_nocarry _ _ _ _ _ _
  refine ⟨?_, ?_, hr.1, hr.2⟩
  · rw [hp]; exact hm0
  · rw [hp]; exact hm

/-- the REPAIRED formatter (carry after rounding; notes/proposed/C18-gon2deg-carry.diff): every printed field is in
    range for every angle and every precision: 0 ≤ d, 0 ≤ m < 60, 0 ≤ printed seconds < 60 -/
theorem C18_dms_printed_range (absFix : Bool) (g : ℚ) (prec : ℕ) :
    let f := gonFields absFix g
    let p := toPrinted true f.neg f.d f.m f.s prec
    0 ≤ p.d ∧ 0 ≤ p.m ∧ p.m < 60 ∧ 0 ≤ p.n ∧ p.n < 60 * (10 : ℤ) ^ prec := by
  intro f p
  obtain ⟨-, hd, hm0, hm, hs0, hs, -⟩ := C18_dms_fields_exact absFix g
  have := toPrinted_carry_range f.neg f.d f.m f.s prec false hd hm0 hm hs0 hs
  exact ⟨this.1, this.2.1, this.2.2.1, this.2.2.2.1, this.2.2.2.2.1⟩

/-- the tree contains the repaired variants (regenerated flags): reverting a fix in /repo breaks this theorem, and the
    oracle then produces the failing input -/
theorem C18_tree_has_repaired_variants :
    Gen.gon2degCarry = true ∧ Gen.gon2degAbs = true ∧ Gen.latlongCarry = true ∧ Gen.latlongAbs = true ∧
      Gen.bowringClamp = true ∧ Gen.isIntegerNeedsDigit = true := by decide

/-- FULL statement for the formatter the tree contains: printed fields of `gon2deg` are in range for every angle and
    precision (0 ≤ d, 0 ≤ m < 60, 0 ≤ printed seconds < 60) -/
theorem C18_dms_printed_range_current (g : ℚ) (prec : ℕ) :
    let f := gonFields Gen.gon2degAbs g
    let p := toPrinted Gen.gon2degCarry f.neg f.d f.m f.s prec
    0 ≤ p.d ∧ 0 ≤ p.m ∧ p.m < 60 ∧ 0 ≤ p.n ∧ p.n < 60 * (10 : ℤ) ^ prec := by
  have h : Gen.gon2degCarry = true := C18_tree_has_repaired_variants.1
  rw [h]; exact C18_dms_printed_range Gen.gon2degAbs g prec

/-- the same two facts for any fields in range — this is the shared tail of `gon2deg` and `latlong` -/
theorem C18_printed_fields_any (neg : Bool) (d m : ℤ) (s : ℚ) (prec : ℕ) (hd : 0 ≤ d) (hm0 : 0 ≤ m) (hm : m < 60)
    (hs0 : 0 ≤ s) (hs : s < 60) :
    (let p := toPrinted true neg d m s prec
     0 ≤ p.d ∧ 0 ≤ p.m ∧ p.m < 60 ∧ 0 ≤ p.n ∧ p.n < 60 * (10 : ℤ) ^ prec) ∧
    (∀ carry, |(toPrinted carry neg d m s prec).degrees - ((d : ℚ) + (m : ℚ) / 60 + s / 3600)|
        ≤ (1 / 2) / (10 : ℚ) ^ prec / 3600) := by
  have := toPrinted_carry_range neg d m s prec false hd hm0 hm hs0 hs
  exact ⟨⟨this.1, this.2.1, this.2.2.1, this.2.2.2.1, this.2.2.2.2.1⟩,
         fun carry => toPrinted_close carry neg d m s prec false hs⟩

/-
  FULL STATEMENT: `deg2gon (gon2deg g sign prec) = ±g` within half a unit of the printed precision, on strings.
  Proved here on the printed FIELDS (d, m, seconds·10^prec as integers): the value `deg2gon` computes from
  them, `(d/360 + m/21600 + s/1296000)·400`, is within ½·10^(−prec) arc seconds (converted to gon) of |g| — for
  the original and the repaired formatter alike (`60.00` reads back correctly).  Not proved: that the decimal
  digit strings denote these integers and that `deg2gon`'s scanner returns them (covered byte-exactly by
  the correspondence and by the `example`s below).
-/
theorem C18_deg2gon_gon2deg_partial (carry absFix : Bool) (g : ℚ) (prec : ℕ) :
    let f := gonFields absFix g
    let p := toPrinted carry f.neg f.d f.m f.s prec
    abs (p.gon - abs g) ≤ (1 / 2) / (10 : ℚ) ^ prec / 3600 / (9 / 10) := by
  intro f p
  obtain ⟨-, -, -, -, -, hs, hval⟩ := C18_dms_fields_exact absFix g
  have h := toPrinted_close carry f.neg f.d f.m f.s prec false hs
  rw [← hval] at h
  rw [Printed.gon_eq]
  have e : p.degrees / (9 / 10) - |g| = (p.degrees - |g| * (9 / 10)) / (9 / 10) := by field_simp
  rw [e, abs_div, abs_of_pos (by norm_num : (0 : ℚ) < 9 / 10)]
  gcongr

/-- `dms2rad` and `rad2dms` on valid fields d < 360, m < 60, 0 ≤ s < 60: the `ddd.mmss` value denotes
    d + m/60 + s/3600 degrees and the two functions are mutually inverse (any loop fuel) -/
theorem C18_dms2rad_rad2dms (fuel : ℕ) {d m : ℕ} {s : ℝ} (hd : d < 360) (hm : m < 60) (hs0 : 0 ≤ s) (hs : s < 60) :
    dms2rad fuel (dmsOf d m s) = degOf d m s / 180 * π ∧
    rad2dms fuel (dms2rad fuel (dmsOf d m s)) = dmsOf d m s ∧
    dms2rad fuel (rad2dms fuel (degOf d m s / 180 * π)) = degOf d m s / 180 * π := by
  have h1 := dms2rad_fields fuel hd hm hs0 hs
  have h2 := rad2dms_fields fuel hd hm hs0 hs
  exact ⟨h1, by rw [h1, h2], by rw [h2, h1]⟩

-- non-vacuity / digit-level samples (tests, not theorems)
example : gon2degWith false false (114999997 / 10000000 : ℚ) 0 2 = some " 10-20-60.00" := by decide +kernel
example : gon2degWith true false (114999997 / 10000000 : ℚ) 0 2 = some " 10-21-00.00" := by decide +kernel
example : gon2degWith true true (-114999997 / 10000000 : ℚ) 2 2 = some " -10-21-00.00" := by decide +kernel
example : gon2degWith true true (-1 / 1000000000 : ℚ) 3 0 = some "-0-00-000" := by decide +kernel
example : gon2degWith true true (399999999 / 1000000 : ℚ) 1 1 = some " 360-00-00.0" := by decide +kernel
example : parseDms " 10-21-00.00" = some (false, 10, 21, (0, -2)) := by decide +kernel
example : parseDms " -10-20-60.00" = some (true, 10, 20, (6000, -2)) := by decide +kernel
example : (deg2gon " 10-20-60.00" : Option ℚ) = some (23 / 2) := by decide +kernel
example : parseDms "10-20" = none ∧ parseDms "10-20-3x" = none ∧ parseDms "--1-2-3" = none := by decide +kernel
example : (3 : ℕ) < 360 ∧ (59 : ℕ) < 60 ∧ (0 : ℝ) ≤ 59.5 ∧ (59.5 : ℝ) < 60 := by norm_num

/-! ## Bearing and distance -/

/-- normalisation: above the cut the bearing lies in [0, 2π) -/
theorem C18_bearing_range (ya xa yb xb : ℝ) (hd : Bearing.cut ≤ (Bearing.bearingDistance ya xa yb xb).2) :
    0 ≤ (Bearing.bearingDistance ya xa yb xb).1 ∧ (Bearing.bearingDistance ya xa yb xb).1 < 2 * π := by
  rw [Bearing.bd_real] at hd ⊢
  split_ifs at hd ⊢ with hcut
  · rw [Bearing.cut_real] at hd; norm_num at hd
  · exact Bearing.norm2pi_range (Complex.arg_mem_Ioc _)

/-- polar consistency: d·cos s = Δx ∧ d·sin s = Δy -/
theorem C18_polar_consistent (ya xa yb xb : ℝ) (hd : Bearing.cut ≤ (Bearing.bearingDistance ya xa yb xb).2) :
    (Bearing.bearingDistance ya xa yb xb).2 * Real.cos (Bearing.bearingDistance ya xa yb xb).1 = xb - xa ∧
    (Bearing.bearingDistance ya xa yb xb).2 * Real.sin (Bearing.bearingDistance ya xa yb xb).1 = yb - ya := by
  rw [Bearing.bd_real] at hd ⊢
  split_ifs at hd ⊢ with hcut
  · rw [Bearing.cut_real] at hd; norm_num at hd
  · have hz : Bearing.dir ya xa yb xb ≠ 0 := by
      intro h0
      apply hcut
      rw [Bearing.dist_eq_norm, h0]; norm_num
    simp only [Bearing.dist_eq_norm]
    exact Bearing.polar _ hz

/-- antisymmetry: the bearing of the reverse direction is the bearing ± π, folded into [0, 2π) -/
theorem C18_bearing_antisym (ya xa yb xb : ℝ) (hd : Bearing.cut ≤ (Bearing.bearingDistance ya xa yb xb).2) :
    (Bearing.bearingDistance yb xb ya xa).1 =
      if (Bearing.bearingDistance ya xa yb xb).1 < π then (Bearing.bearingDistance ya xa yb xb).1 + π
      else (Bearing.bearingDistance ya xa yb xb).1 - π := by
  rw [Bearing.bd_real ya xa yb xb] at hd ⊢
  rw [Bearing.bd_real yb xb ya xa, ← Bearing.dist_symm ya xa yb xb]
  split_ifs at hd ⊢ with hcut
  all_goals first
    | (rw [Bearing.cut_real] at hd; norm_num at hd; done)
    | skip
  all_goals
    have hz : Bearing.dir ya xa yb xb ≠ 0 := by
      intro h0
      apply hcut
      rw [Bearing.dist_eq_norm, h0]; norm_num
    have := Bearing.norm2pi_arg_neg _ hz
    rw [Bearing.dir_neg]
    simp only [*] at *
  all_goals rfl

/-- distance is symmetric (with and without the cut); below the cut both results are (0, 0) in both directions -/
theorem C18_distance_sym (ya xa yb xb : ℝ) :
    (Bearing.bearingDistance ya xa yb xb).2 = (Bearing.bearingDistance yb xb ya xa).2 ∧
    Bearing.distance ya xa yb xb = Bearing.distance yb xb ya xa ∧
    ((Bearing.bearingDistance ya xa yb xb).2 < Bearing.cut →
      Bearing.bearingDistance ya xa yb xb = (0, 0) ∧ Bearing.bearingDistance yb xb ya xa = (0, 0)) := by
  rw [Bearing.bd_real ya xa yb xb, Bearing.bd_real yb xb ya xa, ← Bearing.dist_symm ya xa yb xb,
      Bearing.distance_real, Bearing.distance_real, Bearing.dist_symm ya xa yb xb, Bearing.cut_real]
  refine ⟨?_, rfl, ?_⟩
  · split_ifs <;> rfl
  · intro h
    split_ifs at h ⊢ with hc
    · exact ⟨rfl, rfl⟩
    · exact absurd h hc

example : Bearing.cut ≤ (Bearing.bearingDistance (0 : ℝ) 0 1 0).2 := by
  rw [Bearing.bd_real, Bearing.cut_real]
  have : Bearing.dist 0 0 1 0 = 1 := by unfold Bearing.dist; norm_num
  rw [this]; norm_num

/-! ## Literal recognisers (intfloat.h) -/

/-- `IsInteger` accepts exactly: white space, an optional sign, decimal digits (possibly none!), white space,
    not everything empty -/
theorem C18_isInteger_language (s : List Char) :
    Literals.isInteger s = true ↔
      Literals.trim s ≠ [] ∧ ∃ sg ds, Literals.trim s = sg ++ ds ∧ (sg = [] ∨ sg = ['+'] ∨ sg = ['-']) ∧
        (∀ c ∈ ds, Literals.isDigit c = true) :=
  Literals.isInteger_iff s

/-- the statement "an accepted integer literal contains a digit" was FALSE for the ORIGINAL code (before fix 5c79698):
    a lone sign was accepted (regression input corpus/C18/lit-f16-isint-sign-only.txt) -/
theorem C18_isInteger_requires_digit_violated :
    ¬ (∀ s : List Char, Literals.isInteger s = true → ∃ c ∈ s, Literals.isDigit c = true) := by
  intro h
  have := h ['+'] (by decide)
  revert this
  decide

/-- the REPAIRED recogniser (notes/proposed/C18-isinteger-sign-only.diff): accepted ⇔ after the optional sign there
    is at least one character and only digits; in particular an accepted literal contains a digit -/
theorem C18_isInteger_requires_digit (s : List Char) :
    (Literals.isIntegerWith true s = true ↔
      Literals.skipSign (Literals.trim s) ≠ [] ∧ ∀ c ∈ Literals.skipSign (Literals.trim s), Literals.isDigit c = true) ∧
    (Literals.isIntegerWith true s = true → ∃ c ∈ s, Literals.isDigit c = true) :=
  ⟨Literals.isIntegerWith_true_iff s, Literals.isIntegerWith_true_has_digit s⟩

/-- an accepted float literal always contains a digit, and nothing but the characters of a float literal -/
theorem C18_isFloat_sound_partial (s : List Char) (h : Literals.isFloat s = true) :
    (∃ c ∈ Literals.trim s, Literals.isDigit c = true) :=
  Literals.isFloat_has_digit s h

/-- the recogniser the tree contains is the repaired one -/
theorem C18_isInteger_current (s : List Char) (h : Literals.isIntegerCur s = true) : ∃ c ∈ s, Literals.isDigit c = true := by
  have hv : Gen.isIntegerNeedsDigit = true := C18_tree_has_repaired_variants.2.2.2.2.2
  unfold Literals.isIntegerCur at h; rw [hv] at h
  exact Literals.isIntegerWith_true_has_digit s h

example : Literals.isInteger " -12 ".toList = true ∧ Literals.isInteger "1 2".toList = false
    ∧ Literals.isFloat "+1.5e-3".toList = true ∧ Literals.isFloat ".".toList = false
    ∧ Literals.isFloat "1e".toList = false ∧ Literals.isFloat " 5. ".toList = true := by decide

end Gama.Props.C18
