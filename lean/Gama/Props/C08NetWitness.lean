/-
  C08 at `LocalNetwork` level — `C08_net_datum` APPLIED over ℝ, every hypothesis discharged on one object
  (audit #3, closing-table gap #2): `Ex.npR` (correlated cluster with an excluded observation, defect 1) with
  `min_x_ = [1]` solved by CHOLESKY (dense path) and the SAME network with `min_x_ = [2]` solved by the ENVELOPE
  (sparse path).  `Net.SolverHyp` holds for each run (each from the one `RankGap` on its own `(A, P, S)`, proved),
  both models answer over ℝ, and the theorem gives: same residuals, `[pvv]`, adjusted observations, defect, all
  `qbb(i,j)`; each `x` orthogonal over its own list to `ker A` and of minimal norm over it.
-/
import Gama.Props.C08Net
import Gama.Props.C01.NetWitness
namespace Gama.Props.C08
open Gama Gama.Ls Gama.Ls.Net Gama.LS Gama.Ls.Ex Matrix
attribute [local instance] sqrtFnOfSqrtField
attribute [local instance 2000] scalarOfField

/-- the premise of the second run: `min_x_ = [2]` also resolves the defect with margin ½ -/
theorem C08_net_second_list_witness : Net.SolverHyp .env { npR with minx := [2] } :=
  Props.C01.C01_net_solverhyp_of_gap (npW 2 [2]) (npW_dims 2 [2]) (npW_rows 2 [2]) (by show (2 : ℝ) ≠ 0; norm_num)
    (PcW 2 [2]) (npW_sigma_inv 2 [2]) (npW_regListOK 2 [2] (Or.inr rfl)) gapThresholds_half
    (npW_rankGap 2 [2] (Or.inr rfl) (by norm_num)) .env (by decide)

/-- **`C08_net_datum` applied**: `min_x_ = [1]` + cholesky versus `min_x_ = [2]` + envelope on `npR` -/
theorem C08_net_datum_witness :
    ∃ a a', netSolve .chol npR = .ok a ∧ netSolve .env { npR with minx := [2] } = .ok a' ∧
      toVec (toProblem npR).m a.r = toVec (toProblem npR).m a'.r ∧ a.pvv = a'.pvv ∧
      (toProblem npR).A *ᵥ toVec (toProblem npR).n a.x = (toProblem npR).A *ᵥ toVec (toProblem npR).n a'.x ∧
      a.defect = a'.defect ∧
      (∀ i j : Fin (toProblem npR).m, a.qbb (i.val + 1) (j.val + 1) = a'.qbb (i.val + 1) (j.val + 1)) ∧
      (∀ g, (toProblem npR).A *ᵥ g = 0 → ∑ i ∈ (toProblem npR).S, toVec (toProblem npR).n a.x i * g i = 0) ∧
      (∀ g, (toProblem npR).A *ᵥ g = 0 →
        ∑ i ∈ (Reg.subset [2]).toFinset npR.n, toVec (toProblem npR).n a'.x i * g i = 0) := by
  obtain ⟨a, ha, -⟩ := Props.C01.C01_net_answers_witness .chol (by decide)
  obtain ⟨a', ha', -⟩ := npW2_env [2] (Or.inr rfl)
  obtain ⟨h1, h2, h3, -, h5, h6, h7, h8, -, -⟩ :=
    C08_net_datum .chol .env npR [2] (npW_dims 2 [1]) (npW_rows 2 [1]) (by show (2 : ℝ) ≠ 0; norm_num) PcN
      npR_sigma_inv (Props.C01.C01_net_solverhyp_witness .chol (by decide)) C08_net_second_list_witness a a' ha ha'
  exact ⟨a, a', ha, ha', h1, h2, h3, h5, h6, h7, h8⟩

/-- the second run is the same network with another list, nothing else changed -/
example : ({ npR with minx := [2] } : NetProblem ℝ) = npW 2 [2] ∧ npR = npW 2 [1] := ⟨rfl, rfl⟩

end Gama.Props.C08
