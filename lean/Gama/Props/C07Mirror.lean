/-
  C07 — "mirroring the coordinate axes together with the sense of angles" on the pass `project_equations()` ITSELF
  executes (round 9; gap #9 rest of notes/CLAUSES.md audit #3, C07 rows 7b, 7c, 7d; "What the theorems do NOT cover":
  covariance → weights of the whole pass, recomputed orientation, `xNorthAngle` of the mirrored system, the bridge).

  `C07_mirror_assembled` (`Props/C07.lean`) is about `C07Perm.codeMatrixOf` over hand-packed rows and has
  `P' = D_s P D_s` in its conclusion.  Here:

    * `C07_mirror_of_pass`  two runs of `Lin.passFrom` over `Gen.Lin` (the loop `drv_lin` / `drv_pe` execute) on a
      network and on its mirrored description (`mirLin`: `y ↦ −y`, orientations and `xNorthAngle` in the other sense;
      `mirNObs`: horizontal angles read in the other sense, `Y`, `Ydiff` negated): SAME numbering of the unknowns,
      `A' = D_s A D_t`, `b' = D_s b`, and the least-squares solution is carried over (`D_t x`, `D_s v`, same Φ, same
      regularisation subset) for the weights `D_s P D_s`;
    * `C07_mirror_weight_block`  those weights are DERIVED: the covariance matrix of every cluster of the mirrored
      description (`mirNet`: the loop nest of `change_y_signs_for_inconsistent_system_` with the REGENERATED
      condition, `Gen.YSign.flipCov`) is `D_s C D_s`, so `C P = 1 → C' (D_s P D_s) = 1`, `s` = the row signs of the pass;
    * `C07_flip_is_generated`  the hand model `Input.flipCov` (C07's driver `drv_input`, tied bit-exact to
      `remove_inconsistency()`) and the regenerated `Gen.YSign.flipCov` (C10) are one function, entry by entry;
    * `C07_mirror_of_project_equations_partial`  for the outputs `(np, u)`, `(np', u')` of `PE.projectEquations` on
      `net` and `mirNet net`: `np'.rows/rhs` ARE the mirrored `np.rows/rhs`, `np'.clusters` the conjugated clusters;
    * `C07_xnorth_mirrored`  `PointData::xNorthAngle()` of the mirrored system, from the REGENERATED table;
    * `C07_assembled_is_executed_pass`  the bridge: the matrix of the older `C07_*_assembled` theorems IS the
      executed pass's `codeMatrix`.
-/
import Gama.Lemmas.C07MirrorLoop
import Gama.Lemmas.AssemblyAgree
import Gama.Lemmas.C07Input
import Gama.Lemmas.C06PolLin
import Gama.Gen.XNorth
namespace Gama.Props.C07Mirror
open Gama Gama.Lin Gama.PE Gama.LS Gama.C06FP Gama.C07PE Gama.C07Mir Gama.Cov.YSign Matrix

/-- **mirror, on the executed pass.**  `r` the pass over `obs` in the network `σ`, `r'` the pass over the mirrored
    observations in the mirrored network (any two fuels, any well-formed start state); every row regular (no sight
    shorter than the cut-off) and no horizontal angular right-hand side exactly at the closed end `+200 gon` of the
    window.  Then both passes number the unknowns identically, `A' = D_s A D_t` (`s = −1` on direction, angle,
    azimuth, `Y`, `Ydiff` rows; `t = −1` on the columns of `y` unknowns and orientations), `b' = D_s b`, and every
    least-squares solution `(x, v, Φ)` of the pass for weights `P` and regularisation subset `S` gives the solution
    `(D_t x, D_s v, Φ)` of the mirrored pass for the weights `D_s P D_s` and the same subset: same adjustment with
    `y ↦ −y`, orientations in the other sense. -/
theorem C07_mirror_of_pass (σ : Lin.Net ℝ) (fuel fuel' : Nat) (obs : List (NObs ℝ)) (s0 : IdxState) (r r' : PassOut ℝ)
    (hs0 : s0.WF) (hp : passFrom σ fuel obs s0 = .ok r)
    (hp' : passFrom (mirLin σ) fuel' (obs.map mirNObs) s0 = .ok r')
    (hreg : ∀ ob ∈ obs, Regular ob.kind (σ.view ob))
    (hnb : ∀ i : Fin obs.length, (toRK obs[i].kind).angular = true → r.rhs.getD i.val 0 ≠ HALF)
    (P : Matrix (Fin obs.length) (Fin obs.length) ℝ) (S : Finset (Fin r.idx.maxn))
    (x : Fin r.idx.maxn → ℝ) (v : Fin obs.length → ℝ) (rtr : ℝ)
    (h : IsLSSolution (passMatrix r obs.length) (fun i : Fin obs.length => r.rhs.getD i.val 0) P S x v rtr) :
    r'.idx = r.idx ∧
    ∃ e : Fin r'.idx.maxn ≃ Fin r.idx.maxn, (∀ j, (e j).val = j.val) ∧
      passMatrix r' obs.length =
        (diagonal (fun i : Fin obs.length => kSgn obs[i].kind) * passMatrix r obs.length *
          diagonal (fun j : Fin r.idx.maxn => colSgn r.idx j.val)).submatrix id e ∧
      (fun i : Fin obs.length => r'.rhs.getD i.val 0) =
        diagonal (fun i : Fin obs.length => kSgn obs[i].kind) *ᵥ (fun i : Fin obs.length => r.rhs.getD i.val 0) ∧
      IsLSSolution (passMatrix r' obs.length) (fun i : Fin obs.length => r'.rhs.getD i.val 0)
        (diagonal (fun i : Fin obs.length => kSgn obs[i].kind) * P * diagonal (fun i : Fin obs.length => kSgn obs[i].kind))
        (S.map e.symm.toEmbedding)
        ((diagonal (fun j : Fin r.idx.maxn => colSgn r.idx j.val) *ᵥ x) ∘ e)
        (diagonal (fun i : Fin obs.length => kSgn obs[i].kind) *ᵥ v) rtr :=
  ⟨passFrom_mir_idx σ fuel fuel' obs s0 r r' hp hp' hreg,
   mirror_of_pass σ fuel fuel' obs s0 r r' hs0 hp hp' hreg hnb P S x v rtr h⟩

/-- **what the signs are**: the column sign is −1 exactly for the unknowns `index_y()` and `index_orientation()`
    (whichever unknown owns the column in the numbering the pass ends with), the row sign −1 exactly for the classes
    whose observed value the mirrored description negates -/
theorem C07_mirror_signs (s : IdxState) (hs : s.WF) :
    (∀ (j : Nat) (u : Unk), s.get u = j + 1 → colSgn s j = if u.c = .y ∨ u.c = .ori then -1 else 1) ∧
    (∀ k : Kind, kSgn k = if kNeg k then -1 else 1) ∧
    (∀ k : Kind, kNeg k = true ↔ k = .direction ∨ k = .angle ∨ k = .azimuth ∨ k = .y ∨ k = .ydiff) := by
  refine ⟨fun j u hu => ?_, kSgn_eq, fun k => by cases k <;> simp [kNeg]⟩
  rw [colSgn_spec s hs j u hu]
  cases u.c <;> simp [mirrorSgn]

/-- **the weights of the mirrored description are derived, cluster by cluster.**  For every cluster `c` of the
    network (well-formed band matrix, dimension ≤ number of observations — the parser guarantees equality): the cluster
    of `mirNet` carries `C' = D_s C D_s` (the loop nest of `change_y_signs_for_inconsistent_system_` with the
    regenerated condition), `s_i` = the row sign `kSgn` of the class of observation `i`; hence for the weight block `P`
    of the cluster (`C P = 1`) the weight block of the mirrored cluster is `D_s P D_s` — the block of the `D_s P D_s`
    that `C07_mirror_of_pass` is stated for. -/
theorem C07_mirror_weight_block (c : PE.Cluster ℝ) (hwf : c.cov.WF) (hlen : c.cov.dim ≤ c.obs.length)
    (P : Matrix (Fin c.cov.dim) (Fin c.cov.dim) ℝ) (hP : matN c.cov.dim c.cov * P = 1) :
    (mirCluster c).cov.dim = c.cov.dim ∧ (mirCluster c).cov.WF ∧
    matN c.cov.dim (mirCluster c).cov =
      diagonal (signVec (msOf c) c.cov.dim) * matN c.cov.dim c.cov * diagonal (signVec (msOf c) c.cov.dim) ∧
    matN c.cov.dim (mirCluster c).cov *
      (diagonal (signVec (msOf c) c.cov.dim) * P * diagonal (signVec (msOf c) c.cov.dim)) = 1 ∧
    (∀ (i : Fin c.cov.dim) (hi : i.val < c.obs.length), (signVec (msOf c) c.cov.dim i : ℝ) = kSgn (c.obs[i.val]'hi).kind) :=
  ⟨(mirCluster_cov c hwf hlen).1, (mirCluster_cov c hwf hlen).2.1, (mirCluster_cov c hwf hlen).2.2,
   mirCluster_weight c hwf hlen P hP, fun i hi => signVec_msOf c _ i hi⟩

/-- **one model of `change_y_signs_for_inconsistent_system_`**: C07's hand model of the covariance loop
    (`Input.flipCov`, executed by `drv_input` against `remove_inconsistency()`) and C10's regenerated loop nest
    (`Gen.YSign.flipCov`) give the same matrix, entry by entry, for every well-formed band matrix and every cluster with
    at least `dim` observations -/
theorem C07_flip_is_generated (obs : List (Input.NetObs ℝ)) (C : Cov.CovMat ℝ) (hwf : C.WF) (hlen : C.dim ≤ obs.length)
    (r s : Nat) (hr : r < C.dim) (hs : s < C.dim) :
    (Gen.YSign.flipCov (obs.map Input.NetObs.mirrored) C).get (r + 1) (s + 1) =
      Input.flipCov obs C.dim (fun a b => C.get (a + 1) (b + 1)) r s := by
  have hc : ∀ a b : Bool, Gen.YSign.flipCond a b = (a != b) := by decide
  have hl : C.dim ≤ (obs.map Input.NetObs.mirrored).length := by simpa using hlen
  obtain ⟨_, _, _, g⟩ := flipCov_DCD Gen.YSign.flipCond hc (obs.map Input.NetObs.mirrored) C hwf hl
  have hg := g (r + 1) (s + 1) (by omega) (by omega) (by omega) (by omega)
  unfold Gen.YSign.flipCov
  rw [hg]
  have hm : ∀ k, k < obs.length → mirroredAt (obs.map Input.NetObs.mirrored) (k + 1) = Input.mirroredAt obs k := by
    intro k hk
    unfold mirroredAt Input.mirroredAt
    simp [List.getD_eq_getElem?_getD, hk]
  unfold Input.flipCov sgn
  rw [hm r (by omega), hm s (by omega)]
  have h1 : r < obs.length := by omega
  have h2 : s < obs.length := by omega
  cases Input.mirroredAt obs r <;> cases Input.mirroredAt obs s <;> simp [hr, hs, h1, h2]

/-- **both calls of `project_equations()` take the same course** — given `DegenInv` (the one piece NOT proved: the
    numeric half of `singular_coords` gives the same verdict on the homogenised mirrored matrix).  For every network whose
    observations are regular at the approximate coordinates (`RegAll`): the call on the mirrored description revises the
    same observations, leaves the same index fields after every inner call, removes the same points in the same order
    (any depth of the recursion) and ends with the mirrored description of the network the original call ends with, the
    same `removed` list and the SAME regularisation list `min_x_`. -/
theorem C07_mirror_same_course (hdeg : DegenInv) (net : PE.Net ℝ) (np np' : Ls.Net.NetProblem ℝ) (u u' : Unknowns ℝ)
    (hall : RegAll net) (hwf : WfAll net)
    (hpe : projectEquations net = .ok (np, u)) (hpe' : projectEquations (mirNet net) = .ok (np', u')) :
    u'.net = { mirNet u.net with idx := u.net.idx } ∧ u'.removed = u.removed ∧ np'.minx = np.minx ∧ RegAll u.net := by
  unfold projectEquations at hpe hpe'
  rw [show (mirNet net).points.length = net.points.length from List.length_map _] at hpe'
  exact peLoop_mir hdeg _ net [] np np' u u' hall hwf hpe hpe'

/-- **mirror, for what `project_equations()` hands over** — PARTIAL: the only hypothesis left about the course of the two
    calls is `DegenInv` (round 9's `hfin` — "both calls end with the same statuses and `active()` flags" — is now derived:
    `C07_mirror_same_course`; so is the regularity of the rows of the last inner pass, from `RegAll net`).
    `(np, u)` the output for `net`, `(np', u')` the output for the mirrored description `mirNet net`; `b`, `b'` their last
    inner passes (`PE.Pass`: `np.rows`, `np.rhs`, `np.n`, `np.m` ARE the rows / right-hand sides / counts of `b`).  Then the
    two systems have the same numbering and the same regularisation list `min_x_`, `A' = D_s A D_t`, `b' = D_s b`; the
    clusters handed to the solver are the conjugated ones (`C07_mirror_weight_block`; whole network: `C07_mirror_sigma` in
    `Props/C07MirrorSigma.lean`); and the
    solution is carried over.

    FULL statement: `C07_mirror_of_project_equations` (`Props/C07MirrorLink.lean`, round 13: `DegenInv` is a theorem,
    `C07Glue.degenInv`); this form with `hdeg` is kept so that nothing else breaks.  What used to be missing: no `hdeg` — needs `Ls.Net.prepare` on the conjugated clusters (Cholesky factor of `D_s C D_s`
    is `D_s U D_s`, forward substitution commutes with the signs; or `A_homᵀ A_hom = Aᵀ P A` and `C07_cofactor_transport`)
    so that the sums `aa, bb, |ab|` of `singular_coords` are those of the original call. -/
theorem C07_mirror_of_project_equations_partial (hdeg : DegenInv) (net : PE.Net ℝ) (np np' : Ls.Net.NetProblem ℝ)
    (u u' : Unknowns ℝ) (hall : RegAll net) (hwf : WfAll net)
    (hpe : projectEquations net = .ok (np, u)) (hpe' : projectEquations (mirNet net) = .ok (np', u')) :
    ∃ b b' : PassOut ℝ, Pass np u b ∧ Pass np' u' b' ∧ np'.m = np.m ∧ np'.n = np.n ∧ np'.minx = np.minx ∧
      b'.idx = b.idx ∧ np.clusters = npClusters u.net ∧ np'.clusters = npClusters (mirNet u.net) ∧
      ∀ (hnb : ∀ i : Fin (revisedObs u.net).length,
          (toRK (revisedObs u.net)[i].kind).angular = true → b.rhs.getD i.val 0 ≠ HALF)
        (P : Matrix (Fin (revisedObs u.net).length) (Fin (revisedObs u.net).length) ℝ) (S : Finset (Fin b.idx.maxn))
        (x : Fin b.idx.maxn → ℝ) (v : Fin (revisedObs u.net).length → ℝ) (rtr : ℝ)
        (h : IsLSSolution (passMatrix b (revisedObs u.net).length)
          (fun i : Fin (revisedObs u.net).length => b.rhs.getD i.val 0) P S x v rtr),
        ∃ e : Fin b'.idx.maxn ≃ Fin b.idx.maxn, (∀ j, (e j).val = j.val) ∧
          passMatrix b' (revisedObs u.net).length =
            (diagonal (fun i : Fin (revisedObs u.net).length => kSgn (revisedObs u.net)[i].kind) *
              passMatrix b (revisedObs u.net).length *
              diagonal (fun j : Fin b.idx.maxn => colSgn b.idx j.val)).submatrix id e ∧
          (fun i : Fin (revisedObs u.net).length => b'.rhs.getD i.val 0) =
            diagonal (fun i : Fin (revisedObs u.net).length => kSgn (revisedObs u.net)[i].kind) *ᵥ
              (fun i : Fin (revisedObs u.net).length => b.rhs.getD i.val 0) ∧
          IsLSSolution (passMatrix b' (revisedObs u.net).length)
            (fun i : Fin (revisedObs u.net).length => b'.rhs.getD i.val 0)
            (diagonal (fun i : Fin (revisedObs u.net).length => kSgn (revisedObs u.net)[i].kind) * P *
              diagonal (fun i : Fin (revisedObs u.net).length => kSgn (revisedObs u.net)[i].kind))
            (S.map e.symm.toEmbedding)
            ((diagonal (fun j : Fin b.idx.maxn => colSgn b.idx j.val) *ᵥ x) ∘ e)
            (diagonal (fun i : Fin (revisedObs u.net).length => kSgn (revisedObs u.net)[i].kind) *ᵥ v) rtr := by
  obtain ⟨hi, _, hminx, hregU⟩ := C07_mirror_same_course hdeg net np np' u u' hall hwf hpe hpe'
  obtain ⟨b, Pb⟩ := pe_pass net np u hpe
  obtain ⟨b', Pb'⟩ := pe_pass (mirNet net) np' u' hpe'
  have hreg : ∀ ob ∈ revisedObs u.net, Regular ob.kind ((sigmaOf u.net).view ob) := regAll_revised _ hregU
  have hsig : sigmaOf u'.net = mirLin (sigmaOf u.net) := by rw [hi]; exact sigmaOf_mir u.net
  have hobs : revisedObs u'.net = (revisedObs u.net).map mirNObs := by rw [hi]; exact revisedObs_mir u.net
  have hfuel : u'.net.fuel = u.net.fuel := by rw [hi]; rfl
  have hp' : passFrom (mirLin (sigmaOf u.net)) u.net.fuel ((revisedObs u.net).map mirNObs) IdxState.init = .ok b' := by
    rw [← hsig, ← hfuel, ← hobs]; exact Pb'.pass
  have hm : np'.m = np.m := by rw [Pb'.m, Pb.m, hobs, List.length_map]
  have hcl' : np'.clusters = npClusters (mirNet u.net) := by
    rw [pe_clusters _ _ _ hpe', hi]; rfl
  have hidx := passFrom_mir_idx _ _ _ _ _ b b' Pb.pass hp' hreg
  refine ⟨b, b', Pb, Pb', hm, by rw [Pb'.n, Pb.n, hidx], hminx, hidx, pe_clusters _ _ _ hpe, hcl', ?_⟩
  intro hnb P S x v rtr h
  exact mirror_of_pass _ _ _ _ _ b b' IdxState.wf_init Pb.pass hp' hreg hnb P S x v rtr h

/-! ### `xNorthAngle()` of the mirrored system -/

/-- **`PointData::xNorthAngle()` of the mirrored system, from the regenerated table**: for all 8 axes × 2 senses,
    (1) mirroring the y axis TOGETHER WITH the sense of the angles keeps the description consistent / inconsistent and
    turns the bearing of the x axis into the other sense (`lh' ≡ −lh mod 400 gon`: the `xNorth ↦ −xNorth` of `mirLin`, up
    to the full circle the reduction of the azimuth's right-hand side removes); (2) mirroring the y axis ALONE switches
    consistent ↔ inconsistent (so `remove_inconsistency()` mirrors y back) and leaves `xNorthAngle()` unchanged: the
    internal system of that description is the internal system of the original one -/
theorem C07_xnorth_mirrored : ∀ (cs : CS) (rh : Bool),
    Gen.XNorth.consistent (flipY cs) (!rh) = Gen.XNorth.consistent cs rh ∧
    (Gen.XNorth.xNorthGon (flipY cs) (!rh) + Gen.XNorth.xNorthGon cs rh) % 400 = 0 ∧
    0 ≤ Gen.XNorth.xNorthGon cs rh ∧ Gen.XNorth.xNorthGon cs rh < 400 ∧
    Gen.XNorth.consistent (flipY cs) rh = !Gen.XNorth.consistent cs rh ∧
    Gen.XNorth.xNorthGon (flipY cs) rh = Gen.XNorth.xNorthGon cs rh := by
  intro cs rh; cases cs <;> cases rh <;> decide

/-! ### the bridge to the older assembled theorems -/

/-- **the matrix of `C07_{translation,circle_rotation,mirror,swap}_assembled` and `C07_permutation` IS the executed
    pass's**: when the rows of C07's assembly are those of a pass of `Lin.passFrom` from `IdxState.init` (in the order
    of the pass), C07's numbering is the pass's and `codeMatrixOf` is `Lin.codeMatrix` of the pass's rows, entry by
    entry; the right-hand sides are the pass's -/
theorem C07_assembled_is_executed_pass (σ : Lin.Net ℝ) (fuel : Nat) (obs : List (NObs ℝ)) (r : PassOut ℝ)
    (hp : passFrom σ fuel obs IdxState.init = .ok r) :
    ∃ outs : List (LinOut ℝ), r.rhs = outs.map (·.rhs) ∧
      ∀ {m : Nat} (rows : Fin m → GenRow) (outsF : Fin m → LinOut ℝ),
        List.ofFn (obOf rows outsF) = obsOfPass obs outs →
        finalState (obOf rows outsF) (Equiv.refl _) = r.idx ∧
        ∀ (i : Fin m) (j : Fin (finalState (obOf rows outsF) (Equiv.refl _)).maxn),
          codeMatrixOf (obOf rows outsF) (Equiv.refl _) i j = codeMatrix r.rows i.val (j.val + 1) :=
  codeMatrixOf_obOf_eq_codeMatrix σ fuel obs r hp

/-! ### the OUTPUT side (`y_sign()` on the way out) -/

/-- `y_sign()` of the description whose y axis points the other way (same sense of angles) is the opposite one -/
theorem C07_y_sign_of_mirrored_axes (cs : CS) (lh : Bool) :
    (Input.ySign (flipY cs) lh : ℝ) = -(Input.ySign cs lh) := by
  cases cs <;> cases lh <;>
    simp [Input.ySign, Input.consistent, Input.leftHandedCoords, Input.CS.ord, flipY, ofNat_real]

/-- **printed results transform as the re-expression prescribes — the consistent fields.**  Two descriptions of one
    survey that differ in the direction of the y axis only (`y_sign() = s` and `−s`, `s² = 1`): after
    `remove_inconsistency()` the program holds the SAME internal system (`C07_remove_inconsistency`,
    `C07_xnorth_mirrored` (2)), hence the same approximate `x, y`, corrections `dx, dy`, orientation and correction.
    The adjustment XML then gives: the same adjusted `x`; adjusted `y` with the opposite sign; and for an internal
    orientation in `[0, 400)` gon with `y_sign() = +1` the value itself, with `y_sign() = −1` the orientation in the
    other sense (`400 − z`, and `0` for `0`): in both descriptions a value in `[0, 400]`. -/
theorem C07_output_y_and_orientation (s x y dx dy : ℝ) (o : ℝ) (ho : 0 ≤ o) (ho' : o < 400) :
    Input.outAdjX x dx = x + dx / 1000 ∧
    Input.outAdjY (-s) y dy = -(Input.outAdjY s y dy) ∧
    Input.outOriApprox 1 o = o ∧
    Input.outOriApprox (-1) o = (if o = 0 then 0 else 400 - o) := by
  refine ⟨?_, ?_, ?_, ?_⟩
  · simp [Input.outAdjX, ofNat_real]
  · simp [Input.outAdjY]
  · unfold Input.outOriApprox Input.norm400
    simp only [ofNat_real, one_mul]
    rw [if_neg (not_lt.2 ho), if_neg (by push_cast; linarith)]
  · unfold Input.outOriApprox Input.norm400
    simp only [ofNat_real, neg_one_mul]
    by_cases h0 : o = 0
    · subst h0; simp
    · have hpos : 0 < o := lt_of_le_of_ne ho (Ne.symm h0)
      rw [if_pos (by linarith : -o < 0), if_neg h0, if_neg (by push_cast; linarith)]
      push_cast; ring

/-- **NEG (known finding C07-F3): `<cov-mat>` and ellipse `<alpha>` are NOT transformed.**  As coded, both are written
    from the internal system whatever `y_sign()` is.  For the description with the y axis the other way the prescribed
    values are the covariance `−c_xy` (`C07_cofactor_transport`: `q'_ij = t_i t_j q_ij`) and the bearing `π − α`
    (`C07_ellipse_transport`); the writer gives `c_xy` and `α`: e.g. `m0 = 1`, `q_xy = 1` is printed as `1` for both
    descriptions, and a bearing of 0.5 rad as 0.5 rad. -/
theorem C07_output_cov_alpha_not_transformed :
    (∀ s m0 q : ℝ, Input.outCov (-s) m0 q = Input.outCov s m0 q) ∧
    (∀ s a : ℝ, Input.outAlpha (-s) a = Input.outAlpha s a) ∧
    Input.outCov (-1 : ℝ) 1 1 ≠ -(Input.outCov (1 : ℝ) 1 1) ∧
    Input.outAlpha (-1 : ℝ) (1 / 2) ≠ Real.pi - Input.outAlpha (1 : ℝ) (1 / 2) := by
  refine ⟨fun _ _ _ => rfl, fun _ _ => rfl, ?_, ?_⟩
  · simp only [Input.outCov]; norm_num
  · simp only [Input.outAlpha]
    have := Real.two_le_pi
    intro h; linarith

/-! ### renaming the points, lifted to the solution -/

/-- **rename, assembled.**  Relabel the identity of every unknown by ANY injective map `f` (renaming the points by an
    order-preserving or any other injection induces one) in a whole pass processed in any order `σ`: the numbering table
    is the relabelled table (`mapKeys f`: the index of `f u` is the index of `u`), the sparse rows are IDENTICAL — the
    numbering of the unknowns follows the order of the observations, not the order of the point map — hence the same
    design matrix and the same least-squares solution, residuals, Φ and regularisation subset; no permutation arises
    in the system itself.  (What does follow the `PointID` order — the order of the output and of the list `min_x_` —
    is a permutation: `C07_permutation_solution`, `C07_pointid_total_order`.) -/
theorem C07_rename_assembled {m : Nat} (f : Unk → Unk) (hf : Function.Injective f) (obs : Fin m → Lin.Ob ℝ)
    (σ : Equiv.Perm (Fin m)) (b : Fin m → ℝ) (P : Matrix (Fin m) (Fin m) ℝ) (S : Finset (Fin (finalState obs σ).maxn))
    (x : Fin (finalState obs σ).maxn → ℝ) (v : Fin m → ℝ) (rtr : ℝ)
    (h : IsLSSolution (codeMatrixOf obs σ) b P S x v rtr) :
    finalState (fun i => renOb f (obs i)) σ = (finalState obs σ).mapKeys f ∧
    rowsOf (fun i => renOb f (obs i)) σ = rowsOf obs σ ∧
    ∃ e : Fin (finalState (fun i => renOb f (obs i)) σ).maxn ≃ Fin (finalState obs σ).maxn, (∀ j, (e j).val = j.val) ∧
      codeMatrixOf (fun i => renOb f (obs i)) σ = (codeMatrixOf obs σ).submatrix id e ∧
      IsLSSolution (codeMatrixOf (fun i => renOb f (obs i)) σ) b P (S.map e.symm.toEmbedding) (x ∘ e) v rtr := by
  obtain ⟨h1, h2⟩ := finalState_rename f hf obs σ
  have hn : (finalState (fun i => renOb f (obs i)) σ).maxn = (finalState obs σ).maxn := by rw [h1]; rfl
  let e : Fin (finalState (fun i => renOb f (obs i)) σ).maxn ≃ Fin (finalState obs σ).maxn := finCongr hn
  have hA : codeMatrixOf (fun i => renOb f (obs i)) σ = (codeMatrixOf obs σ).submatrix id e := by
    funext i j
    show rowCoef ((rowsOf (fun i => renOb f (obs i)) σ).getD i []) (j.1 + 1) = rowCoef ((rowsOf obs σ).getD i []) ((e j).1 + 1)
    rw [h2]; rfl
  refine ⟨h1, h2, e, fun _ => rfl, hA, ?_⟩
  rw [hA]
  exact h.perm (Equiv.refl _) e

/-! ### non-vacuity -/

/-- every hypothesis of `C07_mirror_of_pass` together, over ℝ: C05's example network, the pass over `C06PL.lowObs` (an
    exact direction of stand-point 0 from point 7 to point 8, then the 5 m distance) returns for some fuel, the pass
    over the MIRRORED observations in the MIRRORED network returns too, both rows are regular, the angular right-hand
    side is 0 (not `+200 gon`), and the zero vector is a least-squares solution of the pass (unit weights, `S = ∅`) -/
example : ∃ (fuel fuel' : Nat) (r r' : PassOut ℝ),
    passFrom exNet fuel C06PL.lowObs IdxState.init = .ok r ∧
    passFrom (mirLin exNet) fuel' (C06PL.lowObs.map mirNObs) IdxState.init = .ok r' ∧
    (∀ ob ∈ C06PL.lowObs, Regular ob.kind (exNet.view ob)) ∧
    (∀ i : Fin C06PL.lowObs.length, (toRK C06PL.lowObs[i].kind).angular = true → r.rhs.getD i.val 0 ≠ HALF) ∧
    IsLSSolution (passMatrix r C06PL.lowObs.length) (fun i : Fin C06PL.lowObs.length => r.rhs.getD i.val 0)
      (1 : Matrix _ _ ℝ) (∅ : Finset (Fin r.idx.maxn)) 0 0 0 := by
  have hc := ex_not_cut
  have hc0 : ¬ hdist (exNet.view ⟨.direction, 0, 7, 8, 0, brg 3 4 - 2 * Real.pi⟩) < CUT := hc
  obtain ⟨fuel, out, hd⟩ := direction_terminates (exNet.view ⟨.direction, 0, 7, 8, 0, brg 3 4 - 2 * Real.pi⟩) hc0
  have hc1 : ¬ hdist (mirView .direction (exNet.view ⟨.direction, 0, 7, 8, 0, brg 3 4 - 2 * Real.pi⟩)) < CUT := by
    rw [show hdist (mirView .direction (exNet.view ⟨.direction, 0, 7, 8, 0, brg 3 4 - 2 * Real.pi⟩))
      = hdist (flipObs (exNet.view ⟨.direction, 0, 7, 8, 0, brg 3 4 - 2 * Real.pi⟩)) from rfl, hdist_flip]
    exact hc0
  obtain ⟨fuel', out', hd'⟩ := direction_terminates _ hc1
  have hc2 : ¬ hdist (mirView .distance (exNet.view ⟨.distance, 0, 7, 8, 0, 5⟩)) < CUT := by
    rw [show hdist (mirView .distance (exNet.view ⟨.distance, 0, 7, 8, 0, 5⟩))
      = hdist (flipObs (exNet.view ⟨.distance, 0, 7, 8, 0, 5⟩)) from rfl, hdist_flip]
    exact hc
  have e : C06PL.lowObs = [⟨.direction, 0, 7, 8, 0, brg 3 4 - 2 * Real.pi⟩, ⟨.distance, 0, 7, 8, 0, 5⟩] := rfl
  have hp : ∃ r, passFrom exNet fuel C06PL.lowObs IdxState.init = .ok r := by
    rw [e]
    simp only [passFrom, Kind.lin, hd, distance_eq _ _ ex_not_cut]
    exact ⟨_, rfl⟩
  have hp' : ∃ r', passFrom (mirLin exNet) fuel' (C06PL.lowObs.map mirNObs) IdxState.init = .ok r' := by
    rw [e]
    simp only [List.map_cons, List.map_nil, passFrom, view_mir]
    simp only [show (mirNObs ⟨.direction, 0, 7, 8, 0, brg 3 4 - 2 * Real.pi⟩).kind = Kind.direction from rfl,
      show (mirNObs ⟨.distance, 0, 7, 8, 0, 5⟩).kind = Kind.distance from rfl, Kind.lin, hd', distance_eq _ _ hc2]
    exact ⟨_, rfl⟩
  obtain ⟨r, hr⟩ := hp
  obtain ⟨r', hr'⟩ := hp'
  have hz : (fun i : Fin C06PL.lowObs.length => r.rhs.getD i.val 0) = 0 :=
    pass_rhs_vec_zero exNet fuel C06PL.lowObs _ r C06PL.lowObs_exact hr
  refine ⟨fuel, fuel', r, r', hr, hr', ?_, ?_, ?_⟩
  · intro ob hob
    rw [e] at hob
    simp only [List.mem_cons, List.not_mem_nil, or_false] at hob
    rcases hob with rfl | rfl
    · exact hc0
    · exact hc
  · intro i _
    have h0 : r.rhs.getD i.val 0 = 0 := congrFun hz i
    rw [h0]; unfold HALF; norm_num
  · rw [hz]
    exact zero_isLSSolution _ _ _

/-- `C07_mirror_weight_block`, `C07_flip_is_generated`: a `<vectors>`-like cluster `(dx, dy)` with `cov(dx, dy) = 3`
    (full 2×2 matrix `[[4, 3], [3, 9]]`): well formed, as many observations as rows; the mirrored cluster carries
    `cov(dx, dy) = −3`, and so do the hand model and the regenerated loop nest -/
example : (⟨2, 1, #[4, 3, 9]⟩ : Cov.CovMat ℚ).WF ∧
    (Gen.YSign.flipCov [false, true] (⟨2, 1, #[4, 3, 9]⟩ : Cov.CovMat ℚ)).get 1 2 = -3 ∧
    (Gen.YSign.flipCov [false, true] (⟨2, 1, #[4, 3, 9]⟩ : Cov.CovMat ℚ)).get 2 2 = 9 ∧
    Input.flipCov [(⟨.xdiff, 1⟩ : Input.NetObs ℚ), ⟨.ydiff, 2⟩] 2
      (fun a b => (⟨2, 1, #[4, 3, 9]⟩ : Cov.CovMat ℚ).get (a + 1) (b + 1)) 0 1 = -3 := by
  refine ⟨⟨by decide, by decide⟩, by decide +kernel, by decide +kernel, by decide +kernel⟩

/-- `C07_xnorth_mirrored`: base description `ne`, left-handed angles (consistent, `xNorthAngle = 0`); `nw` with
    left-handed angles is inconsistent with the same `xNorthAngle`; `en` / left-handed has 300 gon, its mirror
    `es` / right-handed 100 gon -/
example : Gen.XNorth.consistent .NE false = true ∧ Gen.XNorth.consistent .NW false = false ∧
    Gen.XNorth.xNorthGon .NE false = 0 ∧ Gen.XNorth.xNorthGon .NW false = 0 ∧
    Gen.XNorth.xNorthGon .EN false = 300 ∧ Gen.XNorth.xNorthGon (flipY .EN) true = 100 := by decide

/-- `C07_rename_assembled`: a renaming that is not the identity (every identity moved by 10) is injective, and the
    two-row witness pass of `Props/C07.lean` (a direction and a distance) with the zero solution of its exact
    right-hand sides is a pass it applies to -/
example : Function.Injective (fun u : Unk => (⟨u.id + 10, u.c⟩ : Unk)) ∧
    (fun u : Unk => (⟨u.id + 10, u.c⟩ : Unk)) ⟨0, .x⟩ ≠ ⟨0, .x⟩ := by
  refine ⟨fun a b h => ?_, by simp⟩
  obtain ⟨ia, ca⟩ := a
  obtain ⟨ib, cb⟩ := b
  simp only [Unk.mk.injEq] at h
  obtain ⟨h1, h2⟩ := h
  have : ia = ib := by omega
  rw [this, h2]

end Gama.Props.C07Mirror
