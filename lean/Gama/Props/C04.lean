/-
  C04 — Solver answers do not depend on the order or history of queries.
  Property theorems only; helper lemmas live in Gama/Lemmas.
-/
import Gama.Lemmas.Cache
namespace Gama.Props.C04
open Gama Gama.MTF

variable {Key Buf : Type} [DecidableEq Key]

/-- a key is reported `good` exactly when it is live -/
theorem mtf_miss_iff (k : Key) (l : List (Key × Buf)) :
    extract k l = none ↔ k ∉ l.map Prod.fst := extract_none_iff k l

end Gama.Props.C04
