/-
  C04 — Solver answers do not depend on the order or history of queries.
  Property theorems only; helper lemmas live in Gama/Lemmas (Cache.lean, EnvState.lean, FullState.lean).

  Shape: the solver objects are modelled as state machines *with* their caches, stage
  counters and dirty flags (Model/EnvState.lean, Model/FullState.lean); every answer is a
  symbolic term naming the artefacts it was read from; the theorems say that after ANY
  finite history of API calls the answer equals the answer of a fresh object with the same
  configuration.  Numeric content of the artefacts is C01/C03's subject.
-/
import Gama.Lemmas.Cache
import Gama.Lemmas.EnvState
namespace Gama.Props.C04
open Gama Gama.MTF Gama.C04

/-! ### the move-to-front cache (`MoveToFront<N,Key,Buffer>`) -/

variable {Key Buf : Type} [DecidableEq Key]

/-- a key is reported `good` exactly when it is live -/
theorem mtf_miss_iff (k : Key) (l : List (Key × Buf)) :
    extract k l = none ↔ k ∉ l.map Prod.fst := extract_none_iff k l

/-- `get` is total for `N ≥ 1`, keeps keys and buffers distinct and the capacity unchanged, puts the
    requested key in front with the returned buffer, returns the key's own buffer on a hit and a
    buffer no other live key owns on a miss -/
theorem mtf_get_sound (m : MTF Key Buf) (k : Key) (hw : WF m) (hc : 0 < m.cap) :
    ∃ m' b g, m.get k = some (m', (b, g)) ∧ WF m' ∧ m'.cap = m.cap
      ∧ (∃ rest, m'.ents = (k, b) :: rest)
      ∧ (g = true → (k, b) ∈ m.ents)
      ∧ (g = false → k ∉ m.ents.map Prod.fst)
      ∧ (∀ k' b', (k', b') ∈ m'.ents → k' ≠ k → (k', b') ∈ m.ents ∧ b' ≠ b) := by
  obtain ⟨m', b, g, hget, hs⟩ := get_spec m k hc
  refine ⟨m', b, g, hget, hs.wf hw, hs.cap, hs.head, ?_, ?_, ?_⟩
  · intro hg; subst hg; exact hs.hit_mem
  · intro hg; subst hg; exact hs.miss_fresh
  · intro k' b' hm hne
    refine ⟨hs.old k' b' hm hne, ?_⟩
    intro hb; subst hb
    obtain ⟨rest, hh⟩ := hs.head
    exact hne ((hs.wf hw).key_of_buf hm (by rw [hh]; exact List.mem_cons_self ..))

/-- with at least two buffers the entry used last survives the next `get` (the two references
    `a`, `b` taken by `AdjEnvelope::q_xx` never alias different keys) -/
theorem mtf_keeps_most_recent (m : MTF Key Buf) (k k0 : Key) (b0 : Buf) (rest : List (Key × Buf))
    (hc : 2 ≤ m.cap) (hh : m.ents = (k0, b0) :: rest) (hne : k0 ≠ k) :
    ∃ m' r, m.get k = some (m', r) ∧ (k0, b0) ∈ m'.ents := by
  obtain ⟨m', b, g, hget, hs⟩ := get_spec m k (by omega)
  exact ⟨m', (b, g), hget, hs.keeps_front hh hne hc⟩

example : (MTF.init [0, 1, 2] : MTF Int Nat).WF ∧ 2 ≤ (MTF.init [0, 1, 2] : MTF Int Nat).cap :=
  ⟨wf_init _ (by decide), by decide⟩

/-! ### `AdjEnvelope` -/

/-- **History freedom.**  After any finite sequence of API calls (queries, `min_x()`, `min_x(list)`,
    `reset(same input)`) every query is answered exactly as a brand-new object configured with the
    current regularisation list would answer it: in particular every cached buffer that is read
    holds what a fresh computation would put there. -/
theorem envelope_history_free (inp : EnvInput) (hp : inp.Pos) (m0 : Option (List Nat))
    (ops : List Op) (hops : ∀ o ∈ ops, o.Valid) (op : Op) (hop : op.Valid) :
    (step inp (run inp (init m0) ops) op).2 = fresh inp (run inp (init m0) ops).minx op :=
  step_eq_fresh (run_inv hp (inv_init inp m0) hops) hp op hop

/-- the invariant that makes it work holds in every reachable state -/
theorem envelope_invariant (inp : EnvInput) (hp : inp.Pos) (m0 : Option (List Nat))
    (ops : List Op) (hops : ∀ o ∈ ops, o.Valid) : Inv inp (run inp (init m0) ops) :=
  run_inv hp (inv_init inp m0) hops

/-- **One value per question.**  The answer is a function of the input and of the effective
    regularisation list alone (`spec`), whatever was asked before. -/
theorem envelope_answer_is_spec (inp : EnvInput) (hp : inp.Pos) (m0 : Option (List Nat))
    (ops : List Op) (hops : ∀ o ∈ ops, o.Valid) (op : Op) (hop : op.Valid) :
    (step inp (run inp (init m0) ops) op).2 = spec inp (eff inp (run inp (init m0) ops).minx) op :=
  (step_spec (run_inv hp (inv_init inp m0) hops) hp op hop).2

/-- **Idempotence.**  Asking the same question again gives the same answer. -/
theorem envelope_idempotent (inp : EnvInput) (hp : inp.Pos) (m0 : Option (List Nat))
    (ops : List Op) (hops : ∀ o ∈ ops, o.Valid) (q : Op) (hq : q.Valid) (hquery : q.IsQuery) :
    let s := run inp (init m0) ops
    (step inp (step inp s q).1 q).2 = (step inp s q).2 :=
  step_twice (run_inv hp (inv_init inp m0) hops) hp q hq hquery

/-- **Reset with the same input.**  `reset` changes no answer. -/
theorem envelope_reset_same_input (inp : EnvInput) (hp : inp.Pos) (m0 : Option (List Nat))
    (ops : List Op) (hops : ∀ o ∈ ops, o.Valid) (q : Op) (hq : q.Valid) :
    let s := run inp (init m0) ops
    (step inp (step inp s .reset).1 q).2 = (step inp s q).2 :=
  step_after_reset (run_inv hp (inv_init inp m0) hops) hp q hq

/-- non-vacuity: a singular input with a narrow envelope, a history that fills the three buffers,
    changes the regularisation and resets; the final `q_xx` is the fresh one -/
example :
    let inp : EnvInput := { n := 5, nullity := 1, invp := fun i => 6 - i,
                            inEnv := fun i j => (max i j) - (min i j) ≤ 1,
                            resolves := fun l => l ≠ [], qbbIn := fun i j => i == j }
    let ops := [Op.qxx 1 5, .q0xx 1 4, .qxx 2 3, .qxx 4 4, .minx [1, 2], .qxx 1 5, .unknowns,
                .reset, .q0xx 5 1, .qbb 1 2, .minxAll]
    (step inp (run inp (init none) ops) (.qxx 1 5)).2
      = .qxxSing (.trow 1 [1, 2, 3, 4, 5]) (.trow 5 [1, 2, 3, 4, 5]) := by decide

end Gama.Props.C04
