/-
  C04 — Solver answers do not depend on the order or history of queries.
  Property theorems only; helper lemmas live in Gama/Lemmas (Cache.lean, EnvState.lean, FullState.lean).

  Shape: the solver objects are modelled as state machines *with* their caches, stage
  counters and dirty flags (Model/EnvState.lean, Model/FullState.lean); every answer is a
  symbolic term naming the artefacts it was read from; the theorems say that after ANY
  finite history of API calls the answer equals the answer of a fresh object with the same
  configuration.  The symbolic answers have a proved numeric meaning (`env_answer_denotes`: the field of the
  numeric envelope model `Ls.envSolve` on the current problem with the caller's configuration); that `envSolve`'s
  fields are the least-squares solution / cofactors is C01/C03's subject.

  Round 4: `EnvInput.Pos`, `World.Describes`, `Op.Valid` are bounded by the number of unknowns of the input the
  object holds when the call is made (`HValid`), and are PROVED for the input the correspondence driver runs
  (`env_driver_input_is_instance`), so every case of the `envstate` stream is an instance of the theorems below.
-/
import Gama.Lemmas.Cache
import Gama.Lemmas.EnvState
import Gama.Lemmas.EnvHist
import Gama.Lemmas.EnvDenote
import Gama.Lemmas.EnvStateFacts
import Gama.Gen.NetCascade
namespace Gama.Props.C04
open Gama Gama.MTF Gama.C04

/-! ### the move-to-front cache (`MoveToFront<N,Key,Buffer>`) -/

variable {Key Buf : Type} [DecidableEq Key]

/-- a key is reported `good` exactly when it is live -/
theorem mtf_miss_iff (k : Key) (l : List (Key × Buf)) :
    extract k l = none ↔ k ∉ l.map Prod.fst := extract_none_iff k l

/-- `get` is total for `N ≥ 1`, keeps keys and buffers distinct and the capacity unchanged, puts the
    requested key in front with the returned buffer, returns the key's own buffer on a hit and a
    buffer no other live key owns on a miss -/
theorem mtf_get_sound (m : MTF Key Buf) (k : Key) (hw : WF m) (hc : 0 < m.cap) :
    ∃ m' b g, m.get k = some (m', (b, g)) ∧ WF m' ∧ m'.cap = m.cap
      ∧ (∃ rest, m'.ents = (k, b) :: rest)
      ∧ (g = true → (k, b) ∈ m.ents)
      ∧ (g = false → k ∉ m.ents.map Prod.fst)
      ∧ (∀ k' b', (k', b') ∈ m'.ents → k' ≠ k → (k', b') ∈ m.ents ∧ b' ≠ b) := by
  obtain ⟨m', b, g, hget, hs⟩ := get_spec m k hc
  refine ⟨m', b, g, hget, hs.wf hw, hs.cap, hs.head, ?_, ?_, ?_⟩
  · intro hg; subst hg; exact hs.hit_mem
  · intro hg; subst hg; exact hs.miss_fresh
  · intro k' b' hm hne
    refine ⟨hs.old k' b' hm hne, ?_⟩
    intro hb; subst hb
    obtain ⟨rest, hh⟩ := hs.head
    exact hne ((hs.wf hw).key_of_buf hm (by rw [hh]; exact List.mem_cons_self ..))

/-- with at least two buffers the entry used last survives the next `get` (the two references
    `a`, `b` taken by `AdjEnvelope::q_xx` never alias different keys) -/
theorem mtf_keeps_most_recent (m : MTF Key Buf) (k k0 : Key) (b0 : Buf) (rest : List (Key × Buf))
    (hc : 2 ≤ m.cap) (hh : m.ents = (k0, b0) :: rest) (hne : k0 ≠ k) :
    ∃ m' r, m.get k = some (m', r) ∧ (k0, b0) ∈ m'.ents := by
  obtain ⟨m', b, g, hget, hs⟩ := get_spec m k (by omega)
  exact ⟨m', (b, g), hget, hs.keeps_front hh hne hc⟩

example : (MTF.init [0, 1, 2] : MTF Int Nat).WF ∧ 2 ≤ (MTF.init [0, 1, 2] : MTF Int Nat).cap :=
  ⟨wf_init _ (by decide), by decide⟩

/-- **the cache capacity of the envelope model is the source's** (round 9): `cacheSize` of `Model/EnvState.lean` equals
    the template argument of `GNU_gama::MoveToFront<N,Index,Index> indbuf` in adj_envelope.h, regenerated on every run by
    tools/gen/c04_cascade.py (`MoveToFront<(\d+)`); with it `2 ≤ cap`, the hypothesis of `mtf_keeps_most_recent` -/
theorem mtf_cache_size_is_source : cacheSize = Gama.C04.Net.Gen.mtfCapacity ∧ 2 ≤ Gama.C04.Net.Gen.mtfCapacity :=
  ⟨rfl, by decide⟩

/-! ### `AdjEnvelope` -/

/-- **History freedom.**  After any finite sequence of API calls (queries, `min_x()`, `min_x(list)`,
    `reset(same input)`) every query is answered exactly as a brand-new object configured with the
    current regularisation list would answer it: in particular every cached buffer that is read
    holds what a fresh computation would put there. -/
theorem envelope_history_free (inp : EnvInput) (hp : inp.Pos) (m0 : Option (List Nat))
    (ops : List Op) (hops : ∀ o ∈ ops, o.Valid inp.n) (op : Op) (hop : op.Valid inp.n) :
    (step inp (run inp (init m0) ops) op).2 = fresh inp (run inp (init m0) ops).minx op :=
  step_eq_fresh (run_inv hp (inv_init inp m0) hops) hp op hop

/-- the invariant that makes it work holds in every reachable state -/
theorem envelope_invariant (inp : EnvInput) (hp : inp.Pos) (m0 : Option (List Nat))
    (ops : List Op) (hops : ∀ o ∈ ops, o.Valid inp.n) : Inv inp (run inp (init m0) ops) :=
  run_inv hp (inv_init inp m0) hops

/-- **One value per question.**  The answer is a function of the input and of the effective
    regularisation list alone (`spec`), whatever was asked before. -/
theorem envelope_answer_is_spec (inp : EnvInput) (hp : inp.Pos) (m0 : Option (List Nat))
    (ops : List Op) (hops : ∀ o ∈ ops, o.Valid inp.n) (op : Op) (hop : op.Valid inp.n) :
    (step inp (run inp (init m0) ops) op).2 = spec inp (eff inp (run inp (init m0) ops).minx) op :=
  (step_spec (run_inv hp (inv_init inp m0) hops) hp op hop).2

/-- **Idempotence.**  Asking the same question again gives the same answer. -/
theorem envelope_idempotent (inp : EnvInput) (hp : inp.Pos) (m0 : Option (List Nat))
    (ops : List Op) (hops : ∀ o ∈ ops, o.Valid inp.n) (q : Op) (hq : q.Valid inp.n) (hquery : q.IsQuery) :
    let s := run inp (init m0) ops
    (step inp (step inp s q).1 q).2 = (step inp s q).2 :=
  step_twice (run_inv hp (inv_init inp m0) hops) hp q hq hquery

/-- **Reset with the same input.**  `reset` changes no answer. -/
theorem envelope_reset_same_input (inp : EnvInput) (hp : inp.Pos) (m0 : Option (List Nat))
    (ops : List Op) (hops : ∀ o ∈ ops, o.Valid inp.n) (q : Op) (hq : q.Valid inp.n) :
    let s := run inp (init m0) ops
    (step inp (step inp s .reset).1 q).2 = (step inp s q).2 :=
  step_after_reset (run_inv hp (inv_init inp m0) hops) (run_hinv inp hp m0 ops hops).2.2 hp q hq

/-- non-vacuity: a singular input with a narrow envelope, a history that fills the three buffers,
    changes the regularisation and resets; the final `q_xx` is the fresh one -/
example :
    let inp : EnvInput := { n := 5, nullity := 1, invp := fun i => 6 - i,
                            inEnv := fun i j => (max i j) - (min i j) ≤ 1,
                            resolves := fun l => l ≠ [], qbbIn := fun i j => i == j }
    let ops := [Op.qxx 1 5, .q0xx 1 4, .qxx 2 3, .qxx 4 4, .minx [1, 2], .qxx 1 5, .unknowns,
                .reset, .q0xx 5 1, .qbb 1 2, .minxAll]
    inp.Pos ∧ (∀ o ∈ ops, o.Valid inp.n) ∧ (Op.qxx 1 5).Valid inp.n
    ∧ (step inp (run inp (init none) ops) (.qxx 1 5)).2
      = .qxxSing (.trow 0 1 [1, 2, 3, 4, 5]) (.trow 0 5 [1, 2, 3, 4, 5]) := by
  refine ⟨fun i h1 hn => ?_, by decide, by decide, by decide⟩
  show 1 ≤ 6 - i
  have : i ≤ 5 := hn
  omega

/-! ### `AdjEnvelope` across resets to OTHER inputs (round 3)

The current input is part of the state (`HState`), `resetNew inp'` is `reset(data')` with any other
input (same or different number of unknowns, regular or singular).  Everything that physically
survives `reset` is state of the model: the key table `indbuf`, the three vectors `qxxbuf`
(`content`, each tagged with the identity of the data set it was computed from), the work vector
`tmpres` (`tmpresDim`), the stored list `min_x_list`. -/

/-- **History freedom across inputs.**  After ANY history — queries, `min_x…`, `reset` with the same
    or with other inputs of any size — every query is answered as a brand-new object answers it that is
    given the CURRENT input and the configuration the CALLER left: `lastCfg m0 ops` is `none` (all
    parameters: constructor default or the last `min_x()`) or the list of the last `min_x(n, list)`; nothing
    the object materialised on the way enters.  No vector cached from an earlier input is ever read (`reset`
    erases the key table, `inv_reset`), and the list 1..n that `solve_x` builds for the default configuration
    is dropped by `reset` (repo 65eea33; `reset_md`, `eff_cfg`). -/
theorem env_history_free_across_inputs (inp0 : EnvInput) (hp : inp0.Pos) (m0 : Option (List Nat))
    (ops : List HOp) (hops : HValid inp0 ops) (op : Op) :
    let h := hrun (hinit inp0 m0) ops
    op.Valid h.inp.n → (hstep h (.q op)).2 = fresh h.inp (lastCfg m0 ops) op := by
  intro h hop
  have hi := hrun_inv (hinv_init hp m0) hops
  rw [hstep_eq_fresh_cfg hi op hop, hrun_cfg (hinv_init hp m0) hops]
  simp only [hinit, cfg_init]
  rfl

/-- … and, equivalently, as an object configured with the list it currently stores -/
theorem env_history_free_across_inputs_stored (inp0 : EnvInput) (hp : inp0.Pos) (m0 : Option (List Nat))
    (ops : List HOp) (hops : HValid inp0 ops) (op : Op) :
    let h := hrun (hinit inp0 m0) ops
    op.Valid h.inp.n → (hstep h (.q op)).2 = fresh h.inp h.s.minx op :=
  fun hop => hstep_eq_fresh (hrun_inv (hinv_init hp m0) hops) op hop

/-- the invariant along such histories: the single-input invariant for the current input (every live
    key's vector was computed from the CURRENT data set; `tmpres` has the current dimension whenever
    `init_q_bb` is clear — its content is zeroed and refilled before every use), and a list marked
    `min_x_default` is the list of all parameters of the CURRENT system -/
theorem env_invariant_across_inputs (inp0 : EnvInput) (hp : inp0.Pos) (m0 : Option (List Nat))
    (ops : List HOp) (hops : HValid inp0 ops) :
    let h := hrun (hinit inp0 m0) ops
    h.inp.Pos ∧ Inv h.inp h.s ∧ MD h.inp h.s :=
  hrun_inv (hinv_init hp m0) hops

/-- the same-input theorem is the special case without `resetNew` -/
theorem envelope_history_free_is_corollary (inp : EnvInput) (hp : inp.Pos) (m0 : Option (List Nat))
    (ops : List Op) (hops : ∀ o ∈ ops, o.Valid inp.n) (op : Op) (hop : op.Valid inp.n) :
    (step inp (run inp (init m0) ops) op).2 = fresh inp (run inp (init m0) ops).minx op := by
  have h := env_history_free_across_inputs_stored inp hp m0 (ops.map .q) (hvalid_q inp ops hops) op
  obtain ⟨e1, e2⟩ := hrun_q inp (init m0) 0 ops
  have h' := h (by rw [hinit, e1]; exact hop)
  rw [← e2]
  simp only [hinit, e1] at h'
  have e3 : (hstep (hrun { inp := inp, s := init m0 } (ops.map .q)) (.q op)).2
      = (step (hrun { inp := inp, s := init m0 } (ops.map .q)).inp (hrun { inp := inp, s := init m0 } (ops.map .q)).s op).2 := rfl
  rw [e3, e1] at h'
  exact h'

/-- **Numeric meaning (`answer_denotes`; round 4: no free parameter).**  `W` is a numeric world (problems by
    identity, inverse orderings) that describes the current input (`Describes`, bounded by `n`), and the symbolic
    facts of the current input are the facts the numeric model reports for the problem it names (`Facts`: same
    size, `nullity = defect of envSolve`, `resolves l ↔ solve_x of envSolve does not throw for l`).  Then the
    value DENOTED by the symbolic answer after ANY history — every provenance term evaluated by `Ls.envSolve`
    on the data set it names — is `answer p c op'`: the field of `envSolve` for that member function on the
    CURRENT problem `p = W.prob id` with the configuration `c = lastCfg m0 ops` the CALLER left (`op'` = `op`
    with the element order in which the code indexes the symmetric inverse outside the envelope,
    `codeOrder`).  The right-hand side mentions neither the history, nor the object's state, nor a symbolic
    fact, nor the stored list `m` the term is evaluated with: the value is determined by the problem, the caller's
    configuration and the query alone. -/
theorem env_answer_denotes {K : Type} [Scalar K] (W : World K) (inp0 : EnvInput) (hp : inp0.Pos)
    (m0 : Option (List Nat)) (ops : List HOp) (hops : HValid inp0 ops) (op : Op) (m : Option (List Nat)) :
    let h := hrun (hinit inp0 m0) ops
    op.Valid h.inp.n → W.Describes h.inp → Facts (W.prob h.inp.id) h.inp →
    denote W h.inp.id m (hstep h (.q op)).2
      = answer (W.prob h.inp.id) (lastCfg m0 ops) (codeOrder h.inp op) := by
  intro h hop hd hF
  have hi := hrun_inv (hinv_init hp m0) hops
  rw [hstep_answer W hi hd hF m op hop, hrun_cfg (hinv_init hp m0) hops]
  simp only [hinit, cfg_init]
  rfl

/-- the former form (both sides through the symbolic facts of the input), kept as the intermediate statement -/
theorem env_answer_denotes_symbolic {K : Type} [Scalar K] (W : World K) (inp0 : EnvInput) (hp : inp0.Pos)
    (m0 : Option (List Nat)) (ops : List HOp) (hops : HValid inp0 ops) (op : Op) (m : Option (List Nat)) :
    let h := hrun (hinit inp0 m0) ops
    op.Valid h.inp.n → W.Describes h.inp →
    denote W h.inp.id m (hstep h (.q op)).2
      = directC h.inp (W.prob h.inp.id) m (eff h.inp h.s.minx) op :=
  fun hop hd => hstep_denotes W (hrun_inv (hinv_init hp m0) hops) hd m op hop

/-- **The driver's input is an instance.**  `Driver/EnvState.lean` runs the machine on `f.toInputOf p d`
    (`f` = the `envinfo` facts read from the implementation for data set `d`, `p` = the numeric problem `d` of the
    case, `W = worldOf probs infos`) and accepts an `envinfo` line only if `f.agrees p` (ordering 1-based and
    injective on `1..n`, size and defect those of `envSolve p`).  Then all three hypotheses of the theorems above
    hold — so `env_history_free_across_inputs` and `env_answer_denotes` apply verbatim to every case of the
    `envstate` stream. -/
theorem env_driver_input_is_instance {K : Type} [Scalar K] (probs : Array (Ls.Problem K))
    (infos : Array (Option Info)) (f : Info) (d : Nat) (hf : infos.getD (d - 1) none = some f) :
    let W := worldOf probs infos
    f.agrees (W.prob d) = true →
    (f.toInputOf (W.prob d) d).Pos ∧ W.Describes (f.toInputOf (W.prob d) d)
      ∧ Facts (W.prob (f.toInputOf (W.prob d) d).id) (f.toInputOf (W.prob d) d) :=
  fun ha => ⟨Info.toInputOf_pos f (Info.agrees_wf ha) _ d, worldOf_describes probs infos f d hf (Info.agrees_wf ha) _,
    Info.toInputOf_facts f _ d ha⟩

/-- non-vacuity of `env_driver_input_is_instance` and `env_answer_denotes` on a two-problem `World Rat`: data set 1
    is singular (x₁ − x₂ observed twice: defect 1), data set 2 regular; the orderings are the reversal / identity.
    The `envinfo` facts agree with the numeric model (`decide +kernel` runs `envSolve` on the rationals), so the
    inputs satisfy `Pos`, `Describes`, `Facts`; the history below is valid, and the denoted `q_xx(1,2)` after it is
    the number `envSolve` gives for problem 2. -/
example :
    let p1 : Ls.Problem Rat := { m := 2, n := 2, rows := #[#[(1, 1), (2, -1)], #[(1, 1), (2, -1)]],
                                 cov := #[⟨2, 0, #[1, 1]⟩], rhs := #[1, 3], reg := .none }
    let p2 : Ls.Problem Rat := { m := 2, n := 2, rows := #[#[(1, 1), (2, -1)], #[(1, 1), (2, 1)]],
                                 cov := #[⟨2, 0, #[1, 1]⟩], rhs := #[1, 3], reg := .none }
    let f1 : Info := ⟨2, 1, #[2, 1], #[0, 1], #[[1, 2], [1, 2]]⟩
    let f2 : Info := ⟨2, 0, #[1, 2], #[0, 1], #[[1, 2], [1, 2]]⟩
    let probs := #[p1, p2]
    let infos := #[some f1, some f2]
    let W := worldOf probs infos
    let a := f1.toInputOf (W.prob 1) 1
    let b := f2.toInputOf (W.prob 2) 2
    let ops := [HOp.q (.qxx 1 2), .q .unknowns, .resetNew b, .q (.q0xx 2 1)]
    f1.agrees (W.prob 1) = true ∧ f2.agrees (W.prob 2) = true
    ∧ HValid a ops ∧ (Op.qxx 1 2).Valid (hrun (hinit a none) ops).inp.n
    ∧ denote W 2 none (hstep (hrun (hinit a none) ops) (.q (.qxx 1 2))).2
        = answer p2 none (.qxx 1 2) := by
  intro p1 p2 f1 f2 probs infos W a b ops
  have h1 : f1.agrees (W.prob 1) = true := by decide +kernel
  have h2 : f2.agrees (W.prob 2) = true := by decide +kernel
  have ib := env_driver_input_is_instance probs infos f2 2 rfl h2
  have ia := env_driver_input_is_instance probs infos f1 1 rfl h1
  have hv : HValid a ops := ⟨by decide, trivial, ib.1, by decide, trivial⟩
  refine ⟨h1, h2, hv, by decide, ?_⟩
  exact env_answer_denotes W a ia.1 none ops hv (.qxx 1 2) none (by decide) ib.2.1 ib.2.2

/-- non-vacuity: two singular inputs of the same size and one larger regular one; caches are filled
    under each; the final `q_xx` names only the current data set (3) -/
example :
    let a : EnvInput := { n := 4, nullity := 1, invp := fun i => i, inEnv := fun i j => (max i j) - (min i j) ≤ 1,
                          resolves := fun l => l ≠ [], qbbIn := fun i j => i == j, id := 1 }
    let b : EnvInput := { a with id := 2 }
    let c : EnvInput := { a with n := 6, nullity := 0, id := 3 }
    let ops := [HOp.q (.qxx 1 4), .q (.q0xx 1 3), .resetNew b, .q (.qxx 1 4), .q (.qbb 1 2), .resetNew c, .q (.qbb 2 1)]
    HValid a ops
    ∧ (hstep (hrun (hinit a none) ops) (.q (.qxx 1 4))).2 = .q0col (.invcol 3 4) 1
    ∧ (hstep (hrun (hinit a none) [.q (.qxx 1 4), .resetNew b]) (.q (.qxx 1 4))).2
        = .qxxSing (.trow 2 1 [1, 2, 3, 4]) (.trow 2 4 [1, 2, 3, 4]) := by
  refine ⟨⟨by decide, by decide, fun i hi _ => hi, by decide, by decide, fun i hi _ => hi, by decide, trivial⟩,
    by decide, by decide⟩

/-- **The erase step is needed (witness; round 4: the seeded variant exactly).**  `resetKeep` is seeded/C03-seed2 as
    written: key table and vectors are kept iff the `qxxbuf` vectors are ALREADY ALLOCATED with the new number of
    unknowns (`HState.bufDim = new.n`; the dimension is state: `solve_x0` allocates on a singular system, `q0_xx`
    when it first leaves the envelope).  After `q_xx(1,4)` on the singular data set 1 the vectors have dimension 4,
    so after `reset(other data of the same size)` the variant answers `q_xx(1,4)` from the vectors of the OLD data
    set (identity 1) — not what a fresh object given data set 2 computes; the code's `reset` does.  On a REGULAR
    data set whose queries stayed inside the envelope nothing was allocated (`bufDim = 0`), the variant erases
    like the code, and the histories agree (last conjunct) — the simplified round-3 variant ("same n ⇒ keep")
    did not distinguish the two. -/
example :
    let a : EnvInput := { n := 4, nullity := 1, invp := fun i => i, inEnv := fun i j => (max i j) - (min i j) ≤ 1,
                          resolves := fun l => l ≠ [], qbbIn := fun i j => i == j, id := 1 }
    let b : EnvInput := { a with id := 2 }
    let ops := [HOp.q (.qxx 1 4), .resetNew b]
    (hstepWith resetKeep (hrunWith resetKeep (hinit a none) ops) (.q (.qxx 1 4))).2
        = .qxxSing (.trow 1 1 [1, 2, 3, 4]) (.trow 1 4 [1, 2, 3, 4])
    ∧ fresh b (hrunWith resetKeep (hinit a none) ops).s.minx (.qxx 1 4)
        = .qxxSing (.trow 2 1 [1, 2, 3, 4]) (.trow 2 4 [1, 2, 3, 4])
    ∧ (hstep (hrun (hinit a none) ops) (.q (.qxx 1 4))).2
        = .qxxSing (.trow 2 1 [1, 2, 3, 4]) (.trow 2 4 [1, 2, 3, 4])
    ∧ (hrunWith resetKeep (hinit a none) [.q (.qxx 1 4)]).bufDim = 4
    ∧ (let r : EnvInput := { a with nullity := 0, id := 3 }
       (hrunWith resetKeep (hinit r none) [.q (.q0xx 1 2)]).bufDim = 0
       ∧ (hrunWith resetKeep (hinit r none) [.q (.q0xx 1 2), .resetNew b]).s.mtf.ents
           = (hrun (hinit r none) [.q (.q0xx 1 2), .resetNew b]).s.mtf.ents
       ∧ (hrunWith resetKeep (hinit r none) [.q (.q0xx 1 4)]).bufDim = 4) := by decide

/-- **Regression of finding C04-env-allist-survives-reset (fixed in repo 65eea33).**  The configuration
    "all parameters" (`min_x_list == nullptr`) is replaced inside `solve_x()` by an explicit list 1..n of the
    THEN current size; `reset` now drops such a list: after `reset(larger system)` the stored list is `none`
    again and `unknowns()` regularises over all 5 unknowns, as a new object does.  A list the caller gave
    through `min_x(n, list)` survives `reset`.  Replays on the real code (must pass):
    corpus/C04/env-allist-survives-reset-{grow,shrink}.ops. -/
theorem env_default_configuration_follows_input :
    let a : EnvInput := { n := 3, nullity := 1, invp := fun i => i, inEnv := fun _ _ => true,
                          resolves := fun l => l ≠ [], qbbIn := fun _ _ => true, id := 1 }
    let b : EnvInput := { a with n := 5, id := 2 }
    (hrun (hinit a none) [.q .unknowns]).s.minx = some [1, 2, 3]
    ∧ (hrun (hinit a none) [.q .unknowns, .resetNew b]).s.minx = none
    ∧ (hstep (hrun (hinit a none) [.q .unknowns, .resetNew b]) (.q .unknowns)).2 = .x (some [1, 2, 3, 4, 5])
    ∧ fresh b none .unknowns = .x (some [1, 2, 3, 4, 5])
    ∧ (hrun (hinit a none) [.q (.minx [1, 2]), .q .unknowns, .resetNew b]).s.minx = some [1, 2] := by decide

/-- the pre-fix behaviour as a VARIANT (a `reset` that keeps the materialised list): the object regularises
    over the first 3 unknowns of the 5-unknown system — not what a new object does -/
example :
    let a : EnvInput := { n := 3, nullity := 1, invp := fun i => i, inEnv := fun _ _ => true,
                          resolves := fun l => l ≠ [], qbbIn := fun _ _ => true, id := 1 }
    let b : EnvInput := { a with n := 5, id := 2 }
    let keepList : HState → EnvInput → EnvState × Nat := fun h _ => ({ reset h.s with minx := h.s.minx, minxDef := h.s.minxDef }, 0)
    (hstepWith keepList (hrunWith keepList (hinit a none) [.q .unknowns, .resetNew b]) (.q .unknowns)).2
      = .x (some [1, 2, 3]) := by decide

end Gama.Props.C04
