/-
  C04 — Solver answers do not depend on the order or history of queries.
  Property theorems only; helper lemmas live in Gama/Lemmas (Cache.lean, EnvState.lean, FullState.lean).

  Shape: the solver objects are modelled as state machines *with* their caches, stage
  counters and dirty flags (Model/EnvState.lean, Model/FullState.lean); every answer is a
  symbolic term naming the artefacts it was read from; the theorems say that after ANY
  finite history of API calls the answer equals the answer of a fresh object with the same
  configuration.  Numeric content of the artefacts is C01/C03's subject.
-/
import Gama.Lemmas.Cache
import Gama.Lemmas.EnvState
import Gama.Lemmas.EnvHist
import Gama.Lemmas.EnvDenote
namespace Gama.Props.C04
open Gama Gama.MTF Gama.C04

/-! ### the move-to-front cache (`MoveToFront<N,Key,Buffer>`) -/

variable {Key Buf : Type} [DecidableEq Key]

/-- a key is reported `good` exactly when it is live -/
theorem mtf_miss_iff (k : Key) (l : List (Key × Buf)) :
    extract k l = none ↔ k ∉ l.map Prod.fst := extract_none_iff k l

/-- `get` is total for `N ≥ 1`, keeps keys and buffers distinct and the capacity unchanged, puts the
    requested key in front with the returned buffer, returns the key's own buffer on a hit and a
    buffer no other live key owns on a miss -/
theorem mtf_get_sound (m : MTF Key Buf) (k : Key) (hw : WF m) (hc : 0 < m.cap) :
    ∃ m' b g, m.get k = some (m', (b, g)) ∧ WF m' ∧ m'.cap = m.cap
      ∧ (∃ rest, m'.ents = (k, b) :: rest)
      ∧ (g = true → (k, b) ∈ m.ents)
      ∧ (g = false → k ∉ m.ents.map Prod.fst)
      ∧ (∀ k' b', (k', b') ∈ m'.ents → k' ≠ k → (k', b') ∈ m.ents ∧ b' ≠ b) := by
  obtain ⟨m', b, g, hget, hs⟩ := get_spec m k hc
  refine ⟨m', b, g, hget, hs.wf hw, hs.cap, hs.head, ?_, ?_, ?_⟩
  · intro hg; subst hg; exact hs.hit_mem
  · intro hg; subst hg; exact hs.miss_fresh
  · intro k' b' hm hne
    refine ⟨hs.old k' b' hm hne, ?_⟩
    intro hb; subst hb
    obtain ⟨rest, hh⟩ := hs.head
    exact hne ((hs.wf hw).key_of_buf hm (by rw [hh]; exact List.mem_cons_self ..))

/-- with at least two buffers the entry used last survives the next `get` (the two references
    `a`, `b` taken by `AdjEnvelope::q_xx` never alias different keys) -/
theorem mtf_keeps_most_recent (m : MTF Key Buf) (k k0 : Key) (b0 : Buf) (rest : List (Key × Buf))
    (hc : 2 ≤ m.cap) (hh : m.ents = (k0, b0) :: rest) (hne : k0 ≠ k) :
    ∃ m' r, m.get k = some (m', r) ∧ (k0, b0) ∈ m'.ents := by
  obtain ⟨m', b, g, hget, hs⟩ := get_spec m k (by omega)
  exact ⟨m', (b, g), hget, hs.keeps_front hh hne hc⟩

example : (MTF.init [0, 1, 2] : MTF Int Nat).WF ∧ 2 ≤ (MTF.init [0, 1, 2] : MTF Int Nat).cap :=
  ⟨wf_init _ (by decide), by decide⟩

/-! ### `AdjEnvelope` -/

/-- **History freedom.**  After any finite sequence of API calls (queries, `min_x()`, `min_x(list)`,
    `reset(same input)`) every query is answered exactly as a brand-new object configured with the
    current regularisation list would answer it: in particular every cached buffer that is read
    holds what a fresh computation would put there. -/
theorem envelope_history_free (inp : EnvInput) (hp : inp.Pos) (m0 : Option (List Nat))
    (ops : List Op) (hops : ∀ o ∈ ops, o.Valid) (op : Op) (hop : op.Valid) :
    (step inp (run inp (init m0) ops) op).2 = fresh inp (run inp (init m0) ops).minx op :=
  step_eq_fresh (run_inv hp (inv_init inp m0) hops) hp op hop

/-- the invariant that makes it work holds in every reachable state -/
theorem envelope_invariant (inp : EnvInput) (hp : inp.Pos) (m0 : Option (List Nat))
    (ops : List Op) (hops : ∀ o ∈ ops, o.Valid) : Inv inp (run inp (init m0) ops) :=
  run_inv hp (inv_init inp m0) hops

/-- **One value per question.**  The answer is a function of the input and of the effective
    regularisation list alone (`spec`), whatever was asked before. -/
theorem envelope_answer_is_spec (inp : EnvInput) (hp : inp.Pos) (m0 : Option (List Nat))
    (ops : List Op) (hops : ∀ o ∈ ops, o.Valid) (op : Op) (hop : op.Valid) :
    (step inp (run inp (init m0) ops) op).2 = spec inp (eff inp (run inp (init m0) ops).minx) op :=
  (step_spec (run_inv hp (inv_init inp m0) hops) hp op hop).2

/-- **Idempotence.**  Asking the same question again gives the same answer. -/
theorem envelope_idempotent (inp : EnvInput) (hp : inp.Pos) (m0 : Option (List Nat))
    (ops : List Op) (hops : ∀ o ∈ ops, o.Valid) (q : Op) (hq : q.Valid) (hquery : q.IsQuery) :
    let s := run inp (init m0) ops
    (step inp (step inp s q).1 q).2 = (step inp s q).2 :=
  step_twice (run_inv hp (inv_init inp m0) hops) hp q hq hquery

/-- **Reset with the same input.**  `reset` changes no answer. -/
theorem envelope_reset_same_input (inp : EnvInput) (hp : inp.Pos) (m0 : Option (List Nat))
    (ops : List Op) (hops : ∀ o ∈ ops, o.Valid) (q : Op) (hq : q.Valid) :
    let s := run inp (init m0) ops
    (step inp (step inp s .reset).1 q).2 = (step inp s q).2 :=
  step_after_reset (run_inv hp (inv_init inp m0) hops) (run_hinv inp hp m0 ops hops).2.2 hp q hq

/-- non-vacuity: a singular input with a narrow envelope, a history that fills the three buffers,
    changes the regularisation and resets; the final `q_xx` is the fresh one -/
example :
    let inp : EnvInput := { n := 5, nullity := 1, invp := fun i => 6 - i,
                            inEnv := fun i j => (max i j) - (min i j) ≤ 1,
                            resolves := fun l => l ≠ [], qbbIn := fun i j => i == j }
    let ops := [Op.qxx 1 5, .q0xx 1 4, .qxx 2 3, .qxx 4 4, .minx [1, 2], .qxx 1 5, .unknowns,
                .reset, .q0xx 5 1, .qbb 1 2, .minxAll]
    (step inp (run inp (init none) ops) (.qxx 1 5)).2
      = .qxxSing (.trow 0 1 [1, 2, 3, 4, 5]) (.trow 0 5 [1, 2, 3, 4, 5]) := by decide

/-! ### `AdjEnvelope` across resets to OTHER inputs (round 3)

The current input is part of the state (`HState`), `resetNew inp'` is `reset(data')` with any other
input (same or different number of unknowns, regular or singular).  Everything that physically
survives `reset` is state of the model: the key table `indbuf`, the three vectors `qxxbuf`
(`content`, each tagged with the identity of the data set it was computed from), the work vector
`tmpres` (`tmpresDim`), the stored list `min_x_list`. -/

/-- **History freedom across inputs.**  After ANY history — queries, `min_x…`, `reset` with the same
    or with other inputs of any size — every query is answered as a brand-new object answers it that is
    given the CURRENT input and the configuration the CALLER left: `lastCfg m0 ops` is `none` (all
    parameters: constructor default or the last `min_x()`) or the list of the last `min_x(n, list)`; nothing
    the object materialised on the way enters.  No vector cached from an earlier input is ever read (`reset`
    erases the key table, `inv_reset`), and the list 1..n that `solve_x` builds for the default configuration
    is dropped by `reset` (repo 65eea33; `reset_md`, `eff_cfg`). -/
theorem env_history_free_across_inputs (inp0 : EnvInput) (hp : inp0.Pos) (m0 : Option (List Nat))
    (ops : List HOp) (hops : ∀ o ∈ ops, o.Valid) (op : Op) (hop : op.Valid) :
    let h := hrun (hinit inp0 m0) ops
    (hstep h (.q op)).2 = fresh h.inp (lastCfg m0 ops) op := by
  intro h
  have hi := hrun_inv (hinv_init hp m0) hops
  rw [hstep_eq_fresh_cfg hi op hop, hrun_cfg (hinv_init hp m0) hops]
  simp only [hinit, cfg_init]
  rfl

/-- … and, equivalently, as an object configured with the list it currently stores -/
theorem env_history_free_across_inputs_stored (inp0 : EnvInput) (hp : inp0.Pos) (m0 : Option (List Nat))
    (ops : List HOp) (hops : ∀ o ∈ ops, o.Valid) (op : Op) (hop : op.Valid) :
    let h := hrun (hinit inp0 m0) ops
    (hstep h (.q op)).2 = fresh h.inp h.s.minx op :=
  hstep_eq_fresh (hrun_inv (hinv_init hp m0) hops) op hop

/-- the invariant along such histories: the single-input invariant for the current input (every live
    key's vector was computed from the CURRENT data set; `tmpres` has the current dimension whenever
    `init_q_bb` is clear — its content is zeroed and refilled before every use), and a list marked
    `min_x_default` is the list of all parameters of the CURRENT system -/
theorem env_invariant_across_inputs (inp0 : EnvInput) (hp : inp0.Pos) (m0 : Option (List Nat))
    (ops : List HOp) (hops : ∀ o ∈ ops, o.Valid) :
    let h := hrun (hinit inp0 m0) ops
    h.inp.Pos ∧ Inv h.inp h.s ∧ MD h.inp h.s :=
  hrun_inv (hinv_init hp m0) hops

/-- the same-input theorem is the special case without `resetNew` -/
theorem envelope_history_free_is_corollary (inp : EnvInput) (hp : inp.Pos) (m0 : Option (List Nat))
    (ops : List Op) (hops : ∀ o ∈ ops, o.Valid) (op : Op) (hop : op.Valid) :
    (step inp (run inp (init m0) ops) op).2 = fresh inp (run inp (init m0) ops).minx op := by
  have h := env_history_free_across_inputs_stored inp hp m0 (ops.map .q)
    (by intro o ho; obtain ⟨o', ho', rfl⟩ := List.mem_map.mp ho; exact hops o' ho') op hop
  simp only [hinit, hrun_q] at h
  exact h

/-- **Numeric meaning (`answer_denotes`).**  For a numeric world `W` (problems by identity, the
    ordering's inverse permutation) that describes the current input, the value DENOTED by the symbolic
    answer after any history — evaluated by the numeric envelope model on the data set each provenance
    term names — is the value the numeric model gives a fresh object on the CURRENT problem with the
    current list.  So history freedom is a statement about numbers: a term naming another data set
    would denote that other problem's number (see the witness below). -/
theorem env_answer_denotes {K : Type} [Scalar K] (W : World K) (inp0 : EnvInput) (hp : inp0.Pos)
    (m0 : Option (List Nat)) (ops : List HOp) (hops : ∀ o ∈ ops, o.Valid) (op : Op) (hop : op.Valid)
    (m : Option (List Nat)) :
    let h := hrun (hinit inp0 m0) ops
    W.Describes h.inp →
    denote W h.inp.id m (hstep h (.q op)).2
      = directC h.inp (W.prob h.inp.id) m (eff h.inp h.s.minx) op :=
  fun hd => hstep_denotes W (hrun_inv (hinv_init hp m0) hops) hd m op hop

/-- non-vacuity: two singular inputs of the same size and one larger regular one; caches are filled
    under each; the final `q_xx` names only the current data set (3) -/
example :
    let a : EnvInput := { n := 4, nullity := 1, invp := fun i => i, inEnv := fun i j => (max i j) - (min i j) ≤ 1,
                          resolves := fun l => l ≠ [], qbbIn := fun i j => i == j, id := 1 }
    let b : EnvInput := { a with id := 2 }
    let c : EnvInput := { a with n := 6, nullity := 0, id := 3 }
    let ops := [HOp.q (.qxx 1 4), .q (.q0xx 1 3), .resetNew b, .q (.qxx 1 4), .q (.qbb 1 2), .resetNew c, .q (.qbb 2 1)]
    (∀ o ∈ ops, o.Valid)
    ∧ (hstep (hrun (hinit a none) ops) (.q (.qxx 1 4))).2 = .q0col (.invcol 3 4) 1
    ∧ (hstep (hrun (hinit a none) [.q (.qxx 1 4), .resetNew b]) (.q (.qxx 1 4))).2
        = .qxxSing (.trow 2 1 [1, 2, 3, 4]) (.trow 2 4 [1, 2, 3, 4]) := by
  refine ⟨?_, by decide, by decide⟩
  intro o ho
  simp only [List.mem_cons, List.mem_nil_iff, or_false] at ho
  rcases ho with rfl | rfl | rfl | rfl | rfl | rfl | rfl <;>
    first | exact ⟨by decide, by decide⟩ | trivial | (intro i hi; exact hi)

/-- **The erase step is needed (witness).**  The variant of `reset` that keeps key table and buffers
    when the number of unknowns is unchanged (`resetKeep`; seeded change C03-seed2) answers `q_xx(1,4)`
    after `reset(other data of the same size)` from the vectors of the OLD data set (identity 1) —
    not what a fresh object given data set 2 computes; the code's `reset` does. -/
example :
    let a : EnvInput := { n := 4, nullity := 1, invp := fun i => i, inEnv := fun i j => (max i j) - (min i j) ≤ 1,
                          resolves := fun l => l ≠ [], qbbIn := fun i j => i == j, id := 1 }
    let b : EnvInput := { a with id := 2 }
    let ops := [HOp.q (.qxx 1 4), .resetNew b]
    (hstepWith resetKeep (hrunWith resetKeep (hinit a none) ops) (.q (.qxx 1 4))).2
        = .qxxSing (.trow 1 1 [1, 2, 3, 4]) (.trow 1 4 [1, 2, 3, 4])
    ∧ fresh b (hrunWith resetKeep (hinit a none) ops).s.minx (.qxx 1 4)
        = .qxxSing (.trow 2 1 [1, 2, 3, 4]) (.trow 2 4 [1, 2, 3, 4])
    ∧ (hstep (hrun (hinit a none) ops) (.q (.qxx 1 4))).2
        = .qxxSing (.trow 2 1 [1, 2, 3, 4]) (.trow 2 4 [1, 2, 3, 4]) := by decide

/-- **Regression of finding C04-env-allist-survives-reset (fixed in repo 65eea33).**  The configuration
    "all parameters" (`min_x_list == nullptr`) is replaced inside `solve_x()` by an explicit list 1..n of the
    THEN current size; `reset` now drops such a list: after `reset(larger system)` the stored list is `none`
    again and `unknowns()` regularises over all 5 unknowns, as a new object does.  A list the caller gave
    through `min_x(n, list)` survives `reset`.  Replays on the real code (must pass):
    corpus/C04/env-allist-survives-reset-{grow,shrink}.ops. -/
theorem env_default_configuration_follows_input :
    let a : EnvInput := { n := 3, nullity := 1, invp := fun i => i, inEnv := fun _ _ => true,
                          resolves := fun l => l ≠ [], qbbIn := fun _ _ => true, id := 1 }
    let b : EnvInput := { a with n := 5, id := 2 }
    (hrun (hinit a none) [.q .unknowns]).s.minx = some [1, 2, 3]
    ∧ (hrun (hinit a none) [.q .unknowns, .resetNew b]).s.minx = none
    ∧ (hstep (hrun (hinit a none) [.q .unknowns, .resetNew b]) (.q .unknowns)).2 = .x (some [1, 2, 3, 4, 5])
    ∧ fresh b none .unknowns = .x (some [1, 2, 3, 4, 5])
    ∧ (hrun (hinit a none) [.q (.minx [1, 2]), .q .unknowns, .resetNew b]).s.minx = some [1, 2] := by decide

/-- the pre-fix behaviour as a VARIANT (a `reset` that keeps the materialised list): the object regularises
    over the first 3 unknowns of the 5-unknown system — not what a new object does -/
example :
    let a : EnvInput := { n := 3, nullity := 1, invp := fun i => i, inEnv := fun _ _ => true,
                          resolves := fun l => l ≠ [], qbbIn := fun _ _ => true, id := 1 }
    let b : EnvInput := { a with n := 5, id := 2 }
    let keepList : EnvInput → EnvInput → EnvState → EnvState := fun _ _ s => { reset s with minx := s.minx, minxDef := s.minxDef }
    (hstepWith keepList (hrunWith keepList (hinit a none) [.q .unknowns, .resetNew b]) (.q .unknowns)).2
      = .x (some [1, 2, 3]) := by decide

end Gama.Props.C04
