/-
  C15 — object histories of `SymMat` and `Vec`, and histories that continue after a CAUGHT exception
  (`Mat`, `SymMat`, `Vec`).  Property theorems only; models in Model/{SymObj,VecObj,ObjCatch}.lean,
  lemmas in Lemmas/{SymObj,SymObjInv,VecObj,ObjCatch,ObjExamples}.lean.
-/
import Gama.Lemmas.SymObj
import Gama.Lemmas.SymObjInv
import Gama.Lemmas.VecObj
import Gama.Lemmas.ObjCatch
import Gama.Lemmas.ObjExamples
import Gama.Gen.SymVecMembers
import Gama.Gen.MatMembers
namespace Gama.Props.C15
open Gama Gama.MatVec Gama.ObjEx Finset

/-! ## (A) Object histories of `SymMat` and `Vec` -/

/-- the models carry exactly the persistent data members of
    `MemRep ⊂ MatVecBase ⊂ MatBase, CholDec ⊂ SymMat` (`row_`, `col_`, `tol_`, `dim_`, `idf_`) and of
    `MemRep ⊂ MatVecBase ⊂ VecBase ⊂ Vec` (none beyond the buffer); every class above `MemRep` copies
    memberwise (implicit copy operations); an rvalue `SymMat` does NOT reach `MemRep`'s move operations
    (`virtual ~MatBase()`), an rvalue `Vec` does.  A NEW data member, a user-declared copy, or a change
    of which moves exist breaks this statement. -/
theorem C15_symvec_members_modelled :
    Gen.SymVecMembers.symMembers.map (fun m => (m.1, m.2.1)) = SymObj.modelMembers ∧
    Gen.SymVecMembers.vecMembers.map (fun m => (m.1, m.2.1)) = VecObj.modelMembers ∧
    Gen.SymVecMembers.symImplicitCopy = SymObj.modelImplicitCopy ∧
    Gen.SymVecMembers.vecImplicitCopy = VecObj.modelImplicitCopyMove ∧
    Gen.SymVecMembers.symMoves = false ∧ Gen.SymVecMembers.vecMoves = true := by decide

/-- **Value semantics for every `SymMat` history.**  Any history of construct (`SymMat(d)`,
    `SymMat(r,c)`) / copy-construct / assign between objects of any sizes (the move forms are these
    too) / `reset(d)` / `reset(r,c)` / element write / `set_all` / `*=` / `+=` / `-=` / `cholTol(t)` /
    in-place `cholDec()` / in-place `invert()` / destroy, run from the empty heap, either completes — and
    then EVERY object holds exactly the members (`row_`, `col_`, `tol_`, `dim_`, `idf_`) and packed
    elements that the same history yields on independent values, where `cholDec`/`invert` are the pure
    functions of the object's own elements (and `tol_`); the ownership invariant and
    `size() = dim_(dim_+1)/2`, `row_ = col_ = dim_` hold — or stops at the same operation for the same
    reason, never because a block that is not allocated, or cells beyond a block, were touched. -/
theorem C15_sym_history_value_semantics {K : Type} [Scalar K] [Inhabited K] (ops : List (SymObj.Op K)) :
    match SymObj.run (SymObj.St.init : SymObj.St K) ops with
    | .ok s => SymObj.SInv s ∧ SymObj.specRun (fun _ => none) ops = .ok (SymObj.val s)
    | .error e => SymObj.specRun (fun _ => none) ops = .error e ∧ e ≠ .heapFault := by
  have h := SymObj.run_refines ops (SymObj.St.init : SymObj.St K) SymObj.sinv_init
  rw [SymObj.val_init] at h
  exact h

/-- non-vacuity: `A = [[4,2],[2,2]]; B(A); B.invert(); A(1,1) = 5` completes; `A = [5,2,2]`,
    `B = [1/2,-1/2,1]` in the heap model and on independent values. -/
example : (List.range 3).map (symData (stOf SymObj.St.init (SymObj.run SymObj.St.init symHist2))) =
      [some (2, 0, [5, 2, 2]), some (2, 0, [1 / 2, -1 / 2, 1]), none] ∧
    (List.range 3).map (symSpecData (stOf (fun _ => none) (SymObj.specRun (fun _ => none) symHist2))) =
      [some (2, 0, [5, 2, 2]), some (2, 0, [1 / 2, -1 / 2, 1]), none] := by
  decide +kernel

/-- **Copies of a `SymMat` are independent of their source**, one operation from any reachable state:
    the operation acts on the values like the value-level semantics, and NO object other than its target
    changes any member or element — in particular `B.cholDec()` / `B.invert()` on a copy leaves the
    source as it was. -/
theorem C15_sym_history_independent {K : Type} [Scalar K] [Inhabited K] {s s' : SymObj.St K}
    (h : SymObj.SInv s) {op : SymObj.Op K} (hs : SymObj.step s op = .ok s') :
    SymObj.SInv s' ∧ SymObj.spec (SymObj.val s) op = .ok (SymObj.val s') ∧
    ∀ k, k ≠ op.target → SymObj.val s' k = SymObj.val s k :=
  ⟨(SymObj.step_ok h hs).1, (SymObj.step_ok h hs).2, SymObj.step_frame h hs⟩

/-- **… and `invert()` leaves the two-sided inverse**: in any reachable state, over any ordered field,
    if the object in slot `i` holds a positive definite value and `invert()` completes, the object keeps
    all its members and afterwards holds packed elements `X` with `X·A = 1` and `A·X = 1` (as full
    symmetric matrices); every other object is unchanged. -/
theorem C15_sym_history_invert_inverse {K : Type} [Field K] [LinearOrder K] [IsStrictOrderedRing K]
    [Inhabited K] (sq : K → K) {s s' : SymObj.St K} (i : Nat)
    (h : (letI := fieldScalar K sq; SymObj.SInv s))
    (hpd : ∀ v, (letI := fieldScalar K sq; SymObj.val s i) = some v →
      PosDef v.ext.dim (fun k => v.data.getD k 0))
    (hs : (letI := fieldScalar K sq; SymObj.step s (.invert i)) = .ok s') :
    ∃ e A X, (letI := fieldScalar K sq; SymObj.val s i) = some ⟨e, A⟩ ∧
      (letI := fieldScalar K sq; SymObj.val s' i) = some ⟨e, X⟩ ∧ X.length = A.length ∧
      (∀ a j, 1 ≤ a → a ≤ e.dim → 1 ≤ j → j ≤ e.dim →
        ∑ c ∈ range e.dim, SymObj.full X a (c + 1) * SymObj.full A (c + 1) j = if a = j then 1 else 0) ∧
      (∀ a j, 1 ≤ a → a ≤ e.dim → 1 ≤ j → j ≤ e.dim →
        ∑ c ∈ range e.dim, SymObj.full A a (c + 1) * SymObj.full X (c + 1) j = if a = j then 1 else 0) ∧
      ∀ k, k ≠ i → (letI := fieldScalar K sq; SymObj.val s' k) = (letI := fieldScalar K sq; SymObj.val s k) := by
  let _ := fieldScalar K sq
  obtain ⟨_, hsp⟩ := SymObj.step_ok h hs
  have hfr := SymObj.step_frame h hs
  simp only [SymObj.spec] at hsp
  cases hv : SymObj.val s i with
  | none => simp [hv] at hsp
  | some t =>
    simp only [hv] at hsp
    have hlen : t.data.length = SymObj.triSz t.ext.dim := by
      unfold SymObj.val at hv
      cases hm : MemRep.val s.mem i with
      | none => simp [hm] at hv
      | some l =>
        simp only [hm, Option.map_some, Option.some.injEq] at hv
        subst hv
        exact (h.size i l hm).1
    cases hinv : SymObj.symInvList t.ext.dim t.data with
    | error e => simp [hinv] at hsp
    | ok X =>
      simp only [hinv, Except.ok.injEq] at hsp
      obtain ⟨h1, h2, h3⟩ := SymObj.symInvList_inverse sq t.ext.dim t.data X hlen (hpd t hv) hinv
      refine ⟨t.ext, t.data, X, rfl, ?_, h1, h2, h3, hfr⟩
      rw [← hsp]; simp

/-- non-vacuity: the state after `A = [[4,2],[2,2]]` is reachable (invariant holds), `A` is positive
    definite there and `A.invert()` completes. -/
example : isOk (SymObj.run SymObj.St.init symHist) = true ∧
    symData (stOf SymObj.St.init (SymObj.run SymObj.St.init symHist)) 0 = some (2, 0, [4, 2, 2]) ∧
    PosDef 2 (fun k => ([4, 2, 2] : List ℚ).getD k 0) ∧
    isOk (SymObj.step (stOf SymObj.St.init (SymObj.run SymObj.St.init symHist)) (.invert 0)) = true :=
  ⟨by decide +kernel, by decide +kernel, symHist_cells_posDef, by decide +kernel⟩

/-- **Value semantics for every `Vec` history.**  Any history of construct / copy-construct /
    MOVE-construct / assign / MOVE-assign between objects of any sizes / `reset(n)` / element write /
    `set_all` / `*=` / `+=` / `-=` / `c = a + b` / `c = a - b` / destroy either completes — and then every
    object holds exactly the elements that the same history yields on independent values (a move
    transfers the value and leaves the source empty), the ownership invariant holds — or stops at the
    same operation for the same reason, never on a heap fault. -/
theorem C15_vec_history_value_semantics {K : Type} [Scalar K] [Inhabited K] (ops : List (VecObj.Op K)) :
    match VecObj.run (MemRep.St.init : MemRep.St K) ops with
    | .ok s => MemRep.Inv s ∧ VecObj.specRun (fun _ => none) ops = .ok (MemRep.val s)
    | .error e => VecObj.specRun (fun _ => none) ops = .error e ∧ e ≠ .heapFault := by
  have h := VecObj.run_refines ops (MemRep.St.init : MemRep.St K) MemRep.inv_init
  have hv : MemRep.val (MemRep.St.init : MemRep.St K) = fun _ => none := by
    funext k; simp [MemRep.val, MemRep.St.init]
  rw [hv] at h
  exact h

/-- non-vacuity: `a = (1,2); b(a); b *= 3; b += a; a = std::move(b)` completes: `a = (4,8)`, `b` empty. -/
example : (List.range 3).map (MemRep.val (stOf MemRep.St.init (VecObj.run MemRep.St.init vecHist))) =
    [some [4, 8], some [], none] := by decide +kernel

/-- **Copies of a `Vec` are independent of their source**: one operation changes the value of its
    target only — and empties the source of a move; no other object changes. -/
theorem C15_vec_history_independent {K : Type} [Scalar K] [Inhabited K] {s s' : MemRep.St K}
    (h : MemRep.Inv s) {op : VecObj.Op K} (hs : VecObj.step s op = .ok s') :
    MemRep.Inv s' ∧ VecObj.spec (MemRep.val s) op = .ok (MemRep.val s') ∧
    ∀ k, k ≠ op.target → op.source ≠ some k → MemRep.val s' k = MemRep.val s k :=
  ⟨(VecObj.step_ok h hs).1, (VecObj.step_ok h hs).2, VecObj.step_frame h hs⟩

/-! ## (B) The state after a caught exception -/

/-- **A dimension-guard throw changes nothing.**
    `Mat`: whenever an operation throws `BadRank` (`invert` of a non-square matrix) the state left
    behind is the state before the call.
    `SymMat`: for every operation other than the in-place `cholDec()`/`invert()` — `reset(r,c)` with
    `r != c` or negative, `+=`/`-=` with another dimension, `SymMat(r,c)` with `r != c` whose `MatBase`
    sub-object has been CONSTRUCTED before the throw and is destroyed by it — the state left behind
    keeps the invariant, the members and elements of every object, the object table; every heap block
    keeps its cells and the only address touched is a fresh one that is dead again.
    `Vec`: the same for every operation (`Vec(n)` with `n < 0`, `+=`/`-=`, and `a + b` whose temporary
    `Vec t(dim())` is destroyed by unwinding). -/
theorem C15_caught_badrank_unchanged {K : Type} [Scalar K] [Inhabited K] :
    (∀ (s : MatObj.St K) (op : MatObj.Op K), MatObj.MInv s →
      MatObj.step Gen.MatMembers.pentryInit s op = .error .badRank → MatObj.thrown s op = s) ∧
    (∀ (s : SymObj.St K) (op : SymObj.Op K), SymObj.SInv s → op.isGuarded = true →
      SymObj.SInv (SymObj.thrown s op) ∧ SymObj.val (SymObj.thrown s op) = SymObj.val s ∧
      (SymObj.thrown s op).ext = s.ext ∧ (SymObj.thrown s op).mem.objs = s.mem.objs ∧
      ∀ a, (SymObj.thrown s op).mem.heap a = s.mem.heap a ∨
           (a = s.mem.next ∧ (SymObj.thrown s op).mem.heap a = none)) ∧
    (∀ (s : MemRep.St K) (op : VecObj.Op K), MemRep.Inv s →
      MemRep.Inv (VecObj.thrown s op) ∧ MemRep.val (VecObj.thrown s op) = MemRep.val s ∧
      (VecObj.thrown s op).objs = s.objs ∧
      ∀ a, (VecObj.thrown s op).heap a = s.heap a ∨ (a = s.next ∧ (VecObj.thrown s op).heap a = none)) := by
  refine ⟨?_, fun s op h hg => SymObj.thrown_guard_unchanged s h op hg,
    fun s op h => VecObj.thrown_unchanged s h op⟩
  intro s op h hs
  have hsp := MatObj.step_error h hs
  cases op with
  | invert i tol =>
    simp only [MatObj.thrown]
    cases hi : s.mem.objs i with
    | none => rfl
    | some t =>
      simp only []
      by_cases hsq : (s.ext i).row = (s.ext i).col
      · exfalso
        obtain ⟨l0, hv0⟩ := MemRep.val_some_of_obj hi
        have hval : MatObj.val s i = some ⟨(s.ext i).row, (s.ext i).col, l0⟩ := by simp [MatObj.val, hv0]
        simp only [MatObj.spec, hval, hsq, ne_eq, not_true_eq_false, if_false] at hsp
        cases hinv : MatObj.invertList (s.ext i).col tol l0 with
        | ok l' => simp [hinv] at hsp
        | error x =>
          simp only [hinv, Except.error.injEq] at hsp
          subst hsp
          unfold MatObj.invertList at hinv
          split at hinv <;> simp at hinv
      · simp [hsq]
  | _ => rfl

/-- non-vacuity (all three): histories over ℚ in which `A += B` (dimensions 2, 3), `SymMat C(2,3)`,
    `invert` of a 2×3 `Mat`, `a += b`, `c = a + b` (dimensions 2, 3), `Vec d(-1)` throw `BadRank`, are
    caught, and the history goes on (exceptions caught per operation; final values). -/
example :
    catchOut (SymObj.runC SymObj.St.init symCatchHist) =
      some [none, none, none, none, some .badRank, some .badRank, none, none, some .badRank, none] ∧
    (List.range 3).map (symData (catchSt SymObj.St.init (SymObj.runC SymObj.St.init symCatchHist))) =
      [some (2, 0, [-3, 0, 3]), some (3, 0, [2, 2, 2, 2, 2, 2]), none] ∧
    catchOut (VecObj.runC MemRep.St.init vecCatchHist) =
      some [none, none, none, none, none, some .badRank, some .badRank, some .badRank, none, none] ∧
    (List.range 6).map (MemRep.val (catchSt MemRep.St.init (VecObj.runC MemRep.St.init vecCatchHist))) =
      [some [], some [5, 5, 5], none, none, some [1, 2], some [2, 4]] := by
  decide +kernel

/-- **Histories with caught exceptions refine the value-level semantics with the same catch rule**
    (`Mat`, `SymMat`, `Vec`).  A history in which every thrown `BadRank` / `Singular` is caught and the
    next operation runs on whatever the throwing call left behind, run from the empty heap, either
    completes — then the invariant holds, every object holds exactly the value that the same history
    yields on independent values with the same rule (a throwing call leaves `specThrown`), and the same
    exceptions were caught at the same operations — or stops at the same operation because the CALLER
    broke a precondition (never an exception, never a heap fault).  What a throwing call leaves:
    guards — nothing; `Singular` out of `Mat::invert` — the half-eliminated storage after the completed
    elimination steps, permutation not undone (`invertThrownList`); `BadRank` out of `SymMat::cholDec` —
    the factor and `idf_` computed up to the failing diagonal cell (`cholThrownList`); `BadRank` out of
    `SymMat::invert` — the result of the completed exchange steps (`symInvThrownList`). -/
theorem C15_caught_history_value_semantics {K : Type} [Scalar K] [Inhabited K] :
    (∀ ops : List (MatObj.Op K),
      (∀ s' tr, MatObj.runC Gen.MatMembers.pentryInit (MatObj.St.init : MatObj.St K) ops = .ok (s', tr) →
        MatObj.MInv s' ∧ MatObj.specRunC (fun _ => none) ops = .ok (MatObj.val s', tr)) ∧
      (∀ e, MatObj.runC Gen.MatMembers.pentryInit (MatObj.St.init : MatObj.St K) ops = .error e →
        MatObj.specRunC (fun _ => none) ops = .error e ∧ e = .precondition)) ∧
    (∀ ops : List (SymObj.Op K),
      (∀ s' tr, SymObj.runC (SymObj.St.init : SymObj.St K) ops = .ok (s', tr) →
        SymObj.SInv s' ∧ SymObj.specRunC (fun _ => none) ops = .ok (SymObj.val s', tr)) ∧
      (∀ e, SymObj.runC (SymObj.St.init : SymObj.St K) ops = .error e →
        SymObj.specRunC (fun _ => none) ops = .error e ∧ e = .precondition)) ∧
    (∀ ops : List (VecObj.Op K),
      (∀ s' tr, VecObj.runC (MemRep.St.init : MemRep.St K) ops = .ok (s', tr) →
        MemRep.Inv s' ∧ VecObj.specRunC (fun _ => none) ops = .ok (MemRep.val s', tr)) ∧
      (∀ e, VecObj.runC (MemRep.St.init : MemRep.St K) ops = .error e →
        VecObj.specRunC (fun _ => none) ops = .error e ∧ e = .precondition)) := by
  have hvv : MemRep.val (MemRep.St.init : MemRep.St K) = fun _ => none := by
    funext k; simp [MemRep.val, MemRep.St.init]
  refine ⟨fun ops => ?_, fun ops => ?_, fun ops => ?_⟩
  · have h := MatObj.runC_refines ops (MatObj.St.init : MatObj.St K) MatObj.minv_init
    rw [MatObj.val_init] at h
    refine ⟨h.1, fun e he => ?_⟩
    obtain ⟨h1, h2⟩ := h.2 e he
    refine ⟨h1, ?_⟩
    cases e with
    | precondition => rfl
    | badRank => cases h2
    | singular => cases h2
    | heapFault => exact absurd h1 (ObjCatch.runC_ne_heapFault _ _ MatObj.spec_ne_heapFault _ _)
  · have h := SymObj.runC_refines ops (SymObj.St.init : SymObj.St K) SymObj.sinv_init
    rw [SymObj.val_init] at h
    refine ⟨h.1, fun e he => ?_⟩
    obtain ⟨h1, h2⟩ := h.2 e he
    refine ⟨h1, ?_⟩
    cases e with
    | precondition => rfl
    | badRank => cases h2
    | singular => cases h2
    | heapFault => exact absurd h1 (ObjCatch.runC_ne_heapFault _ _ SymObj.spec_ne_heapFault _ _)
  · have h := VecObj.runC_refines ops (MemRep.St.init : MemRep.St K) MemRep.inv_init
    rw [hvv] at h
    refine ⟨h.1, fun e he => ?_⟩
    obtain ⟨h1, h2⟩ := h.2 e he
    refine ⟨h1, ?_⟩
    cases e with
    | precondition => rfl
    | badRank => cases h2
    | singular => cases h2
    | heapFault => exact absurd h1 (ObjCatch.runC_ne_heapFault _ _ VecObj.spec_ne_heapFault _ _)

/-- **The state left by a caught `Singular` of `Mat::invert`**: in any reachable state, if
    `invert(tol)` on the square `N×N` object in slot `i` holding elements `A` throws `Singular`, the
    object afterwards holds the same dimensions and the HALF-ELIMINATED elements
    `invertThrownList N tol A` (the storage after the completed Gauss–Jordan steps, row/column
    permutation not undone); the invariant holds and every other object is unchanged. -/
theorem C15_caught_singular_half_eliminated {K : Type} [Scalar K] [Inhabited K] {s : MatObj.St K}
    (h : MatObj.MInv s) (i : Nat) (tol : K)
    (hs : MatObj.step Gen.MatMembers.pentryInit s (.invert i tol) = .error .singular) :
    MatObj.MInv (MatObj.thrown s (.invert i tol)) ∧
    (∃ N A, MatObj.val s i = some ⟨N, N, A⟩ ∧
      MatObj.val (MatObj.thrown s (.invert i tol)) i = some ⟨N, N, MatObj.invertThrownList N tol A⟩) ∧
    ∀ k, k ≠ i → MatObj.val (MatObj.thrown s (.invert i tol)) k = MatObj.val s k := by
  obtain ⟨h1, h2⟩ := MatObj.thrown_refines s h (.invert i tol)
  have hsp := MatObj.step_error h hs
  refine ⟨h1, ?_, ?_⟩
  · rw [h2]
    simp only [MatObj.spec] at hsp
    simp only [MatObj.specThrown]
    cases hv : MatObj.val s i with
    | none => simp [hv] at hsp
    | some t =>
      simp only [hv] at hsp ⊢
      by_cases hsq : t.rows = t.cols
      · rcases t with ⟨r, c, d⟩
        simp only at hsq; subst hsq
        exact ⟨r, d, rfl, by simp⟩
      · simp [hsq] at hsp
  · intro k hk
    rw [h2]
    simp only [MatObj.specThrown]
    cases hv : MatObj.val s i with
    | none => rfl
    | some t =>
      simp only []
      split
      · rfl
      · exact MemRep.upd_other _ _ hk

/-- non-vacuity: `A = [[1,2],[2,4]]; B = A; A.invert(0)` throws `Singular` after ONE elimination step
    and leaves `A = [[0,-1/2],[1/2,1/4]]` (then `A(1,1) = 7` is written into that state); `B` is intact;
    `invert` of the 2×3 object throws `BadRank` and leaves it as it was — in the heap model and on
    independent values alike. -/
example :
    catchOut (MatObj.runC .always MatObj.St.init matCatchHist) =
      some [none, none, none, none, none, none, some .singular, none, some .badRank, none] ∧
    (List.range 3).map (matData (catchSt MatObj.St.init (MatObj.runC .always MatObj.St.init matCatchHist))) =
      [some (2, 2, [7, -1 / 2, 1 / 2, 1 / 4]), some (2, 2, [1, 2, 2, 4]), some (2, 3, [0, 0, 0, 0, 0, 0])] ∧
    (List.range 3).map (matSpecData (catchSt (fun _ => none) (MatObj.specRunC (fun _ => none) matCatchHist))) =
      [some (2, 2, [7, -1 / 2, 1 / 2, 1 / 4]), some (2, 2, [1, 2, 2, 4]), some (2, 3, [0, 0, 0, 0, 0, 0])] := by
  decide +kernel

/-- non-vacuity: `A = [[4,2],[2,-3]]; B(A); A.invert()` throws `BadRank` at the SECOND pivot and leaves
    `A` half-inverted (`[-4,-1/2,1/4]`); the copy `B` is intact. -/
example :
    catchOut (SymObj.runC SymObj.St.init symCatchHist2) = some [none, none, none, none, none, some .badRank] ∧
    (List.range 2).map (symData (catchSt SymObj.St.init (SymObj.runC SymObj.St.init symCatchHist2))) =
      [some (2, 0, [-4, -1 / 2, 1 / 4]), some (2, 0, [4, 2, -3])] ∧
    (List.range 2).map (symSpecData (catchSt (fun _ => none) (SymObj.specRunC (fun _ => none) symCatchHist2))) =
      [some (2, 0, [-4, -1 / 2, 1 / 4]), some (2, 0, [4, 2, -3])] := by
  decide +kernel

end Gama.Props.C15
