/-
  C11 — the documented tables of the gama-local input against the schema itself (round 11; audit #4 gap 7, "hand
  transcriptions nothing reads").

  xml/gama-local.xsd is translated on every run (tools/gen/c11_xsd.py → Gen/GkfXsd.lean: per element the attribute
  declarations with type / required / default and the content model as particles with occurrence bounds).  The hand tables
  the theorems of C11Valid / C11Refuse rest on — attribute names `docAttrs`/`docNames`, required attributes of `docRules`,
  the value kinds and enumerations of `docCheck`, children `kidTags` and the occurrence conditions of `Cluster.valid`, the
  constructors of the tree `Doc'` — are compared with it by `decide`, in both directions; where they deliberately differ
  the difference is DATA in the statement: `nameDiff` (`xmlns`), `requiredDiff` (`from` of `<dh>`, `<vec>`),
  `C11_rules_beyond_xsd` (rules no schema can state), `C11_ranges_beyond_xsd` (ranges from the manual).  Together with
  `C11_document_rules_are_the_checks` (hand rules = regenerated checks of the parser) and `C11_loose_attributes` this relates
  the parser to the schema: equal except exactly these.
-/
import Gama.Props.C11Refuse
import Gama.Lemmas.GkfXsd
namespace Gama.Props.C11
open Gama Gama.Gkf Gama.Gkf.Xsd

/-- the documented rule tables ARE the schema, element by element: the schema declares exactly the documented elements;
    attribute names equal except `xmlns` on the root (`nameDiff`); the attributes required by `docRules` are those with
    `use="required"` plus `from` of `<dh>` and `<vec>` (`requiredDiff`), none missing; every declared attribute has a documented
    check of the kind of its schema type, enumerations with the same values in the same order -/
theorem C11_document_rules_match_xsd :
    elementsMatch = true ∧ ∀ t ∈ docTags, namesMatch t = true ∧ requiredMatch t = true ∧ typesMatch t = true := by
  decide

/-- nesting: the tree type `Doc'` and the grammar `Doc.valid` are the content models of the schema — one `<network>` in
    the root, any number of description / parameters / points-observations in it, any number of `<point>` and the four
    clusters in `<points-observations>`, in a cluster any number (`dh+`, `point+`, `vec+`: at least one) of `kidTags` then
    at most one `<cov-mat>` (required in `<coordinates>` / `<vectors>`), character data only in `<description>` and
    `<cov-mat>`; the constructors of `NetItem'` / the cluster kinds are exactly those alternatives -/
theorem C11_xsd_nesting_is_grammar :
    spineMatch = true ∧ (∀ k : ClusterKind, clusterMatch k = true) ∧ (∀ i : NetItem', i.tag ∈ netKids) ∧
      (∀ k : ClusterKind, k.tag ∈ poKids) :=
  ⟨by decide, by intro k; cases k <;> decide, netitem_tag_mem, cluster_tag_mem⟩

/-- what the documented rules say BEYOND the schema (and the parser enforces: `C11_document_rules_are_the_checks`), as data -/
theorem C11_rules_beyond_xsd : ∀ t ∈ docTags, rulesBeyondXsd t =
    (match t with
     | .point_ => [.pair "x" "y", .pair "y" "x"]
     | .direction => [.inherited]
     | .distance => [.reqFrom, .positive "val" .dbl]
     | .s_distance => [.reqFrom, .positive "val" .dbl]
     | .z_angle => [.reqFrom, .positive "val" .angle]
     | .azimuth => [.reqFrom]
     | .angle => [.reqFrom, .distinctFrom "fs"]
     | .cov_mat => [.less "band" "dim"]
     | _ => []) := by decide

/-- the value ranges of the documented table that the schema does not state (manual: sigma-apr, tol-abs > 0,
    conf-pr in (0,1), dist ≥ 0, dim ≥ 1) — nothing else; `cov-band ≥ -1` of the schema is not in the documented table
    (the code clamps) -/
theorem C11_ranges_beyond_xsd : rangesBeyondXsd =
    [(.parameters, "sigma-apr", .pos), (.parameters, "conf-pr", .open01), (.parameters, "tol-abs", .pos),
     (.cov_mat, "dim", .ge1), (.dh, "dist", .nonneg)] := by decide

/-! ### non-vacuity -/

example : docTags.length = 19 ∧ elements.length = 19 ∧ xsdRequired .vec = ["to", "dx", "dy", "dz"] ∧
    handRequired .vec = ["from", "to", "dx", "dy", "dz"] ∧ xsdAttrNames .gama_xml = [] ∧ docAttrs .gama_xml = ["xmlns"] ∧
    (xsdElem .height_differences).map (fun e => e.content) = some [⟨["dh"], 1, none⟩, ⟨["cov-mat"], 0, some 1⟩] := by decide

end Gama.Props.C11
