/-
  C11 — the REFUSAL half at document level, so that for the gama-local input tree `Doc'` "valid ⇔ accepted" is one
  theorem, with the refusal LOCATED at the first violating element (round 9).

  `Doc'.firstBad` (Model/GkfDocRefuse.lean) is the first violating element of a document, by recursion on the tree from
  the documented tables only: index (in `Doc'.events`; it stands for the line) of the first start tag with an attribute
  value outside its documented language / range or breaking a documented rule of its element (kind `handler`), or of
  the CLOSING tag of a cluster whose covariance matrix is missing / has `dim` ≠ number of observations / a text that is not
  the band in finite floats / is not positive definite (kind `finish`).

  The liberal spots of the parser are excluded by ONE decidable hypothesis `Doc'.inVocab` (documented vocabulary): leaf
  children are of the element kinds the grammar allows at that place, every attribute NAME is documented for its element
  (L6 of Model/GkfLiberal.lean), the attributes on which the code applies a check different from the documented one
  (`looseAttrs`, computed by comparing `docCheck` with the REGENERATED `valueCheck`: `C11_loose_attributes`) carry a
  documented value, and there is no empty `<height-differences/>` (L7).  The other liberal spots (L1–L5, L8) are not
  expressible in `Doc'`; blank character data between elements (L1), which the tree abstracts away, is shown not to
  change the verdict (`C11_blank_text_same_verdict`).  Proofs: Lemmas/GkfDocRefuse.lean (the calculus `Res`),
  Lemmas/GkfDocFirstBad.lean, Lemmas/GkfBlankText.lean.
-/
import Gama.Props.C11Valid
import Gama.Lemmas.GkfDocFirstBad
import Gama.Lemmas.GkfBlankText
namespace Gama.Props.C11
open Gama Gama.Gkf Gama.Lit Gama.Gkf.ValuesEx Gama.Gkf.TreeEx

/-- the first error the parser records on a document in the documented vocabulary IS the document's first violating
    element (`none` on both sides when there is none) -/
theorem C11_first_error_is_first_violation (d : Doc') (hvoc : d.inVocab = true) :
    (crun CSt.init d.events).st.err = d.firstBad := by
  have h := doc_verdict d hvoc
  cases hb : d.firstBad with
  | none => rw [hb] at h; exact h.2.1
  | some loc => rw [hb] at h; exact h.1

/-- no violating element ⇔ the document is valid with documented values (tree logic only) -/
theorem C11_no_violation_iff_valid (d : Doc') (hvoc : d.inVocab = true) :
    d.firstBad = none ↔ (d.valid = true ∧ d.valuesOk = true) := firstBad_none_iff d hvoc

/-- THE REFUSAL HALF: a document (documented vocabulary) that is not valid, or one of whose values is not in its
    documented language / range, is refused, and the error is located at its FIRST VIOLATING ELEMENT: the line (event
    index, inside the document) and kind the parser reports are `Doc'.firstBad` -/
theorem C11_invalid_document_refused_located (d : Doc') (hvoc : d.inVocab = true)
    (hbad : d.valid = false ∨ d.valuesOk = false) :
    ∃ loc, d.firstBad = some loc ∧ (crun CSt.init d.events).st.err = some loc ∧
      outcome (crun CSt.init d.events).st = .refused (some loc) ∧ loc.1 < d.events.length := by
  have h := doc_verdict d hvoc
  cases hb : d.firstBad with
  | none =>
    have := (firstBad_none_iff d hvoc).mp hb
    rcases hbad with h1 | h1 <;> simp [this.1, this.2] at h1
  | some loc =>
    rw [hb] at h
    refine ⟨loc, rfl, h.1, h.2, ?_⟩
    have herr := h.1
    rw [crun_st] at herr
    have := run_err_located (absEvents CSt.init d.events) St.init loc.1 loc.2 rfl herr
    have hl := this.2.1
    rw [absEvents_length] at hl
    simpa [St.init] using hl

/-- valid ⇔ accepted, ONE iff for the GKF document tree (documented vocabulary) -/
theorem C11_document_accepted_iff (d : Doc') (hvoc : d.inVocab = true) :
    outcome (crun CSt.init d.events).st = .accepted ↔ (d.valid = true ∧ d.valuesOk = true) := by
  constructor
  · intro hacc
    cases hv : d.valid with
    | false =>
      obtain ⟨loc, _, _, href, _⟩ := C11_invalid_document_refused_located d hvoc (Or.inl hv)
      rw [href] at hacc; cases hacc
    | true =>
      cases hx : d.valuesOk with
      | false =>
        obtain ⟨loc, _, _, href, _⟩ := C11_invalid_document_refused_located d hvoc (Or.inr hx)
        rw [href] at hacc; cases hacc
      | true => exact ⟨rfl, rfl⟩
  · intro h
    exact (C11_valid_document_accepted d h.1 h.2).2.2

/-- "valid except `dim`": a document that is fine up to a cluster `c` — root, `<network>`, the preceding children of
    `<network>`, the `<points-observations>` tag and its preceding children have no violation; `c`'s own tag, its
    observations and the start tag of its `<cov-mat>` are fine — whose `dim` is not the number of observations of `c` is
    refused AT THE CLOSING TAG OF THE CLUSTER: 2 root tags + the events of the preceding net items + the
    `<points-observations>` tag + the events of its preceding children + all events of `c` but the last -/
theorem C11_dim_mismatch_document_located (d : Doc') (hvoc : d.inVocab = true) (pre post : List NetItem')
    (as : List CAttr) (ipre ipost : List POItem') (c : Cluster') (cv : CovEl')
    (hitems : d.items = pre ++ .pointsObs as (ipre ++ .cluster c :: ipost) :: post)
    (hroot : elemOk [] .gama_xml d.attrs = true) (hnet : elemOk [] .network d.netAttrs = true)
    (hpre : ∀ i ∈ pre, i.bad = none) (has : elemOk [] .points_observations as = true)
    (hipre : ∀ p ∈ ipre, p.bad = none) (hcov : c.cov = some cv)
    (h1 : attrsDocOk c.kind.tag c.attrs = true) (h2 : ∀ l ∈ c.items, l.ok (c.kind == .coords) c.inh = true)
    (h3 : elemOk [] .cov_mat cv.attrs = true) (hdim : toIndex (attrStr cv.attrs "dim") ≠ some c.count) :
    let k := 1 + (1 + ((pre.map NetItem'.len).sum + (1 + ((ipre.map POItem'.len).sum + (c.len - 1)))))
    (crun CSt.init d.events).st.err = some (k, .finish) ∧
      outcome (crun CSt.init d.events).st = .refused (some (k, .finish)) := by
  have hf := firstBad_dim_mismatch d pre post as ipre ipost c cv hitems hroot hnet hpre has hipre hcov h1 h2 h3 hdim
  have hlen : c.len - 1 = 1 + (2 * c.items.length + cv.len) := by
    simp only [Cluster'.len, hcov, covLen]; omega
  have h := doc_verdict d hvoc
  rw [hf] at h
  simp only [hlen]
  exact h

/-- what the documented-vocabulary hypothesis excludes by value: the documented attributes on which `process_*`
    applies a check DIFFERENT from the documented one (the code is more liberal: `doc_refined_table`, `Lemmas/GkfValues.lean`), computed from the
    regenerated `valueCheck` table -/
theorem C11_loose_attributes : ∀ h : Handler, looseAttrs h =
    (match h with
     | .network_ => ["angles"]
     | .parameters_ => ["algorithm", "language", "encoding", "latitude"]
     | .point_ => ["fix", "adj"]
     | _ => []) := forall_handler (by decide)

/-- blank character data BETWEEN elements (events the tree abstracts away) does not change the verdict: for ANY event
    list, inserting blank text events at places where the parser is not collecting `<cov-mat>` text leaves the final
    automaton state, the KIND of the recorded error (or its absence), the members and hence the outcome
    (accepted / refused) unchanged — only the event index moves with the inserted events, as the line number does -/
theorem C11_blank_text_same_verdict (evs evs' : List CEvent) (h : BlankExt CSt.init evs evs') :
    (crun CSt.init evs').st.state = (crun CSt.init evs).st.state ∧
    (crun CSt.init evs').st.err.map Prod.snd = (crun CSt.init evs).st.err.map Prod.snd ∧
    (crun CSt.init evs').ctx = (crun CSt.init evs).ctx ∧
    (outcome (crun CSt.init evs').st = .accepted ↔ outcome (crun CSt.init evs).st = .accepted) := by
  have hs := blankExt_sim h CSt.init (CSim.refl _)
  refine ⟨hs.1.1.symm, hs.1.2.symm, hs.2.symm, ?_⟩
  rw [outcome_accepted_iff, outcome_accepted_iff, hs.1.1]

/-- … hence for the document tree with white space between its elements: accepted ⇔ valid with documented values -/
theorem C11_document_with_blank_text_accepted_iff (d : Doc') (hvoc : d.inVocab = true) (evs' : List CEvent)
    (h : BlankExt CSt.init d.events evs') :
    outcome (crun CSt.init evs').st = .accepted ↔ (d.valid = true ∧ d.valuesOk = true) := by
  rw [(C11_blank_text_same_verdict d.events evs' h).2.2.2]
  exact C11_document_accepted_iff d hvoc

/-! ### non-vacuity -/

/-- valid documents are in the vocabulary and have no violating element -/
example : exDoc'.inVocab = true ∧ exDoc'.firstBad = none ∧ good.inVocab = true ∧ good.firstBad = none := by
  decide +kernel

/-- `C11_invalid_document_refused_located` / `C11_first_error_is_first_violation`: invalid documents in the vocabulary;
    `firstBad` computed on the tree is where the run records its error -/
example :
    let noTo := obs [c "from" "A"] [dist [c "val" "100"]] none
    let badNumber := obs [c "from" "A"] [dist [c "to" "B", c "val" "1e"]] none
    let secondBad := obs [c "from" "A"] [dist [c "to" "B", c "val" "1"], dist [c "to" "B", c "val" "-1"]] none
    let two := [dist [c "to" "B", c "val" "100"], dist [c "to" "C", c "val" "100"]]
    let dimBad := obs [c "from" "A"] two (some ⟨[c "dim" "3", c "band" "0"], ["1 1 1".toList]⟩)
    let covWord := obs [c "from" "A"] two (some ⟨[c "dim" "2", c "band" "0"], ["1 x".toList]⟩)
    let coordsNoXYZ := mk ⟨.coords, [], [⟨.point_, [c "id" "B"]⟩], some ⟨[c "dim" "1", c "band" "0"], ["1".toList]⟩, true⟩
    let vecNoCov := mk ⟨.vectors, [], [⟨.vec, [c "from" "A", c "to" "B", c "dx" "1", c "dy" "2", c "dz" "3"]⟩], none, true⟩
    let notPd := mk ⟨.obs, [c "from" "A"], two, none, false⟩
    noTo.inVocab = true ∧ noTo.valid = false ∧ noTo.firstBad = some (6, .handler) ∧
      (crun CSt.init noTo.events).st.err = some (6, .handler) ∧
    badNumber.inVocab = true ∧ badNumber.valuesOk = false ∧ badNumber.valid = true ∧ badNumber.firstBad = some (6, .handler) ∧
      (crun CSt.init badNumber.events).st.err = some (6, .handler) ∧
    secondBad.inVocab = true ∧ secondBad.firstBad = some (8, .handler) ∧
      (crun CSt.init secondBad.events).st.err = some (8, .handler) ∧
    dimBad.inVocab = true ∧ dimBad.firstBad = some (13, .finish) ∧ (crun CSt.init dimBad.events).st.err = some (13, .finish) ∧
    covWord.inVocab = true ∧ covWord.valuesOk = false ∧ covWord.firstBad = some (13, .finish) ∧
      (crun CSt.init covWord.events).st.err = some (13, .finish) ∧
    coordsNoXYZ.inVocab = true ∧ coordsNoXYZ.firstBad = some (6, .handler) ∧
      (crun CSt.init coordsNoXYZ.events).st.err = some (6, .handler) ∧
    vecNoCov.inVocab = true ∧ vecNoCov.firstBad = some (8, .finish) ∧
      (crun CSt.init vecNoCov.events).st.err = some (8, .finish) ∧
    notPd.inVocab = true ∧ notPd.firstBad = some (10, .finish) := by decide +kernel

/-- the liberal spots ARE outside the vocabulary and are accepted although not valid: an empty `<height-differences/>`,
    `version` on the root (a name the handler compares, not in the XSD), `fix="q"` … — so `inVocab` cannot be dropped -/
example :
    let emptyHd := mk ⟨.hdiffs, [], [], none, true⟩
    let version : Doc' := { attrs := [c "version" "2.0"], netAttrs := [], items := [] }
    emptyHd.inVocab = false ∧ emptyHd.valid = false ∧ outcome (crun CSt.init emptyHd.events).st = .accepted ∧
    version.inVocab = false ∧ version.valid = false ∧ outcome (crun CSt.init version.events).st = .accepted := by
  decide +kernel

/-- hypotheses of `C11_dim_mismatch_document_located` on `dimBad`: the cluster is the second child of the only
    `<points-observations>`; index 1+1+0+1+2+(9−1) = 13 -/
example :
    let two := [dist [c "to" "B", c "val" "100"], dist [c "to" "C", c "val" "100"]]
    let cv : CovEl' := ⟨[c "dim" "3", c "band" "0"], ["1 1 1".toList]⟩
    let cl : Cluster' := ⟨.obs, [c "from" "A"], two, some cv, true⟩
    let p : POItem' := .point ⟨.point_, [c "id" "A", c "x" "1", c "y" "2"]⟩
    (mk cl).inVocab = true ∧
    elemOk [] .gama_xml (mk cl).attrs = true ∧ elemOk [] .network (mk cl).netAttrs = true ∧ p.bad = none ∧
    elemOk [] .points_observations [] = true ∧ attrsDocOk cl.kind.tag cl.attrs = true ∧
    cl.items.all (fun l => l.ok (cl.kind == .coords) cl.inh) = true ∧ elemOk [] .cov_mat cv.attrs = true ∧
    toIndex (attrStr cv.attrs "dim") ≠ some cl.count ∧
    1 + (1 + (0 + (1 + (p.len + (cl.len - 1))))) = 13 := by decide +kernel

example :
    let two := [dist [c "to" "B", c "val" "100"], dist [c "to" "C", c "val" "100"]]
    let cl : Cluster' := ⟨.obs, [c "from" "A"], two, some ⟨[c "dim" "3", c "band" "0"], ["1 1 1".toList]⟩, true⟩
    (mk cl).items = [] ++ .pointsObs [] ([.point ⟨.point_, [c "id" "A", c "x" "1", c "y" "2"]⟩] ++ .cluster cl :: []) :: [] := rfl

/-- `C11_blank_text_same_verdict`: `"\n" <gama-local> "\n " <network> " " </network> "\n" </gama-local> "\n"` -/
example :
    let g : CEvent := .start .gama_xml [c "xmlns" "http://www.gnu.org/software/gama/gama-local"]
    let n : CEvent := .start .network []
    BlankExt CSt.init [g, n, .stop true, .stop true]
      [.text "\n".toList, g, .text "\n ".toList, n, .text " ".toList, .stop true, .text "\n".toList, .stop true,
       .text "\n".toList] := by
  intro g n
  refine .blank _ _ _ _ (by decide) (by decide) (.cons _ _ _ _ (.blank _ _ _ _ (by decide) (by decide)
    (.cons _ _ _ _ (.blank _ _ _ _ (by decide) (by decide) (.cons _ _ _ _ (.blank _ _ _ _ (by decide) (by decide)
      (.cons _ _ _ _ (.blank _ _ _ _ (by decide) (by decide) (.nil _)))))))))

end Gama.Props.C11
