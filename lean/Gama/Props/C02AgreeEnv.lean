/-
  C02 clause 8 / C20 clause 5 — "`--algorithm` never changes which points take part": the ENVELOPE case of
  `Props/C02Agree.lean`, the cofactor hypothesis `hq` DISCHARGED, and the greedy rule of each algorithm as a theorem.

  (a) `C02_obs_cofactors_gso_env`, `C02_obs_cofactors_gso_chol`: on an answered configuration the diagonal
      cofactors `LocalNetwork` reads (`q_xx(i,i)`, huge-covariance test) are the same for the Gram–Schmidt and the
      envelope / Cholesky object — from `C02_same_gso_envsolve` (unit covariance `p.C = 1`: the Gram–Schmidt MODEL
      has unit weights, that is the only reason for the restriction) resp. `C02_same_cofactors_gso_chol`;
      "answered" (`refused = none`) gives `Resolves A S` by the refusal theorems, which is what the uniqueness of
      the S-belonging reflexive g-inverse needs.  When refused, `q_xx` is never read (`worldOf_sim_of_first` asks
      `hq` only under `refused = none`).
  (b) `C02_decision_agree_gso_env_single_point`, `C02_decision_agree_chol_env_single_point`: the envelope instances
      of `C02_decision_agree_single_point` — hypotheses are each model's own + one removal class (`hone`);
      `C02_decision_agree_gso_chol_single_point_full`: the existing gso/chol instance WITHOUT `hq` (extra hypothesis:
      the list has no repetitions, as `C02_same_cofactors_gso_chol` needs).
  (c) `C02_env_is_greedy_in_rcm_order`: the envelope model flags unknown `i` iff column `i` of `A` is a combination
      of the columns whose position in the reverse Cuthill–McKee ordering (`envPos p` = `ordering.invp`) is smaller;
      `C02_chol_is_greedy_in_pivot_order`: the Cholesky model flags unknown `i` iff its pivot position
      `invp(i) ≥ N0 = n − nullity`, iff column `i` is a combination of the columns pivoted before it
      (`cholPos p` = position in the data-dependent diagonal pivoting) — both in the `Greedy` form of
      `C02_gso_is_greedy`, so `C02_greedy_last` applies to all three: F7 is exactly three different orders.
-/
import Gama.Props.C02Agree
import Gama.Props.C02EnvSolve
import Gama.Props.C02CofactorsChol
import Gama.Lemmas.NetWorldEnv
namespace Gama.Props.C02
open Gama Gama.Ls Gama.LS Gama.NetDecision Matrix

set_option linter.unusedSectionVars false
set_option linter.overlappingInstances false

section Pairs
open Gama.Ls.Gso Gama.Ls.Chol
variable {K : Type} [Field K] [LinearOrder K] [IsStrictOrderedRing K] [SqrtField K]
attribute [local instance] Gama.Ls.sqrtFnOfSqrtField

/-- **(a) same diagonal cofactors, Gram–Schmidt vs envelope object** on an answered configuration (unit
    covariance): `hq` of `C02_decision_agree_single_point` for this pair -/
theorem C02_obs_cofactors_gso_env (p : Problem K) (hUg : Gso.Unambiguous p) (hreg : regInRange p.n p.reg = true)
    (hH : EnvHyp p) (hC : p.C = 1) (i : Nat) (h1 : 1 ≤ i) (h2 : i ≤ p.n) (hr : (obsGso p).refused = none) :
    (obsGso p).qxx i = (obsEnv p).qxx i := by
  have hsq : IsSqrt (SqrtFn.sq : K → K) := isSqrt_sqrtField
  obtain ⟨aF, haF⟩ := gsoSolveWith_false_ok p hreg
  rw [obsGso_eq p aF haF] at hr ⊢
  have hSd := obsGso_sound p hUg hreg
  rw [obsGso_eq p aF haF] at hSd
  cases hg : gsoSolve p with
  | error e => rw [hg] at hr; cases hr
  | ok a =>
    have hS : Resolves p.A p.S := by
      by_contra hn
      have := hSd.refusal.2 hn
      rw [hr] at this; cases this
    obtain ⟨a', ha'⟩ := hH.accepted
    have hP : p.C * (1 : Matrix (Fin p.m) (Fin p.m) K) = 1 := by rw [hC, Matrix.mul_one]
    have hx : a'.xErr = none := (envSolve_refusal hsq p hH.input hH.reg hH.fact hH.gs 1 hP a' ha').1.2 hS
    have hq := (C02_same_gso_envsolve p hUg hH.input hH.reg hH.fact hC hS a a' hg ha' hx).2.2.2.2
      ⟨i - 1, by omega⟩ ⟨i - 1, by omega⟩
    have hi : i - 1 + 1 = i := by omega
    simp only [hi] at hq
    have e1 : aF.qxx i i = a.qxx i i := by
      rw [(gsoSolveWith_ok haF).2.2.2.2.2.1 i i h1 h2 h1 h2, (gsoSolveWith_ok hg).2.2.2.2.2.1 i i h1 h2 h1 h2]
    rw [obsEnv_eq p a' ha']
    show (match aF.qxx i i with | .ok q => q | .error _ => 0) = (match a'.qxx i i with | .ok q => q | .error _ => 0)
    rw [e1, hq]

/-- **(a) same diagonal cofactors, Gram–Schmidt vs Cholesky object** on an answered configuration: `hq` of
    `C02_decision_agree_gso_chol_single_point` -/
theorem C02_obs_cofactors_gso_chol (p : Problem K) (hUg : Gso.Unambiguous p) (hreg : regInRange p.n p.reg = true)
    (hH : CholHyp p) (hnd : ∀ S, Chol.regList p.n p.reg = some S → S.Nodup)
    (i : Nat) (h1 : 1 ≤ i) (h2 : i ≤ p.n) (hr : (obsGso p).refused = none) :
    (obsGso p).qxx i = (obsChol p).qxx i := by
  obtain ⟨aF, haF⟩ := gsoSolveWith_false_ok p hreg
  rw [obsGso_eq p aF haF] at hr ⊢
  have hSd := obsGso_sound p hUg hreg
  rw [obsGso_eq p aF haF] at hSd
  cases hg : gsoSolve p with
  | error e => rw [hg] at hr; cases hr
  | ok a =>
    have hS : Resolves p.A p.S := by
      by_contra hn
      have := hSd.refusal.2 hn
      rw [hr] at this; cases this
    obtain ⟨-, herr⟩ := chol_refusal p hH.fact hH.sq hH.gs
    cases hc : cholSolve p with
    | error e =>
      exfalso
      rcases herr e hc with ⟨-, h⟩ | ⟨-, h⟩
      · exact h hS
      · exact hH.reg h
    | ok a' =>
      have hq := C02_same_cofactors_gso_chol p hUg hH.fact hH.sq hnd hS a a' hg hc ⟨i - 1, by omega⟩ ⟨i - 1, by omega⟩
      have hi : i - 1 + 1 = i := by omega
      simp only [hi] at hq
      have e1 : aF.qxx i i = a.qxx i i := by
        rw [(gsoSolveWith_ok haF).2.2.2.2.2.1 i i h1 h2 h1 h2, (gsoSolveWith_ok hg).2.2.2.2.2.1 i i h1 h2 h1 h2]
      have ho : obsChol p = obsOfAnswer a' none := by unfold obsChol; rw [hc]
      rw [ho]
      show (match aF.qxx i i with | .ok q => q | .error _ => 0) = (match a'.qxx i i with | .ok q => q | .error _ => 0)
      rw [e1, hq]

variable (pe : Net → ProjEq (Problem K)) (m0 : K)

/-- **(b) Gram–Schmidt and envelope remove the same points** on every network whose configurations have the
    kernel supported in one removal class — each model's own hypotheses, unit covariance; no cofactor hypothesis -/
theorem C02_decision_agree_gso_env_single_point
    (hdim : ∀ net, (pe net).prob.n = (pe net).unknowns.length)
    (hU : ∀ net, Gso.Unambiguous (pe net).prob) (hreg : ∀ net, regInRange (pe net).prob.n (pe net).prob.reg = true)
    (hH : ∀ net, EnvHyp (pe net).prob) (hC : ∀ net, (pe net).prob.C = 1)
    (hone : ∀ net, ∃ rc : String × Rm, KernelClass (pe net).prob.A (pe net).unknowns rc)
    (net : Net) :
    (NetDecision.decide m0 (worldOf pe obsGso) net).1 = (NetDecision.decide m0 (worldOf pe obsEnv) net).1 ∧
    (NetDecision.decide m0 (worldOf pe obsGso) net).2.core = (NetDecision.decide m0 (worldOf pe obsEnv) net).2.core :=
  C02_decision_agree_single_point pe obsGso obsEnv (fun p => ⟨p.m, p.n, p.A, p.S⟩) m0 hdim
    (fun n => obsGso_sound (pe n).prob (hU n) (hreg n))
    (fun n => obsEnv_sound_of isSqrt_sqrtField (pe n).prob (hH n))
    (fun n i h1 h2 hr => C02_obs_cofactors_gso_env (pe n).prob (hU n) (hreg n) (hH n) (hC n) i h1
      (by rw [hdim n]; exact h2) hr)
    hone net

/-- **(b) `C02_decision_agree_gso_chol_single_point` with `hq` discharged** -/
theorem C02_decision_agree_gso_chol_single_point_full
    (hdim : ∀ net, (pe net).prob.n = (pe net).unknowns.length)
    (hU : ∀ net, Gso.Unambiguous (pe net).prob) (hreg : ∀ net, regInRange (pe net).prob.n (pe net).prob.reg = true)
    (hH : ∀ net, CholHyp (pe net).prob)
    (hnd : ∀ net S, Chol.regList (pe net).prob.n (pe net).prob.reg = some S → S.Nodup)
    (hone : ∀ net, ∃ rc : String × Rm, KernelClass (pe net).prob.A (pe net).unknowns rc)
    (net : Net) :
    (NetDecision.decide m0 (worldOf pe obsGso) net).1 = (NetDecision.decide m0 (worldOf pe obsChol) net).1 ∧
    (NetDecision.decide m0 (worldOf pe obsGso) net).2.core = (NetDecision.decide m0 (worldOf pe obsChol) net).2.core :=
  C02_decision_agree_gso_chol_single_point pe m0 hdim hU hreg hH
    (fun n i h1 h2 hr => C02_obs_cofactors_gso_chol (pe n).prob (hU n) (hreg n) (hH n) (hnd n) i h1
      (by rw [hdim n]; exact h2) hr)
    hone net

/-- **(b) Cholesky and envelope remove the same points** (one removal class; the cofactors agree through the
    Gram–Schmidt model, so its hypotheses are asked too) -/
theorem C02_decision_agree_chol_env_single_point
    (hdim : ∀ net, (pe net).prob.n = (pe net).unknowns.length)
    (hU : ∀ net, Gso.Unambiguous (pe net).prob) (hreg : ∀ net, regInRange (pe net).prob.n (pe net).prob.reg = true)
    (hHc : ∀ net, CholHyp (pe net).prob)
    (hnd : ∀ net S, Chol.regList (pe net).prob.n (pe net).prob.reg = some S → S.Nodup)
    (hH : ∀ net, EnvHyp (pe net).prob) (hC : ∀ net, (pe net).prob.C = 1)
    (hone : ∀ net, ∃ rc : String × Rm, KernelClass (pe net).prob.A (pe net).unknowns rc)
    (net : Net) :
    (NetDecision.decide m0 (worldOf pe obsChol) net).1 = (NetDecision.decide m0 (worldOf pe obsEnv) net).1 ∧
    (NetDecision.decide m0 (worldOf pe obsChol) net).2.core = (NetDecision.decide m0 (worldOf pe obsEnv) net).2.core := by
  have hSc := fun n => obsChol_sound (pe n).prob (hHc n).fact (hHc n).sq (hHc n).gs (hHc n).sqA (hHc n).gsA (hHc n).reg
  have hSg := fun n => obsGso_sound (pe n).prob (hU n) (hreg n)
  refine C02_decision_agree_single_point pe obsChol obsEnv (fun p => ⟨p.m, p.n, p.A, p.S⟩) m0 hdim hSc
    (fun n => obsEnv_sound_of isSqrt_sqrtField (pe n).prob (hH n)) ?_ hone net
  intro n i h1 h2 hr
  have hrg : (obsGso (pe n).prob).refused = none := by rw [(hSg n).refused_eq (hSc n)]; exact hr
  have h2' : i ≤ (pe n).prob.n := by rw [hdim n]; exact h2
  rw [← C02_obs_cofactors_gso_chol (pe n).prob (hU n) (hreg n) (hHc n) (hnd n) i h1 h2' hrg]
  exact C02_obs_cofactors_gso_env (pe n).prob (hU n) (hreg n) (hH n) (hC n) i h1 h2' hrg

end Pairs

-- ------------------------------------------------------------------ (c) the greedy rule of envelope and Cholesky

section EnvGreedy
variable {K : Type} [Field K] [LinearOrder K] [IsStrictOrderedRing K] [SqrtFn K]
attribute [local instance 2000] scalarOfField

/-- **the envelope model follows the greedy rule in reverse Cuthill–McKee order**: unknown `i` is flagged iff
    column `i` of `A` (equivalently of the homogenised `W A`, `W` invertible) is a combination of the columns whose
    position `envPos p` = `ordering.invp` is smaller; the positions are a permutation of `0..n−1` -/
theorem C02_env_is_greedy_in_rcm_order (hsq : IsSqrt (SqrtFn.sq : K → K)) (p : Problem K) (hin : Env.InputOK p)
    (hU : Env.SolveUnambiguous p) (P : Matrix (Fin p.m) (Fin p.m) K) (hP : p.C * P = 1)
    (a : Answer K) (h : envSolve p = .ok a) :
    Greedy p.A (fun j => envPos p j.val) (fun i => (obsEnv p).lindep (i.val + 1))
    ∧ (∀ j < p.n, envPos p j < p.n) ∧ (∀ j < p.n, ∀ j' < p.n, envPos p j = envPos p j' → j = j') :=
  ⟨obsEnv_greedy hsq p hin hU P hP a h, envPos_perm p hin a h⟩

/-- **the Cholesky model flags unknown `i` iff its pivot position is `≥ N0 = n − nullity`, and follows the greedy
    rule in the order of its diagonal pivoting** (`cholPos p` = `invp`; the order depends on the data) -/
theorem C02_chol_is_greedy_in_pivot_order (p : Problem K) (hH : CholHyp p) :
    (∀ i : Fin p.n, (obsChol p).lindep (i.val + 1) = true ↔ p.n - (cholFact p).nullity ≤ cholPos p i.val) ∧
    Greedy p.A (fun j => cholPos p j.val) (fun i => (obsChol p).lindep (i.val + 1)) :=
  obsChol_greedy p hH.fact hH.sq hH.gs hH.sqA hH.gsA hH.reg

/-- consequence (`C02_greedy_last` for the envelope): the unknown processed LAST in the reverse Cuthill–McKee order
    is named iff it lies in the support of the kernel -/
theorem C02_env_last_flagged_iff (hsq : IsSqrt (SqrtFn.sq : K → K)) (p : Problem K) (hin : Env.InputOK p)
    (hU : Env.SolveUnambiguous p) (P : Matrix (Fin p.m) (Fin p.m) K) (hP : p.C * P = 1)
    (a : Answer K) (h : envSolve p = .ok a) (i : Fin p.n) (hlast : ∀ j : Fin p.n, j ≠ i → envPos p j.val < envPos p i.val) :
    (obsEnv p).lindep (i.val + 1) = true ↔ ∃ g, p.A *ᵥ g = 0 ∧ g i ≠ 0 :=
  C02_greedy_last (fun j => envPos p j.val) (fun i => (obsEnv p).lindep (i.val + 1))
    (obsEnv_greedy hsq p hin hU P hP a h) i hlast

end EnvGreedy

-- ------------------------------------------------------------------ non-vacuity: `Ex.pR` over ℝ, all three models

section Witness
open Gama.Ls.Gso Gama.Ls.Chol
attribute [local instance] Gama.Ls.sqrtFnOfSqrtField

/-- non-vacuity of `C02_decision_agree_gso_env_single_point`, `C02_decision_agree_gso_chol_single_point_full`,
    `C02_decision_agree_chol_env_single_point`: the project equations that always hand the singular system `Ex.pR`
    (defect 1, list {1}) of ONE free point P (unknowns X_P, Y_P; `pRPE1`, Lemmas/NetWorldEnv.lean) to the solver meet
    every hypothesis of all three.  (With the two unknowns in two points — `pRPE` — `hone` fails: the kernel (1, −1)
    meets two removal classes.) -/
example : (∀ net, (pRPE1 net).prob.n = (pRPE1 net).unknowns.length)
    ∧ (∀ net, Gso.Unambiguous (pRPE1 net).prob) ∧ (∀ net, regInRange (pRPE1 net).prob.n (pRPE1 net).prob.reg = true)
    ∧ (∀ net, CholHyp (pRPE1 net).prob)
    ∧ (∀ net S, Chol.regList (pRPE1 net).prob.n (pRPE1 net).prob.reg = some S → S.Nodup)
    ∧ (∀ net, EnvHyp (pRPE1 net).prob) ∧ (∀ net, (pRPE1 net).prob.C = 1)
    ∧ (∀ net, ∃ rc : String × Rm, KernelClass (pRPE1 net).prob.A (pRPE1 net).unknowns rc) :=
  ⟨fun _ => rfl, fun _ => Ex.pR_unambiguous, fun _ => (by decide : regInRange Ex.pR.n Ex.pR.reg = true),
    fun _ => pR_cholHyp, fun _ => Ex.pR_chol_nodup, fun _ => pR_envHyp, fun _ => Ex.pR_C,
    pRPE1_class⟩

/-- … and the conclusion OBTAINED FROM THE THEOREMS on it: all three models decide identically on every net -/
example (m0 : ℝ) (net : Net) :
    (NetDecision.decide m0 (worldOf pRPE1 obsGso) net).1 = (NetDecision.decide m0 (worldOf pRPE1 obsEnv) net).1
    ∧ (NetDecision.decide m0 (worldOf pRPE1 obsGso) net).1 = (NetDecision.decide m0 (worldOf pRPE1 obsChol) net).1
    ∧ (NetDecision.decide m0 (worldOf pRPE1 obsChol) net).2.core = (NetDecision.decide m0 (worldOf pRPE1 obsEnv) net).2.core := by
  have hone : ∀ net, ∃ rc : String × Rm, KernelClass (pRPE1 net).prob.A (pRPE1 net).unknowns rc := pRPE1_class
  exact ⟨(C02_decision_agree_gso_env_single_point pRPE1 m0 (fun _ => rfl) (fun _ => Ex.pR_unambiguous)
      (fun _ => (by decide : regInRange Ex.pR.n Ex.pR.reg = true)) (fun _ => pR_envHyp) (fun _ => Ex.pR_C) hone net).1,
    (C02_decision_agree_gso_chol_single_point_full pRPE1 m0 (fun _ => rfl) (fun _ => Ex.pR_unambiguous)
      (fun _ => (by decide : regInRange Ex.pR.n Ex.pR.reg = true)) (fun _ => pR_cholHyp) (fun _ => Ex.pR_chol_nodup)
      hone net).1,
    (C02_decision_agree_chol_env_single_point pRPE1 m0 (fun _ => rfl) (fun _ => Ex.pR_unambiguous)
      (fun _ => (by decide : regInRange Ex.pR.n Ex.pR.reg = true)) (fun _ => pR_cholHyp) (fun _ => Ex.pR_chol_nodup)
      (fun _ => pR_envHyp) (fun _ => Ex.pR_C) hone net).2⟩

/-- non-vacuity of `C02_obs_cofactors_gso_env` / `_gso_chol`: on `Ex.pR` the Gram–Schmidt object answers
    (`refused = none`), so the premise is met and the three objects report the same `q_xx(2,2)` -/
example : (obsGso Ex.pR).refused = none ∧ (obsGso Ex.pR).qxx 2 = (obsEnv Ex.pR).qxx 2
    ∧ (obsGso Ex.pR).qxx 2 = (obsChol Ex.pR).qxx 2 := by
  have hr : (obsGso Ex.pR).refused = none := by
    obtain ⟨aF, haF⟩ := gsoSolveWith_false_ok Ex.pR (by decide)
    obtain ⟨a, ha, -⟩ := Ex.pR_answers
    rw [obsGso_eq Ex.pR aF haF, ha]; rfl
  exact ⟨hr, C02_obs_cofactors_gso_env Ex.pR Ex.pR_unambiguous (by decide) pR_envHyp Ex.pR_C 2 (by decide) (by decide) hr,
    C02_obs_cofactors_gso_chol Ex.pR Ex.pR_unambiguous (by decide) pR_cholHyp Ex.pR_chol_nodup 2 (by decide) (by decide) hr⟩

/-- non-vacuity of `C02_env_is_greedy_in_rcm_order`, `C02_chol_is_greedy_in_pivot_order`, `C02_env_last_flagged_iff`:
    `Ex.pR` meets the hypotheses; there the reverse Cuthill–McKee order is the identity (`Ex.pR_rcm`), unknown 2 is
    processed last and is the one the envelope model names -/
example : (Greedy Ex.pR.A (fun j => envPos Ex.pR j.val) (fun i => (obsEnv Ex.pR).lindep (i.val + 1)))
    ∧ (Greedy Ex.pR.A (fun j => cholPos Ex.pR j.val) (fun i => (obsChol Ex.pR).lindep (i.val + 1)))
    ∧ envPos Ex.pR 0 = 0 ∧ envPos Ex.pR 1 = 1
    ∧ (obsEnv Ex.pR).lindep 2 = true := by
  obtain ⟨a, ha, -⟩ := Ex.pR_envSolve
  have hP : Ex.pR.C * (1 : Matrix (Fin Ex.pR.m) (Fin Ex.pR.m) ℝ) = 1 := by rw [Ex.pR_C, Matrix.mul_one]
  have hG := (C02_env_is_greedy_in_rcm_order isSqrt_sqrtField Ex.pR Ex.pR_input Ex.pR_solveUnamb 1 hP a ha).1
  have hpos : ∀ j, envPos Ex.pR j = (Env.rcmOrd 2 #[[1, 2], []]).invp.getD j 0 := by
    intro j; unfold envPos; rw [Ex.pR_homogenize_eq]; rfl
  have h0 : envPos Ex.pR 0 = 0 := by rw [hpos, Ex.pR_rcm]; rfl
  have h1 : envPos Ex.pR 1 = 1 := by rw [hpos, Ex.pR_rcm]; rfl
  refine ⟨hG, (C02_chol_is_greedy_in_pivot_order Ex.pR pR_cholHyp).2, h0, h1, ?_⟩
  have hl := (C02_env_last_flagged_iff isSqrt_sqrtField Ex.pR Ex.pR_input Ex.pR_solveUnamb 1 hP a ha
    ⟨1, (by decide : 1 < 2)⟩
    (fun j hj => by
      have hj0 : j.val = 0 := by
        have h2 : j.val < 2 := j.2
        have hne : j.val ≠ 1 := fun e => hj (Fin.ext e)
        omega
      show envPos Ex.pR j.val < envPos Ex.pR 1
      rw [hj0, h0, h1]; decide)).2
  apply hl
  refine ⟨![1, -1], ?_, by show (-1 : ℝ) ≠ 0; norm_num⟩
  show Ex.pRA2 *ᵥ ![1, -1] = 0
  ext r
  simp [Matrix.mulVec, dotProduct, Fin.sum_univ_two, Ex.pRA2_apply]

end Witness

end Gama.Props.C02
