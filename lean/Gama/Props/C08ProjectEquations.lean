/-
  C08 — two datum choices as two calls of `project_equations()` (round 7: gap #9 of notes/CLAUSES.md audit #3, C08
  "Missing 1"; round 8: `hsame` PROVED, the theorem is FULL).

  `C08_net_datum` (`Props/C08Net.lean`) solves one assembled system `np` with `np.minx` and with an ARBITRARY other list,
  under `hdim`, `RowsOK`.  Here the two lists are the `min_x_` of two calls of the executed model
  `PE.projectEquations` — `MinX.fillMin` of the index fields and the statuses each call ends with (`C01_pe_minx`) —
  and `hdim`, `RowsOK` are discharged by the theorems about the call.

    C08_pe_datum_same      two networks that differ ONLY in the constrained ↔ free status of coordinate groups
                           (`PE.DatumEq net net'`: equal after rewriting every `constrained` to `free`) make
                           `project_equations()` assemble the SAME rows, right-hand sides, `m`, `n`, clusters and `m0`; only
                           `min_x_` differs; same `pocet_neznamych_`, `unknowns_`, removed points; the networks the calls leave
                           again differ only in constrained ↔ free; and the second call answers whenever the first does.
                           VALUE level, every carrier, any depth of the `singular_coords` recursion
                           (`Lemmas/ProjectEquationsDatum.lean`: the 13 regenerated `LocalLinearization::<type>` read a status only
                           through `free_xy()/free_z()`, the regenerated prologue guard, `revision_observations`, the `unknowns_` loops
                           and `singular_coords` only through `active_*()/fixed_xy()`; only `MinX.feed` reads `constrained_*()`).
    C08_pe_datum           the datum theorem for the two calls: `hsame` of round 7 is now DERIVED from `DatumEq`.
    C08_pe_datum_gap       the same with ONE input-side solver hypothesis per run (`InputGap`, `Lemmas/Ls/InputGap.lean`).
    C08_pe_datum_partial   round 7's form (hypothesis `hsame`), kept under its name; a corollary-shaped special case.
-/
import Gama.Props.C08Net
import Gama.Props.C01.ProjectEquationsGap
import Gama.Props.C08InputGap
import Gama.Lemmas.ProjectEquationsDatum
namespace Gama.Props.C08ProjectEquations
open Gama Gama.Lin Gama.PE Gama.Ls Gama.Ls.Net Gama.LS Gama.Ls.AdjM Matrix

set_option linter.unusedSectionVars false

/-- **constrained ↔ free changes nothing but `min_x_`** in what `project_equations()` hands over and leaves
    (`hsame` of `C08_pe_datum_partial`, proved; every carrier the model runs at, `Float` included) -/
theorem C08_pe_datum_same {K : Type} [TrigScalar K] (net net' : PE.Net K) (hd : PE.DatumEq net net')
    (np : NetProblem K) (u : Unknowns K) (hpe : projectEquations net = .ok (np, u)) :
    ∃ np' u', projectEquations net' = .ok (np', u') ∧
      np' = { np with minx := np'.minx } ∧ u'.n = u.n ∧ u'.list = u.list ∧ u'.removed = u.removed ∧
      PE.DatumEq u.net u'.net := by
  obtain ⟨np', u', h'⟩ := PE.pe_datum_ok net net' hd np u hpe
  exact ⟨np', u', h', PE.pe_datum_same net net' hd np np' u u' hpe h'⟩

section sqrtField
variable {K : Type} [Field K] [LinearOrder K] [IsStrictOrderedRing K] [Gso.SqrtField K]
attribute [local instance] sqrtFnOfSqrtField
attribute [local instance 2000] scalarOfField

/-- **choice of datum changes only the datum, for two calls of `project_equations()`** (partial: `hsame`).
    Residuals, `[pvv]`, adjusted observations, defect and every `q_bb(i,j)` coincide; the two vectors of unknowns differ by
    a kernel vector; each is the minimum-norm minimiser over ITS list — and the two lists are `MinX.fillMin` of the
    numbering and the statuses the two calls end with, distinct entries within `1..n`. -/
theorem C08_pe_datum_partial (t : TrigFns K) (alg alg' : Alg)
    (net net' : PE.Net K) (np np' : NetProblem K) (u u' : Unknowns K)
    (hpe : @projectEquations K (trigOfField t) net = .ok (np, u))
    (hpe' : @projectEquations K (trigOfField t) net' = .ok (np', u'))
    (hsame : np' = { np with minx := np'.minx })
    (hm0 : np.m0 ≠ 0)
    (Pc : Matrix (Fin (toProblem np).m) (Fin (toProblem np).m) K) (hPc : Sigma np * Pc = 1)
    (hyp : Net.SolverHyp alg np) (hyp' : Net.SolverHyp alg' { np with minx := np'.minx })
    (a a' : NetAnswer K) (h : netSolve alg np = .ok a) (h' : netSolve alg' { np with minx := np'.minx } = .ok a') :
    (np.minx = MinX.fillMin (idxFn u.net.idx) (ptsOf u.net) ∧ np.minx.Nodup ∧ ∀ i ∈ np.minx, 1 ≤ i ∧ i ≤ np.n) ∧
    (np'.minx = MinX.fillMin (idxFn u'.net.idx) (ptsOf u'.net) ∧ np'.minx.Nodup ∧ ∀ i ∈ np'.minx, 1 ≤ i ∧ i ≤ np.n) ∧
    toVec (toProblem np).m a.r = toVec (toProblem np).m a'.r ∧ a.pvv = a'.pvv ∧
    (toProblem np).A *ᵥ toVec (toProblem np).n a.x = (toProblem np).A *ᵥ toVec (toProblem np).n a'.x ∧
    a.defect = a'.defect ∧
    (∀ i j : Fin (toProblem np).m, a.qbb (i.val + 1) (j.val + 1) = a'.qbb (i.val + 1) (j.val + 1)) ∧
    (∀ g, (toProblem np).A *ᵥ g = 0 → ∑ i ∈ (toProblem np).S, toVec (toProblem np).n a.x i * g i = 0) ∧
    (∀ g, (toProblem np).A *ᵥ g = 0 →
      ∑ i ∈ (Reg.subset np'.minx).toFinset np.n, toVec (toProblem np).n a'.x i * g i = 0) := by
  obtain ⟨m1, m2, m3, _⟩ := @Gama.Props.C01.C01_pe_minx K (trigOfField t) net np u hpe
  obtain ⟨m1', m2', m3', _⟩ := @Gama.Props.C01.C01_pe_minx K (trigOfField t) net' np' u' hpe'
  have hn : np'.n = np.n := by rw [hsame]
  obtain ⟨c1, c2, c3, _, c5, c6, c7, c8, _, _⟩ :=
    Gama.Props.C08.C08_net_datum alg alg' np np'.minx (Gama.Props.C01.C01_pe_dimsN t net np u hpe)
      (@Gama.Props.C01.C01_pe_rowsOK K (trigOfField t) net np u hpe) hm0 Pc hPc hyp hyp' a a' h h'
  exact ⟨⟨m1, m2, m3⟩, ⟨m1', m2', fun i hi => hn ▸ m3' i hi⟩, c1, c2, c3, c5, c6, c7, c8⟩

/-- **choice of datum changes only the datum, for two calls of `project_equations()`** on networks that differ
    only in which coordinate groups are constrained and which free.  Residuals, `[pvv]`, adjusted observations, defect
    and every `q_bb(i,j)` coincide; the two vectors of unknowns differ by a kernel vector; each is the minimum-norm
    minimiser over ITS list — and the two lists are `MinX.fillMin` of the numbering and the statuses the two calls end
    with, distinct entries within `1..n`. -/
theorem C08_pe_datum (t : TrigFns K) (alg alg' : Alg)
    (net net' : PE.Net K) (hd : PE.DatumEq net net') (np np' : NetProblem K) (u u' : Unknowns K)
    (hpe : @projectEquations K (trigOfField t) net = .ok (np, u))
    (hpe' : @projectEquations K (trigOfField t) net' = .ok (np', u'))
    (hm0 : np.m0 ≠ 0)
    (Pc : Matrix (Fin (toProblem np).m) (Fin (toProblem np).m) K) (hPc : Sigma np * Pc = 1)
    (hyp : Net.SolverHyp alg np) (hyp' : Net.SolverHyp alg' { np with minx := np'.minx })
    (a a' : NetAnswer K) (h : netSolve alg np = .ok a) (h' : netSolve alg' { np with minx := np'.minx } = .ok a') :
    np' = { np with minx := np'.minx } ∧
    (np.minx = MinX.fillMin (idxFn u.net.idx) (ptsOf u.net) ∧ np.minx.Nodup ∧ ∀ i ∈ np.minx, 1 ≤ i ∧ i ≤ np.n) ∧
    (np'.minx = MinX.fillMin (idxFn u'.net.idx) (ptsOf u'.net) ∧ np'.minx.Nodup ∧ ∀ i ∈ np'.minx, 1 ≤ i ∧ i ≤ np.n) ∧
    toVec (toProblem np).m a.r = toVec (toProblem np).m a'.r ∧ a.pvv = a'.pvv ∧
    (toProblem np).A *ᵥ toVec (toProblem np).n a.x = (toProblem np).A *ᵥ toVec (toProblem np).n a'.x ∧
    a.defect = a'.defect ∧
    (∀ i j : Fin (toProblem np).m, a.qbb (i.val + 1) (j.val + 1) = a'.qbb (i.val + 1) (j.val + 1)) ∧
    (∀ g, (toProblem np).A *ᵥ g = 0 → ∑ i ∈ (toProblem np).S, toVec (toProblem np).n a.x i * g i = 0) ∧
    (∀ g, (toProblem np).A *ᵥ g = 0 →
      ∑ i ∈ (Reg.subset np'.minx).toFinset np.n, toVec (toProblem np).n a'.x i * g i = 0) := by
  have hsame := (@PE.pe_datum_same K (trigOfField t) net net' hd np np' u u' hpe hpe').1
  exact ⟨hsame, C08_pe_datum_partial t alg alg' net net' np np' u u' hpe hpe' hsame hm0 Pc hPc hyp hyp' a a' h h'⟩

/-- **… with ONE input-side solver hypothesis per run**: `InputGap alg` for the first list, `InputGap alg'` for the second,
    on the same design matrix and weight matrix; `RegListOK` of both lists is DERIVED from the calls (`C01_pe_regListOK`) -/
theorem C08_pe_datum_gap (t : TrigFns K) (alg alg' : Alg)
    (net net' : PE.Net K) (hd : PE.DatumEq net net') (np np' : NetProblem K) (u u' : Unknowns K)
    (hpe : @projectEquations K (trigOfField t) net = .ok (np, u))
    (hpe' : @projectEquations K (trigOfField t) net' = .ok (np', u'))
    (hm0 : np.m0 ≠ 0)
    (Pc : Matrix (Fin (toProblem np).m) (Fin (toProblem np).m) K) (hPc : Sigma np * Pc = 1) {τ τ' : K}
    (hg : InputGap alg (toProblem np).A ((np.m0 * np.m0) • Pc) (toProblem np).S τ)
    (hg' : InputGap alg' (toProblem np).A ((np.m0 * np.m0) • Pc) ((Reg.subset np'.minx).toFinset np.n) τ')
    (a a' : NetAnswer K) (h : netSolve alg np = .ok a) (h' : netSolve alg' { np with minx := np'.minx } = .ok a') :
    np' = { np with minx := np'.minx } ∧
    toVec (toProblem np).m a.r = toVec (toProblem np).m a'.r ∧ a.pvv = a'.pvv ∧
    (toProblem np).A *ᵥ toVec (toProblem np).n a.x = (toProblem np).A *ᵥ toVec (toProblem np).n a'.x ∧
    a.defect = a'.defect ∧
    (∀ i j : Fin (toProblem np).m, a.qbb (i.val + 1) (j.val + 1) = a'.qbb (i.val + 1) (j.val + 1)) ∧
    (∀ g, (toProblem np).A *ᵥ g = 0 → ∑ i ∈ (toProblem np).S, toVec (toProblem np).n a.x i * g i = 0) ∧
    (∀ g, (toProblem np).A *ᵥ g = 0 →
      ∑ i ∈ (Reg.subset np'.minx).toFinset np.n, toVec (toProblem np).n a'.x i * g i = 0) := by
  have hsame := (@PE.pe_datum_same K (trigOfField t) net net' hd np np' u u' hpe hpe').1
  have hdim := Gama.Props.C01.C01_pe_dimsN t net np u hpe
  have hrows := @Gama.Props.C01.C01_pe_rowsOK K (trigOfField t) net np u hpe
  have hreg := Gama.Props.C01.C01_pe_regListOK t net np u hpe
  have hreg' : Env.RegListOK (toProblem { np with minx := np'.minx }) := by
    have := Gama.Props.C01.C01_pe_regListOK t net' np' u' hpe'
    rw [hsame] at this
    exact this
  obtain ⟨c1, c2, c3, _, c5, c6, c7, c8, _, _⟩ :=
    Gama.Props.C08.C08_net_datum_gap alg alg' np np'.minx hdim hrows hm0 Pc hPc hreg hreg' hg hg' a a' h h'
  exact ⟨hsame, c1, c2, c3, c5, c6, c7, c8⟩

end sqrtField

/-! ### non-vacuity -/

section examples
open Gama.PE.Ex
attribute [local instance 2000] scalarOfField

/-- `hpe`, `hpe'`, `hsame`, `NoAlias` together (kernel evaluation over ℚ): `Ex.netW` (`B` constrained, `C` free) and
    `Ex.netW'` (`B` free, `C` constrained) — two networks that differ ONLY in the constrained ↔ free status — make the
    model assemble the same rows, right-hand sides, clusters and `m0`, with `min_x_ = [1]` and `min_x_ = [2]`; both systems
    are then solved (cholesky / envelope) with equal residuals, `[pvv]`, defect -/
example : ∃ u u', @projectEquations ℚ (trigOfField tQ) netW = .ok (npW, u) ∧
    @projectEquations ℚ (trigOfField tQ) netW' = .ok ({ npW with minx := [2] }, u') ∧
    ({ npW with minx := [2] } : Ls.Net.NetProblem ℚ) = { npW with minx := ({ npW with minx := [2] } : Ls.Net.NetProblem ℚ).minx } ∧
    (∀ ob ∈ revisedObs u.net, NoAlias ob) ∧ npW.minx = [1] ∧
    ∃ a a', netSolve .chol npW = .ok a ∧ netSolve .env { npW with minx := [2] } = .ok a' ∧
      a.r = a'.r ∧ a.pvv = a'.pvv ∧ a.defect = a'.defect := by
  obtain ⟨u, hu, hna⟩ := netW_pe
  obtain ⟨u', hu', _⟩ := netW'_pe
  exact ⟨u, u', hu, hu', rfl, hna, rfl, npW_datum_pair⟩

/-- `DatumEq` on the same pair: `Ex.netW` (`B` constrained, `C` free) and `Ex.netW'` (`B` free, `C` constrained) have the
    same normal form, so `C08_pe_datum_same` APPLIES: from the first call alone, the second call answers with the same rows,
    right-hand sides, clusters, `m0` (here confirmed by the evaluation above) -/
example : PE.DatumEq netW netW' ∧
    ∃ np' u', @projectEquations ℚ (trigOfField tQ) netW' = .ok (np', u') ∧ np' = { npW with minx := np'.minx } := by
  have hd : PE.DatumEq netW netW' := by
    show ({ netW with points := netW.points.map PE.Point.nrm } : PE.Net ℚ)
      = { netW' with points := netW'.points.map PE.Point.nrm }
    have e : netW.points.map PE.Point.nrm = netW'.points.map PE.Point.nrm := by
      simp [netW, netW', PE.Point.nrm, PE.nPt, PE.nS]
    rw [e]
    rfl
  obtain ⟨u, hu, -⟩ := netW_pe
  obtain ⟨np', u', h', e, -⟩ := @C08_pe_datum_same ℚ (trigOfField tQ) netW netW' hd npW u hu
  exact ⟨hd, np', u', h', e⟩

end examples

end Gama.Props.C08ProjectEquations
