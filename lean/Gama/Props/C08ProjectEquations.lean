/-
  C08 — two datum choices as two calls of `project_equations()` (round 7; gap #9 of notes/CLAUSES.md audit #3, C08
  "Missing 1"), PARTIAL.

  `C08_net_datum` (`Props/C08Net.lean`) solves one assembled system `np` with `np.minx` and with an ARBITRARY other list,
  under `hdim`, `RowsOK`.  Here the two lists are the `min_x_` of two calls of the executed model
  `PE.projectEquations` — `MinX.fillMin` of the index fields and the statuses each call ends with (`C01_pe_minx`) —
  and `hdim`, `RowsOK` are discharged by the theorems about the call.

  What is NOT proved (hence `_partial`): that two networks differing only in the constrained ↔ free status of their
  points make `project_equations()` assemble the SAME rows, right-hand sides, clusters and `m0`.  It is the hypothesis
  `hsame : np' = { np with minx := np'.minx }`; it needs "the 13 regenerated member functions read a status only through
  `free_xy()/free_z()`" for every carrier (values, not only shapes), `MinX.isRevised` / `Gen.Lin.resetGuard` /
  `SingularCoords.singularCoords` reading `constrained` only through `active`/`adjusted`.  The evaluated witness shows
  the hypothesis on a pair of networks that differ exactly so.
-/
import Gama.Props.C08Net
import Gama.Props.C01.ProjectEquationsGap
namespace Gama.Props.C08ProjectEquations
open Gama Gama.Lin Gama.PE Gama.Ls Gama.Ls.Net Gama.LS Gama.Ls.AdjM Matrix

set_option linter.unusedSectionVars false

section sqrtField
variable {K : Type} [Field K] [LinearOrder K] [IsStrictOrderedRing K] [Gso.SqrtField K]
attribute [local instance] sqrtFnOfSqrtField
attribute [local instance 2000] scalarOfField

/-- **choice of datum changes only the datum, for two calls of `project_equations()`** (partial: `hsame`).
    Residuals, `[pvv]`, adjusted observations, defect and every `q_bb(i,j)` coincide; the two vectors of unknowns differ by
    a kernel vector; each is the minimum-norm minimiser over ITS list — and the two lists are `MinX.fillMin` of the
    numbering and the statuses the two calls end with, distinct entries within `1..n`. -/
theorem C08_pe_datum_partial (t : TrigFns K) (alg alg' : Alg)
    (net net' : PE.Net K) (np np' : NetProblem K) (u u' : Unknowns K)
    (hpe : @projectEquations K (trigOfField t) net = .ok (np, u))
    (hpe' : @projectEquations K (trigOfField t) net' = .ok (np', u'))
    (hsame : np' = { np with minx := np'.minx })
    (hna : ∀ ob ∈ revisedObs u.net, NoAlias ob) (hm0 : np.m0 ≠ 0)
    (Pc : Matrix (Fin (toProblem np).m) (Fin (toProblem np).m) K) (hPc : Sigma np * Pc = 1)
    (hyp : Net.SolverHyp alg np) (hyp' : Net.SolverHyp alg' { np with minx := np'.minx })
    (a a' : NetAnswer K) (h : netSolve alg np = .ok a) (h' : netSolve alg' { np with minx := np'.minx } = .ok a') :
    (np.minx = MinX.fillMin (idxFn u.net.idx) (ptsOf u.net) ∧ np.minx.Nodup ∧ ∀ i ∈ np.minx, 1 ≤ i ∧ i ≤ np.n) ∧
    (np'.minx = MinX.fillMin (idxFn u'.net.idx) (ptsOf u'.net) ∧ np'.minx.Nodup ∧ ∀ i ∈ np'.minx, 1 ≤ i ∧ i ≤ np.n) ∧
    toVec (toProblem np).m a.r = toVec (toProblem np).m a'.r ∧ a.pvv = a'.pvv ∧
    (toProblem np).A *ᵥ toVec (toProblem np).n a.x = (toProblem np).A *ᵥ toVec (toProblem np).n a'.x ∧
    a.defect = a'.defect ∧
    (∀ i j : Fin (toProblem np).m, a.qbb (i.val + 1) (j.val + 1) = a'.qbb (i.val + 1) (j.val + 1)) ∧
    (∀ g, (toProblem np).A *ᵥ g = 0 → ∑ i ∈ (toProblem np).S, toVec (toProblem np).n a.x i * g i = 0) ∧
    (∀ g, (toProblem np).A *ᵥ g = 0 →
      ∑ i ∈ (Reg.subset np'.minx).toFinset np.n, toVec (toProblem np).n a'.x i * g i = 0) := by
  obtain ⟨m1, m2, m3, _⟩ := @Gama.Props.C01.C01_pe_minx K (trigOfField t) net np u hpe
  obtain ⟨m1', m2', m3', _⟩ := @Gama.Props.C01.C01_pe_minx K (trigOfField t) net' np' u' hpe'
  have hn : np'.n = np.n := by rw [hsame]
  obtain ⟨c1, c2, c3, _, c5, c6, c7, c8, _, _⟩ :=
    Gama.Props.C08.C08_net_datum alg alg' np np'.minx (Gama.Props.C01.C01_pe_dimsN t net np u hpe)
      (@Gama.Props.C01.C01_pe_rowsOK K (trigOfField t) net np u hpe hna) hm0 Pc hPc hyp hyp' a a' h h'
  exact ⟨⟨m1, m2, m3⟩, ⟨m1', m2', fun i hi => hn ▸ m3' i hi⟩, c1, c2, c3, c5, c6, c7, c8⟩

end sqrtField

/-! ### non-vacuity -/

section examples
open Gama.PE.Ex
attribute [local instance 2000] scalarOfField

/-- `hpe`, `hpe'`, `hsame`, `NoAlias` together (kernel evaluation over ℚ): `Ex.netW` (`B` constrained, `C` free) and
    `Ex.netW'` (`B` free, `C` constrained) — two networks that differ ONLY in the constrained ↔ free status — make the
    model assemble the same rows, right-hand sides, clusters and `m0`, with `min_x_ = [1]` and `min_x_ = [2]`; both systems
    are then solved (cholesky / envelope) with equal residuals, `[pvv]`, defect -/
example : ∃ u u', @projectEquations ℚ (trigOfField tQ) netW = .ok (npW, u) ∧
    @projectEquations ℚ (trigOfField tQ) netW' = .ok ({ npW with minx := [2] }, u') ∧
    ({ npW with minx := [2] } : Ls.Net.NetProblem ℚ) = { npW with minx := ({ npW with minx := [2] } : Ls.Net.NetProblem ℚ).minx } ∧
    (∀ ob ∈ revisedObs u.net, NoAlias ob) ∧ npW.minx = [1] ∧
    ∃ a a', netSolve .chol npW = .ok a ∧ netSolve .env { npW with minx := [2] } = .ok a' ∧
      a.r = a'.r ∧ a.pvv = a'.pvv ∧ a.defect = a'.defect := by
  obtain ⟨u, hu, hna⟩ := netW_pe
  obtain ⟨u', hu', _⟩ := netW'_pe
  exact ⟨u, u', hu, hu', rfl, hna, rfl, npW_datum_pair⟩

end examples

end Gama.Props.C08ProjectEquations
