/-
  C10 — "correlated observations are weighted by their full covariance matrix", at the `LocalNetwork` entry point
  (round 9; gaps "`Homogenization::run`'s output reaching a solver theorem" and "repeated column indices" of
  notes/CLAUSES.md).

    C10_network_solution_uses_full_covariance   what `netSolve alg np` answers (any algorithm, ONE solver hypothesis
                                                `InputGap alg`) minimises `m0²·vᵀΣ⁻¹v`, `Σ = Net.Sigma np` the FULL block
                                                covariance of the active observations (off-diagonal band entries of each
                                                cluster's `covariance_matrix` included, passive observations struck out)
    C10_sparse_path_is_homogenization_run       C10's executable `Cov.Hom.run` (what `drv_cov` runs next to the C++
                                                `Homogenization::run`) on the system handed to the envelope solver IS the
                                                whitening `(W A, W b)`, `WᵀW = m0²·Σ⁻¹`, of the ORIGINAL system — the system
                                                `envSolve` factorises and `prepareProjectEquations()` leaves in the base class
    C10_repeated_columns_dense_sums             a repeated column index on the dense path: the coefficients ADD up
    C10_repeated_columns_uncorrelated_agree     … in an uncorrelated block of `Homogenization::run`: every entry kept, same sum
    C10_repeated_columns_agree                  … in a CORRELATED block of `Homogenization::run` (since /repo 6d0f7107 the gather
                                                loop is `T(i, perm[c]) += *b++`): `T` holds the same SUM as the dense path, no
                                                no-repeat hypothesis; on the witness `Ex.repNp` both paths produce the SAME
                                                homogenised system.  (Before the fix the last value won: this was the NEG theorem
                                                `C10_repeated_columns_correlated_differ`.)
  Round 11: the LS-side MODEL of the envelope solver's homogenisation, `Ls.Env.homogenize` on `Problem.dense`
  (`Lemmas/Ls/AdjDense.rowDense`), reads a repeated column as the SUM too (labelled `example` below: all three readings
  agree).  `Env.HoldsProblem` has NO `nodupRows` field any more (`Hom.run_spec` / `C10_homogenization_run` lost the
  hypothesis), so `hom_run_eq_homogenize` / `C10_sparse_path_is_homogenization_run` cover sparse rows with a repeated
  column index; their `RowsOK` is the range condition (columns in `1..n`) only.
  Proofs: `Lemmas/HomRunBridge.lean`, `Lemmas/HomEnvBridge.lean`, `Props/C01/InputGap.lean`, `Props/C01/NetFacade.lean`,
  `Props/C03/Net.lean`.
-/
import Gama.Lemmas.HomRunBridge
import Gama.Props.C01.InputGap
import Gama.Props.C03.Net
namespace Gama.Props.C10
open Gama Gama.Ls Gama.Ls.Net Gama.LS Matrix

set_option linter.unusedSectionVars false
set_option linter.unusedVariables false

section general
variable {K : Type} [Field K] [LinearOrder K] [IsStrictOrderedRing K] [Gso.SqrtField K]
attribute [local instance] sqrtFnOfSqrtField
attribute [local instance 2000] scalarOfField

/-- **C10 composed with C01 at `LocalNetwork`**: for every algorithm, under the static hypotheses and the ONE solver
    hypothesis of `C01_net_of_inputgap`, an answer of `netSolve alg np`
    (i)   is about `Σ = Net.Sigma np`, the FULL block covariance: inside a cluster the entry of the cluster's
          `covariance_matrix` at the ORIGINAL positions of the two active observations (`CovMat.get`: off-diagonal band
          entries included, an excluded observation drops its row and column), 0 across clusters; `Σ` is symmetric, and the
          cofactor matrix every solver works with is `Σ/m0²`;
    (ii)  is THE weighted least-squares solution for `P = m0²·Σ⁻¹` (`Σ·Pc = 1`, `Pc` symmetric);
    (iii) minimises `m0²·vᵀΣ⁻¹v`: the reported residuals are `v = A x − b`, `[pvv] = vᵀPv`, and no `x'` does better. -/
theorem C10_network_solution_uses_full_covariance (np : Net.NetProblem K)
    (hdim : (Net.dimsN np).sum = np.m) (hrows : RowsOK (Net.toProblem np)) (hm0 : np.m0 ≠ 0)
    (Pc : Matrix (Fin (Net.toProblem np).m) (Fin (Net.toProblem np).m) K) (hPc : Net.Sigma np * Pc = 1)
    (hreg : Env.RegListOK (Net.toProblem np)) {τ : K} (alg : Alg)
    (h : InputGap alg (Net.toProblem np).A ((np.m0 * np.m0) • Pc) (Net.toProblem np).S τ)
    (a : Net.NetAnswer K) (hs : Net.netSolve alg np = .ok a) :
    -- (i) Σ is the full block covariance of the active observations
    ((∀ s t : Fin (Net.toProblem np).m,
        (Net.rowCluster np s.val = Net.rowCluster np t.val →
          Net.Sigma np s t = (Net.clusterAt np s.val).cov.get (Net.origPos np s.val) (Net.origPos np t.val)) ∧
        (Net.rowCluster np s.val ≠ Net.rowCluster np t.val → Net.Sigma np s t = 0)) ∧
      (Net.Sigma np)ᵀ = Net.Sigma np ∧
      (Net.toProblem np).C = (1 / (np.m0 * np.m0)) • Net.Sigma np) ∧
    -- (ii) the answer is the least-squares solution for P = m0²·Σ⁻¹
    (IsLSSolution (Net.toProblem np).A (Net.toProblem np).b ((np.m0 * np.m0) • Pc) (Net.toProblem np).S
        (toVec (Net.toProblem np).n a.x) (toVec (Net.toProblem np).m a.r) a.pvv ∧
      Pcᵀ = Pc ∧ (Net.toProblem np).C * ((np.m0 * np.m0) • Pc) = 1) ∧
    -- (iii) it minimises m0²·vᵀΣ⁻¹v
    (toVec (Net.toProblem np).m a.r = (Net.toProblem np).A *ᵥ toVec (Net.toProblem np).n a.x - (Net.toProblem np).b ∧
      a.pvv = toVec (Net.toProblem np).m a.r ⬝ᵥ ((np.m0 * np.m0) • Pc) *ᵥ toVec (Net.toProblem np).m a.r ∧
      ∀ x' : Fin (Net.toProblem np).n → K,
        a.pvv ≤ ((Net.toProblem np).A *ᵥ x' - (Net.toProblem np).b) ⬝ᵥ
          ((np.m0 * np.m0) • Pc) *ᵥ ((Net.toProblem np).A *ᵥ x' - (Net.toProblem np).b)) := by
  have hls := C01.C01_net_of_inputgap np hdim hrows hm0 Pc hPc hreg alg h a hs
  obtain ⟨hh, hp⟩ := Net.netSolve_prepared alg np a hs
  obtain ⟨hmin, hpvv, -⟩ := C01.C01_net_min_norm C01.C01_gap2_isSqrt alg np hdim hm0 Pc hPc hh hp a hls
  refine ⟨⟨fun s t => ⟨fun e => Net.sigmaF_same np hdim _ _ s.isLt t.isLt e,
      fun e => Net.sigmaF_other np hdim _ _ s.isLt t.isLt e⟩, Net.Sigma_symm np hdim, C01.C01_net_cofactor np hdim⟩,
    ⟨hls, inv_symm_of_symm _ _ (Net.Sigma_symm np hdim) hPc, Net.weight_of_sigma np hdim hm0 Pc hPc⟩,
    hls.res, hls.rtr_eq, fun x' => ?_⟩
  rw [hpvv]
  exact hmin x'

end general

/-! ### the correlated witness: `Ex.npR` (band-1 cluster `[[16,3,8],[3,25,5],[8,5,40]]`, 2nd observation passive) -/

section witness
open Gama.Ls.Ex
attribute [local instance] sqrtFnOfSqrtField
attribute [local instance 2000] scalarOfField

/-- `C10_network_solution_uses_full_covariance` APPLIED to `npR` for envelope, cholesky and gso: every hypothesis
    discharged, the model answers, and the answer minimises `m0²·vᵀΣ⁻¹v` -/
example (alg : Alg) (halg : alg ≠ .svd) : ∃ a, netSolve alg npR = .ok a ∧
    IsLSSolution (toProblem npR).A (toProblem npR).b ((npR.m0 * npR.m0) • PcN) (toProblem npR).S
      (toVec (toProblem npR).n a.x) (toVec (toProblem npR).m a.r) a.pvv ∧
    ∀ x' : Fin (toProblem npR).n → ℝ,
      a.pvv ≤ ((toProblem npR).A *ᵥ x' - (toProblem npR).b) ⬝ᵥ
        ((npR.m0 * npR.m0) • PcN) *ᵥ ((toProblem npR).A *ᵥ x' - (toProblem npR).b) := by
  obtain ⟨a, ha, -⟩ := C01.C01_net_answers_witness alg halg
  obtain ⟨-, ⟨hls, -, -⟩, -, -, hmin⟩ := C10_network_solution_uses_full_covariance npR (npW_dims 2 [1]) (npW_rows 2 [1])
    (by show (2 : ℝ) ≠ 0; norm_num) PcN npR_sigma_inv (npW_regListOK 2 [1] (Or.inl rfl)) alg
    (C01.C01_net_inputgap_witness alg halg) a ha
  exact ⟨a, ha, hls, hmin⟩

/-- the off-diagonal covariance matters there: rows 0 and 1 are observations 1 and 3 of the first cluster, and
    `Σ₀₁ = cov(1,3) = 8 ≠ 0` (an entry at band distance 2 of the input matrix); the third row is another cluster -/
example : (Sigma npR : Matrix (Fin 3) (Fin 3) ℝ) (0 : Fin 3) (1 : Fin 3) = 8 ∧
    (Sigma npR : Matrix (Fin 3) (Fin 3) ℝ) (0 : Fin 3) (1 : Fin 3) ≠ 0 ∧
    (Sigma npR : Matrix (Fin 3) (Fin 3) ℝ) (0 : Fin 3) (2 : Fin 3) = 0 := by
  rw [show (Sigma npR : Matrix (Fin 3) (Fin 3) ℝ) = !![16, 8, 0; 8, 40, 0; 0, 0, 16] from npW_Sigma 2 [1]]
  refine ⟨rfl, ?_, rfl⟩
  show (8 : ℝ) ≠ 0
  norm_num

end witness

/-! ### `Homogenization::run`'s output reaches the solver theorem -/

section sparse
variable {K : Type} [Field K] [LinearOrder K] [IsStrictOrderedRing K] [SqrtFn K]
attribute [local instance 2000] scalarOfField

/-- **the sparse path**: `mat`, `cov` hold the system `LocalNetwork` hands to the envelope solver (`toProblem np`: the
    ORIGINAL sparse rows, `rhs_`, one cofactor block `activeCov()/m0²` per cluster).  If C10's executable
    `Homogenization::run` (`Cov.Hom.run`, the model `drv_cov` runs next to the C++) accepts it — and
    `prepareProjectEquations()` accepted, as it has whenever `netSolve` answers — then
    * the homogenisation `envSolve` runs (`Env.homogenize`, `envSolve_shape`) accepts and IS `Hom.run`'s output:
      `out.pr = he.bt`, `dense(out.sm) = he.At` entry by entry (`hom_run_eq_homogenize`);
    * that output is the whitening of the ORIGINAL system by the FULL covariance: `dense(out.sm) = W·A`, `out.pr = W·b`
      with `WᵀW = m0²·Σ⁻¹`, `W` injective (`C03_net_homogenisations_agree` + `C01_net_prepare`) — the `W` of the envelope
      theorems (`C01_net_envelope`, `C01_net_of_inputgap`), and the same `(W A, W b)` the full solvers are given. -/
theorem C10_sparse_path_is_homogenization_run (hsq : IsSqrt (SqrtFn.sq : K → K)) (np : NetProblem K)
    (hdim : (dimsN np).sum = np.m) (hrows : RowsOK (toProblem np)) (hm0 : np.m0 ≠ 0)
    (Pc : Matrix (Fin (toProblem np).m) (Fin (toProblem np).m) K) (hPc : Sigma np * Pc = 1)
    (mat : SMat K) (cov : Cov.BlockDiag K) (tail : List K) (H : Env.HoldsProblem (toProblem np) mat cov tail)
    (out : Cov.Hom.Out K)
    (hrun : @Cov.Hom.run K (Cov.fieldScalar K SqrtFn.sq) (Env.bdTol : K) mat cov (toProblem np).rhs = .ok out)
    (hh : Hom K) (hp : prepare np = .ok hh) :
    ∃ he, Env.homogenize (toProblem np) = .ok he ∧ out.pr = he.bt ∧
      (∀ s c, s < (toProblem np).m → c < (toProblem np).n →
        Cov.denseRow (@SMat.rowEntries K ⟨0⟩ out.sm (s + 1)) (c + 1) = Env.mget he.At s c) ∧
      ∃ W : Matrix (Fin (toProblem np).m) (Fin (toProblem np).m) K,
        Wᵀ * W = (np.m0 * np.m0) • Pc ∧ (∀ d, W *ᵥ d = 0 → d = 0) ∧
        (Matrix.of fun (s : Fin (toProblem np).m) (c : Fin (toProblem np).n) =>
          Cov.denseRow (@SMat.rowEntries K ⟨0⟩ out.sm (s.val + 1)) (c.val + 1)) = W * (toProblem np).A ∧
        toVec (toProblem np).m out.pr = W *ᵥ (toProblem np).b ∧
        toMatrix (toProblem np).m (toProblem np).n hh.Ad = W * (toProblem np).A ∧
        toVec (toProblem np).m hh.bd = W *ᵥ (toProblem np).b := by
  obtain ⟨he, hhe, e1, -, -, -, e5⟩ := hom_run_reaches_homogenize hsq _ mat cov tail H out hrun
  obtain ⟨hA, hb⟩ := C03.C03_net_homogenisations_agree hsq np hdim hrows hm0 Pc hPc hh hp he hhe
  obtain ⟨W, hW, hinj, hWA, hWb⟩ := C01.C01_net_prepare hsq np hdim hrows hm0 Pc hPc hh hp
  refine ⟨he, hhe, e1, e5, W, hW, hinj, ?_, ?_, hWA, hWb⟩
  · rw [← hWA, ← hA]
    ext s c
    exact e5 s.val c.val s.isLt c.isLt
  · rw [← hWb, ← hb, e1]

end sparse

/-! ### repeated column indices: what the code does, and where the two paths differ -/

section repeated
variable {K : Type} [Field K] [LinearOrder K] [IsStrictOrderedRing K] [SqrtFn K]
attribute [local instance 2000] scalarOfField

/-- **dense path** (`project_equations()`: `A.set_zero(); … A(row, *i++) += *a++`): entry `(i,j)` of the dense design
    matrix every full solver (and `prepareProjectEquations()`) works with is the SUM of all coefficients row `i` stores
    with column `j+1` — NO hypothesis on repeated columns (`1 ≤ column`: the indices are 1-based) -/
theorem C10_repeated_columns_dense_sums (np : NetProblem K) (i j : Nat) (hi : i < np.m) (hj : j < np.n)
    (h1 : ∀ cv ∈ (np.rows.getD i #[]).toList, 1 ≤ cv.1) :
    Dn.mget (Net.denseA np) i j = Cov.denseRow (np.rows.getD i #[]).toList (j + 1) :=
  denseA_entry_sum np i j hi hj h1

/-- **sparse path, UNCORRELATED block** (`width == 0`: `d = *block_b++; add_element(*b++/d, *n++)`): every stored entry
    is kept, divided by the pivot, so row `i` of the block reads densely as (sum of the repeated entries)`/d` — the
    dense path's entry (`C10_repeated_columns_dense_sums`) over the same pivot: a repeated column is harmless here -/
theorem C10_repeated_columns_uncorrelated_agree (np : NetProblem K) (mat : SMat K) (nonz : Array K)
    (begin_ off dim i j : Nat) (h1 : 1 ≤ i) (h2 : i ≤ dim) (hi : off + i - 1 < np.m) (hj : j < np.n)
    (hrow : @SMat.rowEntries K ⟨0⟩ mat (off + i) = (np.rows.getD (off + i - 1) #[]).toList)
    (hc1 : ∀ cv ∈ (np.rows.getD (off + i - 1) #[]).toList, 1 ≤ cv.1) :
    Cov.denseRow ((@Cov.Hom.diagBlock K (Cov.fieldScalar K SqrtFn.sq) mat nonz begin_ off dim).getD (i - 1) []) (j + 1)
      = Cov.denseRow (@SMat.rowEntries K ⟨0⟩ mat (off + i)) (j + 1) / nonz.getD (begin_ + (i - 1)) 0 ∧
    Cov.denseRow ((@Cov.Hom.diagBlock K (Cov.fieldScalar K SqrtFn.sq) mat nonz begin_ off dim).getD (i - 1) []) (j + 1)
      = Dn.mget (Net.denseA np) (off + i - 1) j / nonz.getD (begin_ + (i - 1)) 0 := by
  have h := diagBlock_row_dense mat nonz begin_ off dim i h1 h2 (j + 1)
  refine ⟨h, ?_⟩
  rw [h, hrow, denseA_entry_sum np _ j hi hj hc1]

end repeated

section repeatedCorr
variable {K : Type} [Field K] [LinearOrder K] [IsStrictOrderedRing K] [SqrtFn K]
-- priority below `instScalarRat`: the witness part is over `Rat` with its own `Scalar` instance (as in `Ex.rep_agree`)
attribute [local instance 900] scalarOfField

/-- **sparse path, CORRELATED block** (`width != 0`; /repo 6d0f7107: `T.set_zero(); … T(i, perm[c]) += *b++`).
    General part, NO hypothesis on repeated columns (only what the C++ relies on anyway: `perm` all zero and of size
    `cols+1` on entry, column indices in `1..cols`):
    (gather)  after the gather loop column `j` of `T` is `colOf mat off dim c`, `c = occ[j-1]` the `j`-th distinct column:
              entry `r` is the SUM of all coefficients row `off+r+1` stores with column `c` (`Cov.gather_spec`) — the number
              `Net.denseA` holds (`C10_repeated_columns_dense_sums`) when the rows are the network's rows;
    (scatter) the output row `i` of the block reads densely as entry `i` of the forward-substituted dense column.
    Witness part (`Ex.repNp`, `Ex.repMat`, `Ex.repCov`; exact over `Rat`, every pivot is 1): one cluster `[[1,1],[1,2]]`
    (band 1), `m0 = 1`, rows `[(1,−1),(1,+1)]` (column 1 stored TWICE) and `[(2,1)]`, `rhs = (1,2)`.  The two paths get the
    same input, both accept, and produce the SAME homogenised system: `Ad = [[0,0],[0,1]]`, the rows of `out.sm` are `[]`
    (the exact zero is dropped) and `[(2,1)]` — densely the same matrix, entry by entry — and `out.pr = bd = (1,1)`. -/
theorem C10_repeated_columns_agree (np : NetProblem K) (mat : SMat K) (nonz : Array K) (tab : Array Nat)
    (off dim cols : Nat) (perm : Array Nat)
    (hperm0 : ∀ c, perm.getD c 0 = 0) (hpsize : perm.size = cols + 1)
    (hcols : ∀ i, 1 ≤ i → i ≤ dim → ∀ e ∈ @SMat.rowEntries K ⟨0⟩ mat (off + i), 1 ≤ e.1 ∧ e.1 ≤ cols) :
    -- gather
    (∀ j, 1 ≤ j → j ≤ (Cov.blockOcc mat off dim).length →
      (@Cov.gatherOf K (Cov.fieldScalar K SqrtFn.sq) mat off dim (Cov.blockOcc mat off dim).length perm).T.getD (j - 1) #[]
        = @Cov.colOf K _ _ ⟨0⟩ mat off dim ((Cov.blockOcc mat off dim).getD (j - 1) 0) ∧
      ∀ r, r < dim →
        ((@Cov.gatherOf K (Cov.fieldScalar K SqrtFn.sq) mat off dim (Cov.blockOcc mat off dim).length perm).T.getD
            (j - 1) #[]).getD r 0
          = Cov.denseRow (@SMat.rowEntries K ⟨0⟩ mat (off + (r + 1))) ((Cov.blockOcc mat off dim).getD (j - 1) 0) ∧
        ∀ c, (Cov.blockOcc mat off dim).getD (j - 1) 0 = c + 1 → off + r < np.m → c < np.n →
          @SMat.rowEntries K ⟨0⟩ mat (off + (r + 1)) = (np.rows.getD (off + r) #[]).toList →
          ((@Cov.gatherOf K (Cov.fieldScalar K SqrtFn.sq) mat off dim (Cov.blockOcc mat off dim).length perm).T.getD
              (j - 1) #[]).getD r 0
            = Dn.mget (Net.denseA np) (off + r) c) ∧
    -- scatter
    (∀ i, 1 ≤ i → i ≤ dim → ∀ c,
      Cov.denseRow ((@Cov.Hom.corrBlock K (Cov.fieldScalar K SqrtFn.sq) mat nonz tab off dim
          (Cov.blockOcc mat off dim).length perm).1.getD (i - 1) []) c =
        if c ∈ Cov.blockOcc mat off dim then
          (@Cov.sweepTab K (Cov.fieldScalar K SqrtFn.sq) nonz tab off dim (@Cov.colOf K _ _ ⟨0⟩ mat off dim c)).getD (i - 1) 0
        else 0) ∧
    -- the witness: the same input …
    ((@SMat.toRows Rat ⟨0⟩ Ex.repMat = Ex.repNp.rows.toList.map Array.toList ∧
      (Net.cofs Ex.repNp).map (fun C => (C.dim, C.band, C.buf)) = [(2, 1, #[1, 1, 2])] ∧
      Ex.repCov.Built [⟨2, 1, #[1, 1, 2]⟩] [] ∧ (Ex.repMat.rows, Ex.repMat.cols) = (Ex.repNp.m, Ex.repNp.n)) ∧
    -- … the same homogenised system on both paths
      (Net.denseA Ex.repNp = #[#[0, 0], #[0, 1]] ∧
        (Cov.Hom.run (Cov.bdTol : Rat) Ex.repMat Ex.repCov Ex.repNp.rhs).toOption.map
          (fun o => (@SMat.toRows Rat ⟨0⟩ o.sm, o.pr)) = some ([[], [(2, 1)]], #[1, 1])) ∧
      ∃ hh out, Net.prepare Ex.repNp = .ok hh ∧
        Cov.Hom.run (Cov.bdTol : Rat) Ex.repMat Ex.repCov Ex.repNp.rhs = .ok out ∧
        hh.Ad = #[#[0, 0], #[0, 1]] ∧
        (∀ s c, s < 2 → c < 2 →
          Cov.denseRow (@SMat.rowEntries Rat ⟨0⟩ out.sm (s + 1)) (c + 1) = Dn.mget hh.Ad s c) ∧
        out.pr = hh.bd) := by
  refine ⟨fun j hj1 hj2 => ?_, fun i h1 h2 c => corrBlock_row_dense mat nonz tab off dim cols perm hperm0 hpsize hcols i h1 h2 c,
    Ex.rep_same_input, ⟨Ex.rep_dense_path.1, Ex.rep_sparse_path⟩, Ex.rep_agree⟩
  obtain ⟨hcol, hent⟩ := gather_col_dense mat off dim cols perm hperm0 hpsize hcols j hj1 hj2
  refine ⟨hcol, fun r hr => ⟨hent r hr, fun c hc hi hcn hrow => ?_⟩⟩
  rw [hent r hr, hc, hrow]
  refine (denseA_entry_sum np (off + r) c hi hcn ?_).symm
  intro cv hcv
  rw [← hrow] at hcv
  exact (hcols (r + 1) (by omega) (by omega) cv hcv).1

end repeatedCorr

/-- all THREE readings of the repeated column of `Ex.repNp` agree (evaluated instance): the LS-side model of the envelope
    solver's homogenisation (`Ls.Env.homogenize` on `Problem.dense`, a SUM since round 11), `prepareProjectEquations()` and
    `Homogenization::run` give `[[0,0],[0,1]]`, right-hand side `(1,1)` -/
example :
    (Env.homogenize (Net.toProblem Ex.repNp)).toOption.map (fun h => (h.At, h.bt))
        = some (#[#[0, 0], #[0, 1]], #[1, 1]) ∧
    (Net.prepare Ex.repNp).toOption.map (fun h => (h.Ad, h.bd)) = some (#[#[0, 0], #[0, 1]], #[1, 1]) ∧
    (Cov.Hom.run (Cov.bdTol : Rat) Ex.repMat Ex.repCov Ex.repNp.rhs).toOption.map
        (fun o => (@SMat.toRows Rat ⟨0⟩ o.sm, o.pr)) = some ([[], [(2, 1)]], #[1, 1]) :=
  ⟨Ex.rep_ls_model_sums, Ex.rep_dense_path.2, Ex.rep_sparse_path⟩

/-! ### non-vacuity of the two positive statements about repeated columns (over ℝ) -/

section witness2
open Gama.Ls.Ex
attribute [local instance] sqrtFnOfSqrtField
attribute [local instance 2000] scalarOfField

/-- a row that stores column 1 twice (`−1`, `+1`): the dense entry is the sum -/
example : Dn.mget (Net.denseA (⟨1, 1, #[#[(1, -1), (1, 1)]], #[0], [], 1, []⟩ : NetProblem ℝ)) 0 0 = -1 + 1 := by
  rw [C10_repeated_columns_dense_sums _ 0 0 (by decide) (by decide) (by simp)]
  simp [Cov.denseRow]

/-- the same row in an uncorrelated block with pivot 2: both entries are kept, the dense reading is `(−1 + 1)/2` -/
example :
    Cov.denseRow ((@Cov.Hom.diagBlock ℝ (Cov.fieldScalar ℝ SqrtFn.sq) (SMat.ofRows 1 1 [[(1, -1), (1, 1)]] []) #[2]
      0 0 1).getD (1 - 1) []) (0 + 1)
      = Dn.mget (Net.denseA (⟨1, 1, #[#[(1, -1), (1, 1)]], #[0], [], 1, []⟩ : NetProblem ℝ)) (0 + 1 - 1) 0
        / (#[2] : Array ℝ).getD (0 + (1 - 1)) 0 :=
  (C10_repeated_columns_uncorrelated_agree _ _ _ 0 0 1 1 0 (by decide) (by decide) (by decide) (by decide) rfl
    (by simp)).2

/-- the general part of `C10_repeated_columns_agree` APPLIED to a 1-row correlated block that stores column 1 twice (`−1`,
    `+1`): its hypotheses hold, and the gathered `T(1,1)` is the dense path's entry `−1 + 1` -/
example :
    ((@Cov.gatherOf ℝ (Cov.fieldScalar ℝ SqrtFn.sq) (SMat.ofRows 1 1 [[(1, -1), (1, 1)]] []) 0 1
        (Cov.blockOcc (SMat.ofRows 1 1 [[(1, -1), (1, 1)]] [] : SMat ℝ) 0 1).length (Array.replicate 2 0)).T.getD (1 - 1) #[]).getD 0 0
      = Dn.mget (Net.denseA (⟨1, 1, #[#[(1, -1), (1, 1)]], #[0], [], 1, []⟩ : NetProblem ℝ)) (0 + 0) 0 := by
  have hocc : Cov.blockOcc (SMat.ofRows 1 1 [[(1, -1), (1, 1)]] [] : SMat ℝ) 0 1 = [1] := by
    rfl
  have h := (C10_repeated_columns_agree (⟨1, 1, #[#[(1, -1), (1, 1)]], #[0], [], 1, []⟩ : NetProblem ℝ)
    (SMat.ofRows 1 1 [[(1, -1), (1, 1)]] []) #[] #[] 0 1 1 (Array.replicate 2 0)
    (by intro c; simp [Array.getD]) (by simp)
    (by
      intro i h1 h2 e he
      have : i = 1 := by omega
      subst this
      have r1 : @SMat.rowEntries ℝ ⟨0⟩ (SMat.ofRows 1 1 [[(1, -1), (1, 1)]] []) (0 + 1) = [(1, -1), (1, 1)] := rfl
      rw [r1] at he
      simp at he
      rcases he with rfl | rfl <;> simp)).1 1 (by decide) (by rw [hocc]; decide)
  exact (h.2 0 (by decide)).2 0 (by rw [hocc]; rfl) (by decide) (by decide) rfl

/-- `C10_sparse_path_is_homogenization_run` APPLIED to the correlated network `npR` (`Ex.npRMat`, `Ex.npRCov`: its sparse
    rows and its two cofactor blocks `[[4,2],[2,10]]`, `[4]` as `SparseMatrix` + `BlockDiagonal`): `Env.HoldsProblem` holds,
    `Homogenization::run` accepts, and its output is `(W A, W b)` with `WᵀW = m0²·Σ⁻¹` -/
example : ∃ out he,
    @Cov.Hom.run ℝ (Cov.fieldScalar ℝ SqrtFn.sq) (Env.bdTol : ℝ) npRMat npRCov (toProblem npR).rhs = .ok out ∧
    Env.homogenize (toProblem npR) = .ok he ∧ out.pr = he.bt ∧
    ∃ W : Matrix (Fin (toProblem npR).m) (Fin (toProblem npR).m) ℝ, Wᵀ * W = (npR.m0 * npR.m0) • PcN ∧
      (Matrix.of fun (s : Fin (toProblem npR).m) (c : Fin (toProblem npR).n) =>
        Cov.denseRow (@SMat.rowEntries ℝ ⟨0⟩ out.sm (s.val + 1)) (c.val + 1)) = W * (toProblem npR).A ∧
      toVec (toProblem npR).m out.pr = W *ᵥ (toProblem npR).b := by
  obtain ⟨out, hout⟩ := npR_homrun_accepted C01.C01_gap2_isSqrt
  obtain ⟨he, hhe, e1, -, W, hW, -, hA, hb, -, -⟩ := C10_sparse_path_is_homogenization_run C01.C01_gap2_isSqrt npR
    (npW_dims 2 [1]) (npW_rows 2 [1]) (by show (2 : ℝ) ≠ 0; norm_num) PcN npR_sigma_inv npRMat npRCov [] npR_holds
    out hout _ (npR_prepare [1])
  exact ⟨out, he, hout, hhe, e1, W, hW, hA, hb⟩

end witness2

end Gama.Props.C10
