/-
  C10 — "correlated observations are weighted by their full covariance matrix", at the `LocalNetwork` entry point
  (round 9; gaps "`Homogenization::run`'s output reaching a solver theorem" and "repeated column indices" of
  notes/CLAUSES.md).

    C10_network_solution_uses_full_covariance   what `netSolve alg np` answers (any algorithm, ONE solver hypothesis
                                                `InputGap alg`) minimises `m0²·vᵀΣ⁻¹v`, `Σ = Net.Sigma np` the FULL block
                                                covariance of the active observations (off-diagonal band entries of each
                                                cluster's `covariance_matrix` included, passive observations struck out)
    C10_sparse_path_is_homogenization_run       C10's executable `Cov.Hom.run` (what `drv_cov` runs next to the C++
                                                `Homogenization::run`) on the system handed to the envelope solver IS the
                                                whitening `(W A, W b)`, `WᵀW = m0²·Σ⁻¹`, of the ORIGINAL system — the system
                                                `envSolve` factorises and `prepareProjectEquations()` leaves in the base class
    C10_repeated_columns_dense_sums             a repeated column index on the dense path: the coefficients ADD up
    C10_repeated_columns_uncorrelated_agree     … in an uncorrelated block of `Homogenization::run`: every entry kept, same sum
    C10_repeated_columns_correlated_differ      … in a CORRELATED block of `Homogenization::run`: the LAST one wins — NEG witness,
                                                the two paths homogenise different matrices (what `RowsOK`/`nodupRows` protects)
  Proofs: `Lemmas/HomRunBridge.lean`, `Lemmas/HomEnvBridge.lean`, `Props/C01/InputGap.lean`, `Props/C01/NetFacade.lean`,
  `Props/C03/Net.lean`.
-/
import Gama.Lemmas.HomRunBridge
import Gama.Props.C01.InputGap
import Gama.Props.C03.Net
namespace Gama.Props.C10
open Gama Gama.Ls Gama.Ls.Net Gama.LS Matrix

set_option linter.unusedSectionVars false
set_option linter.unusedVariables false

section general
variable {K : Type} [Field K] [LinearOrder K] [IsStrictOrderedRing K] [Gso.SqrtField K]
attribute [local instance] sqrtFnOfSqrtField
attribute [local instance 2000] scalarOfField

/-- **C10 composed with C01 at `LocalNetwork`**: for every algorithm, under the static hypotheses and the ONE solver
    hypothesis of `C01_net_of_inputgap`, an answer of `netSolve alg np`
    (i)   is about `Σ = Net.Sigma np`, the FULL block covariance: inside a cluster the entry of the cluster's
          `covariance_matrix` at the ORIGINAL positions of the two active observations (`CovMat.get`: off-diagonal band
          entries included, an excluded observation drops its row and column), 0 across clusters; `Σ` is symmetric, and the
          cofactor matrix every solver works with is `Σ/m0²`;
    (ii)  is THE weighted least-squares solution for `P = m0²·Σ⁻¹` (`Σ·Pc = 1`, `Pc` symmetric);
    (iii) minimises `m0²·vᵀΣ⁻¹v`: the reported residuals are `v = A x − b`, `[pvv] = vᵀPv`, and no `x'` does better. -/
theorem C10_network_solution_uses_full_covariance (np : Net.NetProblem K)
    (hdim : (Net.dimsN np).sum = np.m) (hrows : RowsOK (Net.toProblem np)) (hm0 : np.m0 ≠ 0)
    (Pc : Matrix (Fin (Net.toProblem np).m) (Fin (Net.toProblem np).m) K) (hPc : Net.Sigma np * Pc = 1)
    (hreg : Env.RegListOK (Net.toProblem np)) {τ : K} (alg : Alg)
    (h : InputGap alg (Net.toProblem np).A ((np.m0 * np.m0) • Pc) (Net.toProblem np).S τ)
    (a : Net.NetAnswer K) (hs : Net.netSolve alg np = .ok a) :
    -- (i) Σ is the full block covariance of the active observations
    ((∀ s t : Fin (Net.toProblem np).m,
        (Net.rowCluster np s.val = Net.rowCluster np t.val →
          Net.Sigma np s t = (Net.clusterAt np s.val).cov.get (Net.origPos np s.val) (Net.origPos np t.val)) ∧
        (Net.rowCluster np s.val ≠ Net.rowCluster np t.val → Net.Sigma np s t = 0)) ∧
      (Net.Sigma np)ᵀ = Net.Sigma np ∧
      (Net.toProblem np).C = (1 / (np.m0 * np.m0)) • Net.Sigma np) ∧
    -- (ii) the answer is the least-squares solution for P = m0²·Σ⁻¹
    (IsLSSolution (Net.toProblem np).A (Net.toProblem np).b ((np.m0 * np.m0) • Pc) (Net.toProblem np).S
        (toVec (Net.toProblem np).n a.x) (toVec (Net.toProblem np).m a.r) a.pvv ∧
      Pcᵀ = Pc ∧ (Net.toProblem np).C * ((np.m0 * np.m0) • Pc) = 1) ∧
    -- (iii) it minimises m0²·vᵀΣ⁻¹v
    (toVec (Net.toProblem np).m a.r = (Net.toProblem np).A *ᵥ toVec (Net.toProblem np).n a.x - (Net.toProblem np).b ∧
      a.pvv = toVec (Net.toProblem np).m a.r ⬝ᵥ ((np.m0 * np.m0) • Pc) *ᵥ toVec (Net.toProblem np).m a.r ∧
      ∀ x' : Fin (Net.toProblem np).n → K,
        a.pvv ≤ ((Net.toProblem np).A *ᵥ x' - (Net.toProblem np).b) ⬝ᵥ
          ((np.m0 * np.m0) • Pc) *ᵥ ((Net.toProblem np).A *ᵥ x' - (Net.toProblem np).b)) := by
  have hls := C01.C01_net_of_inputgap np hdim hrows hm0 Pc hPc hreg alg h a hs
  obtain ⟨hh, hp⟩ := Net.netSolve_prepared alg np a hs
  obtain ⟨hmin, hpvv, -⟩ := C01.C01_net_min_norm C01.C01_gap2_isSqrt alg np hdim hm0 Pc hPc hh hp a hls
  refine ⟨⟨fun s t => ⟨fun e => Net.sigmaF_same np hdim _ _ s.isLt t.isLt e,
      fun e => Net.sigmaF_other np hdim _ _ s.isLt t.isLt e⟩, Net.Sigma_symm np hdim, C01.C01_net_cofactor np hdim⟩,
    ⟨hls, inv_symm_of_symm _ _ (Net.Sigma_symm np hdim) hPc, Net.weight_of_sigma np hdim hm0 Pc hPc⟩,
    hls.res, hls.rtr_eq, fun x' => ?_⟩
  rw [hpvv]
  exact hmin x'

end general

/-! ### the correlated witness: `Ex.npR` (band-1 cluster `[[16,3,8],[3,25,5],[8,5,40]]`, 2nd observation passive) -/

section witness
open Gama.Ls.Ex
attribute [local instance] sqrtFnOfSqrtField
attribute [local instance 2000] scalarOfField

/-- `C10_network_solution_uses_full_covariance` APPLIED to `npR` for envelope, cholesky and gso: every hypothesis
    discharged, the model answers, and the answer minimises `m0²·vᵀΣ⁻¹v` -/
example (alg : Alg) (halg : alg ≠ .svd) : ∃ a, netSolve alg npR = .ok a ∧
    IsLSSolution (toProblem npR).A (toProblem npR).b ((npR.m0 * npR.m0) • PcN) (toProblem npR).S
      (toVec (toProblem npR).n a.x) (toVec (toProblem npR).m a.r) a.pvv ∧
    ∀ x' : Fin (toProblem npR).n → ℝ,
      a.pvv ≤ ((toProblem npR).A *ᵥ x' - (toProblem npR).b) ⬝ᵥ
        ((npR.m0 * npR.m0) • PcN) *ᵥ ((toProblem npR).A *ᵥ x' - (toProblem npR).b) := by
  obtain ⟨a, ha, -⟩ := C01.C01_net_answers_witness alg halg
  obtain ⟨-, ⟨hls, -, -⟩, -, -, hmin⟩ := C10_network_solution_uses_full_covariance npR (npW_dims 2 [1]) (npW_rows 2 [1])
    (by show (2 : ℝ) ≠ 0; norm_num) PcN npR_sigma_inv (npW_regListOK 2 [1] (Or.inl rfl)) alg
    (C01.C01_net_inputgap_witness alg halg) a ha
  exact ⟨a, ha, hls, hmin⟩

/-- the off-diagonal covariance matters there: rows 0 and 1 are observations 1 and 3 of the first cluster, and
    `Σ₀₁ = cov(1,3) = 8 ≠ 0` (an entry at band distance 2 of the input matrix); the third row is another cluster -/
example : (Sigma npR : Matrix (Fin 3) (Fin 3) ℝ) (0 : Fin 3) (1 : Fin 3) = 8 ∧
    (Sigma npR : Matrix (Fin 3) (Fin 3) ℝ) (0 : Fin 3) (1 : Fin 3) ≠ 0 ∧
    (Sigma npR : Matrix (Fin 3) (Fin 3) ℝ) (0 : Fin 3) (2 : Fin 3) = 0 := by
  rw [show (Sigma npR : Matrix (Fin 3) (Fin 3) ℝ) = !![16, 8, 0; 8, 40, 0; 0, 0, 16] from npW_Sigma 2 [1]]
  refine ⟨rfl, ?_, rfl⟩
  show (8 : ℝ) ≠ 0
  norm_num

end witness

end Gama.Props.C10
