/-
  C02 / C20 — ONE refusal/acceptance statement for all four algorithms from hypotheses on the problem
  `(A, S, τ)` only, and the `.svd` case of the façade premises `Net.SolverHyp` / `AdjM.SolverHyp` from the
  input-side hypothesis `SingGap` (CLAUSES.md, audit #3, gap #5; C02 row 9; C20 row 1).

  First stage ("rank numerically unambiguous"), hypotheses on `A`:
      `GapAll A τ`      every exact Schur pivot of `AᵀA` (any order) is 0 or `> τ`   (envelope, cholesky, gso)
      `SingGap A 1 τ`   every singular value is 0 or `> τ·σ_max`                       (svd; `Props/C01/SvdGap.lean`)
  Second stage (the refusal test of the regularisation), hypothesis on `(A, S)`:
      `SDich A S τ`     every non-zero kernel vector `g` has `‖g_S‖² = 0` or `> τ²‖g‖²` — the premise `hgap` of
                        `C02_refusal_svd`, now a named condition (`Lemmas/Ls/SvdGapRefusal.lean`); `SMargin`
                        (`RankGap`'s second half) is `SDich ∧ Resolves`; trivially true for the exact test `τ = 0`.

    C02_four_answered_iff_resolves   gso, cholesky, envelope, svd on the SAME problem: each answers ⇔ the
                                     subset resolves the defect; hence all four answer or none does, and gso and
                                     svd throw `BadRegularization` ⇔ it does not.
    C02_four_refusal_band            without `SDich`: answered ⇒ `Resolves`, and `SMargin` ⇒ answered, for all
                                     four — what is undecided is exactly the band between the two
    C02_adj_svd_hyp_of_gap, C02_net_svd_hyp_of_gap, C02_adj_hyp_svd_iff_free
                                     `SolverHyp .svd` (definitions unchanged — they still spell `SvdCert`; kept
                                     in round 8, see `Props/C01/InputGap.lean` for why, where `InputGap` gives
                                     `SolverHyp` for all four algorithms and every façade theorem gets a `_gap` form)
                                     DERIVED from `RegOK ∧ SingGap` on the original `(A, P)`: every façade theorem
                                     taking `SolverHyp` (`C02_same_net`, `C02_same_adj`, `C03_net_cofactors`,
                                     `C03_adj_cofactors`, `C08_net_datum`, `C09_net_*`) holds for svd under the
                                     input-side hypothesis.

  "answered ⇒ `Resolves`" needs NO second-stage premise for envelope/cholesky/gso (for gso: a run that is not
  refused counted no second-stage error, so every norm it tested there was above the tolerance).
  NOT proved: that `Svd.decompose` returns (`hd`: convergence of the QR iteration), IEEE rounding.  The svd
  clause is for a subset list (as `C02_refusal_svd`).
-/
import Gama.Props.C02SvdDecompose
import Gama.Props.C01.SvdGap
import Gama.Lemmas.Ls.SvdGapRefusal
namespace Gama.Props.C02
open Gama Gama.Ls Gama.LS Matrix

set_option linter.unusedSectionVars false
set_option linter.unusedVariables false

section sqrtField
variable {K : Type} [Field K] [LinearOrder K] [IsStrictOrderedRing K] [Gso.SqrtField K]
attribute [local instance] Gama.Ls.sqrtFnOfSqrtField
attribute [local instance 2000] scalarOfField

/-- the second-stage dichotomy: antitone in `τ`, implied by the margin, gives the margin back on a
    resolving subset, and holds outright for the exact test -/
theorem C02_sdich_basic {m n : ℕ} (A : Matrix (Fin m) (Fin n) K) (S : Finset (Fin n)) (τ : K) :
    (SDich A S τ → ∀ τ', 0 ≤ τ' → τ' ≤ τ → SDich A S τ') ∧ (SMargin A S τ → SDich A S τ)
    ∧ (SDich A S τ → Resolves A S → SMargin A S τ) ∧ SDich A S 0 :=
  ⟨fun h τ' h0 hτ => h.mono h0 hτ, SMargin.dich, sMargin_of_dich, sDich_zero⟩

/-- **the refusal band, all four algorithms** (first-stage hypotheses only): whatever answers, the subset
    resolves the defect; and a subset that resolves it WITH MARGIN is answered by all four -/
theorem C02_four_refusal_band (p : Problem K) {τ : K} (hτ : GapThresholds τ) (hw : (Svd.wTol : K) ≤ τ)
    (hG : GapAll p.A τ) (hsv : SingGap p.A 1 τ)
    (l : List Nat) (hp : p.reg = .subset l) (hnd : l.Nodup) (hr : ∀ i ∈ l, 1 ≤ i ∧ i ≤ p.n)
    (o : EnvOrd) (hO : Env.OrdOK p.n o)
    (d : Svd.Dec K) (hd : Svd.decompose p.m p.n p.dense = .ok d) :
    (((∃ a, gsoSolve p = .ok a) → Resolves p.A p.S) ∧ ((∃ a, cholSolve p = .ok a) → Resolves p.A p.S)
      ∧ ((∃ x, (@envCore K (Gama.LS.fieldScalar Gso.SqrtField.sqrt) (Env.sqrtEps : K) (Env.sqrtEps : K) p.m p.n
          p.dense p.rhs p.dense p.rhs p.reg o).x = .ok x) → Resolves p.A p.S)
      ∧ ((∃ a, svdSolve p = .ok a) → Resolves p.A p.S))
    ∧ (SMargin p.A p.S τ →
        (∃ a, gsoSolve p = .ok a) ∧ (∃ a, cholSolve p = .ok a)
        ∧ (∃ x, (@envCore K (Gama.LS.fieldScalar Gso.SqrtField.sqrt) (Env.sqrtEps : K) (Env.sqrtEps : K) p.m p.n
            p.dense p.rhs p.dense p.rhs p.reg o).x = .ok x)
        ∧ ∃ a, svdSolve p = .ok a) := by
  have _ := lawfulSqrt_of_sqrtField (K := K)
  have hτ2 : τ * τ ≤ τ := by
    calc τ * τ ≤ τ * 1 := mul_le_mul_of_nonneg_left hτ.le_one hτ.nonneg
      _ = τ := mul_one τ
  have hcols : Gso.GapCols p :=
    Gso.gapCols_of_gapAll p (hG.mono (le_trans (mul_le_mul hτ.gso hτ.gso Gso.tolerance_nonneg hτ.nonneg) hτ2))
  have hUc : Chol.UnambiguousF (cholFact p) := unambiguousF_of_gap p (hG.mono hτ.chol1)
  have hUe := Env.factUnambiguous_of_gapAll (Gso.SqrtField.sqrt : K → K) (Env.sqrtEps : K) p.m p.n p.dense p.rhs o hO
    (hG.mono hτ.env)
  have hregE : Env.RegOK p.n o p.reg (p.reg.toFinset p.n) := by
    rw [hp]; exact Env.regOK_subset hO l hnd hr
  have hrr : Gso.regInRange p.n p.reg = true := by
    rw [hp]
    simp only [Gso.regInRange, List.all_eq_true, Bool.and_eq_true, decide_eq_true_eq]
    exact hr
  have hun := Gama.Props.C01.C01_svd_unambiguous_of_gap p hw hsv d hd
  have hsvd : ∀ a, svdSolve p = .ok a → Resolves p.A p.S := by
    intro a ha
    have e : svdSolve p = svdSolveCert true Svd.wTol d p := by
      show svdSolveWith true p = _
      unfold svdSolveWith
      rw [hd]
    rw [e] at ha
    obtain ⟨-, -, h3, -, -⟩ := Gama.Props.C20.C20_svd_subset_refusal (sq := (Gso.SqrtField.sqrt : K → K))
      sqrtLaw_of_sqrtField true Svd.wTol_nonneg p d l hp
      (Svd.decompose_svdCert _ sqrtLaw_of_sqrtField.mul_self sqrtLaw_of_sqrtField.nonneg Svd.wTol p.m p.n _ d hd hun)
      hnd hr
    exact h3 a ha
  refine ⟨⟨fun ⟨a, ha⟩ => gso_answers_resolves p hcols a ha,
    fun ⟨a, ha⟩ => chol_answers_resolves p hUc (Chol.GsSqrtExact.of_lawful p) a ha,
    fun ⟨x, hx⟩ => Env.envCore_answers_resolves (Gso.SqrtField.sqrt : K → K) (Env.sqrtEps : K) (Env.sqrtEps : K)
      p.m p.n p.dense p.rhs p.dense p.rhs p.reg o Gama.Props.C01.C01_gap2_isSqrt hO hUe Env.sqrtEps_pos
      Env.sqrtEps_pos (W := 1) (fun d hd => by simpa using hd) (by simp) hregE hx,
    fun ⟨a, ha⟩ => hsvd a ha⟩, fun hM => ?_⟩
  obtain ⟨hc, hg, he⟩ := Gama.Props.C01.C02_all_answer_of_gap p hτ hG hM hrr o hO hregE
  refine ⟨?_, ?_, he, ?_⟩
  · refine (gso_answer_or_refuse p hrr).1 ?_
    by_contra hne
    exact hg ((gso_answer_or_refuse p hrr).2 hne)
  · cases hs : cholSolve p with
    | ok a => exact ⟨a, rfl⟩
    | error e =>
      exfalso
      obtain ⟨-, hn⟩ := hc e hs
      rw [hp] at hn
      simp only [Chol.regList] at hn
      split at hn
      · cases hn
      · rename_i hall
        apply hall
        simp only [List.all_eq_true, decide_eq_true_eq]
        exact hr
  · have hgap : ∀ g : Fin p.n → K, p.A *ᵥ g = 0 → g ≠ 0 →
        normS p.S g = 0 ∨ (Svd.wTol : K) * Svd.wTol * (g ⬝ᵥ g) < normS p.S g :=
      fun g hg hne => Or.inr ((hM.mono Svd.wTol_nonneg hw) g hg hne)
    exact (C02_refusal_svdsolve p l hp hnd hr d hd hun hgap).2.2 hM.resolves

/-- **C02 / C20, refusal and acceptance, ALL FOUR ALGORITHMS from hypotheses on `(A, S, τ)` only**: under the
    first-stage hypotheses (`GapAll`, `SingGap`) and the second-stage dichotomy `SDich`, on one and the same
    problem gso, cholesky, the envelope and svd each answer ⇔ the regularisation subset resolves the defect —
    so all four answer or none does; gso and svd then throw exactly `BadRegularization` -/
theorem C02_four_answered_iff_resolves (p : Problem K) {τ : K} (hτ : GapThresholds τ) (hw : (Svd.wTol : K) ≤ τ)
    (hG : GapAll p.A τ) (hsv : SingGap p.A 1 τ) (hD : SDich p.A p.S τ)
    (l : List Nat) (hp : p.reg = .subset l) (hnd : l.Nodup) (hr : ∀ i ∈ l, 1 ≤ i ∧ i ≤ p.n)
    (o : EnvOrd) (hO : Env.OrdOK p.n o)
    (d : Svd.Dec K) (hd : Svd.decompose p.m p.n p.dense = .ok d) :
    ((∃ a, gsoSolve p = .ok a) ↔ Resolves p.A p.S) ∧ ((∃ a, cholSolve p = .ok a) ↔ Resolves p.A p.S)
    ∧ ((∃ x, (@envCore K (Gama.LS.fieldScalar Gso.SqrtField.sqrt) (Env.sqrtEps : K) (Env.sqrtEps : K) p.m p.n
        p.dense p.rhs p.dense p.rhs p.reg o).x = .ok x) ↔ Resolves p.A p.S)
    ∧ ((∃ a, svdSolve p = .ok a) ↔ Resolves p.A p.S)
    ∧ (gsoSolve p = .error .BadRegularization ↔ ¬ Resolves p.A p.S)
    ∧ (svdSolve p = .error .BadRegularization ↔ ¬ Resolves p.A p.S) := by
  obtain ⟨⟨h1, h2, h3, h4⟩, hacc⟩ := C02_four_refusal_band p hτ hw hG hsv l hp hnd hr o hO d hd
  have hM : Resolves p.A p.S → SMargin p.A p.S τ := sMargin_of_dich hD
  have hrr : Gso.regInRange p.n p.reg = true := by
    rw [hp]
    simp only [Gso.regInRange, List.all_eq_true, Bool.and_eq_true, decide_eq_true_eq]
    exact hr
  have hun := Gama.Props.C01.C01_svd_unambiguous_of_gap p hw hsv d hd
  have hgap : ∀ g : Fin p.n → K, p.A *ᵥ g = 0 → g ≠ 0 →
      normS p.S g = 0 ∨ (Svd.wTol : K) * Svd.wTol * (g ⬝ᵥ g) < normS p.S g :=
    hD.mono Svd.wTol_nonneg hw
  refine ⟨⟨h1, fun hres => (hacc (hM hres)).1⟩, ⟨h2, fun hres => (hacc (hM hres)).2.1⟩,
    ⟨h3, fun hres => (hacc (hM hres)).2.2.1⟩, ⟨h4, fun hres => (hacc (hM hres)).2.2.2⟩, ?_,
    (C02_refusal_svdsolve p l hp hnd hr d hd hun hgap).1⟩
  constructor
  · intro herr hres
    obtain ⟨a, ha⟩ := (hacc (hM hres)).1
    rw [ha] at herr
    cases herr
  · intro hn
    by_cases he : (Gso.runOf p).err = 0
    · exact absurd (h1 ((gso_answer_or_refuse p hrr).1 he)) hn
    · exact (gso_answer_or_refuse p hrr).2 he

/-! ### the `.svd` case of the façade premises from the input-side hypothesis -/

/-- **`AdjM.SolverHyp .svd` from `RegOK ∧ SingGap`** on the original weighted problem: `C02_same_adj`,
    `C03_adj_cofactors` hold for svd under the input-side hypothesis (definition of `SolverHyp` unchanged) -/
theorem C02_adj_svd_hyp_of_gap (p : Problem K) (hdim : (dimsOf p).sum = p.m)
    (P : Matrix (Fin p.m) (Fin p.m) K) (hP : p.C * P = 1) (hreg : Svd.RegOK p.reg) {τ : K}
    (hw : (Svd.wTol : K) ≤ τ) (h : SingGap p.A P τ) : AdjM.SolverHyp .svd p :=
  C02_adj_svd_hyp_decompose p hreg (Gama.Props.C01.C01_adj_svd_unambiguous_of_gap p hdim P hP hw h)

/-- **`Net.SolverHyp .svd` from `minx.Nodup ∧ SingGap`** on the assembled `(A, m0²·Σ⁻¹)`: `C02_same_net`,
    `C03_net_cofactors`, `C08_net_datum`, `C09_net_*` hold for svd under the input-side hypothesis -/
theorem C02_net_svd_hyp_of_gap (np : Net.NetProblem K)
    (hdim : (Net.dimsN np).sum = np.m) (hrows : RowsOK (Net.toProblem np)) (hm0 : np.m0 ≠ 0)
    (Pc : Matrix (Fin (Net.toProblem np).m) (Fin (Net.toProblem np).m) K) (hPc : Net.Sigma np * Pc = 1)
    (hnd : np.minx.Nodup) {τ : K} (hw : (Svd.wTol : K) ≤ τ)
    (h : SingGap (Net.toProblem np).A ((np.m0 * np.m0) • Pc) τ) : Net.SolverHyp .svd np :=
  C02_net_svd_hyp_decompose np hnd (Gama.Props.C01.C01_net_svd_unambiguous_of_gap np hdim hrows hm0 Pc hPc hw h)

end sqrtField

/-! ### non-vacuity -/

section examples
open Gama.Ls.Ex
attribute [local instance] Gama.Ls.sqrtFnOfSqrtField
attribute [local instance 2000] scalarOfField

/-- `C02_adj_svd_hyp_of_gap` on `Ex.pCV` (correlated observations, defect 1): `AdjM.SolverHyp .svd pCV` from
    `SingGap pCV.A PCV W_tol` — no premise on the run -/
example : AdjM.SolverHyp .svd pCV :=
  C02_adj_svd_hyp_of_gap pCV (by decide) PCV pCV_weight (List.nodup_singleton 1) le_rfl (pCV_singGap wTol_sq_lt_one)

/-- the second-stage dichotomy on `pCVdot` at `τ = 1/2` (kernel `t·(4,−3)`, `S = {1}`: `‖g_S‖² = 16t²`,
    `¼‖g‖² = 25t²/4`) — with the margin, since `S` resolves the defect; and `SingGap` at the same `τ` -/
theorem C02_sdich_witness : SDich pCVdot.A pCVdot.S (1 / 2 : ℝ) ∧ Resolves pCVdot.A pCVdot.S
    ∧ SMargin pCVdot.A pCVdot.S (1 / 2 : ℝ)
    ∧ SingGap pCVdot.A (1 : Matrix (Fin pCVdot.m) (Fin pCVdot.m) ℝ) (1 / 2 : ℝ) := by
  have key : ∀ g : Fin 2 → ℝ, (!![6, 8; 3, 4; 6, 8] : Matrix (Fin 3) (Fin 2) ℝ) *ᵥ g = 0 → g ≠ 0 →
      (1 / 2 : ℝ) * (1 / 2) * (g ⬝ᵥ g) < ∑ i ∈ ({0} : Finset (Fin 2)), g i * g i := by
    intro g hg hne
    have hk := pCVdot_ker g hg
    have h0 : g 0 ≠ 0 := by
      intro h0
      apply hne
      funext i
      fin_cases i
      · exact h0
      · show g 1 = 0
        rw [h0] at hk; linarith
    have hpos : 0 < g 0 * g 0 := lt_of_le_of_ne (mul_self_nonneg _) (Ne.symm (mul_self_ne_zero.2 h0))
    have hg1 : g 1 = -(3 / 4) * g 0 := by linarith
    simp only [Finset.sum_singleton, dotProduct, Fin.sum_univ_two, hg1]
    nlinarith
  have hM : SMargin pCVdot.A pCVdot.S (1 / 2 : ℝ) := by
    intro g hg hne
    rw [pCVdot_A] at hg
    rw [pCVdot_S]
    exact key g hg hne
  exact ⟨hM.dich, pCVdot_resolves, hM, pCVdot_singGap (by norm_num)⟩

/-- **joint witness of `C02_four_answered_iff_resolves`**: on `pCVdot` over ℝ (`A = [[6,8],[3,4],[6,8]]`, rank 1,
    `S = {1}`) EVERY hypothesis holds at `τ = 1/2` — thresholds, `W_tol ≤ τ`, the pivot gap `GapAll` (exact pivots
    81 / 144 and 0), `SingGap` (singular values 15 and 0), `SDich`, the list conditions, a valid envelope
    ordering, and the iteration returned (`dCV`) — so by the theorem all four algorithms answer it (`S` resolves
    the defect) and none throws `BadRegularization` -/
example : GapThresholds (1 / 2 : ℝ) ∧ (Svd.wTol : ℝ) ≤ 1 / 2 ∧ GapAll pCVdot.A (1 / 2 : ℝ)
    ∧ SingGap pCVdot.A (1 : Matrix (Fin pCVdot.m) (Fin pCVdot.m) ℝ) (1 / 2 : ℝ)
    ∧ pCVdot.reg = .subset [1] ∧ [1].Nodup ∧ (∀ i ∈ [1], 1 ≤ i ∧ i ≤ pCVdot.n)
    ∧ Env.OrdOK pCVdot.n (Env.idOrd 2)
    ∧ Svd.decompose pCVdot.m pCVdot.n pCVdot.dense = .ok dCV
    ∧ (∃ a, gsoSolve pCVdot = .ok a) ∧ (∃ a, cholSolve pCVdot = .ok a)
    ∧ (∃ x, (@envCore ℝ (Gama.LS.fieldScalar Gso.SqrtField.sqrt) (Env.sqrtEps : ℝ) (Env.sqrtEps : ℝ) pCVdot.m pCVdot.n
        pCVdot.dense pCVdot.rhs pCVdot.dense pCVdot.rhs pCVdot.reg (Env.idOrd 2)).x = .ok x)
    ∧ (∃ a, svdSolve pCVdot = .ok a)
    ∧ gsoSolve pCVdot ≠ .error .BadRegularization ∧ svdSolve pCVdot ≠ .error .BadRegularization := by
  have hw : (Svd.wTol : ℝ) ≤ 1 / 2 := le_trans Svd.wTol_le (by norm_num)
  have hsv := pCVdot_singGap (τ := 1 / 2) (by norm_num)
  have hO : Env.OrdOK pCVdot.n (Env.idOrd 2) := Gso.Ex.idOrd2_ok
  obtain ⟨h1, h2, h3, h4, h5, h6⟩ := C02_four_answered_iff_resolves pCVdot gapThresholds_half hw pCVdot_gapAll hsv
    C02_sdich_witness.1 [1] rfl (List.nodup_singleton 1) (by decide) (Env.idOrd 2) hO dCV pCVdot_decompose
  exact ⟨gapThresholds_half, hw, pCVdot_gapAll, hsv, rfl, List.nodup_singleton 1, by decide, hO, pCVdot_decompose,
    h1.2 pCVdot_resolves, h2.2 pCVdot_resolves, h3.2 pCVdot_resolves, h4.2 pCVdot_resolves,
    fun h => (h5.1 h) pCVdot_resolves, fun h => (h6.1 h) pCVdot_resolves⟩

end examples

end Gama.Props.C02
