/-
  C14 — Exclusions are reported and equal to deleting the excluded items.
  Property theorems only; helper lemmas live in Gama/Lemmas/Revise.lean.

  Model: Gama/Model/Revise.lean (hand) over Gama/Gen/Revision.lean (REGENERATED from
  local_revision.{h,cpp}, network.{h,cpp}, float.h).  Specification tables the generated code is
  compared with: Gama/Model/ReviseSpec.lean.
-/
import Gama.Lemmas.Revise
namespace Gama.Props.C14
open Gama Gama.Rev

variable {K : Type}

/-! ## revision is idempotent -/

/-- A forced second revision (`update(Points); revision_points(); revision_observations()`, which
    is what every removal triggers) changes nothing: statuses, active flags, cluster counts,
    `removed_points`/`removed_code`, `revised_obs_`, `removed_obs_`, `pocbod_`, `pocmer_` are the same;
    only the scratch list `undefined_xy_z_` (rebuilt from the points that are missing coordinates
    *now*; it has no reader in the code base) is empty afterwards. -/
theorem C14_revise_idempotent (n : Net K) : revise (revise n) = { revise n with undefined := [] } :=
  revise_revise n

/-! ## equal to deleting the excluded items -/

/-- What the linearisation reads (points taking part with statuses and coordinates; per non-empty
    cluster its kind and its active observations, in order) is the same for the input and for the
    input with the excluded items deleted (`delete`: unused coordinate groups lose their status,
    points with nothing left disappear, passive observations and emptied clusters disappear). -/
theorem C14_equals_deletion (n : Net K) : activeView (revise n) = activeView (revise (delete n)) :=
  (activeView_delete n).symm

/-- The generated requirement table of `LocalRevision` says exactly what the specification says:
    an observation survives iff every role is a point of the network, the coordinate groups its
    geometry reads are known and the groups that must take part are active. -/
theorem C14_requirements_are_spec (pts : List (Pt K)) (o : Obs K) : reqOk pts o = Spec.usable pts o :=
  reqOk_eq_usable pts o

/-! ## every exclusion is recorded -/

/-- Code path `set_unused_xy` / `set_unused_z` in `revision_points`: a coordinate group that took
    part before and does not afterwards is in `removed_points` with `rm_missing_xy` (1) /
    `rm_missing_z` (2).  (Uses the generated `recordMissingXY/Z`: a dropped `removed()` call in the
    C++ breaks this proof.) -/
theorem C14_reported_points (n : Net K) (p : Pt K) (hp : p ∈ n.pts) :
    (p.sxy.active = true → (revisePt p).sxy.active = false → (p.id, 1) ∈ (revise n).removed) ∧
    (p.sz.active = true → (revisePt p).sz.active = false → (p.id, 2) ∈ (revise n).removed) :=
  ⟨fun ha hu => reported_xy n p hp (missingXY_of p ha hu),
   fun ha hu => reported_z n p hp (missingZ_of p ha hu)⟩

/-- … and nothing else is recorded by a revision. -/
theorem C14_reported_points_only (n : Net K) (r : Nat × Nat) (h : r ∈ (revise n).removed) :
    r ∈ n.removed ∨ ∃ p ∈ n.pts, r.1 = p.id ∧
      ((r.2 = 1 ∧ missingXY p = true) ∨ (r.2 = 2 ∧ missingZ p = true)) :=
  removed_only n r h

/-- Every passive observation is in `rejected_observations()`, every active one in `revised_obs_`;
    `pocmer_` (the reported number of observations / project equations) is the number of active
    observations, and with the rejected ones they add up to all observations; every cluster's
    `activeObs()` is its number of active observations. -/
theorem C14_reported_observations (n : Net K) :
    (∀ c ∈ (revise n).cls, ∀ o ∈ c.obs, o.active = false → o ∈ (revise n).rejected) ∧
    (∀ c ∈ (revise n).cls, ∀ o ∈ c.obs, o.active = true → o ∈ (revise n).revised) ∧
    (revise n).pocmer = (revise n).revised.length ∧
    (revise n).pocmer + (revise n).rejected.length = (allObs (revise n).cls).length ∧
    (∀ c ∈ (revise n).cls, c.actObs = (c.obs.filter (·.active)).length) :=
  ⟨fun c hc o ho h => rejected_complete n c hc o ho h,
   fun c hc o ho h => revised_complete n c hc o ho h,
   (counts_revise n).1, (counts_revise n).2,
   fun c hc => actObs_revise n c hc⟩

/-- The code paths of a revision that set an observation passive, enumerated: each observation of a
    cluster is mapped by `LocalRevision::visit` and, in a `StandPoint` cluster whose active
    directions have fewer than two distinct targets, by `set_passive` on directions; an observation
    that comes out passive was passive already, or is not usable (specification), or is a direction
    of such a station. -/
theorem C14_passive_reasons (pts : List (Pt K)) (c : Cluster K) :
    ∃ g : Obs K → Obs K, (reviseCl pts c).obs = c.obs.map g ∧
      ∀ o, (g o).active = false →
        o.active = false ∨ Spec.usable pts o = false ∨
        (c.stand = true ∧ o.ty = .direction ∧ distinctTargets (c.obs.map (localRev pts)) < 2) :=
  ⟨_, reviseCl_obs pts c, fun o h => passive_reason pts c o h⟩

/-! ## absolute terms -/

section abs
variable [Scalar K]

/-- The generated `TestAbsTermVisitor` formulas are the specified positional misclosures
    (millimetres; angular: `|b·d/(10·R2G)|`, d horizontal, slope distance for zenith angles; linear:
    `|computed − observed|·1000`), and `d0` is the horizontal distance station–target. -/
theorem C14_abs_formula_is_spec (t : ObsType) (c : AbsCtx K) (a b : Bool) :
    Gen.absValue t c = Spec.misclosure t c ∧ Gen.absD0 a b c = Spec.d0 a b c :=
  ⟨absValue_eq_spec t c, absD0_eq_spec a b c⟩

/-- `remove_huge_abs_terms` treats the k-th revised observation with the k-th entry of the vector,
    and makes it passive **iff** its positional misclosure exceeds `tol_abs` — strictly, the boundary
    value stays — (and the entry is not the literal 0, C++ `if (double)`).
    `h0`: the literal `0` compares equal to itself in the scalar type.
    PARTIAL with respect to the property: the misclosure is evaluated on the entry `b` of the vector
    the code *consults*; see `C14_abs_term_iff` and `C14_abs_vec_rhs_or_defect` for which one. -/
theorem C14_abs_term_iff_partial (h0 : Scalar.beq (Scalar.ofNat 0 : K) (Scalar.ofNat 0) = true)
    (pts : List (Pt K)) (tol : K) :
    (∀ (os : List (Obs K)) (v : List K),
      (markObs pts tol os v).1 = (Spec.pairUp os v).map (Spec.applyMark pts tol)) ∧
    (∀ (o : Obs K) (b : K), o.active = true →
      ((Spec.applyMark pts tol (o, some b)).active = false ↔
        (tol < Spec.misclosure o.ty (absCtx pts o b)) ∧ Scalar.beq b (Scalar.ofNat 0) = false)) := by
  refine ⟨fun os v => markObs_eq pts tol os v, fun o b ha => ?_⟩
  rw [← outlying_iff h0 pts tol o b]
  unfold Spec.applyMark
  cases h : outlying pts tol o b <;> simp [ha, h]

/-- Full statement for the code that hands `rhs_` (the absolute terms) to the visitor: gate and
    removal consult the same vector `rhs`, so an observation is excluded exactly when the positional
    misclosure of its absolute term exceeds `tol_abs`. -/
theorem C14_abs_term_iff (h0 : Scalar.beq (Scalar.ofNat 0 : K) (Scalar.ofNat 0) = true)
    (n : Net K) (tol : K) (rhs bh : List K) :
    (removeHugeWith .rhs n tol rhs bh).cls =
        (if hugeFlag n tol rhs then markCls n.pts tol n.cls rhs else n.cls) ∧
    (hugeFlag n tol rhs = true ↔ ∃ ob ∈ n.revised.zip rhs,
        (tol < Spec.misclosure ob.1.ty (absCtx n.pts ob.1 ob.2)) ∧ Scalar.beq ob.2 (Scalar.ofNat 0) = false) := by
  constructor
  · unfold removeHugeWith consultedOf
    split <;> rfl
  · unfold hugeFlag
    rw [List.any_eq_true]
    constructor
    · rintro ⟨ob, hob, h⟩
      exact ⟨ob, hob, (outlying_iff h0 n.pts tol ob.1 ob.2).mp h⟩
    · rintro ⟨ob, hob, h⟩
      exact ⟨ob, hob, (outlying_iff h0 n.pts tol ob.1 ob.2).mpr h⟩

/-- For uncorrelated observations weighted with `stdev = sigma-apr` the homogenised vector equals the
    absolute terms (`bh = rhs`); then the code as it is now (whatever vector it consults) does what
    `C14_abs_term_iff` describes. -/
theorem C14_abs_term_iff_unit_weights_partial (n : Net K) (tol : K) (rhs bh : List K) (h : bh = rhs) :
    removeHuge n tol rhs bh = removeHugeWith .rhs n tol rhs bh := by
  subst h
  unfold removeHuge removeHugeWith consultedOf
  cases Gen.absVec <;> rfl

end abs

/-! ### the vector the code consults now

`LocalNetwork::test_abs_term` hands the member `b` to the visitor.  Inside `project_equations()`
(where the flag `huge_abs_terms()` is computed) `b` still equals `rhs_`; when `OutlyingAbsoluteTerms`
and `remove_huge_abs_terms` call `test_abs_term` later, `prepareProjectEquations()` has already
homogenised `b` by the Cholesky factor of the weight matrix (entry · sigma-apr / stdev for
uncorrelated observations).  For angular observations the misclosure is computed from that entry.
Witness (exact arithmetic, two directions A(0,0) → B(1,0), tol_abs = 1000 mm, sigma-apr 10):
absolute terms 700000 cc (stdev 50, misclosure ≈ 1099.6 mm) and 300000 cc (stdev 1, ≈ 471.2 mm);
homogenised 140000 and 3000000.  The first — beyond tol_abs — stays, the second — within — is removed.
Replayed on gama-local: corpus/C14/f1-weighted-blunder.json (known finding C14-F1).  The one-line
patch notes/proposed/C14-abs-term-rhs.diff (hand `rhs_` to the visitor) is not applied because it changes
a pinned test; with it `Gen.absVec = .rhs` is regenerated and the first disjunct holds. -/

def witnessPts : List (Pt Rat) :=
  [{ id := 1, sxy := .fixed, sz := .unused, hxy := true, hz := false, x := 0, y := 0, z := 0 },
   { id := 2, sxy := .fixed, sz := .unused, hxy := true, hz := false, x := 1, y := 0, z := 0 }]
def witnessObs : List (Obs Rat) :=
  [{ ty := .direction, frm := 1, to := 2, fs := 0, active := true, value := 0 },
   { ty := .direction, frm := 1, to := 2, fs := 0, active := true, value := 0 }]
def witnessNet : Net Rat :=
  { pts := witnessPts, cls := [{ stand := true, obs := witnessObs, actObs := 2 }], removed := [],
    undefined := [], revised := witnessObs, rejected := [], pocbod := 2, pocmer := 2 }

/-- Either the code consults `rhs_` (then `C14_abs_term_iff` is about the code), or the property
    fails on the witness: with the homogenised vector the observation whose positional misclosure
    exceeds `tol_abs` stays and the one within `tol_abs` is removed. -/
theorem C14_abs_vec_rhs_or_defect :
    Gen.absVec = .rhs ∨
    ((removeHuge witnessNet 1000 [700000, 300000] [140000, 3000000]).cls.map (fun c => c.obs.map (·.active))
        = [[true, false]] ∧
     (1000 : Rat) < Spec.misclosure .direction (absCtx witnessPts witnessObs[0] 700000) ∧
     ¬ ((1000 : Rat) < Spec.misclosure .direction (absCtx witnessPts witnessObs[1] 300000))) := by
  first
    | exact Or.inl rfl
    | exact Or.inr (by decide +kernel)

/-! ### non-vacuity: a network with an isolated point and a single-direction station -/

/-- points 1, 2 fixed, 3 adjusted, 4 adjusted without coordinates (isolated); station 1 observes
    directions to 2 and 3 and a distance to 3; station 3 a single direction to 1, a distance to 2 and
    a distance to the unknown id 9 -/
def exNet : Net Rat :=
  { pts := [{ id := 1, sxy := .fixed, sz := .unused, hxy := true, hz := false, x := 0, y := 0, z := 0 },
            { id := 2, sxy := .fixed, sz := .unused, hxy := true, hz := false, x := 3, y := 4, z := 0 },
            { id := 3, sxy := .free, sz := .unused, hxy := true, hz := false, x := 3, y := 0, z := 0 },
            { id := 4, sxy := .free, sz := .free, hxy := false, hz := false, x := 0, y := 0, z := 0 }],
    cls := [{ stand := true, actObs := 0, obs :=
              [{ ty := .direction, frm := 1, to := 2, fs := 0, active := true, value := 0 },
               { ty := .direction, frm := 1, to := 3, fs := 0, active := true, value := 1 },
               { ty := .distance, frm := 1, to := 3, fs := 0, active := true, value := 3 }] },
            { stand := true, actObs := 0, obs :=
              [{ ty := .direction, frm := 3, to := 1, fs := 0, active := true, value := 0 },
               { ty := .distance, frm := 3, to := 2, fs := 0, active := true, value := 4 },
               { ty := .distance, frm := 3, to := 9, fs := 0, active := true, value := 7 }] }],
    removed := [], undefined := [], revised := [], rejected := [], pocbod := 0, pocmer := 0 }

example : (revise exNet).removed = [(4, 1), (4, 2)] := by decide
example : (revise exNet).cls.map (fun c => c.obs.map (·.active)) = [[true, true, true], [false, true, false]] := by decide
example : ((revise exNet).pocbod, (revise exNet).pocmer, (revise exNet).rejected.length) = (3, 4, 2) := by decide
example : (revise exNet).cls.map (·.actObs) = [3, 1] := by decide
example : (delete exNet).pts.map (·.id) = [1, 2, 3] ∧ (delete exNet).cls.map (fun c => c.obs.length) = [3, 1] := by decide
example : (activeView (revise exNet)).2.map (fun c => c.2.length) = [3, 1] := by decide
/-- boundary: a distance A(0,0) → B(1,0) observed as 2 m has misclosure exactly 1000 mm: it stays for
    `tol_abs = 1000` (strict comparison) and goes for `tol_abs = 999` -/
example : outlying witnessPts (1000 : Rat) { ty := .distance, frm := 1, to := 2, fs := 0, active := true, value := 2 } 1 = false := by
  decide +kernel
example : outlying witnessPts (999 : Rat) { ty := .distance, frm := 1, to := 2, fs := 0, active := true, value := 2 } 1 = true := by
  decide +kernel
example : Scalar.beq (Scalar.ofNat 0 : Rat) (Scalar.ofNat 0) = true := by decide +kernel

end Gama.Props.C14
